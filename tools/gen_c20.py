#!/usr/bin/env python3
"""Generate the /*@unit headers of units/C20/macros.c (the body is hand-written below the marker).
One unit per (macro, compile-time DEBUG value).  Re-run after changing the lists; output is committed."""
import os, re
V = os.path.dirname(os.path.dirname(os.path.abspath(__file__)))
DEBUGS = [0, 1, 2, 3, 4, 5, 9999]
D = [("D_OPTIONS", "DEBUG_OPTIONS"), ("D_OBJ", "DEBUG_OBJ"), ("D_CONF", "DEBUG_CONF"), ("D_MEM", "DEBUG_MEM"),
     ("D_STRINGS", "DEBUG_STRINGS"), ("D_PARSE", "DEBUG_PARSE")]
hdr = []
def unit(name, dbg, defs, fn):
    hdr.append("/*@unit\nname: %s.DEBUG%s\ndebug: %s\ndefine: %s\nfuncs: %s\nbackend: sat\ntimeout: 120\nnative: self\nnative_link: none\n*/" % (name, dbg, dbg, ", ".join(defs), fn))
for dbg in DEBUGS:
    for m, lv in D:
        unit(m, dbg, ["K_DSTMT", "VM=%s" % m, "VL=%s" % lv, "VCT=%s" % lv], "w_dstmt")
    unit("D_NEVER", dbg, ["K_DSTMT", "VM=D_NEVER", "VL=0", "VNEVER"], "w_dstmt")
    for n in range(1, 10):
        unit("DPRINTF%d" % n, dbg, ["K_DSTMT", "VM=DPRINTF%d" % n, "VL=%d" % n, "VCT=1"], "w_dstmt")
    unit("ASSERT", dbg, ["K_ASSERT"], "w_assert")
    unit("ASSERT_RVAL", dbg, ["K_ASSERT_RVAL"], "w_assert_rval")
    unit("REQUIRE", dbg, ["K_REQUIRE"], "w_require")
    unit("REQUIRE_RVAL", dbg, ["K_REQUIRE_RVAL"], "w_require_rval")
    unit("ASSERT_NOTREACHED", dbg, ["K_NOTREACHED"], "w_notreached")
    unit("ASSERT_NOTREACHED_RVAL", dbg, ["K_NOTREACHED_RVAL"], "w_notreached_rval")
p = os.path.join(V, "units", "C20", "macros.c")
body = open(p).read()
body = body[body.index("/* ==== BODY"):]
open(p, "w").write("/* GENERATED HEADERS (tools/gen_c20.py): one unit per (macro, compile-time DEBUG) */\n" + "\n".join(hdr) + "\n" + body)
print(len(hdr), "units")
