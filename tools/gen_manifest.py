#!/usr/bin/env python3
"""Regenerate MANIFEST.json from units/<PROP>/prop.json files + not_applicable.json.
A property is claimed iff units/<PROP>/prop.json exists and the directory holds at least one unit."""
import json, os, glob, re
V = os.path.dirname(os.path.dirname(os.path.abspath(__file__)))
props = [json.loads(l)["id"] for l in open(os.path.join(V, "properties.jsonl"))]
na_path = os.path.join(V, "not_applicable.json")
na_reasons = json.load(open(na_path)) if os.path.exists(na_path) else {}
checks, na = [], []
for p in props:
    pj = os.path.join(V, "units", p, "prop.json")
    has_units = bool(glob.glob(os.path.join(V, "units", p, "*.c")))
    if os.path.exists(pj) and has_units:
        d = json.load(open(pj))
        checks.append({
            "property_id": p,
            "quick_cmd": "./check %s --tier quick" % p,
            "thorough_cmd": "./check %s --tier thorough" % p,
            "evidence_file": "/verif/evidence/%s.json" % p,
            "replay_cmd_template": "./check replay {path}",
            "engine": "cbmc-contracts",
            "level_claimed": {"category": d["level"], "text": d["text"], "design_ref": d.get("design_ref", "DESIGN.md section 3, " + p)},
            "level_note": d["note"],
            "technique": d.get("technique", "contract-based deductive verification: CBMC code contracts (DFCC) on the real C sources"),
        })
    else:
        na.append({"property_id": p, "reason": na_reasons.get(p, "no contract units built yet for this property (work in progress); not claimed")})
m = {
    "version": 1,
    "setup_cmd": "./setup.sh",
    "hooks": {"guard": "LIBAST_VERIF", "enable": "none needed: unit TUs #include the real /repo/src/*.c files, so no hook is compiled in",
              "baseline_off_cmd": "/verif/tools/run_baseline.sh /repo", "source_commits": [], "add_only": True},
    "engines": [{"name": "cbmc-contracts", "path": "/verif/check",
                 "serves_properties": [c["property_id"] for c in checks],
                 "kind_free_text": "goto-cc + goto-instrument --dfcc (function and loop contracts) + cbmc 6.11.0 with minisat/cadical/z3/cvc5; bounded stand-ins use --unwind with unwinding assertions and are labelled B"}],
    "checks": checks,
    "not_applicable": na,
    "notes": "See DESIGN.md. Exit 0 = all obligations discharged (KNOWN-FINDING lines for recorded open defects); 1 = VIOLATION; 2 = undecided (never a violation). known_findings/<id>.json lists open and fixed genuine defects.",
}
json.dump(m, open(os.path.join(V, "MANIFEST.json"), "w"), indent=1)
print("MANIFEST.json: %d checks, %d not claimed" % (len(checks), len(na)))
