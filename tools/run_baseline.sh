#!/bin/bash
# Build /repo (guard off: there are no hooks) and run its test suite; compare the set of
# passed tests with the 119 stable ones of /root/.vp/BASELINE.json.  Exit 0 iff all 119 pass.
repo=${1:-/repo}
cd "$repo" || exit 2
[ -f config.h ] || ./configure >/dev/null 2>&1 || exit 2
make -j8 >/dev/null 2>&1 || { echo "build failed"; exit 2; }
out=$(make -C test test 2>&1)
python3 - "$out" <<'PY'
import json,sys,re
out=sys.argv[1]
base=json.load(open('/root/.vp/BASELINE.json'))['stable_pass']
passed=set()
for line in out.splitlines():
    m=re.match(r'^(Testing .*?)\.\.\.(.*)$',line)
    if m and 'passed' in m.group(2) and 'failed' not in m.group(2):
        passed.add(m.group(1))
missing=[b for b in base if b not in passed]
print("stable tests passed: %d/%d"%(len(base)-len(missing),len(base)))
for m in missing: print("  MISSING:",m)
sys.exit(1 if missing else 0)
PY
