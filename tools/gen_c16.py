#!/usr/bin/env python3
"""gen_c16.py — generate units/C16/null_<file>.c : one unit per (entry point, guarded pointer
parameter) with that argument NULL and every other argument valid.

Which (function, parameter) pairs are in scope is decided HERE, ONCE, from the tree the
generator is run on, and the output is committed: a later change that removes a guard makes
the committed unit fail instead of silently dropping it.

In scope:  * the primary object argument (first pointer parameter) of every function defined
             in the listed source files that is exported or sits in a class table;
           * every other pointer parameter for which the code carries an ASSERT/REQUIRE guard
             whose return expression is a failure literal (FALSE, NULL, -1, NaN, a SPIF_CMP_*).
Out of scope (listed in units/C16/EXCLUDED.txt): show() methods (documented to render NULL
objects as text, which allocates), guards whose documented fallback is not a failure value
(e.g. init_from_ptr(self, NULL) initialises an empty string and returns TRUE), functions
without pointer parameters, variadic tails.

Expected value comes from the RETURN TYPE (property statement), not from the code.
"""
import os, re, sys
V = os.path.dirname(os.path.dirname(os.path.abspath(__file__)))
sys.path.insert(0, os.path.join(V, "tools"))
import annotate as ann
REPO = os.environ.get("VERIF_REPO", "/repo")

FILES = ["obj.c", "str.c", "ustr.c", "mbuff.c", "objpair.c", "tok.c", "url.c", "regexp.c", "socket.c",
         "array.c", "linked_list.c", "dlinked_list.c", "strings.c", "conf.c", "msgs.c"]
CONTAINER = {"array.c", "linked_list.c", "dlinked_list.c", "objpair.c", "tok.c", "url.c", "regexp.c", "socket.c"}

PTR_TYPES = re.compile(r'^(const\s+)?(spif_\w+_t|FILE\s*\*|char\s*\*|void\s*\*|unsigned char\s*\*|spif_charptr_t\s*\*|ctx_handler_t|spifconf_func_ptr_t|regex_t\s*\*\*|\w+\s*\*+)$')
SCALAR_SPIF = {"spif_bool_t", "spif_cmp_t", "spif_stridx_t", "spif_listidx_t", "spif_memidx_t", "spif_char_t", "spif_uchar_t",
               "spif_int32_t", "spif_uint32_t", "spif_int16_t", "spif_uint16_t", "spif_int8_t", "spif_uint8_t", "spif_int64_t",
               "spif_uint64_t", "spif_long_t", "spif_ulong_t", "spif_int_t", "spif_uint_t", "spif_short_t", "spif_ushort_t",
               "spif_sockfd_t", "spif_sockfamily_t", "spif_socktype_t", "spif_sockproto_t", "spif_sockport_t", "spif_sockaddr_len_t",
               "spif_classname_t_NOT"}
IDX_TYPES = {"spif_stridx_t", "spif_listidx_t", "spif_memidx_t", "spif_ustridx_t", "int", "long", "spif_int32_t", "signed int"}


def is_ptr(t):
    t = t.strip()
    t = re.sub(r'\bregister\b', '', t).strip()
    if t in SCALAR_SPIF:
        return False
    if t.endswith('*'):
        return True
    if re.match(r'^(const\s+)?spif_\w+_t$', t):
        return True
    if t in ("ctx_handler_t", "spifconf_func_ptr_t"):
        return True
    return False


def parse_defs(src):
    code = ann._blank_noncode(src)
    out = []
    for m in re.finditer(r'^((?:static\s+)?[A-Za-z_][\w \t\*]*?)\s*\n([A-Za-z_]\w*)\s*\(([^)]*)\)\s*\n\{', code, re.M):
        rtype, name, params = m.group(1).strip(), m.group(2), m.group(3)
        b0 = m.end() - 1
        b1 = ann._match(code, b0, '{', '}')
        ps = []
        variadic = False
        if params.strip() not in ("void", ""):
            for p in params.split(','):
                p = p.strip()
                if p == '...':
                    variadic = True
                    continue
                p = re.sub(r'\bregister\b', '', p).strip()
                mm = re.match(r'^(.*?)(\w+)$', p)
                ps.append((mm.group(1).strip(), mm.group(2)))
        out.append(dict(rtype=rtype, name=name, params=ps, variadic=variadic, body=src[b0:b1 + 1]))
    return out


FAIL_LIT = re.compile(r'^\(*\s*(\(\s*[\w \*]+\s*\)\s*)*\(*\s*(FALSE|NULL|-\s*1|NAN|SPIF_CMP_\w+|SPIF_NULL_TYPE\(\w+\)|SPIF_NULL_TYPE_C\([^)]*\)|SPIF_NULLSTR_TYPE\(\w+\))\s*\)*$')


def guards(body, pname):
    """-> list of (macro, retexpr or None) guarding pname"""
    res = []
    for m in re.finditer(r'\b(ASSERT_RVAL|REQUIRE_RVAL|ASSERT|REQUIRE|SPIF_OBJ_COMP_CHECK_NULL)\s*\(', body):
        st = m.end() - 1
        try:
            en = ann._match(body, st, '(', ')')
        except Exception:
            continue
        inner = body[st + 1:en]
        mac = m.group(1)
        # split top-level commas
        parts, depth, cur = [], 0, ''
        for ch in inner:
            if ch == '(':
                depth += 1
            elif ch == ')':
                depth -= 1
            if ch == ',' and depth == 0:
                parts.append(cur)
                cur = ''
            else:
                cur += ch
        parts.append(cur)
        cond = parts[0]
        if mac == "SPIF_OBJ_COMP_CHECK_NULL":
            if re.search(r'\b%s\b' % pname, inner):
                res.append((mac, None))
            continue
        if not re.search(r'(ISNULL\s*\(\s*%s\s*\))|(\b%s\s*!=)|(!=\s*%s\b)|(^\s*%s\s*$)|(^\s*\(\s*%s\s*\)\s*$)' % ((pname,) * 5), cond):
            continue
        ret = parts[1].strip() if len(parts) > 1 else None
        res.append((mac, ret))
    return res


def expected(rtype, fname, pidx, nparams_ptr):
    """assertion text on result r (from the return type), or None for void"""
    t = rtype.replace("static", "").strip()
    if t == "void":
        return None
    if t == "spif_bool_t":
        return "r == FALSE"
    if fname.endswith("_count"):
        return "r == 0"      # reviewed exception: a NULL container has no elements (code documents (spif_listidx_t) NULL)
    if t == "spif_cmp_t":
        # NULL ordering: NULL before every object
        return "r == SPIF_CMP_LESS" if pidx == 0 else "r == SPIF_CMP_GREATER"
    if t == "double":
        return "r != r || r == (double) NAN"
    if t == "spif_classname_t":
        return "r == NULL || r == (spif_classname_t) SPIF_NULLSTR_TYPE(classname)"
    if t == "size_t":
        return "r == (size_t) -1"
    if t in ("unsigned char",):
        return "r == (unsigned char) -1"
    if t in IDX_TYPES:
        return "r == -1"
    if is_ptr(t):
        return "r == NULL"
    return "r == (%s) -1" % t


def main():
    outdir = os.path.join(V, "units", "C16")
    os.makedirs(outdir, exist_ok=True)
    excluded = []
    total = 0
    for f in FILES:
        src = open(os.path.join(REPO, "src", f), encoding="latin-1").read()
        table_funcs = set(re.findall(r'\(spif_func_t\)\s*(\w+)', src))
        defs = parse_defs(src)
        units = []
        compiled = None
        obj = os.path.join(REPO, "src", f[:-2] + ".o")
        if os.path.exists(obj):
            import subprocess
            compiled = set(l.split()[-1] for l in subprocess.run(["nm", obj], stdout=subprocess.PIPE).stdout.decode().splitlines()
                           if len(l.split()) >= 3 and l.split()[-2] in "Tt")
        for d in defs:
            name = d["name"]
            static = d["rtype"].startswith("static")
            if static and name not in table_funcs:
                continue
            if not re.match(r'^(spif_|spiftool_|spifconf_|libast_|strrev$)', name):
                continue
            if name.endswith("_show"):
                excluded.append("%s:%s show() renders NULL objects as text (documented; allocates)" % (f, name))
                continue
            if compiled is not None and name not in compiled:
                excluded.append("%s:%s not compiled in the configured build" % (f, name))
                continue
            ptr_idx = [i for i, (t, n) in enumerate(d["params"]) if is_ptr(t)]
            if not ptr_idx:
                continue
            for k, i in enumerate(ptr_idx):
                t, n = d["params"][i]
                g = guards(d["body"], n)
                # primary object argument = a first parameter called self (the object protocol's receiver);
                # constructors (new_from_*, iterator_new(subject)) and plain utility functions have none
                primary = (i == 0 and n == "self")
                if not g:
                    if primary:
                        units.append((d, i, "primary argument, no guard found at generation time"))
                    continue
                ok = [x for x in g if x[1] is None or FAIL_LIT.match(x[1])]
                if ok:
                    units.append((d, i, "guard: %s" % ok[0][0]))
                else:
                    excluded.append("%s:%s(%s=NULL) documented fallback is not a failure value: returns %s" % (f, name, n, g[0][1]))
        if not units:
            continue
        base = f[:-2]
        lines = ["/* GENERATED by tools/gen_c16.py from the tree at generation time; committed.  C16: NULL-argument calls",
                 " * fail soft.  One unit per (entry point, guarded pointer parameter): that argument NULL, the others valid",
                 " * (scalars arbitrary; pointers to zero-filled 160-byte objects = the empty object of every class, the empty",
                 " * C string, an idle FILE).  Runtime debug level fully symbolic: at level 0 the guard returns; at level >= 1",
                 " * ASSERT ends the process through libast_fatal_error (stub: path ends), every surviving path must still meet",
                 " * the postcondition.  Plain loop-free cbmc runs: the NULL path returns before any loop or dispatch. */"]
        for d, i, why in units:
            lines.append("/*@unit\nname: %s.arg%d\ndefine: U_%s_%d\nsrc: %s\nfuncs: %s\nbackend: sat\ntimeout: 120\nflags: --unwind 2 --unwinding-assertions\nchecks_off: --conversion-check --pointer-overflow-check\nnative: self\n*/" % (d["name"], i, d["name"], i, f, d["name"]))
        if f == "msgs.c":
            lines.append("#define VERIF_REAL_MSGS\nunsigned int libast_debug_level;\nunsigned long libast_debug_flags;")
        lines.append('#include "c16_prelude.h"')
        if f in CONTAINER:
            lines.append('#include "velem.h"')
        lines.append('#include "rawsrc/%s"   /* the real file, no annotations needed (plain loop-free runs) */' % f)
        lines.append("")
        for d, i, why in units:
            args = []
            decls = []
            for j, (t, n) in enumerate(d["params"]):
                tt = re.sub(r'\bregister\b', '', t).strip()
                if j == i:
                    args.append("(%s) NULL" % tt)
                elif is_ptr(tt):
                    decls.append("    void *b%d = c16_blob();" % j)
                    args.append("(%s) b%d" % (tt, j))
                else:
                    decls.append("    C16_ARB(%s, a%d);" % (tt, j))
                    args.append("a%d" % j)
            exp = expected(d["rtype"], d["name"], 0 if i == min(k for k, (t, n) in enumerate(d["params"]) if is_ptr(t)) else 1, 0)
            rt = d["rtype"].replace("static", "").strip()
            lines.append("#ifdef U_%s_%d   /* %s */" % (d["name"], i, why))
            lines.append("void harness(void)\n{")
            lines += decls
            lines.append("    C16_PRE();")
            call = "%s(%s)" % (d["name"], ", ".join(args))
            if exp is None:
                lines.append("    %s;" % call)
            else:
                lines.append("    %s r = %s;" % (rt, call))
                lines.append('    __CPROVER_assert(%s, "C16 failure value: %s");' % (exp, exp.replace('"', "'")))
            for j, (t, n) in enumerate(d["params"]):
                if j != i and is_ptr(re.sub(r'\bregister\b', '', t).strip()):
                    lines.append("    C16_UNCHANGED(b%d);" % j)
            lines.append("    C16_POST();\n    VERIF_CANARY();\n}\n#endif")
        open(os.path.join(outdir, "null_%s.c" % base), "w").write("\n".join(lines) + "\n")
        total += len(units)
        print("%-16s %4d units" % (f, len(units)))
    open(os.path.join(outdir, "EXCLUDED.txt"), "w").write("\n".join(sorted(set(excluded))) + "\n")
    print("total", total, "units;", len(set(excluded)), "exclusions")


if __name__ == "__main__":
    main()
