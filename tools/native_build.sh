#!/bin/bash
# usage: native_build.sh <demo.c> <out-exe> [repo]   — build a demo against /repo's current sources with ASan+UBSan
repo=${3:-/repo}
exec clang -g -O0 -fsanitize=address,undefined -fno-sanitize-recover=undefined -DHAVE_CONFIG_H -w \
  -I$repo -I$repo/include -I$repo/include/libast -o "$2" "$1" \
  $repo/src/{array,builtin_hashes,conf,debug,dlinked_list,file,linked_list,mbuff,mem,msgs,obj,objpair,options,regexp,socket,str,strings,tok,url,ustr}.c -lX11 -lpcre -ldl -lm
