#!/usr/bin/env python3
"""Regenerate the generated part of DESIGN.md (between the AUTO markers): per-property status from evidence/*.json,
fixed/open findings from known_findings/*.json, seeded changes from seeded/*/meta.json."""
import json, glob, os, re, subprocess
V = os.path.dirname(os.path.dirname(os.path.abspath(__file__)))
out = []
out.append("### 9.1 Per-property status (from the last evidence files)\n")
out.append("| id | level | units (P/B) | P obligations discharged | B obligations | quick wall s | open findings |")
out.append("|---|---|---|---|---|---|---|")
props = [json.loads(l)["id"] for l in open(os.path.join(V, "properties.jsonl"))]
for p in props:
    e = os.path.join(V, "evidence", p + ".json")
    if not os.path.exists(e):
        out.append("| %s | not claimed | | | | | |" % p)
        continue
    d = json.load(open(e)); c = d["coverage"]
    nP = sum(1 for u in c["units"] if u["tier"] == "P"); nB = sum(1 for u in c["units"] if u["tier"] == "B")
    out.append("| %s | %s | %d / %d | %d / %d | %d / %d | %s | %d |" % (p, d["level"], nP, nB, c["discharged"], c["obligations"],
               c.get("bounded_discharged", 0), c.get("bounded_obligations", 0), d["wall_s"], len(c.get("known_findings", []))))
out.append("\n### 9.2 Genuine defects found by the contracts and repaired (`fix:` commits in /repo)\n")
out.append("| property | commit | what failed | demo |")
out.append("|---|---|---|---|")
seen = set()
nopen = []
for f in sorted(glob.glob(os.path.join(V, "known_findings", "*.json"))):
    d = json.load(open(f))
    for e in d.get("fixed", []):
        key = (e.get("commit"), e["id"])
        if key in seen:
            continue
        seen.add(key)
        what = re.sub(r'^fixed: property=\S+ \S+ ', '', e.get("line", ""))
        out.append("| %s | %s | %s | %s |" % (e.get("property", os.path.basename(f).split('.')[0]), e.get("commit"), what.replace("|", "/")[:300], (e.get("demo") or "").replace("|", "/")))
    for e in d.get("open", []):
        nopen.append((os.path.basename(f), e["id"], e.get("what", "")))
out.append("\n%d repaired defects (%d distinct fix commits).\n" % (len(seen), len(set(k[0] for k in seen))))
out.append("### 9.3 Open known findings\n")
if nopen:
    for f, i, w in nopen:
        out.append("* %s `%s`: %s" % (f, i, w))
else:
    out.append("None.")
out.append("\n### 9.4 Seeded changes (independent sub-agents; each confirmed by the lead) and what the checks said\n")
tbl = subprocess.run(["python3", os.path.join(V, "tools", "seed_table.py")], stdout=subprocess.PIPE).stdout.decode()
out.append(tbl)
p = os.path.join(V, "DESIGN.md")
s = open(p).read()
B, E = "<!-- AUTO-BEGIN -->", "<!-- AUTO-END -->"
block = B + "\n" + "\n".join(out) + "\n" + E
if B in s:
    s = s[:s.index(B)] + block + s[s.index(E) + len(E):]
else:
    s += "\n\n--------------------------------------------------------------------------------\n\n## 9. Generated status tables (tools/gen_design_tables.py)\n\n" + block + "\n"
open(p, "w").write(s)
print("DESIGN.md tables regenerated: %d fixed, %d open" % (len(seen), len(nopen)))
