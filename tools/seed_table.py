#!/usr/bin/env python3
"""Markdown table of the seeded changes under /verif/seeded and what the checks said (from meta.json)."""
import json, glob, os
rows = []
for p in sorted(glob.glob('/verif/seeded/C*-s*/meta.json')):
    m = json.load(open(p))
    cr = m.get("check_result")
    if isinstance(cr, dict):
        res = "exit %s: %s" % (cr.get("exit"), (cr.get("lines") or "").replace("property=%s " % m["breaks_property"], "").replace(";", "; ")[:220])
    else:
        res = str(cr)[:260]
    rows.append("| %s | %s | %s |" % (m["id"], m.get("needs_to_manifest", "")[:200].replace("|", "/"), res.replace("|", "/")))
print("| seed | needs, to manifest | check result |\n|---|---|---|")
print("\n".join(rows))
