#!/bin/bash
# apply_fix.sh <diff> <demo.c|-> <message-file>  : lead-only. Demo must fail before and pass after; suite must stay 119/119.
mkdir -p /tmp/lead_nat
diff=$1; demo=$2; msgf=$3
cd /repo || exit 2
git diff --quiet || { echo "repo dirty"; exit 2; }
git apply --check "$diff" || { echo "does not apply"; exit 2; }
if [ "$demo" != "-" ]; then /verif/tools/native_build.sh "$demo" /tmp/lead_nat/fixdemo >/dev/null 2>&1 || echo "demo build failed (before)"; ASAN_OPTIONS=detect_leaks=0 timeout 60 /tmp/lead_nat/fixdemo >/tmp/lead_nat/fixdemo.before 2>&1; b=$?; else b=na; fi
git apply "$diff"
if ! /verif/tools/run_baseline.sh >/tmp/lead_nat/fixtests 2>&1; then cat /tmp/lead_nat/fixtests; git checkout -- .; echo "TESTS FAIL -> reverted"; exit 1; fi
if [ "$demo" != "-" ]; then /verif/tools/native_build.sh "$demo" /tmp/lead_nat/fixdemo >/dev/null 2>&1 || echo "demo build failed (after)"; ASAN_OPTIONS=detect_leaks=0 timeout 60 /tmp/lead_nat/fixdemo >/tmp/lead_nat/fixdemo.after 2>&1; a=$?; else a=na; fi
echo "demo before=$b after=$a; $(head -1 /tmp/lead_nat/fixtests)"
if [ "$demo" != "-" ] && { [ "$b" = "0" ] || [ "$a" != "0" ]; }; then echo "DEMO does not discriminate (before=$b after=$a) -> NOT committed, left applied for inspection"; exit 3; fi
git add -A src include; git commit -q -F "$msgf"; git log --oneline | head -1
