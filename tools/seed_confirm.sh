#!/bin/bash
# seed_confirm.sh <seed-name> <PROP> <count> [first-index-in-/verif/seeded]
# Lead's own confirmation of seeded changes produced by an independent sub-agent in /tmp/seed_<name>
# (patches/demos in /tmp/seed_<name>_out): for each patch i: demo passes on clean HEAD, patch applies, library
# builds, 119/119 stable tests pass, demo fails; then the property's check is run against the patched worktree.
# Stores /verif/seeded/<PROP>-s<k>/{patch.diff,demo.c,meta.json}.
name=$1; prop=$2; n=$3; k0=${4:-1}
W=/tmp/seed_$name; O=/tmp/seed_${name}_out
SRCS=$(echo $W/src/{array,builtin_hashes,conf,debug,dlinked_list,file,linked_list,mbuff,mem,msgs,obj,objpair,options,regexp,socket,str,strings,tok,url,ustr}.c)
bd() { clang -g -fsanitize=address,undefined -DHAVE_CONFIG_H -w -I$W -I$W/include -I$W/include/libast $O/demo$1.c $SRCS -lX11 -lpcre -ldl -lm -o $O/demo$1.bin 2>$O/demo$1.build.log; }
cd $W || exit 2
git checkout -q -- .
# bring the worktree to /repo's current HEAD so that the check sees the same base as /repo
git -C $W checkout -q --detach $(git -C /repo rev-parse HEAD) 2>/dev/null
make -j8 >/dev/null 2>&1
for i in $(seq 1 $n); do
  k=$((k0 + i - 1)); id=$prop-s$k
  git checkout -q -- .
  bd $i; timeout 120 $O/demo$i.bin >/dev/null 2>&1; clean=$?
  if ! git apply --check $O/patch$i.diff 2>/dev/null; then echo "$id: patch does not apply to current HEAD"; continue; fi
  git apply $O/patch$i.diff
  make -j8 >/dev/null 2>&1; build=$?
  tests=$(/tmp/seedtools/run_tests.sh $W | head -1)
  bd $i; timeout 120 $O/demo$i.bin >$O/demo$i.patched.out 2>&1; patched=$?
  echo "$id: demo clean=$clean patched=$patched build=$build; $tests"
  out=$(cd /verif && VERIF_REPO=$W ./check $prop --no-evidence 2>&1)
  rc=$?
  viol=$(echo "$out" | grep -E "^VIOLATION|^UNDECIDED" | sed 's/replay=\/verif\/replays\/[A-Z0-9]*\///' | head -8 | tr '\n' ';')
  echo "    check $prop exit=$rc  $viol"
  mkdir -p /verif/seeded/$id
  cp $O/patch$i.diff /verif/seeded/$id/patch.diff; cp $O/demo$i.c /verif/seeded/$id/demo.c
  python3 - "$id" "$prop" "$clean" "$patched" "$build" "$tests" "$rc" "$viol" "$name" "$i" <<'PY'
import json, sys, os
id, prop, clean, patched, build, tests, rc, viol, name, i = sys.argv[1:11]
p = '/verif/seeded/%s/meta.json' % id
old = json.load(open(p)) if os.path.exists(p) else {}
try:
    needs = json.load(open('/verif/seeded/needs.json'))
    if id in needs:
        old["needs_to_manifest"] = needs[id]
except Exception:
    pass
meta = {"id": id, "breaks_property": prop,
        "needs_to_manifest": old.get("needs_to_manifest", "see README excerpt of the seeding agent (/verif/seeded/%s-README.md, change %s)" % (prop, i)),
        "source": "independent sub-agent given only the property text and its own worktree (seed_%s, change %s)" % (name, i),
        "confirmed_by_lead": {"demo_exit_clean": int(clean), "demo_exit_patched": int(patched), "library_builds": build == "0", "suite": tests,
                              "how": "tools/seed_confirm.sh: scratch worktree at /repo HEAD, make, tools/run_baseline.sh, clang ASan/UBSan demo"},
        "check_result": {"command": "VERIF_REPO=<patched worktree> ./check %s" % prop, "exit": int(rc), "lines": viol}}
json.dump(meta, open(p, 'w'), indent=1)
PY
done
git checkout -q -- .; make -j8 >/dev/null 2>&1
[ -f $O/README.md ] && cp $O/README.md /verif/seeded/$prop-README-$name.md
exit 0
