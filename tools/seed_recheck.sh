#!/bin/bash
# seed_recheck.sh <seed-id> [jobs]: apply /verif/seeded/<id>/patch.diff to a scratch worktree of /repo HEAD, run the
# property's check against it, record exit code and VIOLATION/UNDECIDED lines in meta.json (check_result), clean up.
id=$1; jobs=${2:-10}
d=/verif/seeded/$id
prop=$(python3 -c "import json;print(json.load(open('$d/meta.json'))['breaks_property'])")
wt=$(mktemp -d /tmp/seedrc.XXXXXX); rmdir $wt
git -C /repo worktree add -q $wt HEAD || exit 2
cp /repo/config.h $wt/; cp /repo/include/libast/{sysdefs,types}.h $wt/include/libast/
if ! git -C $wt apply $d/patch.diff 2>/dev/null; then echo "$id: patch does not apply to HEAD"; git -C /repo worktree remove --force $wt; exit 3; fi
out=$(cd /verif && VERIF_REPO=$wt ./check $prop --no-evidence --jobs $jobs 2>&1); rc=$?
lines=$(echo "$out" | grep -E "^VIOLATION|^UNDECIDED" | sed 's/replay=\/verif\/replays\/[A-Z0-9]*\///' | head -8 | tr '\n' ';')
echo "$id: check $prop exit=$rc $lines"
python3 - "$d/meta.json" "$prop" "$rc" "$lines" <<'PY'
import json,sys
p,prop,rc,lines=sys.argv[1:5]
m=json.load(open(p))
m["check_result"]={"command":"VERIF_REPO=<scratch worktree of /repo HEAD + patch.diff> ./check %s"%prop,"exit":int(rc),"lines":lines}
json.dump(m,open(p,"w"),indent=1)
PY
git -C /repo worktree remove --force $wt
