#!/usr/bin/env python3
"""mark_fixed.py <known_findings file> <proposed-diff basename>=<commit> ...  : move open entries whose proposed_fix is
that diff to "fixed" (lead-only bookkeeping after a fix: commit)."""
import json, sys, os
p = sys.argv[1]
m = dict(a.split('=') for a in sys.argv[2:])
d = json.load(open(p))
keep = []
for e in d.get("open", []):
    base = os.path.basename(e.get("proposed_fix", ""))
    if base in m:
        prop = e.get("property") or os.path.basename(p).split('.')[0]
        d.setdefault("fixed", []).append({"id": e["id"], "property": prop, "commit": m[base],
            "line": "fixed: property=%s %s %s" % (prop, m[base], e["what"]), "demo": e.get("demo", ""), "units": [e.get("unit", "")],
            "obligations": e.get("obligations", [])})
    else:
        keep.append(e)
d["open"] = keep
json.dump(d, open(p, "w"), indent=1)
print(p, "open:", len(keep), "fixed:", len(d.get("fixed", [])))
