#!/usr/bin/env python3
"""annotate.py — inject loop contracts / ghost statements into a scratch copy
of a /repo source file.

The annotation table is keyed by FUNCTION NAME + LOOP ORDINAL (order of the
`for` / `while` / `do` keywords inside the function body), never by line
number or header text, so an edited loop condition is still annotated (and
then fails its invariant) instead of breaking the run.

Table syntax (annot/<file>.ann):

    @@ <function> loop <n> clauses      text goes between loop header and body
    @@ <function> loop <n> body_top     text goes right after the body's '{'
    @@ <function> loop <n> after        text goes right after the loop statement
    @@ <function> entry                 text goes right after the function's '{'
    <text lines ...>

Everything inserted is wrapped in /*V<*/ ... /*>V*/ ; strip() removes exactly
those spans, and the driver requires strip(annotated) == original.

Exit codes: 0 ok; 2 table cannot be applied (function or loop missing).
"""
import re
import sys

OPEN, CLOSE = "/*V<*/", "/*>V*/"


class AnnotError(Exception):
    pass


def _blank_noncode(src):
    """Return a copy of src where comments, string and char literals and
    preprocessor lines are replaced by spaces (same length), so that keyword
    and brace scanning sees code only."""
    out = list(src)
    i, n = 0, len(src)
    bol = True
    while i < n:
        c = src[i]
        if bol and c == '#':
            # preprocessor line incl. continuations
            j = i
            while j < n:
                if src[j] == '\n' and src[j - 1] != '\\':
                    break
                j += 1
            for k in range(i, j):
                if src[k] != '\n':
                    out[k] = ' '
            i = j
            continue
        if c == '/' and i + 1 < n and src[i + 1] == '*':
            j = src.find('*/', i + 2)
            j = n if j < 0 else j + 2
            for k in range(i, j):
                if src[k] != '\n':
                    out[k] = ' '
            i = j
            bol = False
            continue
        if c == '/' and i + 1 < n and src[i + 1] == '/':
            j = src.find('\n', i)
            j = n if j < 0 else j
            for k in range(i, j):
                out[k] = ' '
            i = j
            continue
        if c == '"' or c == "'":
            q = c
            j = i + 1
            while j < n and src[j] != q:
                if src[j] == '\\':
                    j += 1
                j += 1
            for k in range(i + 1, min(j, n)):
                if src[k] != '\n':
                    out[k] = ' '
            i = j + 1
            bol = False
            continue
        if c == '\n':
            bol = True
        elif not c.isspace():
            bol = False
        i += 1
    return ''.join(out)


def _match(code, i, o, c):
    """code[i] == o; return index of matching c."""
    depth = 0
    n = len(code)
    while i < n:
        if code[i] == o:
            depth += 1
        elif code[i] == c:
            depth -= 1
            if depth == 0:
                return i
        i += 1
    raise AnnotError("unbalanced %s%s" % (o, c))


def find_functions(src, code=None):
    """Map function name -> (body_open_brace_idx, body_close_brace_idx).
    libast style: definitions start with the name at column 0 followed by '('
    and the body's '{' is at column 0 of a following line."""
    code = code or _blank_noncode(src)
    funcs = {}
    for m in re.finditer(r'^([A-Za-z_]\w*)\s*\(', code, re.M):
        name = m.group(1)
        p = _match(code, m.end() - 1, '(', ')')
        q = p + 1
        while q < len(code) and code[q].isspace():
            q += 1
        if q < len(code) and code[q] == '{':
            funcs[name] = (q, _match(code, q, '{', '}'))
    return funcs


def find_loops(code, b0, b1):
    """Loops inside code[b0:b1] in keyword order.  Each: dict(kind, clauses,
    body_top (or None), after)."""
    loops = []
    do_closers = []          # positions at/after which the next 'while' closes a do
    for m in re.finditer(r'\b(for|while|do)\b', code[b0:b1]):
        kw = m.group(1)
        pos = b0 + m.start()
        end = b0 + m.end()
        if kw == 'while' and do_closers:
            # is this the closer of a pending do?  (first while at/after the do body's end,
            # with only whitespace between)
            hit = None
            for d in do_closers:
                if code[d['body_end'] + 1:pos].strip() == '':
                    hit = d
                    break
            if hit is not None:
                do_closers.remove(hit)
                p = code.index('(', end)
                q = _match(code, p, '(', ')')
                semi = code.index(';', q)
                hit['after'] = semi + 1
                continue
        if kw == 'do':
            p = end
            while code[p].isspace():
                p += 1
            if code[p] != '{':
                raise AnnotError("do without braces at %d" % pos)
            q = _match(code, p, '{', '}')
            # cbmc 6.11 wants the loop clauses of a do-while right after the `do` keyword
            d = dict(kind='do', body_top=p + 1, body_end=q, clauses=end, after=None, pos=pos)
            do_closers.append(d)
            loops.append(d)
            continue
        p = code.index('(', end)
        q = _match(code, p, '(', ')')
        r = q + 1
        while code[r].isspace():
            r += 1
        if code[r] == '{':
            e = _match(code, r, '{', '}')
            loops.append(dict(kind=kw, clauses=q + 1, body_top=r + 1, after=e + 1, pos=pos))
        elif code[r] == ';':
            loops.append(dict(kind=kw, clauses=q + 1, body_top=None, after=r + 1, pos=pos))
        else:
            loops.append(dict(kind=kw, clauses=q + 1, body_top=None, after=None, pos=pos))
    return loops


def parse_table(text):
    """-> list of (function, kind, ordinal, where, text)"""
    items = []
    cur = None
    for line in text.splitlines():
        if line.startswith('@@'):
            parts = line[2:].split()
            if len(parts) == 2 and parts[1] == 'entry':
                cur = [parts[0], 'entry', 0, 'entry', []]
            elif len(parts) == 4 and parts[1] == 'loop':
                cur = [parts[0], 'loop', int(parts[2]), parts[3], []]
            else:
                raise AnnotError("bad table line: " + line)
            items.append(cur)
        elif line.startswith('#') and (cur is None or line == '#' or line.startswith('# ') or line.startswith('##')):
            continue                      # table comment ("# ..."); preprocessor lines (#ifdef ...) are text
        elif cur is not None:
            cur[4].append(line)
    return [(f, k, o, w, '\n'.join(t).strip()) for f, k, o, w, t in items]


def annotate(src, table_text):
    code = _blank_noncode(src)
    funcs = find_functions(src, code)
    inserts = []   # (pos, text)
    applied = []
    for fn, kind, ordn, where, text in parse_table(table_text):
        if not text:
            continue
        if fn not in funcs:
            raise AnnotError("function %s not found" % fn)
        b0, b1 = funcs[fn]
        if kind == 'entry':
            inserts.append((b0 + 1, text))
            applied.append("%s entry" % fn)
            continue
        loops = find_loops(code, b0, b1)
        if ordn < 1 or ordn > len(loops):
            raise AnnotError("%s has %d loops, table wants loop %d" % (fn, len(loops), ordn))
        lp = loops[ordn - 1]
        pos = lp.get(where)
        if pos is None:
            raise AnnotError("%s loop %d: no '%s' insertion point (body without braces?)" % (fn, ordn, where))
        inserts.append((pos, text))
        applied.append("%s loop %d %s" % (fn, ordn, where))
    out = src
    for pos, text in sorted(inserts, key=lambda t: -t[0]):
        if re.search(r'^\s*#', text, re.M):
            # inserted text holds preprocessor lines: keep them on lines of their own (the newlines are
            # inside the markers, so strip() still restores the original bytes)
            out = out[:pos] + OPEN + "\n" + text + "\n" + CLOSE + out[pos:]
        else:
            out = out[:pos] + OPEN + " " + text + " " + CLOSE + out[pos:]
    return out, applied


def strip(annotated):
    return re.sub(re.escape(OPEN) + r'.*?' + re.escape(CLOSE), '', annotated, flags=re.S)


def loop_census(src):
    """function -> number of loops (used by the driver to notice loops that
    have no contract in a P unit)."""
    code = _blank_noncode(src)
    return {fn: len(find_loops(code, b0, b1)) for fn, (b0, b1) in find_functions(src, code).items()}


def main(argv):
    if len(argv) != 4:
        print("usage: annotate.py <src.c> <table.ann|-> <out.c>", file=sys.stderr)
        return 2
    src = open(argv[1], encoding='latin-1').read()
    table = open(argv[2]).read() if argv[2] != '-' else ''
    try:
        out, applied = annotate(src, table)
    except (AnnotError, ValueError) as e:
        print("annotate: %s: %s" % (argv[1], e), file=sys.stderr)
        return 2
    if strip(out) != src:
        print("annotate: strip-identity check failed for %s" % argv[1], file=sys.stderr)
        return 2
    open(argv[3], 'w', encoding='latin-1').write(out)
    for a in applied:
        print("annotated: " + a)
    return 0


if __name__ == '__main__':
    sys.exit(main(sys.argv))
