#!/bin/bash
# usage: mutcheck.sh <PROP> <unit-glob> <patch-file | -e 'sed-expr' file>   — run a check against a mutated scratch copy of /repo
prop=$1; unit=$2; shift 2
wt=$(mktemp -d /tmp/mut.XXXXXX); rmdir $wt
git -C /repo worktree add -q $wt HEAD || exit 2
cp /repo/config.h $wt/; cp /repo/include/libast/{sysdefs,types}.h $wt/include/libast/
if [ "$1" = "-e" ]; then sed -i "$2" $wt/$3; else git -C $wt apply "$1" || { echo "patch failed"; git -C /repo worktree remove --force $wt; exit 2; }; fi
git -C $wt diff --stat | tail -1
VERIF_REPO=$wt /verif/check $prop --unit "$unit" --no-evidence --jobs ${VERIF_JOBS:-8} 2>&1 | tail -${TAIL:-8}
rc=${PIPESTATUS[0]}
git -C /repo worktree remove --force $wt
exit $rc
