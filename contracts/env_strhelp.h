/* env_strhelp.h — owner strhelp: alternative strlen/strnlen models for the C13/C17 units.
 *
 * Use: #define VERIF_OWN_STRLEN (and optionally VERIF_STRLEN_LOOP) BEFORE including vprelude.h,
 * then include this file after vprelude.h.
 *
 * Why: env.h's strlen/strnlen return SOME NUL position (strnlen: or maxlen), which is too weak for
 * functions whose *result* depends on the first NUL (safe_strncat appends there, strrev/chomp/condense
 * must not touch anything behind it).
 *
 *  - default (P units): loop-free model.  Returns a position r of a NUL inside the object (strnlen: or
 *    maxlen) that is minimal AT THE GHOST POSITION vg_j2: s[vg_j2] != 0 when vg_j2 < r.  The value returned
 *    is recorded in the ghost vg_len_ret.  A unit states its argument's exact length n the same way
 *    (VCSTR_EXACT_AT(p, n, vg_j2): p[n] == 0, p[vg_j2] != 0 when vg_j2 < n); then
 *        vg_j2 == min(vg_len_ret, n)   implies   vg_len_ret == n
 *    (r > n: vg_j2 = n gives p[n] != 0, contradiction; r < n: p[r] == 0 but vg_j2 = r gives p[r] != 0).
 *    Postconditions that need "strlen returned the true length" are guarded by VLEN_GUARD(n).  vg_j2 is
 *    arbitrary and the real strlen (r = n) satisfies the model for vg_j2 = n, so every real execution is
 *    covered by an unguarded instance.  This is the true strlen restricted to what one instantiation of
 *    its quantified postcondition gives: an over-approximation of the man page.
 *    Units whose SAFETY obligations (not only postconditions) depend on the true length define
 *    VERIF_STRLEN_N (an expression: the declared exact length n of the one string strlen/strnlen is applied
 *    to).  The model then restricts the GHOST to the deciding instance: assume(vg_j2 == min(r, n)).  This
 *    never removes a real execution: vg_j2 is a free ghost input (no harness constrains it), the unit's
 *    precondition holds for vg_j2 = n for every string of exact length n, and the real result r = n passes
 *    both assumptions with vg_j2 = n.  It only discards ghost choices, i.e. it is the guard VLEN_GUARD(n)
 *    applied to every obligation behind the call.  (Strings with an earlier NUL are ALSO admitted by the
 *    precondition instance vg_j2 = n and get r = n: extra behaviours, an over-approximation.)
 *  - VERIF_STRLEN_LOOP (B units, run under --unwind): the plain byte loop, exact.
 */
#ifndef VERIF_ENV_STRHELP_H
#define VERIF_ENV_STRHELP_H
#ifdef VERIF_OWN_STRLEN
size_t vg_len_ret, vg_j2;   /* vg_j2: ghost instantiation point of the strlen minimality facts */
/* units whose loop annotations (annot/strings.c.ann may only name env.h ghosts) carry the exactness fact
 * use env.h's vg_j as the instantiation point: #define VERIF_STRLEN_GHOST vg_j */
# ifndef VERIF_STRLEN_GHOST
#  define VERIF_STRLEN_GHOST vg_j2
# endif
# define VLEN_GUARD(n) (VERIF_STRLEN_GHOST == ((vg_len_ret) < (n) ? (vg_len_ret) : (n)))
# ifdef VERIF_STRLEN_LOOP
size_t strlen(const char *s)
{
    size_t n = 0;
    __CPROVER_assert(s != NULL, "strlen: argument not NULL");
    while (s[n]) n++;
    return n;
}
size_t strnlen(const char *s, size_t maxlen)
{
    size_t n = 0;
    while (n < maxlen && s[n]) n++;
    return n;
}
# else
size_t strlen(const char *s)
{
    __CPROVER_assert(s != NULL, "strlen: argument not NULL");
    __CPROVER_assert(__CPROVER_r_ok(s, 1), "strlen: argument readable");
    size_t r = nondet_size_t();
    __CPROVER_assume(r < VREMAIN(s));
    __CPROVER_assume(s[r] == 0);
    __CPROVER_assume(!(VERIF_STRLEN_GHOST < r) || s[VERIF_STRLEN_GHOST] != 0);
#  ifdef VERIF_STRLEN_N
    __CPROVER_assume(VERIF_STRLEN_GHOST == (r < (size_t) (VERIF_STRLEN_N) ? r : (size_t) (VERIF_STRLEN_N)));
#  endif
    vg_len_ret = r;
    return r;
}
size_t strnlen(const char *s, size_t maxlen)
{
    __CPROVER_assert(s != NULL || maxlen == 0, "strnlen: argument not NULL");
    size_t r = nondet_size_t();
    __CPROVER_assume(r <= maxlen);
    __CPROVER_assume(r <= VREMAIN(s));
    __CPROVER_assume(r == maxlen || (r < VREMAIN(s) && s[r] == 0));
    __CPROVER_assume(!(VERIF_STRLEN_GHOST < r) || s[VERIF_STRLEN_GHOST] != 0);
#  ifdef VERIF_STRLEN_N
    __CPROVER_assume(VERIF_STRLEN_GHOST == (r < (size_t) (VERIF_STRLEN_N) ? r : (size_t) (VERIF_STRLEN_N)));
#  endif
    vg_len_ret = r;
    return r;
}
# endif
#endif

/* ---- work-around for a goto-instrument 6.11 crash (goto_inline_class.cpp:104 "Unreachable") ---------
 * When a function with a loop contract (spiftool_safe_strncpy) is a CALLEE of the enforced function,
 * DFCC's loop-assigns inference (dfcc_infer_loop_assigns_for_function) inlines the calls in its body; if
 * one of the called functions has a body and happens to have been instrumented earlier (it then has more
 * parameters than the call has arguments) goto-instrument aborts.  The order follows string numbering in
 * the goto binary, i.e. it flips with unrelated edits (seen: safe_strncat proved, its twin unit crashed).
 * The only calls inside safe_strncpy are the message/print calls of libast's ASSERT_RVAL/REQUIRE_RVAL/
 * __DEBUG macros, all of which env.h stubs out as no-ops.  Units that define VERIF_STRHELP_NOCALL_MSGS get
 * the SAME stubs as function-like macros (no call left to inline).  Include this file after vprelude.h and
 * before "src/strings.c".  Stated deviation: binding of environment stubs only; libast text unchanged. */
#ifdef VERIF_STRHELP_NOCALL_MSGS
# define libast_dprintf(...)        (0)
# define libast_print_error(...)    ((void) 0)
# define libast_print_warning(...)  ((void) 0)
# define libast_fatal_error(...)    __CPROVER_assume(0)
# undef fprintf
# define fprintf(...)               (0)
# define time(t)                    ((time_t) 0)
#endif
/* ---- memcpy / memmove through the ghost index --------------------------------------------------------
 * cbmc's array models of memcpy/memmove with a symbolic length do not terminate here on any back end
 * (substr: minisat, z3 > 150 s, cvc5 "unknown").  Units that define VERIF_STRHELP_MEMCPY_AT_K get an
 * OVER-APPROXIMATION instead (same idea as env.h's realloc): the n destination bytes receive ARBITRARY
 * values, except byte vg_k (when vg_k < n), which receives the source byte.  The real functions copy
 * every byte, so a proof against this model holds for the real ones; vg_k is arbitrary, so "byte vg_k
 * copied" is the universally quantified statement.  Readability / writability of the two ranges is
 * asserted (memcpy: also non-overlap, which the C standard requires). */
#ifdef VERIF_STRHELP_MEMCPY_AT_K
void *memcpy(void *dst, const void *src, size_t n)
{
    __CPROVER_assert(n == 0 || __CPROVER_r_ok(src, n), "memcpy: source range readable");
    __CPROVER_assert(n == 0 || __CPROVER_w_ok(dst, n), "memcpy: destination range writable");
    __CPROVER_assert(n == 0 || !__CPROVER_same_object(dst, src) ||
                     __CPROVER_POINTER_OFFSET(dst) + n <= __CPROVER_POINTER_OFFSET(src) ||
                     __CPROVER_POINTER_OFFSET(src) + n <= __CPROVER_POINTER_OFFSET(dst), "memcpy: ranges do not overlap");
    if (n) {
        char c = (vg_k < n) ? ((const char *) src)[vg_k] : 0;
        __CPROVER_havoc_slice(dst, n);
        if (vg_k < n) ((char *) dst)[vg_k] = c;
    }
    return dst;
}
void *memmove(void *dst, const void *src, size_t n)
{
    __CPROVER_assert(n == 0 || __CPROVER_r_ok(src, n), "memmove: source range readable");
    __CPROVER_assert(n == 0 || __CPROVER_w_ok(dst, n), "memmove: destination range writable");
    if (n) {
        char c = (vg_k < n) ? ((const char *) src)[vg_k] : 0;   /* read BEFORE the destination changes */
        __CPROVER_havoc_slice(dst, n);
        if (vg_k < n) ((char *) dst)[vg_k] = c;
    }
    return dst;
}
#endif
/* ---- exact libc comparison / conversion functions for tier B units (run under --unwind) ----------------
 * env.h's strcmp family returns an arbitrary int and strtol an arbitrary long: fine for safety, useless for
 * the RESULT of spiftool_version_compare.  Units that define VERIF_OWN_STRCMP (drops env.h's family) and
 * VERIF_STRHELP_EXACT_LIBC get the plain byte loops below (C standard / POSIX semantics, "C" locale).
 * strtol cannot be switched off in env.h, so the identifier is re-bound to vstr_strtol (decimal digits
 * only, saturating at LONG_MAX as the man page says) - stated deviation, environment function only. */
#ifdef VERIF_STRHELP_EXACT_LIBC
static int vstr_lc(int c) { return (c >= 'A' && c <= 'Z') ? c + 32 : c; }
static int vstr_uc(char c) { int u = c; if (u < 0) u += 256; return u; }       /* value as unsigned char */
int strcmp(const char *a, const char *b)
{
    size_t i = 0;
    while (a[i] && a[i] == b[i]) i++;
    return vstr_uc(a[i]) - vstr_uc(b[i]);
}
int strncmp(const char *a, const char *b, size_t n)
{
    size_t i = 0;
    if (n == 0) return 0;
    while (i + 1 < n && a[i] && a[i] == b[i]) i++;
    return vstr_uc(a[i]) - vstr_uc(b[i]);
}
/* VERIF_STRHELP_CASECMP_PREFIX=N: exact on the first N positions, ARBITRARY result when the first N bytes
 * are equal and non-NUL (over-approximation; used where the arguments may be 128 bytes of garbage, which an
 * exact loop would have to follow to the end) */
int strcasecmp(const char *a, const char *b)
{
    size_t i = 0;
# ifdef VERIF_STRHELP_CASECMP_PREFIX
    while (i < VERIF_STRHELP_CASECMP_PREFIX && a[i] && vstr_lc(vstr_uc(a[i])) == vstr_lc(vstr_uc(b[i]))) i++;
    if (i == VERIF_STRHELP_CASECMP_PREFIX) return nondet_int();
# else
    while (a[i] && vstr_lc(vstr_uc(a[i])) == vstr_lc(vstr_uc(b[i]))) i++;
# endif
    return vstr_lc(vstr_uc(a[i])) - vstr_lc(vstr_uc(b[i]));
}
int strncasecmp(const char *a, const char *b, size_t n)
{
    size_t i = 0;
    if (n == 0) return 0;
    while (i + 1 < n && a[i] && vstr_lc(vstr_uc(a[i])) == vstr_lc(vstr_uc(b[i]))) i++;
    return vstr_lc(vstr_uc(a[i])) - vstr_lc(vstr_uc(b[i]));
}
long vstr_strtol(const char *s, char **end, int base)
{
    long v = 0; size_t i = 0;
    __CPROVER_assert(base == 10 && end == NULL, "vstr_strtol: only the form used by version_compare is modelled");
    while (s[i] >= '0' && s[i] <= '9') {
        int d = s[i] - '0';
        if (v > (LONG_MAX - d) / 10) v = LONG_MAX; else v = v * 10 + d;
        i++;
    }
    return v;
}
# define strtol vstr_strtol
#endif
#endif
