/* contracts/conf.h — spec macros for src/conf.c (C09, C10, C11).  Included
 * AFTER the (annotated copy of) conf.c so the file-local state is in scope. */
#ifndef VERIF_CONF_H
#define VERIF_CONF_H
/* capacities: 1..512 (an 8-bit index can only force a doubling up to 2*255) */
#define CTXSTK_INV   (ctx_state_cnt >= 1 && ctx_state_cnt <= 512 && ctx_state_idx < ctx_state_cnt && \
                      __CPROVER_is_fresh(ctx_state, sizeof(ctx_state_t) * (size_t) ctx_state_cnt))
#define CTXSTK_POST  (ctx_state_cnt >= 1 && ctx_state_cnt <= 512 && ctx_state_idx < ctx_state_cnt && \
                      __CPROVER_rw_ok(ctx_state, sizeof(ctx_state_t) * (size_t) ctx_state_cnt))
#define FSTK_INV     (fstate_cnt >= 1 && fstate_cnt <= 512 && fstate_idx < fstate_cnt && \
                      __CPROVER_is_fresh(fstate, sizeof(fstate_t) * (size_t) fstate_cnt))
#define FSTK_POST    (fstate_cnt >= 1 && fstate_cnt <= 512 && fstate_idx < fstate_cnt && \
                      __CPROVER_rw_ok(fstate, sizeof(fstate_t) * (size_t) fstate_cnt))
#define CTXTAB_INV   (ctx_cnt >= 1 && ctx_cnt <= 512 && ctx_idx < ctx_cnt && \
                      __CPROVER_is_fresh(context, sizeof(ctx_t) * (size_t) ctx_cnt))
#define CTXTAB_POST  (ctx_cnt >= 1 && ctx_cnt <= 512 && ctx_idx < ctx_cnt && \
                      __CPROVER_rw_ok(context, sizeof(ctx_t) * (size_t) ctx_cnt))
#define BLTTAB_INV   (builtin_cnt >= 1 && builtin_cnt <= 512 && builtin_idx < builtin_cnt && \
                      __CPROVER_is_fresh(builtins, sizeof(spifconf_func_t) * (size_t) builtin_cnt))
#define BLTTAB_POST  (builtin_cnt >= 1 && builtin_cnt <= 512 && builtin_idx < builtin_cnt && \
                      __CPROVER_rw_ok(builtins, sizeof(spifconf_func_t) * (size_t) builtin_cnt))
#endif
