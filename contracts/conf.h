/* contracts/conf.h — spec macros and contracts for src/conf.c (C09, C11; owner: conf).
 * Included AFTER the (annotated copy of) conf.c so the file-local state is in scope.
 *
 * Contract blocks are selected by the unit:
 *   VERIF_CT_REGISTER    the four spifconf_register_* pushes (proved in units/C09/register.c)
 *   VERIF_CT_CALLEES     DECLARED contracts of callees that belong to other units/agents
 *                        (get_word, get_pword, chomp: strings.c; shell_expand: C10; temp_file: C11 file.c)
 *   VERIF_CT_LOOKUP      v_ctx_lookup (the ctx_name_to_id loop, see env_conf.h section 6b)
 *   VERIF_CT_OPEN_FILE   spifconf_open_file
 *   VERIF_CT_PARSE_LINE  spifconf_parse_line (file mode: fp != NULL)
 */
#ifndef VERIF_CONF_SPEC_H
#define VERIF_CONF_SPEC_H
/* ---- part 1: spec macros only.  A unit whose loop-contract macros (env_conf.h section 5c) use them includes
 * this header once BEFORE "src/conf.c" with VERIF_CONF_SPEC_ONLY defined, and again after it for part 2. ---- */
/* ---------------------------------------------------------------------------------------
 * representation invariants of the four tables.  Capacities: 1..512 (an 8-bit index can
 * only force a doubling up to 2*255)
 * --------------------------------------------------------------------------------------- */
#define CTXSTK_INV   (ctx_state_cnt >= 1 && ctx_state_cnt <= 512 && ctx_state_idx < ctx_state_cnt && \
                      __CPROVER_is_fresh(ctx_state, sizeof(ctx_state_t) * (size_t) ctx_state_cnt))
#define CTXSTK_POST  (ctx_state_cnt >= 1 && ctx_state_cnt <= 512 && ctx_state_idx < ctx_state_cnt && \
                      __CPROVER_rw_ok(ctx_state, sizeof(ctx_state_t) * (size_t) ctx_state_cnt))
#define FSTK_INV     (fstate_cnt >= 1 && fstate_cnt <= 512 && fstate_idx < fstate_cnt && \
                      __CPROVER_is_fresh(fstate, sizeof(fstate_t) * (size_t) fstate_cnt))
#define FSTK_POST    (fstate_cnt >= 1 && fstate_cnt <= 512 && fstate_idx < fstate_cnt && \
                      __CPROVER_rw_ok(fstate, sizeof(fstate_t) * (size_t) fstate_cnt))
#define CTXTAB_INV   (ctx_cnt >= 1 && ctx_cnt <= 512 && ctx_idx < ctx_cnt && \
                      __CPROVER_is_fresh(context, sizeof(ctx_t) * (size_t) ctx_cnt))
#define CTXTAB_POST  (ctx_cnt >= 1 && ctx_cnt <= 512 && ctx_idx < ctx_cnt && \
                      __CPROVER_rw_ok(context, sizeof(ctx_t) * (size_t) ctx_cnt))
#define BLTTAB_INV   (builtin_cnt >= 1 && builtin_cnt <= 512 && builtin_idx < builtin_cnt && \
                      __CPROVER_is_fresh(builtins, sizeof(spifconf_func_t) * (size_t) builtin_cnt))
#define BLTTAB_POST  (builtin_cnt >= 1 && builtin_cnt <= 512 && builtin_idx < builtin_cnt && \
                      __CPROVER_rw_ok(builtins, sizeof(spifconf_func_t) * (size_t) builtin_cnt))

/* "every registered context has a name that is a C string", at the ghost index K (is_fresh:
 * requires-side; rw_ok: ensures-side).  vg_n2 is the ghost length of that one name. */
#define CTXNAME_AT(K)       ((K) > ctx_idx || (vg_n2 <= VCAP && __CPROVER_is_fresh(context[(K)].name, vg_n2 + 1) && context[(K)].name[vg_n2] == 0))
#define CTXNAME_POST_AT(K)  ((K) > ctx_idx || (context[(K)].name != NULL && __CPROVER_r_ok(context[(K)].name, 1)))
/* "every open context refers to a registered context", at stack index J */
#define CTXID_AT(J)         ((J) > ctx_state_idx || ctx_state[(J)].ctx_id <= ctx_idx)

#define VSPACE(c) ((c) == ' ' || ((c) >= '\t' && (c) <= '\r'))


#endif /* VERIF_CONF_SPEC_H */

#ifndef VERIF_CONF_SPEC_ONLY
#ifndef VERIF_CONF_H
#define VERIF_CONF_H
/* =======================================================================================
 * VERIF_CT_REGISTER
 * ======================================================================================= */
#ifdef VERIF_CT_REGISTER
/* index that is safe to read inside __CPROVER_old for every value of the ghost K */
#define VIDX(K, top) ((K) <= (top) ? (K) : 0)
#define CTXSTK_KEEP(K) ((K) > __CPROVER_old(ctx_state_idx) || __CPROVER_old(ctx_state_idx) == 255 || \
                        (ctx_state[(K)].ctx_id == __CPROVER_old(ctx_state[VIDX(K, ctx_state_idx)].ctx_id) && \
                         ctx_state[(K)].state == __CPROVER_old(ctx_state[VIDX(K, ctx_state_idx)].state)))
unsigned char spifconf_register_context_state(unsigned char ctx_id)
/* total: at depth 255 the 8-bit index wraps to 0 (memory-safe since the capacities are ints; outside C09's domain) */
__CPROVER_requires(CTXSTK_INV)
__CPROVER_assigns(ctx_state, ctx_state_idx, ctx_state_cnt, __CPROVER_object_whole(ctx_state))
__CPROVER_frees(ctx_state)
__CPROVER_ensures(CTXSTK_POST)
__CPROVER_ensures(ctx_state_idx == (__CPROVER_old(ctx_state_idx) + 1) % 256 && __CPROVER_return_value == ctx_state_idx)
__CPROVER_ensures(ctx_state[ctx_state_idx].ctx_id == ctx_id && ctx_state[ctx_state_idx].state == NULL)
/* entries below the new top are preserved: proved for the arbitrary ghost index vg_k ... */
__CPROVER_ensures(CTXSTK_KEEP(vg_k))
#ifdef VERIF_ROLE_CALLEE_register_context_state
/* ... hence usable by a caller at the index it needs (the entry just below the new top) */
__CPROVER_ensures(CTXSTK_KEEP(__CPROVER_old(ctx_state_idx)))
#endif
;

#define FSTK_KEEP(K) ((K) > __CPROVER_old(fstate_idx) || \
                  (fstate[(K)].fp == __CPROVER_old(fstate[VIDX(K, fstate_idx)].fp) && fstate[(K)].path == __CPROVER_old(fstate[VIDX(K, fstate_idx)].path) && \
                   fstate[(K)].outfile == __CPROVER_old(fstate[VIDX(K, fstate_idx)].outfile) && fstate[(K)].line == __CPROVER_old(fstate[VIDX(K, fstate_idx)].line) && \
                   fstate[(K)].flags == __CPROVER_old(fstate[VIDX(K, fstate_idx)].flags)))
unsigned char spifconf_register_fstate(FILE *fp, spif_charptr_t path, spif_charptr_t outfile, unsigned long line, unsigned char flags)
__CPROVER_requires(FSTK_INV && fstate_idx < 255)
__CPROVER_requires(fp != NULL && path != NULL && line <= 0xffffffffUL)
__CPROVER_assigns(fstate, fstate_idx, fstate_cnt, __CPROVER_object_whole(fstate))
__CPROVER_frees(fstate)
__CPROVER_ensures(FSTK_POST)
__CPROVER_ensures(fstate_idx == __CPROVER_old(fstate_idx) + 1 && __CPROVER_return_value == fstate_idx)
__CPROVER_ensures(fstate[fstate_idx].fp == fp && fstate[fstate_idx].path == path && fstate[fstate_idx].outfile == outfile
                  && fstate[fstate_idx].line == (spif_uint32_t) line && fstate[fstate_idx].flags == flags)
__CPROVER_ensures(FSTK_KEEP(vg_k))
/* the table moves only when it has to grow */
__CPROVER_ensures((unsigned int) __CPROVER_old(fstate_idx) + 1 == __CPROVER_old(fstate_cnt) ||
                  (fstate == __CPROVER_old(fstate) && fstate_cnt == __CPROVER_old(fstate_cnt)))
;
#endif /* VERIF_CT_REGISTER */

/* =======================================================================================
 * VERIF_CT_CALLEES — DECLARED contracts (weak but true) of functions owned by other units.
 *
 * Functions whose definition is NOT in conf.c (strings.c, file.c) are given as MODEL FUNCTIONS:
 * a body that asserts the contract's precondition, havocs exactly its assigns targets and
 * assumes its postcondition — the same semantics goto-instrument gives a call replaced by its
 * contract, without a per-call-site write set (each replaced call costs DFCC several arrays
 * indexed by object number; with the dozen call sites of parse_line the SAT instance had 20M
 * variables).  Functions defined in conf.c itself (spifconf_shell_expand, spifconf_open_file,
 * the register_* pushes) carry real contracts and are used with --replace-call-with-contract.
 * ======================================================================================= */
#ifdef VERIF_CT_CALLEES
/* ghosts: env_conf.h (vg_st: the chomped line vg_line = spec-level snapshot of the first 16 bytes of the text chomp
 * leaves behind; vg_gw_len, vg_se_len) */
#define VPLAINCH(c) ((c) != 0 && !VSPACE(c) && (c) != '\"' && (c) != '\'')

/* spiftool_chomp (strings.c, C13): removes leading and trailing white space in place.
 *   requires  s != NULL, s writable (ASSUMES, as for libc string functions: s holds a NUL at or after s)
 *   assigns   the object of s; ghosts vg_line, vg_seq, vg_t_chomp
 *   ensures   returns s; the text starts with a non-blank (or is empty); vg_line[i] == s[i] for the first 16 bytes */
spif_charptr_t spiftool_chomp(spif_charptr_t s)
{
    __CPROVER_assert(s != NULL && __CPROVER_rw_ok(s, 1), "chomp contract: s writable");
    __CPROVER_havoc_object(s);
    size_t n = nondet_size_t();
    __CPROVER_assume(n < VREMAIN(s));
    s[n] = 0;                                   /* still a C string */
    __CPROVER_assume(!VSPACE(s[0]));
    /* behaviour split of the two parse_line units (their union is every line): the SAT instance is the same size,
     * but each half is decided in about half the time and the halves run in parallel */
#if defined(U_PL_DIRECTIVE)
    __CPROVER_assume(s[0] == '%');
#elif defined(U_PL_NOT_DIRECTIVE)
    __CPROVER_assume(s[0] != '%');
#endif
    vg_seq++;
    vg_t_chomp = vg_seq;
#define VLINE_SNAP(i) vg_line[i] = ((size_t) (i) < VREMAIN(s)) ? s[i] : 0;
    VLINE_SNAP(0) VLINE_SNAP(1) VLINE_SNAP(2) VLINE_SNAP(3) VLINE_SNAP(4) VLINE_SNAP(5) VLINE_SNAP(6) VLINE_SNAP(7)
    VLINE_SNAP(8) VLINE_SNAP(9) VLINE_SNAP(10) VLINE_SNAP(11) VLINE_SNAP(12) VLINE_SNAP(13) VLINE_SNAP(14) VLINE_SNAP(15)
    return s;
}

/* spiftool_get_word (strings.c, C12): index-th word as a fresh heap string, NULL if there are
 * fewer words.  The two non-NULL guarantees are the ones parse_line relies on:
 *  - word 1 exists as soon as the string is not empty (the scanning loop runs once);
 *  - word 2 exists when the string starts with five plain characters and a blank ("begin X"):
 *    the loop is entered a second time because str[5] != 0.
 *   requires  str != NULL, readable;  assigns nothing (ghost vg_gw_len);
 *   ensures   NULL or a fresh C string of length vg_gw_len */
spif_charptr_t spiftool_get_word(unsigned long index, const spif_charptr_t str)
{
    __CPROVER_assert(str != NULL && __CPROVER_r_ok(str, 1), "get_word contract: str readable");
    _Bool must = (index == 1 && str[0] != 0) ||
                 (index == 2 && VPLAINCH(str[0]) && VPLAINCH(str[1]) && VPLAINCH(str[2]) && VPLAINCH(str[3]) && VPLAINCH(str[4]) && VSPACE(str[5]));
    if (!must && nondet_bool()) return (spif_charptr_t) NULL;
    size_t n = nondet_size_t();
    __CPROVER_assume(n <= VCAP);
    spif_charptr_t r = (spif_charptr_t) malloc(n + 1);
    r[n] = 0;
    vg_gw_len = n;
    return r;
}
/* spiftool_get_pword (strings.c, C12): pointer INTO str at the index-th word, NULL if there
 * is none; a leading plain character is word 1 itself.
 *   requires  str != NULL, readable;  assigns nothing;
 *   ensures   NULL, or a pointer into the C string str to a non-NUL byte;
 *             index == 1 and str[0] plain  ==>  result == str */
spif_charptr_t spiftool_get_pword(unsigned long index, const spif_charptr_t str)
{
    __CPROVER_assert(str != NULL && __CPROVER_r_ok(str, 1), "get_pword contract: str readable");
    if (index == 1 && VPLAINCH(str[0])) return (spif_charptr_t) str;
    if (str[0] == 0 || nondet_bool()) return (spif_charptr_t) NULL;          /* the empty string has no words */
    size_t n = strlen((const char *) str);      /* a NUL position of str (env.h) */
    size_t off = nondet_size_t();
    __CPROVER_assume(off < n);
    __CPROVER_assume(str[off] != 0);
    return (spif_charptr_t) str + off;
}
/* spiftool_temp_file (file.c; proved in C11.temp_file): descriptor or -1; ftemplate rewritten
 * (at most len bytes, NUL-terminated); spawns nothing.
 *   requires  ftemplate != NULL, len > 0, len bytes writable;  assigns the object of ftemplate, ghosts vg_tf;
 *   ensures   result >= -1; ftemplate holds a NUL within len bytes */
int spiftool_temp_file(spif_charptr_t ftemplate, size_t len)
{
    __CPROVER_assert(ftemplate != NULL && len > 0 && __CPROVER_rw_ok(ftemplate, len), "temp_file contract: ftemplate holds len bytes");
    __CPROVER_havoc_object(ftemplate);
    size_t n = nondet_size_t();
    __CPROVER_assume(n < len);
    ftemplate[n] = 0;
    vg_tpl_len = n;
    V_SREG_SET(ftemplate, n);
    vg_umask_calls += 2; vg_mkstemp_calls++; vg_fchmod_calls += nondet_bool() ? 1 : 0;
    int fd = nondet_int();
    __CPROVER_assume(fd >= -1);
    return fd;
}

/* spifconf_shell_expand (conf.c, C10, owner expand): rewrites s in place with the expansion
 * (at most CONFIG_BUFF-1 characters, copied back with strcpy: s must have CONFIG_BUFF bytes).
 * Spawns a process only after reading a backquote or matching %exec( . */
spif_charptr_t spifconf_shell_expand(spif_charptr_t s)
__CPROVER_requires(s != NULL && VREMAIN(s) >= CONFIG_BUFF && __CPROVER_rw_ok(s, CONFIG_BUFF))
__CPROVER_assigns(__CPROVER_object_whole(s), spifconf_vars, vg_se_len, vg_ev, vg_sp)
__CPROVER_ensures(__CPROVER_return_value == s || __CPROVER_return_value == NULL)
__CPROVER_ensures(vg_se_len < CONFIG_BUFF && s[vg_se_len] == 0)
__CPROVER_ensures(vg_seq == __CPROVER_old(vg_seq) + 1 && vg_t_expand == vg_seq && vg_t_chomp == __CPROVER_old(vg_t_chomp))
__CPROVER_ensures(vg_saw_preproc == __CPROVER_old(vg_saw_preproc))
__CPROVER_ensures(vg_spawned == __CPROVER_old(vg_spawned) || vg_saw_bq != __CPROVER_old(vg_saw_bq) || vg_saw_exec != __CPROVER_old(vg_saw_exec))
;
#endif /* VERIF_CT_CALLEES */

/* =======================================================================================
 * VERIF_CONF_PUSH_MODELS — models of the two stack pushes for callers (re-binding 6c of
 * env_conf.h).  Same clauses as the contracts above (VERIF_CT_REGISTER), which C09.register_*
 * prove for the real functions; the preserved entries are the ghost entry vg_k and, for the
 * context stack, the entry below the new top (callee role, see CTXSTK_KEEP).
 * ======================================================================================= */
#ifdef VERIF_CONF_PUSH_MODELS
static unsigned char v_ctx_push(unsigned char ctx_id)
{
    /* requires CTXSTK_INV */
    __CPROVER_assert(ctx_state_cnt >= 1 && ctx_state_cnt <= 512 && ctx_state_idx < ctx_state_cnt &&
                     __CPROVER_rw_ok(ctx_state, sizeof(ctx_state_t) * (size_t) ctx_state_cnt) && __CPROVER_POINTER_OFFSET(ctx_state) == 0,
                     "register_context_state contract: CTXSTK_INV");
    unsigned char old_idx = ctx_state_idx;
    ctx_state_t keep_k, keep_top = ctx_state[old_idx];
    _Bool has_k = vg_k <= old_idx;
    if (has_k) keep_k = ctx_state[vg_k];
    /* assigns ctx_state, ctx_state_idx, ctx_state_cnt, the table; frees ctx_state */
    unsigned int cnt = nondet_uint();
    __CPROVER_assume(cnt >= 1 && cnt <= 512);
    if (nondet_bool()) {
        free(ctx_state);
        ctx_state = (ctx_state_t *) malloc(sizeof(ctx_state_t) * (size_t) cnt);
    } else {
        __CPROVER_assume(cnt == ctx_state_cnt);
        __CPROVER_havoc_object(ctx_state);
    }
    ctx_state_cnt = cnt;
    ctx_state_idx = (unsigned char) ((old_idx + 1) % 256);
    /* ensures CTXSTK_POST, new top initialised, kept entries */
    __CPROVER_assume(ctx_state_idx < ctx_state_cnt);
    ctx_state[ctx_state_idx].ctx_id = ctx_id;
    ctx_state[ctx_state_idx].state = NULL;
    if (old_idx != 255) {
        if (has_k) ctx_state[vg_k] = keep_k;
        ctx_state[old_idx] = keep_top;
    }
    return ctx_state_idx;
}
static unsigned char v_file_push(FILE *fp, spif_charptr_t path, spif_charptr_t outfile, unsigned long line, unsigned char flags)
{
    /* requires FSTK_INV && fstate_idx < 255 && fp != NULL && path != NULL && line fits 32 bits */
    __CPROVER_assert(fstate_cnt >= 1 && fstate_cnt <= 512 && fstate_idx < fstate_cnt &&
                     __CPROVER_rw_ok(fstate, sizeof(fstate_t) * (size_t) fstate_cnt) && __CPROVER_POINTER_OFFSET(fstate) == 0,
                     "register_fstate contract: FSTK_INV");
    __CPROVER_assert(fstate_idx < 255, "register_fstate contract: fstate_idx < 255");
    __CPROVER_assert(fp != NULL && path != NULL && line <= 0xffffffffUL, "register_fstate contract: fp, path not NULL, line fits");
    unsigned char old_idx = fstate_idx;
    /* FSTK_KEEP is proved for an arbitrary ghost index: instantiated here at vg_k, vg_k2 and the old top */
    fstate_t keep_k, keep_k2, keep_top = fstate[old_idx];
    _Bool has_k = vg_k <= old_idx, has_k2 = vg_k2 <= old_idx;
    if (has_k) keep_k = fstate[vg_k];
    if (has_k2) keep_k2 = fstate[vg_k2];
    if ((unsigned int) old_idx + 1 == fstate_cnt) {
        /* the table may move only when it has to grow */
        unsigned int cnt = nondet_uint();
        __CPROVER_assume(cnt >= 1 && cnt <= 512);
        if (nondet_bool()) {
            free(fstate);
            fstate = (fstate_t *) malloc(sizeof(fstate_t) * (size_t) cnt);
        } else {
            __CPROVER_assume(cnt == fstate_cnt);
            __CPROVER_havoc_object(fstate);
        }
        fstate_cnt = cnt;
    } else {
        __CPROVER_havoc_object(fstate);
    }
    fstate_idx = (unsigned char) (old_idx + 1);
    __CPROVER_assume(fstate_idx < fstate_cnt);
    fstate[fstate_idx].fp = fp;
    fstate[fstate_idx].path = path;
    fstate[fstate_idx].outfile = outfile;
    fstate[fstate_idx].line = (spif_uint32_t) line;
    fstate[fstate_idx].flags = flags;
    if (has_k) fstate[vg_k] = keep_k;
    if (has_k2) fstate[vg_k2] = keep_k2;
    fstate[old_idx] = keep_top;                 /* ... and at the entry below the new top */
    return fstate_idx;
}
#endif

/* =======================================================================================
 * VERIF_CONF_CALL_MODELS — models of spifconf_shell_expand / spifconf_open_file for callers.
 * Bound to the call sites by a goto-instrument --replace-calls pre-pass (unit header `prepass:`),
 * i.e. on the goto program, not on the source text.  Same clauses as the contracts
 * (VERIF_CT_CALLEES: shell_expand, declared; VERIF_CT_OPEN_FILE: proved in C11.open_file).
 * ======================================================================================= */
#ifdef VERIF_CONF_CALL_MODELS
spif_charptr_t v_m_shell_expand(spif_charptr_t s)
{
    __CPROVER_assert(s != NULL && VREMAIN(s) >= CONFIG_BUFF && __CPROVER_rw_ok(s, CONFIG_BUFF), "shell_expand contract: s holds CONFIG_BUFF bytes");
    __CPROVER_havoc_object(s);
    size_t n = nondet_size_t();
    __CPROVER_assume(n < CONFIG_BUFF);
    s[n] = 0;
    vg_se_len = n;
    spifconf_vars = nondet_ptr();
    vg_seq++;
    vg_t_expand = vg_seq;
    if (nondet_bool()) {
        /* a process may be spawned only together with one of the two ghost flags */
        if (nondet_bool()) vg_saw_bq++; else vg_saw_exec++;
        if (nondet_bool()) vg_spawned++;
    }
    return nondet_bool() ? s : (spif_charptr_t) NULL;
}
FILE *v_m_open_file(spif_charptr_t name)
{
    __CPROVER_assert(name == NULL || __CPROVER_r_ok(name, 1), "open_file contract: name readable");
    /* assigns vg_fg, vg_open_streams */
    unsigned long b = nondet_ulong();
    __CPROVER_assume(b <= vg_fg_budget);
    vg_fg_budget = b;
    __CPROVER_assert(!vg_fg_hdr && !vg_fg_mid, "open_file contract: at a line boundary, no header read pending");
    vg_fg_nl = nondet_bool(); vg_fg_len = nondet_size_t(); vg_fg_buf = nondet_ptr(); vg_fg_ok = nondet_bool(); vg_fg_hdr = 0;
    if (name == NULL || fstate_idx >= VERIF_MAX_NEST || nondet_bool()) {
        return (FILE *) NULL;           /* vg_fg_mid (0), vg_deliverable, vg_open_streams unchanged */
    }
    vg_fg_mid = 0;
    vg_open_streams++;
    return (FILE *) malloc(sizeof(FILE));
}
#endif

/* =======================================================================================
 * VERIF_CONF_PARSE_MODELS — models of spifconf_parse_line (FILE-STACK PROJECTION of its contract, see
 * VERIF_PL_PROJECT_FSTACK below: same clauses) and spifconf_find_file for the bounded caller unit C09.parse.
 * Bound to the call sites by the --replace-calls pre-pass.
 * ======================================================================================= */
#ifdef VERIF_CONF_PARSE_MODELS
void v_m_parse_line(FILE *fp, spif_charptr_t buff)
{
    /* requires (projection) */
    __CPROVER_assert(fp != NULL, "parse_line contract: fp != NULL (file mode)");
    __CPROVER_assert(__CPROVER_rw_ok(buff, CONFIG_BUFF) && vg_fg_len < CONFIG_BUFF && buff[vg_fg_len] == 0,
                     "parse_line contract: buff is a C string in a buffer of CONFIG_BUFF bytes");
    __CPROVER_assert(fstate_cnt >= 1 && fstate_cnt <= 512 && fstate_idx < fstate_cnt &&
                     __CPROVER_rw_ok(fstate, sizeof(fstate_t) * (size_t) fstate_cnt), "parse_line contract: FSTK_INV");
    __CPROVER_assert(fstate_idx >= 1 && fstate[fstate_idx].fp != NULL, "parse_line contract: a current file with a stream");
    __CPROVER_assert(vg_deliverable == vg_pl_calls + 1 && !vg_fg_mid && !vg_fg_hdr,
                     "parse_line contract: called for the newest complete line, at a line boundary (each line once, in order)");
    __CPROVER_assert((unsigned int) fstate_idx + 1 < fstate_cnt, "parse_line contract (bounded caller): a push does not grow the table");
    /* assigns: buff, spifconf_vars, fstate_idx, the table, ghost groups */
    __CPROVER_havoc_object(buff);
    spifconf_vars = nondet_ptr();
    vg_pl_calls++;
    unsigned long b = nondet_ulong();
    __CPROVER_assume(b <= vg_fg_budget);
    vg_fg_budget = b;
    /* the current entry keeps stream/path/line/PREPROC bit; the other flag bits (skip-to-end) are the handlers' */
    unsigned char fl = nondet_uchar();
    fstate[fstate_idx].flags = (unsigned char) ((fstate[fstate_idx].flags & FILE_PREPROC) | (fl & ~FILE_PREPROC));
    if (fstate_idx < VERIF_MAX_NEST && nondet_bool()) {
        /* %include: one more open stream on top */
        spif_charptr_t path = (spif_charptr_t) malloc(1);
        fstate_idx++;
        fstate[fstate_idx].fp = (FILE *) malloc(sizeof(FILE));
        fstate[fstate_idx].path = path;
        fstate[fstate_idx].outfile = NULL;
        fstate[fstate_idx].line = 1;
        fstate[fstate_idx].flags = 0;
        vg_open_streams++;
    }
}
/* spifconf_find_file as spifconf_parse uses it (memory safety: C11.find_file): NULL, or a C string in a PATH_MAX
 * buffer the caller may write to */
spif_charptr_t v_m_find_file(const spif_charptr_t file, const spif_charptr_t dir, const spif_charptr_t pathlist)
{
    __CPROVER_assert(file != NULL && __CPROVER_r_ok(file, 1), "find_file contract: file readable");
    if (nondet_bool()) return (spif_charptr_t) NULL;
    spif_charptr_t r = (spif_charptr_t) malloc(PATH_MAX);
    r[PATH_MAX - 1] = 0;
    return r;
}
#endif

/* =======================================================================================
 * VERIF_CONF_REALLOC — realloc model for units that run the REAL register_* pushes inside a
 * caller (spifconf_parse_line).  OVER-APPROXIMATION of realloc, in the style of env.h's
 * single-ghost-element model: the new block is fresh with ARBITRARY contents, except that for
 * the two parser stacks the entries a caller can still need are copied: the ghost entry vg_k
 * (arbitrary, hence "every entry") and the entry just below the new top (ctx_peek_last_state()
 * reads it; the index was already incremented when realloc runs).  The old block is freed.
 * ======================================================================================= */
#ifdef VERIF_CONF_REALLOC
void *realloc(void *p, size_t n)
{
    if (p == NULL) return malloc(n);
    __CPROVER_assert(__CPROVER_POINTER_OFFSET(p) == 0, "realloc: pointer is the start of a block");
    void *r = malloc(n);
    size_t m = __CPROVER_OBJECT_SIZE(p);
    if (n < m) m = n;
    if (p == (void *) ctx_state) {
        if (vg_k < m / sizeof(ctx_state_t)) ((ctx_state_t *) r)[vg_k] = ((ctx_state_t *) p)[vg_k];
        if (ctx_state_idx >= 1 && (size_t) (ctx_state_idx - 1) < m / sizeof(ctx_state_t))
            ((ctx_state_t *) r)[ctx_state_idx - 1] = ((ctx_state_t *) p)[ctx_state_idx - 1];
    } else if (p == (void *) fstate) {
        if (vg_k < m / sizeof(fstate_t)) ((fstate_t *) r)[vg_k] = ((fstate_t *) p)[vg_k];
        if (vg_k2 < m / sizeof(fstate_t)) ((fstate_t *) r)[vg_k2] = ((fstate_t *) p)[vg_k2];
    }
    free(p);
    return r;
}
#endif

/* =======================================================================================
 * VERIF_CT_LOOKUP — the loop of ctx_name_to_id as a function (re-binding 6b of env_conf.h)
 *
 *   for ((i)=0; (i) <= ctx_idx; (i)++) { if (!strcasecmp(n, context[i].name)) { the_id = i; break; } }
 *
 * The function returns the exit value of i (<= ctx_idx: matched at i; ctx_idx+1: no match).
 * Ghost recording: the comparison outcome at the ghost index vg_k goes to vg_lk_at_k.  The
 * comparison for slots other than vg_k is an arbitrary int WITHOUT touching the name (the
 * libc over-approximation of env.h); the slot vg_k is compared for real, with the argument
 * validity obligations of strcasecmp.  vg_k is arbitrary, so every slot is checked.
 * ======================================================================================= */
#ifdef VERIF_CT_LOOKUP
/* ghosts: env_conf.h (vg_lkp) */

#ifndef VERIF_LOOKUP_MODEL
static unsigned long v_ctx_lookup(spif_charptr_t n)
{
    unsigned long i;
    int r = 1;

    for (i = 0; i <= ctx_idx; i++)
    __CPROVER_assigns(i, r, vg_lkp)
    __CPROVER_loop_invariant(i <= (unsigned long) ctx_idx + 1)
    __CPROVER_loop_invariant(r != 0)
    __CPROVER_loop_invariant(!(vg_k < i) || vg_lk_at_k != 0)
    __CPROVER_decreases((unsigned long) ctx_idx + 1 - i)
    {
#ifdef VERIF_LOOKUP_EXACT   /* unit C09.lookup_equiv: every slot compared for real, to compare with the macro */
        r = strcasecmp((char *) n, (char *) context[i].name);
        if (i == vg_k) vg_lk_at_k = r;
#else
        if (i == vg_k) {
            r = strcasecmp((char *) n, (char *) context[i].name);
            vg_lk_at_k = r;
        } else {
            r = nondet_int();
        }
#endif
        if (!r) {
            break;
        }
    }
    vg_lk = i;
    vg_lk_hit = r;
    return i;
}
#else
/* MODEL of v_ctx_lookup for callers (same text as the contract below, which C09.ctx_lookup proves for the
 * real loop): assert the precondition, havoc vg_lkp, assume the postcondition. */
static unsigned long v_ctx_lookup(spif_charptr_t n)
{
    __CPROVER_assert(n != NULL && __CPROVER_r_ok(n, 1), "v_ctx_lookup contract: name readable");
    __CPROVER_assert(vg_k > ctx_idx || (context[vg_k].name != NULL && __CPROVER_r_ok(context[vg_k].name, 1)),
                     "v_ctx_lookup contract: context[vg_k].name is a C string");
    unsigned long r = nondet_ulong();
    __CPROVER_assume(r <= (unsigned long) ctx_idx + 1);
    vg_cmp_last = nondet_int();
    vg_lk_at_k = nondet_int();
    vg_lk_hit = nondet_int();
    __CPROVER_assume(r > ctx_idx || vg_lk_hit == 0);
    __CPROVER_assume(r <= ctx_idx || vg_lk_hit != 0);
    __CPROVER_assume(!(vg_k < r) || vg_lk_at_k != 0);
    vg_lk = r;
    return r;
}
#endif
#ifndef VERIF_LOOKUP_MODEL
static unsigned long v_ctx_lookup(spif_charptr_t n)
__CPROVER_requires(CTXTAB_INV && VCSTR_FRESH(n, vg_n1))
__CPROVER_requires(CTXNAME_AT(vg_k))
__CPROVER_assigns(vg_lkp)
__CPROVER_ensures(__CPROVER_return_value <= (unsigned long) ctx_idx + 1 && vg_lk == __CPROVER_return_value)
/* a returned index inside the table is a match; every earlier slot did not match */
__CPROVER_ensures(__CPROVER_return_value > ctx_idx || vg_lk_hit == 0)
__CPROVER_ensures(__CPROVER_return_value <= ctx_idx || vg_lk_hit != 0)
__CPROVER_ensures(!(vg_k < __CPROVER_return_value) || vg_lk_at_k != 0)
;
#endif
#endif /* VERIF_CT_LOOKUP */


/* =======================================================================================
 * VERIF_CT_OPEN_FILE — spifconf_open_file: NULL or a newly opened stream (one more open
 * stream in the ghost count); reads at most the header line; spawns nothing.
 * The fopen stub refuses a 256th nested file (C09's domain: nesting <= 255).
 * ======================================================================================= */
#ifdef VERIF_CT_OPEN_FILE
FILE *spifconf_open_file(spif_charptr_t name)
__CPROVER_requires(name == NULL || __CPROVER_r_ok(name, 1))
/* called at a line boundary of the including file, no header read pending */
__CPROVER_requires(!vg_fg_hdr && !vg_fg_mid)
__CPROVER_assigns(vg_fg, vg_open_streams)
__CPROVER_ensures(!vg_fg_hdr)
__CPROVER_ensures(__CPROVER_return_value == NULL || name != NULL)
__CPROVER_ensures(__CPROVER_return_value == NULL ? vg_open_streams == __CPROVER_old(vg_open_streams)
                  : (vg_open_streams == __CPROVER_old(vg_open_streams) + 1 && fstate_idx < VERIF_MAX_NEST &&
                     __CPROVER_is_fresh(__CPROVER_return_value, sizeof(FILE))))
/* the header line is not a config line; the parse loop starts at a line boundary */
__CPROVER_ensures(vg_deliverable == __CPROVER_old(vg_deliverable) && vg_fg_budget <= __CPROVER_old(vg_fg_budget))
__CPROVER_ensures(!vg_fg_mid)
;
#endif /* VERIF_CT_OPEN_FILE */

/* =======================================================================================
 * VERIF_CT_PARSE_LINE — spifconf_parse_line in file mode (fp != NULL), C09 + C11.
 *
 * Line classes are defined on the CHOMPED text (ghost snapshot vg_line written by chomp's
 * contract), from the grammar of the property statement:
 *     comment | begin NAME | end | %directive | text
 * Keywords are the documented lower-case `begin` / `end`.  Lines that differ from a keyword
 * only in letter case are left unspecified (the parser's switch is case-sensitive in the
 * first letter and case-insensitive in the rest); they are excluded from `text`.
 * ======================================================================================= */
#ifdef VERIF_CT_PARSE_LINE
#define L_(i)        (vg_line[i])
#define LCI(i, c)    (VLOW(vg_line[i]) == (c))
#define PL_RAW0      (__CPROVER_old(buff[0]))
#define PL_PRECOMMENT   (PL_RAW0 == 0 || PL_RAW0 == '\n' || PL_RAW0 == '#' || PL_RAW0 == '<')
#define PL_POSTCOMMENT  (!PL_PRECOMMENT && (L_(0) == 0 || L_(0) == '#'))
#define PL_COMMENT      (PL_PRECOMMENT || PL_POSTCOMMENT)
#define PL_BEGIN        (!PL_PRECOMMENT && L_(0) == 'b' && L_(1) == 'e' && L_(2) == 'g' && L_(3) == 'i' && L_(4) == 'n' && L_(5) == ' ')
#define PL_BEGIN_CI     (LCI(0, 'b') && LCI(1, 'e') && LCI(2, 'g') && LCI(3, 'i') && LCI(4, 'n') && L_(5) == ' ')
#define PL_END          (!PL_PRECOMMENT && L_(0) == 'e' && L_(1) == 'n' && L_(2) == 'd' && (L_(3) == ' ' || L_(3) == 0))
#define PL_END_CI       (LCI(0, 'e') && LCI(1, 'n') && LCI(2, 'd') && (L_(3) == ' ' || L_(3) == 0))
#define PL_PCT          (!PL_PRECOMMENT && L_(0) == '%')
#define PL_TEXT         (!PL_COMMENT && L_(0) != '%' && !PL_BEGIN_CI && !PL_END_CI)
/* the skip-to-end flag of the current file at entry (set by a handler) */
#define PL_SKIP         ((__CPROVER_old(fstate[fstate_idx].flags) & FILE_SKIP_TO_END) != 0)
#define PL_DEPTH0       (__CPROVER_old(ctx_state_idx))
#define PL_STATE0       (__CPROVER_old(ctx_state[ctx_state_idx].state))
#define PL_ID0          (__CPROVER_old(ctx_state[ctx_state_idx].ctx_id))
#define PL_NLOG0        (__CPROVER_old(vg_nlog))
/* the most recent handler call (file mode: at most one per line) */
#define PL_LOG(n)       (vg_hl.c##n)
#define PL_NOCALL       (vg_nlog == PL_NLOG0)
#define PL_ONECALL      (vg_nlog == PL_NLOG0 + 1)
#define PL_CTX_SAME     (ctx_state_idx == PL_DEPTH0 && ctx_state[ctx_state_idx].state == PL_STATE0 && ctx_state[ctx_state_idx].ctx_id == PL_ID0)
/* entry J of the context stack untouched (J is read safely inside old) */
#define PL_CTX_KEEP(J)  (ctx_state[(J)].ctx_id == __CPROVER_old(ctx_state[VIDX(J, ctx_state_idx)].ctx_id) && \
                         ctx_state[(J)].state == __CPROVER_old(ctx_state[VIDX(J, ctx_state_idx)].state))
#define PL_FS_KEEP(J)   (fstate[(J)].fp == __CPROVER_old(fstate[VIDX(J, fstate_idx)].fp) && fstate[(J)].path == __CPROVER_old(fstate[VIDX(J, fstate_idx)].path) && \
                         fstate[(J)].outfile == __CPROVER_old(fstate[VIDX(J, fstate_idx)].outfile) && fstate[(J)].line == __CPROVER_old(fstate[VIDX(J, fstate_idx)].line) && \
                         fstate[(J)].flags == __CPROVER_old(fstate[VIDX(J, fstate_idx)].flags))
/* "every file on the stack from slot 1 up has a stream", at the ghost slot */
#define FSFP_AT(J)      ((J) < 1 || (J) > fstate_idx || fstate[(J)].fp != NULL)

/* every C09 clause is an unconditional postcondition (the former excuse for "second %preproc in a preprocessed
 * file", finding C09-preproc-shadow-fp, went away with fix 4b67cd0) */
#define PL_ENS(x)   __CPROVER_ensures(x)

#ifndef VERIF_PL_PROJECT_FSTACK
void spifconf_parse_line(FILE *fp, spif_charptr_t buff)
/* ---- preconditions: the call site in spifconf_parse (line buffer of CONFIG_BUFF bytes just
 *      filled by fgets with a complete line) and the initialised subsystem ---------------- */
__CPROVER_requires(fp != NULL)
/* the line buffer: at least CONFIG_BUFF bytes (symbolic size vg_n1: a constant-size 20 kB array is bit-blasted per SSA version) */
__CPROVER_requires(vg_n1 >= CONFIG_BUFF && vg_n1 <= VCAP && __CPROVER_is_fresh(buff, vg_n1) && vg_fg_len < CONFIG_BUFF && buff[vg_fg_len] == 0)
__CPROVER_requires(CTXTAB_INV && CTXSTK_INV && FSTK_INV)
__CPROVER_requires(CTXNAME_AT(vg_k))
__CPROVER_requires(CTXID_AT(ctx_state_idx) && CTXID_AT(ctx_state_idx ? ctx_state_idx - 1 : 0) && CTXID_AT(vg_k))
__CPROVER_requires(FSFP_AT(vg_k2) && fstate_idx >= 1 && fstate[fstate_idx].fp != NULL)
/* sequencing ghosts: this call is for the newest complete line, at a line boundary */
__CPROVER_requires(vg_deliverable == vg_pl_calls + 1 && !vg_fg_mid && !vg_fg_hdr)
__CPROVER_assigns(__CPROVER_object_whole(buff), spifconf_vars)
__CPROVER_assigns(ctx_state, ctx_state_idx, ctx_state_cnt, __CPROVER_object_whole(ctx_state))
__CPROVER_assigns(fstate, fstate_idx, fstate_cnt, __CPROVER_object_whole(fstate))
__CPROVER_assigns(VG_ALL)
__CPROVER_frees(ctx_state, fstate)
/* ---- E0: representation invariants are kept; one more parse_line call -------------------- */
PL_ENS(CTXSTK_POST && FSTK_POST && fstate_idx >= 1)
PL_ENS(CTXID_AT(ctx_state_idx) && CTXID_AT(vg_k))
PL_ENS(FSFP_AT(vg_k2))
__CPROVER_ensures(vg_pl_calls == __CPROVER_old(vg_pl_calls) + 1 && vg_deliverable == __CPROVER_old(vg_deliverable) && !vg_fg_mid && !vg_fg_hdr)
__CPROVER_ensures(vg_fg_budget <= __CPROVER_old(vg_fg_budget))
/* ---- E1: stack motion is by at most one; everything below the touched entries is kept ----- */
PL_ENS(fstate_idx == __CPROVER_old(fstate_idx) || fstate_idx == __CPROVER_old(fstate_idx) + 1)
PL_ENS(!(vg_k < __CPROVER_old(fstate_idx)) || PL_FS_KEEP(vg_k))
PL_ENS(ctx_state_idx == PL_DEPTH0 || ctx_state_idx == (PL_DEPTH0 + 1) % 256 || ctx_state_idx + 1 == PL_DEPTH0)
PL_ENS(PL_DEPTH0 == 255 || !(vg_k < PL_DEPTH0 && vg_k + 1 < PL_DEPTH0) || PL_CTX_KEEP(vg_k))
/* a handler is called at most once per line in file mode */
PL_ENS(PL_NOCALL || PL_ONECALL)
/* ---- comment / empty line: nothing happens ---------------------------------------------- */
PL_ENS(!PL_COMMENT || (PL_NOCALL && PL_CTX_SAME && fstate_idx == __CPROVER_old(fstate_idx)))
/* ---- begin NAME: exactly one BEGIN call to the handler of the looked-up context (context 0
 *      when no registered name matches), receiving the ENCLOSING context's state; its result is
 *      the new context's state; the enclosing entry is left as it was; depth + 1 -------------- */
PL_ENS(!(PL_BEGIN && !PL_SKIP && PL_DEPTH0 < 255) ||
                  (PL_ONECALL && PL_LOG(0).kind == VK_BEGIN && PL_LOG(0).in == PL_STATE0 &&
                   ctx_state_idx == PL_DEPTH0 + 1 &&
                   ctx_state[ctx_state_idx].state == PL_LOG(0).out && ctx_state[ctx_state_idx].ctx_id == PL_LOG(0).id &&
                   PL_LOG(0).id <= ctx_idx && PL_LOG(0).h == context[PL_LOG(0).id].handler &&
                   PL_LOG(0).id == (vg_lk <= ctx_idx ? vg_lk : 0) &&
                   ctx_state[PL_DEPTH0].state == PL_STATE0 && ctx_state[PL_DEPTH0].ctx_id == PL_ID0 &&
                   fstate_idx == __CPROVER_old(fstate_idx)))
/* ---- end: exactly one END call to the current context's handler with its state; depth - 1;
 *      the result becomes the enclosing context's state.  Surplus end (depth 0): ignored. ----- */
PL_ENS(!(PL_END && PL_DEPTH0 > 0) ||
                  (PL_ONECALL && PL_LOG(0).kind == VK_END && PL_LOG(0).id == PL_ID0 && PL_LOG(0).in == PL_STATE0 &&
                   PL_LOG(0).h == context[PL_ID0].handler &&
                   ctx_state_idx == PL_DEPTH0 - 1 && ctx_state[ctx_state_idx].state == PL_LOG(0).out &&
                   fstate_idx == __CPROVER_old(fstate_idx)))
PL_ENS(!(PL_END && PL_DEPTH0 == 0) || (PL_NOCALL && PL_CTX_SAME && fstate_idx == __CPROVER_old(fstate_idx)))
/* ---- ordinary text: exactly one call to the innermost context's handler, after chomp and
 *      expansion, with the stored state; the result is stored back; depth unchanged ---------- */
PL_ENS(!(PL_TEXT && !PL_SKIP) ||
                  (PL_ONECALL && PL_LOG(0).text == buff && PL_LOG(0).id == PL_ID0 && PL_LOG(0).in == PL_STATE0 &&
                   PL_LOG(0).h == context[PL_ID0].handler &&
                   ctx_state_idx == PL_DEPTH0 && ctx_state[ctx_state_idx].state == PL_LOG(0).out && ctx_state[ctx_state_idx].ctx_id == PL_ID0 &&
                   (vg_t_expand - vg_t_chomp) - 1 < 3 && (PL_LOG(0).seq - vg_t_expand) - 1 < 3 &&   /* chomp, then expand, then delivery */
                   fstate_idx == __CPROVER_old(fstate_idx)))
/* ---- skipped (a handler asked to skip to the end of its context): no delivery -------------- */
PL_ENS(!((PL_TEXT || PL_BEGIN) && PL_SKIP) || (PL_NOCALL && PL_CTX_SAME && fstate_idx == __CPROVER_old(fstate_idx)))
/* ---- %directive: never delivered to a handler; context stack untouched ------------------- */
PL_ENS(!PL_PCT || (PL_NOCALL && PL_CTX_SAME))
/* ---- a file is pushed only by a %directive; the new entry is a newly opened stream -------- */
PL_ENS(fstate_idx == __CPROVER_old(fstate_idx) ||
                  (PL_PCT && vg_open_streams == __CPROVER_old(vg_open_streams) + 1 && fstate_idx <= VERIF_MAX_NEST &&
                   __CPROVER_is_fresh(fstate[fstate_idx].fp, sizeof(FILE)) && fstate[fstate_idx].line == 1 &&
                   fstate[fstate_idx].flags == 0 && fstate[fstate_idx].outfile == NULL && fstate[fstate_idx].path != NULL))
PL_ENS(fstate_idx != __CPROVER_old(fstate_idx) || vg_open_streams == __CPROVER_old(vg_open_streams))
/* ---- the current file's entry: it keeps a stream, path and line number; a push leaves it untouched below
 *      the new top; its "preprocessed" flag changes only on a %preproc directive ------------------------ */
PL_ENS(fstate[fstate_idx].fp != NULL)
PL_ENS(fstate_idx == __CPROVER_old(fstate_idx) ? (fstate[fstate_idx].path == __CPROVER_old(fstate[fstate_idx].path) &&
                                                  fstate[fstate_idx].line == __CPROVER_old(fstate[fstate_idx].line))
                                               : PL_FS_KEEP(__CPROVER_old(fstate_idx)))
PL_ENS(fstate_idx != __CPROVER_old(fstate_idx) || vg_saw_preproc != __CPROVER_old(vg_saw_preproc) ||
       ((fstate[fstate_idx].flags ^ __CPROVER_old(fstate[fstate_idx].flags)) & FILE_PREPROC) == 0)
/* the file-stack table moves only when a push has to grow it */
PL_ENS((unsigned int) __CPROVER_old(fstate_idx) + 1 == __CPROVER_old(fstate_cnt) ||
       (fstate == __CPROVER_old(fstate) && fstate_cnt == __CPROVER_old(fstate_cnt)))
/* ---- C11 spawn freedom: a process is spawned only after the directive word "preproc " was
 *      matched, or shell_expand read a backquote / matched %exec( --------------------------- */
__CPROVER_ensures(vg_spawned == __CPROVER_old(vg_spawned) || vg_saw_preproc != __CPROVER_old(vg_saw_preproc) ||
                  vg_saw_bq != __CPROVER_old(vg_saw_bq) || vg_saw_exec != __CPROVER_old(vg_saw_exec))
;
#else /* VERIF_PL_PROJECT_FSTACK */
/* PROJECTION of the contract above on (line buffer, file stack, sequencing and stream ghosts), for the caller
 * spifconf_parse (unit C09.parse).  Every clause below is a clause of the full contract (or its instance at the
 * constant slot 1, see the callee-role block above); the clauses about the context table / context stack /
 * handler log are left out on BOTH sides: spifconf_parse itself never touches that component (its own assigns
 * clause in C09.parse does not list it, so a direct write would fail the frame check), it only reaches it
 * through parse_line, whose full contract re-establishes its own context-side preconditions (C09.parse_line).
 * The input bounds of the bounded caller are stated here as in the callee-role block: no %preproc directive. */
void spifconf_parse_line(FILE *fp, spif_charptr_t buff)
__CPROVER_requires(fp != NULL)
__CPROVER_requires(vg_n1 >= CONFIG_BUFF && vg_n1 <= VCAP && __CPROVER_is_fresh(buff, vg_n1) && vg_fg_len < CONFIG_BUFF && buff[vg_fg_len] == 0)
__CPROVER_requires(FSTK_INV)
__CPROVER_requires(FSFP_AT(vg_k2) && fstate_idx >= 1 && fstate[fstate_idx].fp != NULL)
__CPROVER_requires(vg_deliverable == vg_pl_calls + 1 && !vg_fg_mid && !vg_fg_hdr)
/* the bounded caller keeps the table large enough: a push never grows it, so (last PL_ENS of the full contract)
 * neither the table pointer nor its capacity is assigned */
__CPROVER_requires((unsigned int) fstate_idx + 1 < fstate_cnt)
__CPROVER_assigns(__CPROVER_object_whole(buff), spifconf_vars)
__CPROVER_assigns(fstate_idx, __CPROVER_object_whole(fstate))
__CPROVER_assigns(vg_sp, vg_ct, vg_ev, vg_fg, vg_tf, vg_st)
__CPROVER_ensures(vg_saw_preproc == __CPROVER_old(vg_saw_preproc))
__CPROVER_ensures(FSTK_POST && fstate_idx >= 1)
__CPROVER_ensures(FSFP_AT(vg_k2))
__CPROVER_ensures(vg_pl_calls == __CPROVER_old(vg_pl_calls) + 1 && vg_deliverable == __CPROVER_old(vg_deliverable) && !vg_fg_mid && !vg_fg_hdr)
__CPROVER_ensures(vg_fg_budget <= __CPROVER_old(vg_fg_budget))
__CPROVER_ensures(fstate_idx == __CPROVER_old(fstate_idx) || fstate_idx == __CPROVER_old(fstate_idx) + 1)
__CPROVER_ensures(!(vg_k < __CPROVER_old(fstate_idx)) || PL_FS_KEEP(vg_k))
__CPROVER_ensures(!(1 < __CPROVER_old(fstate_idx)) || PL_FS_KEEP(1))
__CPROVER_ensures(fstate_idx == __CPROVER_old(fstate_idx) ||
                  (vg_open_streams == __CPROVER_old(vg_open_streams) + 1 && fstate_idx <= VERIF_MAX_NEST &&
                   __CPROVER_is_fresh(fstate[fstate_idx].fp, sizeof(FILE)) && fstate[fstate_idx].line == 1 &&
                   fstate[fstate_idx].flags == 0 && fstate[fstate_idx].outfile == NULL && fstate[fstate_idx].path != NULL))
__CPROVER_ensures(fstate_idx != __CPROVER_old(fstate_idx) || vg_open_streams == __CPROVER_old(vg_open_streams))
__CPROVER_ensures(fstate[fstate_idx].fp != NULL)
__CPROVER_ensures(fstate_idx == __CPROVER_old(fstate_idx) ? (fstate[fstate_idx].path == __CPROVER_old(fstate[fstate_idx].path) &&
                                                            fstate[fstate_idx].line == __CPROVER_old(fstate[fstate_idx].line))
                                                         : PL_FS_KEEP(__CPROVER_old(fstate_idx)))
__CPROVER_ensures(fstate_idx != __CPROVER_old(fstate_idx) ||
                  ((fstate[fstate_idx].flags ^ __CPROVER_old(fstate[fstate_idx].flags)) & FILE_PREPROC) == 0)
;
#endif /* VERIF_PL_PROJECT_FSTACK */
#endif /* VERIF_CT_PARSE_LINE */

#endif /* VERIF_CONF_H */
#endif /* !VERIF_CONF_SPEC_ONLY */
