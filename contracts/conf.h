/* contracts/conf.h — spec macros and contracts for src/conf.c (C09, C11; owner: conf).
 * Included AFTER the (annotated copy of) conf.c so the file-local state is in scope.
 *
 * Contract blocks are selected by the unit:
 *   VERIF_CT_REGISTER    the four spifconf_register_* pushes (proved in units/C09/register.c)
 *   VERIF_CT_CALLEES     DECLARED contracts of callees that belong to other units/agents
 *                        (get_word, get_pword, chomp: strings.c; shell_expand: C10; temp_file: C11 file.c)
 *   VERIF_CT_LOOKUP      v_ctx_lookup (the ctx_name_to_id loop, see env_conf.h section 6b)
 *   VERIF_CT_OPEN_FILE   spifconf_open_file
 *   VERIF_CT_PARSE_LINE  spifconf_parse_line (file mode: fp != NULL)
 */
#ifndef VERIF_CONF_H
#define VERIF_CONF_H
/* ---------------------------------------------------------------------------------------
 * representation invariants of the four tables.  Capacities: 1..512 (an 8-bit index can
 * only force a doubling up to 2*255)
 * --------------------------------------------------------------------------------------- */
#define CTXSTK_INV   (ctx_state_cnt >= 1 && ctx_state_cnt <= 512 && ctx_state_idx < ctx_state_cnt && \
                      __CPROVER_is_fresh(ctx_state, sizeof(ctx_state_t) * (size_t) ctx_state_cnt))
#define CTXSTK_POST  (ctx_state_cnt >= 1 && ctx_state_cnt <= 512 && ctx_state_idx < ctx_state_cnt && \
                      __CPROVER_rw_ok(ctx_state, sizeof(ctx_state_t) * (size_t) ctx_state_cnt))
#define FSTK_INV     (fstate_cnt >= 1 && fstate_cnt <= 512 && fstate_idx < fstate_cnt && \
                      __CPROVER_is_fresh(fstate, sizeof(fstate_t) * (size_t) fstate_cnt))
#define FSTK_POST    (fstate_cnt >= 1 && fstate_cnt <= 512 && fstate_idx < fstate_cnt && \
                      __CPROVER_rw_ok(fstate, sizeof(fstate_t) * (size_t) fstate_cnt))
#define CTXTAB_INV   (ctx_cnt >= 1 && ctx_cnt <= 512 && ctx_idx < ctx_cnt && \
                      __CPROVER_is_fresh(context, sizeof(ctx_t) * (size_t) ctx_cnt))
#define CTXTAB_POST  (ctx_cnt >= 1 && ctx_cnt <= 512 && ctx_idx < ctx_cnt && \
                      __CPROVER_rw_ok(context, sizeof(ctx_t) * (size_t) ctx_cnt))
#define BLTTAB_INV   (builtin_cnt >= 1 && builtin_cnt <= 512 && builtin_idx < builtin_cnt && \
                      __CPROVER_is_fresh(builtins, sizeof(spifconf_func_t) * (size_t) builtin_cnt))
#define BLTTAB_POST  (builtin_cnt >= 1 && builtin_cnt <= 512 && builtin_idx < builtin_cnt && \
                      __CPROVER_rw_ok(builtins, sizeof(spifconf_func_t) * (size_t) builtin_cnt))

/* "every registered context has a name that is a C string", at the ghost index K (is_fresh:
 * requires-side; rw_ok: ensures-side).  vg_n2 is the ghost length of that one name. */
#define CTXNAME_AT(K)       ((K) > ctx_idx || (vg_n2 <= VCAP && __CPROVER_is_fresh(context[(K)].name, vg_n2 + 1) && context[(K)].name[vg_n2] == 0))
#define CTXNAME_POST_AT(K)  ((K) > ctx_idx || (context[(K)].name != NULL && __CPROVER_r_ok(context[(K)].name, 1)))
/* "every open context refers to a registered context", at stack index J */
#define CTXID_AT(J)         ((J) > ctx_state_idx || ctx_state[(J)].ctx_id <= ctx_idx)

#define VSPACE(c) ((c) == ' ' || ((c) >= '\t' && (c) <= '\r'))

/* =======================================================================================
 * VERIF_CT_REGISTER
 * ======================================================================================= */
#ifdef VERIF_CT_REGISTER
/* index that is safe to read inside __CPROVER_old for every value of the ghost K */
#define VIDX(K, top) ((K) <= (top) ? (K) : 0)
#define CTXSTK_KEEP(K) ((K) > __CPROVER_old(ctx_state_idx) || __CPROVER_old(ctx_state_idx) == 255 || \
                        (ctx_state[(K)].ctx_id == __CPROVER_old(ctx_state[VIDX(K, ctx_state_idx)].ctx_id) && \
                         ctx_state[(K)].state == __CPROVER_old(ctx_state[VIDX(K, ctx_state_idx)].state)))
unsigned char spifconf_register_context_state(unsigned char ctx_id)
/* total: at depth 255 the 8-bit index wraps to 0 (memory-safe since the capacities are ints; outside C09's domain) */
__CPROVER_requires(CTXSTK_INV)
__CPROVER_assigns(ctx_state, ctx_state_idx, ctx_state_cnt, __CPROVER_object_whole(ctx_state))
__CPROVER_frees(ctx_state)
__CPROVER_ensures(CTXSTK_POST)
__CPROVER_ensures(ctx_state_idx == (__CPROVER_old(ctx_state_idx) + 1) % 256 && __CPROVER_return_value == ctx_state_idx)
__CPROVER_ensures(ctx_state[ctx_state_idx].ctx_id == ctx_id && ctx_state[ctx_state_idx].state == NULL)
/* entries below the new top are preserved: proved for the arbitrary ghost index vg_k ... */
__CPROVER_ensures(CTXSTK_KEEP(vg_k))
#ifdef VERIF_ROLE_CALLEE_register_context_state
/* ... hence usable by a caller at the index it needs (the entry just below the new top) */
__CPROVER_ensures(CTXSTK_KEEP(__CPROVER_old(ctx_state_idx)))
#endif
;

#define FSTK_KEEP(K) ((K) > __CPROVER_old(fstate_idx) || \
                  (fstate[(K)].fp == __CPROVER_old(fstate[VIDX(K, fstate_idx)].fp) && fstate[(K)].path == __CPROVER_old(fstate[VIDX(K, fstate_idx)].path) && \
                   fstate[(K)].outfile == __CPROVER_old(fstate[VIDX(K, fstate_idx)].outfile) && fstate[(K)].line == __CPROVER_old(fstate[VIDX(K, fstate_idx)].line) && \
                   fstate[(K)].flags == __CPROVER_old(fstate[VIDX(K, fstate_idx)].flags)))
unsigned char spifconf_register_fstate(FILE *fp, spif_charptr_t path, spif_charptr_t outfile, unsigned long line, unsigned char flags)
__CPROVER_requires(FSTK_INV && fstate_idx < 255)
__CPROVER_requires(fp != NULL && path != NULL && line <= 0xffffffffUL)
__CPROVER_assigns(fstate, fstate_idx, fstate_cnt, __CPROVER_object_whole(fstate))
__CPROVER_frees(fstate)
__CPROVER_ensures(FSTK_POST)
__CPROVER_ensures(fstate_idx == __CPROVER_old(fstate_idx) + 1 && __CPROVER_return_value == fstate_idx)
__CPROVER_ensures(fstate[fstate_idx].fp == fp && fstate[fstate_idx].path == path && fstate[fstate_idx].outfile == outfile
                  && fstate[fstate_idx].line == (spif_uint32_t) line && fstate[fstate_idx].flags == flags)
__CPROVER_ensures(FSTK_KEEP(vg_k))
;
#endif /* VERIF_CT_REGISTER */

/* =======================================================================================
 * VERIF_CT_CALLEES — declared contracts (weak but true) of functions owned by other units
 * ======================================================================================= */
#ifdef VERIF_CT_CALLEES
/* ghosts: env_conf.h (vgc.st: the chomped line vg_line = spec-level snapshot of the first 16 bytes of the text chomp
 * leaves behind; vg_gw_len, vg_se_len) */

#define VLINE_SNAP(i) (!((size_t) (i) < VREMAIN(s)) || vg_line[i] == s[i])
/* spiftool_chomp (strings.c, C13): removes leading and trailing white space in place.
 * ASSUMES (as for libc string functions): s holds a NUL at or after s. */
spif_charptr_t spiftool_chomp(spif_charptr_t s)
__CPROVER_requires(s != NULL && __CPROVER_rw_ok(s, 1))
__CPROVER_assigns(__CPROVER_object_whole(s), vg_line, vgc.ev)
__CPROVER_ensures(__CPROVER_return_value == s)
__CPROVER_ensures(vg_seq == __CPROVER_old(vg_seq) + 1 && vg_t_chomp == vg_seq)
/* result starts with a non-blank (or is empty); the ghost snapshot equals the text */
__CPROVER_ensures(!VSPACE(s[0]))
__CPROVER_ensures(VLINE_SNAP(0) && VLINE_SNAP(1) && VLINE_SNAP(2) && VLINE_SNAP(3) && VLINE_SNAP(4) && VLINE_SNAP(5) && VLINE_SNAP(6) && VLINE_SNAP(7))
__CPROVER_ensures(VLINE_SNAP(8) && VLINE_SNAP(9) && VLINE_SNAP(10) && VLINE_SNAP(11) && VLINE_SNAP(12) && VLINE_SNAP(13) && VLINE_SNAP(14) && VLINE_SNAP(15))
;

#define VPLAINCH(c) ((c) != 0 && !VSPACE(c) && (c) != '\"' && (c) != '\'')
/* spiftool_get_word (strings.c, C12): index-th word as a fresh heap string, NULL if there are
 * fewer words.  The two non-NULL guarantees are the ones parse_line relies on:
 *  - word 1 exists as soon as the string is not empty (the scanning loop runs once);
 *  - word 2 exists when the string starts with five plain characters and a blank ("begin X"):
 *    the loop is entered a second time because str[5] != 0. */
spif_charptr_t spiftool_get_word(unsigned long index, const spif_charptr_t str)
__CPROVER_requires(str != NULL && __CPROVER_r_ok(str, 1))
__CPROVER_assigns(vg_gw_len)
__CPROVER_ensures(__CPROVER_return_value == NULL ||
                  (vg_gw_len <= VCAP && __CPROVER_is_fresh(__CPROVER_return_value, vg_gw_len + 1) && __CPROVER_return_value[vg_gw_len] == 0))
__CPROVER_ensures(!(index == 1 && str[0] != 0) || __CPROVER_return_value != NULL)
__CPROVER_ensures(!(index == 2 && VPLAINCH(str[0]) && VPLAINCH(str[1]) && VPLAINCH(str[2]) && VPLAINCH(str[3]) && VPLAINCH(str[4]) && VSPACE(str[5]))
                  || __CPROVER_return_value != NULL)
;
/* spiftool_get_pword (strings.c, C12): pointer INTO str at the index-th word, NULL if there
 * is none; a leading plain character is word 1 itself. */
spif_charptr_t spiftool_get_pword(unsigned long index, const spif_charptr_t str)
__CPROVER_requires(str != NULL && __CPROVER_r_ok(str, 1))
__CPROVER_assigns()
__CPROVER_ensures(__CPROVER_return_value == NULL ||
                  (__CPROVER_same_object(__CPROVER_return_value, str) &&
                   __CPROVER_POINTER_OFFSET(__CPROVER_return_value) >= __CPROVER_POINTER_OFFSET(str) &&
                   __CPROVER_r_ok(__CPROVER_return_value, 1) && *__CPROVER_return_value != 0))
__CPROVER_ensures(!(index == 1 && VPLAINCH(str[0])) || __CPROVER_return_value == str)
;
/* spifconf_shell_expand (conf.c, C10, owner expand): rewrites s in place with the expansion
 * (at most CONFIG_BUFF-1 characters, copied back with strcpy: s must have CONFIG_BUFF bytes).
 * Spawns a process only after reading a backquote or matching %exec( . */
spif_charptr_t spifconf_shell_expand(spif_charptr_t s)
__CPROVER_requires(s != NULL && VREMAIN(s) >= CONFIG_BUFF && __CPROVER_rw_ok(s, CONFIG_BUFF))
__CPROVER_assigns(__CPROVER_object_whole(s), spifconf_vars, vg_se_len, vgc.ev, vgc.sp)
__CPROVER_ensures(__CPROVER_return_value == s || __CPROVER_return_value == NULL)
__CPROVER_ensures(vg_se_len < CONFIG_BUFF && s[vg_se_len] == 0)
__CPROVER_ensures(vg_seq == __CPROVER_old(vg_seq) + 1 && vg_t_expand == vg_seq && vg_t_chomp == __CPROVER_old(vg_t_chomp))
__CPROVER_ensures(vg_saw_preproc == __CPROVER_old(vg_saw_preproc))
__CPROVER_ensures(vg_spawned == __CPROVER_old(vg_spawned) || vg_saw_bq != __CPROVER_old(vg_saw_bq) || vg_saw_exec != __CPROVER_old(vg_saw_exec))
;
/* spiftool_temp_file (file.c; proved in C11.temp_file): descriptor or -1; ftemplate rewritten
 * (at most len bytes, NUL-terminated); spawns nothing. */
int spiftool_temp_file(spif_charptr_t ftemplate, size_t len)
__CPROVER_requires(ftemplate != NULL && len > 0 && __CPROVER_rw_ok(ftemplate, len))
__CPROVER_assigns(__CPROVER_object_whole(ftemplate), vgc.tf)
__CPROVER_ensures(__CPROVER_return_value >= -1)
__CPROVER_ensures(vg_tpl_len < len && ftemplate[vg_tpl_len] == 0)
;
#endif /* VERIF_CT_CALLEES */

/* =======================================================================================
 * VERIF_CT_LOOKUP — the loop of ctx_name_to_id as a function (re-binding 6b of env_conf.h)
 *
 *   for ((i)=0; (i) <= ctx_idx; (i)++) { if (!strcasecmp(n, context[i].name)) { the_id = i; break; } }
 *
 * The function returns the exit value of i (<= ctx_idx: matched at i; ctx_idx+1: no match).
 * Ghost recording: the comparison outcome at the ghost index vg_k goes to vg_lk_at_k.  The
 * comparison for slots other than vg_k is an arbitrary int WITHOUT touching the name (the
 * libc over-approximation of env.h); the slot vg_k is compared for real, with the argument
 * validity obligations of strcasecmp.  vg_k is arbitrary, so every slot is checked.
 * ======================================================================================= */
#ifdef VERIF_CT_LOOKUP
/* ghosts: env_conf.h (vgc.lk) */

static unsigned long v_ctx_lookup(spif_charptr_t n)
{
    unsigned long i;
    int r = 1;

    for (i = 0; i <= ctx_idx; i++)
    __CPROVER_assigns(i, r, vgc.lk)
    __CPROVER_loop_invariant(i <= (unsigned long) ctx_idx + 1)
    __CPROVER_loop_invariant(r != 0)
    __CPROVER_loop_invariant(!(vg_k < i) || vg_lk_at_k != 0)
    __CPROVER_decreases((unsigned long) ctx_idx + 1 - i)
    {
        if (i == vg_k) {
            r = strcasecmp((char *) n, (char *) context[i].name);
            vg_lk_at_k = r;
        } else {
            r = nondet_int();
        }
        if (!r) {
            break;
        }
    }
    vg_lk = i;
    vg_lk_hit = r;
    return i;
}
static unsigned long v_ctx_lookup(spif_charptr_t n)
__CPROVER_requires(CTXTAB_INV && VCSTR_FRESH(n, vg_n1))
__CPROVER_requires(CTXNAME_AT(vg_k))
__CPROVER_assigns(vgc.lk)
__CPROVER_ensures(__CPROVER_return_value <= (unsigned long) ctx_idx + 1 && vg_lk == __CPROVER_return_value)
/* a returned index inside the table is a match; every earlier slot did not match */
__CPROVER_ensures(__CPROVER_return_value > ctx_idx || vg_lk_hit == 0)
__CPROVER_ensures(__CPROVER_return_value <= ctx_idx || vg_lk_hit != 0)
__CPROVER_ensures(!(vg_k < __CPROVER_return_value) || vg_lk_at_k != 0)
;
#endif /* VERIF_CT_LOOKUP */


/* =======================================================================================
 * VERIF_CT_OPEN_FILE — spifconf_open_file: NULL or a newly opened stream (one more open
 * stream in the ghost count); reads at most the header line; spawns nothing.
 * The fopen stub refuses a 256th nested file (C09's domain: nesting <= 255).
 * ======================================================================================= */
#ifdef VERIF_CT_OPEN_FILE
FILE *spifconf_open_file(spif_charptr_t name)
__CPROVER_requires(name == NULL || __CPROVER_r_ok(name, 1))
__CPROVER_requires(libast_program_name != NULL && __CPROVER_r_ok(libast_program_name, 1))
__CPROVER_requires(libast_program_version != NULL && __CPROVER_r_ok(libast_program_version, 1))
__CPROVER_assigns(vgc.fg, vg_open_streams)
__CPROVER_ensures(__CPROVER_return_value == NULL ? vg_open_streams == __CPROVER_old(vg_open_streams)
                  : (vg_open_streams == __CPROVER_old(vg_open_streams) + 1 && fstate_idx < 255 &&
                     __CPROVER_is_fresh(__CPROVER_return_value, sizeof(FILE))))
/* the header line is not a config line; the parse loop starts at a line boundary */
__CPROVER_ensures(vg_deliverable == __CPROVER_old(vg_deliverable) && vg_fg_budget <= __CPROVER_old(vg_fg_budget))
__CPROVER_ensures(__CPROVER_return_value == NULL ? vg_fg_mid == __CPROVER_old(vg_fg_mid) : !vg_fg_mid)
;
#endif /* VERIF_CT_OPEN_FILE */

/* =======================================================================================
 * VERIF_CT_PARSE_LINE — spifconf_parse_line in file mode (fp != NULL), C09 + C11.
 *
 * Line classes are defined on the CHOMPED text (ghost snapshot vg_line written by chomp's
 * contract), from the grammar of the property statement:
 *     comment | begin NAME | end | %directive | text
 * Keywords are the documented lower-case `begin` / `end`.  Lines that differ from a keyword
 * only in letter case are left unspecified (the parser's switch is case-sensitive in the
 * first letter and case-insensitive in the rest); they are excluded from `text`.
 * ======================================================================================= */
#ifdef VERIF_CT_PARSE_LINE
#define L_(i)        (vg_line[i])
#define LCI(i, c)    (VLOW(vg_line[i]) == (c))
#define PL_RAW0      (__CPROVER_old(buff[0]))
#define PL_PRECOMMENT   (PL_RAW0 == 0 || PL_RAW0 == '\n' || PL_RAW0 == '#' || PL_RAW0 == '<')
#define PL_POSTCOMMENT  (!PL_PRECOMMENT && (L_(0) == 0 || L_(0) == '#'))
#define PL_COMMENT      (PL_PRECOMMENT || PL_POSTCOMMENT)
#define PL_BEGIN        (!PL_PRECOMMENT && L_(0) == 'b' && L_(1) == 'e' && L_(2) == 'g' && L_(3) == 'i' && L_(4) == 'n' && L_(5) == ' ')
#define PL_BEGIN_CI     (LCI(0, 'b') && LCI(1, 'e') && LCI(2, 'g') && LCI(3, 'i') && LCI(4, 'n') && L_(5) == ' ')
#define PL_END          (!PL_PRECOMMENT && L_(0) == 'e' && L_(1) == 'n' && L_(2) == 'd' && (L_(3) == ' ' || L_(3) == 0))
#define PL_END_CI       (LCI(0, 'e') && LCI(1, 'n') && LCI(2, 'd') && (L_(3) == ' ' || L_(3) == 0))
#define PL_PCT          (!PL_PRECOMMENT && L_(0) == '%')
#define PL_TEXT         (!PL_COMMENT && L_(0) != '%' && !PL_BEGIN_CI && !PL_END_CI)
/* the skip-to-end flag of the current file at entry (set by a handler) */
#define PL_SKIP         ((__CPROVER_old(fstate[fstate_idx].flags) & FILE_SKIP_TO_END) != 0)
#define PL_DEPTH0       (__CPROVER_old(ctx_state_idx))
#define PL_STATE0       (__CPROVER_old(ctx_state[ctx_state_idx].state))
#define PL_ID0          (__CPROVER_old(ctx_state[ctx_state_idx].ctx_id))
#define PL_NLOG0        (__CPROVER_old(vg_nlog))
#define PL_LOG(n)       (vg_log[(PL_NLOG0 + (n)) % VLOG_MAX])
#define PL_NOCALL       (vg_nlog == PL_NLOG0)
#define PL_ONECALL      (vg_nlog == PL_NLOG0 + 1)
#define PL_CTX_SAME     (ctx_state_idx == PL_DEPTH0 && ctx_state[ctx_state_idx].state == PL_STATE0 && ctx_state[ctx_state_idx].ctx_id == PL_ID0)
/* entry J of the context stack untouched (J is read safely inside old) */
#define PL_CTX_KEEP(J)  (ctx_state[(J)].ctx_id == __CPROVER_old(ctx_state[VIDX(J, ctx_state_idx)].ctx_id) && \
                         ctx_state[(J)].state == __CPROVER_old(ctx_state[VIDX(J, ctx_state_idx)].state))
#define PL_FS_KEEP(J)   (fstate[(J)].fp == __CPROVER_old(fstate[VIDX(J, fstate_idx)].fp) && fstate[(J)].path == __CPROVER_old(fstate[VIDX(J, fstate_idx)].path) && \
                         fstate[(J)].outfile == __CPROVER_old(fstate[VIDX(J, fstate_idx)].outfile) && fstate[(J)].line == __CPROVER_old(fstate[VIDX(J, fstate_idx)].line) && \
                         fstate[(J)].flags == __CPROVER_old(fstate[VIDX(J, fstate_idx)].flags))
/* "every file on the stack from slot 1 up has a stream", at the ghost slot */
#define FSFP_AT(J)      ((J) < 1 || (J) > fstate_idx || fstate[(J)].fp != NULL)

void spifconf_parse_line(FILE *fp, spif_charptr_t buff)
/* ---- preconditions: the call site in spifconf_parse (line buffer of CONFIG_BUFF bytes just
 *      filled by fgets with a complete line) and the initialised subsystem ---------------- */
__CPROVER_requires(fp != NULL)
__CPROVER_requires(__CPROVER_is_fresh(buff, CONFIG_BUFF) && vg_fg_len < CONFIG_BUFF && buff[vg_fg_len] == 0)
__CPROVER_requires(CTXTAB_INV && CTXSTK_INV && FSTK_INV)
__CPROVER_requires(CTXNAME_AT(vg_k))
__CPROVER_requires(CTXID_AT(ctx_state_idx) && CTXID_AT(ctx_state_idx ? ctx_state_idx - 1 : 0) && CTXID_AT(vg_k))
__CPROVER_requires(FSFP_AT(vg_k2) && fstate_idx >= 1)
__CPROVER_requires(libast_program_name != NULL && __CPROVER_r_ok(libast_program_name, 1))
__CPROVER_requires(libast_program_version != NULL && __CPROVER_r_ok(libast_program_version, 1))
/* sequencing ghosts: this call is for the newest complete line, at a line boundary */
__CPROVER_requires(vg_deliverable == vg_pl_calls + 1 && !vg_fg_mid)
__CPROVER_assigns(__CPROVER_object_whole(buff), spifconf_vars)
__CPROVER_assigns(ctx_state, ctx_state_idx, ctx_state_cnt, __CPROVER_object_whole(ctx_state))
__CPROVER_assigns(fstate, fstate_idx, fstate_cnt, __CPROVER_object_whole(fstate))
__CPROVER_assigns(vgc)
__CPROVER_frees(ctx_state, fstate)
/* ---- E0: representation invariants are kept; one more parse_line call -------------------- */
__CPROVER_ensures(CTXSTK_POST && FSTK_POST && fstate_idx >= 1)
__CPROVER_ensures(CTXID_AT(ctx_state_idx) && CTXID_AT(vg_k))
__CPROVER_ensures(FSFP_AT(vg_k2))
__CPROVER_ensures(vg_pl_calls == __CPROVER_old(vg_pl_calls) + 1 && vg_deliverable == __CPROVER_old(vg_deliverable) && !vg_fg_mid)
__CPROVER_ensures(vg_fg_budget <= __CPROVER_old(vg_fg_budget))
/* ---- E1: stack motion is by at most one; everything below the touched entries is kept ----- */
__CPROVER_ensures(fstate_idx == __CPROVER_old(fstate_idx) || fstate_idx == __CPROVER_old(fstate_idx) + 1)
__CPROVER_ensures(!(vg_k < __CPROVER_old(fstate_idx)) || PL_FS_KEEP(vg_k))
__CPROVER_ensures(ctx_state_idx == PL_DEPTH0 || ctx_state_idx == (PL_DEPTH0 + 1) % 256 || ctx_state_idx + 1 == PL_DEPTH0)
__CPROVER_ensures(PL_DEPTH0 == 255 || !(vg_k + 1 < PL_DEPTH0) || PL_CTX_KEEP(vg_k))
/* a handler is called at most once per line in file mode */
__CPROVER_ensures(PL_NOCALL || PL_ONECALL)
/* ---- comment / empty line: nothing happens ---------------------------------------------- */
__CPROVER_ensures(!PL_COMMENT || (PL_NOCALL && PL_CTX_SAME && fstate_idx == __CPROVER_old(fstate_idx)))
/* ---- begin NAME: exactly one BEGIN call to the handler of the looked-up context (context 0
 *      when no registered name matches), receiving the ENCLOSING context's state; its result is
 *      the new context's state; the enclosing entry is left as it was; depth + 1 -------------- */
__CPROVER_ensures(!(PL_BEGIN && !PL_SKIP && PL_DEPTH0 < 255) ||
                  (PL_ONECALL && PL_LOG(0).kind == VK_BEGIN && PL_LOG(0).in == PL_STATE0 &&
                   ctx_state_idx == PL_DEPTH0 + 1 &&
                   ctx_state[ctx_state_idx].state == PL_LOG(0).out && ctx_state[ctx_state_idx].ctx_id == PL_LOG(0).id &&
                   PL_LOG(0).id <= ctx_idx && PL_LOG(0).h == context[PL_LOG(0).id].handler &&
                   PL_LOG(0).id == (vg_lk <= ctx_idx ? vg_lk : 0) &&
                   ctx_state[PL_DEPTH0].state == PL_STATE0 && ctx_state[PL_DEPTH0].ctx_id == PL_ID0 &&
                   fstate_idx == __CPROVER_old(fstate_idx)))
/* ---- end: exactly one END call to the current context's handler with its state; depth - 1;
 *      the result becomes the enclosing context's state.  Surplus end (depth 0): ignored. ----- */
__CPROVER_ensures(!(PL_END && PL_DEPTH0 > 0) ||
                  (PL_ONECALL && PL_LOG(0).kind == VK_END && PL_LOG(0).id == PL_ID0 && PL_LOG(0).in == PL_STATE0 &&
                   PL_LOG(0).h == context[PL_ID0].handler &&
                   ctx_state_idx == PL_DEPTH0 - 1 && ctx_state[ctx_state_idx].state == PL_LOG(0).out &&
                   fstate_idx == __CPROVER_old(fstate_idx)))
__CPROVER_ensures(!(PL_END && PL_DEPTH0 == 0) || (PL_NOCALL && PL_CTX_SAME && fstate_idx == __CPROVER_old(fstate_idx)))
/* ---- ordinary text: exactly one call to the innermost context's handler, after chomp and
 *      expansion, with the stored state; the result is stored back; depth unchanged ---------- */
__CPROVER_ensures(!(PL_TEXT && !PL_SKIP) ||
                  (PL_ONECALL && PL_LOG(0).text == buff && PL_LOG(0).id == PL_ID0 && PL_LOG(0).in == PL_STATE0 &&
                   PL_LOG(0).h == context[PL_ID0].handler &&
                   ctx_state_idx == PL_DEPTH0 && ctx_state[ctx_state_idx].state == PL_LOG(0).out && ctx_state[ctx_state_idx].ctx_id == PL_ID0 &&
                   vg_t_chomp < vg_t_expand && vg_t_expand < PL_LOG(0).seq &&
                   fstate_idx == __CPROVER_old(fstate_idx)))
/* ---- skipped (a handler asked to skip to the end of its context): no delivery -------------- */
__CPROVER_ensures(!((PL_TEXT || PL_BEGIN) && PL_SKIP) || (PL_NOCALL && PL_CTX_SAME && fstate_idx == __CPROVER_old(fstate_idx)))
/* ---- %directive: never delivered to a handler; context stack untouched ------------------- */
__CPROVER_ensures(!PL_PCT || (PL_NOCALL && PL_CTX_SAME))
/* ---- a file is pushed only by a %directive; the new entry is a newly opened stream -------- */
__CPROVER_ensures(fstate_idx == __CPROVER_old(fstate_idx) ||
                  (PL_PCT && vg_open_streams == __CPROVER_old(vg_open_streams) + 1 &&
                   __CPROVER_is_fresh(fstate[fstate_idx].fp, sizeof(FILE)) && fstate[fstate_idx].line == 1 &&
                   fstate[fstate_idx].flags == 0 && fstate[fstate_idx].outfile == NULL && fstate[fstate_idx].path != NULL))
__CPROVER_ensures(fstate_idx != __CPROVER_old(fstate_idx) || vg_open_streams == __CPROVER_old(vg_open_streams))
/* ---- C11 spawn freedom: a process is spawned only after the directive word "preproc " was
 *      matched, or shell_expand read a backquote / matched %exec( --------------------------- */
__CPROVER_ensures(vg_spawned == __CPROVER_old(vg_spawned) || vg_saw_preproc != __CPROVER_old(vg_saw_preproc) ||
                  vg_saw_bq != __CPROVER_old(vg_saw_bq) || vg_saw_exec != __CPROVER_old(vg_saw_exec))
;
#endif /* VERIF_CT_PARSE_LINE */

#endif
