/* contracts/split.h — spec macros for C12 (split / tok / word utilities).  Owner: split. */
#ifndef VERIF_SPLIT_H
#define VERIF_SPLIT_H

/* isspace() of env.h written out (no function calls are allowed in loop invariants) */
#define VSPACE(c) ((c) == ' ' || ((c) >= '\t' && (c) <= '\r'))

/* NUL position the strlen stub picked when the scratch buffer of get_word / the token buffer of
 * split was sized: the buffer has E+1 bytes and str[E] == 0 */
#define VBUF_END(buf) (__CPROVER_OBJECT_SIZE(buf) - 1)

/* a walking pointer stays inside [base, base+n] */
#define VWALK(p, base, n) (__CPROVER_same_object((p), (base)) && __CPROVER_POINTER_OFFSET(p) <= (n))

/* ghost: the character under the scanner at a loop head (read once, so that invariants can speak
 * about its class without re-reading memory: every memory read in an invariant is instantiated three
 * times by the loop-contract transformation and multiplies the size of the array encoding) */
char vg_sp_c;

#endif
