/* contracts/split.h — spec macros for C12 (split / tok / word utilities).  Owner: split. */
#ifndef VERIF_SPLIT_H
#define VERIF_SPLIT_H

/* isspace() of env.h written out (no function calls are allowed in loop invariants) */
#define VSPACE(c) ((c) == ' ' || ((c) >= '\t' && (c) <= '\r'))

/* NUL position the strlen stub picked when the scratch buffer of get_word / the token buffer of
 * split was sized: the buffer has E+1 bytes and str[E] == 0 */
#define VBUF_END(buf) (__CPROVER_OBJECT_SIZE(buf) - 1)

/* a walking pointer stays inside [base, base+n] */
#define VWALK(p, base, n) (__CPROVER_same_object((p), (base)) && __CPROVER_POINTER_OFFSET(p) <= (n))

/* ghost: the character under the scanner at a loop head (read once, so that invariants can speak
 * about its class without re-reading memory: every memory read in an invariant is instantiated three
 * times by the loop-contract transformation and multiplies the size of the array encoding) */
char vg_sp_c;

/* ---- tok.c (tier P): the str and list classes are the environment of spif_tok_eval ---------------
 * spif_tok_eval touches its token strings only through str methods and its list only through list
 * methods.  In the P unit those callees are represented by the contracts below (replace).  The
 * contracts expose the abstract state of a str (len, size, s != NULL); the character buffer is owned
 * by the str object (stated assumption: no client holds a pointer into the buffer of a str it passes
 * to a mutating method -- true for tmp in spif_tok_eval; the buffer discipline itself is C01's). */
#define VSTR_SZ sizeof(struct spif_str_t_struct)
#define STRV(p) ((p)->s != NULL && 0 <= (p)->len && (p)->len < (p)->size)
/* ghost: number of tokens appended to the (abstract) token list; offset at which the current token began;
 * quote state at the top of the current outer iteration */
size_t vg_sp_cnt;
char vg_sp_q;

#endif
