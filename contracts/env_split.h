/* env_split.h — libc / allocator models used by the C12 units (owner: split).
 *
 * Included after vprelude.h.  Everything here models code OUTSIDE /repo.  Selected by the unit:
 *
 *  VERIF_SPLIT_PRECISE  (tier B units; the unit defines VERIF_OWN_STRLEN and VERIF_OWN_STRCHR *before*
 *      vprelude.h so that env.h's loop-free over-approximations are not compiled):
 *      - loop implementations of strlen/strnlen/strchr/index/strcpy/strcat that are the man-page functions
 *        byte for byte (first NUL, first occurrence); unrolled by --unwind with the code under test;
 *      - with VERIF_SPLIT_OWN_MEM also byte-loop memcpy/memmove/memset;
 *      - malloc/realloc: constant-capacity blocks with a ghost canary (see below); free is cbmc's own;
 *      - VS_ALLOC_OBJ(type): exact-size typed allocation for SPIF_ALLOC.
 *
 *  VERIF_SPLIT_STRCHR_UF (tier P, with VERIF_OWN_STRCHR): loop-free DETERMINISTIC strchr (position =
 *      uninterpreted function of (s, c)); over-approximates the real function like env.h's stub.
 *
 *  VERIF_SPLIT_REALLOC (tier P): realloc for byte buffers: fresh block, ARBITRARY contents except the byte
 *      at ghost index vg_k2 (copied when it lies inside both blocks); old block freed.  The real realloc
 *      preserves every byte below min(old,new), so a proof against this model holds for the real one.
 */
#ifndef VERIF_ENV_SPLIT_H
#define VERIF_ENV_SPLIT_H

#ifdef VERIF_NATIVE
/* native replay of a B unit (driver: `native: self`): the real libc and allocator run under ASan/UBSan, which
 * judge every out-of-bounds access themselves; the model-only hooks are empty */
# define vs_check_block(p) ((void) (p))
# define VS_ALLOC_OBJ(type) ((SPIF_TYPE(type)) malloc(SPIF_SIZEOF_TYPE(type)))
#else

#ifdef VERIF_SPLIT_PRECISE
# if !defined(VERIF_OWN_STRLEN) || !defined(VERIF_OWN_STRCHR)
#  error "VERIF_SPLIT_PRECISE units must define VERIF_OWN_STRLEN and VERIF_OWN_STRCHR before vprelude.h"
# endif
size_t strlen(const char *s)
{
    size_t n = 0;
    while (s[n] != 0) n++;
    return n;
}
size_t strnlen(const char *s, size_t maxlen)
{
    size_t n = 0;
    while (n < maxlen && s[n] != 0) n++;
    return n;
}
char *strchr(const char *s, int c)
{
    for (;; s++) {
        if (*s == (char) c) return (char *) s;
        if (*s == 0) return (char *) 0;
    }
}
char *index(const char *s, int c) { return strchr(s, c); }
char *strcpy(char *d, const char *s)
{
    size_t i = 0;
    for (;; i++) {
        d[i] = s[i];
        if (s[i] == 0) break;
    }
    return d;
}
char *strcat(char *d, const char *s)
{
    size_t n = 0, i = 0;
    while (d[n] != 0) n++;
    for (;; i++) {
        d[n + i] = s[i];
        if (s[i] == 0) break;
    }
    return d;
}
/* byte-loop block functions: with constant block capacities and unrolled loops every access has a
 * constant index, so blocks stay field-sensitive bit-vectors (cbmc's own memcpy/memset models copy through
 * variable-length arrays, i.e. the array theory, when the length is symbolic) */
#ifdef VERIF_SPLIT_OWN_MEM
void *memcpy(void *d, const void *s, size_t n)
{
    size_t i;
    for (i = 0; i < n; i++) ((char *) d)[i] = ((const char *) s)[i];
    return d;
}
void *memmove(void *d, const void *s, size_t n)
{
    size_t i;
    if ((char *) d <= (const char *) s) {
        for (i = 0; i < n; i++) ((char *) d)[i] = ((const char *) s)[i];
    } else {
        for (i = n; i > 0; i--) ((char *) d)[i - 1] = ((const char *) s)[i - 1];
    }
    return d;
}
void *memset(void *d, int c, size_t n)
{
    size_t i;
    for (i = 0; i < n; i++) ((char *) d)[i] = (char) c;
    return d;
}
#endif

/* malloc/realloc for the bounded units ("fat blocks with a ghost canary").
 * cbmc's own malloc gives a block whose size is a symbolic expression whenever the requested size
 * depends on the input (strlen(pstr)+1 ...); such blocks are encoded with the array theory and the B
 * units then need > 36 GB (probed; a variant that branches on the size to get constant-size blocks also
 * runs out of memory).  Model used instead:
 *   - every block is a fresh dynamic object of VS_FAT data bytes (uninitialised), released by cbmc's own
 *     free (double free / invalid free checks stay in force); requests above VS_FAT fail an assertion;
 *   - the requested size n is recorded in a ghost table indexed by cbmc's object number; the byte at ghost
 *     index vg_k2 is set to a canary when n <= vg_k2 < VS_FAT.  vs_check_block() asserts that the canary is still there: because vg_k2
 *     is arbitrary this is "no byte beyond the requested size was WRITTEN" for every offset up to VS_FAT.
 *     The check runs in realloc (on the old block) and wherever the harness calls it (returned blocks).
 * Not seen by this model: READS between the requested size and VS_FAT inside a block the code owns, and
 * writes further than VS_FAT - n bytes beyond a block are reported as plain out-of-bounds accesses. */
#ifndef VS_FAT
# define VS_FAT 64               /* block capacity; a unit may choose a smaller one */
#endif
#define VS_CANARY 0x5A
#ifndef VS_OBJS
# define VS_OBJS 256              /* 2^object-bits of the unit */
#endif
static unsigned char vs_req[VS_OBJS];
void *malloc(size_t n)
{
    char *p;
    __CPROVER_assert(n <= VS_FAT, "malloc model: request fits the fixed block capacity of this unit");
    p = (char *) __CPROVER_allocate(VS_FAT, 0);
    vs_req[__CPROVER_POINTER_OBJECT(p) % VS_OBJS] = (unsigned char) n;
    if (vg_k2 >= n && vg_k2 < VS_FAT) p[vg_k2] = VS_CANARY;
    return p;
}
void vs_check_block(const void *p)
{
    size_t n = vs_req[__CPROVER_POINTER_OBJECT(p) % VS_OBJS];
    __CPROVER_assert(!(vg_k2 >= n && vg_k2 < VS_FAT) || ((const char *) p)[vg_k2] == VS_CANARY,
                     "heap: no byte written beyond the requested size of a block");
}
/* straight-line copy of one block (no loop to unwind, constant indices) */
#define VS_C1(d, s, o) (d)[o] = (s)[o];
#define VS_C8(d, s, o) VS_C1(d, s, o) VS_C1(d, s, o + 1) VS_C1(d, s, o + 2) VS_C1(d, s, o + 3) \
                       VS_C1(d, s, o + 4) VS_C1(d, s, o + 5) VS_C1(d, s, o + 6) VS_C1(d, s, o + 7)
#if VS_FAT == 8
# define VS_COPY_BLOCK(d, s) do { VS_C8(d, s, 0) } while (0)
#elif VS_FAT == 64
# define VS_COPY_BLOCK(d, s) do { VS_C8(d, s, 0) VS_C8(d, s, 8) VS_C8(d, s, 16) VS_C8(d, s, 24) \
                                  VS_C8(d, s, 32) VS_C8(d, s, 40) VS_C8(d, s, 48) VS_C8(d, s, 56) } while (0)
#else
# error "VS_FAT must be 8 or 64"
#endif
void *realloc(void *p, size_t n)
{
    char *r;
    size_t m;
    if (p == NULL) return malloc(n);
    __CPROVER_assert(__CPROVER_POINTER_OFFSET(p) == 0, "realloc: pointer is the start of a block");
    vs_check_block(p);
    m = vs_req[__CPROVER_POINTER_OBJECT(p) % VS_OBJS];
    __CPROVER_assert(n <= VS_FAT, "malloc model: request fits the fixed block capacity of this unit");
    r = (char *) __CPROVER_allocate(VS_FAT, 0);
    vs_req[__CPROVER_POINTER_OBJECT(r) % VS_OBJS] = (unsigned char) n;
    /* constant-size block copy (a copy of min(old, new) bytes with a symbolic length goes through the array
     * theory); the bytes beyond min(old, new) are then made arbitrary / canary again at the ghost index */
    VS_COPY_BLOCK(r, (const char *) p);
    if (vg_k2 >= m && vg_k2 < VS_FAT) r[vg_k2] = nondet_char();
    if (vg_k2 >= n && vg_k2 < VS_FAT) r[vg_k2] = VS_CANARY;
    free(p);
    return r;
}
/* objects (SPIF_ALLOC): exact-size allocation that keeps the struct type (cbmc types a block from the
 * sizeof expression of the request; a fat char block accessed through struct pointers is encoded bytewise
 * and makes the units intractable).  B units re-bind SPIF_ALLOC(type) to this; same request, same size. */
#define VS_ALLOC_OBJ(type) ((SPIF_TYPE(type)) __CPROVER_allocate(SPIF_SIZEOF_TYPE(type), 0))
#endif /* VERIF_SPLIT_PRECISE */

/* Deterministic loop-free strchr (tier P units that need IS_DELIM(c) to give the same answer when it is
 * asked twice about the same character, i.e. for termination measures): the position of c in s is an
 * uninterpreted function of (s, c).  Sound as long as the bytes of s are not modified between the calls
 * (the delimiter string is never in any assigns clause of the functions under contract; DFCC checks
 * that).  Otherwise identical to env.h's stub: NULL only for c != 0, else a position inside the object
 * that holds c.  ASSUMES the argument is a valid C string (as env.h). */
#ifdef VERIF_SPLIT_STRCHR_UF
# ifndef VERIF_OWN_STRCHR
#  error "VERIF_SPLIT_STRCHR_UF units must define VERIF_OWN_STRCHR before vprelude.h"
# endif
size_t __CPROVER_uninterpreted_strchr_pos(const char *, char);
char *strchr(const char *s, int c)
{
    __CPROVER_assert(s != NULL, "strchr: argument not NULL");
    __CPROVER_assert(__CPROVER_r_ok(s, 1), "strchr: argument readable");
    size_t r = __CPROVER_uninterpreted_strchr_pos(s, (char) c);
    if (r == ~(size_t) 0) {
        __CPROVER_assume((char) c != 0);
        return (char *) 0;
    }
    __CPROVER_assume(r < VREMAIN(s) && s[r] == (char) c);
    return (char *) s + r;
}
char *index(const char *s, int c) { return strchr(s, c); }
#endif

#if defined(VERIF_SPLIT_REALLOC) && !defined(VERIF_REALLOC_ELEM_T)
void *realloc(void *p, size_t n)
{
    if (p == NULL) return malloc(n);
    __CPROVER_assert(__CPROVER_POINTER_OFFSET(p) == 0, "realloc: pointer is the start of a block");
    char *r = malloc(n);
    size_t m = __CPROVER_OBJECT_SIZE(p);
    if (n < m) m = n;
    if (vg_k2 < m) r[vg_k2] = ((char *) p)[vg_k2];
    free(p);
    return r;
}
#endif

#endif /* !VERIF_NATIVE */
#endif /* VERIF_ENV_SPLIT_H */
