/* env_split.h — libc models used by the C12 units (owner: split).
 *
 * Included after vprelude.h.  Two families, selected by the unit:
 *
 *  VERIF_SPLIT_PRECISE  (tier B units; the unit defines VERIF_OWN_STRLEN and
 *      VERIF_OWN_STRCHR *before* vprelude.h so that env.h's loop-free
 *      over-approximations are not compiled): loop implementations of
 *      strlen/strnlen/strchr/strcpy/strcat that are the man-page functions
 *      byte for byte (first NUL, first occurrence).  They are unrolled by
 *      --unwind together with the code under test.
 *
 *  otherwise (tier P units): env.h's strlen/strchr stay in force; this file adds
 *      loop-free over-approximations of what env.h lacks:
 *      - realloc for byte buffers when the unit defines VERIF_SPLIT_REALLOC:
 *        fresh block, ARBITRARY contents except the byte at ghost index vg_k2
 *        (copied when it lies inside both blocks); old block freed.  The real
 *        realloc preserves every byte below min(old,new), so a proof against
 *        this model holds for the real one; vg_k2 is arbitrary.
 */
#ifndef VERIF_ENV_SPLIT_H
#define VERIF_ENV_SPLIT_H

#ifdef VERIF_SPLIT_PRECISE
# if !defined(VERIF_OWN_STRLEN) || !defined(VERIF_OWN_STRCHR)
#  error "VERIF_SPLIT_PRECISE units must define VERIF_OWN_STRLEN and VERIF_OWN_STRCHR before vprelude.h"
# endif
size_t strlen(const char *s)
{
    size_t n = 0;
    while (s[n] != 0) n++;
    return n;
}
size_t strnlen(const char *s, size_t maxlen)
{
    size_t n = 0;
    while (n < maxlen && s[n] != 0) n++;
    return n;
}
char *strchr(const char *s, int c)
{
    for (;; s++) {
        if (*s == (char) c) return (char *) s;
        if (*s == 0) return (char *) 0;
    }
}
char *index(const char *s, int c) { return strchr(s, c); }
char *strcpy(char *d, const char *s)
{
    size_t i = 0;
    for (;; i++) {
        d[i] = s[i];
        if (s[i] == 0) break;
    }
    return d;
}
char *strcat(char *d, const char *s)
{
    size_t n = 0, i = 0;
    while (d[n] != 0) n++;
    for (;; i++) {
        d[n + i] = s[i];
        if (s[i] == 0) break;
    }
    return d;
}
/* byte-loop memcpy/memmove/memset: cbmc's array models are exact as well, but with the tiny constant
 * sizes of the B units plain loops keep everything in one propositional encoding */
#endif /* VERIF_SPLIT_PRECISE */

#if defined(VERIF_SPLIT_REALLOC) && !defined(VERIF_REALLOC_ELEM_T)
void *realloc(void *p, size_t n)
{
    if (p == NULL) return malloc(n);
    __CPROVER_assert(__CPROVER_POINTER_OFFSET(p) == 0, "realloc: pointer is the start of a block");
    char *r = malloc(n);
    size_t m = __CPROVER_OBJECT_SIZE(p);
    if (n < m) m = n;
    if (vg_k2 < m) r[vg_k2] = ((char *) p)[vg_k2];
    free(p);
    return r;
}
#endif

#endif /* VERIF_ENV_SPLIT_H */
