/* env_split.h — libc models used by the C12 units (owner: split).
 *
 * Included after vprelude.h.  Two families, selected by the unit:
 *
 *  VERIF_SPLIT_PRECISE  (tier B units; the unit defines VERIF_OWN_STRLEN and
 *      VERIF_OWN_STRCHR *before* vprelude.h so that env.h's loop-free
 *      over-approximations are not compiled): loop implementations of
 *      strlen/strnlen/strchr/strcpy/strcat that are the man-page functions
 *      byte for byte (first NUL, first occurrence).  They are unrolled by
 *      --unwind together with the code under test.
 *
 *  otherwise (tier P units): env.h's strlen/strchr stay in force; this file adds
 *      loop-free over-approximations of what env.h lacks:
 *      - realloc for byte buffers when the unit defines VERIF_SPLIT_REALLOC:
 *        fresh block, ARBITRARY contents except the byte at ghost index vg_k2
 *        (copied when it lies inside both blocks); old block freed.  The real
 *        realloc preserves every byte below min(old,new), so a proof against
 *        this model holds for the real one; vg_k2 is arbitrary.
 */
#ifndef VERIF_ENV_SPLIT_H
#define VERIF_ENV_SPLIT_H

#ifdef VERIF_SPLIT_PRECISE
# if !defined(VERIF_OWN_STRLEN) || !defined(VERIF_OWN_STRCHR)
#  error "VERIF_SPLIT_PRECISE units must define VERIF_OWN_STRLEN and VERIF_OWN_STRCHR before vprelude.h"
# endif
size_t strlen(const char *s)
{
    size_t n = 0;
    while (s[n] != 0) n++;
    return n;
}
size_t strnlen(const char *s, size_t maxlen)
{
    size_t n = 0;
    while (n < maxlen && s[n] != 0) n++;
    return n;
}
char *strchr(const char *s, int c)
{
    for (;; s++) {
        if (*s == (char) c) return (char *) s;
        if (*s == 0) return (char *) 0;
    }
}
char *index(const char *s, int c) { return strchr(s, c); }
char *strcpy(char *d, const char *s)
{
    size_t i = 0;
    for (;; i++) {
        d[i] = s[i];
        if (s[i] == 0) break;
    }
    return d;
}
char *strcat(char *d, const char *s)
{
    size_t n = 0, i = 0;
    while (d[n] != 0) n++;
    for (;; i++) {
        d[n + i] = s[i];
        if (s[i] == 0) break;
    }
    return d;
}
/* malloc/realloc for the bounded units.  cbmc's own malloc gives a block whose size is a symbolic
 * expression whenever the requested size depends on the input (strlen(pstr)+1 ...); such blocks are
 * encoded with the array theory and the B units then need > 36 GB.  This model is the same allocator
 * (fresh dynamic object of EXACTLY n bytes, uninitialised, freed by cbmc's own free) but it branches on
 * the requested size so that every block has a constant size: exact bounds checks, no array theory.
 * Sizes above VS_MALLOC_MAX fall through to the symbolic-size allocation. */
#define VS_M(k) case k: return __CPROVER_allocate(k, 0);
void *malloc(size_t n)
{
    switch (n) {
      VS_M(1) VS_M(2) VS_M(3) VS_M(4) VS_M(5) VS_M(6) VS_M(7) VS_M(8) VS_M(9) VS_M(10) VS_M(11) VS_M(12)
      VS_M(13) VS_M(14) VS_M(15) VS_M(16) VS_M(17) VS_M(18) VS_M(19) VS_M(20) VS_M(24) VS_M(32) VS_M(40)
      VS_M(48) VS_M(56) VS_M(64)
      default: return __CPROVER_allocate(n, 0);
    }
}
void *realloc(void *p, size_t n)
{
    char *r;
    size_t m;
    if (p == NULL) return malloc(n);
    __CPROVER_assert(__CPROVER_POINTER_OFFSET(p) == 0, "realloc: pointer is the start of a block");
    r = malloc(n);
    m = __CPROVER_OBJECT_SIZE(p);
    if (n < m) m = n;
    memcpy(r, p, m);
    free(p);
    return r;
}
#endif /* VERIF_SPLIT_PRECISE */

/* Deterministic loop-free strchr (tier P units that need IS_DELIM(c) to give the same answer when it is
 * asked twice about the same character, i.e. for termination measures): the position of c in s is an
 * uninterpreted function of (s, c).  Sound as long as the bytes of s are not modified between the calls
 * (the delimiter string is never in any assigns clause of the functions under contract; DFCC checks
 * that).  Otherwise identical to env.h's stub: NULL only for c != 0, else a position inside the object
 * that holds c.  ASSUMES the argument is a valid C string (as env.h). */
#ifdef VERIF_SPLIT_STRCHR_UF
# ifndef VERIF_OWN_STRCHR
#  error "VERIF_SPLIT_STRCHR_UF units must define VERIF_OWN_STRCHR before vprelude.h"
# endif
size_t __CPROVER_uninterpreted_strchr_pos(const char *, char);
char *strchr(const char *s, int c)
{
    __CPROVER_assert(s != NULL, "strchr: argument not NULL");
    __CPROVER_assert(__CPROVER_r_ok(s, 1), "strchr: argument readable");
    size_t r = __CPROVER_uninterpreted_strchr_pos(s, (char) c);
    if (r == ~(size_t) 0) {
        __CPROVER_assume((char) c != 0);
        return (char *) 0;
    }
    __CPROVER_assume(r < VREMAIN(s) && s[r] == (char) c);
    return (char *) s + r;
}
char *index(const char *s, int c) { return strchr(s, c); }
#endif

#if defined(VERIF_SPLIT_REALLOC) && !defined(VERIF_REALLOC_ELEM_T)
void *realloc(void *p, size_t n)
{
    if (p == NULL) return malloc(n);
    __CPROVER_assert(__CPROVER_POINTER_OFFSET(p) == 0, "realloc: pointer is the start of a block");
    char *r = malloc(n);
    size_t m = __CPROVER_OBJECT_SIZE(p);
    if (n < m) m = n;
    if (vg_k2 < m) r[vg_k2] = ((char *) p)[vg_k2];
    free(p);
    return r;
}
#endif

#endif /* VERIF_ENV_SPLIT_H */
