/* env_conf.h — verification environment of the config-parser units (C09, C11; owner: conf).
 *
 * Include AFTER vprelude.h and BEFORE "src/conf.c" / "src/file.c".  Everything here is about
 * code outside /repo (libc, the OS), about ghost state, or is one of the STATED RE-BINDINGS of
 * conf.c macros / message calls (sections 5b and 6).  Stubs follow the man pages and return
 * every outcome the man page allows; deviations are marked ASSUMES.
 *
 * Units that include this header compile with  -DVERIF_OWN_STRCMP -DVERIF_OWN_STRCHR
 * (env.h then leaves the comparison / search families to this file); optionally
 * -DVERIF_OWN_STRLEN with -DVERIF_STRLEN_REGISTRY (deterministic strlen, section 1c) or
 * -DVERIF_EXACT_STR (byte-loop string functions for bounded units, section 1d).
 *
 * Switches: VERIF_CONF_REBIND (6a, 6b), VERIF_CONF_PUSH_MODELS (6c), VERIF_MAX_NEST (deepest file
 * nesting the fopen stub allows; default 255 = the domain of C09), VERIF_FGETS_ALWAYS_OK / _FAIL,
 * VERIF_FTELL_REGULAR_SMALL, VERIF_STREAM_CHECKS_UNGUARDED (behaviour splits of individual units).
 */
#ifndef VERIF_ENV_CONF_H
#define VERIF_ENV_CONF_H

#include <sys/types.h>
#include <sys/stat.h>
#include <dirent.h>
#include <unistd.h>
#include <stdarg.h>

/* ======================================================================================
 * 1. ghost state — a handful of small objects (one per group), so that contracts name one
 *    assigns target per group (DFCC's write-set bookkeeping is quadratic in the number of
 *    targets) while no object is big (every byte-level access to an object that a pointer may
 *    alias is spelled out over the whole object).  The vg_* names are aliases of the members.
 * ====================================================================================== */
#define VK_BEGIN 1
#define VK_END   2
#define VK_TEXT  3
typedef struct {
    unsigned char id;            /* context table index the parser selected              */
    ctx_handler_t h;             /* the pointer it read from context[id].handler         */
    int kind;                    /* VK_BEGIN / VK_END / VK_TEXT (first byte of the text)  */
    spif_charptr_t text;
    void *in, *out;              /* state received / returned                            */
    unsigned long seq;           /* vg_seq at the call                                   */
} vlog_t;

/* spawn group */
struct {
    unsigned long spawned;       /* processes spawned: system/popen/fork/exec*                    */
    unsigned long saw_preproc;   /* times a line matched the directive word "preproc "            */
    unsigned long saw_bq;        /* shell_expand's contract: a backquote was read                 */
    unsigned long saw_exec;      /* shell_expand's contract: %exec( was matched                   */
} vg_sp;
/* counters */
struct {
    unsigned long open_streams;  /* fopen/fdopen successes minus fclose calls (wraps: only compared for equality) */
    unsigned long open_dirs;     /* opendir successes minus closedir calls                        */
    unsigned long dir_budget;    /* directory entries the environment still delivers              */
    size_t dname_len;            /* a NUL position of the d_name readdir handed out last          */
    unsigned long pl_calls;      /* spifconf_parse_line calls (bumped by the entry annotation)    */
} vg_ct;
/* event order */
struct {
    unsigned long seq;           /* global event counter (orders chomp / expand / handler calls)  */
    unsigned long t_chomp, t_expand;   /* vg_seq when the line was chomped / expanded             */
} vg_ev;
/* fgets stub <-> parse loop bookkeeping */
struct {
    unsigned long budget;        /* chunks the environment will still deliver (files are finite)  */
    _Bool mid;                   /* the previous chunk of the current stream had no newline       */
    _Bool nl;                    /* last successful fgets: C-string view has a newline            */
    size_t len;                  /* last successful fgets: position of a NUL in the chunk         */
    char *buf;                   /* last successful fgets: buffer                                 */
    _Bool ok;                    /* last fgets call returned non-NULL                             */
    _Bool hdr;                   /* stream just opened by fopen: next chunk is the header line    */
    unsigned long deliverable;   /* complete lines (line-initial chunk ending in newline) read    */
} vg_fg;
/* umask / mkstemp / fchmod recording (spiftool_temp_file) */
struct {
    mode_t umask_cur;            /* the process umask                                             */
    unsigned long umask_calls;
    mode_t mkstemp_umask;        /* umask in force when mkstemp ran                               */
    _Bool mkstemp_tpl_ok;        /* template was a C string ending in XXXXXX                      */
    unsigned long mkstemp_calls;
    int mkstemp_fd;              /* descriptor mkstemp returned (-1: failed)                      */
    int fchmod_fd;               /* last successful fchmod: descriptor, mode                      */
    mode_t fchmod_mode;
    unsigned long fchmod_calls;
    size_t tpl_len;              /* a NUL position of the name spiftool_temp_file hands back      */
} vg_tf;
/* handler log (re-binding 6a): the last three calls, most recent first (no symbolic index) */
struct {
    vlog_t c0, c1, c2;
    unsigned long nlog;          /* handler calls so far                                          */
    unsigned char call_id;
    ctx_handler_t call_h;
} vg_hl;
/* strings.c callee contracts */
struct {
    char line[16];               /* the chomped line: first 16 bytes of the text chomp leaves     */
    size_t gw_len;               /* ghost length of the word get_word returned                    */
    size_t se_len;               /* a NUL position of the text shell_expand left in s             */
} vg_st;
/* context lookup (re-binding 6b) */
struct {
    int cmp_last;                /* result of the last strcasecmp call                            */
    int at_k;                    /* outcome of the comparison with context[vg_k].name             */
    unsigned long res;           /* last result of v_ctx_lookup                                   */
    int hit;                     /* outcome of the comparison at the returned index               */
} vg_lkp;
/* ghost lengths of string arguments (never assigned; env.h's vg_n1..3 are used up by the table invariants) */
size_t vg_m1, vg_m2, vg_m3;
#ifndef VERIF_MAX_CTX
# define VERIF_MAX_CTX 255
#endif
/* (units with VERIF_STRLEN_REGISTRY add vg_sreg to their assigns clauses) */
/* every ghost group, for assigns clauses */
#define VG_ALL vg_sp, vg_ct, vg_ev, vg_fg, vg_tf, vg_hl, vg_st, vg_lkp
#define vg_spawned        vg_sp.spawned
#define vg_saw_preproc    vg_sp.saw_preproc
#define vg_saw_bq         vg_sp.saw_bq
#define vg_saw_exec       vg_sp.saw_exec
#define vg_open_streams   vg_ct.open_streams
#define vg_open_dirs      vg_ct.open_dirs
#define vg_dir_budget     vg_ct.dir_budget
#define vg_dname_len      vg_ct.dname_len
#define vg_pl_calls       vg_ct.pl_calls
#define vg_seq            vg_ev.seq
#define vg_t_chomp        vg_ev.t_chomp
#define vg_t_expand       vg_ev.t_expand
#define vg_fg_budget      vg_fg.budget
#define vg_fg_mid         vg_fg.mid
#define vg_fg_nl          vg_fg.nl
#define vg_fg_len         vg_fg.len
#define vg_fg_buf         vg_fg.buf
#define vg_fg_ok          vg_fg.ok
#define vg_fg_hdr         vg_fg.hdr
#define vg_deliverable    vg_fg.deliverable
#define vg_umask_cur      vg_tf.umask_cur
#define vg_umask_calls    vg_tf.umask_calls
#define vg_mkstemp_umask  vg_tf.mkstemp_umask
#define vg_mkstemp_tpl_ok vg_tf.mkstemp_tpl_ok
#define vg_mkstemp_calls  vg_tf.mkstemp_calls
#define vg_mkstemp_fd     vg_tf.mkstemp_fd
#define vg_fchmod_fd      vg_tf.fchmod_fd
#define vg_fchmod_mode    vg_tf.fchmod_mode
#define vg_fchmod_calls   vg_tf.fchmod_calls
#define vg_tpl_len        vg_tf.tpl_len
#define vg_nlog           vg_hl.nlog
#define vg_call_id        vg_hl.call_id
#define vg_call_h         vg_hl.call_h
#define vg_line           vg_st.line
#define vg_gw_len         vg_st.gw_len
#define vg_se_len         vg_st.se_len
#define vg_cmp_last       vg_lkp.cmp_last
#define vg_lk_at_k        vg_lkp.at_k
#define vg_lk             vg_lkp.res
#define vg_lk_hit         vg_lkp.hit

/* ======================================================================================
 * 1c. deterministic strlen (units that define VERIF_OWN_STRLEN and VERIF_STRLEN_REGISTRY; SAT)
 *    Still "SOME NUL position of the argument" (env.h's over-approximation, same ASSUMES), but the
 *    choice is made deterministic so that two strlen calls on an unchanged buffer agree and the
 *    destination-size arithmetic of strcpy/strcat chains can be followed without quantifiers:
 *      1. the empty string has length 0 (the copy stubs keep the FIRST byte of a string faithful, so a
 *         non-empty result never looks empty);
 *      2. a length REGISTERED for exactly this pointer by the stub/model that produced the string
 *         (strcpy, strcat, snprintf, readdir, the temp_file / safe_strncpy models) is returned as
 *         long as the byte there is still NUL;
 *      3. a "tight" string (the object ends with the terminator) has the object's length;
 *      4. otherwise any NUL position.
 *    The registry has one slot per object number (256 with the default 8 object bits); a collision (more
 *    object bits) only loses precision.
 * ====================================================================================== */
#if defined(VERIF_OWN_STRLEN) && defined(VERIF_STRLEN_REGISTRY)
struct { const char *p; size_t n; } vg_sreg[256];
#define V_SREG_SET(ptr, len) do { unsigned vsi = (unsigned) (__CPROVER_POINTER_OBJECT(ptr) % 256); \
                                  vg_sreg[vsi].p = (const char *) (ptr); vg_sreg[vsi].n = (len); } while (0)
size_t strlen(const char *s)
{
    __CPROVER_assert(s != NULL, "strlen: argument not NULL");
    __CPROVER_assert(__CPROVER_r_ok(s, 1), "strlen: argument readable");
    if (s[0] == 0) return 0;
    unsigned i = (unsigned) (__CPROVER_POINTER_OBJECT(s) % 256);
    if (vg_sreg[i].p == s && vg_sreg[i].n < VREMAIN(s) && s[vg_sreg[i].n] == 0) return vg_sreg[i].n;
    size_t last = VREMAIN(s) - 1;
    if (s[last] == 0) return last;
    size_t r = nondet_size_t();
    __CPROVER_assume(r < VREMAIN(s));
    __CPROVER_assume(s[r] == 0);
    return r;
}
size_t strnlen(const char *s, size_t maxlen)
{
    size_t r = strlen(s);
    return r < maxlen ? r : maxlen;
}
#else
#define V_SREG_SET(ptr, len) do { } while (0)
#endif

/* ======================================================================================
 * 1d. exact byte-loop string functions (bounded units that define VERIF_OWN_STRLEN and
 *     VERIF_EXACT_STR; loops are unwound by the unit's --unwind): man-page semantics, every copy
 *     carries its destination-size obligation.
 * ====================================================================================== */
#if defined(VERIF_OWN_STRLEN) && defined(VERIF_EXACT_STR)
size_t strlen(const char *s)
{
    size_t n = 0;
    __CPROVER_assert(s != NULL, "strlen: argument not NULL");
    while (s[n]) n++;
    return n;
}
#endif

/* ======================================================================================
 * 2. comparison family (replaces env.h's: units define VERIF_OWN_STRCMP)
 *    strncasecmp/strncmp are EXACT for n <= 9 (every use in conf.c compares against a
 *    literal of at most 8 characters), arbitrary beyond.  strcasecmp/strcmp are exact as long
 *    as one string ends within 8 characters, arbitrary beyond.  All functions are loop-free.
 *    ASSUMES (as env.h): arguments are C strings (reads stop at the first NUL, every byte
 *    read is still subject to cbmc's pointer checks).
 * ====================================================================================== */
#define VLOW(c) (((int) (((c) >= 'A' && (c) <= 'Z') ? (c) + 32 : (c))) & 0xff)
#define VRAW(c) (((int) (c)) & 0xff)
/* the first nine bytes of both strings, each read once and only while no NUL was seen */
#define VCMP_LOAD \
    char a0 = a[0], b0 = b[0]; \
    char a1 = a0 ? a[1] : 0, b1 = b0 ? b[1] : 0; \
    char a2 = a1 ? a[2] : 0, b2 = b1 ? b[2] : 0; \
    char a3 = a2 ? a[3] : 0, b3 = b2 ? b[3] : 0; \
    char a4 = a3 ? a[4] : 0, b4 = b3 ? b[4] : 0; \
    char a5 = a4 ? a[5] : 0, b5 = b4 ? b[5] : 0; \
    char a6 = a5 ? a[6] : 0, b6 = b5 ? b[6] : 0; \
    char a7 = a6 ? a[7] : 0, b7 = b6 ? b[7] : 0; \
    char a8 = a7 ? a[8] : 0, b8 = b7 ? b[8] : 0;
#define VCMP_STEP(i, F) \
    if (n <= (i)) return VCMP_REC(0); \
    { int ca = F(a##i), cb = F(b##i); if (ca != cb) return VCMP_REC(ca - cb); if (ca == 0) return VCMP_REC(0); }
#define VCMP_BODY(F) \
    VCMP_STEP(0, F) VCMP_STEP(1, F) VCMP_STEP(2, F) VCMP_STEP(3, F) VCMP_STEP(4, F) \
    VCMP_STEP(5, F) VCMP_STEP(6, F) VCMP_STEP(7, F) VCMP_STEP(8, F)
#define VCMP_REC(r) (r)

static int v_cmp_tail(void) { int r = nondet_int(); return r; }

int strncasecmp(const char *a, const char *b, size_t n)
{
    __CPROVER_assert(n == 0 || (a != NULL && b != NULL), "strncasecmp: arguments not NULL");
    __CPROVER_assert(n == 0 || (__CPROVER_r_ok(a, 1) && __CPROVER_r_ok(b, 1)), "strncasecmp: arguments readable");
    if (n == 0) return 0;
    __CPROVER_assume(a != NULL && b != NULL && __CPROVER_r_ok(a, 1) && __CPROVER_r_ok(b, 1));   /* (a failed obligation above ends the path) */
    VCMP_LOAD
    /* ghost: the directive word "preproc " was matched (C11 spawn freedom) */
    if (n == 8 && b0 == 'p' && b1 == 'r' && b2 == 'e' && b3 == 'p' && b4 == 'r' && b5 == 'o' && b6 == 'c' && b7 == ' '
        && VLOW(a0) == 'p' && VLOW(a1) == 'r' && VLOW(a2) == 'e' && VLOW(a3) == 'p' && VLOW(a4) == 'r'
        && VLOW(a5) == 'o' && VLOW(a6) == 'c' && a7 == ' ') {
        vg_saw_preproc++;
    }
    VCMP_BODY(VLOW)
    return v_cmp_tail();
}
int strncmp(const char *a, const char *b, size_t n)
{
    __CPROVER_assert(n == 0 || (a != NULL && b != NULL), "strncmp: arguments not NULL");
    __CPROVER_assert(n == 0 || (__CPROVER_r_ok(a, 1) && __CPROVER_r_ok(b, 1)), "strncmp: arguments readable");
    if (n == 0) return 0;
    __CPROVER_assume(a != NULL && b != NULL && __CPROVER_r_ok(a, 1) && __CPROVER_r_ok(b, 1));   /* (a failed obligation above ends the path) */
    VCMP_LOAD
    VCMP_BODY(VRAW)
    return v_cmp_tail();
}
int strcmp(const char *a, const char *b)
{
    size_t n = 9;
    __CPROVER_assert(a != NULL && b != NULL, "strcmp: arguments not NULL");
    __CPROVER_assert(__CPROVER_r_ok(a, 1) && __CPROVER_r_ok(b, 1), "strcmp: arguments readable");
    __CPROVER_assume(a != NULL && b != NULL && __CPROVER_r_ok(a, 1) && __CPROVER_r_ok(b, 1));   /* (a failed obligation above ends the path) */
    VCMP_LOAD
    VCMP_BODY(VRAW)
    return v_cmp_tail();
}
#undef  VCMP_REC
#define VCMP_REC(r) (vg_cmp_last = (r))
int strcasecmp(const char *a, const char *b)
{
    size_t n = 9;
    __CPROVER_assert(a != NULL && b != NULL, "strcasecmp: arguments not NULL");
    __CPROVER_assert(__CPROVER_r_ok(a, 1) && __CPROVER_r_ok(b, 1), "strcasecmp: arguments readable");
    __CPROVER_assume(a != NULL && b != NULL && __CPROVER_r_ok(a, 1) && __CPROVER_r_ok(b, 1));   /* (a failed obligation above ends the path) */
    VCMP_LOAD
    VCMP_BODY(VLOW)
    return VCMP_REC(v_cmp_tail());
}
#undef VCMP_REC
#undef VCMP_STEP

/* ======================================================================================
 * 3. search family (replaces env.h's: units define VERIF_OWN_STRCHR)
 *    Same over-approximation as env.h, except that a search for '\n' in the buffer the
 *    last fgets filled answers what the fgets stub decided (vg_fg_nl): the parse loop's
 *    "complete line" test is then exact with respect to the stub.
 * ====================================================================================== */
char *strchr(const char *s, int c)
{
    __CPROVER_assert(s != NULL, "strchr: argument not NULL");
    __CPROVER_assert(__CPROVER_r_ok(s, 1), "strchr: argument readable");
#ifdef VERIF_EXACT_STR
    for (size_t i = 0;; i++) {
        if (s[i] == (char) c) return (char *) s + i;
        if (!s[i]) return (char *) 0;
    }
#endif
    if (s == vg_fg_buf && vg_fg_ok && c == '\n') {
        return vg_fg_nl ? (char *) s + (vg_fg_len - 1) : (char *) 0;
    }
    size_t n = strlen(s);
    if (nondet_bool()) {
        __CPROVER_assume((char) c != 0);
        return (char *) 0;
    }
    size_t r = nondet_size_t();
    __CPROVER_assume(r <= n && s[r] == (char) c);
    return (char *) s + r;
}
char *strrchr(const char *s, int c) { return strchr(s, c); }
char *index(const char *s, int c) { return strchr(s, c); }
char *rindex(const char *s, int c) { return strchr(s, c); }
char *strstr(const char *h, const char *nd)
{
    __CPROVER_assert(h != NULL && nd != NULL, "strstr: arguments not NULL");
    __CPROVER_assert(__CPROVER_r_ok(h, 1) && __CPROVER_r_ok(nd, 1), "strstr: arguments readable");
    size_t n = strlen(h);
    if (nondet_bool()) return (char *) 0;
    size_t r = nondet_size_t();
    __CPROVER_assume(r <= n);
    return (char *) h + r;
}

/* ======================================================================================
 * 4. stdio / OS stubs
 * ====================================================================================== */
#ifndef VERIF_MAX_NEST
# define VERIF_MAX_NEST 255
#endif
/* A stream is a heap cell; only its identity matters (libast never looks inside). */
FILE *fopen(const char *path, const char *mode)
{
    __CPROVER_assert(path != NULL && __CPROVER_r_ok(path, 1), "fopen: path readable");
    __CPROVER_assert(mode != NULL, "fopen: mode not NULL");
    /* ASSUMES (domain of C09: include nesting <= 255; bounded units lower VERIF_MAX_NEST): a file nested
     * deeper than that cannot be opened */
    if (fstate_idx >= VERIF_MAX_NEST || nondet_bool()) { return (FILE *) 0; }
    vg_open_streams++;
    vg_fg_hdr = 1;
    return (FILE *) malloc(sizeof(FILE));
}
FILE *fdopen(int fd, const char *mode)
{
    __CPROVER_assert(mode != NULL, "fdopen: mode not NULL");
    if (fd < 0 || nondet_bool()) { return (FILE *) 0; }
    vg_open_streams++;
    return (FILE *) malloc(sizeof(FILE));
}
int fclose(FILE *fp)
{
    /* "stream not NULL" for the file-stack slot vg_k2 (arbitrary): whenever the current top of the
     * file stack is slot vg_k2 the stream must be there.  See contracts/conf.h FSFP_AT. */
#ifdef VERIF_STREAM_CHECKS_UNGUARDED
    __CPROVER_assert(fp != NULL, "fclose: stream not NULL");
#else
    __CPROVER_assert(fstate_idx != vg_k2 || fp != NULL, "fclose: stream not NULL");
#endif
    vg_open_streams--;
    return nondet_bool() ? 0 : EOF;
}
/* fgets: at most size-1 bytes, always NUL-terminated on success, stops after a newline.  The
 * bytes are arbitrary (NUL bytes included): vg_fg_len is the position of the FIRST NUL of the
 * C-string view only in the sense that the stub fixes view[len] == 0; the newline, when the
 * view has one, is the last byte before it (fgets stops reading there).  On NULL (end of file
 * or error) the buffer is left as it was.  Files are finite: vg_fg_budget chunks remain. */
char *fgets(char *buf, int size, FILE *fp)
{
    __CPROVER_assert(size > 0, "fgets: size positive");
    __CPROVER_assert(__CPROVER_w_ok(buf, (size_t) size), "fgets: buffer holds size bytes");
#ifdef VERIF_STREAM_CHECKS_UNGUARDED
    __CPROVER_assert(fp != NULL, "fgets: stream not NULL");
#else
    __CPROVER_assert(fstate_idx != vg_k2 || fp != NULL, "fgets: stream not NULL");
#endif
    /* behaviour splits of the open_file units: the read succeeds / fails */
#if defined(VERIF_FGETS_ALWAYS_OK)
    __CPROVER_assume(vg_fg_budget > 0 && size > 1);
    if (0) {
#elif defined(VERIF_FGETS_ALWAYS_FAIL)
    if (1) {
#else
    if (vg_fg_budget == 0 || size == 1 || nondet_bool()) {
#endif
        vg_fg_ok = 0;
        vg_fg_buf = buf;
        vg_fg_mid = 0;
        vg_fg_hdr = 0;
        return (char *) 0;
    }
    vg_fg_budget--;
    if (__CPROVER_POINTER_OFFSET(buf) == 0 && __CPROVER_OBJECT_SIZE(buf) == (size_t) size)
        __CPROVER_havoc_object(buf);            /* same effect, cheaper encoding */
    else
        __CPROVER_havoc_slice(buf, (size_t) size);
    size_t r = nondet_size_t();
    __CPROVER_assume(r < (size_t) size);
    buf[r] = 0;
    _Bool nl = nondet_bool();
    if (nl) {
        __CPROVER_assume(r >= 1);
        buf[r - 1] = '\n';
    }
    if (vg_fg_hdr) {
        /* header line (or its first 255 bytes): not a config line; what follows starts a line */
        vg_fg_hdr = 0;
        vg_fg_mid = 0;
    } else {
        if (!vg_fg_mid && nl) vg_deliverable++;
        vg_fg_mid = !nl;
    }
    vg_fg_nl = nl; vg_fg_len = r; vg_fg_buf = buf; vg_fg_ok = 1;
    return buf;
}
int fseek(FILE *fp, long off, int wh) { __CPROVER_assert(fp != NULL, "fseek: stream not NULL"); return nondet_bool() ? 0 : -1; }
long ftell(FILE *fp)
{
    __CPROVER_assert(fp != NULL, "ftell: stream not NULL");
    long r = nondet_long();
#ifdef VERIF_FTELL_REGULAR_SMALL
    /* ASSUMES (unit C11.builtin_exec): the stream is the regular file mkstemp just created, so ftell succeeds,
     * and the command wrote less than 4 GiB - 1 bytes (see the unit's comment on `fsize + 1`) */
    __CPROVER_assume(r >= 0 && r < 0xffffffffL);
#else
    __CPROVER_assume(r >= -1);
#endif
    return r;
}
void rewind(FILE *fp) { __CPROVER_assert(fp != NULL, "rewind: stream not NULL"); }
size_t fread(void *p, size_t sz, size_t n, FILE *fp)
{
    __CPROVER_assert(fp != NULL, "fread: stream not NULL");
    __CPROVER_assert(sz == 0 || n == 0 || __CPROVER_w_ok(p, sz * n), "fread: buffer holds sz*n bytes");
    if (sz != 0 && n != 0) __CPROVER_havoc_slice(p, sz * n);
    size_t r = nondet_size_t();
    __CPROVER_assume(r <= n);
    return r;
}
int remove(const char *path) { __CPROVER_assert(path != NULL && __CPROVER_r_ok(path, 1), "remove: path readable"); return nondet_bool() ? 0 : -1; }
int chdir(const char *path) { __CPROVER_assert(path != NULL && __CPROVER_r_ok(path, 1), "chdir: path readable"); return nondet_bool() ? 0 : -1; }
char *getcwd(char *buf, size_t size)
{
    if (buf == NULL) return (char *) 0;               /* (glibc would allocate; libast never does this) */
    __CPROVER_assert(size == 0 || __CPROVER_w_ok(buf, size), "getcwd: buffer holds size bytes");
    if (size == 0 || nondet_bool()) { return (char *) 0; }
    __CPROVER_havoc_slice(buf, size);
    size_t r = nondet_size_t();
    __CPROVER_assume(r < size);
    buf[r] = 0;
    return buf;
}
int access(const char *path, int mode) { __CPROVER_assert(path != NULL && __CPROVER_r_ok(path, 1), "access: path readable"); return nondet_bool() ? 0 : -1; }
#undef stat
int stat(const char *path, struct stat *st)
{
    __CPROVER_assert(path != NULL && __CPROVER_r_ok(path, 1), "stat: path readable");
    __CPROVER_assert(__CPROVER_w_ok(st, sizeof(struct stat)), "stat: result buffer writable");
    if (nondet_bool()) { return -1; }
    __CPROVER_havoc_slice(st, sizeof(struct stat));
    return 0;
}
/* a directory stream: heap cell holding the one dirent readdir hands out */
struct v_dir { struct dirent ent; };
DIR *opendir(const char *path)
{
    __CPROVER_assert(path != NULL && __CPROVER_r_ok(path, 1), "opendir: path readable");
    if (nondet_bool()) { return (DIR *) 0; }
    vg_open_dirs++;
    return (DIR *) malloc(sizeof(struct v_dir));
}
struct dirent *readdir(DIR *d)
{
    __CPROVER_assert(d != NULL && __CPROVER_rw_ok(d, sizeof(struct v_dir)), "readdir: directory stream valid");
    if (vg_dir_budget == 0 || nondet_bool()) return (struct dirent *) 0;
    vg_dir_budget--;
    struct v_dir *v = (struct v_dir *) d;
    __CPROVER_havoc_slice(&v->ent, sizeof(struct dirent));
    size_t r = nondet_size_t();
    __CPROVER_assume(r >= 1 && r < sizeof(v->ent.d_name));     /* names are 1..255 bytes */
    v->ent.d_name[r] = 0;
    vg_dname_len = r;
    V_SREG_SET(v->ent.d_name, r);
    return &v->ent;
}
int closedir(DIR *d)
{
    __CPROVER_assert(d != NULL && __CPROVER_rw_ok(d, sizeof(struct v_dir)), "closedir: directory stream valid");
    vg_open_dirs--;
    free(d);
    return 0;
}
/* environment: NULL or an arbitrary C string owned by the environment */
char *getenv(const char *name)
{
    __CPROVER_assert(name != NULL && __CPROVER_r_ok(name, 1), "getenv: name readable");
    if (nondet_bool()) return (char *) 0;
    size_t n = nondet_size_t();
    __CPROVER_assume(n <= VCAP);
    char *r = malloc(n + 1);
    r[n] = 0;
    return r;
}
/* process creation: every entry point only records the spawn */
int system(const char *cmd) { vg_spawned++; return nondet_int(); }
FILE *popen(const char *cmd, const char *mode) { vg_spawned++; return nondet_bool() ? (FILE *) 0 : (FILE *) malloc(sizeof(FILE)); }
pid_t fork(void) { vg_spawned++; return (pid_t) nondet_int(); }
pid_t vfork(void) { vg_spawned++; return (pid_t) nondet_int(); }
int execv(const char *p, char *const a[]) { vg_spawned++; return -1; }
int execve(const char *p, char *const a[], char *const e[]) { vg_spawned++; return -1; }
int execvp(const char *p, char *const a[]) { vg_spawned++; return -1; }
int execl(const char *p, const char *a, ...) { vg_spawned++; return -1; }
int execlp(const char *p, const char *a, ...) { vg_spawned++; return -1; }

mode_t umask(mode_t m)
{
    mode_t old = vg_umask_cur;
    vg_umask_cur = m & 0777;
    vg_umask_calls++;
    return old;
}
/* mkstemp: the template must be a writable C string whose last six characters are XXXXXX
 * (else EINVAL); they are replaced; returns a new descriptor >= 0 or -1. */
int mkstemp(char *tpl)
{
    __CPROVER_assert(tpl != NULL && __CPROVER_rw_ok(tpl, 1), "mkstemp: template writable");
    size_t n = strlen(tpl);
    vg_mkstemp_calls++;
    vg_mkstemp_umask = vg_umask_cur;
    vg_mkstemp_tpl_ok = (n >= 6 && tpl[n - 6] == 'X' && tpl[n - 5] == 'X' && tpl[n - 4] == 'X' && tpl[n - 3] == 'X'
                         && tpl[n - 2] == 'X' && tpl[n - 1] == 'X');
    if (!vg_mkstemp_tpl_ok || nondet_bool()) { vg_mkstemp_fd = -1; return -1; }
    tpl[n - 6] = nondet_char(); tpl[n - 5] = nondet_char(); tpl[n - 4] = nondet_char();
    tpl[n - 3] = nondet_char(); tpl[n - 2] = nondet_char(); tpl[n - 1] = nondet_char();
    __CPROVER_assume(tpl[n - 6] != 0 && tpl[n - 5] != 0 && tpl[n - 4] != 0 && tpl[n - 3] != 0 && tpl[n - 2] != 0 && tpl[n - 1] != 0);
    int fd = nondet_int();
    __CPROVER_assume(fd >= 0);
    vg_mkstemp_fd = fd;
    return fd;
}
int fchmod(int fd, mode_t mode)
{
    if (fd < 0 || nondet_bool()) { return -1; }
    vg_fchmod_fd = fd; vg_fchmod_mode = mode; vg_fchmod_calls++;
    return 0;
}
char *strerror(int e) { return (char *) "error"; }
pid_t getpid(void) { pid_t r = (pid_t) nondet_int(); __CPROVER_assume(r > 0); return r; }
void srand(unsigned s) { }
int rand(void) { int r = nondet_int(); __CPROVER_assume(r >= 0 && r <= RAND_MAX); return r; }

int v_msg(int unused, ...) { return 0; }   /* variadic, empty body: evaluates its arguments, nothing else */

/* ======================================================================================
 * 5. string copy family with destination-size obligations (man-page semantics)
 *    Lengths come from env.h's strlen (SOME NUL position of the source; ASSUMES the source
 *    is a C string).  See the unit files for how exact lengths are obtained where the
 *    destination-size argument needs them.
 * ====================================================================================== */
#ifdef VERIF_EXACT_STR
char *strcpy(char *d, const char *s)
{
    size_t i = 0;
    __CPROVER_assert(s != NULL && d != NULL, "strcpy: arguments not NULL");
    for (;; i++) {
        __CPROVER_assert(i < VREMAIN(d), "strcpy: destination holds strlen(src)+1 bytes");
        d[i] = s[i];
        if (!s[i]) break;
    }
    return d;
}
char *strcat(char *d, const char *s)
{
    __CPROVER_assert(s != NULL && d != NULL, "strcat: arguments not NULL");
    strcpy(d + strlen(d), s);
    return d;
}
#else
char *strcpy(char *d, const char *s)
{
    __CPROVER_assert(s != NULL && d != NULL, "strcpy: arguments not NULL");
    size_t n = strlen(s);
    __CPROVER_assert(__CPROVER_w_ok(d, n + 1), "strcpy: destination holds strlen(src)+1 bytes");
    __CPROVER_assume(__CPROVER_w_ok(d, n + 1));                      /* (a failed obligation above ends the path) */
    /* over-approximation: the whole destination object becomes arbitrary, then the terminator */
    char first = s[0];
    __CPROVER_havoc_object(d);
    d[n] = 0;
    d[0] = first;                                /* first byte faithful (NUL exactly when the source is empty) */
    V_SREG_SET(d, n);
    return d;
}
char *strcat(char *d, const char *s)
{
    __CPROVER_assert(s != NULL && d != NULL, "strcat: arguments not NULL");
    size_t dl = strlen(d);
    size_t n = strlen(s);
    __CPROVER_assert(__CPROVER_w_ok(d + dl, n + 1), "strcat: destination holds strlen(dest)+strlen(src)+1 bytes");
    __CPROVER_assume(__CPROVER_w_ok(d + dl, n + 1));                 /* (a failed obligation above ends the path) */
    char first = dl > 0 ? d[0] : s[0];
    __CPROVER_havoc_object(d);
    d[dl + n] = 0;
    d[0] = first;                                /* first byte faithful */
    V_SREG_SET(d, dl + n);
    return d;
}
#endif /* VERIF_EXACT_STR */
char *strncpy(char *d, const char *s, size_t n)
{
    __CPROVER_assert(n == 0 || (s != NULL && d != NULL), "strncpy: arguments not NULL");
    __CPROVER_assert(n == 0 || __CPROVER_w_ok(d, n), "strncpy: destination holds n bytes");
    if (n) __CPROVER_havoc_slice(d, n);
    return d;
}
/* snprintf: writes at most size bytes including the terminator; returns the length the full
 * output would have had (>= 0).  ASSUMES the variadic arguments match the format and every
 * %s argument is a C string (not checked here).
 * DFCC passes its write-set as an extra trailing parameter, which a variadic callee WITH a body
 * that declares locals or writes memory mis-reads from the variadic arguments (symex then stalls
 * on a pointer that may be "any string literal").  snprintf is therefore a macro: the format
 * arguments are still evaluated (v_fmt_args: variadic, empty body), the buffer effect is the
 * non-variadic v_snprintf. */
int v_snprintf(char *d, size_t size, int unused)
{
    __CPROVER_assert(size == 0 || __CPROVER_w_ok(d, size), "snprintf: destination holds size bytes");
    int r = nondet_int();
    __CPROVER_assume(r >= 0);
    if (size) {
        __CPROVER_havoc_object(d);       /* over-approximation: whole destination object arbitrary */
        d[(size_t) r < size ? (size_t) r : size - 1] = 0;
        V_SREG_SET(d, (size_t) r < size ? (size_t) r : size - 1);
    }
    return r;
}
#undef snprintf
#define snprintf(d, size, fmt, ...) v_snprintf((char *) (d), (size), v_msg(0, ##__VA_ARGS__))

/* ======================================================================================
 * 5b. message functions without their format literals
 *    env.h's stubs of libast_dprintf / libast_print_error / libast_print_warning /
 *    libast_fatal_error / fprintf ignore every argument.  Every string literal is an addressable
 *    object, conf.c has well over a hundred format strings in its D_CONF()/error calls, and
 *    DFCC's bookkeeping arrays are indexed by object number: with more than 256 objects
 *    (--object-bits 8) the SAT back end runs out of memory on them.  The calls are therefore
 *    routed through macros that DROP THE FORMAT LITERAL and still evaluate every other argument
 *    (so reads such as file_peek_path() stay in the verified text).
 * ====================================================================================== */
#define libast_dprintf(fmt, ...)        v_msg(0, ##__VA_ARGS__)
#define libast_print_error(fmt, ...)    ((void) v_msg(0, ##__VA_ARGS__))
#define libast_print_warning(fmt, ...)  ((void) v_msg(0, ##__VA_ARGS__))
#define libast_fatal_error(fmt, ...)    do { v_msg(0, ##__VA_ARGS__); __CPROVER_assume(0); } while (0)
#undef  fprintf
#define fprintf(f, fmt, ...)            v_msg(0, ##__VA_ARGS__)

/* ======================================================================================
 * 5c. loop contracts of conf.c (text of the annotation table annot/conf.c.conf.ann)
 * ====================================================================================== */
/* builtin_dirscan, loop 1: for (i = 0; (dp = readdir(dirp));)   — buff holds a C string of exactly
 * CONFIG_BUFF - n characters (n = room left, the terminator included): either it is still empty, or it is not
 * and the registry of the deterministic strlen knows its length. */
#define VCA_DIRSCAN_SLOT (__CPROVER_POINTER_OBJECT(buff) % 256)
#define VCA_DIRSCAN_LOOP \
    __CPROVER_assigns(dp, filestat, n, __CPROVER_object_whole(buff), __CPROVER_object_whole(dirp), vg_ct, vg_sreg) \
    __CPROVER_loop_invariant(n >= 2 && n <= CONFIG_BUFF && __CPROVER_rw_ok(buff, CONFIG_BUFF) && buff[CONFIG_BUFF - n] == 0) \
    __CPROVER_loop_invariant((n == CONFIG_BUFF && buff[0] == 0) || \
                             (buff[0] != 0 && vg_sreg[VCA_DIRSCAN_SLOT].p == (const char *) buff && vg_sreg[VCA_DIRSCAN_SLOT].n == CONFIG_BUFF - n)) \
    __CPROVER_loop_invariant(__CPROVER_rw_ok(dirp, sizeof(struct v_dir)) && vg_open_dirs == __CPROVER_loop_entry(vg_open_dirs)) \
    __CPROVER_decreases(vg_dir_budget)

/* ======================================================================================
 * 5b. message functions without their format literals
 *    env.h's stubs of libast_dprintf / libast_print_error / libast_print_warning /
 *    libast_fatal_error / fprintf ignore every argument.  Every string literal is an addressable
 *    object, conf.c has well over a hundred format strings in its D_CONF()/error calls, and
 *    DFCC's bookkeeping arrays are indexed by object number: with more than 256 objects
 *    (--object-bits 8) the SAT back end runs out of memory on them.  The calls are therefore
 *    routed through macros that DROP THE FORMAT LITERAL and still evaluate every other argument
 *    (so reads such as file_peek_path() stay in the verified text).
 * ====================================================================================== */
#define libast_dprintf(fmt, ...)        v_msg(0, ##__VA_ARGS__)
#define libast_print_error(fmt, ...)    ((void) v_msg(0, ##__VA_ARGS__))
#define libast_print_warning(fmt, ...)  ((void) v_msg(0, ##__VA_ARGS__))
#define libast_fatal_error(fmt, ...)    do { v_msg(0, ##__VA_ARGS__); __CPROVER_assume(0); } while (0)
#undef  fprintf
#define fprintf(f, fmt, ...)            v_msg(0, ##__VA_ARGS__)

/* ======================================================================================
 * 5c. loop contracts of conf.c (text of the annotation table annot/conf.c.conf.ann)
 * ====================================================================================== */
/* builtin_dirscan, loop 1: for (i = 0; (dp = readdir(dirp));)   — buff holds a C string of exactly
 * CONFIG_BUFF - n characters (n = room left, the terminator included): either it is still empty, or it is not
 * and the registry of the deterministic strlen knows its length. */
#define VCA_DIRSCAN_SLOT (__CPROVER_POINTER_OBJECT(buff) % 256)
#define VCA_DIRSCAN_LOOP \
    __CPROVER_assigns(dp, filestat, n, __CPROVER_object_whole(buff), __CPROVER_object_whole(dirp), vg_ct, vg_sreg) \
    __CPROVER_loop_invariant(n >= 2 && n <= CONFIG_BUFF && __CPROVER_rw_ok(buff, CONFIG_BUFF) && buff[CONFIG_BUFF - n] == 0) \
    __CPROVER_loop_invariant((n == CONFIG_BUFF && buff[0] == 0) || \
                             (buff[0] != 0 && vg_sreg[VCA_DIRSCAN_SLOT].p == (const char *) buff && vg_sreg[VCA_DIRSCAN_SLOT].n == CONFIG_BUFF - n)) \
    __CPROVER_loop_invariant(__CPROVER_rw_ok(dirp, sizeof(struct v_dir)) && vg_open_dirs == __CPROVER_loop_entry(vg_open_dirs)) \
    __CPROVER_decreases(vg_dir_budget)

/* spifconf_find_file, loop 1: for (path = pathlist; path && *path != '\0'; path = p) */
#define VCA_FIND_FILE_LOOP \
    __CPROVER_assigns(path, p, fst, __CPROVER_object_whole(full_path)) \
    __CPROVER_loop_invariant(path == NULL || (pathlist != NULL && __CPROVER_same_object(path, pathlist) && __CPROVER_POINTER_OFFSET(path) <= vg_n3)) \
    __CPROVER_loop_invariant(maxpathlen > 0 && len >= 0 && maxpathlen == (spif_int32_t) sizeof(name) - len - 2) \
    __CPROVER_decreases(path == NULL ? 0 : vg_n3 + 1 - __CPROVER_POINTER_OFFSET(path))

/* ======================================================================================
 * 6. STATED RE-BINDINGS of conf.c macros (units that define VERIF_CONF_REBIND)
 *
 *  (a) ctx_id_to_func(id) — the handler of context id — is `context[id].handler`, a
 *      ctx_handler_t read from a heap table.  goto-instrument can only resolve the call
 *      (*ctx_id_to_func(id))(text, state) to "any address-taken function of that type".
 *      It is re-bound to a DIRECT call of the verification handler `vhandler`, after
 *      recording which table entry was selected: the read of context[id].handler stays in
 *      place (so the table bounds/pointer obligations of the original expression remain) and
 *      the handler identity is logged as (id, pointer read).  vhandler stands for every
 *      handler: it logs (id, handler, kind, text, state_in, state_out), may set the skip-to-end flag of
 *      the current file (the one piece of parser state the handler API lets handlers change)
 *      and returns an arbitrary state_out.
 *  (b) ctx_name_to_id(the_id, n, i) hides a for loop in a macro, where the annotator cannot
 *      attach a loop contract.  It is re-bound to the statement-for-statement equivalent
 *      function v_ctx_lookup() (contracts/conf.h) that returns the loop's exit index; the
 *      "not found" tail of the macro is kept verbatim.  v_ctx_lookup carries a loop contract
 *      and is proved in its own unit (C09.ctx_lookup); callers use its contract.
 * ====================================================================================== */
#ifdef VERIF_CONF_REBIND
void *vhandler(spif_charptr_t text, void *state)
{
    __CPROVER_assert(text != NULL && __CPROVER_r_ok(text, 1), "handler: text readable");
    void *out = nondet_ptr();
    vg_hl.c2 = vg_hl.c1;
    vg_hl.c1 = vg_hl.c0;
    vg_hl.c0.id = vg_call_id;
    vg_hl.c0.h = vg_call_h;
    vg_hl.c0.kind = (*text == SPIFCONF_BEGIN_CHAR) ? VK_BEGIN : ((*text == SPIFCONF_END_CHAR) ? VK_END : VK_TEXT);
    vg_hl.c0.text = text;
    vg_hl.c0.in = state;
    vg_hl.c0.out = out;
    vg_seq++;
    vg_hl.c0.seq = vg_seq;
    vg_nlog++;
    if (nondet_bool()) {
        file_skip_to_end();
    }
    return out;
}
#undef  ctx_id_to_func
#define ctx_id_to_func(id)  (vg_call_id = (id), vg_call_h = context[(id)].handler, &vhandler)

static unsigned long v_ctx_lookup(spif_charptr_t n);
#undef  ctx_name_to_id
#define ctx_name_to_id(the_id, n, i) do { \
                                       (i) = v_ctx_lookup(n); \
                                       if ((i) <= ctx_idx) { \
                                           (the_id) = (i); \
                                       } \
                                       if ((i) > ctx_idx) { \
                                         libast_print_error("Parsing file %s, line %lu:  No such context \"%s\"\n", \
                                                            file_peek_path(), file_peek_line(), (n)); \
                                         (the_id) = 0; \
                                       } \
                                     } while (0)

/*  (c) (units that define VERIF_CONF_PUSH_MODELS)  ctx_push(ctx) and file_push(f,p,o,l,fl) are the
 *      macros through which parse_line calls spifconf_register_context_state / _fstate.  Those two
 *      functions are proved against their contracts in C09.register_*; at these call sites the
 *      macros are re-bound to the MODEL functions v_ctx_push / v_file_push (contracts/conf.h),
 *      which assert the proved contract's precondition, havoc its assigns targets (the old table
 *      is freed, a fresh one allocated) and assume its postcondition — what
 *      --replace-call-with-contract does, without a write set per call (each replaced call costs
 *      DFCC nine arrays indexed by object number, re-merged at every return of the caller). */
#ifdef VERIF_CONF_PUSH_MODELS
static unsigned char v_ctx_push(unsigned char ctx_id);
static unsigned char v_file_push(FILE *fp, spif_charptr_t path, spif_charptr_t outfile, unsigned long line, unsigned char flags);
#undef  ctx_push
#define ctx_push(ctx)              v_ctx_push(ctx)
#undef  file_push
#define file_push(f, p, o, l, fl)  v_file_push(f, p, o, l, fl)
#endif
#endif /* VERIF_CONF_REBIND */

#endif /* VERIF_ENV_CONF_H */
