/* contracts/env_memhash.h — environment additions for the C15 units (owner memhash).
 * Included right after vprelude.h.  Everything here is about code outside /repo (libc) or
 * ghost state; each stub over-approximates the man page.
 *
 *   realloc   two-ghost-element model (env.h's single-ghost model keeps only element vg_k; the
 *             "no two records with the same ptr" invariant speaks about a PAIR of records).
 *   strcpy    used by spifmem_strdup.
 *   strerror  used in a diagnostic of memrec_add_var.
 */
#ifndef VERIF_ENV_MEMHASH_H
#define VERIF_ENV_MEMHASH_H

/* ghost record indices of the tracker table (arbitrary: statements "for vg_r, vg_r2" are the
 * universally quantified ones) and the index at which memrec_find_var stopped (written by the
 * loop annotation / by memrec_find_var's contract) */
size_t vg_r, vg_r2, vg_fidx;

#ifdef VERIF_MEMHASH_DIAG_MACROS
/* The diagnostics of mem.c (D_MEM -> __DEBUG() -> fprintf(..., time(NULL), ...); libast_dprintf(...))
 * as MACROS instead of env.h's stub functions: every argument is still evaluated (comma expression),
 * nothing is written, the value is not used by mem.c.  Needed for units in which memrec_find_var is
 * inlined with its loop contract into another enforced function: goto-instrument 6.11 inlines the
 * calls of a contract-annotated loop body and aborts ("parameter_assignments: Unreachable") when the
 * callee was already given DFCC's extra write-set parameter - which depends on the order in which it
 * happens to visit the functions (seen to flip after an unrelated edit of this header).  With no call
 * in the loop body the order does not matter. */
time_t vg_mh_time;
# define libast_dprintf(...)  ((void) (__VA_ARGS__), 0)
# define fprintf(...)         ((void) (__VA_ARGS__), 0)
# define fflush(f)            ((void) (f), 0)
# define time(t)              ((void) (t), vg_mh_time)
#endif

/* re-basing of a walking pointer on an index: identity assignment whose identity is an obligation */
#define VERIF_MH_REBASE(p, e) do { \
    __CPROVER_assert((p) == (e), "rebase: " #p " == " #e); (p) = (e); } while (0)

#ifdef VERIF_MEMHASH_REALLOC_ELEM_T
# ifdef VERIF_REALLOC_ELEM_T
#  error "use either env.h's or env_memhash.h's realloc model"
# endif
/* OVER-APPROXIMATION of realloc: the result is a fresh block of n bytes with ARBITRARY contents,
 * except that the elements (of the unit's element type) with ghost indices vg_r and vg_r2 are
 * copied when they lie inside both blocks; the old block is freed.  The real realloc preserves
 * every byte of the common prefix, so whatever is proved against this model holds for the real
 * one; vg_r and vg_r2 are arbitrary, so "elements vg_r and vg_r2 are preserved" is the
 * statement for every pair of elements.  realloc(NULL, n) is malloc(n) (C standard). */
void *realloc(void *p, size_t n)
{
    if (p == NULL) return malloc(n);
    __CPROVER_assert(__CPROVER_POINTER_OFFSET(p) == 0, "realloc: pointer is the start of a block");
    /* a block that is a whole number of elements is allocated as an ARRAY OF ELEMENTS (cbmc types
     * the object from the sizeof(T) * k pattern): element accesses are then one array index each
     * instead of sizeof(T) byte indices, which is what keeps the SAT back end inside its memory */
    void *r = (n % sizeof(VERIF_MEMHASH_REALLOC_ELEM_T) == 0)
        ? __CPROVER_allocate(sizeof(VERIF_MEMHASH_REALLOC_ELEM_T) * (n / sizeof(VERIF_MEMHASH_REALLOC_ELEM_T)), 0)
        : malloc(n);
    size_t m = __CPROVER_OBJECT_SIZE(p);
    if (n < m) m = n;
    if (vg_r < m / sizeof(VERIF_MEMHASH_REALLOC_ELEM_T))
        ((VERIF_MEMHASH_REALLOC_ELEM_T *) r)[vg_r] = ((VERIF_MEMHASH_REALLOC_ELEM_T *) p)[vg_r];
    if (vg_r2 < m / sizeof(VERIF_MEMHASH_REALLOC_ELEM_T))
        ((VERIF_MEMHASH_REALLOC_ELEM_T *) r)[vg_r2] = ((VERIF_MEMHASH_REALLOC_ELEM_T *) p)[vg_r2];
    free(p);
    return r;
}
#endif

#if defined(VERIF_MEMHASH_MEMMOVE_LOOP) && defined(VERIF_MEMHASH_REALLOC_ELEM_T)
/* memmove for the BOUNDED units: an element-by-element copy loop (unwound by --unwind), forward when
 * dst <= src, backward otherwise - the exact semantics for element-aligned moves, which is asserted.
 * (cbmc's own memmove copies through a char array with array_replace; on an object that cbmc types
 * as an array of records - any is_fresh / malloc object of sizeof(rec) * constant - that copy has
 * NO EFFECT: seen in a trace, table[1] kept its old value after memmove(&table[1], &table[2], 48).) */
void *memmove(void *dst, const void *src, size_t n)
{
    typedef VERIF_MEMHASH_REALLOC_ELEM_T vg_elem_t;
    __CPROVER_assert(n % sizeof(vg_elem_t) == 0 && __CPROVER_POINTER_OFFSET(dst) % sizeof(vg_elem_t) == 0 &&
                     __CPROVER_POINTER_OFFSET(src) % sizeof(vg_elem_t) == 0, "memmove (bounded model): element-aligned move");
    __CPROVER_assert(n == 0 || (__CPROVER_r_ok(src, n) && __CPROVER_w_ok(dst, n)), "memmove: source readable, destination writable for n bytes");
    vg_elem_t *d = (vg_elem_t *) dst; const vg_elem_t *s = (const vg_elem_t *) src;
    size_t ne = n / sizeof(vg_elem_t);
    if (!__CPROVER_same_object(dst, src) || __CPROVER_POINTER_OFFSET(dst) <= __CPROVER_POINTER_OFFSET(src)) {
        for (size_t i = 0; i < ne; i++) d[i] = s[i];
    } else {
        for (size_t i = ne; i > 0; i--) d[i - 1] = s[i - 1];
    }
    return dst;
}
#endif

#ifdef VERIF_MEMHASH_STRNCPY_MODEL
/* spiftool_safe_strncpy (src/strings.c) as a BODY that is the executable rendering of its contract:
 * exactly the clauses proved in units/C13/safe_strncpy.c, with the frame "the size bytes at dest"
 * (proved by unit C15.dep.safe_strncpy; contract text: contracts/mem.h).  ASSUMES nothing beyond
 * that contract: the preconditions are asserted, every byte of dest[0..size) is set to an
 * arbitrary value, vg_exit is set to an arbitrary value, and only for vg_exit == vg_j the
 * terminator position, the ghost byte vg_k and the return value are fixed (that is all the
 * contract promises).  Why not --replace-call-with-contract: DFCC's replacement havocs
 * object_upto(dest, size) with an array_replace inside the table object; z3, cvc5 and minisat all
 * fail (time-out / out of memory) on memrec_add_var and memrec_chg_var with it. */
spif_bool_t spiftool_safe_strncpy(spif_charptr_t dest, const spif_charptr_t src, spif_int32_t size)
{
    __CPROVER_assert(size > 0 && __CPROVER_w_ok(dest, (size_t) size), "safe_strncpy requires: size > 0, dest holds size bytes");
    __CPROVER_assert(vg_n1 <= VCAP && __CPROVER_r_ok(src, vg_n1 + 1) && ((const char *) src)[vg_n1] == 0 &&
                     (!(vg_j < vg_n1) || ((const char *) src)[vg_j] != 0),
                     "safe_strncpy requires: src is a C string of exactly vg_n1 characters (seen at vg_j)");
    size_t lim = (size_t) size - 1, len = vg_n1 < lim ? vg_n1 : lim;
    /* the new contents are prepared in a local and stored with ONE block assignment (every single
     * byte store into the table costs the SAT back end ~350 MB); both call sites pass
     * size == sizeof(file[]) == SPIFMEM_FNAME_LEN + 1, which is asserted */
    __CPROVER_assert(size == SPIFMEM_FNAME_LEN + 1, "safe_strncpy model: size is sizeof(spifmem_ptr_t.file)");
    struct vg_file_s { spif_char_t b[SPIFMEM_FNAME_LEN + 1]; } tmp;     /* arbitrary bytes */
    vg_exit = nondet_size_t();
    spif_bool_t r = nondet_bool() ? TRUE : FALSE;
    if (vg_exit == vg_j) {
        tmp.b[len] = 0;
        if (vg_k < len) tmp.b[vg_k] = src[vg_k];
        r = (vg_n1 <= lim) ? TRUE : FALSE;
    }
    *(struct vg_file_s *) dest = tmp;
    return r;
}
#endif

#ifdef VERIF_MEMHASH_STRLEN_GHOST
/* strlen for the strdup units (define VERIF_OWN_STRLEN before vprelude.h): the argument is the unit's
 * one C string of exactly vg_n2 characters - asserted (terminator at vg_n2, no NUL at the ghost
 * position vg_j below it), then vg_n2 is returned.  env.h's strlen returns SOME terminator position,
 * which may differ between the two calls spifmem_strdup makes (its own and strcpy's). */
size_t strlen(const char *s)
{
    __CPROVER_assert(s != NULL && __CPROVER_r_ok(s, vg_n2 + 1) && s[vg_n2] == 0 && (!(vg_j < vg_n2) || s[vg_j] != 0),
                     "strlen (ghost model): argument is the C string of exactly vg_n2 characters");
    return vg_n2;
}
#endif

/* strcpy: ASSUMES src is a valid C string (see env.h strlen); dest must hold strlen+1 bytes
 * (checked).  Over-approximation of the copy: terminator and ghost byte vg_k are copied, the
 * other bytes of dest[0..n] are arbitrary. */
#ifndef VERIF_OWN_STRCPY
char *strcpy(char *dest, const char *src)
{
    __CPROVER_assert(dest != NULL && src != NULL, "strcpy: arguments not NULL");
    size_t n = strlen(src);
    __CPROVER_assert(__CPROVER_w_ok(dest, n + 1), "strcpy: destination holds strlen(src)+1 bytes");
    __CPROVER_havoc_slice(dest, n + 1);
    dest[n] = 0;
    if (vg_k < n) dest[vg_k] = src[vg_k];
    return dest;
}
#endif

/* strerror: some valid C string (static storage) */
static char vg_strerror_buf[8];
char *strerror(int e) { vg_strerror_buf[7] = 0; return vg_strerror_buf; }

#endif
