/* contracts/env_memhash.h — environment additions for the C15 units (owner memhash).
 * Included right after vprelude.h.  Everything here is about code outside /repo (libc) or
 * ghost state; each stub over-approximates the man page.
 *
 *   realloc   two-ghost-element model (env.h's single-ghost model keeps only element vg_k; the
 *             "no two records with the same ptr" invariant speaks about a PAIR of records).
 *   strcpy    used by spifmem_strdup.
 *   strerror  used in a diagnostic of memrec_add_var.
 */
#ifndef VERIF_ENV_MEMHASH_H
#define VERIF_ENV_MEMHASH_H

/* ghost record indices of the tracker table (arbitrary: statements "for vg_r, vg_r2" are the
 * universally quantified ones) and the index at which memrec_find_var stopped (written by the
 * loop annotation / by memrec_find_var's contract) */
size_t vg_r, vg_r2, vg_fidx;

/* anchor for a walking pointer whose element type is not char (env.h's VERIF_ANCHOR adds the byte
 * offset in units of the base type): identity re-basing through a byte pointer */
#define VERIF_MH_ANCHOR(p, base, T) do { \
    __CPROVER_assert(__CPROVER_same_object((p), (base)), "anchor: " #p " stays inside object of " #base); \
    (p) = (T) ((char *) (base) + __CPROVER_POINTER_OFFSET(p)); } while (0)

#ifdef VERIF_MEMHASH_REALLOC_ELEM_T
# ifdef VERIF_REALLOC_ELEM_T
#  error "use either env.h's or env_memhash.h's realloc model"
# endif
/* OVER-APPROXIMATION of realloc: the result is a fresh block of n bytes with ARBITRARY contents,
 * except that the elements (of the unit's element type) with ghost indices vg_r and vg_r2 are
 * copied when they lie inside both blocks; the old block is freed.  The real realloc preserves
 * every byte of the common prefix, so whatever is proved against this model holds for the real
 * one; vg_r and vg_r2 are arbitrary, so "elements vg_r and vg_r2 are preserved" is the
 * statement for every pair of elements.  realloc(NULL, n) is malloc(n) (C standard). */
void *realloc(void *p, size_t n)
{
    if (p == NULL) return malloc(n);
    __CPROVER_assert(__CPROVER_POINTER_OFFSET(p) == 0, "realloc: pointer is the start of a block");
    __CPROVER_assert(__CPROVER_DYNAMIC_OBJECT(p), "realloc: pointer is a heap block");
    void *r = malloc(n);
    size_t m = __CPROVER_OBJECT_SIZE(p);
    if (n < m) m = n;
    if (vg_r < m / sizeof(VERIF_MEMHASH_REALLOC_ELEM_T))
        ((VERIF_MEMHASH_REALLOC_ELEM_T *) r)[vg_r] = ((VERIF_MEMHASH_REALLOC_ELEM_T *) p)[vg_r];
    if (vg_r2 < m / sizeof(VERIF_MEMHASH_REALLOC_ELEM_T))
        ((VERIF_MEMHASH_REALLOC_ELEM_T *) r)[vg_r2] = ((VERIF_MEMHASH_REALLOC_ELEM_T *) p)[vg_r2];
    free(p);
    return r;
}
#endif

/* strcpy: ASSUMES src is a valid C string (see env.h strlen); dest must hold strlen+1 bytes
 * (checked).  Over-approximation of the copy: terminator and ghost byte vg_k are copied, the
 * other bytes of dest[0..n] are arbitrary. */
#ifndef VERIF_OWN_STRCPY
char *strcpy(char *dest, const char *src)
{
    __CPROVER_assert(dest != NULL && src != NULL, "strcpy: arguments not NULL");
    size_t n = strlen(src);
    __CPROVER_assert(__CPROVER_w_ok(dest, n + 1), "strcpy: destination holds strlen(src)+1 bytes");
    __CPROVER_havoc_slice(dest, n + 1);
    dest[n] = 0;
    if (vg_k < n) dest[vg_k] = src[vg_k];
    return dest;
}
#endif

/* strerror: some valid C string (static storage) */
static char vg_strerror_buf[8];
char *strerror(int e) { vg_strerror_buf[7] = 0; return vg_strerror_buf; }

#endif
