/* contracts/expand.h — spec macros and ghosts for the C10 units (owner: expand):
 * spifconf_shell_expand, the %get/%put built-ins and the user variable store of src/conf.c.
 * Include BEFORE "src/conf.c" (the loop-contract table annot/conf.c.expand.ann uses these macros and is
 * compiled only when VERIF_EXPAND_ANNOT is defined). */
#ifndef VERIF_EXPAND_H
#define VERIF_EXPAND_H

/* a var-store node with owned (heap) name and value, both optional */
#define VARNODE_FRESH(v) (__CPROVER_is_fresh((v), sizeof(spifconf_var_t)))

#endif
