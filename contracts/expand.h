/* contracts/expand.h — spec macros and ghosts for the C10 units (owner: expand):
 * spifconf_shell_expand, the %get/%put built-ins and the user variable store of src/conf.c.
 * Include BEFORE "src/conf.c" (the loop-contract table annot/conf.c.expand.ann uses these macros and is
 * compiled only when VERIF_EXPAND_ANNOT is defined). */
#ifndef VERIF_EXPAND_H
#define VERIF_EXPAND_H

/* a var-store node with owned (heap) name and value, both optional */
#define VARNODE_FRESH(v) (__CPROVER_is_fresh((v), sizeof(spifconf_var_t)))


/* =====================================================================================================
 * spifconf_shell_expand, tier P -- PARKED DESIGN, used by no unit (see units/C10/prop.json and
 * units/C10/expand_p.attempt.txt): cbmc 6.11 does not get the DFCC loop-contract instrumentation of this
 * function through (> 11 GB).  The loop-contract table annot/conf.c.expand.ann expands to nothing unless a
 * unit defines VERIF_EXPAND_ANNOT.
 *
 * Ghosts (all arbitrary unless a harness shapes them):
 *   vg_nin      position of a NUL in the argument (the callee copies it to the local EXP_N at entry, so that
 *               recursive calls, which have their own argument, can re-use the contract)
 *   vg_rlen     position of a NUL in the result (set by the strcpy stub)
 *   vg_pad      1: behaviour "the byte behind the terminator is a NUL as well"; 0: general behaviour
 *   vg_fb       a byte value ("forbidden byte"): the WRITTEN clause is stated for the runs in which the
 *               stack garbage at newbuff[vg_k] happens to be vg_fb and vg_fb does not occur in the bytes
 *               that are copied to position vg_k; vg_fb is arbitrary, so every garbage value is covered
 *   vg_src      offset in s that corresponds to output position vg_k (recorded at the top of the iteration
 *               that covers vg_k);  vg_rel  = vg_k - j in that iteration (index into a copied value)
 *   vg_q        ghost index at which strings that come from the environment / the built-ins are known
 *               to differ from vg_fb
 *   vg_so1/vg_sl1, vg_so2/vg_sl2, vg_bn0/vg_bl0, vg_bn1/vg_bl1   "string registry": objects whose exact
 *               length is known to the strlen stub (last getenv result, last built-in result, names)
 * ===================================================================================================== */
size_t vg_nin, vg_rlen, vg_q;
unsigned vg_pad;
char vg_fb;
size_t vg_src, vg_rel;
const char *vg_so1, *vg_so2, *vg_bn0, *vg_bn1;
size_t vg_sl1, vg_sl2, vg_bl0, vg_bl1;
size_t vg_l1exit;     /* value of j when the main loop was left (hint for the strcpy stub) */

#define EXP_GHOSTS vg_nin, vg_rlen, vg_src, vg_rel, vg_so1, vg_so2, vg_sl1, vg_sl2, vg_l1exit

/* number of registered built-ins in P units: 0..2 (see units/C10/expand_p.c) */
#define EXP_NB builtin_idx

#ifdef VERIF_EXPAND_ANNOT
# define EXP_ENTRY      size_t EXP_N = vg_nin;
# define EXP_OFF(p)     __CPROVER_POINTER_OFFSET(p)
/* env.h's VERIF_ANCHOR with the offset taken through a block-local first (cbmc 6.11's value-set
 * simplifier recurses without end on  p = base + POINTER_OFFSET(p)  inside the argument-copy loop) */
# define EXP_ANCHOR(p, base) do { size_t vq_o = __CPROVER_POINTER_OFFSET(p); \
    __CPROVER_assert(__CPROVER_same_object((p), (base)), "anchor: " #p " stays inside object of " #base); \
    (p) = (base) + vq_o; } while (0)
/* pbuff is a cursor inside [s, s + N (+1 in the padded behaviour)] */
# define EXP_PB(lim)    (__CPROVER_same_object(pbuff, s) && EXP_OFF(pbuff) <= (lim))
# define EXP_L1_ASSIGNS __CPROVER_assigns(pbuff, j, k, l, in_single, in_double, cnt1, cnt2, tmp, tmp1, Command, Output, EnvVar, \
                                           __CPROVER_object_whole(newbuff), spifconf_vars, EXP_GHOSTS)
# ifndef EXP_L1_EXTRA
#  define EXP_L1_EXTRA 1
# endif
# define EXP_L1_CLAUSES EXP_L1_ASSIGNS \
    __CPROVER_loop_invariant(EXP_PB(EXP_N + vg_pad) && j <= CONFIG_BUFF && (EXP_L1_EXTRA)) \
    __CPROVER_decreases(EXP_N + 2 - EXP_OFF(pbuff))
# define EXP_L1_TOP     EXP_ANCHOR(pbuff, s); if (j <= vg_k) { vg_rel = vg_k - j; vg_src = EXP_OFF(pbuff) + vg_rel; }
# define EXP_L1_AFTER   EXP_ANCHOR(pbuff, s); vg_l1exit = j;
# define EXP_L2_CLAUSES __CPROVER_assigns(k, l) \
    __CPROVER_loop_invariant(k <= EXP_NB) __CPROVER_decreases(EXP_NB - k)
# define EXP_L2_TOP
# define EXP_L2_AFTER
# define EXP_L3_CLAUSES __CPROVER_assigns(pbuff, tmp1, l, __CPROVER_object_whole(Command)) \
    __CPROVER_loop_invariant(EXP_PB(EXP_N) && __CPROVER_same_object(tmp1, Command) && EXP_OFF(tmp1) < EXP_OFF(pbuff) \
                             && (EXP_OFF(tmp1) >= 1 || l == 1)) \
    __CPROVER_decreases(EXP_N - EXP_OFF(pbuff))
# define EXP_L3_TOP     EXP_ANCHOR(pbuff, s); EXP_ANCHOR(tmp1, Command);
# define EXP_L3_AFTER   EXP_ANCHOR(pbuff, s); EXP_ANCHOR(tmp1, Command); vg_nin = EXP_OFF(tmp1) - 1;
# define EXP_L4_CLAUSES __CPROVER_assigns(pbuff, l, __CPROVER_object_whole(Command)) \
    __CPROVER_loop_invariant(EXP_PB(EXP_N) && l <= max) \
    __CPROVER_decreases(EXP_N - EXP_OFF(pbuff))
# define EXP_L4_TOP     EXP_ANCHOR(pbuff, s);
# define EXP_L4_AFTER   EXP_ANCHOR(pbuff, s); vg_nin = l;
# define EXP_L567_CLAUSES __CPROVER_assigns(pbuff, k, __CPROVER_object_whole(EnvVar)) \
    __CPROVER_loop_invariant(EXP_PB(EXP_N) && k <= 127) \
    __CPROVER_decreases(127 - k)
# define EXP_L5_CLAUSES EXP_L567_CLAUSES
# define EXP_L6_CLAUSES EXP_L567_CLAUSES
# define EXP_L7_CLAUSES EXP_L567_CLAUSES
#endif

#endif
