/* array.h — spec macros for /repo/src/array.c (owner: array).  See env_array.h for the
 * element / comparison model. */
#ifndef VERIF_ARRAY_H
#define VERIF_ARRAY_H

/* element-count cap: only keeps len+1 and sizeof(spif_obj_t)*len representable */
#ifndef VCAPL
# define VCAPL 0x0fffffff
#endif

#define ASZ(n) (sizeof(spif_obj_t) * (size_t) (n))

/* representation invariant, precondition form (allocates in enforce mode):
 * items has exactly len slots (NULL or a zero-sized block when len == 0) */
#define ARRAY_INV(a) \
    ((a)->len >= 0 && (a)->len <= VCAPL && \
     (((a)->len == 0 && (a)->items == NULL) || __CPROVER_is_fresh((a)->items, ASZ((a)->len))))
#define ARRAY_VALID(a) (__CPROVER_is_fresh((a), sizeof(*(a))) && ARRAY_INV(a))

/* postcondition form: the block is live, starts at offset 0 and has EXACTLY len slots */
#define ARRAY_POST(a) \
    ((a)->len >= 0 && \
     ((a)->items == NULL ? (a)->len == 0 \
      : (__CPROVER_POINTER_OFFSET((a)->items) == 0 && __CPROVER_OBJECT_SIZE((a)->items) == ASZ((a)->len) && \
         __CPROVER_rw_ok((a)->items, ASZ((a)->len)))))

/* entry-state element at ghost position k: requires-clause that ties ghost g to items[k]
 * (cbmc's __CPROVER_old cannot contain a conditional and items[k] is unreadable for k >= len) */
#define SNAP_ITEM(a, k, g) ((k) >= (size_t) (a)->len || (a)->items[(k)] == (g))
#define OLD_LEN(a)     __CPROVER_old((a)->len)
#define OLD_ITEMS(a)   __CPROVER_old((a)->items)
/* position normalisation of the list interface: negative positions count from the end */
#define NORM(idx, len) (((idx) < 0) ? ((long) (idx) + (long) (len)) : (long) (idx))
/* "refused without change": same length, same block, ghost slot untouched */
#define ARRAY_UNCHANGED(a) ((a)->len == OLD_LEN(a) && (a)->items == OLD_ITEMS(a) && \
                            (vg_k >= (size_t) (a)->len || (a)->items[vg_k] == vg_old_k))

/* element matching in the pair model (env_array.h): the ghost pair is (old items[vg_k], probe)
 * for index/find (receiver = stored element) resp. (probe, old items[vg_k]) for remove
 * (receiver = probe); vg_cr is the comparison result on that pair.
 * index: a NULL placeholder matches a NULL probe; an element matches if comp says EQUAL
 *        (comp(x, NULL) is GREATER, so a NULL probe matches no element). */
#define VA_MATCH_INDEX(probe) ((vg_old_k == (spif_obj_t) NULL) ? ((probe) == (spif_obj_t) NULL) \
                               : ((probe) != (spif_obj_t) NULL && vg_cr == SPIF_CMP_EQUAL))
/* find/contains/remove: placeholders never match */
#define VA_MATCH_FIND (vg_old_k != (spif_obj_t) NULL && vg_cr == SPIF_CMP_EQUAL)

/* dup loops (annotation): the copy of the ghost element carries the original's key */
/* NOTE: ghost snapshot pointers (vg_old_k ...) are tied by == in requires; cbmc's value-set
 * dereferencing does not know what they point to, so they may be COMPARED but never dereferenced:
 * the element is always read through the slot that is_fresh assigned (self->items[vg_k]). */
#define VA_IS_COPY_OF_K (vg_dup_obj->key == ((velem_t) self->items[vg_k])->key)

/* container comparison: three-way result for the ghost slot pair (vg_old_k = self->items[vg_k],
 * vg_old_k2 = other->items[vg_k], vg_cr = element comparison of that pair): a NULL placeholder is
 * smaller than any element, two placeholders are equal */
#define VA_SLOTCMP_K ((vg_old_k == (spif_obj_t) NULL && vg_old_k2 == (spif_obj_t) NULL) ? SPIF_CMP_EQUAL : \
                      ((vg_old_k == (spif_obj_t) NULL) ? SPIF_CMP_LESS : \
                       ((vg_old_k2 == (spif_obj_t) NULL) ? SPIF_CMP_GREATER : vg_cr)))

/* frame of a mutator */
#define ARRAY_FRAME(a) (a)->len, (a)->items; (a)->items != NULL: __CPROVER_object_whole((a)->items)

#endif
