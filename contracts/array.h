/* array.h — spec macros for /repo/src/array.c (owner: array).  See env_array.h for the
 * element / comparison model. */
#ifndef VERIF_ARRAY_H
#define VERIF_ARRAY_H

/* element-count cap: only keeps len+1 and sizeof(spif_obj_t)*len representable */
#ifndef VCAPL
# define VCAPL 0x0fffffff
#endif

#define ASZ(n) (sizeof(spif_obj_t) * (size_t) (n))

/* representation invariant, precondition form (allocates in enforce mode):
 * items has exactly len slots (NULL or a zero-sized block when len == 0) */
#define ARRAY_INV(a) \
    ((a)->len >= 0 && (a)->len <= VCAPL && \
     (((a)->len == 0 && (a)->items == NULL) || __CPROVER_is_fresh((a)->items, ASZ((a)->len))))
#define ARRAY_VALID(a) (__CPROVER_is_fresh((a), sizeof(*(a))) && ARRAY_INV(a))
/* the same, with the length recorded in the witness global w_len (native replay reads W_w_len) */
#define ARRAY_VALID_W(a) (ARRAY_VALID(a) && w_len == (long) (a)->len)

/* postcondition form: the block is live, starts at offset 0 and has EXACTLY len slots */
#define ARRAY_POST(a) \
    ((a)->len >= 0 && \
     ((a)->items == NULL ? (a)->len == 0 \
      : (__CPROVER_POINTER_OFFSET((a)->items) == 0 && __CPROVER_OBJECT_SIZE((a)->items) == ASZ((a)->len) && \
         __CPROVER_rw_ok((a)->items, ASZ((a)->len)))))

/* entry-state element at ghost position k: requires-clause that ties ghost g to items[k]
 * (cbmc's __CPROVER_old cannot contain a conditional and items[k] is unreadable for k >= len) */
#define SNAP_ITEM(a, k, g) ((k) >= (size_t) (a)->len || (a)->items[(k)] == (g))
#define OLD_LEN(a)     __CPROVER_old((a)->len)
#define OLD_ITEMS(a)   __CPROVER_old((a)->items)
/* position normalisation of the list interface: negative positions count from the end */
#define NORM(idx, len) (((idx) < 0) ? ((long) (idx) + (long) (len)) : (long) (idx))
/* "refused without change": same length, same block, ghost slot untouched */
#define ARRAY_UNCHANGED(a) ((a)->len == OLD_LEN(a) && (a)->items == OLD_ITEMS(a) && \
                            (vg_k >= (size_t) (a)->len || (a)->items[vg_k] == vg_old_k))

/* element matching in the pair model (env_array.h): the ghost pair is (old items[vg_k], probe)
 * for index/find (receiver = stored element) resp. (probe, old items[vg_k]) for remove
 * (receiver = probe); vg_cr is the comparison result on that pair.
 * index: a NULL placeholder matches a NULL probe; an element matches if comp says EQUAL
 *        (comp(x, NULL) is GREATER, so a NULL probe matches no element). */
#define VA_MATCH_INDEX(probe) ((vg_old_k == (spif_obj_t) NULL) ? ((probe) == (spif_obj_t) NULL) \
                               : ((probe) != (spif_obj_t) NULL && vg_cr == SPIF_CMP_EQUAL))
/* find/contains/remove: placeholders never match */
#define VA_MATCH_FIND (vg_old_k != (spif_obj_t) NULL && vg_cr == SPIF_CMP_EQUAL)

/* dup loops (annotation): the copy of the ghost element carries the original's key */
/* NOTE: ghost snapshot pointers (vg_old_k ...) are tied by == in requires; cbmc's value-set
 * dereferencing does not know what they point to, so they may be COMPARED but never dereferenced:
 * the element is always read through the slot that is_fresh assigned (self->items[vg_k]). */
#define VA_IS_COPY_OF_K (vg_dup_obj->key == ((velem_t) self->items[vg_k])->key)

/* container comparison: three-way result for the ghost slot pair (vg_old_k = self->items[vg_k],
 * vg_old_k2 = other->items[vg_k], vg_cr = element comparison of that pair): a NULL placeholder is
 * smaller than any element, two placeholders are equal */
#define VA_SLOTCMP_K ((vg_old_k == (spif_obj_t) NULL && vg_old_k2 == (spif_obj_t) NULL) ? SPIF_CMP_EQUAL : \
                      ((vg_old_k == (spif_obj_t) NULL) ? SPIF_CMP_LESS : \
                       ((vg_old_k2 == (spif_obj_t) NULL) ? SPIF_CMP_GREATER : vg_cr)))

/* ---- vector / map facts in the key model (env_array.h, VA_COMP_KEY) -----------------------
 * ghost pointers: vg_e1 = probe / new element (key vg_key1), vg_e2 = items[vg_k] (vg_key2),
 * vg_e3 = items[vg_j] (vg_key3), vg_e4 = items[vg_j + 1] (vg_key4).  vg_j is the INSTANTIATION
 * POINT of the sortedness fact: a search ends at a computed position; the unit records it in
 * vg_exit and guards the clauses that need sortedness there with "vg_exit matches vg_j".  vg_j is
 * arbitrary, so every possible end position is covered (GUIDE: manual quantifier instantiation).
 * vg_j == SIZE_MAX stands for "before the first slot". */
#define VEC_GHOSTS(a, probe) \
    (vg_e1 == (probe) && VA_KEYS_CONSISTENT && \
     (vg_k >= (size_t) (a)->len || ((a)->items[vg_k] == vg_e2 && vg_e2 != (spif_obj_t) NULL)) && \
     (vg_j >= (size_t) (a)->len || ((a)->items[vg_j] == vg_e3 && vg_e3 != (spif_obj_t) NULL)) && \
     (vg_j + 1 >= (size_t) (a)->len || ((a)->items[vg_j + 1] == vg_e4 && vg_e4 != (spif_obj_t) NULL)))
/* ascending order, instantiated at (vg_k, vg_j), (vg_j + 1, vg_k) and (vg_j, vg_j + 1); STRICT = 1 for maps */
#define VEC_SORTED_AT_J(a, STRICT) \
    ((!(vg_k < (size_t) (a)->len && vg_j < (size_t) (a)->len && vg_k <= vg_j) || \
      ((STRICT) && vg_k != vg_j ? vg_key2 < vg_key3 : vg_key2 <= vg_key3)) && \
     (!(vg_k < (size_t) (a)->len && vg_j + 1 < (size_t) (a)->len && vg_k >= vg_j + 1) || \
      ((STRICT) && vg_k != vg_j + 1 ? vg_key4 < vg_key2 : vg_key4 <= vg_key2)) && \
     (!(vg_j < (size_t) (a)->len && vg_j + 1 < (size_t) (a)->len) || ((STRICT) ? vg_key3 < vg_key4 : vg_key3 <= vg_key4)))

/* map: the ghost slot holds a REAL pair (is_fresh assigns the slot) that owns a real key and value
 * velem; vg_e2 / vg_key2 are tied to it (the integer key of a pair is the key of its key object:
 * that is what spif_objpair_comp compares, C03.objpair_comp).  Used together with VEC_GHOSTS. */
#define MAP_PAIR_K(a) \
    (vg_k >= (size_t) (a)->len ? !vg_e2_real : \
     (vg_e2_real && __CPROVER_is_fresh((a)->items[vg_k], sizeof(struct spif_objpair_t_struct)) && \
      VELEM_VALID((velem_t) ((spif_objpair_t) (a)->items[vg_k])->key) && \
      VELEM_VALID((velem_t) ((spif_objpair_t) (a)->items[vg_k])->value) && \
      vg_key2 == ((velem_t) ((spif_objpair_t) (a)->items[vg_k])->key)->key))
#define PAIR_K(a) ((spif_objpair_t) (a)->items[vg_k])
#ifndef VKEYOF
# define VKEYOF(p) (((velem_t) (p))->key)
#endif
/* the fresh pair the dup of the ghost pair returns (precondition) and "it is an equal copy" */
#define VM_DUP_PAIR_FRESH (__CPROVER_is_fresh(vg_dup_pair, sizeof(struct spif_objpair_t_struct)) && \
                           VELEM_VALID((velem_t) vg_dup_pair->key) && VELEM_VALID((velem_t) vg_dup_pair->value))
#define VM_DUP_PAIR_FRAME vg_dup_pair->parent, __CPROVER_object_whole(vg_dup_pair->key), __CPROVER_object_whole(vg_dup_pair->value)
#define VM_DUP_PAIR_EQ_K(a) (VKEYOF(vg_dup_pair->key) == VKEYOF(PAIR_K(a)->key) && VKEYOF(vg_dup_pair->value) == VKEYOF(PAIR_K(a)->value) && \
                             SPIF_OBJ_CLASS(vg_dup_pair) == SPIF_OBJ_CLASS(PAIR_K(a)))
/* has_value: vg_e1 = probe value (vg_key1), vg_e3 = value object of the ghost pair (vg_key3) */
#define VM_HASV_MATCH_K (value != (spif_obj_t) NULL && vg_key3 == vg_key1)

/* frame of a mutator */
#define ARRAY_FRAME(a) (a)->len, (a)->items; (a)->items != NULL: __CPROVER_object_whole((a)->items)

#endif
