/* contracts/options.h — spec macros for src/options.c (C08).  Included AFTER the
 * (annotated copy of) options.c so that the file-local statics are in scope. */
#ifndef VERIF_OPTIONS_H
#define VERIF_OPTIONS_H

#define OPT_N      ((long) spifopt_settings.num_opts)
#define OPT_TAB    (spifopt_settings.opt_list)

/* the option table: num_opts entries (any 16-bit count) in one object of exactly that size.
 * (SPIFOPT_OPTLIST_GET_OPT(n) silently reads entry 0 for n >= num_opts; a table with 0 entries
 * is therefore only legal as long as nobody asks for an entry.) */
#define OPTTAB_INV    (__CPROVER_rw_ok(OPT_TAB, (size_t) spifopt_settings.num_opts * sizeof(spifopt_t)))
#define OPTTAB_NONEMPTY (spifopt_settings.num_opts >= 1)
/* harness side: allocate the table (arbitrary contents).  State is BUILT by the harness with
 * assignments and re-stated in `requires` with rw_ok/r_ok: cbmc dereferences through points-to
 * sets, so pointers that the proof reads through ghosts must have been assigned, not assumed. */
#define VOPT_MK_TABLE()  (OPT_TAB = malloc((size_t) spifopt_settings.num_opts * sizeof(spifopt_t)))
/* a C string of exactly n characters, arbitrary contents (exactness is instantiated by the
 * harness at the positions the unit needs) */
#define VOPT_MK_STR(p, n) do { (p) = malloc((n) + 1); ((char *) (p))[(n)] = 0; } while (0)
#define VOPT_STR_OK(p, n) ((n) <= VCAP && __CPROVER_r_ok((p), (n) + 1) && ((const char *) (p))[(n)] == 0)

/* the client installed a help handler that returns (vopt_help) */
#define OPT_HELP_INV  (spifopt_settings.help_handler == (spifopt_helphandler_t) vopt_help)

/* what one CHECK_BAD() does: one more bad option (the 8-bit counter saturates at 255); the help
 * handler runs iff the new count exceeds the limit */
#define OPT_BAD_NEXT(old_bad)  ((long) (old_bad) < 255 ? (long) (old_bad) + 1 : 255L)
#define OPT_ONE_BAD(old_bad, old_help) \
    ((long) spifopt_settings.bad_opts == OPT_BAD_NEXT(old_bad) && \
     vg_help_calls == (old_help) + (OPT_BAD_NEXT(old_bad) > (long) spifopt_settings.allow_bad ? 1UL : 0UL))
#define OPT_NO_BAD(old_bad, old_help) \
    (spifopt_settings.bad_opts == (old_bad) && vg_help_calls == (old_help))

/* option j is parsed on this pass (pre-parse pass handles exactly the PREPARSE options) */
#define OPT_PASS(j)  ((((spifopt_settings.flags & SPIFOPT_SETTING_PREPARSE) != 0)) == ((OPT_TAB[j].flags & SPIFOPT_FLAG_PREPARSE) != 0))

#define VMIN(a, b) ((a) < (b) ? (a) : (b))

/* ---- contracts shared between the unit that proves them and units that use them at call sites ---- */

/* find_short_option(char opt): FIRST table index whose short form is opt (a short form is a non-NUL
 * letter: entries without one carry 0 and are never found, not even by the NUL "letter"), else -1
 * and exactly one bad option.
 * "first"/"none" through the ghost index vg_k.  EXTRA: behaviour-specific precondition. */
#define CONTRACT_find_short_option(EXTRA) \
__CPROVER_requires(OPTTAB_INV && OPT_HELP_INV) \
__CPROVER_requires(EXTRA) \
__CPROVER_assigns(spifopt_settings.bad_opts, vg_help_calls) \
__CPROVER_ensures(__CPROVER_return_value == -1 || \
                  (0 <= __CPROVER_return_value && __CPROVER_return_value < OPT_N && \
                   OPT_TAB[__CPROVER_return_value].short_opt == opt && opt != 0 && \
                   (!((long) vg_k < __CPROVER_return_value) || OPT_TAB[vg_k].short_opt != opt) && \
                   OPT_NO_BAD(__CPROVER_old(spifopt_settings.bad_opts), __CPROVER_old(vg_help_calls)))) \
__CPROVER_ensures(__CPROVER_return_value != -1 || \
                  ((!((long) vg_k < OPT_N) || OPT_TAB[vg_k].short_opt != opt || opt == 0) && \
                   OPT_ONE_BAD(__CPROVER_old(spifopt_settings.bad_opts), __CPROVER_old(vg_help_calls))))

/* find_long_option(opt): opt is registered string 1 (exact length vg_n1).  The table entry with ghost
 * index vg_k has a real long name: registered string 2 (exact length vg_n2); vg_cmp is the outcome of
 * comparing the two (env_options.h).  Entry vg_k matches iff its name equals the first vg_n2 characters
 * of opt and opt continues with '=' or ends there.  Result: FIRST matching index, else -1 and one bad option. */
#define LONG_MATCH_K(opt)  (vg_cmp == 0 && vg_n2 <= vg_n1 && ((opt)[vg_n2] == '=' || (opt)[vg_n2] == 0))
#define CONTRACT_find_long_option \
__CPROVER_requires(OPTTAB_INV && OPT_HELP_INV) \
__CPROVER_requires(VOPT_STR_OK(opt, vg_n1) && vg_p1 == (const char *) opt) \
__CPROVER_requires(!((long) vg_k < OPT_N) || (VOPT_STR_OK(vg_p2, vg_n2) && vg_p2 == (const char *) OPT_TAB[vg_k].long_opt)) \
__CPROVER_requires((long) vg_k < OPT_N || vg_p2 == NULL) \
__CPROVER_assigns(spifopt_settings.bad_opts, vg_help_calls, vg_lastp, vg_lastn) \
__CPROVER_ensures(__CPROVER_return_value == -1 || \
                  (0 <= __CPROVER_return_value && __CPROVER_return_value < OPT_N && \
                   (!((long) vg_k < __CPROVER_return_value) || !LONG_MATCH_K(opt)) && \
                   (!((long) vg_k == __CPROVER_return_value) || LONG_MATCH_K(opt)) && \
                   OPT_NO_BAD(__CPROVER_old(spifopt_settings.bad_opts), __CPROVER_old(vg_help_calls)))) \
__CPROVER_ensures(__CPROVER_return_value != -1 || \
                  ((!((long) vg_k < OPT_N) || !LONG_MATCH_K(opt)) && \
                   OPT_ONE_BAD(__CPROVER_old(spifopt_settings.bad_opts), __CPROVER_old(vg_help_calls))))

/* handle_arglist, hasequal == 0 ("swallow the rest of the line"): the list is the value followed by
 * argv[i+1..argc-1]; argv itself is not touched (spifopt_parse removes the words).  argv: argc+1 slots.
 * The slot with ghost index vg_k holds vg_old_ptr; when i <= vg_k < argc it is a real word (registered
 * string 1).  The strdup call number vg_k-i+1 is recorded (vg_dup_src/res); strdup = arena bump
 * allocator.  The value is the next word, val_ptr == argv[i] (the -eVALUE spelling, where the value
 * sits inside the option word, is covered by the B unit parse.args_attached). */
#define ARGS_TARGET(n) (*((spif_charptr_t **) OPT_TAB[n].value))
#define K_IN_REST      ((long) i <= (long) vg_k && (long) vg_k < (long) argc)
#define CONTRACT_handle_arglist_rest(EXTRA) \
__CPROVER_requires(OPTTAB_INV && 0 <= n && n < OPT_N && __CPROVER_rw_ok((spif_charptr_t **) OPT_TAB[n].value, sizeof(spif_charptr_t *))) \
__CPROVER_requires(hasequal == 0) \
__CPROVER_requires(1 <= i && i <= argc && argc <= 0x7ffffff0 && __CPROVER_r_ok(argv, ((size_t) argc + 1) * sizeof(char *))) \
__CPROVER_requires(i == argc || val_ptr == (spif_charptr_t) argv[i]) \
__CPROVER_requires(EXTRA) \
__CPROVER_requires(vg_k <= (size_t) argc && argv[vg_k] == (char *) vg_old_ptr) \
__CPROVER_requires(__CPROVER_rw_ok(vg_arena, vg_arena_size) && vg_arena_off == 0) \
__CPROVER_requires(!K_IN_REST || (VOPT_STR_OK(vg_p1, vg_n1) && vg_p1 == vg_old_ptr)) \
__CPROVER_requires(K_IN_REST || vg_p1 == NULL) \
__CPROVER_requires(vg_dup_calls == 0 && vg_dup_want == (K_IN_REST ? (unsigned long) vg_k - (unsigned long) i + 1 : 0UL)) \
/* argv is not in the frame: it is left alone */ \
__CPROVER_assigns(ARGS_TARGET(n), vg_dup_calls, vg_dup_src, vg_dup_res, vg_arena_off, __CPROVER_object_whole(vg_arena)) \
/* result: fresh array of argc-i+1 slots, NULL-terminated */ \
__CPROVER_ensures(__CPROVER_is_fresh(ARGS_TARGET(n), ((size_t) (argc - i) + 1) * sizeof(spif_charptr_t))) \
__CPROVER_ensures(ARGS_TARGET(n)[argc - i] == NULL) \
/* entry vg_k-i is the duplicate of word vg_k (so: argc-i non-NULL entries, in order) */ \
__CPROVER_ensures(!K_IN_REST || (ARGS_TARGET(n)[(long) vg_k - i] == (spif_charptr_t) vg_dup_res && vg_dup_res != NULL && \
                                 vg_dup_src == vg_old_ptr)) \
__CPROVER_ensures(argv[vg_k] == (char *) vg_old_ptr)
#endif
