/* contracts/options.h — spec macros for src/options.c (C08).  Included AFTER the
 * (annotated copy of) options.c so that the file-local statics are in scope. */
#ifndef VERIF_OPTIONS_H
#define VERIF_OPTIONS_H

#define OPT_N      ((long) spifopt_settings.num_opts)
#define OPT_TAB    (spifopt_settings.opt_list)

/* the option table: num_opts entries (any 16-bit count) in one object of exactly that size.
 * (SPIFOPT_OPTLIST_GET_OPT(n) silently reads entry 0 for n >= num_opts; a table with 0 entries
 * is therefore only legal as long as nobody asks for an entry.) */
#define OPTTAB_INV    (__CPROVER_rw_ok(OPT_TAB, (size_t) spifopt_settings.num_opts * sizeof(spifopt_t)))
#define OPTTAB_NONEMPTY (spifopt_settings.num_opts >= 1)
/* harness side: allocate the table (arbitrary contents).  State is BUILT by the harness with
 * assignments and re-stated in `requires` with rw_ok/r_ok: cbmc dereferences through points-to
 * sets, so pointers that the proof reads through ghosts must have been assigned, not assumed. */
#define VOPT_MK_TABLE()  (OPT_TAB = malloc((size_t) spifopt_settings.num_opts * sizeof(spifopt_t)))
/* a C string of exactly n characters, arbitrary contents (exactness is instantiated by the
 * harness at the positions the unit needs) */
#define VOPT_MK_STR(p, n) do { (p) = malloc((n) + 1); ((char *) (p))[(n)] = 0; } while (0)
#define VOPT_STR_OK(p, n) ((n) <= VCAP && __CPROVER_r_ok((p), (n) + 1) && ((const char *) (p))[(n)] == 0)

/* the client installed a help handler that returns (vopt_help); the bad-option counter has
 * room (it is 8 bits wide; the unit `check_bad_wrap` covers bad_opts == 255). */
#define OPT_HELP_INV  (spifopt_settings.help_handler == (spifopt_helphandler_t) vopt_help)
#define OPT_BAD_ROOM  (spifopt_settings.bad_opts < 255)

/* what one CHECK_BAD() does: exactly one more bad option; help handler iff limit exceeded */
#define OPT_ONE_BAD(old_bad, old_help) \
    ((long) spifopt_settings.bad_opts == (long) (old_bad) + 1 && \
     vg_help_calls == (old_help) + (((long) (old_bad) + 1) > (long) spifopt_settings.allow_bad ? 1UL : 0UL))
#define OPT_NO_BAD(old_bad, old_help) \
    (spifopt_settings.bad_opts == (old_bad) && vg_help_calls == (old_help))

/* option j is parsed on this pass (pre-parse pass handles exactly the PREPARSE options) */
#define OPT_PASS(j)  ((((spifopt_settings.flags & SPIFOPT_SETTING_PREPARSE) != 0)) == ((OPT_TAB[j].flags & SPIFOPT_FLAG_PREPARSE) != 0))

#define VMIN(a, b) ((a) < (b) ? (a) : (b))
#endif
