/* contracts/hashes_ref.h — reference definitions of the six built-in hashes (C18).
 *
 * Typed in from the PUBLICATIONS, not from /repo/src/builtin_hashes.c:
 *
 *  [LOOKUP2]  Bob Jenkins, lookup2.c, "By Bob Jenkins, December 1996, Public Domain"
 *             (http://burtleburtle.net/bob/c/lookup2.c): mix(), hash() (byte-wise, any
 *             machine), hash2() (key = array of ub4, length in ub4s), hash3()
 *             ("same as hash(), but little-endian machines only, faster": by its
 *             definition it IS hash() on a little-endian host, so its reference is hash()).
 *  [DOOBS]    Bob Jenkins, "Hash Functions", Dr. Dobb's Journal, September 1997
 *             (http://burtleburtle.net/bob/hash/doobs.html): the rotating hash
 *             (`hash = (hash<<4)^(hash>>28)^key[i]`, with the note that `% prime` can be
 *             replaced by `(hash ^ (hash>>10) ^ (hash>>20)) & mask`) and One-at-a-Time.
 *  [FNV]      Fowler / Noll / Vo, http://www.isthe.com/chongo/tech/comp/fnv/ and
 *             draft-eastlake-fnv: 32-bit offset basis 2166136261 (0x811c9dc5), 32-bit FNV
 *             prime 16777619 (0x01000193).
 *               FNV-1 :  h = (h * 16777619) ^ byte
 *               FNV-1a:  h = (h ^ byte) * 16777619
 *             libast's source comment says "FNV-1a 32-bit init" and the code is the
 *             xor-then-multiply order, i.e. FNV-1a (hash_32a.c on Noll's page, which also
 *             shows the gcc shift-add form of the multiply).  Both orders are given
 *             below; the units compare with FNV-1a.
 *
 * libast's documented deviations from the publications (header comments of the functions):
 *   * lookup2's initial a = b = 0x9e3779b9 ("the golden ratio; an arbitrary value") is
 *     BUILTIN_RANDOM_SEED 0xf721b64d in libast ("This can be any 32-bit value") — the
 *     references take it as parameter `init`;
 *   * rotating / one-at-a-time start from `seed` instead of `len` / 0, and a seed of 0 is
 *     replaced by 0xf721b64d; FNV starts from `seed`, 0 replaced by the offset basis;
 *   * rotating ends with the mask-friendly fold of [DOOBS] with a full 32-bit mask;
 *   * key bytes are unsigned (the publications use `char`, which is where they are
 *     unspecified; unsigned is what lookup2's `ub1` and FNV's `unsigned char` use).
 *
 * The references read the key through an index only (k[i]), are loop-unrolled by symex
 * for constant lengths and are also compiled natively by the demos.
 */
#ifndef VERIF_HASHES_REF_H
#define VERIF_HASHES_REF_H

typedef unsigned int  ref_ub4;   /* "unsigned 4-byte quantities" */
typedef unsigned char ref_ub1;

#define REF_LIBAST_INIT   0xf721b64dU     /* libast's BUILTIN_RANDOM_SEED */
#define REF_GOLDEN_RATIO  0x9e3779b9U     /* lookup2's published initial value */

/* [LOOKUP2] mix -- mix 3 32-bit values reversibly */
#define ref_mix(a,b,c) \
{ \
  a -= b; a -= c; a ^= (c>>13); \
  b -= c; b -= a; b ^= (a<<8); \
  c -= a; c -= b; c ^= (b>>13); \
  a -= b; a -= c; a ^= (c>>12);  \
  b -= c; b -= a; b ^= (a<<16); \
  c -= a; c -= b; c ^= (b>>5); \
  a -= b; a -= c; a ^= (c>>3);  \
  b -= c; b -= a; b ^= (a<<10); \
  c -= a; c -= b; c ^= (b>>15); \
}

/* [LOOKUP2] hash(): k = key, length in BYTES, initval = previous hash or arbitrary */
static ref_ub4 ref_lookup2_hash(const ref_ub1 *k, ref_ub4 length, ref_ub4 initval, ref_ub4 init)
{
    ref_ub4 a, b, c, len;

    len = length;
    a = b = init;
    c = initval;
    while (len >= 12) {
        a += (k[0] + ((ref_ub4) k[1] << 8) + ((ref_ub4) k[2] << 16) + ((ref_ub4) k[3] << 24));
        b += (k[4] + ((ref_ub4) k[5] << 8) + ((ref_ub4) k[6] << 16) + ((ref_ub4) k[7] << 24));
        c += (k[8] + ((ref_ub4) k[9] << 8) + ((ref_ub4) k[10] << 16) + ((ref_ub4) k[11] << 24));
        ref_mix(a, b, c);
        k += 12;
        len -= 12;
    }
    c += length;
    switch (len) {              /* all the case statements fall through */
        case 11: c += ((ref_ub4) k[10] << 24);
        case 10: c += ((ref_ub4) k[9] << 16);
        case 9:  c += ((ref_ub4) k[8] << 8);
            /* the first byte of c is reserved for the length */
        case 8:  b += ((ref_ub4) k[7] << 24);
        case 7:  b += ((ref_ub4) k[6] << 16);
        case 6:  b += ((ref_ub4) k[5] << 8);
        case 5:  b += k[4];
        case 4:  a += ((ref_ub4) k[3] << 24);
        case 3:  a += ((ref_ub4) k[2] << 16);
        case 2:  a += ((ref_ub4) k[1] << 8);
        case 1:  a += k[0];
            /* case 0: nothing left to add */
    }
    ref_mix(a, b, c);
    return c;
}

/* [LOOKUP2] hash2(): "the key is an array of ub4's", length in ub4s.  As in the publication
 * the words are read from memory as ub4 (so, as a function of the key BYTES, in the byte order
 * of the host: little endian here). */
static ref_ub4 ref_lookup2_hash2(const ref_ub4 *k, ref_ub4 length, ref_ub4 initval, ref_ub4 init)
{
    ref_ub4 a, b, c, len;

    len = length;
    a = b = init;
    c = initval;
    while (len >= 3) {
        a += k[0];
        b += k[1];
        c += k[2];
        ref_mix(a, b, c);
        k += 3;
        len -= 3;
    }
    c += length;
    switch (len) {              /* all the case statements fall through */
        case 2: b += k[1];
        case 1: a += k[0];
            /* case 0: nothing left to add */
    }
    ref_mix(a, b, c);
    return c;
}

/* [DOOBS] rotating hash, libast's documented parameters: start value = seed (0 replaced),
 * end = the fold that [DOOBS] gives as replacement for "% prime", mask = 2^32-1 */
static ref_ub4 ref_rotating(const ref_ub1 *key, ref_ub4 len, ref_ub4 seed)
{
    ref_ub4 hash, i;

    for (hash = (seed ? seed : REF_LIBAST_INIT), i = 0; i < len; ++i)
        hash = (hash << 4) ^ (hash >> 28) ^ key[i];
    return (hash ^ (hash >> 10) ^ (hash >> 20));
}

/* [DOOBS] One-at-a-Time, start value = seed (0 replaced), full 32-bit mask */
static ref_ub4 ref_one_at_a_time(const ref_ub1 *key, ref_ub4 len, ref_ub4 seed)
{
    ref_ub4 hash, i;

    for (hash = (seed ? seed : REF_LIBAST_INIT), i = 0; i < len; ++i) {
        hash += key[i];
        hash += (hash << 10);
        hash ^= (hash >> 6);
    }
    hash += (hash << 3);
    hash ^= (hash >> 11);
    hash += (hash << 15);
    return hash;
}

/* [FNV] 32-bit.  Noll's reference code (hash_32a.c / hash_32.c) gives the multiplication by the FNV
 * prime in two forms: `hval *= FNV_32_PRIME;` and, "#else" for gcc,
 * `hval += (hval<<1) + (hval<<4) + (hval<<7) + (hval<<8) + (hval<<24);`
 * (16777619 = 2^24 + 2^8 + 2^7 + 2^4 + 2^1 + 1).  REF_FNV_MUL is the second form; that it IS the
 * multiplication, for every 32-bit value, is the lemma unit C18.equiv.fnv.prime_lemma.  The enumeration
 * units compare with ref_fnv1a (shift-add step): K chained 32-bit multiplications against K chained
 * shift-add sums is out of reach for z3, cvc5 and the SAT solvers already at K = 5, while "one step
 * is the multiplication" (lemma) + "same steps in the same order" (enumeration) is the same statement.
 * ref_fnv1a_mul / ref_fnv1_mul (multiply written as a multiply) are what the native checks run
 * against the published test vectors ("" -> 0x811c9dc5, "a" -> 0xe40c292c, "foobar" -> 0xbf9cf968
 * for FNV-1a; "a" -> 0x050c5d7e, "foobar" -> 0x31f0b262 for FNV-1). */
#define REF_FNV32_PRIME  16777619U
#define REF_FNV32_BASIS  2166136261U
#define REF_FNV_MUL(h)   ((h) + ((h) << 1) + ((h) << 4) + ((h) << 7) + ((h) << 8) + ((h) << 24))
static ref_ub4 ref_fnv1a(const ref_ub1 *key, ref_ub4 len, ref_ub4 seed)
{
    ref_ub4 h = (seed ? seed : REF_FNV32_BASIS), i;

    for (i = 0; i < len; i++) {
        h ^= (ref_ub4) key[i];
        h = REF_FNV_MUL(h);
    }
    return h;
}
static ref_ub4 ref_fnv1a_mul(const ref_ub1 *key, ref_ub4 len, ref_ub4 seed)
{
    ref_ub4 h = (seed ? seed : REF_FNV32_BASIS), i;

    for (i = 0; i < len; i++) {
        h ^= (ref_ub4) key[i];
        h *= REF_FNV32_PRIME;
    }
    return h;
}
/* FNV-1 (multiply, then xor): NOT what libast computes; kept for the native demonstration */
static ref_ub4 ref_fnv1_mul(const ref_ub1 *key, ref_ub4 len, ref_ub4 seed)
{
    ref_ub4 h = (seed ? seed : REF_FNV32_BASIS), i;

    for (i = 0; i < len; i++) {
        h *= REF_FNV32_PRIME;
        h ^= (ref_ub4) key[i];
    }
    return h;
}
#endif
