/* entry point of a native replay: run the unit's harness once with the witness from the environment */
void harness(void);
int main(void) { harness(); return 0; }
