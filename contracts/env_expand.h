/* env_expand.h — libc/OS stubs used by the C10 units (owner: expand).  Included after vprelude.h.
 *
 * Two families:
 *  - VERIF_EXACT_LIBC (tier B units): executable byte-loop models with the man-page semantics, so that
 *    results can be compared with a reference; every copy into a destination carries a
 *    destination-size obligation.  Units define VERIF_OWN_STRLEN / VERIF_OWN_STRCMP / VERIF_OWN_STRDUP /
 *    VERIF_OWN_STRCHR before including vprelude.h so that env.h's over-approximations step aside.
 *  - contract-style stubs (tier P units): see the second half.
 * The environment is one variable: the ghost pair (vg_env_name, vg_env_val) plus HOME -> vg_home.
 */
#ifndef VERIF_ENV_EXPAND_H
#define VERIF_ENV_EXPAND_H

#ifdef VERIF_EXACT_LIBC
char *vb_home, *vb_env_a;      /* HOME and $a of the tier B units (natively: mirrored into the process environment by the harness) */
#endif
#if defined(VERIF_EXACT_LIBC) && !defined(VERIF_NATIVE)   /* a native replay uses the real libc */
/* byte i of a string, read as unsigned char (the comparison functions compare unsigned bytes) */
#define VUCH(p, i) (((const unsigned char *) (p))[i])
size_t strlen(const char *s)
{
    size_t n = 0;
    __CPROVER_assert(s != NULL, "strlen: argument not NULL");
    while (s[n]) n++;
    return n;
}
int strcmp(const char *a, const char *b)
{
    size_t i = 0;
    __CPROVER_assert(a != NULL && b != NULL, "strcmp: arguments not NULL");
    while (a[i] && a[i] == b[i]) i++;
    return (int) VUCH(a, i) - (int) VUCH(b, i);
}
int strncmp(const char *a, const char *b, size_t n)
{
    size_t i = 0;
    if (n == 0) return 0;
    __CPROVER_assert(a != NULL && b != NULL, "strncmp: arguments not NULL");
    while (i + 1 < n && a[i] && a[i] == b[i]) i++;
    return (int) VUCH(a, i) - (int) VUCH(b, i);
}
int strncasecmp(const char *a, const char *b, size_t n)
{
    size_t i = 0;
    if (n == 0) return 0;
    __CPROVER_assert(a != NULL && b != NULL, "strncasecmp: arguments not NULL");
    while (i + 1 < n && a[i] && tolower(VUCH(a, i)) == tolower(VUCH(b, i))) i++;
    return tolower(VUCH(a, i)) - tolower(VUCH(b, i));
}
int strcasecmp(const char *a, const char *b)
{
    size_t i = 0;
    __CPROVER_assert(a != NULL && b != NULL, "strcasecmp: arguments not NULL");
    while (a[i] && tolower(VUCH(a, i)) == tolower(VUCH(b, i))) i++;
    return tolower(VUCH(a, i)) - tolower(VUCH(b, i));
}
char *strcpy(char *d, const char *s)
{
    size_t i = 0;
    __CPROVER_assert(d != NULL && s != NULL, "strcpy: arguments not NULL");
    for (;; i++) {
        __CPROVER_assert(i < VREMAIN(d), "strcpy: destination holds the source string and its terminator");
        d[i] = s[i];
        if (!s[i]) break;
    }
    return d;
}
char *strcat(char *d, const char *s)
{
    strcpy(d + strlen(d), s);
    return d;
}
char *strdup(const char *s)
{
    __CPROVER_assert(s != NULL, "strdup: argument not NULL");
    char *r = malloc(strlen(s) + 1);
    strcpy(r, s);
    return r;
}
char *strchr(const char *s, int c)
{
    size_t i = 0;
    __CPROVER_assert(s != NULL, "strchr: argument not NULL");
    for (;; i++) {
        if (s[i] == (char) c) return (char *) s + i;
        if (!s[i]) return (char *) 0;
    }
}

/* the environment of the tier B units: HOME -> vb_home, "a" -> vb_env_a (NULL = unset), nothing else set */
char *getenv(const char *name)
{
    __CPROVER_assert(name != NULL, "getenv: name not NULL");
    if (name[0] == 'H' && name[1] == 'O' && name[2] == 'M' && name[3] == 'E' && name[4] == 0) return vb_home;
    if (name[0] == 'a' && name[1] == 0) return vb_env_a;
    return (char *) 0;
}
#endif /* VERIF_EXACT_LIBC */


/* =====================================================================================================
 * tier P stubs (unit defines VERIF_EXPAND_PSTUBS, VERIF_OWN_STRLEN, VERIF_OWN_STRCMP before vprelude.h;
 * contracts/expand.h, which declares the ghosts, is included before this file).
 * ===================================================================================================== */
#ifdef VERIF_EXPAND_PSTUBS
/* exact length of a registered string (see the string registry in contracts/expand.h), else "unknown".
 * ASSUMES: a registered ghost length is the exact length of the string (no NUL before it); the stubs and
 * contracts that register a string construct it with its terminator at that position. */
#define VG_REGISTERED(p) ((vg_so1 && __CPROVER_same_object((p), vg_so1)) || (vg_so2 && __CPROVER_same_object((p), vg_so2)) || \
                          (vg_bn0 && __CPROVER_same_object((p), vg_bn0)) || (vg_bn1 && __CPROVER_same_object((p), vg_bn1)))
#define VG_REGLEN(p)     ((vg_so1 && __CPROVER_same_object((p), vg_so1)) ? vg_sl1 : \
                          (vg_so2 && __CPROVER_same_object((p), vg_so2)) ? vg_sl2 : \
                          (vg_bn0 && __CPROVER_same_object((p), vg_bn0)) ? vg_bl0 : vg_bl1)
size_t strlen(const char *s)
{
    __CPROVER_assert(s != NULL, "strlen: argument not NULL");
    __CPROVER_assert(__CPROVER_r_ok(s, 1), "strlen: argument readable");
    if (VG_REGISTERED(s) && __CPROVER_POINTER_OFFSET(s) <= VG_REGLEN(s))
        return VG_REGLEN(s) - __CPROVER_POINTER_OFFSET(s);
    size_t r = nondet_size_t();                      /* otherwise: SOME position of a NUL, as in env.h */
    __CPROVER_assume(r < VREMAIN(s));
    __CPROVER_assume(s[r] == 0);
    return r;
}
/* comparison family: any int.  strncasecmp additionally carries one consequence of "the first n
 * characters are equal": when a has no NUL among its first n characters (registered exact length >= n),
 * then b has none either; instantiated at the ghost position vg_cq (set by the caller's annotation). */
size_t vg_cq;
int strcmp(const char *a, const char *b)
{
    __CPROVER_assert(a != NULL && b != NULL, "strcmp: arguments not NULL");
    __CPROVER_assert(__CPROVER_r_ok(a, 1) && __CPROVER_r_ok(b, 1), "strcmp: arguments readable");
    return nondet_int();
}
int strncmp(const char *a, const char *b, size_t n)
{
    __CPROVER_assert(n == 0 || (a != NULL && b != NULL), "strncmp: arguments not NULL");
    __CPROVER_assert(n == 0 || (__CPROVER_r_ok(a, 1) && __CPROVER_r_ok(b, 1)), "strncmp: arguments readable");
    return nondet_int();
}
int strcasecmp(const char *a, const char *b)
{
    __CPROVER_assert(a != NULL && b != NULL, "strcasecmp: arguments not NULL");
    __CPROVER_assert(__CPROVER_r_ok(a, 1) && __CPROVER_r_ok(b, 1), "strcasecmp: arguments readable");
    return nondet_int();
}
int strncasecmp(const char *a, const char *b, size_t n)
{
    __CPROVER_assert(n == 0 || (a != NULL && b != NULL), "strncasecmp: arguments not NULL");
    __CPROVER_assert(n == 0 || (__CPROVER_r_ok(a, 1) && __CPROVER_r_ok(b, 1)), "strncasecmp: arguments readable");
    int r = nondet_int();
    if (r == 0 && vg_cq < n && VG_REGISTERED(a) && __CPROVER_POINTER_OFFSET(a) == 0 && VG_REGLEN(a) >= n
        && vg_cq < VREMAIN(b))
        __CPROVER_assume(b[vg_cq] != 0);
    return r;
}
/* environment: NULL, or a C string owned by the environment, of exactly vg_sl1 characters (registered),
 * whose byte at the ghost index vg_q is not the ghost byte vg_fb.
 * ASSUMES: an environment value is shorter than VCAP bytes. */
char *getenv(const char *name)
{
    __CPROVER_assert(name != NULL && __CPROVER_r_ok(name, 1), "getenv: name readable");
    if (nondet_bool()) return (char *) 0;
    size_t n = nondet_size_t();
    __CPROVER_assume(n <= VCAP);
    char *r = malloc(n + 1);
    r[n] = 0;
    __CPROVER_assume(n == 0 || r[0] != 0);
    __CPROVER_assume(!(vg_q < n) || r[vg_q] != vg_fb);
    vg_so1 = r; vg_sl1 = n;
    return r;
}
/* strcpy: the text up to and including the FIRST NUL is copied; the destination must hold it.
 * r is the first NUL: in particular the byte at the ghost hint position vg_l1exit is not a NUL when the
 * hint lies below r (instantiation of "no NUL before r" at one position).  Copied text: byte vg_k. */
char *strcpy(char *d, const char *s)
{
    __CPROVER_assert(d != NULL && s != NULL, "strcpy: arguments not NULL");
    __CPROVER_assert(__CPROVER_r_ok(s, 1), "strcpy: source readable");
    size_t r = nondet_size_t();
    __CPROVER_assume(r < VREMAIN(s));
    __CPROVER_assume(s[r] == 0);
    __CPROVER_assume(!(vg_l1exit < r) || s[vg_l1exit] != 0);
    __CPROVER_assert(r < VREMAIN(d), "strcpy: destination holds the source string and its terminator");
    char c = (vg_k < r) ? s[vg_k] : 0;
    /* over-approximation: the whole destination object gets arbitrary contents (the real strcpy leaves the
     * bytes behind the terminator alone), then the terminator and the ghost byte are pinned */
    __CPROVER_havoc_object(d);
    d[r] = 0;
    if (vg_k < r) d[vg_k] = c;
    vg_rlen = r;
    return d;
}
#endif /* VERIF_EXPAND_PSTUBS */

#endif
