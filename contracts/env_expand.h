/* env_expand.h — libc/OS stubs used by the C10 units (owner: expand).  Included after vprelude.h.
 *
 * Two families:
 *  - VERIF_EXACT_LIBC (tier B units): executable byte-loop models with the man-page semantics, so that
 *    results can be compared with a reference; every copy into a destination carries a
 *    destination-size obligation.  Units define VERIF_OWN_STRLEN / VERIF_OWN_STRCMP / VERIF_OWN_STRDUP /
 *    VERIF_OWN_STRCHR before including vprelude.h so that env.h's over-approximations step aside.
 *  - contract-style stubs (tier P units): see the second half.
 * The environment is one variable: the ghost pair (vg_env_name, vg_env_val) plus HOME -> vg_home.
 */
#ifndef VERIF_ENV_EXPAND_H
#define VERIF_ENV_EXPAND_H

#ifdef VERIF_EXACT_LIBC
size_t strlen(const char *s)
{
    size_t n = 0;
    __CPROVER_assert(s != NULL, "strlen: argument not NULL");
    while (s[n]) n++;
    return n;
}
int strcmp(const char *a, const char *b)
{
    size_t i = 0;
    __CPROVER_assert(a != NULL && b != NULL, "strcmp: arguments not NULL");
    while (a[i] && a[i] == b[i]) i++;
    return (int) (unsigned char) a[i] - (int) (unsigned char) b[i];
}
int strncmp(const char *a, const char *b, size_t n)
{
    size_t i = 0;
    if (n == 0) return 0;
    __CPROVER_assert(a != NULL && b != NULL, "strncmp: arguments not NULL");
    while (i + 1 < n && a[i] && a[i] == b[i]) i++;
    return (int) (unsigned char) a[i] - (int) (unsigned char) b[i];
}
int strncasecmp(const char *a, const char *b, size_t n)
{
    size_t i = 0;
    if (n == 0) return 0;
    __CPROVER_assert(a != NULL && b != NULL, "strncasecmp: arguments not NULL");
    while (i + 1 < n && a[i] && tolower((unsigned char) a[i]) == tolower((unsigned char) b[i])) i++;
    return tolower((unsigned char) a[i]) - tolower((unsigned char) b[i]);
}
int strcasecmp(const char *a, const char *b)
{
    size_t i = 0;
    __CPROVER_assert(a != NULL && b != NULL, "strcasecmp: arguments not NULL");
    while (a[i] && tolower((unsigned char) a[i]) == tolower((unsigned char) b[i])) i++;
    return tolower((unsigned char) a[i]) - tolower((unsigned char) b[i]);
}
char *strcpy(char *d, const char *s)
{
    size_t i = 0;
    __CPROVER_assert(d != NULL && s != NULL, "strcpy: arguments not NULL");
    for (;; i++) {
        __CPROVER_assert(i < VREMAIN(d), "strcpy: destination holds the source string and its terminator");
        d[i] = s[i];
        if (!s[i]) break;
    }
    return d;
}
char *strcat(char *d, const char *s)
{
    strcpy(d + strlen(d), s);
    return d;
}
char *strdup(const char *s)
{
    __CPROVER_assert(s != NULL, "strdup: argument not NULL");
    char *r = malloc(strlen(s) + 1);
    strcpy(r, s);
    return r;
}
char *strchr(const char *s, int c)
{
    size_t i = 0;
    __CPROVER_assert(s != NULL, "strchr: argument not NULL");
    for (;; i++) {
        if (s[i] == (char) c) return (char *) s + i;
        if (!s[i]) return (char *) 0;
    }
}
#endif /* VERIF_EXACT_LIBC */

#endif
