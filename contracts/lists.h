/* lists.h — harness kit for the linked_list.c / dlinked_list.c units (owner: lists).
 *
 * Include order in a unit TU:
 *     #include "vprelude.h"
 *     [#define VL_WITH_PAIRS / VL_DISPATCH_LLIST / VL_DISPATCH_DLIST]
 *     #include "lists.h"                 (pulls in velem.h and re-binds the dispatch macros)
 *     [#define VL_SWITCH_ELEM / #include "lists.h" / #include "src/objpair.c" / #define VL_SWITCH_OBJ / #include "lists.h"]   (map units)
 *     #include "src/linked_list.c" and/or "src/dlinked_list.c"
 *
 * 1. DISPATCH.  libast calls element methods through SPIF_OBJ_COMP/DUP/DEL(o): the class
 *    pointer in the object header selects the method.  The spif_func_t pointer cannot be
 *    resolved by goto-instrument/cbmc (DESIGN.md 2.1), so the three macros are re-bound to the
 *    dispatcher functions below, which do what the class pointer does, explicitly:
 *       receiver's class == objpair class   -> spif_objpair_comp / _dup / _del   (VL_WITH_PAIRS)
 *       receiver's class == (d)linked list  -> the list's own comp               (VL_DISPATCH_*)
 *       anything else                       -> velem_comp / velem_dup / velem_del
 *    and they ASSERT that the receiver is not NULL (the real macro dereferences it to find the
 *    class).  So in a map TU the pair comparison really is spif_objpair_comp(pair, key|pair),
 *    which in turn compares the keys with SPIF_OBJ_COMP(self->key, ...) -> velem_comp.
 *    velem objects carry the class tag vl_velem_cls in their header.
 *    SPIF_OBJ_SHOW (only used by the show methods, never reached) is re-bound to a no-op so no
 *    spif_func_t call is left in the TU; SPIF_LIST_NEW/SPIF_LIST_APPEND (get_keys/values/pairs)
 *    are re-bound to direct calls on the class of the receiver.
 *
 * 2. IDEAL MODELS.  vl_seq_t is the ideal sequence of C02/C04 (array of element pointers,
 *    NULL = placeholder, with the element keys), vl_map_t the ideal dictionary of C03 (ascending
 *    key array + value array).  The vl_ideal_* functions are the operations of the property
 *    statements on those arrays; they never look at the code under test.
 *
 * 3. BUILD / CHECK macros are duck-typed over the two node layouts; LINK = VL_SL (singly) or
 *    VL_DL (doubly linked: prev mirror + tail).
 */
#ifndef VERIF_LISTS_H
#define VERIF_LISTS_H

#include "velem.h"

#ifndef VL_MAXN
# ifdef VERIF_THOROUGH
#  define VL_MAXN 5                /* thorough tier: one node more */
# else
#  define VL_MAXN 4                /* bound on the length of a built list */
# endif
#endif
#define VL_GROW 2                  /* insert_at may grow a list by at most VL_GROW placeholders + 1 */
#define VL_CAP (VL_MAXN + VL_GROW + 1)

/* ------------------------------------------------------------------ dispatch */
static SPIF_CONST_TYPE(class) vl_velem_cls = { (spif_classname_t) "!velem!" };

#ifdef VL_DISPATCH_LLIST
static spif_cmp_t spif_linked_list_comp(spif_linked_list_t, spif_linked_list_t);
#endif
#ifdef VL_DISPATCH_DLIST
static spif_cmp_t spif_dlinked_list_comp(spif_dlinked_list_t, spif_dlinked_list_t);
#endif

static spif_cmp_t vl_obj_comp(spif_obj_t a, spif_obj_t b)
{
    __CPROVER_assert(a != NULL, "SPIF_OBJ_COMP: receiver is not NULL (dispatch dereferences it)");
    if (a == NULL) return velem_comp((velem_t) a, (velem_t) b);
#ifdef VL_WITH_PAIRS
    if (SPIF_OBJ_CLASS(a) == SPIF_CLASS_VAR(objpair)) return spif_objpair_comp((spif_objpair_t) a, b);
#endif
#ifdef VL_DISPATCH_LLIST
    if (SPIF_OBJ_CLASS(a) == SPIF_CLASS(SPIF_LISTCLASS_VAR(linked_list)) ||
        SPIF_OBJ_CLASS(a) == SPIF_CLASS(SPIF_VECTORCLASS_VAR(linked_list)) ||
        SPIF_OBJ_CLASS(a) == SPIF_CLASS(SPIF_MAPCLASS_VAR(linked_list)))
        return spif_linked_list_comp((spif_linked_list_t) a, (spif_linked_list_t) b);
#endif
#ifdef VL_DISPATCH_DLIST
    if (SPIF_OBJ_CLASS(a) == SPIF_CLASS(SPIF_LISTCLASS_VAR(dlinked_list)) ||
        SPIF_OBJ_CLASS(a) == SPIF_CLASS(SPIF_VECTORCLASS_VAR(dlinked_list)) ||
        SPIF_OBJ_CLASS(a) == SPIF_CLASS(SPIF_MAPCLASS_VAR(dlinked_list)))
        return spif_dlinked_list_comp((spif_dlinked_list_t) a, (spif_dlinked_list_t) b);
#endif
    return velem_comp((velem_t) a, (velem_t) b);
}

static spif_obj_t vl_obj_dup(spif_obj_t a)
{
    __CPROVER_assert(a != NULL, "SPIF_OBJ_DUP: receiver is not NULL (dispatch dereferences it)");
    if (a == NULL) return (spif_obj_t) NULL;
#ifdef VL_WITH_PAIRS
    if (SPIF_OBJ_CLASS(a) == SPIF_CLASS_VAR(objpair)) return (spif_obj_t) spif_objpair_dup((spif_objpair_t) a);
#endif
    return (spif_obj_t) velem_dup((velem_t) a);
}

static spif_bool_t vl_obj_del(spif_obj_t a)
{
    __CPROVER_assert(a != NULL, "SPIF_OBJ_DEL: receiver is not NULL (dispatch dereferences it)");
    if (a == NULL) return FALSE;
#ifdef VL_WITH_PAIRS
    if (SPIF_OBJ_CLASS(a) == SPIF_CLASS_VAR(objpair)) return spif_objpair_del((spif_objpair_t) a);
#endif
    return velem_del((velem_t) a);
}

/* element-level dispatchers: used INSIDE objpair.c, whose keys and values are always velems in these
 * units (a pair of pairs is never built), so pair -> key/value dispatch cannot recurse */
static spif_cmp_t vl_elem_comp(spif_obj_t a, spif_obj_t b)
{
    __CPROVER_assert(a != NULL, "SPIF_OBJ_COMP: receiver is not NULL (dispatch dereferences it)");
    return velem_comp((velem_t) a, (velem_t) b);
}
static spif_obj_t vl_elem_dup(spif_obj_t a)
{
    __CPROVER_assert(a != NULL, "SPIF_OBJ_DUP: receiver is not NULL (dispatch dereferences it)");
    if (a == NULL) return (spif_obj_t) NULL;
    return (spif_obj_t) velem_dup((velem_t) a);
}
static spif_bool_t vl_elem_del(spif_obj_t a)
{
    __CPROVER_assert(a != NULL, "SPIF_OBJ_DEL: receiver is not NULL (dispatch dereferences it)");
    if (a == NULL) return FALSE;
    return velem_del((velem_t) a);
}

#undef SPIF_OBJ_COMP
#undef SPIF_OBJ_DUP
#undef SPIF_OBJ_DEL
#undef SPIF_OBJ_SHOW
/* VL_*_IMPL is looked up where the macro is USED: a map TU says
 *     #define VL_SWITCH_ELEM / #include "lists.h" / #include "src/objpair.c"
 *     #define VL_SWITCH_OBJ  / #include "lists.h" / #include "src/linked_list.c"
 * so that objpair.c dispatches on velems only and the list code on (pair | list | velem). */
#define SPIF_OBJ_COMP(o1, o2) VL_COMP_IMPL(SPIF_OBJ(o1), SPIF_OBJ(o2))
#define SPIF_OBJ_DUP(o)       VL_DUP_IMPL(SPIF_OBJ(o))
#define SPIF_OBJ_DEL(o)       VL_DEL_IMPL(SPIF_OBJ(o))
#define SPIF_OBJ_SHOW(o, b, i) ((spif_str_t) (b))
#define VL_COMP_IMPL vl_obj_comp
#define VL_DUP_IMPL  vl_obj_dup
#define VL_DEL_IMPL  vl_obj_del

/* get_keys / get_values / get_pairs build their result with SPIF_LIST_NEW(linked_list) and
 * SPIF_LIST_APPEND(result, x); the harness only ever passes NULL or a linked_list as result
 * list, so both are bound to the linked_list methods (the TU includes linked_list.c). */
#ifdef VL_LISTRESULT_LLIST
static spif_linked_list_t spif_linked_list_new(void);
static spif_bool_t spif_linked_list_append(spif_linked_list_t self, spif_obj_t obj);
# undef SPIF_LIST_NEW
# undef SPIF_LIST_APPEND
# define SPIF_LIST_NEW(type)       SPIF_LIST(spif_ ## type ## _new())
# define SPIF_LIST_APPEND(o, item) spif_linked_list_append((spif_linked_list_t) (o), (spif_obj_t) (item))
#endif

/* ------------------------------------------------------------------ ideal sequence */
typedef struct {
    int len;
    spif_obj_t e[VL_CAP];          /* element pointers; NULL = placeholder */
    int key[VL_CAP];               /* key of e[i] when e[i] != NULL */
} vl_seq_t;

static velem_t vl_elem(int key)
{
    velem_t e = (velem_t) malloc(sizeof(struct velem_struct));
    ((spif_obj_t) e)->cls = (spif_class_t) &vl_velem_cls;
    e->key = key;
    return e;
}

/* normalised position of the property statement: negative counts back from the end */
static long vl_norm(spif_listidx_t idx, int len) { return (idx < 0) ? ((long) idx + len) : (long) idx; }

/* does ideal element i equal the (non-NULL) probe with key k?  A placeholder equals no object. */
static int vl_eq(const vl_seq_t *m, int i, int k) { return m->e[i] != NULL && m->key[i] == k; }

static void vl_ideal_append(vl_seq_t *m, spif_obj_t x, int k)
{
    m->e[m->len] = x; m->key[m->len] = k; m->len++;
}

static void vl_ideal_insert_pos(vl_seq_t *m, int p, spif_obj_t x, int k)   /* 0 <= p <= len */
{
    int i;
    for (i = m->len; i > p; i--) { m->e[i] = m->e[i - 1]; m->key[i] = m->key[i - 1]; }
    m->e[p] = x; m->key[p] = k; m->len++;
}

static void vl_ideal_remove_pos(vl_seq_t *m, int p)                        /* 0 <= p < len */
{
    int i;
    for (i = p; i + 1 < m->len; i++) { m->e[i] = m->e[i + 1]; m->key[i] = m->key[i + 1]; }
    m->len--;
}

/* insert_at: position normalises below zero -> refused, unchanged (returns 0).  Otherwise the
 * element ends up AT the normalised position p; if p is past the end the gap is filled with
 * NULL placeholders.  Returns 1. */
static int vl_ideal_insert_at(vl_seq_t *m, spif_obj_t x, int k, spif_listidx_t idx)
{
    long p = vl_norm(idx, m->len);
    if (p < 0) return 0;
    if (p <= m->len) { vl_ideal_insert_pos(m, (int) p, x, k); return 1; }
    while (m->len < p) { m->e[m->len] = NULL; m->key[m->len] = 0; m->len++; }
    m->e[m->len] = x; m->key[m->len] = k; m->len++;
    return 1;
}

/* get / remove_at: refused (NULL, unchanged) when the position normalises below zero or at/past len */
static spif_obj_t vl_ideal_get(const vl_seq_t *m, spif_listidx_t idx)
{
    long p = vl_norm(idx, m->len);
    return (p < 0 || p >= m->len) ? (spif_obj_t) NULL : m->e[p];
}

static spif_obj_t vl_ideal_remove_at(vl_seq_t *m, spif_listidx_t idx)
{
    long p = vl_norm(idx, m->len);
    spif_obj_t r;
    if (p < 0 || p >= m->len) return (spif_obj_t) NULL;
    r = m->e[p];
    vl_ideal_remove_pos(m, (int) p);
    return r;
}

/* first position holding an element equal to the probe, or -1 */
static int vl_ideal_index(const vl_seq_t *m, int k)
{
    int i;
    for (i = 0; i < m->len; i++) if (vl_eq(m, i, k)) return i;
    return -1;
}

static void vl_ideal_reverse(vl_seq_t *m)
{
    int i, j;
    for (i = 0, j = m->len - 1; i < j; i++, j--) {
        spif_obj_t t = m->e[i]; int tk = m->key[i];
        m->e[i] = m->e[j]; m->key[i] = m->key[j];
        m->e[j] = t; m->key[j] = tk;
    }
}

/* sorted multiset (C04): x goes after every element < x and before every element > x */
static int vl_ideal_count_less(const vl_seq_t *m, int k)
{
    int i, c = 0;
    for (i = 0; i < m->len; i++) if (m->key[i] < k) c++;
    return c;
}
static int vl_ideal_count_eq(const vl_seq_t *m, int k)
{
    int i, c = 0;
    for (i = 0; i < m->len; i++) if (m->key[i] == k) c++;
    return c;
}

/* ------------------------------------------------------------------ ideal dictionary */
typedef struct {
    int len;
    int k[VL_CAP];                 /* keys, strictly ascending */
    int v[VL_CAP];                 /* value keys */
} vl_map_t;

static int vl_map_find(const vl_map_t *m, int k)
{
    int i;
    for (i = 0; i < m->len; i++) if (m->k[i] == k) return i;
    return -1;
}
/* set: last value wins; returns 1 iff an entry was replaced; keys stay ascending */
static int vl_map_set(vl_map_t *m, int k, int v)
{
    int i, p = vl_map_find(m, k);
    if (p >= 0) { m->v[p] = v; return 1; }
    for (p = 0; p < m->len && m->k[p] < k; p++) ;
    for (i = m->len; i > p; i--) { m->k[i] = m->k[i - 1]; m->v[i] = m->v[i - 1]; }
    m->k[p] = k; m->v[p] = v; m->len++;
    return 0;
}
/* remove: returns position removed or -1 */
static int vl_map_remove(vl_map_t *m, int k)
{
    int i, p = vl_map_find(m, k);
    if (p < 0) return -1;
    for (i = p; i + 1 < m->len; i++) { m->k[i] = m->k[i + 1]; m->v[i] = m->v[i + 1]; }
    m->len--;
    return p;
}

/* ------------------------------------------------------------------ builders */
#define VL_SL_INIT(self)                 do { } while (0)
#define VL_SL_NODE(self, node, last)     do { } while (0)
#define VL_DL_INIT(self)                 do { (self)->tail = NULL; } while (0)
#define VL_DL_NODE(self, node, last)     do { (node)->prev = (last); (self)->tail = (node); } while (0)

/* INPUTS.  Every nondeterministic input of a built container is taken IN THE HARNESS through VND(kind, name)
 * (vprelude.h): cbmc picks it, the native replay (unit field `native: self`) reads the verifier's value from
 * W_<name>.  VL_INPUTS(in, S) fills a vl_in_t with the length n<S> and, per node i, the placeholder flag ph<S>i,
 * the key k<S>i and the value key v<S>i (S distinguishes several containers in one harness). */
#define VL_MAXIN 5
#if VL_MAXN > VL_MAXIN
# error "VL_MAXN > 5: add more VL_IN_NODE lines to VL_INPUTS"
#endif
typedef struct { int n; int ph[VL_MAXIN]; int key[VL_MAXIN]; int val[VL_MAXIN]; } vl_in_t;

#ifdef VL_FIXN
# define VL_PICK_LEN(S) (VL_FIXN)
#else
# ifndef VL_MINN
#  define VL_MINN 0
# endif
# define VL_PICK_LEN(S) ({ int vl_n_ = (int) VND(int, n ## S); __CPROVER_assume(vl_n_ >= VL_MINN && vl_n_ <= VL_MAXN); vl_n_; })
#endif
#define VL_IN_NODE(in, S, i) do { (in).ph[i] = VND(bool, ph ## S ## i) ? 1 : 0; (in).key[i] = (int) VND(int, k ## S ## i); \
                                  (in).val[i] = (int) VND(int, v ## S ## i); } while (0)
#define VL_INPUTS(in, S) do { (in).n = VL_PICK_LEN(S); VL_IN_NODE(in, S, 0); VL_IN_NODE(in, S, 1); VL_IN_NODE(in, S, 2); \
                              VL_IN_NODE(in, S, 3); VL_IN_NODE(in, S, 4); } while (0)

/* element of a general list: NULL placeholder or a velem with an arbitrary key */
static spif_obj_t vl_data_list(vl_seq_t *m, const vl_in_t *in, int i)
{
    if (in->ph[i]) { m->e[i] = NULL; m->key[i] = 0; }
    else { m->e[i] = (spif_obj_t) vl_elem(in->key[i]); m->key[i] = in->key[i]; }
    return m->e[i];
}
/* element of a list without placeholders: a velem with an arbitrary key, any order */
static spif_obj_t vl_data_any(vl_seq_t *m, const vl_in_t *in, int i)
{
    m->e[i] = (spif_obj_t) vl_elem(in->key[i]); m->key[i] = in->key[i];
    return m->e[i];
}
static int vl_has_placeholder(const vl_seq_t *m)
{
    int i;
    for (i = 0; i < m->len && i < VL_CAP; i++) if (m->e[i] == NULL) return 1;
    return 0;
}
/* element of a vector: never NULL, keys ascending (<=) */
static spif_obj_t vl_data_vec(vl_seq_t *m, const vl_in_t *in, int i)
{
    __CPROVER_assume(i == 0 || m->key[i - 1] <= in->key[i]);
    m->e[i] = (spif_obj_t) vl_elem(in->key[i]); m->key[i] = in->key[i];
    return m->e[i];
}

/* LT list pointer type, IT item pointer type, CLS class object, LINK = VL_SL | VL_DL,
 * m a vl_seq_t lvalue, in a filled vl_in_t, DATA one of vl_data_list / vl_data_any / vl_data_vec.
 * Every node and every element is a separate allocation. */
#define VL_BUILD(self, LT, IT, CLS, LINK, m, in, DATA) do { \
        int vl_i; int vl_n = (in).n; IT vl_last = NULL; \
        (self) = (LT) malloc(sizeof(*(self))); \
        ((spif_obj_t) (self))->cls = (spif_class_t) (CLS); \
        (self)->len = vl_n; (self)->head = NULL; LINK ## _INIT(self); \
        (m).len = vl_n; \
        for (vl_i = 0; vl_i < vl_n; vl_i++) { \
            IT vl_node = (IT) malloc(sizeof(*vl_node)); \
            vl_node->data = DATA(&(m), &(in), vl_i); \
            vl_node->next = NULL; \
            LINK ## _NODE(self, vl_node, vl_last); \
            if (vl_last) vl_last->next = vl_node; else (self)->head = vl_node; \
            vl_last = vl_node; \
        } \
    } while (0)

#ifdef VL_WITH_PAIRS
static spif_obj_t vl_data_map(vl_map_t *m, const vl_in_t *in, int i)
{
    int k = in->key[i], v = in->val[i];
    spif_objpair_t p;
    __CPROVER_assume(i == 0 || m->k[i - 1] < k);
    m->k[i] = k; m->v[i] = v;
    p = (spif_objpair_t) malloc(sizeof(*p));
    ((spif_obj_t) p)->cls = SPIF_CLASS_VAR(objpair);
    p->key = (spif_obj_t) vl_elem(k);
    p->value = (spif_obj_t) vl_elem(v);
    return (spif_obj_t) p;
}
#endif

/* ------------------------------------------------------------------ read-back checks */
#define VL_SL_CHK_NODE(c, p, OP)      do { } while (0)
#define VL_SL_CHK_END(self, p, OP)    do { } while (0)
#define VL_DL_CHK_NODE(c, p, OP)      __CPROVER_assert((c)->prev == (p), OP ": prev is the mirror of next")
#define VL_DL_CHK_END(self, p, OP)    __CPROVER_assert((self)->tail == (p), OP ": tail is last node")

/* representation invariant + read-back == ideal sequence m.  OP is a string literal that
 * prefixes every obligation description. */
#define VL_CHECK(self, IT, LINK, m, OP) do { \
        int vl_i; IT vl_c = (self)->head; IT vl_p = NULL; \
        __CPROVER_assert((self)->len == (m).len, OP ": len field equals ideal length"); \
        for (vl_i = 0; vl_i < VL_CAP && vl_i < (m).len; vl_i++) { \
            __CPROVER_assert(vl_c != NULL, OP ": chain has at least len nodes"); \
            if (vl_c == NULL) break; \
            __CPROVER_assert(vl_c->data == (m).e[vl_i], OP ": node i holds ideal element i"); \
            LINK ## _CHK_NODE(vl_c, vl_p, OP); \
            vl_p = vl_c; vl_c = vl_c->next; \
        } \
        if (vl_i == (m).len) { \
            __CPROVER_assert(vl_c == NULL, OP ": chain ends after len nodes (last->next == NULL)"); \
            LINK ## _CHK_END(self, vl_p, OP); \
        } \
        for (vl_i = 0; vl_i < VL_CAP && vl_i < (m).len; vl_i++) \
            if ((m).e[vl_i] != NULL) \
                __CPROVER_assert(((velem_t) (m).e[vl_i])->key == (m).key[vl_i], OP ": elements are alive and untouched"); \
    } while (0)

#ifdef VL_WITH_PAIRS
/* map read-back: node i holds a pair (key k[i], value v[i]); keys ascending by construction of m */
#define VL_CHECK_MAP(self, IT, LINK, m, OP) do { \
        int vl_i; IT vl_c = (self)->head; IT vl_p = NULL; \
        __CPROVER_assert((self)->len == (m).len, OP ": len field equals ideal size"); \
        for (vl_i = 0; vl_i < VL_CAP && vl_i < (m).len; vl_i++) { \
            spif_objpair_t vl_pr; \
            __CPROVER_assert(vl_c != NULL, OP ": chain has at least len nodes"); \
            if (vl_c == NULL) break; \
            vl_pr = (spif_objpair_t) vl_c->data; \
            __CPROVER_assert(vl_pr != NULL && vl_pr->key != NULL && vl_pr->value != NULL, OP ": node i holds a complete pair"); \
            if (vl_pr == NULL || vl_pr->key == NULL || vl_pr->value == NULL) break; \
            __CPROVER_assert(SPIF_OBJ_CLASS(vl_pr) == SPIF_CLASS_VAR(objpair), OP ": node i holds an objpair"); \
            __CPROVER_assert(((velem_t) vl_pr->key)->key == (m).k[vl_i], OP ": pair i has ideal key i (ascending)"); \
            __CPROVER_assert(((velem_t) vl_pr->value)->key == (m).v[vl_i], OP ": pair i has ideal value i (last set wins)"); \
            LINK ## _CHK_NODE(vl_c, vl_p, OP); \
            vl_p = vl_c; vl_c = vl_c->next; \
        } \
        if (vl_i == (m).len) { \
            __CPROVER_assert(vl_c == NULL, OP ": chain ends after len nodes (last->next == NULL)"); \
            LINK ## _CHK_END(self, vl_p, OP); \
        } \
    } while (0)

#define VL_BUILD_MAP(self, LT, IT, CLS, LINK, m, in) do { \
        int vl_i; int vl_n = (in).n; IT vl_last = NULL; \
        (self) = (LT) malloc(sizeof(*(self))); \
        ((spif_obj_t) (self))->cls = (spif_class_t) (CLS); \
        (self)->len = vl_n; (self)->head = NULL; LINK ## _INIT(self); \
        (m).len = vl_n; \
        for (vl_i = 0; vl_i < vl_n; vl_i++) { \
            IT vl_node = (IT) malloc(sizeof(*vl_node)); \
            vl_node->data = vl_data_map(&(m), &(in), vl_i); \
            vl_node->next = NULL; \
            LINK ## _NODE(self, vl_node, vl_last); \
            if (vl_last) vl_last->next = vl_node; else (self)->head = vl_node; \
            vl_last = vl_node; \
        } \
    } while (0)
#endif

/* read the chain back into r (a vl_seq_t), asserting the representation invariant on the way;
 * used where the property fixes the result only up to the order of equal elements (C04).
 * NONNULL: 1 = every node must hold an element (vectors, maps) */
#define VL_READ(self, IT, LINK, r, NONNULL, OP) do { \
        int vl_i; IT vl_c = (self)->head; IT vl_p = NULL; \
        __CPROVER_assert((self)->len >= 0 && (self)->len <= VL_CAP, OP ": len field within the expected range"); \
        (r).len = 0; \
        for (vl_i = 0; vl_i < VL_CAP && vl_c != NULL; vl_i++) { \
            (r).e[vl_i] = vl_c->data; \
            if (NONNULL) __CPROVER_assert(vl_c->data != NULL, OP ": every node holds an element (no NULL slot)"); \
            (r).key[vl_i] = (vl_c->data != NULL) ? ((velem_t) vl_c->data)->key : 0; \
            LINK ## _CHK_NODE(vl_c, vl_p, OP); \
            vl_p = vl_c; vl_c = vl_c->next; (r).len++; \
        } \
        __CPROVER_assert(vl_c == NULL && (r).len == (self)->len, OP ": chain length equals len field (last->next == NULL)"); \
        LINK ## _CHK_END(self, vl_p, OP); \
    } while (0)

static int vl_sorted(const vl_seq_t *r)
{
    int i;
    for (i = 0; i + 1 < r->len && i + 1 < VL_CAP; i++) if (r->key[i] > r->key[i + 1]) return 0;
    return 1;
}
static int vl_has_ptr(const vl_seq_t *r, spif_obj_t p)
{
    int i;
    for (i = 0; i < r->len && i < VL_CAP; i++) if (r->e[i] == p) return 1;
    return 0;
}
/* every element of a occurs in b (elements are pairwise distinct objects, so with |b| == |a| (+1) this is multiset equality) */
static int vl_subset(const vl_seq_t *a, const vl_seq_t *b)
{
    int i;
    for (i = 0; i < a->len && i < VL_CAP; i++) if (!vl_has_ptr(b, a->e[i])) return 0;
    return 1;
}

/* heap balance for the C06 units: cbmc has its own obligation (--memory-leak-check); the native replay (driver
 * runs it with leak detection off) compares the allocator's live byte count before and after the harness body */
#ifdef VERIF_NATIVE
# include <sanitizer/allocator_interface.h>
static size_t vl_heap_mark_;
# define VL_HEAP_MARK()  do { vl_heap_mark_ = __sanitizer_get_current_allocated_bytes(); } while (0)
# define VL_HEAP_CHECK() __CPROVER_assert(__sanitizer_get_current_allocated_bytes() == vl_heap_mark_, "memory-leak: the heap holds exactly what it held before")
#else
# define VL_HEAP_MARK()  do { } while (0)
# define VL_HEAP_CHECK() do { } while (0)
#endif

/* "p points to n readable bytes": a cbmc primitive; natively ASan judges the accesses themselves */
#ifdef VERIF_NATIVE
# define VL_R_OK(p, n) (1)
#else
# define VL_R_OK(p, n) __CPROVER_r_ok((p), (n))
#endif

#endif /* VERIF_LISTS_H */

/* ---- re-includable part: switch the dispatch level (see above) ---- */
#ifdef VL_SWITCH_ELEM
# undef VL_SWITCH_ELEM
# undef VL_COMP_IMPL
# undef VL_DUP_IMPL
# undef VL_DEL_IMPL
# define VL_COMP_IMPL vl_elem_comp
# define VL_DUP_IMPL  vl_elem_dup
# define VL_DEL_IMPL  vl_elem_del
#endif
#ifdef VL_SWITCH_OBJ
# undef VL_SWITCH_OBJ
# undef VL_COMP_IMPL
# undef VL_DUP_IMPL
# undef VL_DEL_IMPL
# define VL_COMP_IMPL vl_obj_comp
# define VL_DUP_IMPL  vl_obj_dup
# define VL_DEL_IMPL  vl_obj_del
#endif
