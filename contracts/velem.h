/* velem.h — the verification element class for container units (DESIGN.md §2.1).
 *
 * SPIF_OBJ_COMP/DUP/DEL dispatch through spif_func_t (an unprototyped function
 * pointer) which goto-instrument cannot resolve.  Container TUs include this
 * header AFTER the libast headers and BEFORE the container's .c file: the three
 * dispatch macros are re-bound to direct calls of the velem methods below.
 * Stated assumption: container code touches its elements only through these
 * three operations (true by inspection of array.c / linked_list.c /
 * dlinked_list.c), so a proof for velem elements holds for every element class
 * whose comp/dup/del meet the same specification:
 *   comp: total preorder on keys, NULL before every object, no side effects
 *   dup : fresh object equal to the original, original untouched
 *   del : frees exactly the object
 * Map units use velem for keys AND values; pairs are the real objpair class
 * (objpair.c is included in those TUs and its comp is called directly).
 */
#ifndef VERIF_VELEM_H
#define VERIF_VELEM_H

struct velem_struct {
    spif_const_obj_t parent;
    int key;
};
typedef struct velem_struct *velem_t;

spif_cmp_t velem_comp(velem_t a, velem_t b)
{
    if (a == NULL && b == NULL) return SPIF_CMP_EQUAL;
    if (a == NULL) return SPIF_CMP_LESS;
    if (b == NULL) return SPIF_CMP_GREATER;
    return (a->key < b->key) ? SPIF_CMP_LESS : ((a->key > b->key) ? SPIF_CMP_GREATER : SPIF_CMP_EQUAL);
}

velem_t velem_dup(velem_t a)
{
    velem_t r = (velem_t) malloc(sizeof(struct velem_struct));
    r->parent = a->parent;
    r->key = a->key;
    return r;
}

spif_bool_t velem_del(velem_t a)
{
    free(a);
    return TRUE;
}

#define VELEM_VALID(p)   (__CPROVER_is_fresh((p), sizeof(struct velem_struct)))
#define VELEM_OR_NULL(p) ((p) == NULL || VELEM_VALID(p))

#ifndef VELEM_NO_REBIND
# undef SPIF_OBJ_COMP
# undef SPIF_OBJ_DUP
# undef SPIF_OBJ_DEL
# define SPIF_OBJ_COMP(o1, o2) velem_comp((velem_t) (o1), (velem_t) (o2))
# define SPIF_OBJ_DUP(o)       ((spif_obj_t) velem_dup((velem_t) (o)))
# define SPIF_OBJ_DEL(o)       velem_del((velem_t) (o))
#endif

#endif
