/* env.h — verification environment shared by every unit TU.
 *
 * Everything in this file is about code OUTSIDE /repo (libc, the OS) or about
 * ghost state.  It is the trusted base; each stub is an over-approximation of
 * the documented behaviour unless marked ASSUMES (then the assumption is
 * listed in the evidence by the driver's scan for the word "ASSUMES").
 *
 * Included after <libast_internal.h> so that the libast types are known.
 */
#ifndef VERIF_ENV_H
#define VERIF_ENV_H

#include <stddef.h>
#include <stdint.h>
#include <limits.h>

/* ---- nondeterminism ---------------------------------------------------- */
int nondet_int(void);
unsigned nondet_uint(void);
long nondet_long(void);
unsigned long nondet_ulong(void);
size_t nondet_size_t(void);
char nondet_char(void);
unsigned char nondet_uchar(void);
_Bool nondet_bool(void);
void *nondet_ptr(void);
double nondet_double(void);

/* ---- caps ---------------------------------------------------------------
 * Sizes are symbolic up to VCAP.  The cap only keeps len+size sums inside the
 * machine types (absence of overflow below the cap is itself checked). */
#ifndef VCAP
# define VCAP 0x3fffffffL
#endif

/* ---- ghost variables ---------------------------------------------------- */
/* ghost index/indices picked by the harness: postconditions stated "for vg_k"
 * are universally quantified because vg_k is arbitrary. */
size_t vg_k, vg_k2;
/* ghost lengths of C-string / buffer arguments (picked by harness) */
size_t vg_n1, vg_n2, vg_n3;
/* ghost instantiation point for "no NUL before n" facts, and the loop-exit offset a
 * unit's annotation records (see DESIGN.md 2.2, manual quantifier instantiation) */
size_t vg_j, vg_exit;

/* anchor: identity re-basing of a pointer that walks inside one object.  The
 * identity is an obligation.  See DESIGN.md 2.1. */
#define VERIF_ANCHOR(p, base) do { \
    __CPROVER_assert(__CPROVER_same_object((p), (base)), "anchor: " #p " stays inside object of " #base); \
    (p) = (base) + __CPROVER_POINTER_OFFSET(p); } while (0)

/* remaining bytes in the object p points into */
#define VREMAIN(p) (__CPROVER_OBJECT_SIZE(p) - __CPROVER_POINTER_OFFSET(p))

/* a valid C string of exactly n characters in its own object of n+1 bytes */
#define VCSTR_FRESH(p, n) ((n) <= VCAP && __CPROVER_is_fresh((p), (n) + 1) && ((const char *)(p))[(n)] == 0)


/* ---- realloc ---------------------------------------------------------------
 * cbmc's own realloc model copies the whole block (array copy of symbolic
 * size); on arrays of structs that makes every query time out (probed: 16-byte
 * elements 50-200 s, 40-byte elements > 300 s on every back end).  Units that
 * define VERIF_REALLOC_ELEM_T use this model instead.  It is an
 * OVER-APPROXIMATION of realloc: the new block is fresh, has ARBITRARY contents,
 * except that the one element with ghost index vg_k (of the unit's element type)
 * is copied when it lies inside both blocks; the old block is freed.  The real
 * realloc preserves more, so a proof against this model holds for the real one;
 * because vg_k is arbitrary, "element vg_k preserved" is the universally
 * quantified statement. */
#ifdef VERIF_REALLOC_ELEM_T
void *realloc(void *p, size_t n)
{
    if (p == NULL) return malloc(n);
    __CPROVER_assert(__CPROVER_POINTER_OFFSET(p) == 0, "realloc: pointer is the start of a block");
    void *r = malloc(n);
    size_t m = __CPROVER_OBJECT_SIZE(p);
    if (n < m) m = n;
    if (vg_k < m / sizeof(VERIF_REALLOC_ELEM_T))
        ((VERIF_REALLOC_ELEM_T *) r)[vg_k] = ((VERIF_REALLOC_ELEM_T *) p)[vg_k];
    free(p);
    return r;
}
#endif

/* ---- libast message functions (bodies verified separately in C20) -------- */
#ifndef VERIF_REAL_MSGS
unsigned int libast_debug_level;
unsigned long libast_debug_flags;
spif_charptr_t libast_program_name = (spif_charptr_t) "verif";
spif_charptr_t libast_program_version = (spif_charptr_t) "0";
int libast_dprintf(const char *format, ...) { return nondet_int(); }
void libast_print_error(const char *fmt, ...) { }
void libast_print_warning(const char *fmt, ...) { }
/* fatal error ends the process: the path ends here */
void libast_fatal_error(const char *fmt, ...) { __CPROVER_assume(0); }
#endif

/* ---- stdio / time used by the debug macros -------------------------------- */
#ifndef VERIF_REAL_STDIO
int fprintf(FILE *f, const char *fmt, ...) { return nondet_int(); }
int printf(const char *fmt, ...) { return nondet_int(); }
int fflush(FILE *f) { return 0; }
/* ASSUMES: the clock is not before the epoch */
time_t time(time_t *t) { time_t r = nondet_long(); __CPROVER_assume(r >= 0); if (t) *t = r; return r; }
#endif

/* ---- <ctype.h>: pure total functions on unsigned char / EOF --------------- */
#undef isspace
#undef isdigit
#undef isalpha
#undef isalnum
#undef isupper
#undef islower
#undef iscntrl
#undef tolower
#undef toupper
int isspace(int c) { return c == ' ' || (c >= '\t' && c <= '\r'); }
int isdigit(int c) { return c >= '0' && c <= '9'; }
int isupper(int c) { return c >= 'A' && c <= 'Z'; }
int islower(int c) { return c >= 'a' && c <= 'z'; }
int isalpha(int c) { return isupper(c) || islower(c); }
int isalnum(int c) { return isalpha(c) || isdigit(c); }
int iscntrl(int c) { return (c >= 0 && c < 32) || c == 127; }
int tolower(int c) { return isupper(c) ? c + 32 : c; }
int toupper(int c) { return islower(c) ? c - 32 : c; }

/* ---- <string.h> ----------------------------------------------------------
 * strlen family: loop-free over-approximations.  ASSUMES: a pointer passed
 * to a libc string function points into an object that holds a NUL at or
 * after the pointer (C-string validity of the argument is assumed, not
 * checked); the value returned is SOME position of a NUL (not necessarily
 * the first: minimality is only given by the _strong variants used on SMT). */
#ifndef VERIF_OWN_STRLEN
size_t strlen(const char *s)
{
    __CPROVER_assert(s != NULL, "strlen: argument not NULL");
    __CPROVER_assert(__CPROVER_r_ok(s, 1), "strlen: argument readable");
    size_t r = nondet_size_t();
    __CPROVER_assume(r < VREMAIN(s));
    __CPROVER_assume(s[r] == 0);
#ifdef VERIF_STRLEN_MIN_AT_K
    /* harness-chosen ghost position below r holds a non-NUL byte */
    __CPROVER_assume(!(vg_k < r) || s[vg_k] != 0);
#endif
    return r;
}
size_t strnlen(const char *s, size_t maxlen)
{
    __CPROVER_assert(s != NULL || maxlen == 0, "strnlen: argument not NULL");
    size_t r = nondet_size_t();
    __CPROVER_assume(r <= maxlen);
    __CPROVER_assume(r <= VREMAIN(s));
    /* either stopped by maxlen or by a NUL that is inside the object */
    __CPROVER_assume(r == maxlen || (r < VREMAIN(s) && s[r] == 0));
    return r;
}
#endif


/* comparison family: ASSUMES both arguments are valid C strings (see strlen).
 * Result is an arbitrary int with the sign fixed by the first differing byte
 * when the unit defines VERIF_STRCMP_EXACT_AT_K (ghost position vg_k is the
 * first difference); otherwise any int (over-approximation, sound for safety). */
#ifndef VERIF_OWN_STRCMP
int strcmp(const char *a, const char *b)
{
    __CPROVER_assert(a != NULL && b != NULL, "strcmp: arguments not NULL");
    __CPROVER_assert(__CPROVER_r_ok(a, 1) && __CPROVER_r_ok(b, 1), "strcmp: arguments readable");
    return nondet_int();
}
int strncmp(const char *a, const char *b, size_t n)
{
    __CPROVER_assert(n == 0 || (a != NULL && b != NULL), "strncmp: arguments not NULL");
    __CPROVER_assert(n == 0 || (__CPROVER_r_ok(a, 1) && __CPROVER_r_ok(b, 1)), "strncmp: arguments readable");
    return nondet_int();
}
int strcasecmp(const char *a, const char *b)
{
    __CPROVER_assert(a != NULL && b != NULL, "strcasecmp: arguments not NULL");
    __CPROVER_assert(__CPROVER_r_ok(a, 1) && __CPROVER_r_ok(b, 1), "strcasecmp: arguments readable");
    return nondet_int();
}
int strncasecmp(const char *a, const char *b, size_t n)
{
    __CPROVER_assert(n == 0 || (a != NULL && b != NULL), "strncasecmp: arguments not NULL");
    __CPROVER_assert(n == 0 || (__CPROVER_r_ok(a, 1) && __CPROVER_r_ok(b, 1)), "strncasecmp: arguments readable");
    return nondet_int();
}
#endif

/* search family: result NULL or a pointer into the haystack at a position that
 * holds the byte (strchr/strrchr/index/rindex) resp. some position <= strlen
 * (strstr).  First/last-occurrence minimality is NOT modelled here. */
#ifndef VERIF_OWN_STRCHR
char *strchr(const char *s, int c)
{
    __CPROVER_assert(s != NULL, "strchr: argument not NULL");
    __CPROVER_assert(__CPROVER_r_ok(s, 1), "strchr: argument readable");
    size_t n = strlen(s);
    if (nondet_bool()) {
        __CPROVER_assume((char) c != 0);
        return (char *) 0;
    }
    size_t r = nondet_size_t();
    __CPROVER_assume(r <= n && s[r] == (char) c);
    return (char *) s + r;
}
char *strrchr(const char *s, int c)
{
    __CPROVER_assert(s != NULL, "strrchr: argument not NULL");
    __CPROVER_assert(__CPROVER_r_ok(s, 1), "strrchr: argument readable");
    size_t n = strlen(s);
    if (nondet_bool()) {
        __CPROVER_assume((char) c != 0);
        return (char *) 0;
    }
    size_t r = nondet_size_t();
    __CPROVER_assume(r <= n && s[r] == (char) c);
    return (char *) s + r;
}
char *index(const char *s, int c) { return strchr(s, c); }
char *rindex(const char *s, int c) { return strrchr(s, c); }
char *strstr(const char *h, const char *nd)
{
    __CPROVER_assert(h != NULL && nd != NULL, "strstr: arguments not NULL");
    __CPROVER_assert(__CPROVER_r_ok(h, 1) && __CPROVER_r_ok(nd, 1), "strstr: arguments readable");
    size_t n = strlen(h);
    if (nondet_bool()) return (char *) 0;
    size_t r = nondet_size_t();
    __CPROVER_assume(r <= n);
    return (char *) h + r;
}
#endif

#ifndef VERIF_OWN_STRDUP
char *strdup(const char *s)
{
    __CPROVER_assert(s != NULL, "strdup: argument not NULL");
    size_t n = strlen(s);
    char *r = malloc(n + 1);
    /* over-approximation: fresh block, arbitrary bytes, except terminator and ghost byte vg_k */
    r[n] = 0;
    if (vg_k < n) r[vg_k] = s[vg_k];
    return r;
}
#endif

/* numeric conversion: ASSUMES valid C string; value unconstrained */
#ifndef VERIF_OWN_STRTOL
unsigned long strtoul(const char *s, char **end, int base)
{
    __CPROVER_assert(s != NULL && __CPROVER_r_ok(s, 1), "strtoul: argument readable");
    if (end) { size_t n = strlen(s); size_t r = nondet_size_t(); __CPROVER_assume(r <= n); *end = (char *) s + r; }
    return nondet_ulong();
}
long strtol(const char *s, char **end, int base)
{
    __CPROVER_assert(s != NULL && __CPROVER_r_ok(s, 1), "strtol: argument readable");
    if (end) { size_t n = strlen(s); size_t r = nondet_size_t(); __CPROVER_assume(r <= n); *end = (char *) s + r; }
    return nondet_long();
}
double strtod(const char *s, char **end)
{
    __CPROVER_assert(s != NULL && __CPROVER_r_ok(s, 1), "strtod: argument readable");
    if (end) { size_t n = strlen(s); size_t r = nondet_size_t(); __CPROVER_assume(r <= n); *end = (char *) s + r; }
    return nondet_double();
}
#endif /* VERIF_OWN_STRTOL */

#endif /* VERIF_ENV_H */
