/* contracts/mbuff.h — spec macros for src/mbuff.c (C07; mbuff parts of C05, C06).
 *
 * The ideal byte sequence of the property statement is the pair (len, byte at
 * ghost index vg_k): every content clause is stated for the arbitrary ghost
 * index, i.e. universally, quantifier-free.  Entry-state bytes are read through
 * __CPROVER_old at a CLAMPED index (old() is evaluated unconditionally at entry,
 * so the index must be valid for every ghost value); the clause itself is guarded
 * by the real range test, so the clamp never changes its meaning.
 */
#ifndef VERIF_MBUFF_H
#define VERIF_MBUFF_H

/* ---- representation invariant -------------------------------------------
 * (NULL,0,0) is the legal empty state; otherwise 0 <= len <= size, 0 < size and
 * the allocation has (at least) size bytes.  No terminator, embedded NULs allowed.
 * VCAP only keeps len/size sums representable.  */
#define MBUFF_STATE_EMPTY(o)  ((o)->buff == NULL && (o)->len == 0 && (o)->size == 0)
#define MBUFF_STATE_PRE(o)  (MBUFF_STATE_EMPTY(o) || \
    (0 <= (o)->len && (o)->len <= (o)->size && 0 < (o)->size && (o)->size <= VCAP && \
     __CPROVER_is_fresh((o)->buff, (size_t) (o)->size)))
/* entry: the object itself is a separate allocation, its buffer another one */
#define MBUFF_INV(o)       (__CPROVER_is_fresh((o), sizeof(*(o))) && MBUFF_STATE_PRE(o))
/* same, buffer known to be allocated (the .nonempty behaviours) */
#define MBUFF_INV_NONEMPTY(o) (__CPROVER_is_fresh((o), sizeof(*(o))) && \
    0 <= (o)->len && (o)->len <= (o)->size && 0 < (o)->size && (o)->size <= VCAP && \
    __CPROVER_is_fresh((o)->buff, (size_t) (o)->size))
#define MBUFF_INV_EMPTY(o) (__CPROVER_is_fresh((o), sizeof(*(o))) && MBUFF_STATE_EMPTY(o))

/* exit: is_fresh in an ensures clause would mean "allocated by this call", which a mutator
 * need not do; the exit form says: start of a heap block with at least size bytes */
#define MBUFF_BLOCK_OK(p, n)  (__CPROVER_rw_ok((p), (size_t) (n)) && __CPROVER_POINTER_OFFSET(p) == 0 && \
                               __CPROVER_DYNAMIC_OBJECT(p))
#define MBUFF_POST_CAP(o, cap)  (MBUFF_STATE_EMPTY(o) || \
    (0 <= (o)->len && (o)->len <= (o)->size && 0 < (o)->size && (o)->size <= (cap) && \
     MBUFF_BLOCK_OK((o)->buff, (o)->size)))
#define MBUFF_POST(o)      MBUFF_POST_CAP(o, VCAP)

/* frame of a mutator: the three fields and the bytes of the buffer it owned on entry.
 * (ends in a conditional target group: further targets go into a separate __CPROVER_assigns clause) */
#define MBUFF_FRAME(o)     (o)->buff, (o)->len, (o)->size; (o)->buff != NULL: __CPROVER_object_whole((o)->buff)
/* frame of a constructor on raw storage */
#define MBUFF_FRAME_INIT(o) (o)->parent.cls, (o)->buff, (o)->len, (o)->size

/* clamped index for old(): k if k < n, else 0 */
#define VCLAMP(k, n)       ((size_t) (k) < (size_t) (n) ? (size_t) (k) : (size_t) 0)
#ifndef VMIN
# define VMIN(a, b)        ((a) < (b) ? (a) : (b))
#endif
#ifndef VMAX
# define VMAX(a, b)        ((a) > (b) ? (a) : (b))
#endif
#define VISSPACE(c)        ((c) == ' ' || ((c) >= '\t' && (c) <= '\r'))

/* nothing about the object changed (refused operation): fields equal, byte vg_k equal */
#define MBUFF_UNCHANGED_FIELDS(o) ((o)->buff == __CPROVER_old((o)->buff) && (o)->len == __CPROVER_old((o)->len) && \
                                   (o)->size == __CPROVER_old((o)->size))

/* index normalisation of splice/subbuff: negative positions count from the end */
#define MB_NORM_IDX(idx, len)  ((idx) < 0 ? (len) + (idx) : (idx))
#define MB_IDX_OK(idx, len)    (MB_NORM_IDX(idx, len) >= 0 && MB_NORM_IDX(idx, len) < (len))

/* ---- clause selection ------------------------------------------------------
 * cbmc reports every ensures clause of a function under the same description, so a
 * known-findings pattern cannot name one clause.  Where one behaviour of a function
 * has a clause that fails for a recorded defect, the clause is written ENS_KF(...)
 * (ENS_KF2 for a second, independent defect) and the behaviour is checked by two units:
 *   -DU_NOT_KF   every clause except the ENS_KF ones   (must be proved)
 *   -DU_ONLY_KF  only the ENS_KF clauses               (fails while the finding is open)
 * Units that define neither check all clauses together. */
#if defined(U_ONLY_KF)
# define ENS(c)
# define ENS_KF(c)   __CPROVER_ensures(c)
# define ENS_KF2(c)
#elif defined(U_ONLY_KF2)
# define ENS(c)
# define ENS_KF(c)
# define ENS_KF2(c)  __CPROVER_ensures(c)
#elif defined(U_NOT_KF)
# define ENS(c)      __CPROVER_ensures(c)
# define ENS_KF(c)
# define ENS_KF2(c)
#else
# define ENS(c)      __CPROVER_ensures(c)
# define ENS_KF(c)   __CPROVER_ensures(c)
# define ENS_KF2(c)  __CPROVER_ensures(c)
#endif

/* the object state with a zero-size block tolerated (used only beside an ENS_KF(MBUFF_POST) clause) */
#define MBUFF_POST_ZEROBLOCK(o) (0 <= (o)->len && (o)->len <= (o)->size && (o)->size <= VCAP && \
                                 ((o)->size == 0 || MBUFF_BLOCK_OK((o)->buff, (o)->size)))

/* ---- witness scalars for the native replay (units/C07/native/mbuff.c) ------------------------
 * The objects of a contract unit are allocated by the contract (is_fresh), so the harness cannot copy their
 * fields.  The w_* globals are arbitrary (DFCC havocs globals); an extra requires clause TIES them to the
 * pre-state (w_len == self->len ...).  This restricts nothing: for every pre-state there is exactly one value
 * of the ghosts.  The driver reads w_* from the counterexample and hands them to the native template. */
long w_len, w_size, w_olen, w_osize, w_idx, w_cnt, w_n, w_c;
#define MB_WIT_SELF(o)   ((o) == NULL || (w_len == (o)->len && w_size == (o)->size))
#define MB_WIT_OTHER(o)  ((o) == NULL || (w_olen == (o)->len && w_osize == (o)->size))

#endif
