/* vnative.h — native (clang + ASan/UBSan) rendering of the verification primitives, used when a
 * unit is replayed against the real code with the verifier's witness (driver: unit field
 * `native: self`).  Witness values arrive in the environment as W_<name>. */
#ifndef VNATIVE_H
#define VNATIVE_H
#include <stdio.h>
#include <stdlib.h>
#include <string.h>
static long long vn_get(const char *name, long long dflt)
{
    char key[256];
    const char *v;
    snprintf(key, sizeof(key), "W_%s", name);
    v = getenv(key);
    if (!v || !*v) return dflt;
    if (!strcmp(v, "TRUE")) return 1;
    if (!strcmp(v, "FALSE")) return 0;
    if (v[0] == '\'' && v[1]) return (long long) v[1];
    if (v[0] == '-') return strtoll(v, NULL, 0);
    return (long long) strtoull(v, NULL, 0);
}
#define __CPROVER_assert(c, msg) do { if (!(c)) { fprintf(stderr, "NATIVE-REPLAY: obligation fails on the real code: %s\n", msg); exit(3); } } while (0)
#define __CPROVER_assume(c)      do { if (!(c)) { fprintf(stderr, "NATIVE-REPLAY: witness outside the unit's input assumption\n"); exit(0); } } while (0)
#define VERIF_CANARY()           do { } while (0)
size_t vg_k, vg_k2, vg_j, vg_exit, vg_n1, vg_n2, vg_n3;
#endif
