/* env_array.h — element model for the array.c / objpair.c units (owner: array).
 *
 * Include order in a unit TU:
 *     #define VA_ELEM_T spif_obj_t       (slot type for the realloc/memmove/memset models below)
 *     #include "vprelude.h"
 *     #include "env_array.h"        (ghosts, element stubs, re-binding of SPIF_OBJ_COMP/DUP/DEL)
 *     #include "array.h"            (spec macros)
 *     #include "src/array.c"        (the real code, annotated scratch copy)
 *
 * WHY NOT PLAIN velem.  ARRAY_INV can say "items has exactly len slots", but "every slot is NULL
 * or a valid element object" is a quantified is_fresh, which cbmc cannot express, and a SAT run
 * ignores __CPROVER_forall.  Array functions that only move element pointers (append, prepend,
 * insert_at, remove_at, get, reverse, to_array, iterator) never dereference an element, so for
 * them elements are opaque pointer values and nothing more is needed.  The functions that DO use
 * elements (through SPIF_OBJ_COMP / _DUP / _DEL only — true by inspection of array.c) loop over
 * every slot, so under a loop contract the body runs once for an arbitrary slot i; a real
 * velem_comp would dereference items[i] for which no validity fact can be stated.
 *
 * THE MODEL (ghost-slot abstraction; an OVER-APPROXIMATION of every element class that meets the
 * velem.h specification).  The three dispatch macros are re-bound to the stubs below:
 *
 *   SPIF_OBJ_COMP(a, b) -> va_comp(a, b): asserts a != NULL (the real macro dereferences the
 *       receiver to find its class), returns GREATER for b == NULL (documented NULL ordering,
 *       SPIF_OBJ_COMP_CHECK_NULL in every class), and otherwise does NOT dereference:
 *       - pair model (default, list units): the result is an arbitrary value in {LESS, EQUAL,
 *         GREATER} on every call, except that on the ghost pairs (vg_ca,vg_cb) / (vg_ca2,vg_cb2)
 *         it is the fixed ghost value vg_cr / vg_cr2.  Any deterministic side-effect-free comp c
 *         is one resolution of this nondeterminism (take vg_cr = c(vg_ca,vg_cb)), so every real
 *         execution is covered; no order law is assumed.  Postconditions speak about the ghost
 *         pair (typically (old items[vg_k], probe)); since vg_k is arbitrary they are the
 *         universally quantified statements.
 *       - key model (VA_COMP_KEY, vector and map units, comp lemma units): comp is the
 *         three-way comparison of integer keys (a total preorder — the velem.h specification);
 *         key(p) is the fixed ghost value vg_key1..4 on the ghost pointers vg_e1..4 and an
 *         arbitrary int on every other pointer, per call.  Again every real key function is one
 *         resolution.  Sortedness, "adds exactly x" etc. are stated on the ghost pointers.
 *       Stated assumption: an element's comparison result does not change during one container
 *       call (array.c never writes to an element).
 *
 *   SPIF_OBJ_DUP(o) / SPIF_OBJ_DEL(o) -> va_dup / va_del: index-dispatched.  Loops that call
 *       them record the running slot index in vg_cur (annotation, ghost assignment).  For the
 *       ghost slot (vg_cur == vg_k) the operation acts on the real object is_fresh'ed by the
 *       precondition for that slot (dup: copy into a fresh block; del: checked and counted, see
 *       va_del); for every other slot it is the over-approximation "dup returns some pointer, del
 *       does nothing".  In the run
 *       with vg_k = k slot k is concrete, and vg_k is arbitrary, so each slot's memory safety,
 *       "freed exactly once", "copy is fresh and equal" are all covered; what is NOT covered is
 *       interference between two different slots holding the SAME element object (double free
 *       through aliasing), which ARRAY element ownership excludes:
 *       ASSUMES: distinct slots of one container hold distinct element objects (a container owns
 *       its elements; putting one object into a list twice is a caller error).
 *
 *       (In the vector / map units, which define VA_SLOTS_NONNULL, the receiver check of va_comp
 *       is replaced by the documented ASSUMES "no slot is NULL", see va_comp.)
 *
 * Map units (pairs are real objpairs, keys/values velems): see velem_map.h.
 *
 * cbmc facts these units depend on (learned the hard way):
 *   - a ghost pointer tied by == in requires may be COMPARED but not DEREFERENCED (cbmc's
 *     value-set dereferencing only knows pointers it saw being assigned): read elements through
 *     the slot / global that is_fresh assigned (self->items[vg_k], vg_dup_obj, vg_newpair);
 *   - is_fresh ASSIGNS the pointer: put it before every clause that ties a ghost to that pointer;
 *   - DFCC loop contracts: no malloc/free inside the loop (loop write sets forbid both), the
 *     body is executed once before the havoc, a pointer assigned in the loop loses its validity;
 *   - a callee that carries loop contracts must be used through its contract (`replace:`):
 *     goto-instrument 6.11 can crash when it has to inline it (goto_inline_class.cpp:104).
 */
#ifndef VERIF_ENV_ARRAY_H
#define VERIF_ENV_ARRAY_H

#define VELEM_NO_REBIND
#include "velem.h"

/* ---- ghosts -------------------------------------------------------------- */
/* entry-state snapshots of items[vg_k], items[vg_k2] (tied by SNAP_ITEM in requires: cbmc's
 * __CPROVER_old cannot hold a conditional, and items[vg_k] is only readable for vg_k < len) */
spif_obj_t vg_old_k, vg_old_k2;
/* entry-state snapshot of the slot an index ARGUMENT designates */
spif_obj_t vg_old_x;
/* witness scalar for the native replay: the length of the container under test (tied by ARRAY_VALID_W) */
long w_len;
/* slot index of the loop iteration in progress (annotation: vg_cur = i at body top) */
size_t vg_cur;
/* map units (velem_map.h phase 2; declared here because the shared annotation table names them) */
struct spif_objpair_t_struct vm_scratch;
size_t vg_app_cnt;
spif_obj_t vg_app_k;
spif_objpair_t vg_dup_pair;          /* fresh pair (with fresh key / value blocks) that the dup of the ghost pair returns */
/* pair model */
spif_obj_t vg_ca, vg_cb, vg_ca2, vg_cb2;
spif_cmp_t vg_cr, vg_cr2;
/* the element most recently used as receiver of a comparison (binary searches hand back the slot
 * they compared last; recorded only in units that define VA_RECORD_LAST) */
spif_obj_t vg_last_a;
/* key model */
spif_obj_t vg_e1, vg_e2, vg_e3, vg_e4;
int vg_key1, vg_key2, vg_key3, vg_key4;

#define VA_CMP_OK(c) ((c) == SPIF_CMP_LESS || (c) == SPIF_CMP_EQUAL || (c) == SPIF_CMP_GREATER)
#define VA_CMP3(x, y) (((x) < (y)) ? SPIF_CMP_LESS : (((x) > (y)) ? SPIF_CMP_GREATER : SPIF_CMP_EQUAL))

#ifdef VA_COMP_KEY
/* consistency of the ghost key table: equal pointers have equal keys (harness/requires) */
#define VA_KEYS_CONSISTENT \
    ((vg_e1 != vg_e2 || vg_key1 == vg_key2) && (vg_e1 != vg_e3 || vg_key1 == vg_key3) && (vg_e1 != vg_e4 || vg_key1 == vg_key4) && \
     (vg_e2 != vg_e3 || vg_key2 == vg_key3) && (vg_e2 != vg_e4 || vg_key2 == vg_key4) && (vg_e3 != vg_e4 || vg_key3 == vg_key4))
static int va_key(spif_obj_t p)
{
    if (p == vg_e1) return vg_key1;
    if (p == vg_e2) return vg_key2;
    if (p == vg_e3) return vg_key3;
    if (p == vg_e4) return vg_key4;
    return nondet_int();
}
static spif_cmp_t va_comp(spif_obj_t a, spif_obj_t b)
{
#ifdef VA_SLOTS_NONNULL
    /* ASSUMES (vector and map units): no slot of a vector / map is NULL.  This half of VEC_INV /
     * MAP_INV is a quantified fact that cannot be written as a precondition; it is instantiated
     * here, where a slot is used as receiver.  Its preservation is proved for the ghost slot by
     * the insert / set / remove units. */
    __CPROVER_assume(a != NULL);
#else
    __CPROVER_assert(a != NULL, "SPIF_OBJ_COMP: receiver is not NULL (dispatch dereferences it)");
#endif
#ifdef VA_RECORD_LAST
    vg_last_a = a;
#endif
    if (b == NULL) return SPIF_CMP_GREATER;
    if (a == b) return SPIF_CMP_EQUAL;             /* one object, one key */
    int ka = va_key(a), kb = va_key(b);
    return VA_CMP3(ka, kb);
}
#else
static spif_cmp_t va_comp(spif_obj_t a, spif_obj_t b)
{
    __CPROVER_assert(a != NULL, "SPIF_OBJ_COMP: receiver is not NULL (dispatch dereferences it)");
    if (b == NULL) return SPIF_CMP_GREATER;
    if (a == vg_ca && b == vg_cb && VA_CMP_OK(vg_cr)) return vg_cr;
    if (a == vg_ca2 && b == vg_cb2 && VA_CMP_OK(vg_cr2)) return vg_cr2;
    int r = nondet_int();
    return VA_CMP3(r, 0);
}
#endif

/* ---- memmove / memset on slot arrays ---------------------------------------
 * cbmc's models copy / fill a byte range of SYMBOLIC length; on arrays of 8-byte pointers no
 * back end finishes (probed on remove_at: z3, cvc5 > 300 s, minisat out of memory).  Like env.h's
 * realloc these are OVER-APPROXIMATIONS of the libc functions for arrays of VA_ELEM_T:
 * argument validity is asserted (readable source, writable destination, element alignment), then
 * the WHOLE destination object gets arbitrary contents, except for the slots that the ghost index
 * vg_k designates:
 *   (a) the element at source slot vg_k, if it is inside the moved range, arrives at its new slot;
 *   (b) destination slot vg_k, if inside the range, receives the element the real call puts there;
 *   (c) destination slot vg_k, if outside the range, keeps its value.
 * memmove additionally asserts that source and destination lie in the same object (all uses in
 * array.c shift slots inside self->items).
 * The real functions preserve/establish that for every slot; vg_k is arbitrary, so postconditions
 * stated through vg_k are the universally quantified ones. */
#ifdef VA_ELEM_T
/* realloc: env.h's single-ghost-element model (selected there by VERIF_REALLOC_ELEM_T, which the
 * array units do NOT define) keeps slot vg_k only.  The vector/map units reason about up to three
 * ghost slots at once (vg_k, vg_k2 and the instantiation point vg_j), so this variant keeps those
 * three; otherwise it is the same OVER-APPROXIMATION: fresh block, arbitrary contents, old block
 * freed.  The new block is allocated as an array of slots (not bytes), which is also cheaper. */
void *realloc(void *p, size_t n)
{
    typedef VA_ELEM_T va_T;
    if (p == NULL) return malloc(sizeof(va_T) * (n / sizeof(va_T)));
    __CPROVER_assert(__CPROVER_POINTER_OFFSET(p) == 0, "realloc: pointer is the start of a block");
    va_T *r = malloc(sizeof(va_T) * (n / sizeof(va_T)));
    size_t m = __CPROVER_OBJECT_SIZE(p);
    if (n < m) m = n;
    m = m / sizeof(va_T);
    if (vg_k < m) r[vg_k] = ((va_T *) p)[vg_k];
#ifdef VA_REALLOC_3      /* vector / map units only: every extra slot makes the query dearer */
    if (vg_k2 < m) r[vg_k2] = ((va_T *) p)[vg_k2];
    if (vg_j < m) r[vg_j] = ((va_T *) p)[vg_j];
#endif
    free(p);
    return r;
}
void *memmove(void *dst, const void *src, size_t n)
{
    typedef VA_ELEM_T va_T;
    if (n == 0) return dst;
    __CPROVER_assert(__CPROVER_r_ok(src, n), "memmove: source readable");
    __CPROVER_assert(__CPROVER_w_ok(dst, n), "memmove: destination writable");
    __CPROVER_assert(__CPROVER_same_object(src, dst), "memmove model: source and destination in one slot array");
    __CPROVER_assert(n % sizeof(va_T) == 0 && __CPROVER_POINTER_OFFSET(src) % sizeof(va_T) == 0 &&
                     __CPROVER_POINTER_OFFSET(dst) % sizeof(va_T) == 0, "memmove: whole aligned slots");
    /* a call that failed one of the checks above has undefined behaviour: the path ends here
     * (the failed assertion is the finding; this only avoids a cascade of secondary failures) */
    __CPROVER_assume(__CPROVER_r_ok(src, n) && __CPROVER_w_ok(dst, n) && __CPROVER_same_object(src, dst) &&
                     n % sizeof(va_T) == 0 && __CPROVER_POINTER_OFFSET(src) % sizeof(va_T) == 0 &&
                     __CPROVER_POINTER_OFFSET(dst) % sizeof(va_T) == 0);
    size_t so = __CPROVER_POINTER_OFFSET(src) / sizeof(va_T), d_o = __CPROVER_POINTER_OFFSET(dst) / sizeof(va_T);
    size_t ne = n / sizeof(va_T), dn = __CPROVER_OBJECT_SIZE(dst) / sizeof(va_T);
    va_T *db = (va_T *) dst - d_o;                       /* slot 0 of the array */
    _Bool a_in = (vg_k >= so && vg_k < so + ne);         /* (a) source slot vg_k moves      */
    _Bool b_in = (vg_k >= d_o && vg_k < d_o + ne);       /* (b) destination slot vg_k is hit */
    _Bool c_in = (!b_in && vg_k < dn);                   /* (c) destination slot vg_k stays  */
    va_T k_val, b_val;
    if (a_in || c_in) k_val = db[vg_k];
    if (b_in) b_val = db[vg_k - d_o + so];
    __CPROVER_havoc_object(db);
    if (a_in) db[vg_k - so + d_o] = k_val;
    if (b_in) db[vg_k] = b_val; else if (c_in) db[vg_k] = k_val;
    return dst;
}
void *memset(void *dst, int c, size_t n)
{
    typedef VA_ELEM_T va_T;
    if (n == 0) return dst;
    __CPROVER_assert(__CPROVER_w_ok(dst, n), "memset: destination writable");
    __CPROVER_assert(n % sizeof(va_T) == 0 && __CPROVER_POINTER_OFFSET(dst) % sizeof(va_T) == 0, "memset: whole aligned slots");
    __CPROVER_assume(__CPROVER_w_ok(dst, n) && n % sizeof(va_T) == 0 && __CPROVER_POINTER_OFFSET(dst) % sizeof(va_T) == 0);
    size_t d_o = __CPROVER_POINTER_OFFSET(dst) / sizeof(va_T);
    size_t ne = n / sizeof(va_T), dn = __CPROVER_OBJECT_SIZE(dst) / sizeof(va_T);
    va_T *db = (va_T *) dst - d_o;
    va_T c_val, z_val;
    _Bool b_in = (vg_k >= d_o && vg_k < d_o + ne);
    _Bool c_in = (!b_in && vg_k < dn);
    if (c_in) c_val = db[vg_k];
    __CPROVER_havoc_object(db);
    if (b_in && c == 0) db[vg_k] = (va_T) 0;
    if (c_in) db[vg_k] = c_val;
    return dst;
}
#endif

/* ---- dup / del: index-dispatched (see header comment) ------------------------
 * vg_dup_cnt / vg_del_cnt count the REAL operations performed on the ghost slot's element, so
 * "duplicated / deleted exactly once" can be carried through a loop invariant. */
int vg_dup_cnt, vg_del_cnt;
/* The object that the dup of the ghost element returns.  It is handed in by the unit's
 * precondition as a fresh velem-sized block (is_fresh): "dup returns fresh memory" is modelled
 * by a block that is separate from everything else from the start instead of by a malloc inside
 * the loop (a pointer assigned inside a loop is havocked by the loop contract and cbmc cannot
 * carry its validity through the invariant).  Same observable behaviour as velem_dup. */
velem_t vg_dup_obj;
static spif_obj_t va_dup(spif_obj_t o)
{
    if (vg_cur == vg_k) {
        __CPROVER_assert(o != NULL, "SPIF_OBJ_DUP: receiver is not NULL (dispatch dereferences it)");
        __CPROVER_assume(o != NULL);
        vg_dup_obj->parent = ((velem_t) o)->parent;
        vg_dup_obj->key = ((velem_t) o)->key;
        vg_dup_cnt++;
        return (spif_obj_t) vg_dup_obj;
    }
    /* any other slot: some element pointer (never dereferenced in this run) */
    spif_obj_t r = nondet_ptr();
    return r;
}
/* del inside a loop is COUNTED, not executed: cbmc 6.11 loop contracts have no frees clause, the
 * deallocation status of an object is not part of the havocked loop state, and DFCC runs the
 * loop body once before the havoc, so a real free() in a contracted loop yields spurious
 * "double free" / "not freeable" failures.  The count carries "deleted exactly once" through the
 * invariant; that the element is a live object when it is deleted is asserted here. */
static spif_bool_t va_del(spif_obj_t o)
{
    if (vg_cur == vg_k) {
        __CPROVER_assert(o != NULL, "SPIF_OBJ_DEL: receiver is not NULL (dispatch dereferences it)");
        __CPROVER_assume(o != NULL);
        __CPROVER_assert(__CPROVER_rw_ok((velem_t) o, sizeof(struct velem_struct)), "SPIF_OBJ_DEL: element is a live object");
        vg_del_cnt++;
    }
    return TRUE;
}

#ifndef VA_NO_REBIND
# undef SPIF_OBJ_COMP
# undef SPIF_OBJ_DUP
# undef SPIF_OBJ_DEL
# define SPIF_OBJ_COMP(o1, o2) va_comp((spif_obj_t) (o1), (spif_obj_t) (o2))
# define SPIF_OBJ_DUP(o)       va_dup((spif_obj_t) (o))
# define SPIF_OBJ_DEL(o)       va_del((spif_obj_t) (o))
#endif

#endif
