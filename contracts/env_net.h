/* env_net.h — verification environment for url.c / socket.c (owner: net; C14, C19).
 *
 * Included AFTER vprelude.h.  Units that include it define VERIF_OWN_STRCHR before
 * vprelude.h: this file supplies strchr/strrchr/index/rindex/strstr itself.
 *
 * Everything here is about code OUTSIDE /repo (libc, the name-service switch, the
 * kernel) or about ghost state.  Every stub returns every outcome its man page allows;
 * what is assumed beyond that carries the word ASSUMES and is listed in the evidence.
 *
 * Sections:  1 text-extent ghost + exact search functions   2 snprintf
 *            3 getprotobyname / getservbyname / gethostby*   4 kernel model (descriptors,
 *            socket calls, read/write with ghost byte accounting)
 */
#ifndef VERIF_ENV_NET_H
#define VERIF_ENV_NET_H

#include <netdb.h>
#include <sys/socket.h>
#include <sys/select.h>
#include <sys/un.h>
#include <netinet/in.h>
#include <arpa/inet.h>
#include <fcntl.h>
#include <unistd.h>
#include <stdarg.h>

/* ======================================================================================
 * 1. Text-extent ghosts and exact search functions
 *
 * env.h's strlen/strchr return SOME NUL / SOME occurrence (possibly behind the first NUL,
 * in the capacity slack of a str object).  That over-approximation makes a scanner such as
 * spif_url_parse look as if it wandered into the slack.  Here the extent of "the text the
 * function works on" is a ghost pair chosen by the unit's contract:
 *
 *      vg_txt      start of the text (the str object's s)
 *      vg_txt_len  index of its FIRST NUL            ASSUMES: that is what the unit's
 *                  precondition says (vg_txt[vg_txt_len]==0 is required; "no NUL before"
 *                  is the meaning of the ghost, it is never needed by the solver because
 *                  the models below do not consult the bytes in between).
 *
 * strchr(p, c) for p inside that text: obligation "p lies inside [vg_txt, vg_txt+len]";
 * result NULL (c != 0) or ANY position r in [p, len] with text[r]==c.  The real function
 * returns the first such r: the model is a superset, and never leaves the text.
 * A second extent (vg_buf, vg_buf_len) is set by the snprintf model for its output buffer.
 * For pointers into other objects the env.h behaviour (some NUL, some occurrence) is kept.
 * ====================================================================================== */
const char *vg_txt;
size_t vg_txt_len;
char *vg_buf;
size_t vg_buf_len;

#define VG_IN_TXT(p) (__CPROVER_same_object((p), vg_txt) && __CPROVER_POINTER_OFFSET(p) <= vg_txt_len)
#define VG_IN_BUF(p) (__CPROVER_same_object((p), vg_buf) && __CPROVER_POINTER_OFFSET(p) <= vg_buf_len)

/* Sufficient, quantifier-free condition for "p is a NUL-terminated C string" and its exact length:
 *   p lies inside one of the two ghost extents                -> length = extent end - offset
 *   otherwise p is a SHORT string: a NUL among its first 10 bytes (the literals "", "//", "tcp",
 *   "localhost" ... that url.c / socket.c pass)               -> length = index of the first NUL
 * (A byte-indexed-by-object-size formulation "the object ends in NUL" was tried first: one such
 * clause made the SAT instance 20x larger.) */
#define VCSTR_B(p, i) (((const char *) (p))[(i)])
#define VCSTR_SHORT(p) (__CPROVER_r_ok((p), 1) && (VCSTR_B(p, 0) == 0 || (__CPROVER_r_ok((p), 2) && (VCSTR_B(p, 1) == 0 || \
    (__CPROVER_r_ok((p), 3) && (VCSTR_B(p, 2) == 0 || (__CPROVER_r_ok((p), 4) && (VCSTR_B(p, 3) == 0 || \
    (__CPROVER_r_ok((p), 5) && (VCSTR_B(p, 4) == 0 || (__CPROVER_r_ok((p), 6) && (VCSTR_B(p, 5) == 0 || \
    (__CPROVER_r_ok((p), 7) && (VCSTR_B(p, 6) == 0 || (__CPROVER_r_ok((p), 8) && (VCSTR_B(p, 7) == 0 || \
    (__CPROVER_r_ok((p), 9) && (VCSTR_B(p, 8) == 0 || (__CPROVER_r_ok((p), 10) && VCSTR_B(p, 9) == 0)))))))))))))))))))
#define VCSTR_SHORT_LEN(p) (VCSTR_B(p, 0) == 0 ? 0 : VCSTR_B(p, 1) == 0 ? 1 : VCSTR_B(p, 2) == 0 ? 2 : VCSTR_B(p, 3) == 0 ? 3 : \
    VCSTR_B(p, 4) == 0 ? 4 : VCSTR_B(p, 5) == 0 ? 5 : VCSTR_B(p, 6) == 0 ? 6 : VCSTR_B(p, 7) == 0 ? 7 : VCSTR_B(p, 8) == 0 ? 8 : 9)
/* Which renderings a unit needs is chosen per unit (each extra disjunct is paid for in every
 * clause that mentions it; with all three, spif_url_parse went past 10 GB):
 *   default             pointers into the ghost text or the snprintf buffer (url.c parse, socket.c)
 *   NET_CSTR_LITERALS   short strings / literals only (spif_url_unparse and friends) */
#ifdef NET_CSTR_LITERALS
# define VCSTR_OK(p) ((p) != NULL && VCSTR_SHORT(p))
# define VCSTR_LEN_IS(p, r) ((size_t) (r) == (size_t) VCSTR_SHORT_LEN(p))
#else
/* (bytes are read through p, never through the ghost pointer: a ghost pointer that was only constrained
 * by an assumption has no points-to information in cbmc and reads through it return arbitrary values) */
# define VCSTR_OK(p) ((VG_IN_TXT(p) && VCSTR_B(p, vg_txt_len - __CPROVER_POINTER_OFFSET(p)) == 0) || \
                      (VG_IN_BUF(p) && VCSTR_B(p, vg_buf_len - __CPROVER_POINTER_OFFSET(p)) == 0))
# define VCSTR_LEN_IS(p, r) (VG_IN_TXT(p) ? (size_t) (r) == vg_txt_len - __CPROVER_POINTER_OFFSET(p) : \
                                           (size_t) (r) == vg_buf_len - __CPROVER_POINTER_OFFSET(p))
#endif

/* bounded units bring their own loop-based libc functions and define NET_EXACT_LIBC */
#if defined(VERIF_OWN_STRCHR) && !defined(NET_EXACT_LIBC) && !defined(VERIF_NATIVE)
static char *vg_search(const char *s, int c)
{
    if (nondet_bool()) {
        __CPROVER_assume((char) c != 0);
        return (char *) 0;
    }
    size_t r = nondet_size_t();
#ifndef VERIF_STRCHR_TEXT_ONLY
    if (!VG_IN_TXT(s)) {
        size_t n = strlen(s);
        __CPROVER_assume(r <= n && s[r] == (char) c);
        return (char *) s + r;
    }
#endif
    /* r = offset in the text object; bytes are read through s (see VCSTR_OK) */
    __CPROVER_assume(__CPROVER_POINTER_OFFSET(s) <= r && r <= vg_txt_len && s[r - __CPROVER_POINTER_OFFSET(s)] == (char) c);
    return (char *) s + (r - __CPROVER_POINTER_OFFSET(s));
}
/* units whose function searches nothing but the ghost text define VERIF_STRCHR_TEXT_ONLY: then
 * "argument lies inside the text" is an obligation for every call and there is no other case */
#ifdef VERIF_STRCHR_TEXT_ONLY
# define VG_SEARCH_ARG_OK(s) (VG_IN_TXT(s))
#else
# define VG_SEARCH_ARG_OK(s) (!__CPROVER_same_object((s), vg_txt) || __CPROVER_POINTER_OFFSET(s) <= vg_txt_len)
#endif
char *strchr(const char *s, int c)
{
    __CPROVER_assert(s != NULL, "strchr: argument not NULL");
    __CPROVER_assert(__CPROVER_r_ok(s, 1), "strchr: argument readable");
    __CPROVER_assert(VG_SEARCH_ARG_OK(s), "strchr: argument lies inside the NUL-terminated text (not in the slack behind it)");
    return vg_search(s, c);
}
char *strrchr(const char *s, int c)
{
    __CPROVER_assert(s != NULL, "strrchr: argument not NULL");
    __CPROVER_assert(__CPROVER_r_ok(s, 1), "strrchr: argument readable");
    __CPROVER_assert(VG_SEARCH_ARG_OK(s), "strrchr: argument lies inside the NUL-terminated text (not in the slack behind it)");
    return vg_search(s, c);
}
char *index(const char *s, int c) { return strchr(s, c); }
char *rindex(const char *s, int c) { return strrchr(s, c); }
char *strstr(const char *h, const char *nd)
{
    __CPROVER_assert(h != NULL && nd != NULL, "strstr: arguments not NULL");
    __CPROVER_assert(__CPROVER_r_ok(h, 1) && __CPROVER_r_ok(nd, 1), "strstr: arguments readable");
    size_t n = strlen(h);
    if (nondet_bool()) return (char *) 0;
    size_t r = nondet_size_t();
    __CPROVER_assume(r <= n);
    return (char *) h + r;
}
#endif

/* ======================================================================================
 * 2. snprintf: writes at most `size` bytes, output NUL-terminated when size > 0 (C99);
 * the text itself is arbitrary (format semantics are not modelled).  Records the output
 * extent in (vg_buf, vg_buf_len).  Returns the would-be length (any non-negative int) or
 * a negative value (encoding error).
 * DFCC appends its write-set parameter to every function; on a variadic callee that parameter
 * collides with the variable arguments (seen: every write of a variadic snprintf stub failed its
 * assigns check with a garbage write set).  Therefore `snprintf` is re-bound, in units that
 * include this header, to the fixed-arity model vg_snprintf; the macro still EVALUATES the
 * variable arguments (comma expression), so a bad dereference inside them is still an
 * obligation of the calling function.  Stated deviation (macro re-binding, as for the
 * SPIF_OBJ_* dispatch macros); the text of /repo's .c files is unchanged.
 * Units needing an exact "%d" define VERIF_OWN_SNPRINTF and supply vg_snprintf themselves.
 * ====================================================================================== */
#ifdef VERIF_NATIVE
/* native replay: the real snprintf */
#elif !defined(VERIF_OWN_SNPRINTF)
int vg_snprintf(char *buf, size_t size, const char *fmt, long first_arg)
{
    __CPROVER_assert(fmt != NULL, "snprintf: format not NULL");
    __CPROVER_assert(size == 0 || __CPROVER_w_ok(buf, size), "snprintf: buffer writable for size bytes");
    if (size > 0) {
        size_t k = nondet_size_t();
        __CPROVER_assume(k < size);
        __CPROVER_havoc_slice(buf, size);
        buf[k] = 0;
        vg_buf = buf - __CPROVER_POINTER_OFFSET(buf);
        vg_buf_len = __CPROVER_POINTER_OFFSET(buf) + k;
    }
    return nondet_int();
}
#else
int vg_snprintf(char *buf, size_t size, const char *fmt, long first_arg);
#endif
#ifndef VERIF_NATIVE
#undef snprintf
#define snprintf(buf, size, ...) vg_snprintf((char *) (buf), (size), VG_SNPRINTF_ARGS(__VA_ARGS__, 0, 0))
/* first variable argument (0 when there is none) is handed to the model, the others are evaluated */
#define VG_SNPRINTF_ARGS(fmt, first, ...) (fmt), ((void) (__VA_ARGS__), (long) (first))
#endif

/* ======================================================================================
 * 3. Name-service lookups.  Each call returns NULL or a pointer to a static record whose
 * string members are valid C strings (getprotobyname(3), getservbyname(3): "the return
 * value may point to static data").  Which outcome occurs is nondeterministic per call,
 * so every combination (protocol found / service found via tcp / via udp / protocol of the
 * service not found / nothing found) is explored.  Ghost call counters let a contract say
 * "no lookup was made".
 * ASSUMES: s_port holds a 16-bit value in network byte order (0..65535), as documented.
 * ====================================================================================== */
size_t vg_getproto_calls, vg_getserv_calls;
static struct protoent vg_protoent;
static struct servent vg_servent;
static char vg_protoent_name[8], vg_servent_name[8], vg_servent_proto[8];
static char *vg_no_aliases[1];

#define VG_LOOKUP_ASSIGNS vg_getproto_calls, vg_getserv_calls, \
    __CPROVER_object_whole(&vg_protoent), __CPROVER_object_whole(&vg_servent), \
    __CPROVER_object_whole(vg_protoent_name), __CPROVER_object_whole(vg_servent_name), \
    __CPROVER_object_whole(vg_servent_proto), __CPROVER_object_whole(vg_no_aliases)

#if !defined(VERIF_OWN_LOOKUPS) && !defined(VERIF_NATIVE)
struct protoent *getprotobyname(const char *name)
{
    __CPROVER_assert(name != NULL && __CPROVER_r_ok(name, 1), "getprotobyname: name is a readable string");
    vg_getproto_calls++;
    if (nondet_bool()) return (struct protoent *) 0;
    vg_protoent_name[7] = 0;
    vg_no_aliases[0] = (char *) 0;
    vg_protoent.p_name = vg_protoent_name;
    vg_protoent.p_aliases = vg_no_aliases;
    vg_protoent.p_proto = nondet_int();
    return &vg_protoent;
}
struct servent *getservbyname(const char *name, const char *proto)
{
    __CPROVER_assert(name != NULL && __CPROVER_r_ok(name, 1), "getservbyname: name is a readable string");
    __CPROVER_assert(proto == NULL || __CPROVER_r_ok(proto, 1), "getservbyname: proto is NULL or a readable string");
    vg_getserv_calls++;
    if (nondet_bool()) return (struct servent *) 0;
    vg_servent_name[7] = 0;
    vg_servent_proto[7] = 0;
    vg_no_aliases[0] = (char *) 0;
    vg_servent.s_name = vg_servent_name;
    vg_servent.s_aliases = vg_no_aliases;
    vg_servent.s_proto = vg_servent_proto;
    int port = nondet_int();
    __CPROVER_assume(port >= 0 && port <= 65535);
    vg_servent.s_port = port;
    return &vg_servent;
}
#endif


/* ======================================================================================
 * 4. Kernel model for socket.c / str.c readers (C19).  Units that want it define NET_KERNEL.
 *
 * The kernel is NOT exercised: every call below is a stub that returns every outcome its
 * man page allows (success, short counts, -1 with any errno) and keeps ghost accounting.
 *
 * Descriptors: a small fixed table  vg_fd_open[0..VG_NFD)  (VG_NFD = 8).  A call that
 * creates a descriptor (socket, accept, dup) picks ANY slot that is not open
 * (nondeterministic choice among the unopened ones) or fails; close() releases the slot.
 * ASSUMES (Linux close(2)): the descriptor is released by close() whatever it returns,
 * except EBADF; closing a slot that is not open returns -1/EBADF and is counted in
 * vg_close_bad (a contract can then say "never closes a descriptor it does not own").
 *
 * errno: bound to the ghost vg_errno (macro re-binding) so that contracts can name it in
 * assigns clauses; h_errno likewise.
 *
 * Byte streams.  ASSUMED pipe law (not modelled, stated): bytes accepted by write() on one
 * end are later returned by read() on the peer in order.  Under it, "the receiver gets the
 * payload" reduces to the sender's obligation tracked here:
 *      vg_wr_base, vg_wr_len   the payload the unit is sending (set by the unit's contract)
 *      vg_wr_total             bytes accepted by write() so far
 *      vg_wr_in_order          every write() so far offered exactly the bytes that follow the
 *                              last accepted count:  buf == base + total  and  n <= len - total
 *      vg_wr_calls             number of write() calls; vg_wr_retries number of EAGAIN/EINTR results
 * ASSUMES: fewer than VG_RETRY_CAP (2^40) EAGAIN/EINTR results of write() per send: the
 * back-off timer of spif_socket_send adds 10 ms per retry and would otherwise overflow after
 * about 2.9e9 years of retries.
 * ====================================================================================== */
#ifdef NET_KERNEL
#include <errno.h>
#include <sys/time.h>
int vg_errno, vg_h_errno;
#undef errno
#define errno vg_errno
#undef h_errno
#define h_errno vg_h_errno

#define VG_NFD 8
_Bool vg_fd_open[VG_NFD];
unsigned vg_close_bad, vg_close_calls;
#define VG_FD_VALID(fd) ((fd) >= 0 && (fd) < VG_NFD)
#define VG_FD_OPEN(fd)  (VG_FD_VALID(fd) && vg_fd_open[(fd)])
#define VG_KERNEL_ASSIGNS vg_errno, __CPROVER_object_whole(vg_fd_open), vg_close_bad, vg_close_calls

/* Sources of nondeterminism of the kernel model.
 * default: nondet_*() at every decision (DFCC units, unbounded loops).
 * NET_TAPE: every decision is DRAWN from a finite decision tape vg_tape[0..VG_TAPE_N) that the unit's harness fills
 *   through VND(long, tapeI) - so the verifier's witness contains the whole schedule of kernel answers and the
 *   native replay (the same stubs compiled natively: the ghost kernel, not the real one) follows it exactly.
 *   "Tape long enough" is an obligation, so a run that needs more decisions is not silently cut off. */
#ifdef VERIF_NATIVE
# define __CPROVER_r_ok(p, n) 1
# define __CPROVER_w_ok(p, n) 1
# define __CPROVER_rw_ok(p, n) 1
# define __CPROVER_havoc_slice(p, n) memset((p), 0x5a, (n))
#endif
unsigned vg_tape_pos;      /* (declared in every mode: loop contracts of annot/socket.c.net.ann name it) */
#ifdef NET_TAPE
# ifndef VG_TAPE_N
#  define VG_TAPE_N 16          /* 16, 32 or 64 */
# endif
long vg_tape[VG_TAPE_N];
static long vg_draw(void)
{
# ifdef VERIF_NATIVE
    if (vg_tape_pos >= VG_TAPE_N) { fprintf(stderr, "NATIVE-REPLAY: decision tape exhausted\n"); exit(0); }
# else
    __CPROVER_assert(vg_tape_pos < VG_TAPE_N, "kernel model: decision tape long enough for this run");
    __CPROVER_assume(vg_tape_pos < VG_TAPE_N);
# endif
    return vg_tape[vg_tape_pos++];
}
# define VG_NB() ((vg_draw() & 1) != 0)
# define VG_NI() ((int) vg_draw())
# define VG_NL() (vg_draw())
# ifdef VERIF_NATIVE
#  define VG_TAPE_ND(i) vn_get("tape" #i, 0)
# else
#  define VG_TAPE_ND(i) nondet_long()
# endif
/* (a plain local named vnd_tape<i>, as VND makes it, without the statement expression: more than ~40 of those in
 *  one function made goto-instrument abort in goto_inline) */
# define VG_TAPE_1(i) { long vnd_tape ## i = VG_TAPE_ND(i); vg_tape[i] = vnd_tape ## i; __CPROVER_assume(vg_tape[i] >= -2147483647L && vg_tape[i] <= 2147483647L); }
# if VG_TAPE_N > 32
#  define VG_TAPE_MORE2() { VG_TAPE_1(32); VG_TAPE_1(33); VG_TAPE_1(34); VG_TAPE_1(35); VG_TAPE_1(36); VG_TAPE_1(37); VG_TAPE_1(38); VG_TAPE_1(39); VG_TAPE_1(40); VG_TAPE_1(41); VG_TAPE_1(42); VG_TAPE_1(43); VG_TAPE_1(44); VG_TAPE_1(45); VG_TAPE_1(46); VG_TAPE_1(47); VG_TAPE_1(48); VG_TAPE_1(49); VG_TAPE_1(50); VG_TAPE_1(51); VG_TAPE_1(52); VG_TAPE_1(53); VG_TAPE_1(54); VG_TAPE_1(55); VG_TAPE_1(56); VG_TAPE_1(57); VG_TAPE_1(58); VG_TAPE_1(59); VG_TAPE_1(60); VG_TAPE_1(61); VG_TAPE_1(62); VG_TAPE_1(63); }
# else
#  define VG_TAPE_MORE2() { }
# endif
# if VG_TAPE_N > 16
#  define VG_TAPE_MORE() { VG_TAPE_1(16); VG_TAPE_1(17); VG_TAPE_1(18); VG_TAPE_1(19); VG_TAPE_1(20); VG_TAPE_1(21); VG_TAPE_1(22); VG_TAPE_1(23); VG_TAPE_1(24); VG_TAPE_1(25); VG_TAPE_1(26); VG_TAPE_1(27); VG_TAPE_1(28); VG_TAPE_1(29); VG_TAPE_1(30); VG_TAPE_1(31); VG_TAPE_MORE2(); }
# else
#  define VG_TAPE_MORE() { }
# endif
# define VG_TAPE_FILL() { VG_TAPE_MORE(); VG_TAPE_1(0); VG_TAPE_1(1); VG_TAPE_1(2); VG_TAPE_1(3); VG_TAPE_1(4); VG_TAPE_1(5); VG_TAPE_1(6); VG_TAPE_1(7); \
    VG_TAPE_1(8); VG_TAPE_1(9); VG_TAPE_1(10); VG_TAPE_1(11); VG_TAPE_1(12); VG_TAPE_1(13); VG_TAPE_1(14); VG_TAPE_1(15); vg_tape_pos = 0; }
#else
# define VG_NB() nondet_bool()
# define VG_NI() nondet_int()
# define VG_NL() nondet_long()
#endif
static int vg_any_errno(void) { int e = VG_NI(); __CPROVER_assume(e > 0 && e < 4096); return e; }
static int vg_new_fd(void)
{
    int fd = VG_NI();
    __CPROVER_assume(VG_FD_VALID(fd) && !vg_fd_open[fd]);
    vg_fd_open[fd] = 1;
    return fd;
}
int socket(int domain, int type, int protocol)
{
    if (VG_NB()) { vg_errno = vg_any_errno(); return -1; }
    return vg_new_fd();
}
int dup(int oldfd)
{
    if (!VG_FD_OPEN(oldfd)) { vg_errno = EBADF; return -1; }
    if (VG_NB()) { vg_errno = vg_any_errno(); return -1; }
    return vg_new_fd();
}
int close(int fd)
{
    vg_close_calls++;
    if (!VG_FD_OPEN(fd)) { vg_close_bad++; vg_errno = EBADF; return -1; }
    vg_fd_open[fd] = 0;
    if (VG_NB()) { vg_errno = vg_any_errno(); __CPROVER_assume(vg_errno != EBADF); return -1; }
    return 0;
}
int bind(int fd, const struct sockaddr *addr, socklen_t len)
{
    if (!VG_FD_OPEN(fd)) { vg_errno = EBADF; return -1; }
    if (addr == NULL) { vg_errno = EFAULT; return -1; }
    __CPROVER_assert(__CPROVER_r_ok(addr, len), "bind: address readable for len bytes");
    if (VG_NB()) { vg_errno = vg_any_errno(); return -1; }
    return 0;
}
int listen(int fd, int backlog)
{
    if (!VG_FD_OPEN(fd)) { vg_errno = EBADF; return -1; }
    if (VG_NB()) { vg_errno = vg_any_errno(); return -1; }
    return 0;
}
int connect(int fd, const struct sockaddr *addr, socklen_t len)
{
    if (!VG_FD_OPEN(fd)) { vg_errno = EBADF; return -1; }
    if (addr == NULL) { vg_errno = EFAULT; return -1; }
    __CPROVER_assert(__CPROVER_r_ok(addr, len), "connect: address readable for len bytes");
    if (VG_NB()) { vg_errno = vg_any_errno(); return -1; }
    return 0;
}
#ifndef NET_OWN_ACCEPT
int accept(int fd, struct sockaddr *addr, socklen_t *len)
{
    if (!VG_FD_OPEN(fd)) { vg_errno = EBADF; return -1; }
    if (VG_NB()) { vg_errno = vg_any_errno(); return -1; }
    if (addr != NULL) {
        __CPROVER_assert(len != NULL && __CPROVER_w_ok(addr, *len), "accept: address buffer writable for *len bytes");
        __CPROVER_havoc_slice(addr, *len);
        socklen_t n = (socklen_t) (VG_NL() & 0x7fffffffL);
        *len = n;                      /* the real length of the peer address (may exceed the buffer) */
    }
    return vg_new_fd();
}
#endif
/* fcntl is variadic (see the snprintf note): re-bound to a fixed-arity model; the third argument is evaluated */
int vg_fcntl(int fd, int cmd, long arg)
{
    if (!VG_FD_OPEN(fd)) { vg_errno = EBADF; return -1; }
    if (VG_NB()) { vg_errno = vg_any_errno(); return -1; }
    if (cmd == F_GETFL) { int fl = VG_NI(); __CPROVER_assume(fl >= 0); return fl; }
    return 0;
}
#undef fcntl
#define fcntl(fd, cmd, ...) vg_fcntl((fd), (cmd), (long) (__VA_ARGS__ + 0))
int select(int nfds, fd_set *r, fd_set *w, fd_set *e, struct timeval *tv)
{
    /* Linux: the timeout is updated to the time not slept; the sets keep only ready descriptors */
    if (tv != NULL) {
        long s = VG_NL(), us = VG_NL();
        __CPROVER_assume(s >= 0 && s <= tv->tv_sec && us >= 0 && us <= ((tv->tv_usec > 999999) ? tv->tv_usec : 999999));
        tv->tv_sec = s; tv->tv_usec = us;
    }
    if (VG_NB()) { vg_errno = vg_any_errno(); return -1; }
    if (r != NULL) { fd_set m; memset(&m, (int) (VG_NL() & 0xff), sizeof(m)); *r = m; }
    if (w != NULL) { fd_set m; memset(&m, (int) (VG_NL() & 0xff), sizeof(m)); *w = m; }
    if (e != NULL) { fd_set m; memset(&m, (int) (VG_NL() & 0xff), sizeof(m)); *e = m; }
    int n = VG_NI();
    __CPROVER_assume(n >= 0 && n <= 3 * (nfds > 0 ? nfds : 0));
    return n;
}
char *strerror(int e) { return (char *) "error"; }

/* resolver: NULL (h_errno TRY_AGAIN or HOST_NOT_FOUND) or a static record; h_addr_list / h_name may be NULL */
struct hostent vg_hostent; char vg_hostaddr[4]; char *vg_addrlist[2]; char vg_hostname[8];
#define VG_RESOLVER_ASSIGNS vg_h_errno, vg_tape_pos, __CPROVER_object_whole(&vg_hostent), __CPROVER_object_whole(vg_addrlist), __CPROVER_object_whole(vg_hostname)
struct hostent *gethostbyname(const char *name)
{
    __CPROVER_assert(name != NULL && __CPROVER_r_ok(name, 1), "gethostbyname: name is a readable string");
    if (VG_NB()) { vg_h_errno = VG_NB() ? TRY_AGAIN : HOST_NOT_FOUND; return NULL; }
    vg_addrlist[0] = vg_hostaddr; vg_addrlist[1] = NULL;
    vg_hostent.h_addr_list = VG_NB() ? NULL : vg_addrlist;
    vg_hostent.h_length = 4;
    return &vg_hostent;
}
struct hostent *gethostbyaddr(const void *a, socklen_t l, int t)
{
    __CPROVER_assert(__CPROVER_r_ok(a, l), "gethostbyaddr: address readable");
    if (VG_NB()) { vg_h_errno = VG_NB() ? TRY_AGAIN : HOST_NOT_FOUND; return NULL; }
    vg_hostname[7] = 0; vg_hostent.h_name = VG_NB() ? NULL : vg_hostname;
    return &vg_hostent;
}
const char *hstrerror(int e) { return "resolver error"; }
char *inet_ntoa(struct in_addr in) { static char b[16]; b[15] = 0; return b; }

/* ---- byte streams ---------------------------------------------------------------------------- */
const char *vg_wr_base;
size_t vg_wr_len, vg_wr_total, vg_wr_calls, vg_wr_retries;
_Bool vg_wr_in_order, vg_wr_hard;   /* vg_wr_hard: some write() failed with an errno other than EAGAIN/EINTR */
#define VG_RETRY_CAP (((size_t) 1) << 40)
#define VG_WRITE_ASSIGNS vg_wr_total, vg_wr_calls, vg_wr_retries, vg_wr_in_order, vg_wr_hard
#if !defined(NET_OWN_WRITE) && (!defined(VERIF_NATIVE) || defined(NET_NATIVE_RW))
ssize_t write(int fd, const void *buf, size_t n)
{
    __CPROVER_assert(n == 0 || __CPROVER_r_ok(buf, n), "write: buffer readable for n bytes");
    vg_wr_calls++;
    if (!((const char *) buf == vg_wr_base + vg_wr_total && vg_wr_total <= vg_wr_len && n <= vg_wr_len - vg_wr_total))
        vg_wr_in_order = 0;
    if (!VG_FD_OPEN(fd)) { vg_errno = EBADF; vg_wr_hard = 1; return -1; }
    if (VG_NB()) {
        vg_errno = vg_any_errno();
#ifdef NET_WRITE_NO_EFBIG
        __CPROVER_assume(vg_errno != EFBIG);
#endif
        if (vg_errno == EAGAIN || vg_errno == EINTR) {
            vg_wr_retries++;
            __CPROVER_assume(vg_wr_retries < VG_RETRY_CAP);
        } else {
            vg_wr_hard = 1;
        }
        return -1;
    }
    size_t k = (size_t) (VG_NL() & 0x7fffffffffffffffL);
    __CPROVER_assume(k <= n && (k > 0 || n == 0) && k <= (size_t) 0x7fffffff);     /* complete or short */
#ifdef NET_WRITE_NO_SHORT
    __CPROVER_assume(k == n);                                                       /* complete only */
#endif
    vg_wr_total += k;
    return (ssize_t) k;
}
#endif
size_t vg_rd_total, vg_rd_calls;
#define VG_READ_ASSIGNS vg_rd_total, vg_rd_calls
#if !defined(VERIF_NATIVE) || defined(NET_NATIVE_RW)
ssize_t read(int fd, void *buf, size_t n)
{
    __CPROVER_assert(n == 0 || __CPROVER_w_ok(buf, n), "read: buffer writable for n bytes");
    vg_rd_calls++;
    if (!VG_FD_OPEN(fd)) { vg_errno = EBADF; return -1; }
    if (VG_NB()) { vg_errno = vg_any_errno(); return -1; }
    size_t k = (size_t) (VG_NL() & 0x7fffffffffffffffL);
    __CPROVER_assume(k <= n);                                   /* 0 = end of stream; short or full chunk */
    if (k > 0) __CPROVER_havoc_slice(buf, k);
    vg_rd_total += k;
    return (ssize_t) k;
}
#endif
#endif /* NET_KERNEL */

#endif /* VERIF_ENV_NET_H */
