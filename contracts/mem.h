/* contracts/mem.h — spec macros and function contracts for src/mem.c (C15).
 * Included AFTER the (annotated copy of) mem.c: malloc_rec is file-local.
 *
 * Ghosts (all arbitrary, see GUIDE "ghost index instead of forall"):
 *   vg_r, vg_r2   record indices of the table (env_memhash.h); every statement "at vg_r" or
 *                 "for the pair (vg_r, vg_r2)" is the statement for all records / all pairs.
 *   vg_fidx       index at which memrec_find_var stopped (written by the loop annotation or by
 *                 memrec_find_var's contract).
 *   vg_k          byte index inside a record's file[] field (0..SPIFMEM_FNAME_LEN).
 *   vg_n1, vg_j, vg_exit   exact length of the file-name argument, its "no NUL before" ghost
 *                 instantiation point and spiftool_safe_strncpy's loop-exit offset: facts that
 *                 need the exact length are guarded by (vg_exit != vg_j || ...), exactly as in
 *                 units/C13/safe_strncpy.c.
 *   vg_n2, vg_n3  size of the user block passed in / capacity of an empty table.
 */
#ifndef VERIF_MEM_H
#define VERIF_MEM_H
#include "strings.h"            /* VCSTR_EXACT_AT, VMIN */

#ifndef MEMREC_CAP
# define MEMREC_CAP  ((size_t) VCAP)        /* record count cap: keeps sizeof(rec)*cnt representable */
#endif
#define MEMREC_RSZ   (sizeof(spifmem_ptr_t))

/* ---- representation invariant --------------------------------------------------------------
 * ptrs has exactly cnt records; for cnt == 0 it is NULL (never initialised: malloc_rec is a
 * zero-initialised static) or any live heap block (spifmem_init's one-record block, or what is
 * left after the last record was removed; vg_n3 = its arbitrary capacity in records).
 * MEMREC_PRE is the "requires" rendering (is_fresh allocates the table in an enforcing unit and is
 * checked at a replaced call), MEMREC_POST the "ensures" rendering of the same predicate. */
#define MEMREC_PRE(m) \
    (__CPROVER_rw_ok((m), sizeof(spifmem_memrec_t)) && (m)->cnt <= MEMREC_CAP && vg_n3 <= MEMREC_CAP && \
     (((m)->cnt == 0 && (m)->ptrs == NULL) || \
      __CPROVER_is_fresh((m)->ptrs, MEMREC_RSZ * ((m)->cnt ? (m)->cnt : vg_n3))))
/* bounded units fix the record count to a constant */
#ifdef MEMREC_HARNESS_CNT
# define MEMREC_HARNESS_BUILD(m) do { (m)->cnt = MEMREC_HARNESS_CNT; } while (0)
#else
# define MEMREC_HARNESS_BUILD(m) do { } while (0)
#endif
#define MEMREC_POST(m) \
    ((m)->cnt <= MEMREC_CAP && \
     (((m)->cnt == 0 && (m)->ptrs == NULL) || \
      (__CPROVER_POINTER_OFFSET((m)->ptrs) == 0 && __CPROVER_rw_ok((m)->ptrs, MEMREC_RSZ * (m)->cnt) && \
       ((m)->cnt == 0 || __CPROVER_OBJECT_SIZE((m)->ptrs) == MEMREC_RSZ * (m)->cnt))))
/* no two records with the same ptr, for the pair of indices (a, b) */
#define MEMREC_NODUP_AT(m, a, b) \
    (!((a) < (m)->cnt && (b) < (m)->cnt && (a) != (b)) || (m)->ptrs[(a)].ptr != (m)->ptrs[(b)].ptr)
/* pointer p is not recorded at index a */
#define MEMREC_ABSENT_AT(m, p, a)   (!((a) < (m)->cnt) || (m)->ptrs[(a)].ptr != (p))

/* ---- logical variables (auxiliary ghosts) for the entry state ------------------------------------
 * cbmc's __CPROVER_old() cannot hold a guarded expression and is evaluated unconditionally, so the
 * entry-state records at the ghost indices are named by LOGICAL variables instead: the precondition
 * MEMREC_LOGICAL ties them to the entry state (they are arbitrary, nobody assigns them), the
 * postconditions speak about them.   vg_o_r = record vg_r, vg_o_r1 = record vg_r+1,
 * vg_o_r2.ptr = ptr of record vg_r2 (when those are records). */
spifmem_ptr_t vg_o_r, vg_o_r1, vg_o_r2;
#define MEMREC_REC_EQ(rec, L) \
    ((rec).ptr == (L).ptr && (rec).size == (L).size && (rec).line == (L).line && (rec).file[vg_k] == (L).file[vg_k])
#define MEMREC_LOGICAL(m) \
    ((!(vg_r < (m)->cnt) || MEMREC_REC_EQ((m)->ptrs[vg_r], vg_o_r)) && \
     (!(vg_r + 1 < (m)->cnt) || MEMREC_REC_EQ((m)->ptrs[vg_r + 1], vg_o_r1)) && \
     (!(vg_r2 < (m)->cnt) || (m)->ptrs[vg_r2].ptr == vg_o_r2.ptr))

/* file-name argument: a C string of exactly vg_n1 characters (exactness instantiated at vg_j) */
#define MEM_FNAME_PRE(f)   VCSTR_EXACT_AT((f), vg_n1, vg_j)
/* record i holds the file name truncated to SPIFMEM_FNAME_LEN characters (needs the exact length:
 * guarded the C13 way) */
#define MEMREC_FILE_IS(m, i, f) \
    (vg_exit != vg_j || \
     ((m)->ptrs[(i)].file[VMIN(vg_n1, (size_t) SPIFMEM_FNAME_LEN)] == 0 && \
      (!(vg_k < VMIN(vg_n1, (size_t) SPIFMEM_FNAME_LEN)) || (m)->ptrs[(i)].file[vg_k] == ((const char *) (f))[vg_k])))

/* ---- callee contract: spiftool_safe_strncpy (strings.c) ----------------------------------------
 * Same clauses as the contract proved in units/C13/safe_strncpy.c, with the frame written as
 * "the size bytes at dest" instead of "the object of dest" (identical for the fresh dest of the
 * enforcing unit; needed here because dest is the file[] field INSIDE the table).  This variant
 * is proved by unit C15.dep.safe_strncpy. */
spif_bool_t spiftool_safe_strncpy(spif_charptr_t dest, const spif_charptr_t src, spif_int32_t size)
__CPROVER_requires(size > 0 && __CPROVER_is_fresh(dest, (size_t) size))
__CPROVER_requires(VCSTR_EXACT_AT(src, vg_n1, vg_j))
__CPROVER_assigns(__CPROVER_object_upto(dest, (size_t) size), vg_exit)
__CPROVER_ensures(vg_exit != vg_j || dest[VMIN(vg_n1, (size_t) size - 1)] == 0)
__CPROVER_ensures(vg_exit != vg_j || !(vg_k < VMIN(vg_n1, (size_t) size - 1)) || dest[vg_k] == src[vg_k])
__CPROVER_ensures(vg_exit != vg_j || (__CPROVER_return_value == TRUE) == (vg_n1 <= (size_t) size - 1))
__CPROVER_ensures(__CPROVER_return_value == TRUE || __CPROVER_return_value == FALSE)
;

#ifndef U_NO_MEM_CONTRACTS
/* ---- table primitives ------------------------------------------------------------------------
 * Every contract below is ONE contract; an enforcing unit may check it in parts (MEM_PART = 1 shape,
 * 2 records, 3 no-duplicates): a part keeps the requires clauses it needs and the ensures clauses of
 * its group, so each part is a theorem with a weaker hypothesis than the whole contract and the
 * parts together are the whole postcondition.  Without MEM_PART (callers that use the contract at a
 * replaced call site) all clauses are present.  Reason: with every clause in one query the SAT and
 * SMT back ends need > 300 s / > 8 GB, the parts take seconds to a minute. */
#ifndef MEM_PART
# define MEM_PART 0
#endif
/* clause of group g (1 shape, 2 records, 3 no-duplicates) of the function whose part selector is fp
 * (0 = whole contract).  Group 1 (shape) is part of every part: callers need it in every part. */
#define MEM_E(fp, g, e)    MEM_E_(fp, g, e)
#define MEM_E_(fp, g, e)   MEM_E_##fp##_##g(e)
#define MEM_R(fp, g, e)    MEM_R_(fp, g, e)
#define MEM_R_(fp, g, e)   MEM_R_##fp##_##g(e)
#define MEM_E_0_1(e) __CPROVER_ensures(e)
#define MEM_E_0_2(e) __CPROVER_ensures(e)
#define MEM_E_0_3(e) __CPROVER_ensures(e)
#define MEM_E_1_1(e) __CPROVER_ensures(e)
#define MEM_E_1_2(e)
#define MEM_E_1_3(e)
#define MEM_E_2_1(e) __CPROVER_ensures(e)
#define MEM_E_2_2(e) __CPROVER_ensures(e)
#define MEM_E_2_3(e)
#define MEM_E_3_1(e) __CPROVER_ensures(e)
#define MEM_E_3_2(e)
#define MEM_E_3_3(e) __CPROVER_ensures(e)
#define MEM_R_0_2(e) __CPROVER_requires(e)
#define MEM_R_0_3(e) __CPROVER_requires(e)
#define MEM_R_1_2(e)
#define MEM_R_1_3(e)
#define MEM_R_2_2(e) __CPROVER_requires(e)
#define MEM_R_2_3(e)
#define MEM_R_3_2(e)
#define MEM_R_3_3(e) __CPROVER_requires(e)
/* the part selector applies to every contract of the translation unit: a caller's part-k unit uses
 * the callee's part-k contract, which is exactly what the callee's part-k unit proved */
#define P_ADD MEM_PART
#define P_REM MEM_PART
#define P_CHG MEM_PART
#define P_MALLOC MEM_PART
#define P_CALLOC MEM_PART
#define P_FREE MEM_PART
#define P_REALLOC MEM_PART

/* find: NULL iff the pointer is not recorded (seen at vg_r); otherwise the FIRST record with
 * that pointer, whose index is left in vg_fidx.
 * pointer_in_range_dfcc: checked as a range fact when this contract is enforced; at a replaced call it
 * makes the returned pointer "&table[vg_fidx] + 0" for cbmc's points-to analysis (a plain nondet pointer
 * constrained by == sends the callers' writes through it to every object: 500 MB formulas; a range
 * over the whole table makes every store byte-granular: 250 s / 7.5 GB) */
spifmem_ptr_t *memrec_find_var(spifmem_memrec_t *memrec, const void *ptr)
__CPROVER_requires(MEMREC_PRE(memrec))
__CPROVER_assigns(vg_fidx)
__CPROVER_ensures(__CPROVER_return_value != NULL || ptr == NULL || MEMREC_ABSENT_AT(memrec, ptr, vg_r))
__CPROVER_ensures(__CPROVER_return_value == NULL ||
                  (ptr != NULL && vg_fidx < memrec->cnt && memrec->ptrs != NULL &&
                   __CPROVER_pointer_in_range_dfcc(memrec->ptrs + vg_fidx, __CPROVER_return_value, memrec->ptrs + vg_fidx) &&
                   __CPROVER_return_value == memrec->ptrs + vg_fidx &&
                   memrec->ptrs[vg_fidx].ptr == ptr && (!(vg_r < vg_fidx) || memrec->ptrs[vg_r].ptr != ptr)))
;

/* add: record appended with fields = arguments (file name truncated to 20 characters), the others
 * kept; no duplicate arises when the pointer was not recorded before */
void memrec_add_var(spifmem_memrec_t *memrec, const char *filename, unsigned long line, void *ptr, size_t size)
__CPROVER_requires(MEMREC_PRE(memrec) && memrec->cnt < MEMREC_CAP)
__CPROVER_requires(MEM_FNAME_PRE(filename) && line <= 0xffffffffUL)
MEM_R(P_ADD, 2, MEMREC_LOGICAL(memrec))
MEM_R(P_ADD, 3, MEMREC_NODUP_AT(memrec, vg_r, vg_r2) && MEMREC_ABSENT_AT(memrec, ptr, vg_r) && MEMREC_ABSENT_AT(memrec, ptr, vg_r2))
__CPROVER_assigns(memrec->cnt, memrec->ptrs, vg_exit)
__CPROVER_assigns(memrec->ptrs != NULL: __CPROVER_object_whole(memrec->ptrs))
__CPROVER_frees(memrec->ptrs)
/* the table was re-allocated: a fresh block (what a caller using this contract needs to know) */
__CPROVER_ensures(memrec->cnt == __CPROVER_old(memrec->cnt) + 1 && __CPROVER_is_fresh(memrec->ptrs, MEMREC_RSZ * memrec->cnt))
MEM_E(P_ADD, 1, MEMREC_POST(memrec))
MEM_E(P_ADD, 2, !(vg_r < __CPROVER_old(memrec->cnt)) || MEMREC_REC_EQ(memrec->ptrs[vg_r], vg_o_r))
MEM_E(P_ADD, 2, vg_r != __CPROVER_old(memrec->cnt) ||
            (memrec->ptrs[vg_r].ptr == ptr && memrec->ptrs[vg_r].size == size &&
             memrec->ptrs[vg_r].line == (spif_uint32_t) line && MEMREC_FILE_IS(memrec, vg_r, filename)))
MEM_E(P_ADD, 3, MEMREC_NODUP_AT(memrec, vg_r, vg_r2))
;

/* remove: either the pointer is not recorded (seen at vg_r) and nothing changes, or the first
 * record holding it (index vg_fidx) is gone and the others keep their order.  "No other record
 * holds it afterwards" needs the no-duplicates fact for the pair (., vg_fidx): it is stated for
 * the instantiation vg_r2 == vg_fidx (vg_r2 is arbitrary). */
void memrec_rem_var(spifmem_memrec_t *memrec, const char *var, const char *filename, unsigned long line, const void *ptr)
__CPROVER_requires(MEMREC_PRE(memrec))
MEM_R(P_REM, 2, MEMREC_LOGICAL(memrec))
MEM_R(P_REM, 3, MEMREC_NODUP_AT(memrec, vg_r, vg_r2) && MEMREC_NODUP_AT(memrec, vg_r + 1, vg_r2) &&
              MEMREC_NODUP_AT(memrec, vg_r, vg_r2 + 1) && MEMREC_NODUP_AT(memrec, vg_r + 1, vg_r2 + 1))
__CPROVER_assigns(memrec->cnt, memrec->ptrs, vg_fidx)
__CPROVER_assigns(memrec->ptrs != NULL: __CPROVER_object_whole(memrec->ptrs))
__CPROVER_frees(memrec->ptrs)
/* after a removal that leaves records the table was re-allocated: a fresh block */
__CPROVER_ensures((memrec->cnt == __CPROVER_old(memrec->cnt) && memrec->ptrs == __CPROVER_old(memrec->ptrs)) ||
                  (ptr != NULL && memrec->cnt + 1 == __CPROVER_old(memrec->cnt) &&
                   (memrec->cnt == 0 ? memrec->ptrs == __CPROVER_old(memrec->ptrs)
                                     : __CPROVER_is_fresh(memrec->ptrs, MEMREC_RSZ * memrec->cnt))))
MEM_E(P_REM, 1, MEMREC_POST(memrec))
MEM_E(P_REM, 1, (memrec->cnt == __CPROVER_old(memrec->cnt) && memrec->ptrs == __CPROVER_old(memrec->ptrs)) ||
              (ptr != NULL && memrec->cnt + 1 == __CPROVER_old(memrec->cnt) && vg_fidx <= memrec->cnt))
MEM_E(P_REM, 2, 
    /* unknown pointer (seen at vg_r): table unchanged */
    (memrec->cnt == __CPROVER_old(memrec->cnt) &&
     (ptr == NULL || !(vg_r < memrec->cnt) || vg_o_r.ptr != ptr) &&
     (!(vg_r < memrec->cnt) || MEMREC_REC_EQ(memrec->ptrs[vg_r], vg_o_r)))
    ||
    /* known pointer: record vg_fidx removed, the others keep their order */
    (memrec->cnt + 1 == __CPROVER_old(memrec->cnt) &&
     (vg_fidx != vg_r2 || vg_o_r2.ptr == ptr) &&
     (!(vg_r < memrec->cnt) ||
      (vg_r < vg_fidx ? MEMREC_REC_EQ(memrec->ptrs[vg_r], vg_o_r) : MEMREC_REC_EQ(memrec->ptrs[vg_r], vg_o_r1)))))
MEM_E(P_REM, 3, MEMREC_NODUP_AT(memrec, vg_r, vg_r2))
/* that record is gone: after a removal no record holds ptr (instantiation vg_r2 == vg_fidx) */
MEM_E(P_REM, 3, memrec->cnt == __CPROVER_old(memrec->cnt) || vg_fidx != vg_r2 || MEMREC_ABSENT_AT(memrec, ptr, vg_r))
;

/* change: unknown pointer => unchanged; otherwise the first record holding oldp (index vg_fidx)
 * becomes (newp, size, truncated file name, line), everything else is kept */
void memrec_chg_var(spifmem_memrec_t *memrec, const char *var, const char *filename, unsigned long line, const void *oldp, void *newp, size_t size)
__CPROVER_requires(MEMREC_PRE(memrec))
__CPROVER_requires(MEM_FNAME_PRE(filename) && line <= 0xffffffffUL)
MEM_R(P_CHG, 2, MEMREC_LOGICAL(memrec))
MEM_R(P_CHG, 3, MEMREC_NODUP_AT(memrec, vg_r, vg_r2))
/* the new address is not the address of another record */
MEM_R(P_CHG, 3, !(vg_r < memrec->cnt) || memrec->ptrs[vg_r].ptr != newp || memrec->ptrs[vg_r].ptr == oldp)
MEM_R(P_CHG, 3, !(vg_r2 < memrec->cnt) || memrec->ptrs[vg_r2].ptr != newp || memrec->ptrs[vg_r2].ptr == oldp)
__CPROVER_assigns(vg_fidx, vg_exit)
__CPROVER_assigns(memrec->ptrs != NULL: __CPROVER_object_whole(memrec->ptrs))
MEM_E(P_CHG, 1, MEMREC_POST(memrec) && memrec->cnt == __CPROVER_old(memrec->cnt) && memrec->ptrs == __CPROVER_old(memrec->ptrs))
MEM_E(P_CHG, 2, 
    ((oldp == NULL || !(vg_r < memrec->cnt) || vg_o_r.ptr != oldp) &&
     (!(vg_r < memrec->cnt) || MEMREC_REC_EQ(memrec->ptrs[vg_r], vg_o_r)))
    ||
    (oldp != NULL && vg_fidx < memrec->cnt &&
     (vg_fidx != vg_r2 || vg_o_r2.ptr == oldp) &&
     (!(vg_r < memrec->cnt) || vg_r == vg_fidx || MEMREC_REC_EQ(memrec->ptrs[vg_r], vg_o_r)) &&
     (vg_r != vg_fidx ||
      (memrec->ptrs[vg_r].ptr == newp && memrec->ptrs[vg_r].size == size &&
       memrec->ptrs[vg_r].line == (spif_uint32_t) line && MEMREC_FILE_IS(memrec, vg_r, filename)))))
MEM_E(P_CHG, 3, MEMREC_NODUP_AT(memrec, vg_r, vg_r2))
;

/* add/rem: when the table was re-allocated the new table is a fresh block (what callers that use
 * these contracts at a replaced call site need to know about memrec->ptrs) */

/* ---- allocation wrappers ------------------------------------------------------------------------
 * Two behaviours per wrapper, selected by the unit: U_LEVEL_ON (runtime level >= DEBUG_MEM: the table
 * mirrors the allocator) and U_LEVEL_OFF (below: the table is not in the frame at all, i.e. untouched).
 * A recorded block is LIVE: record k's ptr is the start of a live heap block whose size is the
 * recorded size ("each with the block's current address, its most recently requested size"). */
#define MEM_TAB             (&malloc_rec)
/* calloc units fix the element size to a constant (CALLOC(type, n) always passes sizeof(type)): the code
 * computes size * count, libc's model count * size - two symbolic 64-bit products in different operand
 * orders, whose equality no back end decides in 5 minutes */
#ifdef MEM_CALLOC_ELEM
# define MEM_CALLOC_SIZE_REQ(sz) ((sz) == MEM_CALLOC_ELEM)
#else
# define MEM_CALLOC_SIZE_REQ(sz) 1
#endif
#define MEM_LIVE_PRE_AT(k)  (!((k) < malloc_rec.cnt) || \
                             (malloc_rec.ptrs[(k)].size <= (size_t) VCAP && \
                              __CPROVER_is_fresh(malloc_rec.ptrs[(k)].ptr, malloc_rec.ptrs[(k)].size)))
#if defined(U_LEVEL_ON)
# define MEM_LEVEL_REQ   (libast_debug_level >= DEBUG_MEM)
#elif defined(U_LEVEL_OFF)
# define MEM_LEVEL_REQ   (libast_debug_level < DEBUG_MEM)
#endif

#if defined(U_LEVEL_OFF) && !defined(U_NO_MEM_WRAPPER_CONTRACTS)
/* below DEBUG_MEM: plain allocator semantics, empty frame (malloc_rec and its table untouched) */
void *spifmem_malloc(const char *filename, unsigned long line, size_t size)
__CPROVER_requires(MEM_LEVEL_REQ && size <= (size_t) VCAP)
__CPROVER_assigns()
__CPROVER_ensures(__CPROVER_is_fresh(__CPROVER_return_value, size))
;
void *spifmem_calloc(const char *filename, unsigned long line, size_t count, size_t size)
__CPROVER_requires(MEM_LEVEL_REQ && count <= 0xffffUL && size <= 0xffffUL && MEM_CALLOC_SIZE_REQ(size))
__CPROVER_assigns()
__CPROVER_ensures(__CPROVER_is_fresh(__CPROVER_return_value, count * size))
__CPROVER_ensures(!(vg_k2 < count * size) || ((char *) __CPROVER_return_value)[vg_k2] == 0)
;
void spifmem_free(const char *var, const char *filename, unsigned long line, void *ptr)
__CPROVER_requires(MEM_LEVEL_REQ && vg_n2 <= (size_t) VCAP && (ptr == NULL || __CPROVER_is_fresh(ptr, vg_n2)))
__CPROVER_assigns()
__CPROVER_frees(ptr)
__CPROVER_ensures(ptr == NULL || __CPROVER_was_freed(ptr))
;
void *spifmem_realloc(const char *var, const char *filename, unsigned long line, void *ptr, size_t size)
__CPROVER_requires(MEM_LEVEL_REQ && size <= (size_t) VCAP && vg_n2 <= (size_t) VCAP && (ptr == NULL || __CPROVER_is_fresh(ptr, vg_n2)))
__CPROVER_assigns()
__CPROVER_frees(ptr)
/* realloc(NULL) allocates, realloc(p, 0) frees, otherwise a block of the new size and the old one released
 * (the same clauses as verif_REALLOC in units/C15/macros.c; REALLOC(NULL, 0) is the subject of macro.null0.*) */
__CPROVER_ensures(!(ptr == NULL && size != 0) || __CPROVER_is_fresh(__CPROVER_return_value, size))
__CPROVER_ensures(!(ptr != NULL && size == 0) || (__CPROVER_return_value == NULL && __CPROVER_was_freed(ptr)))
__CPROVER_ensures(!(ptr != NULL && size != 0) || (__CPROVER_is_fresh(__CPROVER_return_value, size) && __CPROVER_was_freed(ptr)))
;
char *spifmem_strdup(const char *var, const char *filename, unsigned long line, const char *str)
__CPROVER_requires(MEM_LEVEL_REQ && vg_n2 < (size_t) VCAP && __CPROVER_is_fresh(str, vg_n2 + 1) && str[vg_n2] == 0 && (!(vg_j < vg_n2) || str[vg_j] != 0))
__CPROVER_assigns()
__CPROVER_ensures(__CPROVER_is_fresh(__CPROVER_return_value, vg_n2 + 1))
__CPROVER_ensures(__CPROVER_return_value[vg_n2] == 0 && (!(vg_k < vg_n2) || __CPROVER_return_value[vg_k] == str[vg_k]))
;
#endif /* U_LEVEL_OFF */

#if defined(U_LEVEL_ON) && !defined(U_NO_MEM_WRAPPER_CONTRACTS)
/* malloc / calloc: fresh block, recorded as the last record with (address, requested size, file, line) */
void *spifmem_malloc(const char *filename, unsigned long line, size_t size)
__CPROVER_requires(MEM_LEVEL_REQ && size <= (size_t) VCAP)
__CPROVER_requires(MEMREC_PRE(MEM_TAB) && malloc_rec.cnt < MEMREC_CAP)
__CPROVER_requires(MEM_FNAME_PRE(filename) && line <= 0xffffffffUL)
MEM_R(P_MALLOC, 3, MEM_LIVE_PRE_AT(vg_r) && (vg_r2 == vg_r || MEM_LIVE_PRE_AT(vg_r2)))
MEM_R(P_MALLOC, 2, MEMREC_LOGICAL(MEM_TAB))
MEM_R(P_MALLOC, 3, MEMREC_NODUP_AT(MEM_TAB, vg_r, vg_r2))
__CPROVER_assigns(malloc_rec.cnt, malloc_rec.ptrs, vg_exit)
__CPROVER_assigns(malloc_rec.ptrs != NULL: __CPROVER_object_whole(malloc_rec.ptrs))
__CPROVER_frees(malloc_rec.ptrs)
__CPROVER_ensures(__CPROVER_is_fresh(__CPROVER_return_value, size))
__CPROVER_ensures(malloc_rec.cnt == __CPROVER_old(malloc_rec.cnt) + 1 && __CPROVER_is_fresh(malloc_rec.ptrs, MEMREC_RSZ * malloc_rec.cnt))
MEM_E(P_MALLOC, 1, MEMREC_POST(MEM_TAB))
MEM_E(P_MALLOC, 2, !(vg_r < __CPROVER_old(malloc_rec.cnt)) || MEMREC_REC_EQ(malloc_rec.ptrs[vg_r], vg_o_r))
MEM_E(P_MALLOC, 2, vg_r != __CPROVER_old(malloc_rec.cnt) ||
            (malloc_rec.ptrs[vg_r].ptr == __CPROVER_return_value && malloc_rec.ptrs[vg_r].size == size &&
             malloc_rec.ptrs[vg_r].line == (spif_uint32_t) line && MEMREC_FILE_IS(MEM_TAB, vg_r, filename)))
MEM_E(P_MALLOC, 3, MEMREC_NODUP_AT(MEM_TAB, vg_r, vg_r2))
;
void *spifmem_calloc(const char *filename, unsigned long line, size_t count, size_t size)
__CPROVER_requires(MEM_LEVEL_REQ && count <= 0xffffUL && size <= 0xffffUL && MEM_CALLOC_SIZE_REQ(size))
__CPROVER_requires(MEMREC_PRE(MEM_TAB) && malloc_rec.cnt < MEMREC_CAP)
__CPROVER_requires(MEM_FNAME_PRE(filename) && line <= 0xffffffffUL)
MEM_R(P_CALLOC, 3, MEM_LIVE_PRE_AT(vg_r) && (vg_r2 == vg_r || MEM_LIVE_PRE_AT(vg_r2)))
MEM_R(P_CALLOC, 2, MEMREC_LOGICAL(MEM_TAB))
MEM_R(P_CALLOC, 3, MEMREC_NODUP_AT(MEM_TAB, vg_r, vg_r2))
__CPROVER_assigns(malloc_rec.cnt, malloc_rec.ptrs, vg_exit)
__CPROVER_assigns(malloc_rec.ptrs != NULL: __CPROVER_object_whole(malloc_rec.ptrs))
__CPROVER_frees(malloc_rec.ptrs)
__CPROVER_ensures(__CPROVER_is_fresh(__CPROVER_return_value, count * size))
__CPROVER_ensures(!(vg_k2 < count * size) || ((char *) __CPROVER_return_value)[vg_k2] == 0)
__CPROVER_ensures(malloc_rec.cnt == __CPROVER_old(malloc_rec.cnt) + 1 && __CPROVER_is_fresh(malloc_rec.ptrs, MEMREC_RSZ * malloc_rec.cnt))
MEM_E(P_CALLOC, 1, MEMREC_POST(MEM_TAB))
MEM_E(P_CALLOC, 2, !(vg_r < __CPROVER_old(malloc_rec.cnt)) || MEMREC_REC_EQ(malloc_rec.ptrs[vg_r], vg_o_r))
MEM_E(P_CALLOC, 2, vg_r != __CPROVER_old(malloc_rec.cnt) ||
            (malloc_rec.ptrs[vg_r].ptr == __CPROVER_return_value && malloc_rec.ptrs[vg_r].size == count * size &&
             malloc_rec.ptrs[vg_r].line == (spif_uint32_t) line && MEMREC_FILE_IS(MEM_TAB, vg_r, filename)))
MEM_E(P_CALLOC, 3, MEMREC_NODUP_AT(MEM_TAB, vg_r, vg_r2))
;
/* free: block released; its record removed (others keep their order); NULL or a pointer that is not
 * recorded leaves the table unchanged */
void spifmem_free(const char *var, const char *filename, unsigned long line, void *ptr)
__CPROVER_requires(MEM_LEVEL_REQ && vg_n2 <= (size_t) VCAP && (ptr == NULL || __CPROVER_is_fresh(ptr, vg_n2)))
__CPROVER_requires(MEMREC_PRE(MEM_TAB))
MEM_R(P_FREE, 2, MEMREC_LOGICAL(MEM_TAB))
MEM_R(P_FREE, 3, MEMREC_NODUP_AT(MEM_TAB, vg_r, vg_r2) && MEMREC_NODUP_AT(MEM_TAB, vg_r + 1, vg_r2) &&
              MEMREC_NODUP_AT(MEM_TAB, vg_r, vg_r2 + 1) && MEMREC_NODUP_AT(MEM_TAB, vg_r + 1, vg_r2 + 1))
__CPROVER_assigns(malloc_rec.cnt, malloc_rec.ptrs, vg_fidx)
__CPROVER_assigns(malloc_rec.ptrs != NULL: __CPROVER_object_whole(malloc_rec.ptrs))
__CPROVER_frees(malloc_rec.ptrs, ptr)
__CPROVER_ensures(ptr == NULL || __CPROVER_was_freed(ptr))
MEM_E(P_FREE, 1, MEMREC_POST(MEM_TAB))
MEM_E(P_FREE, 1, (malloc_rec.cnt == __CPROVER_old(malloc_rec.cnt) && malloc_rec.ptrs == __CPROVER_old(malloc_rec.ptrs)) ||
              (ptr != NULL && malloc_rec.cnt + 1 == __CPROVER_old(malloc_rec.cnt) && vg_fidx <= malloc_rec.cnt))
MEM_E(P_FREE, 2, 
    (malloc_rec.cnt == __CPROVER_old(malloc_rec.cnt) &&
     (ptr == NULL || !(vg_r < malloc_rec.cnt) || vg_o_r.ptr != ptr) &&
     (!(vg_r < malloc_rec.cnt) || MEMREC_REC_EQ(malloc_rec.ptrs[vg_r], vg_o_r)))
    ||
    (malloc_rec.cnt + 1 == __CPROVER_old(malloc_rec.cnt) &&
     (vg_fidx != vg_r2 || vg_o_r2.ptr == ptr) &&
     (!(vg_r < malloc_rec.cnt) ||
      (vg_r < vg_fidx ? MEMREC_REC_EQ(malloc_rec.ptrs[vg_r], vg_o_r) : MEMREC_REC_EQ(malloc_rec.ptrs[vg_r], vg_o_r1)))))
MEM_E(P_FREE, 3, MEMREC_NODUP_AT(MEM_TAB, vg_r, vg_r2))
MEM_E(P_FREE, 3, malloc_rec.cnt == __CPROVER_old(malloc_rec.cnt) || vg_fidx != vg_r2 || MEMREC_ABSENT_AT(MEM_TAB, ptr, vg_r))
;
/* realloc: three behaviours; a unit may pin one with U_RB_NULL / U_RB_ZERO / U_RB_MOVE (extra precondition
 * and that behaviour's table clauses); the allocation clauses are always there.
 *   ptr == NULL            allocates: as spifmem_malloc
 *   ptr != NULL, size == 0 frees:     as spifmem_free
 *   otherwise              new block of the new size, old block released; the record of ptr (if any)
 *                          becomes (new address, new size, file, line), an unknown ptr leaves the table unchanged */
#define MEM_LIVE_OR_ARG_AT(k, p) (!((k) < malloc_rec.cnt) || ((p) != NULL && malloc_rec.ptrs[(k)].ptr == (p)) || \
                                  (malloc_rec.ptrs[(k)].size <= (size_t) VCAP && \
                                   __CPROVER_is_fresh(malloc_rec.ptrs[(k)].ptr, malloc_rec.ptrs[(k)].size)))
void *spifmem_realloc(const char *var, const char *filename, unsigned long line, void *ptr, size_t size)
__CPROVER_requires(MEM_LEVEL_REQ && size <= (size_t) VCAP && vg_n2 <= (size_t) VCAP && (ptr == NULL || __CPROVER_is_fresh(ptr, vg_n2)))
#if defined(U_RB_NULL)
__CPROVER_requires(ptr == NULL && size != 0)      /* REALLOC(NULL, 0): units macro.null0.* */
#elif defined(U_RB_ZERO)
__CPROVER_requires(ptr != NULL && size == 0)
#elif defined(U_RB_MOVE)
__CPROVER_requires(ptr != NULL && size != 0)
#endif
__CPROVER_requires(MEMREC_PRE(MEM_TAB) && malloc_rec.cnt < MEMREC_CAP)
__CPROVER_requires(MEM_FNAME_PRE(filename) && line <= 0xffffffffUL)
/* (is_fresh assigns the recorded pointers: before the logical variables are tied to the entry state) */
MEM_R(P_REALLOC, 3, MEM_LIVE_OR_ARG_AT(vg_r, ptr) && (vg_r2 == vg_r || MEM_LIVE_OR_ARG_AT(vg_r2, ptr)))
MEM_R(P_REALLOC, 2, MEMREC_LOGICAL(MEM_TAB))
MEM_R(P_REALLOC, 3, MEMREC_NODUP_AT(MEM_TAB, vg_r, vg_r2) && MEMREC_NODUP_AT(MEM_TAB, vg_r + 1, vg_r2) &&
              MEMREC_NODUP_AT(MEM_TAB, vg_r, vg_r2 + 1) && MEMREC_NODUP_AT(MEM_TAB, vg_r + 1, vg_r2 + 1))
__CPROVER_assigns(malloc_rec.cnt, malloc_rec.ptrs, vg_exit, vg_fidx)
__CPROVER_assigns(malloc_rec.ptrs != NULL: __CPROVER_object_whole(malloc_rec.ptrs))
__CPROVER_frees(malloc_rec.ptrs, ptr)
__CPROVER_ensures(!(ptr == NULL && size != 0) || __CPROVER_is_fresh(__CPROVER_return_value, size))
__CPROVER_ensures(!(ptr != NULL && size == 0) || (__CPROVER_return_value == NULL && __CPROVER_was_freed(ptr)))
__CPROVER_ensures(!(ptr != NULL && size != 0) || (__CPROVER_is_fresh(__CPROVER_return_value, size) && __CPROVER_was_freed(ptr)))
MEM_E(P_REALLOC, 1, MEMREC_POST(MEM_TAB))
MEM_E(P_REALLOC, 1, !(ptr == NULL && size != 0) || malloc_rec.cnt == __CPROVER_old(malloc_rec.cnt) + 1)
MEM_E(P_REALLOC, 1, !(ptr != NULL && size == 0) || malloc_rec.cnt == __CPROVER_old(malloc_rec.cnt) || malloc_rec.cnt + 1 == __CPROVER_old(malloc_rec.cnt))
MEM_E(P_REALLOC, 1, !(ptr != NULL && size != 0) || (malloc_rec.cnt == __CPROVER_old(malloc_rec.cnt) && malloc_rec.ptrs == __CPROVER_old(malloc_rec.ptrs)))
#if defined(U_RB_NULL)
MEM_E(P_REALLOC, 2, !(vg_r < __CPROVER_old(malloc_rec.cnt)) || MEMREC_REC_EQ(malloc_rec.ptrs[vg_r], vg_o_r))
MEM_E(P_REALLOC, 2, vg_r != __CPROVER_old(malloc_rec.cnt) ||
            (malloc_rec.ptrs[vg_r].ptr == __CPROVER_return_value && malloc_rec.ptrs[vg_r].size == size &&
             malloc_rec.ptrs[vg_r].line == (spif_uint32_t) line && MEMREC_FILE_IS(MEM_TAB, vg_r, filename)))
#elif defined(U_RB_ZERO)
MEM_E(P_REALLOC, 2, 
    (malloc_rec.cnt == __CPROVER_old(malloc_rec.cnt) &&
     (!(vg_r < malloc_rec.cnt) || vg_o_r.ptr != ptr) &&
     (!(vg_r < malloc_rec.cnt) || MEMREC_REC_EQ(malloc_rec.ptrs[vg_r], vg_o_r)))
    ||
    (malloc_rec.cnt + 1 == __CPROVER_old(malloc_rec.cnt) &&
     (vg_fidx != vg_r2 || vg_o_r2.ptr == ptr) &&
     (!(vg_r < malloc_rec.cnt) ||
      (vg_r < vg_fidx ? MEMREC_REC_EQ(malloc_rec.ptrs[vg_r], vg_o_r) : MEMREC_REC_EQ(malloc_rec.ptrs[vg_r], vg_o_r1)))))
MEM_E(P_REALLOC, 3, malloc_rec.cnt == __CPROVER_old(malloc_rec.cnt) || vg_fidx != vg_r2 || MEMREC_ABSENT_AT(MEM_TAB, ptr, vg_r))
#elif defined(U_RB_MOVE)
MEM_E(P_REALLOC, 2, 
    ((!(vg_r < malloc_rec.cnt) || vg_o_r.ptr != ptr) &&
     (!(vg_r < malloc_rec.cnt) || MEMREC_REC_EQ(malloc_rec.ptrs[vg_r], vg_o_r)))
    ||
    (vg_fidx < malloc_rec.cnt &&
     (vg_fidx != vg_r2 || vg_o_r2.ptr == ptr) &&
     (!(vg_r < malloc_rec.cnt) || vg_r == vg_fidx || MEMREC_REC_EQ(malloc_rec.ptrs[vg_r], vg_o_r)) &&
     (vg_r != vg_fidx ||
      (malloc_rec.ptrs[vg_r].ptr == __CPROVER_return_value && malloc_rec.ptrs[vg_r].size == size &&
       malloc_rec.ptrs[vg_r].line == (spif_uint32_t) line && MEMREC_FILE_IS(MEM_TAB, vg_r, filename)))))
#endif
MEM_E(P_REALLOC, 3, MEMREC_NODUP_AT(MEM_TAB, vg_r, vg_r2))
;
/* strdup: a fresh copy, recorded like a malloc of strlen+1 bytes */
char *spifmem_strdup(const char *var, const char *filename, unsigned long line, const char *str)
__CPROVER_requires(MEM_LEVEL_REQ && vg_n2 < (size_t) VCAP && __CPROVER_is_fresh(str, vg_n2 + 1) && str[vg_n2] == 0 && (!(vg_j < vg_n2) || str[vg_j] != 0))
__CPROVER_requires(MEMREC_PRE(MEM_TAB) && malloc_rec.cnt < MEMREC_CAP)
__CPROVER_requires(MEM_FNAME_PRE(filename) && line <= 0xffffffffUL)
MEM_R(P_MALLOC, 3, MEM_LIVE_PRE_AT(vg_r) && (vg_r2 == vg_r || MEM_LIVE_PRE_AT(vg_r2)))
MEM_R(P_MALLOC, 2, MEMREC_LOGICAL(MEM_TAB))
MEM_R(P_MALLOC, 3, MEMREC_NODUP_AT(MEM_TAB, vg_r, vg_r2))
__CPROVER_assigns(malloc_rec.cnt, malloc_rec.ptrs, vg_exit)
__CPROVER_assigns(malloc_rec.ptrs != NULL: __CPROVER_object_whole(malloc_rec.ptrs))
__CPROVER_frees(malloc_rec.ptrs)
__CPROVER_ensures(__CPROVER_is_fresh(__CPROVER_return_value, vg_n2 + 1))
__CPROVER_ensures(__CPROVER_return_value[vg_n2] == 0 && (!(vg_k < vg_n2) || __CPROVER_return_value[vg_k] == str[vg_k]))
__CPROVER_ensures(malloc_rec.cnt == __CPROVER_old(malloc_rec.cnt) + 1 && __CPROVER_is_fresh(malloc_rec.ptrs, MEMREC_RSZ * malloc_rec.cnt))
MEM_E(P_MALLOC, 1, MEMREC_POST(MEM_TAB))
MEM_E(P_MALLOC, 2, !(vg_r < __CPROVER_old(malloc_rec.cnt)) || MEMREC_REC_EQ(malloc_rec.ptrs[vg_r], vg_o_r))
MEM_E(P_MALLOC, 2, vg_r != __CPROVER_old(malloc_rec.cnt) ||
            (malloc_rec.ptrs[vg_r].ptr == __CPROVER_return_value && malloc_rec.ptrs[vg_r].size == vg_n2 + 1 &&
             malloc_rec.ptrs[vg_r].line == (spif_uint32_t) line))
MEM_E(P_MALLOC, 3, MEMREC_NODUP_AT(MEM_TAB, vg_r, vg_r2))
;
#endif /* U_LEVEL_ON */

#endif /* U_NO_MEM_CONTRACTS */

#endif
