/* contracts/mem.h — spec macros and function contracts for src/mem.c (C15).
 * Included AFTER the (annotated copy of) mem.c: malloc_rec is file-local.
 *
 * Ghosts (all arbitrary, see GUIDE "ghost index instead of forall"):
 *   vg_r, vg_r2   record indices of the table (env_memhash.h); every statement "at vg_r" or
 *                 "for the pair (vg_r, vg_r2)" is the statement for all records / all pairs.
 *   vg_fidx       index at which memrec_find_var stopped (written by the loop annotation or by
 *                 memrec_find_var's contract).
 *   vg_k          byte index inside a record's file[] field (0..SPIFMEM_FNAME_LEN).
 *   vg_n1, vg_j, vg_exit   exact length of the file-name argument, its "no NUL before" ghost
 *                 instantiation point and spiftool_safe_strncpy's loop-exit offset: facts that
 *                 need the exact length are guarded by (vg_exit != vg_j || ...), exactly as in
 *                 units/C13/safe_strncpy.c.
 *   vg_n2, vg_n3  size of the user block passed in / capacity of an empty table.
 */
#ifndef VERIF_MEM_H
#define VERIF_MEM_H
#include "strings.h"            /* VCSTR_EXACT_AT, VMIN */

#ifndef MEMREC_CAP
# define MEMREC_CAP  ((size_t) VCAP)        /* record count cap: keeps sizeof(rec)*cnt representable */
#endif
#define MEMREC_RSZ   (sizeof(spifmem_ptr_t))

/* ---- representation invariant --------------------------------------------------------------
 * ptrs has exactly cnt records; for cnt == 0 it is NULL (never initialised: malloc_rec is a
 * zero-initialised static) or any live heap block (spifmem_init's one-record block, or what is
 * left after the last record was removed; vg_n3 = its arbitrary capacity in records).
 * MEMREC_PRE is the "requires" rendering (is_fresh allocates the table in an enforcing unit and is
 * checked at a replaced call), MEMREC_POST the "ensures" rendering of the same predicate. */
#ifndef MEMREC_TYPED
#define MEMREC_PRE(m) \
    (__CPROVER_rw_ok((m), sizeof(spifmem_memrec_t)) && (m)->cnt <= MEMREC_CAP && vg_n3 <= MEMREC_CAP && \
     (((m)->cnt == 0 && (m)->ptrs == NULL) || \
      __CPROVER_is_fresh((m)->ptrs, MEMREC_RSZ * ((m)->cnt ? (m)->cnt : vg_n3))))
#define MEMREC_HARNESS_BUILD(m) do { } while (0)
#else
/* experiment: table built by the harness as a TYPED array object */
#define MEMREC_PRE(m) (__CPROVER_rw_ok((m), sizeof(spifmem_memrec_t)) && MEMREC_POST(m))
#define MEMREC_HARNESS_BUILD(m) do { \
    (m)->cnt = nondet_size_t(); __CPROVER_assume((m)->cnt <= MEMREC_CAP); \
    if ((m)->cnt == 0 && nondet_bool()) (m)->ptrs = NULL; \
    else { size_t vg_cap_ = (m)->cnt; if (vg_cap_ == 0) { vg_cap_ = nondet_size_t(); __CPROVER_assume(vg_cap_ <= MEMREC_CAP); } \
           (m)->ptrs = __CPROVER_allocate(sizeof(spifmem_ptr_t) * vg_cap_, 0); } } while (0)
#endif
#define MEMREC_POST(m) \
    ((m)->cnt <= MEMREC_CAP && \
     (((m)->cnt == 0 && (m)->ptrs == NULL) || \
      (__CPROVER_POINTER_OFFSET((m)->ptrs) == 0 && __CPROVER_rw_ok((m)->ptrs, MEMREC_RSZ * (m)->cnt) && \
       ((m)->cnt == 0 || __CPROVER_OBJECT_SIZE((m)->ptrs) == MEMREC_RSZ * (m)->cnt))))
/* no two records with the same ptr, for the pair of indices (a, b) */
#define MEMREC_NODUP_AT(m, a, b) \
    (!((a) < (m)->cnt && (b) < (m)->cnt && (a) != (b)) || (m)->ptrs[(a)].ptr != (m)->ptrs[(b)].ptr)
/* pointer p is not recorded at index a */
#define MEMREC_ABSENT_AT(m, p, a)   (!((a) < (m)->cnt) || (m)->ptrs[(a)].ptr != (p))

/* ---- logical variables (auxiliary ghosts) for the entry state ------------------------------------
 * cbmc's __CPROVER_old() cannot hold a guarded expression and is evaluated unconditionally, so the
 * entry-state records at the ghost indices are named by LOGICAL variables instead: the precondition
 * MEMREC_LOGICAL ties them to the entry state (they are arbitrary, nobody assigns them), the
 * postconditions speak about them.   vg_o_r = record vg_r, vg_o_r1 = record vg_r+1,
 * vg_o_r2.ptr = ptr of record vg_r2 (when those are records). */
spifmem_ptr_t vg_o_r, vg_o_r1, vg_o_r2;
#define MEMREC_REC_EQ(rec, L) \
    ((rec).ptr == (L).ptr && (rec).size == (L).size && (rec).line == (L).line && (rec).file[vg_k] == (L).file[vg_k])
#define MEMREC_LOGICAL(m) \
    ((!(vg_r < (m)->cnt) || MEMREC_REC_EQ((m)->ptrs[vg_r], vg_o_r)) && \
     (!(vg_r + 1 < (m)->cnt) || MEMREC_REC_EQ((m)->ptrs[vg_r + 1], vg_o_r1)) && \
     (!(vg_r2 < (m)->cnt) || (m)->ptrs[vg_r2].ptr == vg_o_r2.ptr))

/* file-name argument: a C string of exactly vg_n1 characters (exactness instantiated at vg_j) */
#define MEM_FNAME_PRE(f)   VCSTR_EXACT_AT((f), vg_n1, vg_j)
/* record i holds the file name truncated to SPIFMEM_FNAME_LEN characters (needs the exact length:
 * guarded the C13 way) */
#define MEMREC_FILE_IS(m, i, f) \
    (vg_exit != vg_j || \
     ((m)->ptrs[(i)].file[VMIN(vg_n1, (size_t) SPIFMEM_FNAME_LEN)] == 0 && \
      (!(vg_k < VMIN(vg_n1, (size_t) SPIFMEM_FNAME_LEN)) || (m)->ptrs[(i)].file[vg_k] == ((const char *) (f))[vg_k])))

/* ---- callee contract: spiftool_safe_strncpy (strings.c) ----------------------------------------
 * Same clauses as the contract proved in units/C13/safe_strncpy.c, with the frame written as
 * "the size bytes at dest" instead of "the object of dest" (identical for the fresh dest of the
 * enforcing unit; needed here because dest is the file[] field INSIDE the table).  This variant
 * is proved by unit C15.dep.safe_strncpy. */
spif_bool_t spiftool_safe_strncpy(spif_charptr_t dest, const spif_charptr_t src, spif_int32_t size)
__CPROVER_requires(size > 0 && __CPROVER_is_fresh(dest, (size_t) size))
__CPROVER_requires(VCSTR_EXACT_AT(src, vg_n1, vg_j))
__CPROVER_assigns(__CPROVER_object_upto(dest, (size_t) size), vg_exit)
__CPROVER_ensures(vg_exit != vg_j || dest[VMIN(vg_n1, (size_t) size - 1)] == 0)
__CPROVER_ensures(vg_exit != vg_j || !(vg_k < VMIN(vg_n1, (size_t) size - 1)) || dest[vg_k] == src[vg_k])
__CPROVER_ensures(vg_exit != vg_j || (__CPROVER_return_value == TRUE) == (vg_n1 <= (size_t) size - 1))
__CPROVER_ensures(__CPROVER_return_value == TRUE || __CPROVER_return_value == FALSE)
;

#ifndef U_NO_MEM_CONTRACTS
/* ---- table primitives ------------------------------------------------------------------------
 * Every contract below is ONE contract; an enforcing unit may check it in parts (MEM_PART = 1 shape,
 * 2 records, 3 no-duplicates): a part keeps the requires clauses it needs and the ensures clauses of
 * its group, so each part is a theorem with a weaker hypothesis than the whole contract and the
 * parts together are the whole postcondition.  Without MEM_PART (callers that use the contract at a
 * replaced call site) all clauses are present.  Reason: with every clause in one query the SAT and
 * SMT back ends need > 300 s / > 8 GB, the parts take seconds to a minute. */
#if !defined(MEM_PART) || MEM_PART == 1
# define MEM_ENS_SHAPE(e)   __CPROVER_ensures(e)
#else
# define MEM_ENS_SHAPE(e)
#endif
#if !defined(MEM_PART) || MEM_PART == 2
# define MEM_ENS_REC(e)     __CPROVER_ensures(e)
# define MEM_REQ_REC(e)     __CPROVER_requires(e)
#else
# define MEM_ENS_REC(e)
# define MEM_REQ_REC(e)
#endif
#if !defined(MEM_PART) || MEM_PART == 3
# define MEM_ENS_NODUP(e)   __CPROVER_ensures(e)
# define MEM_REQ_NODUP(e)   __CPROVER_requires(e)
#else
# define MEM_ENS_NODUP(e)
# define MEM_REQ_NODUP(e)
#endif

/* find: NULL iff the pointer is not recorded (seen at vg_r); otherwise the FIRST record with
 * that pointer, whose index is left in vg_fidx.
 * pointer_in_range_dfcc: checked as a range fact when this contract is enforced; at a replaced call it
 * makes the returned pointer "&table[vg_fidx] + 0" for cbmc's points-to analysis (a plain nondet pointer
 * constrained by == sends the callers' writes through it to every object: 500 MB formulas; a range
 * over the whole table makes every store byte-granular: 250 s / 7.5 GB) */
spifmem_ptr_t *memrec_find_var(spifmem_memrec_t *memrec, const void *ptr)
__CPROVER_requires(MEMREC_PRE(memrec))
__CPROVER_assigns(vg_fidx)
__CPROVER_ensures(__CPROVER_return_value != NULL || ptr == NULL || MEMREC_ABSENT_AT(memrec, ptr, vg_r))
__CPROVER_ensures(__CPROVER_return_value == NULL ||
                  (ptr != NULL && vg_fidx < memrec->cnt && memrec->ptrs != NULL &&
                   __CPROVER_pointer_in_range_dfcc(memrec->ptrs + vg_fidx, __CPROVER_return_value, memrec->ptrs + vg_fidx) &&
                   __CPROVER_return_value == memrec->ptrs + vg_fidx &&
                   memrec->ptrs[vg_fidx].ptr == ptr && (!(vg_r < vg_fidx) || memrec->ptrs[vg_r].ptr != ptr)))
;

/* add: record appended with fields = arguments (file name truncated to 20 characters), the others
 * kept; no duplicate arises when the pointer was not recorded before */
void memrec_add_var(spifmem_memrec_t *memrec, const char *filename, unsigned long line, void *ptr, size_t size)
__CPROVER_requires(MEMREC_PRE(memrec) && memrec->cnt < MEMREC_CAP)
__CPROVER_requires(MEM_FNAME_PRE(filename) && line <= 0xffffffffUL)
MEM_REQ_REC(MEMREC_LOGICAL(memrec))
MEM_REQ_NODUP(MEMREC_NODUP_AT(memrec, vg_r, vg_r2) && MEMREC_ABSENT_AT(memrec, ptr, vg_r) && MEMREC_ABSENT_AT(memrec, ptr, vg_r2))
__CPROVER_assigns(memrec->cnt, memrec->ptrs, vg_exit)
__CPROVER_assigns(memrec->ptrs != NULL: __CPROVER_object_whole(memrec->ptrs))
__CPROVER_frees(memrec->ptrs)
MEM_ENS_SHAPE(MEMREC_POST(memrec) && memrec->cnt == __CPROVER_old(memrec->cnt) + 1)
MEM_ENS_REC(!(vg_r < __CPROVER_old(memrec->cnt)) || MEMREC_REC_EQ(memrec->ptrs[vg_r], vg_o_r))
MEM_ENS_REC(vg_r != __CPROVER_old(memrec->cnt) ||
            (memrec->ptrs[vg_r].ptr == ptr && memrec->ptrs[vg_r].size == size &&
             memrec->ptrs[vg_r].line == (spif_uint32_t) line && MEMREC_FILE_IS(memrec, vg_r, filename)))
MEM_ENS_NODUP(MEMREC_NODUP_AT(memrec, vg_r, vg_r2))
;

/* remove: either the pointer is not recorded (seen at vg_r) and nothing changes, or the first
 * record holding it (index vg_fidx) is gone and the others keep their order.  "No other record
 * holds it afterwards" needs the no-duplicates fact for the pair (., vg_fidx): it is stated for
 * the instantiation vg_r2 == vg_fidx (vg_r2 is arbitrary). */
void memrec_rem_var(spifmem_memrec_t *memrec, const char *var, const char *filename, unsigned long line, const void *ptr)
__CPROVER_requires(MEMREC_PRE(memrec))
MEM_REQ_REC(MEMREC_LOGICAL(memrec))
MEM_REQ_NODUP(MEMREC_NODUP_AT(memrec, vg_r, vg_r2) && MEMREC_NODUP_AT(memrec, vg_r + 1, vg_r2) &&
              MEMREC_NODUP_AT(memrec, vg_r, vg_r2 + 1) && MEMREC_NODUP_AT(memrec, vg_r + 1, vg_r2 + 1))
__CPROVER_assigns(memrec->cnt, memrec->ptrs, vg_fidx)
__CPROVER_assigns(memrec->ptrs != NULL: __CPROVER_object_whole(memrec->ptrs))
__CPROVER_frees(memrec->ptrs)
MEM_ENS_SHAPE(MEMREC_POST(memrec))
MEM_ENS_SHAPE((memrec->cnt == __CPROVER_old(memrec->cnt) && memrec->ptrs == __CPROVER_old(memrec->ptrs)) ||
              (ptr != NULL && memrec->cnt + 1 == __CPROVER_old(memrec->cnt) && vg_fidx <= memrec->cnt))
MEM_ENS_REC(
    /* unknown pointer (seen at vg_r): table unchanged */
    (memrec->cnt == __CPROVER_old(memrec->cnt) &&
     (ptr == NULL || !(vg_r < memrec->cnt) || vg_o_r.ptr != ptr) &&
     (!(vg_r < memrec->cnt) || MEMREC_REC_EQ(memrec->ptrs[vg_r], vg_o_r)))
    ||
    /* known pointer: record vg_fidx removed, the others keep their order */
    (memrec->cnt + 1 == __CPROVER_old(memrec->cnt) &&
     (vg_fidx != vg_r2 || vg_o_r2.ptr == ptr) &&
     (!(vg_r < memrec->cnt) ||
      (vg_r < vg_fidx ? MEMREC_REC_EQ(memrec->ptrs[vg_r], vg_o_r) : MEMREC_REC_EQ(memrec->ptrs[vg_r], vg_o_r1)))))
MEM_ENS_NODUP(MEMREC_NODUP_AT(memrec, vg_r, vg_r2))
/* that record is gone: after a removal no record holds ptr (instantiation vg_r2 == vg_fidx) */
MEM_ENS_NODUP(memrec->cnt == __CPROVER_old(memrec->cnt) || vg_fidx != vg_r2 || MEMREC_ABSENT_AT(memrec, ptr, vg_r))
;

/* change: unknown pointer => unchanged; otherwise the first record holding oldp (index vg_fidx)
 * becomes (newp, size, truncated file name, line), everything else is kept */
void memrec_chg_var(spifmem_memrec_t *memrec, const char *var, const char *filename, unsigned long line, const void *oldp, void *newp, size_t size)
__CPROVER_requires(MEMREC_PRE(memrec))
__CPROVER_requires(MEM_FNAME_PRE(filename) && line <= 0xffffffffUL)
MEM_REQ_REC(MEMREC_LOGICAL(memrec))
MEM_REQ_NODUP(MEMREC_NODUP_AT(memrec, vg_r, vg_r2))
/* the new address is not the address of another record */
MEM_REQ_NODUP(!(vg_r < memrec->cnt) || memrec->ptrs[vg_r].ptr != newp || memrec->ptrs[vg_r].ptr == oldp)
MEM_REQ_NODUP(!(vg_r2 < memrec->cnt) || memrec->ptrs[vg_r2].ptr != newp || memrec->ptrs[vg_r2].ptr == oldp)
__CPROVER_assigns(vg_fidx, vg_exit)
__CPROVER_assigns(memrec->ptrs != NULL: __CPROVER_object_whole(memrec->ptrs))
MEM_ENS_SHAPE(MEMREC_POST(memrec) && memrec->cnt == __CPROVER_old(memrec->cnt) && memrec->ptrs == __CPROVER_old(memrec->ptrs))
MEM_ENS_REC(
    ((oldp == NULL || !(vg_r < memrec->cnt) || vg_o_r.ptr != oldp) &&
     (!(vg_r < memrec->cnt) || MEMREC_REC_EQ(memrec->ptrs[vg_r], vg_o_r)))
    ||
    (oldp != NULL && vg_fidx < memrec->cnt &&
     (vg_fidx != vg_r2 || vg_o_r2.ptr == oldp) &&
     (!(vg_r < memrec->cnt) || vg_r == vg_fidx || MEMREC_REC_EQ(memrec->ptrs[vg_r], vg_o_r)) &&
     (vg_r != vg_fidx ||
      (memrec->ptrs[vg_r].ptr == newp && memrec->ptrs[vg_r].size == size &&
       memrec->ptrs[vg_r].line == (spif_uint32_t) line && MEMREC_FILE_IS(memrec, vg_r, filename)))))
MEM_ENS_NODUP(MEMREC_NODUP_AT(memrec, vg_r, vg_r2))
;
#endif /* U_NO_MEM_CONTRACTS */

#endif
