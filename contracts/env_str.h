/* env_str.h — libc / OS stubs used by the str / ustr units (owner: str).
 *
 * Units that use this header define, BEFORE including vprelude.h:
 *     VERIF_OWN_STRLEN VERIF_OWN_STRCHR VERIF_OWN_STRDUP
 * so that env.h's versions are not compiled, and include this header right
 * after vprelude.h.  Everything here is about code outside /repo.  Each stub is
 * an over-approximation of the man page (it can do everything the real function
 * can do, usually more); what a stub ASSUMES about its arguments is asserted,
 * not assumed, wherever cbmc can check it (readability of the argument, room
 * in the destination), so a NULL / too-short buffer handed to libc by str.c is
 * a failed obligation.
 *
 * "First NUL" without quantifiers.  The real strlen returns the MINIMAL NUL
 * position: for every i < r, s[i] != 0.  A stub may assume any finite set of
 * instances of that universally quantified fact (fewer assumptions = more
 * behaviours = sound).  The instances used here are the ghost positions
 * 0, vg_k, vg_j, vg_n1, vg_n2, vg_l1, vg_l2, vg_l3 and the result of the previous
 * strlen-family call (vg_slen).  The last one makes two consecutive measurements of the same
 * unchanged text agree (strlen then strcpy in spif_str_init_from_num).
 */
#ifndef VERIF_ENV_STR_H
#define VERIF_ENV_STR_H

/* ghost: value returned by the most recent strlen/strnlen and the pointer it measured
 * (stub-written; listed in assigns) */
size_t vg_slen;
const char *vg_slen_ptr;
/* ghost instance positions bound by contracts: vg_l1 == self->len, vg_l2 == other->len (a `requires` equates
 * them; they are arbitrary, so this restricts nothing), vg_l3 free for a unit's own use */
size_t vg_l1, vg_l2, vg_l3;

/* memo of the last successful fgets (see the fgets stub): buffer, bytes stored, whether the last one is a newline.
 * vg_stream_text: the unit declares the stream to be TEXT (no NUL bytes in the data); then the first NUL of a buffer
 * just filled by fgets is exactly behind the data, and a newline is found by strchr iff it was delivered. */
const char *vg_fgets_buf;
size_t vg_fgets_got;
_Bool vg_fgets_nl, vg_stream_text;
#define VSTR_FGETS_MEMO(s) (vg_stream_text && vg_fgets_buf != (const char *) 0 && (s) == vg_fgets_buf)

#define VSTR_MINIMAL_AT(s, r, i) __CPROVER_assume(!((i) < (r)) || (s)[(i)] != 0)
#define VSTR_MINIMAL(s, r) do { VSTR_MINIMAL_AT(s, r, vg_k); VSTR_MINIMAL_AT(s, r, vg_j); \
        VSTR_MINIMAL_AT(s, r, vg_n1); VSTR_MINIMAL_AT(s, r, vg_n2); VSTR_MINIMAL_AT(s, r, vg_slen); \
        VSTR_MINIMAL_AT(s, r, vg_l1); VSTR_MINIMAL_AT(s, r, vg_l2); VSTR_MINIMAL_AT(s, r, vg_l3); \
        VSTR_MINIMAL_AT(s, r, (size_t) 0); } while (0)

/* pure length oracle (writes nothing): some NUL position inside the object, minimal at the ghost instances */
size_t vstr_len_pure(const char *s)
{
    if (VSTR_FGETS_MEMO(s)) return vg_fgets_got;       /* ASSUMES text stream, buffer untouched since fgets */
    size_t r = nondet_size_t();
    __CPROVER_assume(r < VREMAIN(s));
    __CPROVER_assume(s[r] == 0);
    VSTR_MINIMAL(s, r);
    return r;
}

size_t strlen(const char *s)
{
    __CPROVER_assert(s != NULL, "strlen: argument not NULL");
    __CPROVER_assert(__CPROVER_r_ok(s, 1), "strlen: argument readable");
    __CPROVER_assume(s != NULL && __CPROVER_r_ok(s, 1));
    size_t r = vstr_len_pure(s);
    vg_slen = r;
    vg_slen_ptr = s;
    return r;
}

size_t strnlen(const char *s, size_t maxlen)
{
    __CPROVER_assert(s != NULL || maxlen == 0, "strnlen: argument not NULL");
    __CPROVER_assert(maxlen == 0 || __CPROVER_r_ok(s, 1), "strnlen: argument readable");
    size_t r = nondet_size_t();
    __CPROVER_assume(r <= maxlen);
    __CPROVER_assume(r <= VREMAIN(s));
    /* stopped by maxlen, or by a NUL that is inside the object */
    __CPROVER_assume(r == maxlen || (r < VREMAIN(s) && s[r] == 0));
    VSTR_MINIMAL(s, r);
    vg_slen = r;
    vg_slen_ptr = (r < maxlen) ? s : (const char *) 0;
    return r;
}

/* strcpy: copies the text up to and including its first NUL; the destination must have room */
char *strcpy(char *dst, const char *src)
{
    __CPROVER_assert(dst != NULL && src != NULL, "strcpy: arguments not NULL");
    __CPROVER_assert(__CPROVER_r_ok(src, 1), "strcpy: source readable");
    size_t n = vstr_len_pure(src);
    /* ASSUMES: a text measured by strlen is not modified before it is copied with strcpy (true for the
     * only such pair in str.c/ustr.c, init_from_num): both see the same first NUL. */
    __CPROVER_assume(src != vg_slen_ptr || n == vg_slen);
    __CPROVER_assert(__CPROVER_w_ok(dst, n + 1), "strcpy: destination has room for the text and its terminator");
    memcpy(dst, src, n + 1);
    return dst;
}

/* strdup: fresh block of exactly strlen+1 bytes holding the text */
char *strdup(const char *s)
{
    __CPROVER_assert(s != NULL, "strdup: argument not NULL");
    __CPROVER_assert(__CPROVER_r_ok(s, 1), "strdup: argument readable");
    __CPROVER_assume(s != NULL && __CPROVER_r_ok(s, 1));
    size_t n = vstr_len_pure(s);
#ifdef VSTR_STRDUP_RECORDS_LEN
    vg_slen = n; vg_slen_ptr = s;          /* units that need "strdup measured the whole text" (dup) */
#endif
    char *r = malloc(n + 1);
    memcpy(r, s, n + 1);
    return r;
}

/* isspace() of the "C" locale on the byte as unsigned char (what str.c passes), as a macro for loop invariants */
#define VSTR_ISSPACE(c) ((spif_uchar_t) (c) == ' ' || ((spif_uchar_t) (c) >= '\t' && (spif_uchar_t) (c) <= '\r'))
#define VSTR_TOLOWER(c) (((c) >= 'A' && (c) <= 'Z') ? (c) + 32 : (c))
#define VSTR_TOUPPER(c) (((c) >= 'a' && (c) <= 'z') ? (c) - 32 : (c))

/* ---- memmove / memcpy -------------------------------------------------------------
 * cbmc's own memmove model (symbolic length, overlapping regions of one object) and chains of several
 * memcpy calls (splice) exhaust memory / time on every back end.  Units that define VSTR_OWN_MEMMOVE /
 * VSTR_OWN_MEMCPY use this model instead.  It is an OVER-APPROXIMATION: both regions are checked exactly as
 * the built-in models check them (memcpy additionally: no overlap), the destination region then holds
 * ARBITRARY bytes except at the relative positions
 *      0, n-1, n-2, vg_k, vg_k2, n-2-vg_k        (those that are < n)
 * which hold the bytes the source held BEFORE the call (overlap-safe).  The real functions preserve more, so
 * whatever is proved against this model holds for them; because vg_k / vg_k2 are arbitrary, "byte vg_k is
 * moved" is the universally quantified statement. */
/* a unit may select the instances it needs (fewer = smaller formula, still an over-approximation):
 * -DVSTR_INST=<bit mask>  1: 0   2: n-1   4: n-2   8: vg_k   16: vg_k2   32: n-2-vg_k     default: all */
#ifndef VSTR_INST
# define VSTR_INST 63
#endif
static void vstr_copy_instances(char *d, const char *s, size_t n)
{
    if (n > 0) {
        size_t i0 = (vg_k < n) ? vg_k : 0, i1 = (vg_k2 < n) ? vg_k2 : 0, i2 = n - 1, i3 = (n >= 2) ? n - 2 : 0;
        size_t i4 = (n >= 2 && vg_k <= n - 2) ? n - 2 - vg_k : 0;
        char b = s[0], b0 = s[i0], b1 = s[i1], b2 = s[i2], b3 = s[i3], b4 = s[i4];
        __CPROVER_havoc_slice(d, n);
        if (VSTR_INST & 1) d[0] = b;
        if (VSTR_INST & 8) d[i0] = b0;
        if (VSTR_INST & 16) d[i1] = b1;
        if (VSTR_INST & 2) d[i2] = b2;
        if (VSTR_INST & 4) d[i3] = b3;
        if (VSTR_INST & 32) d[i4] = b4;
    }
}
#ifdef VSTR_OWN_MEMMOVE
void *memmove(void *dst, const void *src, size_t n)
{
    __CPROVER_assert(n == 0 || __CPROVER_r_ok(src, n), "memmove source region readable");
    __CPROVER_assert(n == 0 || __CPROVER_w_ok(dst, n), "memmove destination region writeable");
    /* a failed check above is reported; what follows models the valid calls only */
    __CPROVER_assume(n == 0 || (__CPROVER_r_ok(src, n) && __CPROVER_w_ok(dst, n)));
    vstr_copy_instances((char *) dst, (const char *) src, n);
    return dst;
}
#endif
#ifdef VSTR_OWN_MEMCPY
void *memcpy(void *dst, const void *src, size_t n)
{
    __CPROVER_assert(n == 0 || __CPROVER_r_ok(src, n), "memcpy source region readable");
    __CPROVER_assert(n == 0 || __CPROVER_w_ok(dst, n), "memcpy destination region writeable");
    __CPROVER_assert(n == 0 || !__CPROVER_same_object(dst, src) ||
                     __CPROVER_POINTER_OFFSET(dst) >= __CPROVER_POINTER_OFFSET(src) + n ||
                     __CPROVER_POINTER_OFFSET(src) >= __CPROVER_POINTER_OFFSET(dst) + n, "memcpy src/dst overlap");
    __CPROVER_assume(n == 0 || (__CPROVER_r_ok(src, n) && __CPROVER_w_ok(dst, n)));
    vstr_copy_instances((char *) dst, (const char *) src, n);
    return dst;
}
#endif

/* ---- realloc --------------------------------------------------------------------
 * Same idea as env.h's VERIF_REALLOC_ELEM_T model, for byte buffers: OVER-APPROXIMATION of realloc.
 * The result is a FRESH block of n bytes (the real one may also return the old block grown in
 * place; code correct for a moved block is correct for an unmoved one as long as it does not use the
 * old pointer, and using the old pointer is a reported failure here because the old block is freed).
 * Contents are ARBITRARY except at the positions 0, m-1, m-2 (m = min(old size, n)) and the ghost
 * positions vg_k, vg_k2, which are copied.  realloc(NULL, n) = malloc(n); n == 0 is not used
 * (libast's REALLOC macro maps it to free). */
#ifdef VSTR_OWN_REALLOC
void *realloc(void *p, size_t n)
{
    if (p == NULL) return malloc(n);
    __CPROVER_assert(__CPROVER_POINTER_OFFSET(p) == 0 && __CPROVER_DYNAMIC_OBJECT(p), "realloc: pointer is the start of a heap block");
    __CPROVER_assume(__CPROVER_POINTER_OFFSET(p) == 0 && __CPROVER_DYNAMIC_OBJECT(p));
    char *r = malloc(n);
    const char *o = (const char *) p;
    size_t m = __CPROVER_OBJECT_SIZE(p);
    if (n < m) m = n;
    if (m > 0) {
        size_t i0 = (vg_k < m) ? vg_k : 0, i1 = (vg_k2 < m) ? vg_k2 : 0, i2 = m - 1, i3 = (m >= 2) ? m - 2 : 0;
        if (VSTR_INST & 1) r[0] = o[0];
        if (VSTR_INST & 8) r[i0] = o[i0];
        if (VSTR_INST & 16) r[i1] = o[i1];
        if (VSTR_INST & 2) r[i2] = o[i2];
        if (VSTR_INST & 4) r[i3] = o[i3];
    }
    free(p);
    return r;
}
#endif

/* ---- search family (pure) -----------------------------------------------
 * strchr/index: NULL (only if c is not the terminator) or a position <= strlen holding c, first
 * such position as far as the ghost instance vg_k can tell.  strrchr/rindex: last such position.
 * strstr: NULL or a position <= strlen(h) (empty needle: position 0).  Needle contents are not
 * interpreted (over-approximation). */
char *strchr(const char *s, int c)
{
    __CPROVER_assert(s != NULL, "strchr: argument not NULL");
    __CPROVER_assert(__CPROVER_r_ok(s, 1), "strchr: argument readable");
    __CPROVER_assume(s != NULL && __CPROVER_r_ok(s, 1));       /* failures above are reported; valid calls only below */
    size_t n = vstr_len_pure(s);
    if (VSTR_FGETS_MEMO(s) && (char) c == '\n')           /* a newline can only be the last byte fgets stored */
        return vg_fgets_nl ? (char *) s + (vg_fgets_got - 1) : (char *) 0;
    if (nondet_bool()) {
        __CPROVER_assume((char) c != 0);
        __CPROVER_assume(!(vg_k < n) || s[vg_k] != (char) c);      /* no occurrence (instance vg_k) */
        return (char *) 0;
    }
    size_t r = nondet_size_t();
    __CPROVER_assume(r <= n && s[r] == (char) c);
    __CPROVER_assume(!(vg_k < r) || s[vg_k] != (char) c);          /* first occurrence (instance vg_k) */
    return (char *) s + r;
}
char *strrchr(const char *s, int c)
{
    __CPROVER_assert(s != NULL, "strrchr: argument not NULL");
    __CPROVER_assert(__CPROVER_r_ok(s, 1), "strrchr: argument readable");
    __CPROVER_assume(s != NULL && __CPROVER_r_ok(s, 1));
    size_t n = vstr_len_pure(s);
    if (nondet_bool()) {
        __CPROVER_assume((char) c != 0);
        __CPROVER_assume(!(vg_k < n) || s[vg_k] != (char) c);
        return (char *) 0;
    }
    size_t r = nondet_size_t();
    __CPROVER_assume(r <= n && s[r] == (char) c);
    __CPROVER_assume(!(vg_k > r && vg_k <= n) || s[vg_k] != (char) c);   /* last occurrence (instance vg_k) */
    return (char *) s + r;
}
char *index(const char *s, int c) { return strchr(s, c); }
char *rindex(const char *s, int c) { return strrchr(s, c); }
char *strstr(const char *h, const char *nd)
{
    __CPROVER_assert(h != NULL && nd != NULL, "strstr: arguments not NULL");
    __CPROVER_assert(__CPROVER_r_ok(h, 1) && __CPROVER_r_ok(nd, 1), "strstr: arguments readable");
    __CPROVER_assume(h != NULL && nd != NULL && __CPROVER_r_ok(h, 1) && __CPROVER_r_ok(nd, 1));
    size_t n = vstr_len_pure(h);
    size_t m = vstr_len_pure(nd);
    if (m == 0) return (char *) h;
    if (nondet_bool()) return (char *) 0;
    size_t r = nondet_size_t();
    __CPROVER_assume(r <= n && m <= n - r);     /* the match lies inside the text */
    __CPROVER_assume(h[r] == nd[0]);
    __CPROVER_assume(!(vg_k < m) || h[r + vg_k] == nd[vg_k]);    /* match content (instance vg_k) */
    return (char *) h + r;
}

/* ---- comparison family (pure) -----------------------------------------------------
 * The value is that of an UNINTERPRETED function of the two pointers (and the count): nothing is
 * assumed about it except what every implementation guarantees for texts that do not change between
 * two calls - the same arguments give the same answer, a text equals itself, and swapping the
 * arguments swaps the sign.  (Transitivity is stated where it is used: C05 lemma units.)  Contracts can
 * therefore say "the result is the sign of libc's answer".  Arguments must be non-NULL and readable
 * (asserted).  ASSUMES the compared texts are not modified between two comparisons in one unit. */
int __CPROVER_uninterpreted_vstr_cmp(const char *a, const char *b);
int __CPROVER_uninterpreted_vstr_casecmp(const char *a, const char *b);
int __CPROVER_uninterpreted_vstr_ncmp(const char *a, const char *b, size_t n);
int __CPROVER_uninterpreted_vstr_ncasecmp(const char *a, const char *b, size_t n);
#define VSTR_SGN(x) (((x) > 0) - ((x) < 0))
/* ... and what the empty text compares like: "" equals only "" and is below every other text */
#define VSTR_CMP_AXIOMS(F, a, b, ...) do { \
        __CPROVER_assume((a) != (b) || F((a), (b) __VA_ARGS__) == 0); \
        __CPROVER_assume(VSTR_SGN(F((a), (b) __VA_ARGS__)) == -VSTR_SGN(F((b), (a) __VA_ARGS__))); \
        __CPROVER_assume((a)[0] != 0 || VSTR_SGN(F((a), (b) __VA_ARGS__)) == ((b)[0] == 0 ? 0 : -1)); \
        __CPROVER_assume((b)[0] != 0 || VSTR_SGN(F((a), (b) __VA_ARGS__)) == ((a)[0] == 0 ? 0 : 1)); } while (0)
int strcmp(const char *a, const char *b)
{
    __CPROVER_assert(a != NULL && b != NULL, "strcmp: arguments not NULL");
    __CPROVER_assert(__CPROVER_r_ok(a, 1) && __CPROVER_r_ok(b, 1), "strcmp: arguments readable");
    __CPROVER_assume(a != NULL && b != NULL && __CPROVER_r_ok(a, 1) && __CPROVER_r_ok(b, 1));
    VSTR_CMP_AXIOMS(__CPROVER_uninterpreted_vstr_cmp, a, b);
    return __CPROVER_uninterpreted_vstr_cmp(a, b);
}
int strcasecmp(const char *a, const char *b)
{
    __CPROVER_assert(a != NULL && b != NULL, "strcasecmp: arguments not NULL");
    __CPROVER_assert(__CPROVER_r_ok(a, 1) && __CPROVER_r_ok(b, 1), "strcasecmp: arguments readable");
    __CPROVER_assume(a != NULL && b != NULL && __CPROVER_r_ok(a, 1) && __CPROVER_r_ok(b, 1));
    VSTR_CMP_AXIOMS(__CPROVER_uninterpreted_vstr_casecmp, a, b);
    return __CPROVER_uninterpreted_vstr_casecmp(a, b);
}
int strncmp(const char *a, const char *b, size_t n)
{
    __CPROVER_assert(n == 0 || (a != NULL && b != NULL), "strncmp: arguments not NULL");
    __CPROVER_assert(n == 0 || (__CPROVER_r_ok(a, 1) && __CPROVER_r_ok(b, 1)), "strncmp: arguments readable");
    __CPROVER_assume(n == 0 || (a != NULL && b != NULL && __CPROVER_r_ok(a, 1) && __CPROVER_r_ok(b, 1)));
    if (n == 0) return 0;
#define VSTR_N , n
    VSTR_CMP_AXIOMS(__CPROVER_uninterpreted_vstr_ncmp, a, b, VSTR_N);
    return __CPROVER_uninterpreted_vstr_ncmp(a, b, n);
}
int strncasecmp(const char *a, const char *b, size_t n)
{
    __CPROVER_assert(n == 0 || (a != NULL && b != NULL), "strncasecmp: arguments not NULL");
    __CPROVER_assert(n == 0 || (__CPROVER_r_ok(a, 1) && __CPROVER_r_ok(b, 1)), "strncasecmp: arguments readable");
    __CPROVER_assume(n == 0 || (a != NULL && b != NULL && __CPROVER_r_ok(a, 1) && __CPROVER_r_ok(b, 1)));
    if (n == 0) return 0;
    VSTR_CMP_AXIOMS(__CPROVER_uninterpreted_vstr_ncasecmp, a, b, VSTR_N);
    return __CPROVER_uninterpreted_vstr_ncasecmp(a, b, n);
}

/* ---- snprintf / vsnprintf --------------------------------------------------
 * C99: at most n bytes are written including the terminator; if n > 0 the output is
 * NUL-terminated; the return value is the length the complete output would have had, or a
 * negative value on an output error (then the buffer contents are unspecified but stay inside
 * n bytes).  Format semantics are NOT modelled: the bytes written are arbitrary non-NUL bytes. */
/* vg_fmt_cap: a unit may restrict the length the formatted output "would have" (ghost, bound by a requires) */
int vg_fmt_cap;
static int vstr_format(char *buf, size_t n)
{
    int r = nondet_int();
    __CPROVER_assume(r <= vg_fmt_cap);
    if (n > 0) {
        __CPROVER_assert(buf != NULL && __CPROVER_w_ok(buf, n), "snprintf: destination has n writable bytes");
        __CPROVER_havoc_slice(buf, n);                       /* arbitrary bytes, all inside n */
        if (r >= 0) {                                        /* success: terminated at min(r, n-1) */
            size_t L = ((size_t) r < n - 1 ? (size_t) r : n - 1);
            buf[L] = 0;
        }                                                    /* r < 0: output error, contents unspecified */
    }
    return r;
}
/* snprintf is variadic; DFCC (cbmc 6.11) passes a corrupt write set to callees of a variadic
 * function that has a body, so the stub is a fixed-arity function and calls in the unit TU are
 * re-bound to it by macro.  The variadic arguments are not evaluated by the stub (in str.c they are
 * plain variables, no side effects). */
int vstr_snprintf(char *buf, size_t n, const char *fmt)
{
    __CPROVER_assert(fmt != NULL && __CPROVER_r_ok(fmt, 1), "snprintf: format readable");
    return vstr_format(buf, n);
}
#undef snprintf
#define VSTR_FIRST_(a, ...) a
#define VSTR_FIRST(...) VSTR_FIRST_(__VA_ARGS__, 0)
#define snprintf(buf, n, ...) vstr_snprintf((char *) (buf), (n), VSTR_FIRST(__VA_ARGS__))
int vsnprintf(char *buf, size_t n, const char *fmt, va_list ap)
{
    __CPROVER_assert(fmt != NULL && __CPROVER_r_ok(fmt, 1), "vsnprintf: format readable");
    return vstr_format(buf, n);
}

/* ---- fgets -------------------------------------------------------------------
 * Stream model: what is left of the current line is vg_stream_left bytes (arbitrary, chosen by the unit); if
 * vg_stream_nl is set the last of them is a newline, otherwise the stream ends there (EOF).  fgets(buf, n, fp)
 * reads min(n-1, left) bytes - never fewer: it only stops early at a newline or at EOF - stores them followed by
 * a NUL and returns buf; with nothing left it returns NULL and leaves the buffer alone.  A byte can be any value
 * including NUL (binary input) except that a newline occurs only as the last byte of the line (instance vg_k).
 * After the newline has been delivered the next line starts: again an arbitrary amount.  vg_fgets_calls counts
 * calls; vg_stream_total accumulates the bytes delivered. */
size_t vg_stream_left, vg_stream_total, vg_fgets_calls;
_Bool vg_stream_nl;
char *fgets(char *buf, int n, FILE *fp)
{
    __CPROVER_assert(fp != NULL, "fgets: stream not NULL");
    __CPROVER_assert(n > 0, "fgets: size positive");
    __CPROVER_assert(buf != NULL && __CPROVER_w_ok(buf, (size_t) n), "fgets: destination has n writable bytes");
    __CPROVER_assume(n > 0 && buf != NULL && __CPROVER_w_ok(buf, (size_t) n));   /* failures above are reported */
    vg_fgets_calls++;
    if (vg_stream_left == 0 || n == 1) return (char *) 0;
    size_t got = (vg_stream_left < (size_t) n - 1) ? vg_stream_left : (size_t) n - 1;
    __CPROVER_havoc_slice(buf, got);
    buf[got] = 0;
    __CPROVER_assume(!(vg_k < got - 1) || buf[vg_k] != '\n');
    vg_stream_left -= got;
    vg_stream_total += got;
    _Bool nl = (vg_stream_left == 0 && vg_stream_nl);
    if (nl) buf[got - 1] = '\n'; else __CPROVER_assume(buf[got - 1] != '\n');
    if (vg_stream_text) __CPROVER_assume(buf[got - 1] != 0 && (!(vg_k < got) || buf[vg_k] != 0));
    vg_fgets_buf = buf; vg_fgets_got = got; vg_fgets_nl = nl;
    if (nl) { vg_stream_left = nondet_size_t(); vg_stream_nl = nondet_bool(); }      /* next line */
    return buf;
}

/* ---- read ----------------------------------------------------------------------
 * Returns -1 with errno set (EINTR, EAGAIN, EIO, EBADF; nothing is promised about the buffer), 0 at end of
 * file, or a count 1..n of bytes stored at the start of buf (short reads allowed).  errno is left alone on
 * success.  A unit can steer the FIRST call through vg_read_first (0 free, 1 data, 2 end of file, 3 EINTR);
 * later calls are free, except that after vg_read_limit calls (a ghost the bounded units fix) only "end of
 * file" is reported.  vg_read_calls counts calls, vg_read_total the bytes delivered. */
size_t vg_read_calls, vg_read_total, vg_read_limit;     /* after vg_read_limit calls the descriptor is at end of file */
int vg_read_first;
/* errno is `*__errno_location()`; contracts cannot name a call in an assigns clause, so the location is a ghost */
int vg_errno;
int *__errno_location(void) { return &vg_errno; }
ssize_t read(int fd, void *buf, size_t n)
{
    __CPROVER_assert(n == 0 || (buf != NULL && __CPROVER_w_ok(buf, n)), "read: destination has n writable bytes");
    __CPROVER_assume(n == 0 || (buf != NULL && __CPROVER_w_ok(buf, n)));          /* failure above is reported */
    int mode = (vg_read_calls == 0) ? vg_read_first : ((vg_read_calls >= vg_read_limit) ? 2 : 0);
    vg_read_calls++;
    _Bool fail = nondet_bool();
    size_t got = nondet_size_t();
    __CPROVER_assume(got <= n);
    if (mode == 1) __CPROVER_assume(!fail && got >= 1);
    if (mode == 2) __CPROVER_assume(!fail && got == 0);
    if (mode == 3) __CPROVER_assume(fail);
    if (fail) {
        int e = nondet_int();
        __CPROVER_assume(e == EINTR || e == EAGAIN || e == EIO || e == EBADF);
        if (mode == 3) __CPROVER_assume(e == EINTR);
        errno = e;
        return -1;
    }
#ifndef VSTR_READ_DATA_UNOBSERVED
    if (got > 0) __CPROVER_havoc_slice(buf, got);
#else
    /* the unit's function never looks at the data and reads into a block that came from malloc/realloc, whose
     * bytes are already arbitrary in cbmc's model: not overwriting them leaves them arbitrary.  Only for units
     * whose obligations do not mention the bytes (init_from_fd: invariant, length, bounds). */
#endif
    vg_read_total += got;
    return (ssize_t) got;
}

#endif
