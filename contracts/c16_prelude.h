/* c16_prelude.h — common part of the generated C16 (NULL-argument) units. */
#ifndef C16_PRELUDE_H
#define C16_PRELUDE_H
#include "vprelude.h"
#include <math.h>

unsigned vg_allocs;

/* "valid other argument": a zero-filled object big enough for every libast class struct, i.e. the
 * empty object of each class ((NULL,0,0) string/buffer, empty container, URL without components),
 * the empty C string, an idle FILE. */
#define C16_BLOB 160
static void *c16_blob(void)
{
    unsigned char *p = malloc(C16_BLOB);
    memset(p, 0, C16_BLOB);
    return p;
}

/* every allocation the code under test performs goes through these names (MALLOC/CALLOC/REALLOC/STRDUP
 * macros of libast.h expand to them at the configured DEBUG level) */
#define malloc(n)      (vg_allocs++, malloc(n))
#define calloc(n, m)   (vg_allocs++, calloc((n), (m)))
#define realloc(p, n)  (vg_allocs++, realloc((p), (n)))
#define strdup(s)      (vg_allocs++, strdup(s))

#define C16_PRE()  do { libast_debug_level = VND(uint, libast_debug_level); vg_k = VND(size_t, vg_k); \
                        __CPROVER_assume(vg_k < C16_BLOB); vg_allocs = 0; } while (0)
/* an arbitrary scalar argument */
#ifdef VERIF_NATIVE
# define C16_ARB(type, name) type name = (type) vn_get(#name, 0)
#else
# define C16_ARB(type, name) type name
#endif
#define C16_UNCHANGED(b) __CPROVER_assert(((unsigned char *) (b))[vg_k] == 0, "C16 no effect: other argument " #b " unchanged")
#define C16_POST() __CPROVER_assert(vg_allocs == 0, "C16 no allocation on the NULL path")
#endif
