/* contracts/socket.h — spec macros and contracts for src/socket.c (owner: net; C19, socket parts of C06).
 * Include after vprelude.h and env_net.h (with NET_KERNEL); part 2 (function contracts) after
 * "src/socket.c":     #include "socket.h"  #include "src/socket.c"  #define NET_SOCKET_API  #include "socket.h"
 *
 * SOCK_INV: the descriptor field of a socket object is "none" (negative) or names a descriptor that is
 * open in the ghost table - the property's "fd >= 0 iff the object owns an open descriptor".
 */
#ifndef VERIF_SOCKET_H
#define VERIF_SOCKET_H

/* ghosts and unit-supplied facts used by annot/socket.c.net.ann (every unit that includes the annotated
 * src/socket.c sees them) */
size_t vg_iter;            /* iterations of spif_socket_send's back-off loop */
int vg_fd0; unsigned vg_calls0;   /* spif_socket_close: descriptor and close() count at entry */
unsigned vg_accept_again;         /* EAGAIN answers given by the accept() stub of units/C19/accept.c */
#ifndef VG_SEND_ERRNO_INV
# define VG_SEND_ERRNO_INV 1
#endif

/* goto-instrument --dfcc aborts (goto_inline, "parameter_assignments Unreachable") on a CALLEE that has a loop
 * contract and expands __DEBUG(), i.e. fprintf(.., (unsigned long) time(NULL), ..) with env.h's time() body nested
 * in the argument.  Units that apply the retry-loop contracts re-bind time() for the debug prints of socket.c to
 * a ghost clock value (only ever printed). */
#if defined(NET_GHOST_CLOCK) && !defined(VERIF_NATIVE)
long vg_now;
# define time(p) ((time_t) vg_now)
#endif

#define SOCK_FD_OK(s)  ((s)->fd < 0 || VG_FD_OPEN((s)->fd))
#define SOCK_IS(s)     (__CPROVER_is_fresh((s), sizeof(spif_const_socket_t)))
/* number of open descriptors other than `fd` is what it was: rendered element-wise with the ghost index
 * vg_k (arbitrary slot): slot vg_k is unchanged unless it is `fd` */
#define VG_SLOT_UNCHANGED_EXCEPT(fd, oldval) (vg_k >= VG_NFD || (int) vg_k == (fd) || vg_fd_open[vg_k] == (oldval))

#endif /* VERIF_SOCKET_H */

#if defined(NET_SOCKET_API) && !defined(VERIF_SOCKET_API_H)
#define VERIF_SOCKET_API_H

/* ---- sender ------------------------------------------------------------------------------------
 * From the property: TRUE  =>  the counts accepted by write() add up to the payload length, and every
 * write() offered exactly the bytes following the last accepted count.  (FALSE: nothing claimed about the
 * stream; the descriptor field is then "none" or still open.) */
spif_bool_t spif_socket_send(spif_socket_t self, spif_str_t data)
__CPROVER_requires(SOCK_IS(self) && VG_FD_OPEN(self->fd))
__CPROVER_requires(__CPROVER_is_fresh(data, sizeof(spif_const_str_t)) && data->len > 0 && data->len < data->size && data->size <= VCAP)
__CPROVER_requires(__CPROVER_is_fresh(data->s, (size_t) data->size) && data->s[data->len] == 0)
__CPROVER_requires(vg_wr_base == (const char *) data->s && vg_wr_len == (size_t) data->len && vg_wr_total == 0 && vg_wr_in_order && vg_wr_retries == 0 && !vg_wr_hard)
__CPROVER_assigns(self->fd, self->flags, VG_KERNEL_ASSIGNS, VG_WRITE_ASSIGNS, vg_wr_base, vg_iter)
__CPROVER_ensures(__CPROVER_return_value == TRUE || __CPROVER_return_value == FALSE)
__CPROVER_ensures(__CPROVER_return_value != TRUE || (vg_wr_total == vg_wr_len && vg_wr_in_order))
/* "however the kernel ... interrupts individual calls (EINTR, EAGAIN)": FALSE only after a write() failed for good */
__CPROVER_ensures(__CPROVER_return_value != FALSE || vg_wr_hard)
__CPROVER_ensures(SOCK_FD_OK(self))
#ifdef NET_SEND_FD_ACCOUNTING
/* "no object left referring to a closed descriptor, every descriptor closed by the time the object is deleted":
 * the object keeps its descriptor, or it forgot it and the descriptor is released */
__CPROVER_ensures(self->fd == __CPROVER_old(self->fd) || (self->fd == -1 && !vg_fd_open[__CPROVER_old(self->fd)]))
#endif
;

/* ---- close -------------------------------------------------------------------------------------- */
spif_bool_t spif_socket_close(spif_socket_t self)
__CPROVER_requires(SOCK_IS(self) && VG_FD_OPEN(self->fd) && vg_k < VG_NFD)
__CPROVER_assigns(self->fd, self->flags, VG_KERNEL_ASSIGNS)
__CPROVER_ensures(self->fd == -1 && !vg_fd_open[__CPROVER_old(self->fd)])
__CPROVER_ensures(VG_SLOT_UNCHANGED_EXCEPT(__CPROVER_old(self->fd), __CPROVER_old(vg_fd_open[vg_k])))
__CPROVER_ensures((self->flags & SPIF_SOCKET_FLAGS_IOSTATE) == 0)
;

#endif /* NET_SOCKET_API */
