/* vprelude.h — first include of every unit TU: the real libast headers (with
 * /repo's own config.h), then the verification environment. */
#ifndef VPRELUDE_H
#define VPRELUDE_H
#include <libast_internal.h>
#include <errno.h>
#include <ctype.h>
#include "env.h"

/* Vacuity canary: must be reachable, i.e. must FAIL.  The driver rejects a
 * unit whose canary is proved (contradictory precondition, or the enforced
 * function never returns). */
#define VERIF_CANARY() __CPROVER_assert(0, "VERIF_CANARY reachable (expected to fail)")
#endif
