/* vprelude.h — first include of every unit TU: the real libast headers (with
 * /repo's own config.h), then the verification environment. */
#ifndef VPRELUDE_H
#define VPRELUDE_H
#include <libast_internal.h>
#include <errno.h>
#include <ctype.h>
#ifdef VERIF_NATIVE
# include "vnative.h"
#else
# include "env.h"
#endif

/* named nondeterministic input: cbmc picks it, the native replay reads the witness value W_<name> */
#ifdef VERIF_NATIVE
# define VND(kind, name) vn_get(#name, 0)
#else
# define VND(kind, name) ({ __typeof__(nondet_##kind()) vnd_##name = nondet_##kind(); vnd_##name; })
#endif

/* Vacuity canary: must be reachable, i.e. must FAIL.  The driver rejects a
 * unit whose canary is proved (contradictory precondition, or the enforced
 * function never returns). */
#ifndef VERIF_NATIVE
#define VERIF_CANARY() __CPROVER_assert(0, "VERIF_CANARY reachable (expected to fail)")
#endif
#endif
