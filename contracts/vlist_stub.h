/* vlist_stub.h — for TUs that USE a list object only through the dispatch macros (tok.c): the
 * SPIF_LIST_* macros are re-bound to a verification list class whose objects are opaque blocks.
 * Dispatching on a NULL list is an obligation (the real macros dereference the object's class).
 * Include after the libast headers and before the .c file. */
#ifndef VLIST_STUB_H
#define VLIST_STUB_H
struct vlist { spif_const_obj_t parent; int id; };
unsigned vl_new, vl_del, vl_dup, vl_append;
static spif_list_t vlist_new(void) { struct vlist *l = malloc(sizeof *l); l->id = nondet_int(); vl_new++; return (spif_list_t) l; }
static spif_list_t vlist_dup(spif_list_t o)
{
    __CPROVER_assert(o != NULL, "list method dispatched on a NULL list object");
    struct vlist *l = malloc(sizeof *l);
    l->id = ((struct vlist *) o)->id;
    vl_dup++;
    return (spif_list_t) l;
}
static spif_bool_t vlist_del(spif_list_t o)
{
    __CPROVER_assert(o != NULL, "list method dispatched on a NULL list object");
    free(o);
    vl_del++;
    return TRUE;
}
static spif_bool_t vlist_append(spif_list_t o, spif_obj_t item)
{
    __CPROVER_assert(o != NULL, "list method dispatched on a NULL list object");
    vl_append++;
    return TRUE;
}
#undef SPIF_LIST_NEW
#undef SPIF_LIST_DUP
#undef SPIF_LIST_DEL
#undef SPIF_LIST_APPEND
#undef SPIF_LIST_SHOW
#define SPIF_LIST_NEW(type)       vlist_new()
#define SPIF_LIST_DUP(o)          vlist_dup((spif_list_t) (o))
#define SPIF_LIST_DEL(o)          vlist_del((spif_list_t) (o))
#define SPIF_LIST_APPEND(o, item) vlist_append((spif_list_t) (o), (spif_obj_t) (item))
#define SPIF_LIST_SHOW(o, b, i)   (b)
#endif
