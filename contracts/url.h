/* contracts/url.h — spec macros for src/url.c and the ASSUMED contracts of the str-class /
 * obj-class functions url.c calls (owner: net; C14 and the url parts of C05/C06).
 *
 * The str contracts below are NOT proved here: units name them in `replace:`; agent `str`
 * proves the str class (C01).  They are written from str.c as it stands:
 *   - constructors return a FRESH object owning a FRESH NUL-terminated buffer whose length is the
 *     strlen / strnlen of the argument, the argument is untouched (no assigns);
 *   - append* on a NON-EMPTY-state string (s != NULL, len < size): len' = len + n, terminator at
 *     len', old text kept, appended text copied (ghost index vg_k), buffer possibly moved.
 *     The (NULL,0,0) state is excluded by `requires` (str.c overruns there: C01 finding), so a
 *     caller that could append to an empty-state string fails that precondition.
 * Include after vprelude.h and env_net.h (needs VCSTR_OK / VCSTR_LEN_IS).
 */
#ifndef VERIF_URL_H
#define VERIF_URL_H

/* ---- str objects ----------------------------------------------------------------------- */
#define NSTR(p) ((spif_str_t) (p))
/* fields of a str in the non-empty state: NUL at len, len < size, buffer of `size` bytes */
#define NSTR_FIELDS_OK(p) (NSTR(p)->len >= 0 && NSTR(p)->len < NSTR(p)->size && NSTR(p)->size <= VCAP && \
    __CPROVER_is_fresh(NSTR(p)->s, (size_t) NSTR(p)->size) && NSTR(p)->s[NSTR(p)->len] == 0)
/* a separately allocated str object in the non-empty state (requires: allocates; ensures: "new") */
#define NSTR_OK(p)  (__CPROVER_is_fresh((p), sizeof(spif_const_str_t)) && NSTR_FIELDS_OK(p))
#define NSTR_OPT(p) ((p) == NULL || NSTR_OK(p))
/* the same for post-states of objects that existed before the call (is_fresh in ensures would
 * mean "allocated by this call"): readable object, buffer readable, terminated */
#define NSTR_STILL_OK(p) (__CPROVER_rw_ok((p), sizeof(spif_const_str_t)) && NSTR(p)->len >= 0 && \
    NSTR(p)->len < NSTR(p)->size && __CPROVER_rw_ok(NSTR(p)->s, (size_t) NSTR(p)->size) && \
    NSTR(p)->s[NSTR(p)->len] == 0)
#define NSTR_OPT_STILL_OK(p) ((p) == NULL || NSTR_STILL_OK(p))

/* byte k of the text, or byte 0 when k is outside it: an index expression that is in bounds for every
 * ghost value (needed inside __CPROVER_old, which is evaluated unconditionally and admits no ?:) */
#define NSTR_BYTE_OR_FIRST(p, k) (NSTR(p)->s[(k) & ((size_t) 0 - (size_t) ((k) < (size_t) NSTR(p)->len))])

/* ---- url objects ----------------------------------------------------------------------- */
/* URL_INV: the object, its text (non-empty state) and seven components each absent or an owned str */
#define URL_TEXT_OK(u)  NSTR_FIELDS_OK(u)
#define URL_COMPS_NULL(u) ((u)->proto == NULL && (u)->user == NULL && (u)->passwd == NULL && (u)->host == NULL && \
    (u)->port == NULL && (u)->path == NULL && (u)->query == NULL)
#define URL_COMPS_OK(u) (NSTR_OPT((u)->proto) && NSTR_OPT((u)->user) && NSTR_OPT((u)->passwd) && NSTR_OPT((u)->host) && \
    NSTR_OPT((u)->port) && NSTR_OPT((u)->path) && NSTR_OPT((u)->query))
#define URL_COMPS_STILL_OK(u) (NSTR_OPT_STILL_OK((u)->proto) && NSTR_OPT_STILL_OK((u)->user) && \
    NSTR_OPT_STILL_OK((u)->passwd) && NSTR_OPT_STILL_OK((u)->host) && NSTR_OPT_STILL_OK((u)->port) && \
    NSTR_OPT_STILL_OK((u)->path) && NSTR_OPT_STILL_OK((u)->query))
#define URL_INV(u) (__CPROVER_is_fresh((u), sizeof(spif_const_url_t)) && URL_TEXT_OK(u) && URL_COMPS_OK(u))
#define URL_COMP_ASSIGNS(u) (u)->proto, (u)->user, (u)->passwd, (u)->host, (u)->port, (u)->path, (u)->query
#define URL_TEXT_ASSIGNS(u) NSTR(u)->s, NSTR(u)->len, NSTR(u)->size

/* ---- ASSUMED callee contracts (str.c, obj.c) --------------------------------------------- */
#ifndef VERIF_NO_ASSUMED_STR_CONTRACTS
/* units that need only shape facts (freshness, length, terminator) of constructor results define
 * NET_NO_CONTENT: the byte-for-byte clauses are then not assumed (a weaker assumption) */
#ifdef NET_NO_CONTENT
# define NET_CONTENT(x)
#else
# define NET_CONTENT(x) x
#endif
#ifdef NET_NO_FREES
# define NET_FREES(x)
#else
# define NET_FREES(x) x
#endif

spif_bool_t spif_obj_set_class(spif_obj_t self, spif_class_t cls)
__CPROVER_requires(__CPROVER_w_ok(self, sizeof(spif_const_obj_t)))
__CPROVER_assigns(self->cls)
__CPROVER_ensures(self->cls == cls && __CPROVER_return_value == TRUE)
;

/* str.c:196  size' = size (+1 when no NUL among the first size bytes); len = strnlen(buff,size).
 * Precondition as url.c's call sites meet it: the slice lies inside the ghost text extent (buff NULL
 * or a slice that relies on an earlier NUL is not used by url.c; socket.c's call site has its own
 * rendering in contracts/socket.h).  Cheap predicates only: r_ok / OBJECT_SIZE based formulations
 * made the SAT instance of spif_url_parse 20x larger (> 10 GB). */
spif_str_t spif_str_new_from_buff(spif_charptr_t buff, spif_stridx_t size)
__CPROVER_requires(size >= 0 && size < VCAP)
__CPROVER_requires(VG_IN_TXT(buff) && (size_t) size <= vg_txt_len - __CPROVER_POINTER_OFFSET(buff))
__CPROVER_assigns()
__CPROVER_ensures(__CPROVER_is_fresh(__CPROVER_return_value, sizeof(spif_const_str_t)))
__CPROVER_ensures(__CPROVER_return_value->len >= 0 && __CPROVER_return_value->len <= size)
__CPROVER_ensures(__CPROVER_return_value->len == size || buff[__CPROVER_return_value->len] == 0)
__CPROVER_ensures(__CPROVER_return_value->size == ((__CPROVER_return_value->len == size) ? size + 1 : size))
__CPROVER_ensures(__CPROVER_is_fresh(__CPROVER_return_value->s, (size_t) __CPROVER_return_value->size))
__CPROVER_ensures(__CPROVER_return_value->s[__CPROVER_return_value->len] == 0)
NET_CONTENT(__CPROVER_ensures(!(vg_k < (size_t) __CPROVER_return_value->len) ||
                  (__CPROVER_return_value->s[vg_k] == buff[vg_k] && buff[vg_k] != 0)))
;

/* str.c:181  (old == NULL falls back to spif_str_init: not used by url.c, excluded) */
spif_str_t spif_str_new_from_ptr(spif_charptr_t old)
__CPROVER_requires(VCSTR_OK(old))
__CPROVER_assigns()
__CPROVER_ensures(__CPROVER_is_fresh(__CPROVER_return_value, sizeof(spif_const_str_t)))
__CPROVER_ensures(__CPROVER_return_value->len >= 0 && VCSTR_LEN_IS(old, __CPROVER_return_value->len))
__CPROVER_ensures(__CPROVER_return_value->size == __CPROVER_return_value->len + 1)
__CPROVER_ensures(__CPROVER_is_fresh(__CPROVER_return_value->s, (size_t) __CPROVER_return_value->size))
__CPROVER_ensures(__CPROVER_return_value->s[__CPROVER_return_value->len] == 0)
NET_CONTENT(__CPROVER_ensures(!(vg_k < (size_t) __CPROVER_return_value->len) ||
                  (__CPROVER_return_value->s[vg_k] == old[vg_k] && old[vg_k] != 0)))
;

spif_bool_t spif_str_init(spif_str_t self)
__CPROVER_requires(__CPROVER_w_ok(self, sizeof(spif_const_str_t)))
__CPROVER_assigns(self->parent.cls, self->s, self->len, self->size)
__CPROVER_ensures(self->s == NULL && self->len == 0 && self->size == 0 && __CPROVER_return_value == TRUE)
;

spif_bool_t spif_str_init_from_ptr(spif_str_t self, spif_charptr_t old)
__CPROVER_requires(self != NULL)
__CPROVER_requires(VCSTR_OK(old))
__CPROVER_assigns(self->parent.cls, self->s, self->len, self->size)
__CPROVER_ensures(__CPROVER_return_value == TRUE)
__CPROVER_ensures(self->len >= 0 && VCSTR_LEN_IS(old, self->len) && self->size == self->len + 1)
__CPROVER_ensures(__CPROVER_is_fresh(self->s, (size_t) self->size) && self->s[self->len] == 0)
NET_CONTENT(__CPROVER_ensures(!(vg_k < (size_t) self->len) || (self->s[vg_k] == old[vg_k] && old[vg_k] != 0)))
;

/* str.c:293  frees the buffer iff size != 0 and resets to (NULL,0,0) */
spif_bool_t spif_str_done(spif_str_t self)
__CPROVER_requires(self != NULL && (self->size == 0 || self->s != NULL))
__CPROVER_assigns(self->s, self->len, self->size)
__CPROVER_frees(self->s)
__CPROVER_ensures(__CPROVER_return_value == TRUE)
__CPROVER_ensures(__CPROVER_old(self->size) == 0 ||
                  (self->s == NULL && self->len == 0 && self->size == 0 && __CPROVER_was_freed(__CPROVER_old(self->s))))
__CPROVER_ensures(__CPROVER_old(self->size) != 0 ||
                  (self->s == __CPROVER_old(self->s) && self->len == __CPROVER_old(self->len) && self->size == 0))
;

/* str.c:306  done + free of the object itself */
spif_bool_t spif_str_del(spif_str_t self)
__CPROVER_requires(__CPROVER_rw_ok(self, sizeof(spif_const_str_t)))
__CPROVER_requires(self->size == 0 || self->s == NULL || __CPROVER_r_ok(self->s, 0))
__CPROVER_assigns(self->s, self->len, self->size)
__CPROVER_frees(self, self->s)
__CPROVER_ensures(__CPROVER_return_value == TRUE)
__CPROVER_ensures(__CPROVER_was_freed(__CPROVER_old(self)))
__CPROVER_ensures(__CPROVER_old(self->size) == 0 || __CPROVER_old(self->s) == NULL ||
                  __CPROVER_was_freed(__CPROVER_old(self->s)))
;

/* str.c:368/383/398 on the non-empty state (s != NULL, NUL at len < size).  `other` is left untouched.
 *
 * Two renderings, chosen per unit:
 *
 * NET_STR_VIEW (spif_url_unparse): the buffer is represented by the GHOST VIEW
 *      vg_view_of   the str object whose text is being observed
 *      vg_view      the byte at index vg_k of that text (meaningful while vg_k < len)
 *   and the contracts say how an append changes length and view; the buffer pointer is re-seated to
 *   some non-NULL value.  This is what C01 proves about append* read through the representation
 *   relation  vg_view == self->s[vg_k]  (old text kept, appended text copied); because vg_k is
 *   arbitrary it is the whole text.  The byte-array form of the same contracts (below) made a chain
 *   of 16 calls a 14M-variable SAT instance (>10 GB): every call re-seats s, so every later access
 *   case-splits over all earlier buffers.  The frees clause names the old buffer (REALLOC).
 *
 * default (byte-array form): the new buffer is a fresh object of `size` bytes, terminated, bytes by
 *   ghost index; re-allocated exactly when str.c calls REALLOC. */
#ifdef NET_STR_VIEW
spif_str_t vg_view_of;
spif_char_t vg_view;
#define NET_VIEW_ASSIGNS vg_view

spif_bool_t spif_str_append(spif_str_t self, spif_str_t other)
__CPROVER_requires(self != NULL && self->s != NULL && self->len >= 0 && self->len < self->size && self->size <= VCAP)
__CPROVER_requires(other != NULL && other->s != NULL && other->len >= 0 && other->len < other->size && other->size <= VCAP)
__CPROVER_requires(other->s[other->len] == 0 && self == vg_view_of)
__CPROVER_assigns(self->s, self->len, self->size, vg_view)
NET_FREES(__CPROVER_frees(self->s))
__CPROVER_ensures(__CPROVER_return_value == TRUE && self->s != NULL)
__CPROVER_ensures(self->len == __CPROVER_old(self->len) + other->len)
__CPROVER_ensures(self->size == __CPROVER_old(self->size) + ((other->len != 0) ? other->size - 1 : 0))
__CPROVER_ensures(vg_view == ((vg_k >= (size_t) __CPROVER_old(self->len) && vg_k < (size_t) self->len)
                              ? other->s[vg_k - (size_t) __CPROVER_old(self->len)] : __CPROVER_old(vg_view)))
;
spif_bool_t spif_str_append_char(spif_str_t self, spif_char_t c)
__CPROVER_requires(self != NULL && self->s != NULL && self->len >= 0 && self->len < self->size && self->size < VCAP)
__CPROVER_requires(self == vg_view_of)
__CPROVER_assigns(self->s, self->len, self->size, vg_view)
NET_FREES(__CPROVER_frees(self->s))
__CPROVER_ensures(__CPROVER_return_value == TRUE && self->s != NULL)
__CPROVER_ensures(self->len == __CPROVER_old(self->len) + 1)
__CPROVER_ensures(self->size == __CPROVER_old(self->size) + ((__CPROVER_old(self->size) <= self->len) ? 1 : 0))
__CPROVER_ensures(vg_view == ((vg_k == (size_t) __CPROVER_old(self->len)) ? c : __CPROVER_old(vg_view)))
;
spif_bool_t spif_str_append_from_ptr(spif_str_t self, spif_charptr_t other)
__CPROVER_requires(self != NULL && self->s != NULL && self->len >= 0 && self->len < self->size && self->size <= VCAP)
__CPROVER_requires(VCSTR_OK(other) && self == vg_view_of)
__CPROVER_assigns(self->s, self->len, self->size, vg_view)
NET_FREES(__CPROVER_frees(self->s))
__CPROVER_ensures(__CPROVER_return_value == TRUE && self->s != NULL)
__CPROVER_ensures(self->len >= __CPROVER_old(self->len) && VCSTR_LEN_IS(other, self->len - __CPROVER_old(self->len)))
__CPROVER_ensures(self->size == __CPROVER_old(self->size) + (self->len - __CPROVER_old(self->len)))
__CPROVER_ensures(vg_view == ((vg_k >= (size_t) __CPROVER_old(self->len) && vg_k < (size_t) self->len)
                              ? other[vg_k - (size_t) __CPROVER_old(self->len)] : __CPROVER_old(vg_view)))
;
#else
spif_bool_t spif_str_append(spif_str_t self, spif_str_t other)
__CPROVER_requires(self != NULL && self->s != NULL && self->len >= 0 && self->len < self->size && self->size <= VCAP)
__CPROVER_requires(other != NULL && other->s != NULL && other->len >= 0 && other->len < other->size && other->size <= VCAP)
__CPROVER_requires(other->s[other->len] == 0 && !__CPROVER_same_object(self->s, other->s))
__CPROVER_assigns(self->s, self->len, self->size)
__CPROVER_frees(other->len != 0: self->s)
__CPROVER_ensures(__CPROVER_return_value == TRUE)
__CPROVER_ensures(self->len == __CPROVER_old(self->len) + other->len)
__CPROVER_ensures(self->size == __CPROVER_old(self->size) + ((other->len != 0) ? other->size - 1 : 0))
__CPROVER_ensures((other->len != 0 && __CPROVER_is_fresh(self->s, (size_t) self->size)) ||
                  (other->len == 0 && self->s == __CPROVER_old(self->s)))
__CPROVER_ensures(self->s[self->len] == 0)
NET_CONTENT(__CPROVER_ensures(!(vg_k < (size_t) __CPROVER_old(self->len)) ||
                  self->s[vg_k] == __CPROVER_old(NSTR_BYTE_OR_FIRST(self, vg_k))))
NET_CONTENT(__CPROVER_ensures(!(vg_k >= (size_t) __CPROVER_old(self->len) && vg_k < (size_t) self->len) ||
                  self->s[vg_k] == other->s[vg_k - (size_t) __CPROVER_old(self->len)]))
;

spif_bool_t spif_str_append_char(spif_str_t self, spif_char_t c)
__CPROVER_requires(self != NULL && self->s != NULL && self->len >= 0 && self->len < self->size && self->size < VCAP)
__CPROVER_assigns(self->s, self->len, self->size)
__CPROVER_assigns(self->size > self->len + 1: __CPROVER_object_whole(self->s))
__CPROVER_frees(self->size <= self->len + 1: self->s)
__CPROVER_ensures(__CPROVER_return_value == TRUE)
__CPROVER_ensures(self->len == __CPROVER_old(self->len) + 1)
__CPROVER_ensures((__CPROVER_old(self->size) <= self->len && self->size == __CPROVER_old(self->size) + 1 &&
                   __CPROVER_is_fresh(self->s, (size_t) self->size)) ||
                  (__CPROVER_old(self->size) > self->len && self->size == __CPROVER_old(self->size) &&
                   self->s == __CPROVER_old(self->s)))
__CPROVER_ensures(self->s[self->len] == 0 && self->s[self->len - 1] == c)
NET_CONTENT(__CPROVER_ensures(!(vg_k < (size_t) __CPROVER_old(self->len)) ||
                  self->s[vg_k] == __CPROVER_old(NSTR_BYTE_OR_FIRST(self, vg_k))))
;

spif_bool_t spif_str_append_from_ptr(spif_str_t self, spif_charptr_t other)
__CPROVER_requires(self != NULL && self->s != NULL && self->len >= 0 && self->len < self->size && self->size <= VCAP)
__CPROVER_requires(VCSTR_OK(other) && !__CPROVER_same_object(self->s, other))
__CPROVER_assigns(self->s, self->len, self->size)
__CPROVER_frees(other[0] != 0: self->s)
__CPROVER_ensures(__CPROVER_return_value == TRUE)
__CPROVER_ensures(self->len >= __CPROVER_old(self->len) && VCSTR_LEN_IS(other, self->len - __CPROVER_old(self->len)))
__CPROVER_ensures(self->size == __CPROVER_old(self->size) + (self->len - __CPROVER_old(self->len)))
__CPROVER_ensures((other[0] != 0 && __CPROVER_is_fresh(self->s, (size_t) self->size)) ||
                  (other[0] == 0 && self->s == __CPROVER_old(self->s)))
__CPROVER_ensures(self->s[self->len] == 0)
NET_CONTENT(__CPROVER_ensures(!(vg_k < (size_t) __CPROVER_old(self->len)) ||
                  self->s[vg_k] == __CPROVER_old(NSTR_BYTE_OR_FIRST(self, vg_k))))
NET_CONTENT(__CPROVER_ensures(!(vg_k >= (size_t) __CPROVER_old(self->len) && vg_k < (size_t) self->len) ||
                  self->s[vg_k] == other[vg_k - (size_t) __CPROVER_old(self->len)]))
;
#endif

/* str.c:348  fresh object with a fresh copy of the text (same length, same bytes by ghost index); argument untouched.
 * (Used by spif_url_dup since fix 6400880.) */
spif_str_t spif_str_dup(spif_str_t self)
__CPROVER_requires(self != NULL && self->s != NULL && self->len >= 0 && self->len < self->size && self->size <= VCAP)
__CPROVER_assigns()
__CPROVER_ensures(__CPROVER_is_fresh(__CPROVER_return_value, sizeof(spif_const_str_t)))
/* (only len+1 bytes are promised for the copy's buffer: str.c keeps the original's `size` field but STRDUPs
 * the text - open finding C01-dup-size of agent str - so the copy's capacity must not be relied on) */
__CPROVER_ensures(__CPROVER_return_value->len == self->len && __CPROVER_return_value->size > self->len)
__CPROVER_ensures(__CPROVER_is_fresh(__CPROVER_return_value->s, (size_t) self->len + 1))
__CPROVER_ensures(__CPROVER_return_value->s[self->len] == 0)
NET_CONTENT(__CPROVER_ensures(!(vg_k < (size_t) self->len) || __CPROVER_return_value->s[vg_k] == self->s[vg_k]))
;

/* str.c:340/443: three-way result of strcmp on the two texts, NULL before every object.
 * ASSUMES (with C01/C05 of agent str): strcmp is a total order on NUL-terminated texts. */
spif_cmp_t spif_str_comp(spif_str_t self, spif_str_t other)
__CPROVER_requires(self == NULL || (__CPROVER_r_ok(self, sizeof(spif_const_str_t)) && VCSTR_OK(self->s)))
__CPROVER_requires(other == NULL || (__CPROVER_r_ok(other, sizeof(spif_const_str_t)) && VCSTR_OK(other->s)))
__CPROVER_assigns()
__CPROVER_ensures(__CPROVER_return_value == SPIF_CMP_LESS || __CPROVER_return_value == SPIF_CMP_EQUAL ||
                  __CPROVER_return_value == SPIF_CMP_GREATER)
__CPROVER_ensures(!(self == NULL && other == NULL) || __CPROVER_return_value == SPIF_CMP_EQUAL)
__CPROVER_ensures(!(self == NULL && other != NULL) || __CPROVER_return_value == SPIF_CMP_LESS)
__CPROVER_ensures(!(self != NULL && other == NULL) || __CPROVER_return_value == SPIF_CMP_GREATER)
__CPROVER_ensures(!(self != NULL && self == other) || __CPROVER_return_value == SPIF_CMP_EQUAL)
;

#endif /* VERIF_NO_ASSUMED_STR_CONTRACTS */
#endif /* VERIF_URL_H */

#if defined(NET_URL_API) && !defined(VERIF_URL_API_H)
#define VERIF_URL_API_H
/* ==== PART 2: contracts of the url class's own functions =========================================
 * Needs "src/url.c" first (spif_url_parse and u_class are file-local): units write
 *      #include "url.h"   #include "src/url.c"   #define NET_URL_API   #include "url.h"
 * Each contract is enforced by exactly one unit (C14.parse.*, C06.url_*, C05.url_*) and used through
 * `replace:` by the callers inside url.c / socket.c.
 */

#define URL_CLS(u) (NSTR(u)->parent.cls)
/* post-state "empty URL": what init establishes and done re-establishes */
#define URL_EMPTY(u) (NSTR(u)->s == NULL && NSTR(u)->len == 0 && NSTR(u)->size == 0 && URL_COMPS_NULL(u))
/* the argument text of the from_ptr / from_str constructors: a C string described by the ghost extent */
/* (vg_n1 = its length, a ghost nobody assigns; vg_txt/vg_txt_len are re-seated by the parser) */
#define URL_ARG_TEXT(p) (vg_n1 < VCAP && __CPROVER_is_fresh((p), vg_n1 + 1) && vg_txt == (const char *) (p) && \
                         vg_txt_len == vg_n1 && ((const char *) (p))[vg_n1] == 0)

/* ---- C14: the parser (enforced in units/C14/parse.c with the same clauses) ---------------------- */
static spif_bool_t spif_url_parse(spif_url_t self)
__CPROVER_requires(__CPROVER_rw_ok(self, sizeof(spif_const_url_t)) && URL_COMPS_NULL(self))
__CPROVER_requires(NSTR(self)->s != NULL && NSTR(self)->len >= 0 && NSTR(self)->len < NSTR(self)->size &&
                   NSTR(self)->s[NSTR(self)->len] == 0)
__CPROVER_assigns(URL_COMP_ASSIGNS(self), vg_txt, vg_txt_len, vg_buf, vg_buf_len, VG_LOOKUP_ASSIGNS)
__CPROVER_ensures(__CPROVER_return_value == TRUE || __CPROVER_return_value == FALSE)
__CPROVER_ensures(NSTR_OPT(self->proto))
__CPROVER_ensures(NSTR_OPT(self->user))
__CPROVER_ensures(NSTR_OPT(self->passwd))
__CPROVER_ensures(NSTR_OPT(self->host))
__CPROVER_ensures(NSTR_OPT(self->port))
__CPROVER_ensures(NSTR_OPT(self->path))
__CPROVER_ensures(NSTR_OPT(self->query))
__CPROVER_ensures(self->passwd == NULL || self->user != NULL)
;

/* ---- C06: lifecycle ---------------------------------------------------------------------------- */
spif_bool_t spif_url_init(spif_url_t self)
__CPROVER_requires(__CPROVER_is_fresh(self, sizeof(spif_const_url_t)))
__CPROVER_assigns(__CPROVER_object_whole(self))
__CPROVER_ensures(__CPROVER_return_value == TRUE && URL_EMPTY(self) && URL_CLS(self) == SPIF_CLASS_VAR(url))
;

spif_url_t spif_url_new(void)
__CPROVER_assigns()
__CPROVER_ensures(__CPROVER_is_fresh(__CPROVER_return_value, sizeof(spif_const_url_t)))
__CPROVER_ensures(URL_EMPTY(__CPROVER_return_value) && URL_CLS(__CPROVER_return_value) == SPIF_CLASS_VAR(url))
;

#define URL_FREES_COMP(c) __CPROVER_frees(c) __CPROVER_frees((c) != NULL: (c)->s)
spif_bool_t spif_url_done(spif_url_t self)
__CPROVER_requires(URL_INV(self))
__CPROVER_assigns(URL_COMP_ASSIGNS(self), URL_TEXT_ASSIGNS(self))
__CPROVER_assigns(self->proto != NULL: __CPROVER_object_whole(self->proto))
__CPROVER_assigns(self->user != NULL: __CPROVER_object_whole(self->user))
__CPROVER_assigns(self->passwd != NULL: __CPROVER_object_whole(self->passwd))
__CPROVER_assigns(self->host != NULL: __CPROVER_object_whole(self->host))
__CPROVER_assigns(self->port != NULL: __CPROVER_object_whole(self->port))
__CPROVER_assigns(self->path != NULL: __CPROVER_object_whole(self->path))
__CPROVER_assigns(self->query != NULL: __CPROVER_object_whole(self->query))
__CPROVER_frees(NSTR(self)->s)
URL_FREES_COMP(self->proto) URL_FREES_COMP(self->user) URL_FREES_COMP(self->passwd) URL_FREES_COMP(self->host)
URL_FREES_COMP(self->port) URL_FREES_COMP(self->path) URL_FREES_COMP(self->query)
__CPROVER_ensures(__CPROVER_return_value == TRUE && URL_EMPTY(self))
/* every owned block was released: the component objects ... */
__CPROVER_ensures(__CPROVER_old(self->proto) == NULL || __CPROVER_was_freed(__CPROVER_old(self->proto)))
__CPROVER_ensures(__CPROVER_old(self->user) == NULL || __CPROVER_was_freed(__CPROVER_old(self->user)))
__CPROVER_ensures(__CPROVER_old(self->passwd) == NULL || __CPROVER_was_freed(__CPROVER_old(self->passwd)))
__CPROVER_ensures(__CPROVER_old(self->host) == NULL || __CPROVER_was_freed(__CPROVER_old(self->host)))
__CPROVER_ensures(__CPROVER_old(self->port) == NULL || __CPROVER_was_freed(__CPROVER_old(self->port)))
__CPROVER_ensures(__CPROVER_old(self->path) == NULL || __CPROVER_was_freed(__CPROVER_old(self->path)))
__CPROVER_ensures(__CPROVER_old(self->query) == NULL || __CPROVER_was_freed(__CPROVER_old(self->query)))
/* ... and the text buffer */
__CPROVER_ensures(__CPROVER_was_freed(__CPROVER_old(NSTR(self)->s)))
;

spif_bool_t spif_url_del(spif_url_t self)
__CPROVER_requires(URL_INV(self))
__CPROVER_assigns(__CPROVER_object_whole(self))
__CPROVER_assigns(self->proto != NULL: __CPROVER_object_whole(self->proto))
__CPROVER_assigns(self->user != NULL: __CPROVER_object_whole(self->user))
__CPROVER_assigns(self->passwd != NULL: __CPROVER_object_whole(self->passwd))
__CPROVER_assigns(self->host != NULL: __CPROVER_object_whole(self->host))
__CPROVER_assigns(self->port != NULL: __CPROVER_object_whole(self->port))
__CPROVER_assigns(self->path != NULL: __CPROVER_object_whole(self->path))
__CPROVER_assigns(self->query != NULL: __CPROVER_object_whole(self->query))
__CPROVER_frees(self, NSTR(self)->s)
URL_FREES_COMP(self->proto) URL_FREES_COMP(self->user) URL_FREES_COMP(self->passwd) URL_FREES_COMP(self->host)
URL_FREES_COMP(self->port) URL_FREES_COMP(self->path) URL_FREES_COMP(self->query)
__CPROVER_ensures(__CPROVER_return_value == TRUE && __CPROVER_was_freed(__CPROVER_old(self)))
;

/* from_ptr / from_str: the new text is a fresh terminated copy of the argument's length; the argument is
 * not assigned; the components are whatever the parser stored (each absent or a fresh owned str) */
#define URL_BUILT(u, src) (URL_CLS(u) == SPIF_CLASS_VAR(url) && NSTR(u)->len >= 0 && (size_t) NSTR(u)->len == vg_n1 && \
    NSTR(u)->size == NSTR(u)->len + 1 && __CPROVER_is_fresh(NSTR(u)->s, (size_t) NSTR(u)->size) && NSTR(u)->s[NSTR(u)->len] == 0 && \
    (!(vg_k < vg_n1) || NSTR(u)->s[vg_k] == ((const char *) (src))[vg_k]))
#define URL_BUILT_COMPS(u) (NSTR_OPT((u)->proto) && NSTR_OPT((u)->user) && NSTR_OPT((u)->passwd) && NSTR_OPT((u)->host) && \
    NSTR_OPT((u)->port) && NSTR_OPT((u)->path) && NSTR_OPT((u)->query))

spif_bool_t spif_url_init_from_ptr(spif_url_t self, spif_charptr_t other)
__CPROVER_requires(__CPROVER_is_fresh(self, sizeof(spif_const_url_t)) && URL_ARG_TEXT(other))
__CPROVER_assigns(__CPROVER_object_whole(self), vg_txt, vg_txt_len, vg_buf, vg_buf_len, VG_LOOKUP_ASSIGNS)
__CPROVER_ensures(__CPROVER_return_value == TRUE && URL_BUILT(self, other))
__CPROVER_ensures(URL_BUILT_COMPS(self))
;
spif_bool_t spif_url_init_from_str(spif_url_t self, spif_str_t other)
__CPROVER_requires(__CPROVER_is_fresh(self, sizeof(spif_const_url_t)) && __CPROVER_is_fresh(other, sizeof(spif_const_str_t)))
__CPROVER_requires(URL_ARG_TEXT(other->s) && other->len >= 0 && (size_t) other->len == vg_n1 && other->size > other->len)
__CPROVER_assigns(__CPROVER_object_whole(self), vg_txt, vg_txt_len, vg_buf, vg_buf_len, VG_LOOKUP_ASSIGNS)
__CPROVER_ensures(__CPROVER_return_value == TRUE && URL_BUILT(self, other->s))
__CPROVER_ensures(URL_BUILT_COMPS(self))
;
spif_url_t spif_url_new_from_ptr(spif_charptr_t other)
__CPROVER_requires(URL_ARG_TEXT(other))
__CPROVER_assigns(vg_txt, vg_txt_len, vg_buf, vg_buf_len, VG_LOOKUP_ASSIGNS)
__CPROVER_ensures(__CPROVER_is_fresh(__CPROVER_return_value, sizeof(spif_const_url_t)) && URL_BUILT(__CPROVER_return_value, other))
__CPROVER_ensures(URL_BUILT_COMPS(__CPROVER_return_value))
;
spif_url_t spif_url_new_from_str(spif_str_t other)
__CPROVER_requires(__CPROVER_is_fresh(other, sizeof(spif_const_str_t)))
__CPROVER_requires(URL_ARG_TEXT(other->s) && other->len >= 0 && (size_t) other->len == vg_n1 && other->size > other->len)
__CPROVER_assigns(vg_txt, vg_txt_len, vg_buf, vg_buf_len, VG_LOOKUP_ASSIGNS)
__CPROVER_ensures(__CPROVER_is_fresh(__CPROVER_return_value, sizeof(spif_const_url_t)) && URL_BUILT(__CPROVER_return_value, other->s))
__CPROVER_ensures(URL_BUILT_COMPS(__CPROVER_return_value))
;
/* ---- C05: dup / comp / type -------------------------------------------------------------------- */
/* dup: a NEW object with a NEW text buffer holding the same text (length, terminator, byte vg_k) and, for every
 * component, absent iff absent in the original, otherwise a NEW string with the same length and the same bytes
 * (ghost index vg_k2); the original is not assigned.  (Since fix 6400880 the components are copied one by one.) */
#define URL_COMP_COPIED(r, o) (((r) == NULL) == ((o) == NULL) && ((o) == NULL || \
    (__CPROVER_is_fresh((r), sizeof(spif_const_str_t)) && (r)->len == (o)->len && (r)->size > (r)->len && \
     __CPROVER_is_fresh((r)->s, (size_t) (r)->len + 1) && (r)->s[(r)->len] == 0 && \
     (!(vg_k < (size_t) (o)->len) || (r)->s[vg_k] == (o)->s[vg_k]))))
spif_url_t spif_url_dup(spif_url_t self)
__CPROVER_requires(__CPROVER_is_fresh(self, sizeof(spif_const_url_t)) && URL_COMPS_OK(self))
__CPROVER_requires(URL_ARG_TEXT(NSTR(self)->s) && NSTR(self)->len >= 0 && (size_t) NSTR(self)->len == vg_n1 && NSTR(self)->size > NSTR(self)->len)
__CPROVER_assigns()
__CPROVER_ensures(__CPROVER_is_fresh(__CPROVER_return_value, sizeof(spif_const_url_t)) && URL_BUILT(__CPROVER_return_value, NSTR(self)->s))
__CPROVER_ensures(URL_COMP_COPIED(__CPROVER_return_value->proto, self->proto))
__CPROVER_ensures(URL_COMP_COPIED(__CPROVER_return_value->user, self->user))
__CPROVER_ensures(URL_COMP_COPIED(__CPROVER_return_value->passwd, self->passwd))
__CPROVER_ensures(URL_COMP_COPIED(__CPROVER_return_value->host, self->host))
__CPROVER_ensures(URL_COMP_COPIED(__CPROVER_return_value->port, self->port))
__CPROVER_ensures(URL_COMP_COPIED(__CPROVER_return_value->path, self->path))
__CPROVER_ensures(URL_COMP_COPIED(__CPROVER_return_value->query, self->query))
;
/* comp: NULL before every object, otherwise the three-way comparison of the two texts */
spif_cmp_t spif_url_comp(spif_url_t self, spif_url_t other)
__CPROVER_requires(self == NULL || (__CPROVER_is_fresh(self, sizeof(spif_const_url_t)) && NSTR(self)->s == NULL))
__CPROVER_requires(other == NULL || other == self || (__CPROVER_is_fresh(other, sizeof(spif_const_url_t)) && NSTR(other)->s == NULL))
__CPROVER_assigns()
__CPROVER_ensures(__CPROVER_return_value == SPIF_CMP_LESS || __CPROVER_return_value == SPIF_CMP_EQUAL || __CPROVER_return_value == SPIF_CMP_GREATER)
__CPROVER_ensures(!(self == NULL && other == NULL) || __CPROVER_return_value == SPIF_CMP_EQUAL)
__CPROVER_ensures(!(self == NULL && other != NULL) || __CPROVER_return_value == SPIF_CMP_LESS)
__CPROVER_ensures(!(self != NULL && other == NULL) || __CPROVER_return_value == SPIF_CMP_GREATER)
__CPROVER_ensures(!(self != NULL && self == other) || __CPROVER_return_value == SPIF_CMP_EQUAL)
;
spif_classname_t spif_url_type(spif_url_t self)
__CPROVER_requires(__CPROVER_is_fresh(self, sizeof(spif_const_url_t)) && __CPROVER_is_fresh(URL_CLS(self), sizeof(SPIF_CONST_TYPE(class))))
__CPROVER_assigns()
__CPROVER_ensures(__CPROVER_return_value == URL_CLS(self)->classname)
;
#endif /* NET_URL_API */
