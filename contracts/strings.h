/* contracts/strings.h — spec macros for src/strings.c (C12, C13, C17) */
#ifndef VERIF_STRINGS_H
#define VERIF_STRINGS_H
/* src is a C string of exactly n characters (no NUL before n): quantified, SMT units only */
#define VCSTR_EXACT(p, n) (VCSTR_FRESH(p, n) && __CPROVER_forall { size_t vq_i; (vq_i < (n)) ==> ((const char *)(p))[vq_i] != 0 })
/* quantifier-free rendering: exactness instantiated at the ghost position j only; clauses that
 * need the fact at the loop's exit offset are guarded by (vg_exit == j), and j is arbitrary */
#define VCSTR_EXACT_AT(p, n, j) (VCSTR_FRESH(p, n) && (!((j) < (n)) || ((const char *)(p))[(j)] != 0))
#define VMIN(a, b) ((a) < (b) ? (a) : (b))
#endif
