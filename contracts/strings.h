/* contracts/strings.h — spec macros for src/strings.c (C12, C13, C17) */
#ifndef VERIF_STRINGS_H
#define VERIF_STRINGS_H
/* src is a C string of exactly n characters (no NUL before n): quantified, SMT units only */
#define VCSTR_EXACT(p, n) (VCSTR_FRESH(p, n) && __CPROVER_forall { size_t vq_i; (vq_i < (n)) ==> ((const char *)(p))[vq_i] != 0 })
/* quantifier-free rendering: exactness instantiated at the ghost position j only; clauses that
 * need the fact at the loop's exit offset are guarded by (vg_exit == j), and j is arbitrary */
#define VCSTR_EXACT_AT(p, n, j) (VCSTR_FRESH(p, n) && (!((j) < (n)) || ((const char *)(p))[(j)] != 0))
#define VMIN(a, b) ((a) < (b) ? (a) : (b))

/* annot/strings.c.split.ann (owner split) uses the macros of contracts/split.h in the annotated copy of
 * strings.c: every unit that includes src/strings.c needs them */
#if defined(__has_include)
# if __has_include("split.h")
#  include "split.h"
# endif
#endif

/* ---- owner strhelp ------------------------------------------------------------------------- */
#define VOFF(p) __CPROVER_POINTER_OFFSET(p)
/* offset of p relative to q (same object) */
#define VREL(p, q) (VOFF(p) - VOFF(q))
/* anchor relative to a base pointer that need not be the start of its object (safe_strncpy is
 * called by safe_strncat with dest + len) */
#define VERIF_ANCHOR_REL(p, base) do { \
    __CPROVER_assert(__CPROVER_same_object((p), (base)), "anchor: " #p " stays inside object of " #base); \
    (p) = (base) + VREL(p, base); } while (0)
/* a C string of exactly n characters at the start of its own object of cap bytes (cap > n: slack
 * bytes after the terminator exist and must stay untouched); exactness instantiated at ghost j */
#define VCSTR_IN_BUF_AT(p, n, cap, j) ((cap) <= VCAP && (n) < (cap) && __CPROVER_is_fresh((p), (cap)) && \
    ((const char *)(p))[(n)] == 0 && (!((j) < (n)) || ((const char *)(p))[(j)] != 0))
/* ctype reference predicates written from the C standard ("C" locale), on the VALUE the property
 * speaks about (the byte as unsigned char) */
#define V_ISSPACE(c) ((c) == ' ' || (c) == '\t' || (c) == '\n' || (c) == '\v' || (c) == '\f' || (c) == '\r')
#define V_ISUPPER(c) ((c) >= 'A' && (c) <= 'Z')
#define V_ISLOWER(c) ((c) >= 'a' && (c) <= 'z')
#define V_ISCNTRL(c) (((c) >= 0 && (c) < 32) || (c) == 127)
#define V_TOLOWER(c) (V_ISUPPER(c) ? (c) + ('a' - 'A') : (c))
#define V_TOUPPER(c) (V_ISLOWER(c) ? (c) - ('a' - 'A') : (c))
#endif
