/* contracts/hashes.h — spec macros and ghosts for src/builtin_hashes.c (C18).
 * Included BEFORE the (annotated) source: the loop annotations refer to the ghosts. */
#ifndef VERIF_HASHES_H
#define VERIF_HASHES_H

/* Ghost placement of the key: the key is the LAST nbytes of a fresh object that starts
 * vg_halign (0..7) bytes before it.  With vg_halign == 0 the key is the whole object, so any
 * read outside [key, key+nbytes) is a failed pointer check; with vg_halign in 1..7 the key
 * sits at every offset class the alignment dispatch of spifhash_jenkinsLE can see (the code
 * inspects the address only through `& 3`), reads behind the key still fail the pointer check,
 * and "never in front of the key" is part of the loop invariants (offset >= vg_halign; all
 * subscripts in the loop bodies are non-negative constants). */
spif_uint8_t *vg_hbase;
size_t vg_halign;

/* symbolic key length up to 10^8 bytes (cap only keeps offset arithmetic representable) */
#define HASH_MAXLEN 100000000UL

#define HASH_KEY_PRE(key, nbytes) \
    (vg_halign < 8 && (size_t) (nbytes) <= HASH_MAXLEN && \
     __CPROVER_is_fresh(vg_hbase, vg_halign + (size_t) (nbytes)) && (key) == vg_hbase + vg_halign)

/* anchor for a walking pointer of another type than the base (jenkins32's key_dword) */
#define VERIF_ANCHOR_T(p, base, T) do { \
    __CPROVER_assert(__CPROVER_same_object((p), (base)), "anchor: " #p " stays inside object of " #base); \
    (p) = (T) ((spif_uint8_t *) (base) + __CPROVER_POINTER_OFFSET(p)); } while (0)

#endif
