/* env_mbuff.h — environment stubs used by the mbuff units (owner: mbuff).
 * Include after vprelude.h.  Everything here is about code OUTSIDE /repo (libc / OS)
 * and is part of the trusted base.  Every stub is an OVER-APPROXIMATION of the
 * documented behaviour (man pages / ISO C) unless marked ASSUMES.
 *
 * Ghost instantiation points: vg_k, vg_k2 (env.h) and vg_j are arbitrary; a stub that
 * would need a universally quantified fact ("all n bytes are copied", "all bytes
 * before d are equal") states it at these points only.  A clause proved for arbitrary
 * ghost values is the universally quantified clause (DESIGN.md 2.2).
 */
#ifndef VERIF_ENV_MBUFF_H
#define VERIF_ENV_MBUFF_H

#include <stdarg.h>
#include <unistd.h>

/* ==== block copies ============================================================
 * cbmc's own memcpy/memmove/realloc models copy whole arrays of symbolic length;
 * with realloc + memmove + memcpy in one function no back end finished (cadical,
 * minisat, z3: > 100 s; cvc5: unknown as soon as the canary is in the run).
 * Units that define VERIF_MB_GHOSTCOPY use these models instead.
 *
 * OVER-APPROXIMATION: the whole destination OBJECT becomes ARBITRARY (more than the
 * n bytes: havocking the object is much cheaper for the solvers than havocking a slice of
 * symbolic length), except that its bytes at offsets vg_k and vg_k2 hold what the real
 * function leaves there (the copied byte inside the range, the old byte outside it).  The real functions copy every byte, so
 * they are one of the behaviours of the model for every value of the ghosts.
 * Units that need one ghost offset only define VERIF_MB_GHOST1 (vg_k2 is then not tracked).
 * Memory safety is checked exactly: source readable, destination writable for n bytes
 * (n == 0 with any pointer is accepted, as glibc does and C2y defines). */
#ifdef VERIF_MB_GHOSTCOPY
/* The accesses inside this helper are covered by the r_ok/w_ok assertions of its callers
 * (checked obligations): offsets below n of s and d, offsets below the object size of d's
 * object.  cbmc's own per-access checks are therefore switched off inside it (they restate
 * the same facts through 64-bit offset arithmetic and cost minutes). */
#pragma CPROVER check push
#pragma CPROVER check disable "pointer"
#pragma CPROVER check disable "pointer-overflow"
#pragma CPROVER check disable "pointer-primitive"
#pragma CPROVER check disable "bounds"
#pragma CPROVER check disable "conversion"
#pragma CPROVER check disable "signed-overflow"
static void vg_ghost_copy(unsigned char *d, const unsigned char *s, size_t n)
{
    size_t doff = __CPROVER_POINTER_OFFSET(d), osz = __CPROVER_OBJECT_SIZE(d);
    unsigned char *base = d - doff;
    /* the ghost offsets of the destination OBJECT: new value if inside the copied range, else kept */
    _Bool v1 = vg_k < osz;
    unsigned char b1 = !v1 ? 0 : (doff <= vg_k && vg_k - doff < n) ? s[vg_k - doff] : base[vg_k];
#ifndef VERIF_MB_GHOST1
    _Bool v2 = vg_k2 < osz;
    unsigned char b2 = !v2 ? 0 : (doff <= vg_k2 && vg_k2 - doff < n) ? s[vg_k2 - doff] : base[vg_k2];
#endif
    __CPROVER_havoc_object(d);
    if (v1) base[vg_k] = b1;
#ifndef VERIF_MB_GHOST1
    if (v2) base[vg_k2] = b2;
#endif
}
#pragma CPROVER check pop
void *memcpy(void *dst, const void *src, size_t n)
{
    if (n > 0) {
        __CPROVER_assert(__CPROVER_r_ok(src, n), "memcpy: source region readable");
        __CPROVER_assert(__CPROVER_w_ok(dst, n), "memcpy: destination region writeable");
        __CPROVER_assert(!__CPROVER_same_object(dst, src) ||
                         __CPROVER_POINTER_OFFSET(src) >= __CPROVER_POINTER_OFFSET(dst) + n ||
                         __CPROVER_POINTER_OFFSET(dst) >= __CPROVER_POINTER_OFFSET(src) + n, "memcpy: src/dst do not overlap");
        vg_ghost_copy((unsigned char *) dst, (const unsigned char *) src, n);
    }
    return dst;
}
void *memmove(void *dst, const void *src, size_t n)
{
    if (n > 0) {
        __CPROVER_assert(__CPROVER_r_ok(src, n), "memmove: source region readable");
        __CPROVER_assert(__CPROVER_w_ok(dst, n), "memmove: destination region writeable");
        vg_ghost_copy((unsigned char *) dst, (const unsigned char *) src, n);
    }
    return dst;
}
/* realloc: fresh block with arbitrary contents except offsets vg_k, vg_k2 (when inside
 * both blocks); old block freed.  REALLOC() never passes NULL or 0, both are handled. */
void *realloc(void *p, size_t n)
{
    if (p == NULL) return malloc(n);
    __CPROVER_assert(__CPROVER_POINTER_OFFSET(p) == 0 && __CPROVER_DYNAMIC_OBJECT(p), "realloc: argument is the start of a heap block");
    if (n == 0) { free(p); return malloc(0); }
    unsigned char *r = malloc(n);
    size_t m = __CPROVER_OBJECT_SIZE(p);
    if (n < m) m = n;
    if (vg_k < m) r[vg_k] = ((unsigned char *) p)[vg_k];
#ifndef VERIF_MB_GHOST1
    if (vg_k2 < m) r[vg_k2] = ((unsigned char *) p)[vg_k2];
#endif
    free(p);
    return r;
}
#endif

/* memset: same over-approximation (object arbitrary except the ghost offsets) */
#ifdef VERIF_MB_GHOSTCOPY
#pragma CPROVER check push
#pragma CPROVER check disable "pointer"
#pragma CPROVER check disable "pointer-overflow"
#pragma CPROVER check disable "pointer-primitive"
#pragma CPROVER check disable "bounds"
#pragma CPROVER check disable "conversion"
#pragma CPROVER check disable "signed-overflow"
static void vg_ghost_set(unsigned char *d, unsigned char c, size_t n)
{
    size_t doff = __CPROVER_POINTER_OFFSET(d), osz = __CPROVER_OBJECT_SIZE(d);
    unsigned char *base = d - doff;
    _Bool v1 = vg_k < osz;
    unsigned char b1 = !v1 ? 0 : (doff <= vg_k && vg_k - doff < n) ? c : base[vg_k];
    __CPROVER_havoc_object(d);
    if (v1) base[vg_k] = b1;
}
#pragma CPROVER check pop
void *memset(void *dst, int c, size_t n)
{
    if (n > 0) {
        __CPROVER_assert(__CPROVER_w_ok(dst, n), "memset: destination region writeable");
        vg_ghost_set((unsigned char *) dst, (unsigned char) c, n);
    }
    return dst;
}
#endif

/* ==== memcmp / memmem =========================================================== */
/* ghost: offset of the first difference reported by the last memcmp (== n when equal) */
size_t vg_cmp_d;

#define VG_EQ_BELOW(a, b, d, k)  (!((k) < (d)) || ((const unsigned char *) (a))[(k)] == ((const unsigned char *) (b))[(k)])
/* memcmp: result 0 <=> the n bytes are equal; otherwise the sign is that of the first
 * differing pair (as unsigned char).  "All bytes before the first difference d are equal" is
 * stated at the ghost offsets vg_k, vg_k2, vg_j.  Reads exactly n bytes of each argument. */
/* accesses inside memcmp/memmem are covered by their r_ok assertions: per-access checks off (see vg_ghost_copy) */
#pragma CPROVER check push
#pragma CPROVER check disable "pointer"
#pragma CPROVER check disable "pointer-overflow"
#pragma CPROVER check disable "pointer-primitive"
#pragma CPROVER check disable "bounds"
#pragma CPROVER check disable "conversion"
int memcmp(const void *a, const void *b, size_t n)
{
    int c = nondet_int();
    size_t d = nondet_size_t();
    if (n > 0) {
        __CPROVER_assert(__CPROVER_r_ok(a, n), "memcmp: first region readable");
        __CPROVER_assert(__CPROVER_r_ok(b, n), "memcmp: second region readable");
    }
    __CPROVER_assume(d <= n);
    __CPROVER_assume((c == 0) == (d == n));
    __CPROVER_assume(VG_EQ_BELOW(a, b, d, vg_k) && VG_EQ_BELOW(a, b, d, vg_k2) && VG_EQ_BELOW(a, b, d, vg_j));
    if (d < n) {
        __CPROVER_assume(((const unsigned char *) a)[d] != ((const unsigned char *) b)[d]);
        __CPROVER_assume((c < 0) == (((const unsigned char *) a)[d] < ((const unsigned char *) b)[d]));
    }
    vg_cmp_d = d;
    return c;
}

/* memmem: NULL, or a position r with r + nl <= hl where the needle occurs (stated for the
 * needle byte at ghost offset vg_k).  Not modelled (over-approximation): that r is the FIRST
 * occurrence, and that NULL means there is none.  Empty needle: the haystack (glibc >= 2.1). */
void *memmem(const void *h, size_t hl, const void *nd, size_t nl)
{
    if (hl > 0) __CPROVER_assert(__CPROVER_r_ok(h, hl), "memmem: haystack region readable");
    if (nl > 0) __CPROVER_assert(__CPROVER_r_ok(nd, nl), "memmem: needle region readable");
    if (nl == 0) return (void *) h;
    if (nl > hl) return NULL;
    if (nondet_bool()) return NULL;
    size_t r = nondet_size_t();
    __CPROVER_assume(r <= hl - nl);
    __CPROVER_assume(!(vg_k < nl) || ((const unsigned char *) h)[r + vg_k] == ((const unsigned char *) nd)[vg_k]);
    return (unsigned char *) h + r;
}
#pragma CPROVER check pop

/* ==== one input stream / descriptor ===============================================
 * Ghost model of the ONE input the reader constructors are given:
 *   vg_in_seekable  regular file (1) or pipe/tty/socket (0)
 *   vg_in_size      number of bytes the input delivers in total (unknown, fixed)
 *   vg_in_pos       current position
 *   vg_in_eof/err   stdio indicators
 *   vg_in_byte      the input's byte at absolute offset vg_in_at (arbitrary offset: every byte)
 * ASSUMES: the input does not change while it is read (no concurrent truncation). */
_Bool vg_in_seekable, vg_in_eof, vg_in_err, vg_in_rderr;   /* rderr: a read(2) call reported -1 */
long vg_in_size, vg_in_pos;
size_t vg_in_at;
unsigned char vg_in_byte;
#define VG_IN_OK  (0 <= vg_in_pos && vg_in_pos <= vg_in_size && vg_in_size <= VCAP)
/* Bounded (tier B) units define VERIF_IN_MAXCALLS=N: paths on which the input is delivered in more than N
 * read()/fread() calls that return data are cut (assume), i.e. the bound is "at most N delivering calls". */
unsigned vg_in_calls;
#ifdef VERIF_IN_MAXCALLS
# define VG_IN_COUNT_CALL()  do { __CPROVER_assume(vg_in_calls < VERIF_IN_MAXCALLS); vg_in_calls++; } while (0)
#else
# define VG_IN_COUNT_CALL()  do { vg_in_calls++; } while (0)
#endif

/* n bytes at p become arbitrary input bytes.  As in vg_ghost_copy the whole OBJECT is havocked (cheap) and
 * the bytes the proof follows are put back: the object's bytes at the ghost offsets vg_k / vg_k2 when they lie
 * outside [p, p+n) (they are not touched by the real call), and the input's ghost byte vg_in_byte when the
 * input offset vg_in_at is delivered by this call (good = number of leading bytes that are true input bytes). */
#pragma CPROVER check push
#pragma CPROVER check disable "pointer"
#pragma CPROVER check disable "pointer-overflow"
#pragma CPROVER check disable "pointer-primitive"
#pragma CPROVER check disable "bounds"
#pragma CPROVER check disable "conversion"
#pragma CPROVER check disable "signed-overflow"
static void vg_in_store(unsigned char *p, size_t n, size_t good)
{
    size_t doff = __CPROVER_POINTER_OFFSET(p), osz = __CPROVER_OBJECT_SIZE(p);
    unsigned char *base = p - doff;
    _Bool k1 = vg_k < osz && !(doff <= vg_k && vg_k - doff < n);
    unsigned char b1 = k1 ? base[vg_k] : 0;
#ifndef VERIF_MB_GHOST1
    _Bool k2 = vg_k2 < osz && !(doff <= vg_k2 && vg_k2 - doff < n);
    unsigned char b2 = k2 ? base[vg_k2] : 0;
#endif
    __CPROVER_havoc_object(p);
    if (k1) base[vg_k] = b1;
#ifndef VERIF_MB_GHOST1
    if (k2) base[vg_k2] = b2;
#endif
    if ((size_t) vg_in_pos <= vg_in_at && vg_in_at - (size_t) vg_in_pos < good)
        p[vg_in_at - (size_t) vg_in_pos] = vg_in_byte;
}
#pragma CPROVER check pop
static void vg_in_deliver(unsigned char *p, size_t n)
{
    if (n > 0) {
        vg_in_store(p, n, n);
        vg_in_pos += (long) n;
    }
}

/* ftell(3): current position, or -1 (ESPIPE on a pipe; EBADF/EIO otherwise) */
long ftell(FILE *fp)
{
    __CPROVER_assert(fp != NULL, "ftell: stream not NULL");
    if (!vg_in_seekable || nondet_bool()) { return -1L; }
    return vg_in_pos;
}
/* fseek(3): 0 and the new position (clears EOF), or -1 (ESPIPE, EINVAL for a negative result, EIO) */
int fseek(FILE *fp, long off, int whence)
{
    __CPROVER_assert(fp != NULL, "fseek: stream not NULL");
    __CPROVER_assert(whence == SEEK_SET || whence == SEEK_CUR || whence == SEEK_END, "fseek: whence valid");
    if (!vg_in_seekable || nondet_bool()) { return -1; }
    long base = whence == SEEK_SET ? 0 : whence == SEEK_CUR ? vg_in_pos : vg_in_size;
    /* ASSUMES: no seek beyond the end of the file (mbuff.c seeks to 0-from-END and back only) */
    if (off < -base || off > vg_in_size - base) { return -1; }
    vg_in_pos = base + off;
    vg_in_eof = 0;
    return 0;
}
int feof(FILE *fp)   { __CPROVER_assert(fp != NULL, "feof: stream not NULL"); return vg_in_eof ? nondet_int() | 1 : 0; }
int ferror(FILE *fp) { __CPROVER_assert(fp != NULL, "ferror: stream not NULL"); return vg_in_err ? nondet_int() | 1 : 0; }
/* fread(3): r <= nmemb complete items; r < nmemb only at end of file or on error, and then the
 * matching indicator is set (ISO C 7.21.8.1); a partial item has indeterminate value, so the whole
 * region may be overwritten; EOF is only reported when fewer than `size` bytes were left. */
size_t fread(void *ptr, size_t size, size_t nmemb, FILE *fp)
{
    __CPROVER_assert(fp != NULL, "fread: stream not NULL");
    if (size == 0 || nmemb == 0) return 0;
    __CPROVER_assert(size <= (size_t) VCAP * 4 && nmemb <= (size_t) VCAP * 4, "fread: size * nmemb representable");
    size_t total = size * nmemb;
    __CPROVER_assert(__CPROVER_w_ok(ptr, total), "fread: destination region writeable for size * nmemb bytes");
    size_t avail = (size_t) (vg_in_size - vg_in_pos);
    size_t r = nondet_size_t();
    __CPROVER_assume(r <= nmemb && r <= avail / size);
    size_t whole = r * size, used = whole;
    if (r > 0) VG_IN_COUNT_CALL();
    if (r < nmemb) {
        if (avail - whole < size && nondet_bool()) {
            vg_in_eof = 1;                       /* end of input; a trailing partial item is consumed */
            used = avail;
        } else {
            vg_in_err = 1;                       /* error; the position is indeterminate (kept inside the input) */
           
            used = nondet_size_t();
            __CPROVER_assume(whole <= used && used <= avail && used <= total);
        }
        vg_in_store((unsigned char *) ptr, total, whole);   /* a partial item has indeterminate value */
    } else {
        vg_in_store((unsigned char *) ptr, whole, whole);
    }
    vg_in_pos += (long) used;
    return r;
}

/* lseek(2): new offset, or -1 (ESPIPE for pipe/socket/FIFO, EBADF, EINVAL) */
off_t lseek(int fd, off_t off, int whence)
{
    if (fd < 0 || !vg_in_seekable || nondet_bool()) { return (off_t) -1; }
    long base = whence == SEEK_SET ? 0 : whence == SEEK_CUR ? vg_in_pos : vg_in_size;
    if (whence != SEEK_SET && whence != SEEK_CUR && whence != SEEK_END) { return (off_t) -1; }
    /* ASSUMES: no seek beyond the end of the file (see fseek) */
    if (off < -base || off > vg_in_size - base) { return (off_t) -1; }
    vg_in_pos = base + off;
    return (off_t) vg_in_pos;
}
/* read(2): -1 (EINTR, EAGAIN, EIO, EBADF ...: nothing consumed), 0 exactly at end of input (or n == 0),
 * otherwise 1..min(n, remaining) bytes: SHORT COUNTS ARE LEGAL at any time (pipes, ttys, signals). */
ssize_t read(int fd, void *buf, size_t n)
{
    if (fd < 0 || nondet_bool()) { vg_in_rderr = 1; return -1; }
    if (n == 0) return 0;
    __CPROVER_assert(__CPROVER_w_ok(buf, n), "read: destination region writeable for n bytes");
    size_t avail = (size_t) (vg_in_size - vg_in_pos);
    if (avail == 0) return 0;
    size_t r = nondet_size_t();
    __CPROVER_assume(1 <= r && r <= n && r <= avail);
    VG_IN_COUNT_CALL();
    vg_in_deliver((unsigned char *) buf, r);
    return (ssize_t) r;
}

/* ==== vsnprintf =================================================================
 * vsnprintf(3): returns the length the complete output would have (>= 0) or a negative value on an
 * output error; writes at most size bytes including the terminator when size > 0.  Format
 * semantics are NOT modelled: the text is arbitrary (non-NUL bytes, then NUL).  The length may differ
 * between two calls with the same arguments (over-approximation). */
/* The outcomes of the first and second call are ghost INPUTS (arbitrary), so that a behaviour of a
 * caller can be selected in its precondition (e.g. "the first call reports less than INT_MAX"). */
int vg_vsn_ret[2];
unsigned vg_vsn_calls;
int vsnprintf(char *str, size_t size, const char *format, va_list ap)
{
    __CPROVER_assert(format != NULL, "vsnprintf: format not NULL");
    int r = vg_vsn_calls < 2 ? vg_vsn_ret[vg_vsn_calls] : nondet_int();
    vg_vsn_calls++;
    if (size > (size_t) INT_MAX) { return -1; }   /* POSIX: fails with EOVERFLOW, nothing written */
    if (size > 0) {
        __CPROVER_assert(__CPROVER_w_ok(str, size), "vsnprintf: destination writeable for size bytes");
        if (r >= 0) {
            size_t w = (size_t) r < size - 1 ? (size_t) r : size - 1;
            __CPROVER_havoc_slice(str, w + 1);
            str[w] = 0;
            /* the produced characters are not NUL (stated at the ghost offset) */
            if (vg_k < w) __CPROVER_assume(str[vg_k] != 0);
        } else {
            __CPROVER_havoc_slice(str, size);   /* contents unspecified after an error */
        }
    }
    return r;
}
/* ==== formatted output into caller buffers (spif_mbuff_show) ========================
 * Format semantics are NOT modelled (NA): these stubs check that the destination is a writable
 * location (snprintf: for the stated size) and leave the destination contents as they are - the units
 * that use them claim nothing about the produced text, and cbmc treats the never-initialised scratch
 * buffer as arbitrary anyway.  Units that want them define VERIF_MB_FMTSTUBS. */
#ifdef VERIF_MB_FMTSTUBS
int snprintf(char *str, size_t size, const char *format, ...)
{
    __CPROVER_assert(format != NULL, "snprintf: format not NULL");
    if (size > 0) __CPROVER_assert(__CPROVER_w_ok(str, size), "snprintf: destination writeable for size bytes");
    return nondet_int();
}
int sprintf(char *str, const char *format, ...)
{
    __CPROVER_assert(format != NULL, "sprintf: format not NULL");
    __CPROVER_assert(__CPROVER_w_ok(str, 1), "sprintf: destination writeable (extent of the output: NA)");
    return nondet_int();
}
char *strcat(char *dst, const char *src)
{
    __CPROVER_assert(__CPROVER_w_ok(dst, 1) && __CPROVER_r_ok(src, 1), "strcat: arguments valid (extent of the output: NA)");
    return dst;
}
#endif
#endif
