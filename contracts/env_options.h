/* env_options.h — environment for the option-parser units (C08), owner tag `options`.
 *
 * Include order in a C08 unit:
 *     #define VERIF_OWN_STRLEN / VERIF_OWN_STRCMP / VERIF_OWN_STRCHR / VERIF_OWN_STRDUP
 *     #include "vprelude.h"
 *     #include "env_options.h"
 *     #include "src/options.c"
 *     #include "options.h"
 *
 * Everything here is about code OUTSIDE options.c: libc string functions, the two
 * word tables that live in conf.c, the word utilities of strings.c (represented by
 * over-approximating stubs in P units; the real strings.c is included by the B unit
 * that needs them), the client's help handler and the client's abstract-option
 * handler.  Two renderings of the libc string functions are provided:
 *
 *   VOPT_CONCRETE   (B units)  executable byte loops, exact C semantics.
 *   otherwise       (P units)  loop-free ABSTRACT model over "registered" strings:
 *        a unit registers up to two strings (pointer, exact length) in the ghost
 *        pairs (vg_p1, vg_n1), (vg_p2, vg_n2).  strlen of a registered string is its
 *        exact length and the string must really be there (checked).  Any other
 *        pointer handed to a string function is one of the table's long names other
 *        than the ghost entry: ASSUMES it is a valid C string (its length is then an
 *        arbitrary value).  Comparison results are arbitrary except for what C
 *        guarantees about lengths: strncasecmp(a,b,n)==0 implies that a and b both
 *        have at least n characters or have the same length; strcasecmp(a,b)==0
 *        implies equal lengths.  This is "manual quantifier instantiation" (GUIDE:
 *        ghost index instead of forall): the table entry with ghost index vg_k is a
 *        real checked string, and vg_k is arbitrary.
 */
#ifndef VERIF_ENV_OPTIONS_H
#define VERIF_ENV_OPTIONS_H

/* ---- the boolean word tables (defined in conf.c: `const char *true_vals[] = {...}`;
 * options.c only reads them).  The arrays are not const objects, DFCC havocs them:
 * every harness calls vopt_env_init() first. */
#ifndef VERIF_NATIVE       /* (a native replay links the real conf.c and the real libc) */
const char *true_vals[] = { "1", "on", "true", "yes" };
const char *false_vals[] = { "0", "off", "false", "no" };
#endif
static const char vopt_w_1[] = "1", vopt_w_on[] = "on", vopt_w_true[] = "true", vopt_w_yes[] = "yes";
static const char vopt_w_0[] = "0", vopt_w_off[] = "off", vopt_w_false[] = "false", vopt_w_no[] = "no";

/* ---- ghosts ---------------------------------------------------------------- */
const char *vg_p1, *vg_p2;          /* registered strings (exact lengths vg_n1, vg_n2) */
const char *vg_lastp; size_t vg_lastn;   /* last strlen() answer (abstract model)        */
int vg_cmp;                         /* outcome of comparing the two registered strings  */
unsigned vg_word;                   /* which boolean word (0-3 true, 4-7 false, 8 none) the registered value vg_p1 spells */
size_t vg_eq;                       /* position of the first '=' in vg_p1 (>= vg_n1: none) */
unsigned long vg_help_calls;        /* calls of the client's help handler               */
unsigned long vg_abst_calls;        /* calls of the client's abstract-option handler    */
const char *vg_abst_arg;            /* its last argument                                */
long vg_num;                        /* numeric reading of the value handed to strtol (abstract model) */
unsigned long vg_dup_calls, vg_dup_want;   /* strdup call counter; the call number to record */
const char *vg_dup_src; char *vg_dup_res;  /* source and result of the recorded strdup call   */
const char *vg_old_ptr;             /* old value of a ghost-indexed pointer slot          */
char *vg_arena; size_t vg_arena_size, vg_arena_off;   /* bump allocator for strdup under VOPT_STRDUP_ARENA */

#ifdef VERIF_NATIVE
static void vopt_env_init(void) { }
#else
static void vopt_env_init(void)
{
    true_vals[0] = vopt_w_1; true_vals[1] = vopt_w_on; true_vals[2] = vopt_w_true; true_vals[3] = vopt_w_yes;
    false_vals[0] = vopt_w_0; false_vals[1] = vopt_w_off; false_vals[2] = vopt_w_false; false_vals[3] = vopt_w_no;
    vg_p1 = vg_p2 = vg_lastp = (const char *) 0;   /* nothing registered until the harness says so */
}
#endif

/* client help handler that RETURNS (the most general client: the default one exits,
 * which only removes paths).  Counted. */
void vopt_help(void) { vg_help_calls++; }
/* client handler of an abstract option */
void vopt_abstract(spif_charptr_t v) { vg_abst_calls++; vg_abst_arg = (const char *) v; }

/* exit() ends the process */
#ifndef VERIF_NATIVE
void exit(int c) { __CPROVER_assume(0); }
#endif

/* ---- loop-contract text for spifopt_parse (annot/options.c.options.ann inserts only these macro
 * names; a unit that verifies a loop of spifopt_parse defines the macro before including this
 * header, every other unit gets the empty default) */
#ifndef VOPT_MAINLOOP_CLAUSES
# define VOPT_MAINLOOP_CLAUSES
#endif
#ifndef VOPT_REMOVE_REST_CLAUSES          /* the loop that clears a list option's words from argv */
# define VOPT_REMOVE_REST_CLAUSES
#endif
#ifndef VOPT_COMPACT_CLAUSES
# define VOPT_COMPACT_CLAUSES
# define VOPT_COMPACT_GHOST_TOP
# define VOPT_COMPACT_GHOST_AFTER
#endif

#ifdef VERIF_NATIVE
# define vopt_strtol strtol      /* the reference reading uses the real strtol as well */
#elif !defined(VOPT_CONCRETE)
/* =========================== abstract model (P units) ========================== */
static size_t vopt_abs_len(const char *s)
{
    if (s == vg_p1) return vg_n1;
    if (s == vg_p2) return vg_n2;
    if (s == vg_lastp) return vg_lastn;
    if (s == vopt_w_1 || s == vopt_w_0) return 1;
    if (s == vopt_w_on || s == vopt_w_no) return 2;
    if (s == vopt_w_off || s == vopt_w_yes) return 3;
    if (s == vopt_w_true) return 4;
    if (s == vopt_w_false) return 5;
    return nondet_size_t();
}
/* an unregistered pointer: in units that define VOPT_UNREGISTERED_STRINGS_ASSUMED it is a
 * table long name or an argv word other than the ghost-indexed one (ASSUMES every long name in
 * the option table / every other argv word is a valid C string; the ghost-indexed one is real
 * and checked, and the ghost index is arbitrary); everywhere else NULL is an error. */
static void vopt_check_registered(const char *s)
{
    /* (dereferences go through the ghost pointers: s may come out of havocked table memory) */
#ifdef VOPT_UNREGISTERED_STRINGS_ASSUMED
    if (s == NULL || (s != vg_p1 && s != vg_p2)) __CPROVER_assume(s != NULL);
#endif
    __CPROVER_assert(s != NULL, "string function: argument not NULL");
    if (s != NULL && s == vg_p1) {
        __CPROVER_assert(__CPROVER_r_ok(vg_p1, vg_n1 + 1), "string function: registered string 1 is readable up to its ghost length");
        __CPROVER_assert(vg_p1[vg_n1] == 0, "string function: registered string 1 has its terminator at its ghost length");
    }
    if (s != NULL && s == vg_p2) {
        __CPROVER_assert(__CPROVER_r_ok(vg_p2, vg_n2 + 1), "string function: registered string 2 is readable up to its ghost length");
        __CPROVER_assert(vg_p2[vg_n2] == 0, "string function: registered string 2 has its terminator at its ghost length");
    }
}
size_t strlen(const char *s)
{
    vopt_check_registered(s);
    size_t r = vopt_abs_len(s);
    vg_lastp = s; vg_lastn = r;
    return r;
}
int strncasecmp(const char *a, const char *b, size_t n)
{
    vopt_check_registered(a); vopt_check_registered(b);
    size_t la = vopt_abs_len(a), lb = vopt_abs_len(b);
    int r = nondet_int();
    if ((a == vg_p1 && b == vg_p2) || (a == vg_p2 && b == vg_p1)) r = (a == vg_p1 ? vg_cmp : (vg_cmp > 0 ? -1 : vg_cmp < 0 ? 1 : 0));
    /* what C guarantees about lengths when the first n characters compare equal */
    __CPROVER_assume(r != 0 || (la >= n && lb >= n) || la == lb);
    return r;
}
int strcasecmp(const char *a, const char *b)
{
    vopt_check_registered(a); vopt_check_registered(b);
    if (a == vg_p1) {
        /* the registered value spells boolean word number vg_word (or none of them) */
        const char *w = vg_word == 0 ? vopt_w_1 : vg_word == 1 ? vopt_w_on : vg_word == 2 ? vopt_w_true : vg_word == 3 ? vopt_w_yes :
                        vg_word == 4 ? vopt_w_0 : vg_word == 5 ? vopt_w_off : vg_word == 6 ? vopt_w_false : vg_word == 7 ? vopt_w_no : (const char *) 0;
        if (b == vopt_w_1 || b == vopt_w_on || b == vopt_w_true || b == vopt_w_yes ||
            b == vopt_w_0 || b == vopt_w_off || b == vopt_w_false || b == vopt_w_no)
            return b == w ? 0 : 1;
    }
    int r = nondet_int();
    __CPROVER_assume(r != 0 || vopt_abs_len(a) == vopt_abs_len(b));
    return r;
}
int strcmp(const char *a, const char *b) { return strcasecmp(a, b); }
int strncmp(const char *a, const char *b, size_t n) { return strncasecmp(a, b, n); }
/* strchr on registered string 1 for the character '=': position is the ghost vg_eq */
char *strchr(const char *s, int c)
{
    vopt_check_registered(s);
    if (s == vg_p1 && c == '=')
        return vg_eq < vg_n1 ? (char *) s + vg_eq : (char *) 0;
    size_t n = vopt_abs_len(s);
    if (nondet_bool()) { __CPROVER_assume((char) c != 0); return (char *) 0; }
    size_t r = nondet_size_t();
    __CPROVER_assume(r <= n);
    return (char *) s + r;
}
/* strdup: fresh block of exact length + 1, terminated; byte vg_k2 copied (ghost-index content) */
char *strdup(const char *s)
{
    vopt_check_registered(s);
    size_t n = vopt_abs_len(s);
    __CPROVER_assume(n <= VCAP);
#ifdef VOPT_STRDUP_ARENA
    /* cbmc 6.11 DFCC forbids malloc inside a loop that carries a loop contract (the loop write set
     * is created with allow_allocate = false).  Units that verify such a loop use a bump allocator
     * over one harness-provided arena instead: blocks are disjoint ranges of the arena, never NULL;
     * ASSUMES the arena is large enough (= allocation does not fail). */
    __CPROVER_assume(vg_arena_off <= vg_arena_size && n + 1 <= vg_arena_size - vg_arena_off);
    char *r = vg_arena + vg_arena_off;
    vg_arena_off += n + 1;
#else
    char *r = malloc(n + 1);
#endif
    r[n] = 0;
    if (s != NULL && s == vg_p1 && vg_k2 < n) r[vg_k2] = vg_p1[vg_k2];
    vg_dup_calls++;
    if (vg_dup_calls == vg_dup_want) { vg_dup_src = s; vg_dup_res = r; }
    return r;
}
/* strtol (bound by `#define strtol vopt_strtol` in the units that need a value): the numeric
 * reading of the registered value is the ghost vg_num */
long vopt_strtol(const char *s, char **end, int base)
{
    vopt_check_registered(s);
    __CPROVER_assert(end == NULL, "strtol: options.c passes no end pointer");
    return s == vg_p1 ? vg_num : nondet_long();
}
#else
/* =========================== concrete model (B units) ========================== */
size_t strlen(const char *s)
{
    size_t n = 0;
    while (s[n]) n++;
    return n;
}
static int vopt_lc(int c) { return (c >= 'A' && c <= 'Z') ? c + 32 : c; }
int strcasecmp(const char *a, const char *b)
{
    size_t i = 0;
    for (;; i++) {
        int x = vopt_lc((unsigned char) a[i]), y = vopt_lc((unsigned char) b[i]);
        if (x != y) return x - y;
        if (!x) return 0;
    }
}
int strncasecmp(const char *a, const char *b, size_t n)
{
    size_t i = 0;
    for (; i < n; i++) {
        int x = vopt_lc((unsigned char) a[i]), y = vopt_lc((unsigned char) b[i]);
        if (x != y) return x - y;
        if (!x) return 0;
    }
    return 0;
}
int strcmp(const char *a, const char *b)
{
    size_t i = 0;
    for (;; i++) {
        int x = (unsigned char) a[i], y = (unsigned char) b[i];
        if (x != y) return x - y;
        if (!x) return 0;
    }
}
int strncmp(const char *a, const char *b, size_t n)
{
    size_t i = 0;
    for (; i < n; i++) {
        int x = (unsigned char) a[i], y = (unsigned char) b[i];
        if (x != y) return x - y;
        if (!x) return 0;
    }
    return 0;
}
char *strchr(const char *s, int c)
{
    size_t i = 0;
    for (;; i++) {
        if (s[i] == (char) c) return (char *) s + i;
        if (!s[i]) return (char *) 0;
    }
}
/* decimal strtol (the B alphabet has no hex/octal spellings other than a leading 0) */
long vopt_strtol(const char *s, char **end, int base)
{
    long v = 0; int neg = 0; size_t i = 0;
    while (s[i] == ' ') i++;
    if (s[i] == '-') { neg = 1; i++; } else if (s[i] == '+') i++;
    while (s[i] >= '0' && s[i] <= '9') { v = v * 10 + (s[i] - '0'); i++; }
    return neg ? -v : v;
}
char *strdup(const char *s)
{
    size_t n = strlen(s), i;
    char *r = malloc(n + 1);
    for (i = 0; i <= n; i++) r[i] = s[i];
    return r;
}
#endif /* VOPT_CONCRETE */

#endif
