/* contracts/str.h — spec macros for src/str.c and its textual clone src/ustr.c (C01, C05, C06).
 *
 * One template, two instances: units are compiled with -DVP=str or -DVP=ustr.
 *   VF(append)  -> spif_str_append / spif_ustr_append
 *   VT          -> spif_str_t / spif_ustr_t          VIDX -> spif_stridx_t / spif_ustridx_t
 *   VSRC        -> "src/str.c" / "src/ustr.c"  (the annotated scratch copy of the REAL file)
 *
 * Usage in a unit (this header is the unit's first include; it includes vprelude.h, env_str.h
 * and, at its end, the real sources src/obj.c and VSRC):
 *     #include "str.h"
 *     ... contract re-declarations, harness ...
 */
#ifndef VERIF_STR_H
#define VERIF_STR_H

/* own strlen/strchr/strdup families (env_str.h) instead of env.h's */
#define VERIF_OWN_STRLEN
#define VERIF_OWN_STRCHR
#define VERIF_OWN_STRDUP
#define VERIF_OWN_STRCMP
#include "vprelude.h"
#include "env_str.h"

#ifndef VP
# define VP str
#endif
#define VCAT3_(a, b, c) a##b##c
#define VCAT3(a, b, c)  VCAT3_(a, b, c)
#define VF_(name) VCAT3(spif_, VP, _##name)
#define VF(name)  VF_(name)
#define VT        VCAT3(spif_, VP, _t)
#define VIDX      VCAT3(spif_, VP, idx_t)
#define VCLASSVAR    VCAT3(spif_, VP, _class)
#define VSTRCLASSVAR VCAT3(spif_, VP, _strclass)
#define VSTR_(x) #x
#define VSTR(x)  VSTR_(x)
#define VSRC     VSTR(src/VP.c)

/* ghost allocation sizes of self->s / other->s: the buffer may be larger than the reported
 * capacity ("allocation >= size"); arbitrary because DFCC havocs globals. */
size_t vg_a1, vg_a2;

/* ---- representation invariant -------------------------------------------------
 * empty state (NULL,0,0)  or  0 <= len < size <= allocation, NUL exactly at len.
 * PRE form (requires): is_fresh allocates the text buffer as its own object of A bytes.
 * POST form (ensures): the buffer is a whole heap object (offset 0, so it can be handed to
 * free/realloc by the next operation) with at least `size` accessible bytes. */
#define STR_OBJ(o)        (__CPROVER_is_fresh((o), sizeof(*(o))))
#define STR_EMPTY(o)      ((o)->s == NULL && (o)->len == 0 && (o)->size == 0)
#define STR_NONEMPTY_PRE(o, A) \
    (0 <= (o)->len && (o)->len < (o)->size && (size_t) (o)->size <= (A) && (A) <= VCAP && \
     __CPROVER_is_fresh((o)->s, (A)) && (o)->s[(o)->len] == 0)
#define STR_INV_PRE(o, A) (STR_EMPTY(o) || STR_NONEMPTY_PRE(o, A))
#define STR_NONEMPTY_POST(o) \
    (0 <= (o)->len && (o)->len < (o)->size && (o)->s != NULL && __CPROVER_POINTER_OFFSET((o)->s) == 0 && \
     __CPROVER_rw_ok((o)->s, (size_t) (o)->size) && (o)->s[(o)->len] == 0)
#define STR_INV_POST(o)   (STR_EMPTY(o) || STR_NONEMPTY_POST(o))

/* behaviours: a unit compiled with -DU_EMPTY / -DU_NONEMPTY restricts `self` to one disjunct */
/* (size_t) len == vg_l1 / vg_l2 binds a ghost to the entry length: the ghosts are arbitrary, so nothing is
 * restricted; env_str.h's libc stubs use them as instantiation points of "no NUL before the result". */
#if defined(U_EMPTY)
# define STR_SELF_PRE(o) (STR_OBJ(o) && STR_EMPTY(o))
#elif defined(U_NONEMPTY)
# define STR_SELF_PRE(o) (STR_OBJ(o) && STR_NONEMPTY_PRE(o, vg_a1) && (size_t) (o)->len == vg_l1)
#else
# define STR_SELF_PRE(o) (STR_OBJ(o) && STR_INV_PRE(o, vg_a1) && (size_t) (o)->len == vg_l1)
#endif
/* second object argument: NULL is a legal argument of every method that takes one.
 * -DU_OTHER_EMPTY: the argument is an object in the (NULL,0,0) state; -DU_OTHER_NONEMPTY: NULL or allocated */
#if defined(U_OTHER_EMPTY)
# define STR_OTHER_PRE(o) ((o) != NULL && STR_OBJ(o) && STR_EMPTY(o))
#elif defined(U_OTHER_NONEMPTY)
# define STR_OTHER_PRE(o) ((o) == NULL || (STR_OBJ(o) && STR_NONEMPTY_PRE(o, vg_a2) && (size_t) (o)->len == vg_l2))
#else
# define STR_OTHER_PRE(o) ((o) == NULL || (STR_OBJ(o) && STR_INV_PRE(o, vg_a2) && (size_t) (o)->len == vg_l2))
#endif

/* entry-state text byte k of o, for use in ensures of units whose `o` is in the NONEMPTY state
 * (in the empty state there is no old text, the clause is compiled out).  __CPROVER_old cannot track
 * conditional expressions ("history of if expressions is not supported"), and it is evaluated for
 * every ghost value, so the index is masked to 0 when k is outside the text: STR_KIDX = k < len ? k : 0. */
#define STR_KIDX(o, k)    ((k) & ((size_t) 0 - (size_t) ((k) < (size_t) (o)->len)))
#define STR_OLD_AT(o, k)  __CPROVER_old((o)->s[STR_KIDX(o, k)])
/* frame of a mutator: the three fields, the text buffer (if any); the buffer may be reallocated.
 * Ends in a conditional target group: append further targets with `;`. */
#define STR_ASSIGNS(o)    (o)->s, (o)->len, (o)->size; (o)->s != NULL: __CPROVER_object_whole((o)->s)
#define STR_UNCHANGED(o)  ((o)->s == __CPROVER_old((o)->s) && (o)->len == __CPROVER_old((o)->len) && \
                           (o)->size == __CPROVER_old((o)->size))

/* class pointers are non-const globals (havocked by DFCC): every harness calls this first */
/* (it also empties the fgets memo of env_str.h: ghosts are arbitrary at harness entry) */
#define STR_BIND_CLASS()  do { VSTRCLASSVAR = (spif_strclass_t) &s_class; VCLASSVAR = (spif_class_t) &s_class; \
                               vg_fgets_buf = (const char *) 0; } while (0)
#define STR_HAS_CLASS(o)  (SPIF_OBJ_CLASS(o) == (spif_class_t) &s_class)

#define VMIN(a, b) ((a) < (b) ? (a) : (b))

/* anchor used by annot/str.c.str.ann / ustr.c.str.ann: cbmc 6.11 crashes on an anchor whose base is the NULL
 * pointer, so the units of the empty (NULL,0,0) state compile it away (their loops are unwound, tier B) */
#ifdef U_EMPTY
# define VSTR_ANCHOR(p, base) ((void) 0)
#else
# define VSTR_ANCHOR(p, base) VERIF_ANCHOR(p, base)
#endif

/* ---- the real code ----------------------------------------------------------- */
#ifdef VSTR_WITH_STRINGS
# include "src/strings.c"
#endif
#include "src/obj.c"
#include VSRC

#endif
