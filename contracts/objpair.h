/* objpair.h — spec macros for /repo/src/objpair.c (owner: array).  Keys and values are velems. */
#ifndef VERIF_OBJPAIR_H
#define VERIF_OBJPAIR_H

#define VKEYOF(p)  (((velem_t) (p))->key)                       /* integer key of a velem          */
#define PKEY(p)    VKEYOF(((spif_objpair_t) (p))->key)          /* ... of a pair's key object      */
#define PVAL(p)    VKEYOF(((spif_objpair_t) (p))->value)        /* ... of a pair's value object    */
#define VCMP3(x, y) (((x) < (y)) ? SPIF_CMP_LESS : (((x) > (y)) ? SPIF_CMP_GREATER : SPIF_CMP_EQUAL))

/* a pair that owns a key copy and a value copy (what new_from_both / dup / map set build) */
#define PAIR_VALID(p) \
    (__CPROVER_is_fresh((p), sizeof(struct spif_objpair_t_struct)) && SPIF_OBJ_CLASS(p) == spif_objpair_class && \
     VELEM_VALID((velem_t) (p)->key) && VELEM_VALID((velem_t) (p)->value) && \
     SPIF_OBJ_CLASS((p)->key) != spif_objpair_class && SPIF_OBJ_CLASS((p)->value) != spif_objpair_class)
/* a bare element (not a pair) */
#define BARE_VALID(e) (VELEM_VALID((velem_t) (e)) && SPIF_OBJ_CLASS(e) != spif_objpair_class)

#endif
