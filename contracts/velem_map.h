/* velem_map.h — element dispatch for TUs that contain objpair.c (owner: array).
 *
 * objpair.c reaches its key / value objects only through SPIF_OBJ_COMP / _DUP / _DEL, which
 * dispatch through spif_func_t and cannot be resolved by goto-instrument (DESIGN.md 2.1).  Keys
 * and values are velems (contracts/velem.h).  Because a macro is expanded where it is USED, the
 * include ORDER decides which binding each source file gets:
 *
 *   PHASE 1 (objpair units, and the first part of an array-map TU)
 *       #include "vprelude.h"
 *       #include "velem_map.h"              SPIF_OBJ_COMP/DUP/DEL -> vm_elem_comp/dup/del:
 *       #define o_class obj_o_class             the REAL velem methods on real key/value objects,
 *       #include "src/obj.c"                    after asserting that the receiver is not NULL
 *       #undef o_class                          (the real macro dereferences it to find the class)
 *       #include "objpair.h"
 *       #include "src/objpair.c"            objpair.c is compiled with these bindings: its comp
 *                                           compares KEYS with velem_comp, its setters / done free
 *                                           with velem_del, new_from_both copies with velem_dup.
 *       (obj.c and objpair.c both call their class table o_class: renamed for obj.c.)
 *
 *   PHASE 2 (array-map TU only, AFTER objpair.c)
 *       #define VA_COMP_KEY ... 
 *       #include "env_array.h"              re-binds the three macros to the SLOT stubs va_comp /
 *       #define VM_PHASE_ARRAY                  va_dup / va_del (ghost-slot abstraction)
 *       #include "velem_map.h"              + what array.c's map functions use besides them:
 *       #include "array.h"                      SPIF_OBJPAIR(slot) -> vm_pair(slot),
 *       #include "src/array.c"                  SPIF_LIST_NEW / SPIF_LIST_APPEND -> direct calls /
 *                                               ghost log, spif_objpair_set_value -> vm_set_value.
 *   In an array-map TU a slot's pair is compared through va_comp in the KEY model: the integer
 *   key of a pair is the key of its key object, which is exactly what spif_objpair_comp computes
 *   (proved on the real code by the objpair_comp units); the tie between the ghost key vg_key2
 *   and the real pair in the ghost slot is a precondition of the map units (MAP_GHOSTS).
 */
#ifndef VERIF_VELEM_MAP_H
#define VERIF_VELEM_MAP_H

#ifndef VELEM_NO_REBIND
# define VELEM_NO_REBIND
#endif
#include "velem.h"

static spif_cmp_t vm_elem_comp(spif_obj_t a, spif_obj_t b)
{
    __CPROVER_assert(a != NULL, "SPIF_OBJ_COMP: receiver is not NULL (dispatch dereferences it)");
    __CPROVER_assume(a != NULL);
    return velem_comp((velem_t) a, (velem_t) b);
}
static spif_obj_t vm_elem_dup(spif_obj_t a)
{
    __CPROVER_assert(a != NULL, "SPIF_OBJ_DUP: receiver is not NULL (dispatch dereferences it)");
    __CPROVER_assume(a != NULL);
    return (spif_obj_t) velem_dup((velem_t) a);
}
static spif_bool_t vm_elem_del(spif_obj_t a)
{
    __CPROVER_assert(a != NULL, "SPIF_OBJ_DEL: receiver is not NULL (dispatch dereferences it)");
    __CPROVER_assume(a != NULL);
    return velem_del((velem_t) a);
}
#undef SPIF_OBJ_COMP
#undef SPIF_OBJ_DUP
#undef SPIF_OBJ_DEL
#define SPIF_OBJ_COMP(o1, o2) vm_elem_comp((spif_obj_t) (o1), (spif_obj_t) (o2))
#define SPIF_OBJ_DUP(o)       vm_elem_dup((spif_obj_t) (o))
#define SPIF_OBJ_DEL(o)       vm_elem_del((spif_obj_t) (o))

#endif /* phase 1 */

/* ======================================================================== PHASE 2 (see top) */
#if defined(VM_PHASE_ARRAY) && !defined(VERIF_VELEM_MAP_H2)
#define VERIF_VELEM_MAP_H2

/* A slot's pair.  array.c reads pair members directly (SPIF_OBJPAIR(self->items[i])->key ...);
 * only the pair in the ghost slot (pointer vg_e2, tied to items[vg_k] by MAP_PAIR_K) and, in units
 * that define VM_PROBE_IS_PAIR, a pair passed as probe (vg_e1) are real objects.  Every other slot yields the scratch pair vm_scratch
 * whose key and value are arbitrary non-NULL pointers, chosen anew at every use: reading a member
 * of a non-ghost pair gives an arbitrary value (OVER-APPROXIMATION of the real member).
 * ASSUMES: every slot of a map holds a pair with non-NULL key and value (quantified half of
 * MAP_INV, instantiated where the slot is used; spif_array_set never stores anything else:
 * proved for the ghost slot). */
/* (vm_scratch is declared in env_array.h) */
_Bool vg_e2_real;          /* the ghost slot exists (vg_k < len) and vg_e2 is its real pair (MAP_PAIR_K) */
static spif_objpair_t vm_pair(spif_obj_t o)
{
#ifdef VM_PAIR_BY_INDEX
    /* units whose annotation records the slot index in vg_cur: the real pair is the one in slot
     * vg_k (a second slot holding the SAME pair object is excluded by ownership, env_array.h ASSUMES) */
    if (vg_e2_real && o == vg_e2 && vg_cur == vg_k) return (spif_objpair_t) o;
#else
    if (vg_e2_real && o == vg_e2) return (spif_objpair_t) o;
#endif
#ifdef VM_PROBE_IS_PAIR
    if (o == vg_e1) return (spif_objpair_t) o;
#endif
    vm_scratch.key = nondet_ptr();
    vm_scratch.value = nondet_ptr();
    __CPROVER_assume(vm_scratch.key != NULL && vm_scratch.value != NULL);
    return &vm_scratch;
}
#undef SPIF_OBJPAIR
#define SPIF_OBJPAIR(o) vm_pair((spif_obj_t) (o))

/* spif_objpair_set_value on a slot's pair: real for a real pair, nothing for the scratch pair */
static spif_bool_t vm_set_value(spif_objpair_t p, spif_obj_t v)
{
    if (p == &vm_scratch) return TRUE;
    return spif_objpair_set_value(p, v);
}
/* spif_objpair_new_from_both: the real function; the pair it returns is recorded (cbmc can only
 * dereference a pointer it saw being ASSIGNED, so postconditions read the new pair through this) */
spif_objpair_t vg_newpair;
static spif_objpair_t vm_new_from_both(spif_obj_t k, spif_obj_t v)
{
    vg_newpair = spif_objpair_new_from_both(k, v);
    return vg_newpair;
}
#define spif_objpair_set_value     vm_set_value
#define spif_objpair_new_from_both vm_new_from_both

/* Output lists of get_keys / get_values / get_pairs.  SPIF_LIST_NEW / SPIF_LIST_APPEND dispatch
 * through the list class table (spif_func_t again).  NEW(array) is a direct call; APPEND is the
 * ghost form of the list append contract ("adds the item at the end", proved for the array class
 * by C02.array_append): appends are counted and the item appended as number vg_k is recorded, so
 * "exactly count items, in slot order, the k-th being the copy of the k-th key" can be stated.
 * (A real append reallocates: free() inside a contracted loop, see va_del.) */
/* (vg_app_cnt, vg_app_k are declared in env_array.h) */
static spif_bool_t vm_list_append(spif_list_t l, spif_obj_t item)
{
    __CPROVER_assert(l != NULL, "SPIF_LIST_APPEND: receiver is not NULL (dispatch dereferences it)");
    if (vg_app_cnt == vg_k) vg_app_k = item;
    vg_app_cnt++;
    return TRUE;
}
/* dup of a slot's PAIR (get_pairs, map_dup; units define VM_DUP_IS_PAIR).  Same scheme as va_dup:
 * for the ghost slot the copy is written into the fresh pair vg_dup_pair (with fresh key / value
 * blocks) handed in by the precondition -- observably what spif_objpair_dup does (C05.objpair_dup),
 * without a malloc inside the contracted loop (DFCC loop write sets forbid allocation); for any
 * other slot the result is an arbitrary pointer. */
#ifdef VM_DUP_IS_PAIR
static spif_obj_t vm_pair_dup(spif_obj_t o)
{
    if (vg_cur == vg_k) {
        __CPROVER_assert(o != NULL, "SPIF_OBJ_DUP: receiver is not NULL (dispatch dereferences it)");
        __CPROVER_assume(o != NULL);
        spif_objpair_t s = (spif_objpair_t) o;
        vg_dup_pair->parent = s->parent;
        *((velem_t) vg_dup_pair->key) = *((velem_t) s->key);
        *((velem_t) vg_dup_pair->value) = *((velem_t) s->value);
        vg_dup_cnt++;
        return (spif_obj_t) vg_dup_pair;
    }
    spif_obj_t r = nondet_ptr();
    return r;
}
# undef SPIF_OBJ_DUP
# define SPIF_OBJ_DUP(o) vm_pair_dup((spif_obj_t) (o))
#endif

#undef SPIF_LIST_APPEND
#undef SPIF_LIST_NEW
#define SPIF_LIST_APPEND(o, item) vm_list_append((spif_list_t) (o), (spif_obj_t) (item))
#define SPIF_LIST_NEW(type)       ((spif_list_t) spif_array_list_new())

#endif /* phase 2 */
