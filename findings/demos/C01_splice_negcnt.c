/* C01 demo: a negative count means "up to |cnt| characters before the end" everywhere in libast
 * (spif_str_substr, spif_mbuff_subbuff, spiftool_substr: cnt = len - idx + cnt).  spif_str_splice and
 * spif_str_splice_from_ptr compute idx + len + cnt instead (sign of idx), so for idx > 0 the call is either
 * refused or removes the wrong number of characters.
 *   build: tools/native_build.sh findings/demos/C01_splice_negcnt.c /tmp/d && /tmp/d [1 = ustr]   (assert fails) */
#include <libast_internal.h>
#include <stdio.h>
#include <stdlib.h>
#include <string.h>
#include <assert.h>

int main(int argc, char **argv)
{
    if (argc > 1 && atoi(argv[1]) == 1) {
        spif_ustr_t s = spif_ustr_new_from_ptr((spif_charptr_t) "abcdefghij");
        /* replace from index 2 up to 3 characters before the end: "ab" + "X" + "hij" */
        spif_bool_t r = spif_ustr_splice_from_ptr(s, 2, -3, (spif_charptr_t) "X");
        printf("r=%d text=\"%s\"\n", (int) r, (char *) s->s);
        assert(r == TRUE && strcmp((char *) s->s, "abXhij") == 0);
    } else {
        spif_str_t s = spif_str_new_from_ptr((spif_charptr_t) "abcdefghij");
        spif_bool_t r = spif_str_splice_from_ptr(s, 2, -3, (spif_charptr_t) "X");
        printf("r=%d text=\"%s\"\n", (int) r, (char *) s->s);
        assert(r == TRUE && strcmp((char *) s->s, "abXhij") == 0);
    }
    return 0;
}
