/* C12: when the i-th word is a single quote character at the end of the input, spiftool_get_pword skips
 * the quote, finds the terminator and returns NULL, although num_words counts the word and get_word
 * returns it (as the empty word).  The assertion fails. */
#include <libast_internal.h>
#include <assert.h>
int main(void)
{
    const char *s = "a '";
    unsigned long n = spiftool_num_words((spif_charptr_t) s);
    spif_charptr_t w = spiftool_get_word(n, (spif_charptr_t) s);
    spif_charptr_t p = spiftool_get_pword(n, (spif_charptr_t) s);
    printf("num_words = %lu, get_word(%lu) = [%s], get_pword(%lu) = %s\n", n, n, w ? (char *) w : "(NULL)", n, p ? (char *) p : "(NULL)");
    assert(p != NULL);
    return 0;
}
