/* C09: in spifconf_parse_line's %preproc branch the block declares its own `FILE *fp;` (conf.c:896),
 * which shadows the parameter.  The early return for an already preprocessed file,
 *     if (file_peek_preproc()) { SPIFCONF_PARSE_RET(); }
 * expands to `if (!fp) {file_pop(); ctx_end();} return;` and therefore tests the UNINITIALISED inner fp.
 * When that stack slot happens to hold 0 the parser, in file mode, pops the file stack and ends the
 * current context although the line is only a repeated %preproc directive: one spurious END call, the
 * context depth drops, fstate_idx drops (the caller's loop then fcloses/pops the wrong file).
 * The read is of an indeterminate value, so ASan/UBSan (tools/native_build.sh) stay silent unless the slot
 * happens to be 0 (then the asserts below fire).  MemorySanitizer shows it deterministically:
 *   clang -g -O0 -fsanitize=memory -DHAVE_CONFIG_H -w -I/repo -I/repo/include -I/repo/include/libast \
 *         -o demo findings/demos/C09_preproc_shadow_fp.c /repo/src/{array,builtin_hashes,conf,debug,dlinked_list,file,\
 *         linked_list,mbuff,mem,msgs,obj,objpair,options,regexp,socket,str,strings,tok,url,ustr}.c -lX11 -lpcre -ldl -lm
 *   ==WARNING: MemorySanitizer: use-of-uninitialized-value  #0 spifconf_parse_line /repo/src/conf.c:899:19 */
#include <libast_internal.h>
#include <assert.h>
static int ends;
static void *h(spif_charptr_t buff, void *state) { if (*buff == SPIFCONF_END_CHAR) ends++; return state; }
static void zero_stack(void) { volatile char big[1 << 17]; memset((void *) big, 0, sizeof(big)); }
int main(void)
{
    static char begin[CONFIG_BUFF] = "begin foo\n", line[CONFIG_BUFF] = "%preproc cat\n";
    FILE *fp = fopen("/dev/null", "r");
    unsigned before;

    spifconf_init_subsystem();
    spifconf_register_context((spif_charptr_t) "foo", h);
    spifconf_register_fstate(fp, (spif_charptr_t) "demo", NULL, 1, FILE_PREPROC);   /* a file that was preprocessed already */
    spifconf_parse_line(fp, (spif_charptr_t) begin);                                 /* open context foo */
    before = fstate_idx;
    zero_stack();
    spifconf_parse_line(fp, (spif_charptr_t) line);                                  /* second %preproc: must be a no-op */
    fprintf(stderr, "fstate_idx %u -> %u, END calls %d (expected: unchanged, 0)\n", before, (unsigned) fstate_idx, ends);
    assert(fstate_idx == before);
    assert(ends == 0);
    return 0;
}
