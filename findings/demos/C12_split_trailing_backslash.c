/* C12: with an explicit delimiter set IS_DELIM('\0') is true (strchr finds the terminator), so an input
 * that ends in a backslash makes spiftool_split / spif_tok_eval skip the backslash, copy the NUL as a
 * token character and step past the terminator: the next loop test reads beyond the string.
 * usage: demo [0|1]   0 = spiftool_split(":", "a\\")   1 = tok with separator ":" on "a\\"
 * Expected under ASan: heap-buffer-overflow READ in spiftool_split (strings.c) / spif_tok_eval (tok.c). */
#include <libast_internal.h>
static spif_charptr_t heap_str(const char *s)
{
    size_t n = strlen(s);
    char *p = malloc(n + 1);      /* exact size: the byte after the terminator is not ours */
    memcpy(p, s, n + 1);
    return (spif_charptr_t) p;
}
int main(int argc, char **argv)
{
    int which = (argc > 1) ? atoi(argv[1]) : 0;
    if (which == 0) {
        spif_charptr_t *l = spiftool_split(heap_str(":"), heap_str("a\\"));
        printf("split returned %p\n", (void *) l);
    } else {
        spif_tok_t t = spif_tok_new_from_ptr(heap_str("a\\"));
        spif_tok_set_sep(t, spif_str_new_from_ptr(heap_str(":")));
        spif_tok_eval(t);
        printf("tok evaluated\n");
    }
    return 0;
}
