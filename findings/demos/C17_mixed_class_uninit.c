/* C17: when the two current characters are of different classes (letter vs digit, digit vs
 * punctuation, ...) spiftool_version_compare returns strcasecmp(buff1, buff2) although NOTHING has
 * been copied into buff1/buff2 in this run (on the first round: in this call at all).  The answer is
 * whatever earlier calls left on the stack.  The program dirties the stack with different bytes and
 * asks the same question again.  Expected: the assert "same answer" fails (or ASan reports a
 * stack-buffer-overflow READ when the garbage has no NUL inside the 128 bytes). */
#include <libast_internal.h>
#include <assert.h>
static unsigned seed;
static __attribute__((noinline)) void dirty(void)
{
    volatile char junk[4096];
    int i;
    for (i = 0; i < 4096; i++) { seed = seed * 1103515245u + 12345u; junk[i] = ((seed >> 16) % 5) ? 'a' + (seed >> 20) % 3 : 0; }
}
int main(void)
{
    int i, first = 99, diff = 0;
    for (i = 0; i < 64; i++) {
        int r;
        dirty();
        r = (int) spiftool_version_compare((spif_charptr_t) "a", (spif_charptr_t) "1");
        if (i == 0) first = r;
        if (r != first) { printf("call %d: compare(\"a\",\"1\") = %d, first call gave %d\n", i, r, first); diff = 1; }
    }
    assert(!diff);
    printf("all 64 answers equal\n");
    return 0;
}
