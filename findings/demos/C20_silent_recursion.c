/* C20: "with output silenced, messages, warnings and errors print nothing".
 * With silent set and the runtime debug level >= 1, libast_dprintf's own
 * REQUIRE_RVAL(!silent, 0) logs its failure through libast_dprintf, which fails
 * the same REQUIRE again: unbounded recursion (stack overflow), and the __DEBUG()
 * header is printed on every level although output is silenced. */
#include <libast_internal.h>
int main(void)
{
    libast_set_silent(TRUE);
    libast_debug_level = 1;
    libast_print_warning("hello %d\n", 1);
    printf("returned\n");
    return 0;
}
