/* C05 (url class, filed with the C14 url findings): spif_url_dup() builds the copy by re-parsing the TEXT of the original.  Components changed
 * through the property setters since the text was last rebuilt (spif_url_unparse) are therefore not copied:
 * the copy's observable value (spif_url_get_*) differs from the original's.
 * tools/native_build.sh; exit 1 on the defective tree. */
#include <libast_internal.h>
int main(void)
{
    spif_url_t u = spif_url_new_from_ptr((spif_charptr_t) "http://old.example/"), v;
    int differ;

    spif_url_set_host(u, spif_str_new_from_ptr((spif_charptr_t) "new.example"));
    v = spif_url_dup(u);
    printf("original host: %s\ncopy host:     %s\n", SPIF_STR_STR(spif_url_get_host(u)), SPIF_STR_STR(spif_url_get_host(v)));
    differ = strcmp((char *) SPIF_STR_STR(spif_url_get_host(u)), (char *) SPIF_STR_STR(spif_url_get_host(v)));
    spif_url_del(u);
    spif_url_del(v);
    if (differ) {
        printf("DEFECT: the copy does not have the original's components\n");
        return 1;
    }
    return 0;
}
