/* C07/C05 (mbuff): spif_mbuff_cmp / _comp / _ncmp compare only MIN(len) bytes and cmp_with_ptr compares
 * exactly the caller's count, so a buffer and its proper prefix compare EQUAL, the order is not transitive
 * ("ac" == "a" == "ab" but "ac" > "ab"), and cmp_with_ptr with a count above len reads past the buffer.
 *   no argument : exit status 3, the wrong answers are printed
 *   "overread"  : ASan heap-buffer-overflow READ in memcmp called from spif_mbuff_cmp_with_ptr */
#include <libast_internal.h>
int main(int argc, char **argv)
{
    spif_mbuff_t a = spif_mbuff_new_from_ptr((spif_byteptr_t) "a", 1);
    spif_mbuff_t ab = spif_mbuff_new_from_ptr((spif_byteptr_t) "ab", 2);
    spif_mbuff_t ac = spif_mbuff_new_from_ptr((spif_byteptr_t) "ac", 2);
    int bad = 0;

    if (argc > 1) {
        spif_cmp_t r = spif_mbuff_cmp_with_ptr(a, (spif_byteptr_t) "aaaaaaaaaaaaaaaaaaaaaaaaaaaaaaaaaaaaaaaa", 40);
        fprintf(stderr, "cmp_with_ptr(\"a\", 40 bytes) = %d\n", (int) r);
        spif_mbuff_del(a); spif_mbuff_del(ab); spif_mbuff_del(ac);
        return 0;
    }
    fprintf(stderr, "cmp(\"a\",\"ab\") = %d (expected LESS = -1)\n", (int) spif_mbuff_cmp(a, ab));
    fprintf(stderr, "cmp(\"ac\",\"a\") = %d, cmp(\"a\",\"ab\") = %d, cmp(\"ac\",\"ab\") = %d (transitivity)\n",
            (int) spif_mbuff_cmp(ac, a), (int) spif_mbuff_cmp(a, ab), (int) spif_mbuff_cmp(ac, ab));
    fprintf(stderr, "ncmp(\"a\",\"ab\",5) = %d, cmp_with_ptr(\"ab\",\"a\",1) = %d\n",
            (int) spif_mbuff_ncmp(a, ab, 5), (int) spif_mbuff_cmp_with_ptr(ab, (spif_byteptr_t) "a", 1));
    if (SPIF_CMP_IS_EQUAL(spif_mbuff_cmp(a, ab))) bad = 1;
    if (SPIF_CMP_IS_EQUAL(spif_mbuff_comp(a, ab))) bad = 1;
    spif_mbuff_del(a); spif_mbuff_del(ab); spif_mbuff_del(ac);
    return bad ? 3 : 0;
}
