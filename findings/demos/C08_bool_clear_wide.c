/* C08: handle_boolean clears bits OUTSIDE the option's mask.  The target is documented as an
 * "unsigned long" bitfield, the mask is a spif_uint32_t: `*(unsigned long *) value &= ~mask`
 * zero-extends ~mask, so "--flag=no" clears bits 32..63 of the variable as well. */
#include <libast_internal.h>
#include <assert.h>
int main(void)
{
    unsigned long flags = 0xAAAAAAAA00000001UL;
    spifopt_t opts[] = { SPIFOPT_BOOL('a', "alpha", "a", flags, 0x01) };
    char *argv[] = { "prog", "--alpha=no", NULL };
    SPIFOPT_OPTLIST_SET(opts); SPIFOPT_NUMOPTS_SET(1); SPIFOPT_ALLOWBAD_SET(0);
    spifopt_parse(2, argv);
    printf("flags = %#lx (expected 0xaaaaaaaa00000000)\n", flags);
    assert(((flags ^ 0xAAAAAAAA00000001UL) & ~0x01UL) == 0 && "only the mask bit may change");
    return 0;
}
