/* C07 (mbuff): spif_mbuff_init_from_fd / new_from_fd
 *   "file"  : a regular file.  The seekable branch declares an inner `p` that is never set and calls
 *             read(fd, p, file_size): the kernel answers EFAULT (or the bytes land wherever the stack garbage
 *             points), the constructor fails, new_from_fd() returns NULL for every regular file.  Exit 3.
 *   "short" : a pipe whose writer delivers 10 bytes, pauses, delivers 10 more.  The first read() returns 10
 *             (a short count is legal on a pipe and is not the end of the input); the loop stops there and
 *             the buffer holds 10 of the 20 bytes.  Exit 3.
 *   "big"   : a pipe carrying 10000 bytes.  After the first 4096-byte chunk the block is REALLOCed but the
 *             write pointer `p` still points into the old block (p += 4096): ASan heap-use-after-free /
 *             heap-buffer-overflow WRITE in read().
 *   "err"   : a descriptor on which read() fails (write end of a pipe: EBADF).  The -1 is stored in a size_t,
 *             passes the `> 0` test and is added to len (len goes negative); as the failure repeats the loop never
 *             ends, growing the block by 4096 bytes per turn.  The demo arms alarm(3): exit status 3 on the hang. */
#include <libast_internal.h>
#include <sys/wait.h>
#include <fcntl.h>
#include <signal.h>
static void on_alarm(int sig)
{
    static const char msg[] = "init_from_fd is still looping on a failing read() after 3 s\n";
    (void) sig;
    if (write(2, msg, sizeof(msg) - 1) < 0) _exit(3);
    _exit(3);
}
static void feeder(int fd, int pieces, int piece_len, int pause_ms)
{
    char block[10000];
    int i;
    memset(block, 'x', sizeof(block));
    for (i = 0; i < pieces; i++) {
        if (write(fd, block, piece_len) < 0) break;
        usleep(pause_ms * 1000);
    }
    close(fd);
    _exit(0);
}
int main(int argc, char **argv)
{
    const char *mode = (argc > 1) ? argv[1] : "file";
    spif_mbuff_t m;
    int fds[2], rc = 0;

    if (!strcmp(mode, "file")) {
        char path[] = "/tmp/c07_fdXXXXXX";
        int fd = mkstemp(path);
        if (write(fd, "0123456789", 10) != 10) return 0;
        lseek(fd, 0, SEEK_SET);
        m = spif_mbuff_new_from_fd(fd);
        fprintf(stderr, "new_from_fd(regular file of 10 bytes) = %p\n", (void *) m);
        if (!m || m->len != 10 || memcmp(m->buff, "0123456789", 10)) rc = 3;
        close(fd); unlink(path);
        return rc;
    }
    if (pipe(fds)) return 0;
    if (!strcmp(mode, "err")) {
        signal(SIGALRM, on_alarm);
        alarm(3);
        m = spif_mbuff_new_from_fd(fds[1]);      /* write end: lseek -> ESPIPE, read -> EBADF */
        fprintf(stderr, "read() failing: len=%ld size=%ld buff=%p\n", (long) m->len, (long) m->size, (void *) m->buff);
        return (m->len == 0 && m->size == 0) ? 0 : 3;
    }
    if (fork() == 0) {
        close(fds[0]);
        if (!strcmp(mode, "short")) feeder(fds[1], 2, 10, 300);
        else feeder(fds[1], 1, 10000, 0);
    }
    close(fds[1]);
    if (!strcmp(mode, "short")) usleep(100 * 1000);
    m = spif_mbuff_new_from_fd(fds[0]);
    wait(NULL);
    fprintf(stderr, "%s: len=%ld size=%ld\n", mode, (long) m->len, (long) m->size);
    if (!strcmp(mode, "short") && m->len != 20) rc = 3;
    if (!strcmp(mode, "big") && m->len != 10000) rc = 3;
    return rc;
}
