/* C01 demo: spif_str_prepend_char on an ordinary allocated string whose capacity is len+1 or len+2 (what
 * every constructor and every append leaves) writes one byte past the buffer: len is incremented first and
 * then memmove(s+1, s, len+1) moves len_old+2 bytes, one more than text+terminator.
 *   build: tools/native_build.sh findings/demos/C01_prepend_char_overrun.c /tmp/d && /tmp/d [1 = ustr] */
#include <libast_internal.h>
#include <stdio.h>
#include <stdlib.h>

int main(int argc, char **argv)
{
    if (argc > 1 && atoi(argv[1]) == 1) {
        spif_ustr_t s = spif_ustr_new_from_ptr((spif_charptr_t) "abc");   /* len 3, size 4 */
        spif_ustr_prepend_char(s, 'x');           /* realloc(5); memmove(s+1, s, 5) -> writes s[5] */
        printf("no sanitizer report: \"%s\" len=%ld size=%ld\n", (char *) s->s, (long) s->len, (long) s->size);
    } else {
        spif_str_t s = spif_str_new_from_ptr((spif_charptr_t) "abc");
        spif_str_prepend_char(s, 'x');
        printf("no sanitizer report: \"%s\" len=%ld size=%ld\n", (char *) s->s, (long) s->len, (long) s->size);
    }
    return 0;
}
