/* C01 demo: spif_str_sprintf computes the buffer size as (int) c + 1 where c is vsnprintf's return value; a
 * format whose output is INT_MAX characters long makes c + 1 overflow (undefined behaviour; in practice the size
 * becomes negative, MALLOC((size_t) -2147483648) fails and the second vsnprintf writes through NULL).
 *   build: tools/native_build.sh findings/demos/C01_sprintf_intmax.c /tmp/d && /tmp/d   (UBSan: signed overflow) */
#include <libast_internal.h>
#include <stdio.h>

int main(void)
{
    spif_str_t s = spif_str_new();
    spif_bool_t r = spif_str_sprintf(s, (spif_charptr_t) "%2147483647s", "");
    printf("no sanitizer report: r=%d len=%ld size=%ld\n", (int) r, (long) s->len, (long) s->size);
    return 0;
}
