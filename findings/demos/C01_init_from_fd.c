/* C01/C19 demo: spif_str_init_from_fd (read() loop).
 *   case 0: input that takes two read() calls (5000 bytes): after the first read the buffer is REALLOCed but the cursor
 *           p keeps pointing into the old block; the second read() stores through it (ASan heap-use-after-free).
 *   case 1: errno still holds EINTR from an earlier, unrelated call when the descriptor is at end of file: the loop
 *           condition (n > 0 || errno == EINTR) never becomes false - the constructor spins forever (SIGALRM after 3 s).
 *   add 10 for the ustr clone.
 *   build: tools/native_build.sh findings/demos/C01_init_from_fd.c /tmp/d && /tmp/d [case] */
#include <libast_internal.h>
#include <stdio.h>
#include <stdlib.h>
#include <unistd.h>
#include <signal.h>
#include <errno.h>
#include <fcntl.h>

static void on_alarm(int sig)
{
    (void) sig;
    write(2, "HANG: init_from_fd still looping after 3 s\n", 43);
    _exit(1);
}

int main(int argc, char **argv)
{
    int c = (argc > 1) ? atoi(argv[1]) : 0, fd;
    if ((c % 10) == 0) {
        int p[2];
        if (pipe(p)) return 2;
        { int i; for (i = 0; i < 5000; i++) write(p[1], "x", 1); }      /* more than one 4096-byte read */
        close(p[1]);
        fd = p[0];
    } else {
        fd = open("/dev/null", O_RDONLY);
        signal(SIGALRM, on_alarm);
        alarm(3);
        errno = EINTR;                       /* left over from some earlier interrupted call */
    }
    if (c < 10) {
        spif_str_t s = spif_str_new_from_fd(fd);
        printf("no sanitizer report: len=%ld\n", (long) s->len);
    } else {
        spif_ustr_t s = spif_ustr_new_from_fd(fd);
        printf("no sanitizer report: len=%ld\n", (long) s->len);
    }
    return 0;
}
