/* C07 (mbuff): spif_mbuff_reverse() keeps its indices in `int`.  For a buffer of more than INT_MAX bytes
 * i = self->len - 1 is truncated (negative here), the loop does not run and the function reports TRUE
 * without having reversed anything.  Needs 2 GiB + 2 bytes of memory.  Exit status 3. */
#include <libast_internal.h>
int main(void)
{
    spif_memidx_t n = 0x80000002L;
    spif_mbuff_t m = spif_mbuff_new_from_buff((spif_byteptr_t) NULL, 0, n);
    spif_bool_t ok;

    if (!m || !m->buff) { fprintf(stderr, "cannot allocate\n"); return 0; }
    m->len = n;
    m->buff[0] = 'A';
    m->buff[n - 1] = 'Z';
    ok = spif_mbuff_reverse(m);
    fprintf(stderr, "reverse() = %d, first byte '%c', last byte '%c' (expected 'Z' and 'A')\n", (int) ok, m->buff[0], m->buff[n - 1]);
    return (m->buff[0] == 'Z' && m->buff[n - 1] == 'A') ? 0 : 3;
}
