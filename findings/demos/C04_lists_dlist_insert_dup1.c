/* C04: a vector is a sorted MULTISET - inserting an element equal to the only stored one must work.
 * dlinked_list insert(): the element is neither < head nor > tail, the walk stops with current->next == NULL
 * and `current->next->prev = item` dereferences NULL (dlinked_list.c, spif_dlinked_list_insert).
 * Build: tools/native_build.sh findings/demos/C04_lists_dlist_insert_dup1.c /tmp/d && ASAN_OPTIONS=detect_leaks=0 /tmp/d  (SEGV = defect shown) */
#include "C02_lists_demo.h"
int main(void)
{
    spif_vector_t v = SPIF_VECTOR_NEW(dlinked_list);
    SPIF_VECTOR_INSERT(v, S("a"));
    printf("inserting a second \"a\" into the one-element dlinked_list vector [a] ...\n"); fflush(stdout);
    SPIF_VECTOR_INSERT(v, S("a"));
    printf("count = %d\n", (int) SPIF_VECTOR_COUNT(v));
    return SPIF_VECTOR_COUNT(v) == 2 ? 0 : 1;
}
