/* C11 lifecycle: spifconf_free_subsystem() frees the %put/%get variable list but leaves the
 * file-local head pointer spifconf_vars pointing at the freed nodes.  A second
 * init / use / free cycle walks (and frees again) freed memory.
 * Expected: AddressSanitizer heap-use-after-free in spifconf_get_var / spifconf_free_subsystem. */
#include <libast_internal.h>
int main(void)
{
    char a[CONFIG_BUFF] = "%put(a b)", b[CONFIG_BUFF] = "%get(a)";

    spifconf_init_subsystem();
    spifconf_shell_expand((spif_charptr_t) a);      /* stores variable a=b */
    spifconf_free_subsystem();                      /* frees the list, keeps the head pointer */

    spifconf_init_subsystem();                      /* second cycle */
    spifconf_shell_expand((spif_charptr_t) b);      /* %get(a): walks the freed list */
    printf("second cycle: %%get(a) -> \"%s\"\n", b);
    spifconf_free_subsystem();                      /* frees the nodes a second time */
    return 0;
}
