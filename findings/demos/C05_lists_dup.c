/* C05: dup must return a distinct, equal, independent, WELL-FORMED copy for every reachable state, including
 * empty containers and lists with NULL placeholders.  Each case runs in a child process so that one crash
 * does not hide the others.
 *   (a) linked_list / dlinked_list dup of the EMPTY list: item_dup(NULL head) then src->next on NULL -> SIGSEGV
 *   (b) dlinked_list dup of a list with a NULL placeholder: item_dup calls SPIF_OBJ_DUP(NULL) -> SIGSEGV
 *   (c) dlinked_list dup: tail of the copy is the last-but-one node (NULL for a one-element list) and the last
 *       node's prev is never set: append to the copy drops/corrupts elements
 * Build: tools/native_build.sh findings/demos/C05_lists_dup.c /tmp/d && ASAN_OPTIONS=detect_leaks=0 /tmp/d  (exit 1 = defects shown) */
#include "C02_lists_demo.h"
#include <sys/wait.h>
#include <unistd.h>

static int run(int which)
{
    spif_list_t l, d;
    switch (which) {
    case 0: l = mk(1, 0); d = SPIF_LIST_DUP(l); return !(d && SPIF_LIST_COUNT(d) == 0);
    case 1: l = mk(2, 0); d = SPIF_LIST_DUP(l); return !(d && SPIF_LIST_COUNT(d) == 0);
    case 2: l = mk(2, 1); SPIF_LIST_INSERT_AT(l, S("x"), 3);            /* [a,-,-,x] */
            d = SPIF_LIST_DUP(l); return !(d && !strcmp(show(d), "a,-,-,x"));
    case 3: l = mk(2, 3); d = SPIF_LIST_DUP(l);
            printf("    copy of [a,b,c]: tail->data = %s (ideal c), last->prev = %p (ideal: node of b)\n",
                   (char *) SPIF_STR_STR((spif_str_t) ((spif_dlinked_list_t) d)->tail->data),
                   (void *) ((spif_dlinked_list_t) d)->head->next->next->prev);
            SPIF_LIST_APPEND(d, S("x"));
            printf("    copy after append(x): [%s] (ideal [a,b,c,x])\n", show(d));
            return strcmp(show(d), "a,b,c,x") != 0;
    }
    return 0;
}
static const char *what[] = { "linked_list dup of the empty list", "dlinked_list dup of the empty list",
                              "dlinked_list dup of a list with NULL placeholders", "dlinked_list dup then append to the copy" };
int main(void)
{
    int i, bad = 0;
    for (i = 0; i < 4; i++) {
        pid_t p; int st;
        fflush(stdout);
        p = fork();
        if (p == 0) { int r = run(i); fflush(stdout); _exit(r); }
        waitpid(p, &st, 0);
        if (WIFSIGNALED(st) || WEXITSTATUS(st) != 0) {
            printf("DEFECT: %s: %s %d\n", what[i], WIFSIGNALED(st) ? "killed by signal" : "wrong result, exit", WIFSIGNALED(st) ? WTERMSIG(st) : WEXITSTATUS(st));
            bad = 1;
        } else printf("ok: %s\n", what[i]);
    }
    return bad;
}
