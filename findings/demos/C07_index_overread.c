/* C07 (mbuff): spif_mbuff_index() reads *tmp BEFORE it tests i < len, so a search for an absent byte
 * reads buff[len]: one byte past the allocation when size == len (every buffer made by new_from_ptr),
 * and *NULL on the empty buffer.  Expected: ASan heap-buffer-overflow READ of size 1 in spif_mbuff_index. */
#include <libast_internal.h>
int main(void)
{
    spif_mbuff_t m = spif_mbuff_new_from_ptr((spif_byteptr_t) "abc", 3);
    spif_memidx_t r = spif_mbuff_index(m, 'z');

    fprintf(stderr, "index('z') = %ld (len %ld)\n", (long) r, (long) m->len);
    spif_mbuff_del(m);
    return 0;
}
