/* C10/C06: every $ reference allocates a 128-byte name buffer that is never released
 * (LeakSanitizer: 128 bytes per reference, allocated in spifconf_shell_expand). */
#include <libast_internal.h>
int main(void)
{
    char buf[CONFIG_BUFF];
    int i;
    spifconf_init_subsystem();
    unsetenv("b");
    for (i = 0; i < 4; i++) {
        strcpy(buf, "$b");
        spifconf_shell_expand((spif_charptr_t) buf);
    }
    return 0;
}
