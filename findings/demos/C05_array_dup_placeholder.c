/* C05: dup of an array list that holds a NULL placeholder (left by insert_at past the end)
 * calls SPIF_OBJ_DUP(NULL), which dereferences the NULL element to find its class: the process
 * dies instead of returning an equal copy.  Same loop in spif_array_vector_dup / _map_dup. */
#include <libast_internal.h>
int main(void)
{
    spif_list_t l = SPIF_LIST_NEW(array), c;
    SPIF_LIST_APPEND(l, spif_str_new_from_ptr((spif_charptr_t) "a"));
    SPIF_LIST_INSERT_AT(l, spif_str_new_from_ptr((spif_charptr_t) "x"), 3);   /* slots 1,2 = NULL placeholders */
    printf("count %d, slot 1 is %s\n", (int) SPIF_LIST_COUNT(l), SPIF_LIST_GET(l, 1) ? "set" : "NULL");
    c = SPIF_LIST_DUP(l);                                                       /* crashes */
    printf("dup ok: count %d\n", (int) SPIF_LIST_COUNT(c));
    return 0;
}
