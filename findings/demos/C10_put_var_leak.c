/* C10 var store: "%put(k v) ... until k is put again": put on an existing key keeps the old name and
 * drops the freshly allocated copy of the new one (spifconf_put_var takes ownership of both words).
 * LeakSanitizer reports the lost block (spiftool_get_word <- builtin_put). */
#include <libast_internal.h>
#include <assert.h>
int main(void)
{
    char buf[CONFIG_BUFF];
    int i;
    spifconf_init_subsystem();
    for (i = 0; i < 3; i++) {
        strcpy(buf, "%put(key value)");
        spifconf_shell_expand((spif_charptr_t) buf);
    }
    strcpy(buf, "%get(key)");
    spifconf_shell_expand((spif_charptr_t) buf);
    assert(strcmp(buf, "value") == 0);
    return 0;
}
