/* C08: an option that needs a value but has none ("-n" as the last word) executes
 * `CHECK_BAD(); continue;` without moving the cursor: the same word is counted again and again
 * until the bad-option allowance is used up (then the help handler runs; if that returns, forever).
 * One missing value, allowance 5: the help handler sees 6 bad options. */
#include <libast_internal.h>
#include <assert.h>
static void my_help(void)
{
    printf("help handler: %d bad options counted for ONE missing value\n", SPIFOPT_BADOPTS_GET());
    assert(SPIFOPT_BADOPTS_GET() == 1);
    exit(0);
}
int main(void)
{
    int num = 0;
    spifopt_t opts[] = { SPIFOPT_INT('n', "num", "n", num) };
    char *argv[] = { "prog", "-n", NULL };
    SPIFOPT_OPTLIST_SET(opts); SPIFOPT_NUMOPTS_SET(1); SPIFOPT_ALLOWBAD_SET(5);
    SPIFOPT_HELPHANDLER_SET(my_help);
    spifopt_parse(2, argv);
    printf("returned: %d bad options\n", SPIFOPT_BADOPTS_GET());
    assert(SPIFOPT_BADOPTS_GET() == 1);
    return 0;
}
