/* C12: spiftool_split counts tokens in an `unsigned short`.  The 65536th token wraps the counter to 0: the
 * list is re-allocated to two entries, every token found so far is leaked, and the caller receives only
 * the tokens after the wrap.  65537 one-letter tokens in, 1 token out: the assertion fails. */
#include <libast_internal.h>
#include <assert.h>
#define N 65537
int main(void)
{
    char *s = malloc(2 * N);
    spif_charptr_t *l;
    unsigned long i, cnt = 0;
    for (i = 0; i < N; i++) {
        s[2 * i] = 'a';
        s[2 * i + 1] = ' ';
    }
    s[2 * N - 1] = 0;
    l = spiftool_split(NULL, (spif_charptr_t) s);
    for (i = 0; l && l[i]; i++) cnt++;
    printf("%d tokens in, %lu tokens out\n", N, cnt);
    assert(cnt == N);
    return 0;
}
