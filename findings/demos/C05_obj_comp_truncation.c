/* C05: spif_obj_comp orders objects by address but squeezes the 64-bit address difference through
 * (int): two distinct objects 4 GiB apart compare EQUAL, and objects 2 GiB apart compare LESS in
 * BOTH directions (antisymmetry broken).  The objects below live inside one large anonymous mapping. */
#include <libast_internal.h>
#include <sys/mman.h>
int main(void)
{
    size_t span = (size_t) 5 << 30;
    char *base = mmap(NULL, span, PROT_READ | PROT_WRITE, MAP_PRIVATE | MAP_ANONYMOUS | MAP_NORESERVE, -1, 0);
    spif_obj_t a, b, c;
    int bad = 0;
    if (base == MAP_FAILED) { perror("mmap"); return 0; }
    a = (spif_obj_t) base; b = (spif_obj_t) (base + ((size_t) 2 << 30)); c = (spif_obj_t) (base + ((size_t) 4 << 30));
    spif_obj_init(a); spif_obj_init(b); spif_obj_init(c);
    printf("comp(a,b)=%d comp(b,a)=%d comp(a,c)=%d\n", (int) spif_obj_comp(a, b), (int) spif_obj_comp(b, a), (int) spif_obj_comp(a, c));
    if ((int) spif_obj_comp(a, b) != -(int) spif_obj_comp(b, a)) { printf("antisymmetry broken\n"); bad = 1; }
    if (spif_obj_comp(a, c) == SPIF_CMP_EQUAL) { printf("distinct objects compare EQUAL\n"); bad = 1; }
    return bad;
}
