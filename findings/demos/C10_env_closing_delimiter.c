/* C10: "${NAME} / $(NAME) are replaced in place ... with the text before and after preserved".
 * After the name loop the cursor stands on the closing } or ), and the main loop copies it as ordinary
 * text: "x${a}y" with a=VAL should give "xVALy" (on the unfixed tree the misplaced copy of the value hides
 * this; with the value copied to the right place the result is "xVAL}y"). */
#include <libast_internal.h>
#include <assert.h>
int main(void)
{
    char buf[CONFIG_BUFF];
    spifconf_init_subsystem();
    setenv("a", "VAL", 1);
    strcpy(buf, "x${a}y$(a)");
    spifconf_shell_expand((spif_charptr_t) buf);
    printf("\"x${a}y$(a)\" with a=VAL expands to \"%s\" (expected \"xVALyVAL\")\n", buf);
    assert(strcmp(buf, "xVALyVAL") == 0);
    return 0;
}
