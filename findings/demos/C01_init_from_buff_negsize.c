/* C01 demo: spif_str_init_from_buff / new_from_buff accept a negative byte count: it is stored as the capacity,
 * handed to strnlen and MALLOC as a huge size_t, the allocation fails and the copy writes through NULL.
 *   build: tools/native_build.sh findings/demos/C01_init_from_buff_negsize.c /tmp/d && /tmp/d [1 = ustr]
 *   (ASan: requested allocation size exceeds maximum / SEGV) */
#include <libast_internal.h>
#include <stdio.h>
#include <stdlib.h>

int main(int argc, char **argv)
{
    if (argc > 1 && atoi(argv[1]) == 1) {
        spif_ustr_t s = spif_ustr_new_from_buff((spif_charptr_t) "abc", -1);
        printf("no sanitizer report: %p\n", (void *) s);
    } else {
        spif_str_t s = spif_str_new_from_buff((spif_charptr_t) "abc", -1);
        printf("no sanitizer report: %p\n", (void *) s);
    }
    return 0;
}
