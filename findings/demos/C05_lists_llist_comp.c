/* C05: comparison must terminate.  spif_linked_list_comp(a, b) with two non-NULL lists calls
 * SPIF_OBJ_COMP(a, b), which dispatches on a's class - i.e. to spif_linked_list_comp itself: unbounded
 * recursion until the stack is exhausted.
 * Build: tools/native_build.sh findings/demos/C05_lists_llist_comp.c /tmp/d && ASAN_OPTIONS=detect_leaks=0 /tmp/d
 * (AddressSanitizer: stack-overflow = defect shown) */
#include "C02_lists_demo.h"
int main(void)
{
    spif_list_t a = mk(1, 2), b = mk(1, 2);
    printf("comparing two linked_lists ...\n"); fflush(stdout);
    printf("comp = %d\n", (int) SPIF_LIST_COMP(a, b));
    return 0;
}
