/* C01/C05 demo: spif_str_dup copies the reported capacity (size) but gives the copy a buffer of only len+1 bytes
 * (STRDUP).  When the original has spare capacity the copy claims room it does not have, and the next append that
 * "fits" writes past the copy's buffer.
 *   build: tools/native_build.sh findings/demos/C01_dup_size.c /tmp/d && /tmp/d [1 = ustr]   (ASan heap-buffer-overflow) */
#include <libast_internal.h>
#include <stdio.h>
#include <stdlib.h>

int main(int argc, char **argv)
{
    if (argc > 1 && atoi(argv[1]) == 1) {
        spif_ustr_t a = spif_ustr_new_from_buff((spif_charptr_t) "ab", 16);   /* len 2, size 16 */
        spif_ustr_t b = spif_ustr_dup(a);                                     /* len 2, size 16, buffer 3 bytes */
        spif_ustr_append_char(b, 'c');                                        /* no realloc: writes b->s[3] */
        printf("no sanitizer report: size=%ld\n", (long) b->size);
    } else {
        spif_str_t a = spif_str_new_from_buff((spif_charptr_t) "ab", 16);
        spif_str_t b = spif_str_dup(a);
        spif_str_append_char(b, 'c');
        printf("no sanitizer report: size=%ld\n", (long) b->size);
    }
    return 0;
}
