/* C12 (str.c defect seen through tok): spif_tok_eval trims every token; for an empty token ('' or "")
 * spif_str_trim computes end = s + 0 - 1 and reads s[-1].  Expected under ASan: heap-buffer-overflow READ
 * of size 1 in spif_str_trim (str.c) called from spif_tok_eval (tok.c).
 * usage: demo [0|1]   1 = the all-blank token ' ' keeps one blank instead of being trimmed to "" (assert) */
#include <libast_internal.h>
#include <assert.h>
int main(int argc, char **argv)
{
    int which = (argc > 1) ? atoi(argv[1]) : 0;
    spif_tok_t t = spif_tok_new_from_ptr((spif_charptr_t) (which ? "' '" : "''"));
    spif_str_t s;
    spif_tok_eval(t);
    s = (spif_str_t) SPIF_LIST_GET(spif_tok_get_tokens(t), 0);
    printf("token: [%s] len %ld\n", s->s ? (char *) s->s : "(null)", (long) s->len);
    assert(s->len == 0);
    return 0;
}
