/* C02: reverse must leave a well-formed list.
 *  (a) dlinked_list: reverse() never updates tail, so every later operation that starts from the tail
 *      (append, get/remove_at in the back half) works on the wrong end of the list.
 *  (b) linked_list / dlinked_list: reverse() of the EMPTY list stores an uninitialised local in head.
 * Build: tools/native_build.sh findings/demos/C02_lists_reverse.c /tmp/d && ASAN_OPTIONS=detect_leaks=0 /tmp/d   (exit 1 = defects shown) */
#include "C02_lists_demo.h"

static void dirty_stack(void) { volatile char junk[512]; memset((void *) junk, 0x41, sizeof(junk)); }

int main(void)
{
    int bad = 0, c;
    for (c = 0; c < 3; c++) {
        spif_list_t l = mk(c, 3);
        SPIF_LIST_REVERSE(l);
        EXPECT(!strcmp(show(l), "c,b,a"), "%s: reverse of [a,b,c] reads back as [%s], ideal [c,b,a]", cname[c], show(l));
        SPIF_LIST_APPEND(l, S("x"));
        EXPECT(!strcmp(show(l), "c,b,a,x"), "%s: reverse then append(x) on [a,b,c] gives [%s] (count %d), ideal [c,b,a,x]",
               cname[c], show(l), (int) SPIF_LIST_COUNT(l));
    }
    for (c = 1; c < 3; c++) {
        spif_list_t l = mk(c, 0);
        dirty_stack();
        SPIF_LIST_REVERSE(l);
        if (c == 1) EXPECT(((spif_linked_list_t) l)->head == NULL, "%s: reverse of the empty list leaves head = %p (uninitialised local), ideal NULL",
                           cname[c], (void *) ((spif_linked_list_t) l)->head);
        else        EXPECT(((spif_dlinked_list_t) l)->head == NULL, "%s: reverse of the empty list leaves head = %p (uninitialised local), ideal NULL",
                           cname[c], (void *) ((spif_dlinked_list_t) l)->head);
    }
    return bad;
}
