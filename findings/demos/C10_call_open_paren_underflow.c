/* C10 (memory safety of the %name(args) branch): an input that ends right after "%name(" leaves the
 * argument-copy loop without a single iteration, and "*(--tmp1) = 0" then stores the terminator one byte
 * BEFORE the freshly allocated Command buffer (heap underflow write). */
#include <libast_internal.h>
/* the error path also leaks Command (a C06 matter): leak detection off, this demo is about the write */
const char *__asan_default_options(void) { return "detect_leaks=0"; }
int main(void)
{
    char buf[CONFIG_BUFF];
    spifconf_init_subsystem();
    strcpy(buf, "%get(");
    spifconf_shell_expand((spif_charptr_t) buf);
    return 0;
}
