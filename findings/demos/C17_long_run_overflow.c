/* C17: spiftool_version_compare copies each alphabetic / numeric / punctuation run into the
 * 128-byte stack buffers buff1 / buff2 with no bound on the run length.
 * Expected under ASan: stack-buffer-overflow WRITE in spiftool_version_compare (strings.c:721). */
#include <libast_internal.h>
int main(void)
{
    char a[201], b[] = "b";
    memset(a, 'a', 200); a[200] = 0;
    printf("%d\n", (int) spiftool_version_compare((spif_charptr_t) a, (spif_charptr_t) b));
    return 0;
}
