/* C17: numeric components are parsed with strtol, truncated to 32 bits and compared by
 * SUBTRACTION in int: (a) components >= 2^31 wrap (4294967296 is taken for 0), so numbers are not
 * ordered numerically; (b) ival1 - ival2 overflows (UBSan) for 2147483647 vs 3000000000
 * (truncated to -1294967296).  Expected: UBSan signed-integer-overflow at strings.c:782, or the assert. */
#include <libast_internal.h>
#include <assert.h>
int main(void)
{
    spif_cmp_t c = spiftool_version_compare((spif_charptr_t) "4294967296", (spif_charptr_t) "1");
    printf("compare(4294967296, 1) = %d (expected %d)\n", (int) c, (int) SPIF_CMP_GREATER);
    c = spiftool_version_compare((spif_charptr_t) "2147483647", (spif_charptr_t) "3000000000");
    printf("compare(2147483647, 3000000000) = %d (expected %d)\n", (int) c, (int) SPIF_CMP_LESS);
    assert(c == SPIF_CMP_LESS);
    assert(spiftool_version_compare((spif_charptr_t) "4294967296", (spif_charptr_t) "1") == SPIF_CMP_GREATER);
    return 0;
}
