/* C19: spif_socket_accept() hands accept() a 16-byte buffer (sizeof(struct sockaddr)) and then, for an AF_UNIX
 * listener, reads addr->sun_path as a C string (spif_url_new_from_unixaddr -> spif_str_new_from_ptr -> strlen).
 * A client that did not bind has an EMPTY address: the kernel writes 2 bytes, the 14 path bytes stay
 * uninitialised heap and nothing terminates them; a client bound to a path of 14 or more characters is cut
 * off without a terminator.  Either way strlen() runs past the 16-byte block.
 * Demo: listener on /tmp/c19L, unbound client; AddressSanitizer: heap-buffer-overflow READ in strlen called
 * from spif_str_init_from_ptr <- spif_url_init_from_unixaddr <- spif_socket_accept.  tools/native_build.sh. */
#include <libast_internal.h>
int main(void)
{
    spif_url_t lurl = spif_url_new_from_ptr((spif_charptr_t) "unix:/tmp/c19L");
    spif_socket_t listener, client, conn;

    unlink("/tmp/c19L");
    listener = spif_socket_new_from_urls(lurl, (spif_url_t) NULL);
    if (!spif_socket_open(listener)) { fprintf(stderr, "cannot listen on /tmp/c19L\n"); return 2; }
    client = spif_socket_new_from_urls((spif_url_t) NULL, lurl);          /* connect only: no local name */
    if (!spif_socket_open(client)) { fprintf(stderr, "cannot connect\n"); return 2; }
    conn = spif_socket_accept(listener);
    fprintf(stderr, "accepted, peer path reported as \"%s\"\n",
            conn ? (char *) SPIF_STR_STR(spif_url_get_path(conn->remote_url)) : "(none)");
    if (conn) spif_socket_del(conn);
    spif_socket_del(client);
    spif_socket_del(listener);
    spif_url_del(lurl);
    unlink("/tmp/c19L");
    return 0;
}
