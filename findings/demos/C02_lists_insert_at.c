/* C02: insert_at must put the element AT the normalised position (negative = from the end),
 * pad with NULL placeholders when the position is past the end, and refuse a position that
 * normalises below zero - the same in all three list classes.
 * Build: tools/native_build.sh findings/demos/C02_lists_insert_at.c /tmp/d && /tmp/d   (exit 1 = defects shown) */
#include "C02_lists_demo.h"
int main(void)
{
    int bad = 0, c;
    for (c = 0; c < 3; c++) {
        spif_list_t l; spif_bool_t r;
        /* (a) empty list, position 2: ideal "-,-,x" */
        l = mk(c, 0); SPIF_LIST_INSERT_AT(l, S("x"), 2);
        EXPECT(!strcmp(show(l), "-,-,x"), "%s: insert_at(x,2) on the empty list gives [%s], ideal [-,-,x]", cname[c], show(l));
        /* (b) position len-1: ideal "a,b,x,c" */
        l = mk(c, 3); SPIF_LIST_INSERT_AT(l, S("x"), 2);
        EXPECT(!strcmp(show(l), "a,b,x,c"), "%s: insert_at(x,len-1) on [a,b,c] gives [%s], ideal [a,b,x,c]", cname[c], show(l));
        /* (c) position len: ideal "a,b,c,x", TRUE */
        l = mk(c, 3); r = SPIF_LIST_INSERT_AT(l, S("x"), 3);
        EXPECT(r && !strcmp(show(l), "a,b,c,x"), "%s: insert_at(x,len) on [a,b,c] returns %d and gives [%s], ideal TRUE [a,b,c,x]", cname[c], (int) r, show(l));
        /* (d) position in the back half of a 5-list: ideal "a,b,c,x,d,e" */
        l = mk(c, 5); SPIF_LIST_INSERT_AT(l, S("x"), 3);
        EXPECT(!strcmp(show(l), "a,b,c,x,d,e"), "%s: insert_at(x,3) on [a,b,c,d,e] gives [%s], ideal [a,b,c,x,d,e]", cname[c], show(l));
        /* (e) idx = -len-1 normalises to -1: must be refused, list unchanged */
        if (c != 0) {   /* array.c writes items[-1] here (separate finding of the array units) */
            l = mk(c, 3); r = SPIF_LIST_INSERT_AT(l, S("x"), -4);
            EXPECT(!r && !strcmp(show(l), "a,b,c"), "%s: insert_at(x,-len-1) on [a,b,c] returns %d and gives [%s], ideal FALSE [a,b,c]", cname[c], (int) r, show(l));
        }
    }
    return bad;
}
