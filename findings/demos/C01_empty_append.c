/* C01 demo: the first append/prepend on a freshly created, still empty string (s=NULL,len=0,size=0)
 * writes one byte past the new buffer.  size is grown by the number of characters added, but len+1
 * bytes (text + terminator) are stored; only an allocated string already has room for the terminator.
 *   build: tools/native_build.sh findings/demos/C01_empty_append.c /tmp/d && /tmp/d [case]   (ASan aborts)
 *   case 0 append_char  1 append_from_ptr  2 append  3 prepend_char  4 prepend_from_ptr  5 prepend
 *   add 10 for the ustr clone (10..15) */
#include <libast_internal.h>
#include <stdio.h>
#include <stdlib.h>

int main(int argc, char **argv)
{
    int c = (argc > 1) ? atoi(argv[1]) : 0;
    if (c < 10) {
        spif_str_t s = spif_str_new();                       /* (NULL,0,0) */
        spif_str_t o = spif_str_new_from_ptr((spif_charptr_t) "abc");
        switch (c) {
        case 0: spif_str_append_char(s, 'x'); break;         /* realloc(NULL,1); s[1] = 0 */
        case 1: spif_str_append_from_ptr(s, (spif_charptr_t) "abc"); break;   /* realloc(NULL,3); memcpy 4 */
        case 2: spif_str_append(s, o); break;
        case 3: spif_str_prepend_char(s, 'x'); break;
        case 4: spif_str_prepend_from_ptr(s, (spif_charptr_t) "abc"); break;
        case 5: spif_str_prepend(s, o); break;
        }
        printf("no sanitizer report: len=%ld size=%ld\n", (long) s->len, (long) s->size);
    } else {
        spif_ustr_t s = spif_ustr_new();
        spif_ustr_t o = spif_ustr_new_from_ptr((spif_charptr_t) "abc");
        switch (c - 10) {
        case 0: spif_ustr_append_char(s, 'x'); break;
        case 1: spif_ustr_append_from_ptr(s, (spif_charptr_t) "abc"); break;
        case 2: spif_ustr_append(s, o); break;
        case 3: spif_ustr_prepend_char(s, 'x'); break;
        case 4: spif_ustr_prepend_from_ptr(s, (spif_charptr_t) "abc"); break;
        case 5: spif_ustr_prepend(s, o); break;
        }
        printf("no sanitizer report: len=%ld size=%ld\n", (long) s->len, (long) s->size);
    }
    return 0;
}
