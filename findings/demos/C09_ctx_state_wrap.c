/* C09/C11: 8-bit capacity counters wrap on the fourth doubling (20,40,80,160 -> 64):
 * the 160th nested context push writes past the shrunken table. */
#include <libast_internal.h>
int main(void)
{
    int i;
    spifconf_init_subsystem();
    for (i = 0; i < 200; i++) {
        spifconf_register_context_state(0);
    }
    printf("pushed 200 context states\n");
    return 0;
}
