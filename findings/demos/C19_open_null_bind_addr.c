/* C19: spif_socket_open() dereferences the result of spif_url_get_ipaddr(local_url) in a D_OBJ() debug
 * statement before looking at it.  spif_url_get_ipaddr returns NULL when the local URL has no host part or the
 * name does not resolve; at run-time debug level >= 2 (DEBUG_OBJ) the statement
 *      D_OBJ(("Binding to port %d\n", ntohs(addr->sin_port)));          socket.c:321
 * is a NULL dereference (SIGSEGV).  Below that level bind() is handed a NULL address and merely fails.
 * Demo: local URL "http:/nohost" (protocol http, no host), debug level 2.  tools/native_build.sh. */
#include <libast_internal.h>
int main(void)
{
    spif_url_t lurl;
    spif_socket_t s;
    spif_bool_t ok;

    libast_debug_level = 2;
    lurl = spif_url_new_from_ptr((spif_charptr_t) "http:/nohost");
    s = spif_socket_new_from_urls(lurl, (spif_url_t) NULL);
    ok = spif_socket_open(s);
    fprintf(stderr, "spif_socket_open returned %s\n", ok ? "TRUE" : "FALSE");
    spif_socket_del(s);
    spif_url_del(lurl);
    return 0;
}
