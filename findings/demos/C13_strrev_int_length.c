/* C13/C01: strrev() keeps the length in an int.  For a string of 2^31 characters
 * "i = strlen(str)" is converted to INT_MIN and "i--" overflows (UBSan: signed integer overflow);
 * in a wrapping build the loop "i > j" never runs and nothing is reversed.
 * Needs 2 GB of memory.  Expected: UBSan runtime error at strings.c:159 (or the assert). */
#include <libast_internal.h>
#include <assert.h>
int main(void)
{
    size_t n = (size_t) 1 << 31;
    char *s = malloc(n + 1);
    if (!s) { printf("cannot allocate\n"); return 0; }
    memset(s, 'a', n); s[0] = 'b'; s[n] = 0;
    strrev(s);
    assert(s[n - 1] == 'b' && s[0] == 'a');
    printf("reversed\n");
    return 0;
}
