/* C13: spiftool_safe_strncat(dest, src, size) when dest holds no NUL within its first size bytes:
 * strnlen() returns size, the function returns FALSE and leaves dest as it was, i.e. NOT
 * NUL-terminated inside dest[0..size).  The property ("for every prior destination content ... always
 * leave the destination NUL-terminated") asks for a terminator in every case, like safe_strncpy gives.
 * Expected: the assert fails. */
#include <libast_internal.h>
#include <assert.h>
int main(void)
{
    char dest[4] = { 'x', 'x', 'x', 'x' };
    spif_bool_t r = spiftool_safe_strncat((spif_charptr_t) dest, (spif_charptr_t) "a", 4);
    printf("returned %d, dest = %.4s\n", (int) r, dest);
    assert(r == FALSE);
    assert(memchr(dest, 0, 4) != NULL);   /* terminated within size */
    return 0;
}
