/* C13: spiftool_substr(str, idx, cnt) with cnt <= 0 means "up to -cnt characters before the end".
 * When -cnt exceeds what is left after the start position, "len - start_pos + cnt" wraps around in
 * spif_uint32_t, UPPER_BOUND clamps the huge value to len - start_pos, and the WHOLE tail is returned
 * instead of nothing: substr("abc", 0, -5) gives "abc" (and substr("abcdef", 4, -3) gives "ef").
 * The requested slice does not exist; exact-or-refuse allows NULL or "" only.  Expected: assert fails. */
#include <libast_internal.h>
#include <assert.h>
int main(void)
{
    spif_charptr_t r = spiftool_substr((spif_charptr_t) "abc", 0, -5);
    printf("substr(\"abc\", 0, -5) = %s%s%s\n", r ? "\"" : "", r ? (char *) r : "NULL", r ? "\"" : "");
    { spif_charptr_t e = spiftool_substr((spif_charptr_t) "abc", 0, -3); assert(e && e[0] == 0); free(e); }   /* drop all three: empty, fine */
    assert(r == NULL || r[0] == 0);
    free(r);
    return 0;
}
