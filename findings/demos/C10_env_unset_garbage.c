/* C10: "... or by nothing when unset"; "never depends on leftover stack contents".
 * For an unset variable nothing is stored at newbuff[j] but j still advances, so one byte of whatever
 * the stack held before the call becomes part of the result.  Two calls with the same input, the same
 * environment and the same var store give different answers. */
#include <libast_internal.h>
#include <assert.h>
static void __attribute__((noinline)) dirty_stack(int c)
{
    volatile char junk[CONFIG_BUFF + 4096];
    memset((void *) junk, c, sizeof(junk));
}
int main(void)
{
    char b1[CONFIG_BUFF], b2[CONFIG_BUFF];
    spifconf_init_subsystem();
    unsetenv("b");
    strcpy(b1, "ab$b cd"); strcpy(b2, "ab$b cd");
    dirty_stack('P'); spifconf_shell_expand((spif_charptr_t) b1);
    dirty_stack('Q'); spifconf_shell_expand((spif_charptr_t) b2);
    printf("run 1: \"%s\"\nrun 2: \"%s\"\n(expected \"ab cd\" both times)\n", b1, b2);
    assert(strcmp(b1, b2) == 0);
    assert(strcmp(b1, "ab cd") == 0);
    return 0;
}
