/* C12: spiftool_get_word treats \' and \" inside a word as escaped quote characters, spiftool_num_words
 * does not: for '\'a  num_words says 2 words, but there is no second word for get_word (NULL).  The word
 * utilities are not mutually consistent: the assertion fails. */
#include <libast_internal.h>
#include <assert.h>
int main(void)
{
    const char *s = "'\\'a";
    unsigned long n = spiftool_num_words((spif_charptr_t) s), i;
    printf("num_words(%s) = %lu\n", s, n);
    for (i = 1; i <= n; i++) {
        spif_charptr_t w = spiftool_get_word(i, (spif_charptr_t) s);
        printf("  get_word(%lu) = %s\n", i, w ? (char *) w : "(NULL)");
        assert(w != NULL);
    }
    return 0;
}
