/* C16: class-table methods called with a NULL object at runtime debug level 0 must return their
 * failure value without crashing.  Four methods did not guard their object argument:
 *   1 spif_socket_comp(NULL, x)                     -> reads NULL->fd
 *   2 dlinked_list iterator comp(NULL, it)          -> reads NULL->subject
 *   3 linked_list iterator(NULL)                    -> builds an iterator over a NULL list (array and
 *                                                      dlinked_list return NULL); next() then reads NULL
 *   4 spif_mbuff_reverse(NULL)                      -> reads NULL->buff before its own guard
 * usage: demo <1|2|3|4> */
#include <libast_internal.h>
int main(int argc, char **argv)
{
    int which = (argc > 1) ? atoi(argv[1]) : 1;
    libast_debug_level = 0;
    libast_set_silent(TRUE);
    if (which == 1) {
        spif_socket_t s = spif_socket_new();
        spif_cmp_t c = spif_socket_comp((spif_socket_t) NULL, s);
        printf("socket comp(NULL, s) = %d (want %d)\n", (int) c, (int) SPIF_CMP_LESS);
        return (c == SPIF_CMP_LESS) ? 0 : 1;
    } else if (which == 2) {
        spif_list_t l = SPIF_LIST_NEW(dlinked_list);
        spif_iterator_t it = SPIF_LIST_ITERATOR(l);
        spif_cmp_t c = (spif_cmp_t) (SPIF_OBJ_CALL_METHOD(it, comp)((spif_obj_t) NULL, it));
        printf("dlinked iterator comp(NULL, it) = %d (want %d)\n", (int) c, (int) SPIF_CMP_LESS);
        return (c == SPIF_CMP_LESS) ? 0 : 1;
    } else if (which == 3) {
        spif_iterator_t it = (spif_iterator_t) (SPIF_LISTCLASS_VAR(linked_list)->iterator)((spif_list_t) NULL);
        printf("linked_list iterator(NULL) = %p (want NULL)\n", (void *) it);
        return (it == NULL) ? 0 : 1;
    } else {
        spif_bool_t b = spif_mbuff_reverse((spif_mbuff_t) NULL);
        printf("mbuff reverse(NULL) = %d (want FALSE)\n", (int) b);
        return b ? 1 : 0;
    }
}
