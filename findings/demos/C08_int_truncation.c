/* C08: an integer option stores strtol()'s long result into an int without a range check:
 * --num=4294967297 silently yields 1 and no bad option is counted. */
#include <libast_internal.h>
#include <assert.h>
int main(void)
{
    int num = 0;
    spifopt_t opts[] = { SPIFOPT_INT('n', "num", "n", num) };
    char *argv[] = { "prog", "--num=4294967297", NULL };
    SPIFOPT_OPTLIST_SET(opts); SPIFOPT_NUMOPTS_SET(1); SPIFOPT_ALLOWBAD_SET(255);
    spifopt_parse(2, argv);
    printf("num = %d, bad options = %d\n", num, SPIFOPT_BADOPTS_GET());
    assert(num != 1 || SPIFOPT_BADOPTS_GET() > 0);
    return 0;
}
