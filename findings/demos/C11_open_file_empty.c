/* C11: spifconf_open_file ignores the result of fgets().  For an empty (or unreadable) file nothing is read,
 * and the 256-byte stack buffer `buff` is used UNINITIALISED: spif_str_new_from_ptr(buff) runs strlen/copy over
 * stack garbage (reads past the buffer if the garbage holds no NUL), and the magic check compares garbage.
 * ASan/UBSan (tools/native_build.sh) only fire when the garbage has no NUL; MemorySanitizer is deterministic:
 *   clang -g -O0 -fsanitize=memory -DHAVE_CONFIG_H -w -I/repo -I/repo/include -I/repo/include/libast -o demo \
 *         findings/demos/C11_open_file_empty.c /repo/src/{array,builtin_hashes,conf,debug,dlinked_list,file,linked_list,\
 *         mbuff,mem,msgs,obj,objpair,options,regexp,socket,str,strings,tok,url,ustr}.c -lX11 -lpcre -ldl -lm
 *   ==WARNING: MemorySanitizer: use-of-uninitialized-value ... spif_str_init_from_ptr / spifconf_open_file */
#include <libast_internal.h>
static void dirty_stack(void) { volatile char big[8192]; memset((void *) big, 'A', sizeof(big)); }
int main(void)
{
    FILE *f = fopen("/tmp/conf_demo_empty.cfg", "w");
    fclose(f);
    libast_program_name = "verif"; libast_program_version = "0";
    spifconf_init_subsystem();
    dirty_stack();                                   /* no NUL in the stale stack contents */
    f = spifconf_open_file((spif_charptr_t) "/tmp/conf_demo_empty.cfg");
    fprintf(stderr, "open_file on an empty file returned %p\n", (void *) f);
    return 0;
}
