/* C09: spifconf_parse_line(NULL, line) (the "command line" mode) pops the file stack and ends a
 * context on its early-return path although nothing was pushed yet: a comment/empty line makes
 * fstate_idx wrap from 0 to 255.  The file stack is not "back where it started"; the next
 * spifconf_parse() pushes at index 0, its loop "for (; fstate_idx > 0;)" never runs, no line is
 * delivered and the file is never closed. */
#include <libast_internal.h>
#include <assert.h>
static int lines;
static void *h(spif_charptr_t buff, void *state) { if (*buff != SPIFCONF_BEGIN_CHAR && *buff != SPIFCONF_END_CHAR) lines++; return state; }
int main(void)
{
    char c[] = "# just a comment";
    FILE *f;

    mkdir("/tmp/conf_demo", 0700);
    f = fopen("/tmp/conf_demo/u.cfg", "w");
    fprintf(f, "<verif-0>\nbegin foo\nx 1\nend\n"); fclose(f);

    libast_program_name = "verif"; libast_program_version = "0";
    spifconf_init_subsystem();
    spifconf_register_context((spif_charptr_t) "foo", h);
    spifconf_parse_line(NULL, (spif_charptr_t) c);
    fprintf(stderr, "fstate_idx after a comment in argv mode: %u\n", (unsigned) fstate_idx);
    free(spifconf_parse((spif_charptr_t) "/tmp/conf_demo/u.cfg", NULL, NULL));
    fprintf(stderr, "lines delivered by the following spifconf_parse: %d (expected 1)\n", lines);
    assert(fstate_idx == 0);
    assert(lines == 1);
    return 0;
}
