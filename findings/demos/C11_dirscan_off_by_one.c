/* C11: builtin_dirscan (reached from config text as %dirscan(DIR)) appends "name " for every regular file while
 * `len < n`, where n is the room left in its CONFIG_BUFF-byte heap buffer.  "name" + " " + NUL needs len + 2
 * bytes, the guard only guarantees len + 1: when a name is exactly n - 1 characters long the terminator of the
 * second strcat is written one byte past the end of the buffer.
 * 80 regular files with 255-character names use 80 * 256 = 20480 = CONFIG_BUFF bytes exactly.
 * Expected: AddressSanitizer heap-buffer-overflow WRITE of size 2 in strcat called from builtin_dirscan. */
#include <libast_internal.h>
#include <sys/stat.h>
int main(void)
{
    static char line[CONFIG_BUFF];
    char name[600];
    int i, j;

    system("rm -rf /tmp/conf_demo_dirscan");
    mkdir("/tmp/conf_demo_dirscan", 0700);
    for (i = 0; i < 80; i++) {
        int n = snprintf(name, sizeof(name), "/tmp/conf_demo_dirscan/%02d", i);
        for (j = n; j < 23 + 255; j++) name[j] = 'x';
        name[j] = 0;
        fclose(fopen(name, "w"));
    }
    spifconf_init_subsystem();
    strcpy(line, "%dirscan(/tmp/conf_demo_dirscan)");
    spifconf_shell_expand((spif_charptr_t) line);
    fprintf(stderr, "expanded to %lu characters\n", (unsigned long) strlen(line));
    return 0;
}
