/* C05: spif_array_comp walks i < self->len and reads other->items[i] without looking at
 * other->len, and answers EQUAL when it runs out of self's elements:
 *   (1) a proper prefix compares EQUAL to the longer list (views differ; not antisymmetric);
 *   (2) the longer list compared with its prefix reads past the end of other->items.
 * Run with argument "2" to see (2) under ASan; without argument it checks (1). */
#include <libast_internal.h>
int main(int argc, char **argv)
{
    spif_list_t a = SPIF_LIST_NEW(array), b = SPIF_LIST_NEW(array);
    spif_cmp_t c;

    SPIF_LIST_APPEND(a, spif_str_new_from_ptr((spif_charptr_t) "x"));
    SPIF_LIST_APPEND(a, spif_str_new_from_ptr((spif_charptr_t) "y"));
    SPIF_LIST_APPEND(b, spif_str_new_from_ptr((spif_charptr_t) "x"));
    if (argc > 1) {
        c = SPIF_LIST_COMP(a, b);           /* reads b->items[1]: heap-buffer-overflow */
        printf("comp([x,y],[x]) = %d\n", (int) c);
        return 0;
    }
    c = SPIF_LIST_COMP(b, a);
    printf("comp([x],[x,y]) = %d (expected -1: a proper prefix is smaller, never EQUAL)\n", (int) c);
    return SPIF_CMP_IS_LESS(c) ? 0 : 1;
}
