/* shared helpers for the C02-C06 list demos (owner: lists) */
#include <libast_internal.h>
#include <stdio.h>
#include <stdlib.h>
#include <string.h>

#define S(x) ((spif_obj_t) spif_str_new_from_ptr((spif_charptr_t) (x)))

/* render a list as "a,b,-,c" (- = NULL placeholder) by walking get(0..count) */
static const char *show(spif_list_t l)
{
    static char buf[4][256]; static int n;
    char *b = buf[n++ & 3];
    spif_listidx_t i, c = SPIF_LIST_COUNT(l);
    b[0] = 0;
    for (i = 0; i < c; i++) {
        spif_str_t s = (spif_str_t) SPIF_LIST_GET(l, i);
        if (i) strcat(b, ",");
        strcat(b, s ? (const char *) SPIF_STR_STR(s) : "-");
    }
    return b;
}
static spif_list_t mk(int cls, int n)   /* cls 0 array, 1 linked_list, 2 dlinked_list; elements "a","b",... */
{
    spif_list_t l = (cls == 0) ? SPIF_LIST_NEW(array) : (cls == 1) ? SPIF_LIST_NEW(linked_list) : SPIF_LIST_NEW(dlinked_list);
    int i; char t[2] = "a";
    for (i = 0; i < n; i++, t[0]++) SPIF_LIST_APPEND(l, S(t));
    return l;
}
static const char *cname[] = { "array", "linked_list", "dlinked_list" };
#define EXPECT(cond, ...) do { if (!(cond)) { printf("DEFECT: " __VA_ARGS__); printf("\n"); bad = 1; } } while (0)
