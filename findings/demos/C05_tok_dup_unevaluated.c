/* C05: dup must work for every reachable state.  A tokenizer that has not been evaluated yet has
 * tokens == NULL; spif_tok_dup dispatches SPIF_LIST_DUP(self->tokens) through the NULL list's class. */
#include <libast_internal.h>
int main(void)
{
    spif_tok_t t = spif_tok_new_from_ptr(SPIF_CHARPTR("a b c")), d;
    d = spif_tok_dup(t);
    printf("dup = %p\n", (void *) d);
    if (!d || spif_tok_comp(t, d) != SPIF_CMP_EQUAL) return 1;
    spif_tok_del(t);
    spif_tok_del(d);
    return 0;
}
