/* C11: spifconf_shell_expand finds a built-in by scanning `for (k = 0; builtins[k].name; k++)`, i.e. it relies on
 * a NULL name terminating the table.  spifconf_init_subsystem zeroes the 10 initial slots, but
 * spifconf_register_builtin grows the table with REALLOC and never clears the new slots: after the 10th
 * registration (7 are built in) builtins[10].name is whatever realloc left there, and the next "%..." in a
 * config value walks into it.
 * Expected: AddressSanitizer SEGV / wild pointer read in strlen called from spifconf_shell_expand
 * (ASan fills fresh heap memory with 0xbe; without it the scan follows stale heap contents). */
#include <libast_internal.h>
static spif_charptr_t b(spif_charptr_t p) { return NULL; }
int main(void)
{
    static char line[CONFIG_BUFF] = "%nosuchfunction(x)";
    spifconf_init_subsystem();                 /* 7 built-ins, capacity 10 */
    spifconf_register_builtin("one", b);
    spifconf_register_builtin("two", b);
    spifconf_register_builtin("three", b);     /* 10th entry: table grows to 20, slots 10..19 not cleared */
    spifconf_shell_expand((spif_charptr_t) line);
    fprintf(stderr, "survived: \"%s\"\n", line);
    return 0;
}
