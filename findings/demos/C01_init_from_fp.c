/* C01 demo: spif_str_init_from_fp (chunked fgets reader).
 *   case 0: a line longer than one 4095-character chunk: after REALLOC moved the buffer the cursor p still points into
 *           the old block and the next fgets writes there (ASan heap-use-after-free); independent of that the cursor
 *           advances by 4096 after a 4095-character chunk, leaving the chunk's NUL inside the text.
 *   case 1: a stream that is already at end of file: fgets stores nothing and strlen() runs over the uninitialised
 *           buffer (ASan: heap-buffer-overflow read, because its malloc fill pattern has no NUL).
 *   add 10 for the ustr clone.
 *   build: tools/native_build.sh findings/demos/C01_init_from_fp.c /tmp/d && /tmp/d [case] */
#include <libast_internal.h>
#include <stdio.h>
#include <stdlib.h>

int main(int argc, char **argv)
{
    int c = (argc > 1) ? atoi(argv[1]) : 0, i;
    FILE *fp = tmpfile();
    if ((c % 10) == 0) {
        for (i = 0; i < 6000; i++) fputc('a' + i % 26, fp);
        fputc('\n', fp);
    }
    rewind(fp);
    if (c < 10) {
        spif_str_t s = spif_str_new_from_fp(fp);
        printf("no sanitizer report: len=%ld (expected %d)\n", (long) s->len, (c % 10) == 0 ? 6000 : 0);
        return (s->len == ((c % 10) == 0 ? 6000 : 0)) ? 0 : 1;
    } else {
        spif_ustr_t s = spif_ustr_new_from_fp(fp);
        printf("no sanitizer report: len=%ld (expected %d)\n", (long) s->len, (c % 10) == 0 ? 6000 : 0);
        return (s->len == ((c % 10) == 0 ? 6000 : 0)) ? 0 : 1;
    }
}
