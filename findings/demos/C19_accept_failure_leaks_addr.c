/* C19/C06: spif_socket_accept() allocates the peer-address buffer first and returns NULL without releasing it
 * when accept() fails.  Demo: accept on a socket object that has no descriptor (accept(-1) -> EBADF), 100 times;
 * LeakSanitizer reports 100 x 16 bytes.  tools/native_build.sh; non-zero exit on the defective tree. */
#include <libast_internal.h>
int main(void)
{
    spif_socket_t s = spif_socket_new();
    int i, nulls = 0;
    for (i = 0; i < 100; i++) {
        if (spif_socket_accept(s) == NULL) nulls++;
    }
    fprintf(stderr, "%d failed accepts\n", nulls);
    spif_socket_del(s);
    return 0;
}
