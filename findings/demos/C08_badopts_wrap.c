/* C08: the bad-option counter is 8 bits wide and CHECK_BAD increments it without a limit check:
 * the 256th bad option wraps it to 0 (SPIFOPT_BADOPTS_GET() then reports no bad options, and the
 * "threshold exceeded" test starts from scratch). */
#include <libast_internal.h>
#include <assert.h>
int main(void)
{
    unsigned long flags = 0; int i;
    spifopt_t opts[] = { SPIFOPT_BOOL('a', "alpha", "a", flags, 0x01) };
    char *argv[258];
    argv[0] = "prog";
    for (i = 1; i <= 256; i++) argv[i] = "-x";           /* 256 unknown options */
    argv[257] = NULL;
    SPIFOPT_OPTLIST_SET(opts); SPIFOPT_NUMOPTS_SET(1); SPIFOPT_ALLOWBAD_SET(255);
    spifopt_parse(257, argv);
    printf("bad options counted: %d (256 given)\n", SPIFOPT_BADOPTS_GET());
    assert(SPIFOPT_BADOPTS_GET() != 0);
    return 0;
}
