/* C07/C05 (mbuff): spif_mbuff_dup() of the empty (NULL,0,0) buffer calls memcpy(dst, NULL, 0) (UBSan:
 * null pointer passed as argument 2, declared never to be null) and gives the copy a malloc(0) block with
 * size == 0, which done()/del() never free (LeakSanitizer).  Expected: UBSan report (exit != 0). */
#include <libast_internal.h>
int main(void)
{
    spif_mbuff_t e = spif_mbuff_new();
    spif_mbuff_t d = spif_mbuff_dup(e);

    fprintf(stderr, "copy: buff=%p len=%ld size=%ld\n", (void *) d->buff, (long) d->len, (long) d->size);
    spif_mbuff_del(d);
    spif_mbuff_del(e);
    return 0;
}
