/* C08: a lone "-" is looked up as the short option '\0' and "matches" the first option that has
 * no short form (short_opt == 0); the parser then reads past the end of the 2-byte word.
 * Here "-" sets the long-only boolean and ASan reports the out-of-bounds read. */
#include <libast_internal.h>
#include <assert.h>
int main(void)
{
    unsigned long flags = 0;
    spifopt_t opts[] = { SPIFOPT_BOOL('a', "alpha", "a", flags, 0x01), SPIFOPT_BOOL_LONG("longonly", "l", flags, 0x08) };
    char **argv = malloc(3 * sizeof(char *));
    argv[0] = strdup("prog"); argv[1] = strdup("-"); argv[2] = NULL;     /* heap words: exact bounds */
    SPIFOPT_OPTLIST_SET(opts); SPIFOPT_NUMOPTS_SET(2); SPIFOPT_ALLOWBAD_SET(255);
    spifopt_parse(2, argv);
    printf("flags = %#lx (expected 0), bad options = %d\n", flags, SPIFOPT_BADOPTS_GET());
    assert(flags == 0 && "a lone dash must not set an option");
    return 0;
}
