/* C02: spif_array_insert_at accepts a position that normalises to -1 (the guard is
 * REQUIRE_RVAL((idx + 1) >= 0, FALSE) instead of idx >= 0): with len == 2 and idx == -3 it
 * memmove()s 3 slots from items-1 to items and stores the new element at items[-1], i.e. reads
 * and writes 8 bytes in front of the heap block.  The property says such a position is refused
 * without change.  Build: tools/native_build.sh findings/demos/C02_array_insert_at_neg.c /tmp/d */
#include <libast_internal.h>
int main(void)
{
    spif_list_t l = SPIF_LIST_NEW(array);
    spif_str_t a = spif_str_new_from_ptr((spif_charptr_t) "a"), b = spif_str_new_from_ptr((spif_charptr_t) "b"),
               x = spif_str_new_from_ptr((spif_charptr_t) "x");
    spif_bool_t r;

    SPIF_LIST_APPEND(l, a);
    SPIF_LIST_APPEND(l, b);
    r = SPIF_LIST_INSERT_AT(l, x, -3);          /* normalises to -1: must be refused */
    printf("insert_at(-3) on a 2-element list returned %d, count now %d (expected 0 and 2)\n",
           (int) r, (int) SPIF_LIST_COUNT(l));
    return (r == FALSE && SPIF_LIST_COUNT(l) == 2) ? 0 : 1;
}
