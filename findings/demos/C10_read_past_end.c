/* C10: "expansion never reads past the end of its input, even when the input ends in a backslash or an
 * unterminated ${".  Each input sits in a heap block of exactly strlen+1 bytes (none of these inputs can
 * grow), so ASan reports the first byte read behind the terminator.
 *   argv[1] selects the input: 1 trailing backslash, 2 trailing backslash inside single quotes,
 *   3 unterminated ${, 4 unterminated $(, 5 trailing %, 6 unterminated back-quote (runs "a" through
 *   system(), harmless; only on request)   (no argument: 1-5, first failure wins) */
#include <libast_internal.h>
static const char *inputs[] = { "a\\", "'a\\", "${b", "$(b", "50%", "`a" };
static void run(const char *in)
{
    size_t n = strlen(in);
    char *buf = malloc(n + 1);
    memcpy(buf, in, n + 1);
    fprintf(stderr, "input \"%s\" in a %zu-byte block\n", in, n + 1);
    spifconf_shell_expand((spif_charptr_t) buf);
    free(buf);
}
int main(int argc, char **argv)
{
    int i;
    spifconf_init_subsystem();
    unsetenv("b");
    if (argc > 1) {
        run(inputs[atoi(argv[1]) - 1]);
    } else {
        for (i = 0; i < 5; i++) run(inputs[i]);
    }
    return 0;
}
