/* C05: type() does not name the object's class.  SPIF_OBJ_CLASSNAME(obj) (obj.h) is
 * ((spif_classname_t) SPIF_OBJ_CLASS(obj)): the address of the CLASS OBJECT cast to a string, not
 * the class's classname member.  Every type() method (array, objpair, str, ...) and every
 * "%s"-print of SPIF_OBJ_CLASSNAME in the show methods therefore yields the bytes of a pointer
 * instead of "!spif_array_t!".  Run with ASAN_OPTIONS=detect_leaks=0. */
#include <libast_internal.h>
int main(void)
{
    spif_list_t l = SPIF_LIST_NEW(array);
    spif_classname_t t = SPIF_OBJ_TYPE(l);
    printf("class name stored in the class: \"%s\"\n", SPIF_OBJ_CLASS(l)->classname);
    printf("type() returned %p, class object at %p, its classname string at %p\n", (void *) t, (void *) SPIF_OBJ_CLASS(l), (void *) SPIF_OBJ_CLASS(l)->classname);
    printf("type() as text equals the class name: %s\n", strcmp((char *) t, (char *) SPIF_OBJ_CLASS(l)->classname) == 0 ? "yes" : "NO");
    return strcmp((char *) t, (char *) SPIF_OBJ_CLASS(l)->classname) == 0 ? 0 : 1;
}
