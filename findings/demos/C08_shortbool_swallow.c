/* C08: a SHORT boolean option ignores any value ("pretend it was true"), yet the main loop still
 * consumes a following boolean word as its value: "-a off file" sets a (!) and, with REMOVE_ARGS,
 * drops the non-option word "off" from argv. */
#include <libast_internal.h>
#include <assert.h>
int main(void)
{
    unsigned long flags = 0;
    spifopt_t opts[] = { SPIFOPT_BOOL('a', "alpha", "a", flags, 0x01) };
    char *argv[] = { "prog", "-a", "off", "file", NULL };
    SPIFOPT_OPTLIST_SET(opts); SPIFOPT_NUMOPTS_SET(1); SPIFOPT_ALLOWBAD_SET(0);
    SPIFOPT_FLAGS_SET(SPIFOPT_SETTING_REMOVE_ARGS);
    spifopt_parse(4, argv);
    printf("flags = %#lx, argv = { %s, %s, %s }\n", flags, argv[0], argv[1] ? argv[1] : "NULL", (argv[1] && argv[2]) ? argv[2] : "NULL");
    /* either reading of "-a off" is acceptable: value honoured (flag clear, word consumed) or
     * value not taken (flag set, word kept).  The parser does neither. */
    assert((flags == 0 && !strcmp(argv[1], "file")) || (flags == 1 && !strcmp(argv[1], "off")));
    return 0;
}
