/* C10: text that is not one of the constructs named in the expansion rules is ordinary text and is
 * preserved.  A '%' that does not start a call to a registered built-in is dropped. */
#include <libast_internal.h>
#include <assert.h>
int main(void)
{
    char buf[CONFIG_BUFF];
    spifconf_init_subsystem();
    strcpy(buf, "50% of x");
    spifconf_shell_expand((spif_charptr_t) buf);
    printf("\"50%% of x\" expands to \"%s\"\n", buf);
    assert(strcmp(buf, "50% of x") == 0);
    return 0;
}
