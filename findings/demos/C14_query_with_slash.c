/* C14: a '/' inside the query of a URL that has no path is taken for the start of a path.
 * spif_url_parse looks for the first '/' after the authority BEFORE it looks for '?', so for
 *      "host?a/b"           (shape host ["?" query], query = "a/b"; '/' is legal in a query, RFC 3986 3.4)
 * it reports host = "host?a", path = "/b", query absent, instead of host = "host", query = "a/b".
 * With a path in front ("host/p?a/b") the query is found correctly.
 * Build with tools/native_build.sh; exits 1 on the defective tree. */
#include <libast_internal.h>

static int check(const char *text, const char *host, const char *path, const char *query)
{
    spif_url_t u = spif_url_new_from_ptr((spif_charptr_t) text);
    int bad = 0;

    printf("%-16s host=%-8s path=%-6s query=%s\n", text,
           spif_url_get_host(u) ? (char *) SPIF_STR_STR(spif_url_get_host(u)) : "(absent)",
           spif_url_get_path(u) ? (char *) SPIF_STR_STR(spif_url_get_path(u)) : "(absent)",
           spif_url_get_query(u) ? (char *) SPIF_STR_STR(spif_url_get_query(u)) : "(absent)");
    bad |= (spif_url_get_host(u) == NULL) || strcmp((char *) SPIF_STR_STR(spif_url_get_host(u)), host);
    bad |= (path == NULL) != (spif_url_get_path(u) == NULL);
    bad |= (path && spif_url_get_path(u) && strcmp((char *) SPIF_STR_STR(spif_url_get_path(u)), path));
    bad |= (spif_url_get_query(u) == NULL) || strcmp((char *) SPIF_STR_STR(spif_url_get_query(u)), query);
    spif_url_del(u);
    return bad;
}

int main(void)
{
    int bad = 0;

    bad |= check("host/p?a/b", "host", "/p", "a/b");      /* fine */
    bad |= check("host?a/b", "host", NULL, "a/b");        /* defect */
    bad |= check("//h:80?x=/tmp", "h", NULL, "x=/tmp");   /* defect */
    if (bad) {
        printf("DEFECT: '/' inside the query was parsed as the start of a path\n");
    }
    return bad;
}
