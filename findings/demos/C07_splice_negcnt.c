/* C07 (mbuff): a negative count means "up to |cnt| bytes before the end" (spif_mbuff_subbuff:
 * cnt = len - idx + cnt).  splice / splice_from_ptr compute  cnt = idx + len + cnt  instead, so for idx > 0
 * they remove a different range or refuse a valid one.  Buffer "0123456789":
 *   subbuff(1, -2)            -> "1234567"  (7 bytes: positions 1..7)
 *   splice_from_ptr(1, -2, "") should remove those 7 bytes -> "089"; it removes 9 -> "0"
 *   splice_from_ptr(2, -1, "") should remove "2345678" -> "019"; it is refused (FALSE)
 * Exit status 3 when the two methods disagree. */
#include <libast_internal.h>
int main(void)
{
    int bad = 0;
    spif_mbuff_t m = spif_mbuff_new_from_ptr((spif_byteptr_t) "0123456789", 10);
    spif_mbuff_t sub = spif_mbuff_subbuff(m, 1, -2);
    spif_bool_t ok;

    fprintf(stderr, "subbuff(1,-2): %ld bytes \"%.*s\"\n", (long) sub->len, (int) sub->len, (char *) sub->buff);
    ok = spif_mbuff_splice_from_ptr(m, 1, -2, (spif_byteptr_t) NULL, 0);
    fprintf(stderr, "splice_from_ptr(1,-2): %d, left %ld bytes \"%.*s\" (expected 3: \"089\")\n", (int) ok, (long) m->len, (int) m->len, (char *) m->buff);
    if (m->len != 10 - sub->len) bad = 1;
    spif_mbuff_del(m);
    m = spif_mbuff_new_from_ptr((spif_byteptr_t) "0123456789", 10);
    ok = spif_mbuff_splice_from_ptr(m, 2, -1, (spif_byteptr_t) NULL, 0);
    fprintf(stderr, "splice_from_ptr(2,-1): %d, left %ld bytes \"%.*s\" (expected TRUE, 3: \"019\")\n", (int) ok, (long) m->len, (int) m->len, (char *) m->buff);
    if (!ok || m->len != 3) bad = 1;
    spif_mbuff_del(sub);
    spif_mbuff_del(m);
    return bad ? 3 : 0;
}
