/* C19/C06: the EFBIG branch of spif_socket_send() re-sends the payload in 1 KiB chunks through
 * spif_str_new_from_buff() + a recursive send, but deletes the chunk string only when the recursive
 * send FAILED: every successfully sent chunk (object + buffer) is leaked.
 * Demo: write() is interposed in this executable (the library sources are linked in): the first call
 * answers -1/EFBIG, every later call accepts everything.  A 3000-byte payload is then delivered
 * completely (3 chunks), spif_socket_send returns TRUE - and LeakSanitizer reports the 3 chunk strings.
 * Build with tools/native_build.sh (ASan => LSan at exit); exit status non-zero on the defective tree. */
#include <libast_internal.h>

static int calls;
static unsigned long accepted;

ssize_t write(int fd, const void *buf, size_t n)
{
    (void) fd; (void) buf;
    if (calls++ == 0) {
        errno = EFBIG;
        return -1;
    }
    accepted += n;
    return (ssize_t) n;
}

int main(void)
{
    spif_socket_t snd = spif_socket_new();
    spif_charptr_t big = (spif_charptr_t) malloc(3001);
    spif_str_t data;
    spif_bool_t ok;

    memset(big, 'x', 3000);
    big[3000] = 0;
    data = spif_str_new_from_ptr(big);
    snd->fd = 7;                           /* never really used: write() is interposed */
    ok = spif_socket_send(snd, data);
    fprintf(stderr, "send returned %s after %d write() calls, %lu of 3000 bytes accepted\n",
            ok ? "TRUE" : "FALSE", calls, accepted);
    snd->fd = -1;
    spif_socket_del(snd);
    spif_str_del(data);
    free(big);
    return 0;                              /* LeakSanitizer turns the exit status into 23 when blocks are left */
}
