/* C08: handle_arglist counts with `unsigned short`.  A list option followed by 70000 words (142 KB,
 * far below ARG_MAX) yields a list of 70000 - 65536 = 4464 entries; the rest is silently dropped
 * (and, with REMOVE_ARGS, left in argv). */
#include <libast_internal.h>
#include <assert.h>
#define N 70000
int main(void)
{
    char **list = NULL; int i, n;
    spifopt_t opts[] = { SPIFOPT_ARGS('e', "exec", "e", list) };
    char **argv = malloc((N + 3) * sizeof(char *));
    argv[0] = "prog"; argv[1] = "-e";
    for (i = 0; i < N; i++) argv[2 + i] = "w";
    argv[N + 2] = NULL;
    SPIFOPT_OPTLIST_SET(opts); SPIFOPT_NUMOPTS_SET(1); SPIFOPT_ALLOWBAD_SET(0);
    spifopt_parse(N + 2, argv);
    for (n = 0; list[n]; n++) ;
    printf("list has %d entries (expected %d)\n", n, N);
    assert(n == N);
    return 0;
}
