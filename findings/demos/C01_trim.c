/* C01 demo: spif_str_trim.
 *   case 0: an allocated empty text ("") - end = s + len - 1 points before the buffer and *end is read (ASan).
 *   case 1: an all-blank text keeps one blank: the two scans stop when start meets end without looking at that
 *           last character (assert fails: the trimmed text must be empty).
 *   add 10 for the ustr clone.
 *   build: tools/native_build.sh findings/demos/C01_trim.c /tmp/d && /tmp/d [case] */
#include <libast_internal.h>
#include <stdio.h>
#include <stdlib.h>
#include <assert.h>

int main(int argc, char **argv)
{
    int c = (argc > 1) ? atoi(argv[1]) : 0;
    if (c < 10) {
        spif_str_t s = spif_str_new_from_ptr((spif_charptr_t) (c == 0 ? "" : "   "));
        spif_str_trim(s);
        printf("len=%ld text=\"%s\"\n", (long) s->len, s->s ? (char *) s->s : "(null)");
        assert(s->len == 0);
    } else {
        spif_ustr_t s = spif_ustr_new_from_ptr((spif_charptr_t) (c == 10 ? "" : "   "));
        spif_ustr_trim(s);
        printf("len=%ld text=\"%s\"\n", (long) s->len, s->s ? (char *) s->s : "(null)");
        assert(s->len == 0);
    }
    return 0;
}
