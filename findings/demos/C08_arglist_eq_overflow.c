/* C08: --list=TEXT.  handle_arglist sizes the result with spiftool_num_words() (quote-aware) but
 * fills it by walking spiftool_get_pword(2, ...) (not quote-aware, and it runs once more for an
 * empty TEXT): one pointer is written past the allocation.
 *   ./demo 1   --exec=a "b c"     (2 words counted, 3 stored + NULL)
 *   ./demo 2   --exec=            (0 words counted, 1 stored + NULL) */
#include <libast_internal.h>
int main(int ac, char **av)
{
    char **list = NULL;
    spifopt_t opts[] = { SPIFOPT_ARGS('e', "exec", "e", list) };
    char *argv[] = { "prog", (ac > 1 && av[1][0] == '2') ? "--exec=" : "--exec=a \"b c\"", NULL };
    SPIFOPT_OPTLIST_SET(opts); SPIFOPT_NUMOPTS_SET(1); SPIFOPT_ALLOWBAD_SET(0);
    spifopt_parse(2, argv);
    printf("no overflow detected\n");
    return 0;
}
