/* C14: spif_url_parse reads serv->s_port although `serv` was never assigned when the
 * protocol word of the URL is itself a name in /etc/protocols (getprotobyname succeeds
 * directly, so neither getservbyname call runs).
 *
 * Build A (tools/native_build.sh, ASan/UBSan, -O0): whatever the stack slot of `serv` holds is
 *   dereferenced: either a SEGV inside spif_url_parse (url.c:345) or, when the slot happens to hold
 *   a readable address, a port number invented from garbage ("tcp://host/" -> port=3072 seen here);
 *   the demo then exits 1 because a protocol word that is not a service must leave the port absent.
 * Build B: the same command with -ftrivial-auto-var-init=pattern instead of the sanitizers:
 *   serv == 0xAAAAAAAAAAAAAAAA -> deterministic SIGSEGV in spif_url_parse (seen: exit 139).
 * A URL whose scheme is a service name ("http://host/") or unknown ("foo://host/") is fine. */
#include <libast_internal.h>

/* dirty the stack below main's frame so that the uninitialised slot is not accidentally a
 * still-valid servent pointer left over from an earlier libc call */
static void __attribute__((noinline)) dirty_stack(void)
{
    volatile unsigned long pad[512];
    unsigned i;
    for (i = 0; i < 512; i++) {
        pad[i] = 0xdead0000beef0001UL;
    }
}

int main(int argc, char **argv)
{
    const char *text = (argc > 1) ? argv[1] : "tcp://host/";
    spif_url_t u;

    if (!getprotobyname("tcp")) {
        printf("no /etc/protocols entry for tcp on this host: demo not applicable\n");
        return 0;
    }
    dirty_stack();
    u = spif_url_new_from_ptr((spif_charptr_t) text);
    printf("parsed %s: port=%s\n", text, SPIF_STR_STR(spif_url_get_port(u)));
    if ((argc <= 1) && !SPIF_STR_ISNULL(spif_url_get_port(u))) {
        /* "tcp" is a protocol, not a service: there is no port to fill in.  Whatever was printed
         * above was read through the never-assigned pointer. */
        printf("DEFECT: port invented from an uninitialised servent pointer\n");
        spif_url_del(u);
        return 1;
    }
    spif_url_del(u);
    return 0;
}
