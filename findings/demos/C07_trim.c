/* C07 (mbuff): spif_mbuff_trim()
 *   "blank" : an all-blank buffer keeps one blank (both scans stop at start == end without looking at the
 *             last byte): "   " -> " " instead of the empty buffer.  Exit status 3.
 *   "zero"  : a zero-length buffer with capacity: end = buff - 1, the second scan reads buff[-1]
 *             (ASan heap-buffer-overflow READ); on the (NULL,0,0) buffer *start dereferences NULL.
 */
#include <libast_internal.h>
int main(int argc, char **argv)
{
    if (argc > 1 && !strcmp(argv[1], "zero")) {
        spif_mbuff_t m = spif_mbuff_new_from_buff((spif_byteptr_t) NULL, 0, 16);
        m->buff[0] = 'x';
        spif_mbuff_trim(m);
        fprintf(stderr, "len %ld\n", (long) m->len);
        spif_mbuff_del(m);
        return 0;
    } else {
        spif_mbuff_t m = spif_mbuff_new_from_ptr((spif_byteptr_t) "   ", 3);
        spif_mbuff_trim(m);
        fprintf(stderr, "trim(\"   \") leaves %ld byte(s) (expected 0)\n", (long) m->len);
        return (m->len == 0) ? 0 : 3;
    }
}
