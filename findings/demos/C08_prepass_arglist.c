/* C08: argument removal of a list option's words happens inside handle_arglist, i.e. only on the
 * pass that owns the option, and also during the PRE-PARSE pass (which must leave argv alone).
 *   ./demo 1   pre-parse pass + normal pass, pre-parse list option "-e ls -l": the pre-pass clears
 *              "ls" "-l" from argv, the normal pass then finds "-e" without a value -> a bad option
 *              is counted for a perfectly regular command line.
 *   ./demo 2   normal pass only: "-e ls -l" belongs to the other pass, its words are NOT removed:
 *              argv afterwards is { prog, ls, -l } instead of { prog }. */
#include <libast_internal.h>
#include <assert.h>
static void my_help(void)
{
    printf("help handler called: %d bad option(s) counted for a regular command line\n", SPIFOPT_BADOPTS_GET());
    assert(!"a regular two-pass command line must not be judged bad");
}
int main(int ac, char **av)
{
    char **list = NULL;
    spifopt_t opts[] = { SPIFOPT_ARGS_PP('e', "exec", "e", list) };
    char *argv[] = { "prog", "-e", "ls", "-l", NULL };
    SPIFOPT_OPTLIST_SET(opts); SPIFOPT_NUMOPTS_SET(1); SPIFOPT_ALLOWBAD_SET(0); SPIFOPT_HELPHANDLER_SET(my_help);
    SPIFOPT_FLAGS_SET(SPIFOPT_SETTING_REMOVE_ARGS);
    if (!(ac > 1 && av[1][0] == '2')) {
        SPIFOPT_FLAGS_SET(SPIFOPT_SETTING_PREPARSE);
        spifopt_parse(4, argv);
    }
    spifopt_parse(4, argv);
    printf("bad options = %d, argv[1] = %s\n", SPIFOPT_BADOPTS_GET(), argv[1] ? argv[1] : "NULL");
    assert(SPIFOPT_BADOPTS_GET() == 0);
    assert(argv[1] == NULL);
    return 0;
}
