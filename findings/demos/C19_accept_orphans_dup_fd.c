/* C19: every successful spif_socket_accept() leaks one descriptor.  It builds the connection object with
 * spif_socket_dup(listener) - which dup()s the LISTENING descriptor into the copy - and then overwrites the
 * copy's fd with the accepted one: the dup()ed descriptor is never closed and no object refers to it.
 * Demo (real AF_UNIX sockets through the URL API): listener, 20 clients each bound to a short path (so the
 * peer address fits the 16-byte buffer, see C19_accept_unix_addr_overread.c), accept, delete every object;
 * /proc/self/fd is counted before and after: 20 descriptors remain open.  Exit 1 on the defective tree. */
#include <libast_internal.h>
#include <dirent.h>

static int count_fds(void)
{
    DIR *d = opendir("/proc/self/fd");
    struct dirent *e;
    int n = 0;
    while ((e = readdir(d))) if (e->d_name[0] != '.') n++;
    closedir(d);
    return n - 1;                       /* minus the directory stream itself */
}

int main(void)
{
    spif_url_t lurl = spif_url_new_from_ptr((spif_charptr_t) "unix:/tmp/c19L");
    spif_socket_t listener;
    int before, after, i, ok = 0;

    unlink("/tmp/c19L");
    before = count_fds();
    listener = spif_socket_new_from_urls(lurl, (spif_url_t) NULL);
    if (!spif_socket_open(listener)) { fprintf(stderr, "cannot listen on /tmp/c19L\n"); return 2; }
    for (i = 0; i < 20; i++) {
        spif_url_t curl = spif_url_new_from_ptr((spif_charptr_t) "unix:/tmp/c19C");
        spif_socket_t client, conn;
        unlink("/tmp/c19C");
        client = spif_socket_new_from_urls(curl, lurl);     /* bind to /tmp/c19C, connect to /tmp/c19L */
        if (!spif_socket_open(client)) { fprintf(stderr, "cannot connect\n"); return 2; }
        conn = spif_socket_accept(listener);
        if (conn) { ok++; spif_socket_del(conn); }
        spif_socket_del(client);
        spif_url_del(curl);
    }
    spif_socket_del(listener);
    spif_url_del(lurl);
    unlink("/tmp/c19L"); unlink("/tmp/c19C");
    after = count_fds();
    fprintf(stderr, "%d connections accepted; open descriptors before %d, after deleting every object %d\n", ok, before, after);
    if (after != before) {
        fprintf(stderr, "DEFECT: %d descriptors leaked\n", after - before);
        return 1;
    }
    return 0;
}
