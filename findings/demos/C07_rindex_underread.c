/* C07 (mbuff): spif_mbuff_rindex() tests *tmp before tmp >= buff and walks to buff - 1, so a search for an
 * absent byte (or any search in a zero-length buffer) reads buff[-1]; the "not found" branch can never be
 * taken (tmp == buff at loop exit implies *tmp == c), so the answer is -1 instead of len.
 *   no argument : ASan heap-buffer-overflow READ 1 byte before the block, in spif_mbuff_rindex
 *   "value"     : the buffer is placed inside a larger array so that buff[-1] is addressable; shows the
 *                 answer -1 where the class promises len (index() answers len).  Exit status 3. */
#include <libast_internal.h>
int main(int argc, char **argv)
{
    if (argc > 1) {
        static spif_uint8_t arena[8] = { '#', 'a', 'b', 'c', 0, 0, 0, 0 };
        SPIF_CONST_TYPE(mbuff) obj;
        spif_memidx_t r;

        spif_mbuff_init(&obj);
        obj.buff = arena + 1;
        obj.len = obj.size = 3;
        r = spif_mbuff_rindex(&obj, 'z');
        fprintf(stderr, "rindex('z') = %ld, index('z') = %ld, len = %ld\n", (long) r, (long) spif_mbuff_index(&obj, 'z'), (long) obj.len);
        return (r == obj.len) ? 0 : 3;
    } else {
        spif_mbuff_t m = spif_mbuff_new_from_ptr((spif_byteptr_t) "abc", 3);
        spif_memidx_t r = spif_mbuff_rindex(m, 'z');

        fprintf(stderr, "rindex('z') = %ld (len %ld)\n", (long) r, (long) m->len);
        spif_mbuff_del(m);
        return 0;
    }
}
