/* C14/C05/C06: spif_url_unparse rebuilds the text with spif_str_init_from_ptr(SPIF_STR(self), ""),
 * which re-stamps the object's class pointer with the *str* class (str.c:186) and never puts the url
 * class back (spif_url_init_from_ptr does: url.c:130).  After unparse the object
 *   - no longer is a URL for SPIF_OBJ_IS_URL() / SPIF_OBJ_CLASSNAME() (type() names the wrong class),
 *   - is deleted by SPIF_OBJ_DEL() through spif_str_del, which frees the text and the object but none of
 *     the seven component strings: LeakSanitizer reports them.
 * Build with tools/native_build.sh; exit status 1 and a leak report on the defective tree. */
#include <libast_internal.h>

int main(void)
{
    spif_url_t u = spif_url_new_from_ptr((spif_charptr_t) "ftp://user:pw@host:21/path?q");
    int was_url, is_url;

    was_url = SPIF_OBJ_IS_URL(u);
    spif_url_unparse(u);
    is_url = SPIF_OBJ_IS_URL(u);
    printf("text after unparse: %s\n", SPIF_STR_STR(u));
    printf("SPIF_OBJ_IS_URL before unparse: %d, after: %d, class name now: %s\n", was_url, is_url,
           (char *) SPIF_OBJ_CLASSNAME(SPIF_OBJ(u)));
    SPIF_OBJ_DEL(SPIF_OBJ(u));   /* dispatches on the class pointer: spif_str_del, components leak */
    if (was_url && !is_url) {
        printf("DEFECT: the URL object changed class to str\n");
        return 1;
    }
    return 0;
}
