/* C13: spiftool_condense_whitespace("") touches the byte BEFORE the string.  After the copy loop
 * pbuff == s; the guard "(pbuff >= s)" is always true, so isspace(*(pbuff - 1)) reads s[-1]; when that
 * byte happens to be whitespace, pbuff-- makes "*pbuff = 0" WRITE s[-1].  The same happens for any
 * input when it is not heap memory whose predecessor byte is outside the object.
 * Expected under ASan: heap-buffer-overflow READ of size 1, 1 byte before the 1-byte region. */
#include <libast_internal.h>
int main(void)
{
    spif_charptr_t s = (spif_charptr_t) malloc(1);
    s[0] = 0;
    s = spiftool_condense_whitespace(s);
    printf("survived: \"%s\"\n", s);
    free(s);
    return 0;
}
