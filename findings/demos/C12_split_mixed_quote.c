/* C12: a quote character of the other kind inside a quoted section ("a'b") is copied with
 * `*pdest++ = *pstr++` and the common `pstr++` that follows skips ONE MORE character: the character after
 * the inner quote is lost, and when the inner quote is the last character ("\"'") the scanner steps past
 * the terminator.  spif_tok_eval has the same branch without the extra increment and is right.
 * usage: demo [0|1]   0 = token text ("a'b" expected, "a'" delivered: assertion fails)
 *                     1 = "\"'" (ASan: heap-buffer-overflow READ in spiftool_split) */
#include <libast_internal.h>
#include <assert.h>
static spif_charptr_t heap_str(const char *s)
{
    size_t n = strlen(s);
    char *p = malloc(n + 1);
    memcpy(p, s, n + 1);
    return (spif_charptr_t) p;
}
int main(int argc, char **argv)
{
    int which = (argc > 1) ? atoi(argv[1]) : 0;
    if (which == 0) {
        spif_charptr_t *l = spiftool_split(NULL, heap_str("\"a'b\""));
        printf("split(\"a'b\") -> [%s]\n", l[0]);
        assert(strcmp((char *) l[0], "a'b") == 0);
    } else {
        spif_charptr_t *l = spiftool_split(NULL, heap_str("\"'"));
        printf("split returned %p\n", (void *) l);
    }
    return 0;
}
