/* C07/C06 (mbuff): a zero-length construction keeps a malloc(0) block while size == 0;
 * spif_mbuff_done() only frees when size != 0, so the block is never released.
 * Same for init_from_buff(NULL or len 0, size 0) and for dup of such an object.
 * Expected: LeakSanitizer reports the block allocated at mbuff.c:163 (exit status != 0). */
#include <libast_internal.h>
int main(void)
{
    spif_uint8_t src[4] = { 1, 2, 3, 4 };
    spif_mbuff_t m = spif_mbuff_new_from_ptr(src, 0);

    fprintf(stderr, "buff=%p len=%ld size=%ld\n", (void *) m->buff, (long) m->len, (long) m->size);
    spif_mbuff_del(m);
    return 0;
}
