/* C19: spif_socket_send() calls write() once (after its EAGAIN/EINTR retries) and returns TRUE whatever
 * count the kernel accepted: a short write silently drops the tail of the payload.
 * Demo: a connected AF_UNIX stream pair, the sending end non-blocking, a slow reader in a child process,
 * a 4 MiB payload: the kernel takes what fits into the socket buffer (a few hundred KiB), send() reports
 * TRUE, the peer receives only that prefix.  No interposition, real kernel.  Exit 1 on the defective tree.
 * (The EFBIG branch of the same function leaks every 1 KiB chunk string it sends successfully - see
 * C19_efbig_chunk_leak.c.) */
#include <libast_internal.h>
#include <sys/socket.h>
#include <sys/wait.h>
#include <fcntl.h>

#define PAYLOAD (4UL * 1024 * 1024)

int main(void)
{
    int sv[2], report[2], status;
    spif_socket_t snd;
    spif_str_t data;
    spif_charptr_t big;
    spif_bool_t ok;
    unsigned long got = 0;
    pid_t pid;

    if (socketpair(AF_UNIX, SOCK_STREAM, 0, sv) || pipe(report)) { perror("socketpair/pipe"); return 2; }
    pid = fork();
    if (pid == 0) {
        /* peer: a slow reader; counts what arrives until the sender closes */
        static char sink[65536];
        ssize_t n;
        close(sv[0]); close(report[0]);
        usleep(300000);
        while ((n = read(sv[1], sink, sizeof(sink))) > 0) got += (unsigned long) n;
        if (write(report[1], &got, sizeof(got)) != sizeof(got)) _exit(2);
        _exit(0);
    }
    close(sv[1]); close(report[1]);
    fcntl(sv[0], F_SETFL, fcntl(sv[0], F_GETFL, 0) | O_NONBLOCK);     /* sending end non-blocking */

    big = (spif_charptr_t) malloc(PAYLOAD + 1);
    memset(big, 'x', PAYLOAD);
    big[PAYLOAD] = 0;
    data = spif_str_new_from_ptr(big);

    snd = spif_socket_new();
    snd->fd = sv[0];                       /* an already connected descriptor */
    ok = spif_socket_send(snd, data);
    spif_socket_del(snd);                  /* closes sv[0]: the reader sees end of stream */

    if (read(report[0], &got, sizeof(got)) != sizeof(got)) got = 0;
    waitpid(pid, &status, 0);
    printf("payload %lu bytes, spif_socket_send returned %s, peer received %lu bytes\n",
           (unsigned long) PAYLOAD, ok ? "TRUE" : "FALSE", got);
    spif_str_del(data);
    free(big);
    if (ok && got != PAYLOAD) {
        printf("DEFECT: TRUE although %lu bytes were never handed to the kernel\n", (unsigned long) (PAYLOAD - got));
        return 1;
    }
    return 0;
}
