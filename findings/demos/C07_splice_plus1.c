/* C07 (mbuff): spif_mbuff_splice() copies  len - idx - cnt + 1  tail bytes (a terminator that mbuffs do not
 * have; copied from spif_str_splice): it reads buff[len] and writes tmp[newsize], one byte past the temporary
 * it has just allocated.  spif_mbuff_splice_from_ptr has the right count.
 * Expected: ASan heap-buffer-overflow in spif_mbuff_splice (memcpy), READ past self->buff / WRITE past tmp. */
#include <libast_internal.h>
int main(void)
{
    spif_mbuff_t m = spif_mbuff_new_from_ptr((spif_byteptr_t) "0123456789", 10);
    spif_mbuff_t ins = spif_mbuff_new_from_ptr((spif_byteptr_t) "XY", 2);

    spif_mbuff_splice(m, 3, 2, ins);
    fprintf(stderr, "len %ld: %.*s\n", (long) m->len, (int) m->len, (char *) m->buff);
    spif_mbuff_del(ins);
    spif_mbuff_del(m);
    return 0;
}
