/* C07 (mbuff): spif_mbuff_init_from_fp / new_from_fp
 *   "big"    : a non-seekable stream (pipe) carrying 10000 bytes.  After the first 4096-byte chunk the block is
 *              REALLOCed but `p` still points into the old block: ASan heap-use-after-free / overflow WRITE in fread.
 *   "offset" : a regular file positioned at byte 4.  The seekable branch takes the ABSOLUTE size (10) as the number
 *              of bytes to read from position 4, asks fread for one item of 10 bytes, gets 0 items and fails:
 *              new_from_fp() returns NULL although 6 bytes are there to be read (init_from_fp itself returns FALSE
 *              with len == size == 10 and buff == NULL).  Exit 3. */
#include <libast_internal.h>
#include <sys/wait.h>
int main(int argc, char **argv)
{
    const char *mode = (argc > 1) ? argv[1] : "offset";
    spif_mbuff_t m;

    if (!strcmp(mode, "offset")) {
        FILE *fp = tmpfile();
        fputs("0123456789", fp);
        fflush(fp);
        fseek(fp, 4L, SEEK_SET);
        m = spif_mbuff_new_from_fp(fp);
        fprintf(stderr, "new_from_fp(file at offset 4 of 10) = %p%s\n", (void *) m, m ? "" : " (expected the 6 bytes \"456789\")");
        return (m && m->len == 6 && !memcmp(m->buff, "456789", 6)) ? 0 : 3;
    } else {
        int fds[2];
        FILE *fp;
        if (pipe(fds)) return 0;
        if (fork() == 0) {
            char block[10000];
            close(fds[0]);
            memset(block, 'x', sizeof(block));
            if (write(fds[1], block, sizeof(block)) < 0) _exit(1);
            close(fds[1]);
            _exit(0);
        }
        close(fds[1]);
        fp = fdopen(fds[0], "r");
        m = spif_mbuff_new_from_fp(fp);
        wait(NULL);
        fprintf(stderr, "big: len=%ld size=%ld\n", (long) m->len, (long) m->size);
        return (m->len == 10000) ? 0 : 3;
    }
}
