/* C08: the list option spelled -eVALUE.  The list must be {VALUE, rest of the line}; handle_arglist
 * copies argv[i..] instead, so the first entry is the whole option word "-eVALUE" -- and with
 * REMOVE_ARGS set argv[i] has already been cleared, so it calls strdup(NULL).
 *   ./demo 1   without removal: wrong first entry      ./demo 2   with removal: NULL dereference */
#include <libast_internal.h>
#include <assert.h>
int main(int ac, char **av)
{
    char **list = NULL;
    spifopt_t opts[] = { SPIFOPT_ARGS('e', "exec", "e", list) };
    char *argv[] = { "prog", "-els", "-l", NULL };
    SPIFOPT_OPTLIST_SET(opts); SPIFOPT_NUMOPTS_SET(1); SPIFOPT_ALLOWBAD_SET(0);
    if (ac > 1 && av[1][0] == '2') SPIFOPT_FLAGS_SET(SPIFOPT_SETTING_REMOVE_ARGS);
    spifopt_parse(3, argv);
    printf("list[0] = \"%s\" (expected \"ls\")\n", list[0]);
    assert(!strcmp(list[0], "ls") && !strcmp(list[1], "-l") && list[2] == NULL);
    return 0;
}
