/* C11 (observation, no memory error): spifconf_find_file stores the length of a search-path component in a `short`
 * (conf.c:768-775).  A component of 32768+ characters is silently truncated to its low 16 bits: the function then
 * probes a directory that is not on the search path.  Here the only component is "/tmp/conf_demo_ff" followed by
 * 65536 'y' characters; (short) 65553 == 17 == strlen("/tmp/conf_demo_ff"), so the file is "found" in
 * /tmp/conf_demo_ff although that directory was never listed. */
#include <libast_internal.h>
#include <sys/stat.h>
#include <assert.h>
int main(void)
{
    size_t n = 17 + 65536;
    char *path = malloc(n + 1);
    spif_charptr_t r;

    mkdir("/tmp/conf_demo_ff", 0700);
    fclose(fopen("/tmp/conf_demo_ff/cfg", "w"));
    memset(path, 'y', n); path[n] = 0;
    memcpy(path, "/tmp/conf_demo_ff", 17);
    r = spifconf_find_file((spif_charptr_t) "cfg", NULL, (spif_charptr_t) path);
    fprintf(stderr, "find_file -> %s (expected: not found)\n", r ? (char *) r : "(null)");
    assert(r == NULL);
    return 0;
}
