/* C06: spif_objpair_init() (used by spif_objpair_new()) sets only the class pointer; key and
 * value keep whatever malloc returned.  done()/del() on such a pair then calls SPIF_OBJ_DEL on the
 * garbage pointers (here: ASan's 0xbe fill pattern -> wild dereference / invalid free). */
#include <libast_internal.h>
int main(void)
{
    spif_objpair_t p = spif_objpair_new();
    printf("new pair: key=%p value=%p (expected NULL NULL)\n", (void *) p->key, (void *) p->value);
    fflush(stdout);
    spif_objpair_del(p);            /* frees garbage */
    printf("deleted\n");
    return 0;
}
