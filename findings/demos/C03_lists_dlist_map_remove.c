/* C03: a map must stay usable after any removal, including of its largest key.
 * dlinked_list map_remove() unlinks the node through next only: prev links and tail are left stale, so after
 * removing the largest key, tail points to the FREED node and the next set() (which compares against
 * self->tail) reads freed memory.
 * Build: tools/native_build.sh findings/demos/C03_lists_dlist_map_remove.c /tmp/d && ASAN_OPTIONS=detect_leaks=0 /tmp/d
 * (AddressSanitizer heap-use-after-free = defect shown) */
#include "C02_lists_demo.h"
int main(void)
{
    spif_map_t m = SPIF_MAP_NEW(dlinked_list);
    spif_obj_t k, pair;
    SPIF_MAP_SET(m, S("a"), S("1"));
    SPIF_MAP_SET(m, S("b"), S("2"));
    SPIF_MAP_SET(m, S("c"), S("3"));
    k = S("c");
    pair = SPIF_MAP_REMOVE(m, k);             /* remove the largest key ... */
    SPIF_OBJ_DEL(pair);                       /* ... and delete the pair we were handed */
    printf("removed c; tail = %p, last node via head = %p\n", (void *) ((spif_dlinked_list_t) m)->tail,
           (void *) ((spif_dlinked_list_t) m)->head->next);
    fflush(stdout);
    SPIF_MAP_SET(m, S("d"), S("4"));          /* insert compares with self->tail: freed */
    printf("count = %d\n", (int) SPIF_MAP_COUNT(m));
    return 0;
}
