/* C10: "$NAME / ${NAME} / $(NAME) are replaced in place ... with the text before and after preserved".
 * conf.c copies the environment value to newbuff instead of newbuff + j: the text before the reference
 * is overwritten, and the terminator written by the copy cuts off everything that follows. */
#include <libast_internal.h>
#include <assert.h>
int main(void)
{
    char buf[CONFIG_BUFF];
    spifconf_init_subsystem();
    setenv("a", "VAL", 1);
    strcpy(buf, "x $a y");
    spifconf_shell_expand((spif_charptr_t) buf);
    printf("\"x $a y\" with a=VAL expands to \"%s\" (expected \"x VAL y\")\n", buf);
    assert(strcmp(buf, "x VAL y") == 0);
    return 0;
}
