/* C15: REALLOC(NULL, 0) does not have the same allocation semantics with tracking compiled in and out.
 *
 *   DEBUG 4 (macro):   ((sz) ? ... : ((mem) ? (free(mem), NULL) : (NULL)))      -> NULL, nothing allocated
 *   DEBUG 5 (tracker): spifmem_realloc(): `if (!ptr) temp = spifmem_malloc(filename, line, size);`
 *                      -> malloc(0): a live zero-byte block, and (at runtime level >= DEBUG_MEM) a new
 *                         record in the pointer table
 *
 * A caller written against the non-tracking semantics ("REALLOC(x, 0) leaves x == NULL, nothing to free")
 * leaks one block and one table record per call in a tracking build.
 *
 * Build and run (the second build uses a scratch worktree whose config.h says DEBUG 5):
 *   tools/native_build.sh findings/demos/C15_realloc_null_zero.c /tmp/d4 && /tmp/d4            # exit 0
 *   git -C /repo worktree add /tmp/wt_memhash HEAD && cp /repo/config.h /tmp/wt_memhash/ &&
 *     cp /repo/include/libast/{sysdefs,types}.h /tmp/wt_memhash/include/libast/ &&
 *     sed -i '/^#define DEBUG /c #define DEBUG 5' /tmp/wt_memhash/config.h &&
 *     tools/native_build.sh findings/demos/C15_realloc_null_zero.c /tmp/d5 /tmp/wt_memhash && /tmp/d5   # assertion fails, exit != 0
 *   git -C /repo worktree remove --force /tmp/wt_memhash
 */
#include <libast_internal.h>
#include <assert.h>

int main(void)
{
    char *buf = NULL;

    libast_debug_level = DEBUG_MEM;             /* runtime level at the tracking level */
    spifmem_init();
    buf = (char *) REALLOC(buf, 0);             /* "shrink to nothing" on a buffer that is already empty */
    printf("compiled with DEBUG %d: REALLOC(NULL, 0) returned %p\n", DEBUG, (void *) buf);
    MALLOC_DUMP();                              /* tracking build: "1 pointers stored" */
    assert(buf == NULL && "REALLOC(NULL, 0) allocated a block in the tracking build");
    return 0;
}
