/* C19: when write() fails with an errno other than EAGAIN/EINTR/EFBIG/EIO/EPIPE (ECONNRESET, ENOBUFS, ENOTCONN,
 * EINVAL, ...), spif_socket_send() sets self->fd = -1 WITHOUT closing the descriptor (only the EIO/EPIPE arm
 * closes it): the object forgets a descriptor that is still open, spif_socket_del() has nothing to close, the
 * descriptor is leaked for the life of the process.
 * Demo: a socketpair; write() is interposed in this executable and answers -1/ECONNRESET; after send() returned
 * FALSE and the object was deleted, fcntl(fd, F_GETFD) still succeeds on the sender's descriptor.
 * tools/native_build.sh; exit 1 on the defective tree. */
#include <libast_internal.h>
#include <sys/socket.h>
#include <fcntl.h>

ssize_t write(int fd, const void *buf, size_t n)
{
    (void) fd; (void) buf; (void) n;
    errno = ECONNRESET;
    return -1;
}

int main(void)
{
    int sv[2], still_open;
    spif_socket_t snd = spif_socket_new();
    spif_str_t data = spif_str_new_from_ptr((spif_charptr_t) "payload");
    spif_bool_t ok;

    if (socketpair(AF_UNIX, SOCK_STREAM, 0, sv)) { perror("socketpair"); return 2; }
    snd->fd = sv[0];
    ok = spif_socket_send(snd, data);
    fprintf(stderr, "send returned %s, object's fd field is now %d\n", ok ? "TRUE" : "FALSE", snd->fd);
    spif_socket_del(snd);
    spif_str_del(data);
    still_open = (fcntl(sv[0], F_GETFD) != -1);
    close(sv[1]);
    if (still_open) {
        fprintf(stderr, "DEFECT: descriptor %d is still open after the socket object was deleted\n", sv[0]);
        return 1;
    }
    return 0;
}
