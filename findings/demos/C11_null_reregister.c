/* C11/C09: registering a handler for the built-in context "null" after another context has been
 * registered frees context[0].name but stores the new name/handler in context[ctx_idx] (the
 * newest slot): context[0].name stays NULL (and the newest slot's name is leaked/overwritten).
 * The next "begin NAME" line compares NAME with context[0].name == NULL in ctx_name_to_id.
 * Expected: SEGV (NULL passed to strcasecmp) inside spifconf_parse_line. */
#include <libast_internal.h>
static void *h(spif_charptr_t buff, void *state) { return state; }
int main(void)
{
    char line[CONFIG_BUFF] = "begin foo\n";
    FILE *fp = fopen("/dev/null", "r");

    spifconf_init_subsystem();
    spifconf_register_context((spif_charptr_t) "foo", h);
    spifconf_register_context((spif_charptr_t) "null", h);   /* documented way to replace the null handler */
    spifconf_register_fstate(fp, (spif_charptr_t) "demo", NULL, 1, 0);
    spifconf_parse_line(fp, (spif_charptr_t) line);
    printf("survived\n");
    return 0;
}
