/* C07 (mbuff): spif_mbuff_sprintf() does c++ on the int that vsnprintf() returned.  A format whose output is
 * INT_MAX characters long (legal: "%*d" with width INT_MAX) makes c + 1 overflow (UBSan: signed integer
 * overflow), and the size handed to MALLOC is then negative.  Takes a few seconds. */
#include <libast_internal.h>
#include <limits.h>
int main(void)
{
    spif_mbuff_t m = spif_mbuff_new();
    spif_bool_t ok = spif_mbuff_sprintf(m, (spif_charptr_t) "%*d", INT_MAX, 1);

    fprintf(stderr, "sprintf = %d, len %ld size %ld\n", (int) ok, (long) m->len, (long) m->size);
    return 0;
}
