/* C11: a config line that consists of a single '%' (optionally surrounded by blanks) makes
 * spifconf_parse_line pass the NULL returned by spiftool_get_pword(1, "") to strncasecmp.
 * Expected: SEGV in strncasecmp called from spifconf_parse_line. */
#include <libast_internal.h>
int main(void)
{
    char line[CONFIG_BUFF] = " % \n";
    FILE *fp = fopen("/dev/null", "r");

    spifconf_init_subsystem();
    spifconf_register_fstate(fp, (spif_charptr_t) "demo", NULL, 1, 0);
    spifconf_parse_line(fp, (spif_charptr_t) line);
    printf("survived\n");
    return 0;
}
