/* C01 demo: on a freshly created, still empty string (s=NULL,len=0,size=0) SPIF_STR_STR(self) yields the NULL
 * text pointer (it only substitutes "" for a NULL *object*), so every query and every in-place mutator hands
 * NULL to libc or dereferences it.  The same happens when such an object is the *argument* of find/cmp.
 *   build: tools/native_build.sh findings/demos/C01_empty_query_null.c /tmp/d && /tmp/d [case]   (SEGV under ASan)
 *   0 index 1 rindex 2 find 3 find_from_ptr 4 cmp 5 cmp_with_ptr 6 casecmp 7 ncmp 8 ncasecmp 9 to_num 10 to_float
 *   11 clear 12 upcase 13 downcase 14 trim 15 dup 16 find(other empty) 17 cmp(other empty) 18 comp
 *   add 100 for the ustr clone */
#include <libast_internal.h>
#include <stdio.h>
#include <stdlib.h>

int main(int argc, char **argv)
{
    int c = (argc > 1) ? atoi(argv[1]) : 0;
    if (c < 100) {
        spif_str_t e = spif_str_new();
        spif_str_t t = spif_str_new_from_ptr((spif_charptr_t) "text");
        long r = 0;
        switch (c) {
        case 0: r = spif_str_index(e, 'a'); break;
        case 1: r = spif_str_rindex(e, 'a'); break;
        case 2: r = spif_str_find(e, t); break;
        case 3: r = spif_str_find_from_ptr(e, (spif_charptr_t) "x"); break;
        case 4: r = spif_str_cmp(e, t); break;
        case 5: r = spif_str_cmp_with_ptr(e, (spif_charptr_t) "x"); break;
        case 6: r = spif_str_casecmp(e, t); break;
        case 7: r = spif_str_ncmp(e, t, 2); break;
        case 8: r = spif_str_ncasecmp(e, t, 2); break;
        case 9: r = (long) spif_str_to_num(e, 10); break;
        case 10: r = (long) spif_str_to_float(e); break;
        case 11: r = spif_str_clear(e, 'x'); break;
        case 12: r = spif_str_upcase(e); break;
        case 13: r = spif_str_downcase(e); break;
        case 14: r = spif_str_trim(e); break;
        case 15: r = (spif_str_dup(e) != NULL); break;
        case 16: r = spif_str_find(t, e); break;
        case 17: r = spif_str_cmp(t, e); break;
        case 18: r = spif_str_comp(e, t); break;
        }
        printf("no crash: result %ld\n", r);
    } else {
        spif_ustr_t e = spif_ustr_new();
        spif_ustr_t t = spif_ustr_new_from_ptr((spif_charptr_t) "text");
        long r = 0;
        switch (c - 100) {
        case 0: r = spif_ustr_index(e, 'a'); break;
        case 1: r = spif_ustr_rindex(e, 'a'); break;
        case 2: r = spif_ustr_find(e, t); break;
        case 3: r = spif_ustr_find_from_ptr(e, (spif_charptr_t) "x"); break;
        case 4: r = spif_ustr_cmp(e, t); break;
        case 5: r = spif_ustr_cmp_with_ptr(e, (spif_charptr_t) "x"); break;
        case 6: r = spif_ustr_casecmp(e, t); break;
        case 7: r = spif_ustr_ncmp(e, t, 2); break;
        case 8: r = spif_ustr_ncasecmp(e, t, 2); break;
        case 9: r = (long) spif_ustr_to_num(e, 10); break;
        case 10: r = (long) spif_ustr_to_float(e); break;
        case 11: r = spif_ustr_clear(e, 'x'); break;
        case 12: r = spif_ustr_upcase(e); break;
        case 13: r = spif_ustr_downcase(e); break;
        case 14: r = spif_ustr_trim(e); break;
        case 15: r = (spif_ustr_dup(e) != NULL); break;
        case 16: r = spif_ustr_find(t, e); break;
        case 17: r = spif_ustr_cmp(t, e); break;
        case 18: r = spif_ustr_comp(e, t); break;
        }
        printf("no crash: result %ld\n", r);
    }
    return 0;
}
