#!/bin/bash
# Offline setup: nothing to build (python3 stdlib + pre-installed cbmc tool chain).  Make sure /repo has its
# generated headers (config.h, types.h, sysdefs.h come from ./configure and are not tracked).
set -e
cd /repo
if [ ! -f config.h ] || [ ! -f include/libast/types.h ] || [ ! -f include/libast/sysdefs.h ]; then
  ./configure >/dev/null 2>&1
fi
for t in cbmc goto-cc goto-instrument z3 python3 clang; do command -v $t >/dev/null || { echo "missing tool $t"; exit 1; }; done
chmod +x /verif/check /verif/tools/*.sh /verif/tools/*.py 2>/dev/null || true
echo "setup ok"
