/* C19 sender: spif_socket_send under every sequence of {complete, short, -1/EINTR, -1/EAGAIN, -1/other}.
 * Contract from the property (contracts/socket.h): TRUE => the counts accepted by write() add up to the
 * payload length and each write() offered exactly the bytes following the last accepted count.
 * Tier P: the back-off loop carries a loop contract (annot/socket.c.net.ann); payload length symbolic.
 * The kernel is the stub model of contracts/env_net.h section 4 (a real socket pair is not exercised).
 *
 *   send.complete  write() accepts everything or fails (any errno but EFBIG), in any sequence: TRUE => all sent
 *   send.short     additionally short counts (fixed: bc0f5e7)
 *   send.fd        as send.short, plus descriptor accounting: the object keeps its descriptor or has released it
 * The EFBIG branch (1 KiB chunks through a recursive call) is not covered by a unit: three bounded renderings
 * (symbolic payload <= 2100 bytes, recursion unwound) ran out of memory / time; its defect (every successfully
 * sent chunk string leaks) is shown natively only: findings/demos/C19_efbig_chunk_leak.c.
 *
 * --conversion-check is off: SPIF_SOCKET_FLAGS_CLEAR(self, 0xff << 8) complements an int mask and stores it in the
 * uint32 flags word (defined, intended wrap-around) and would be reported on every path; the one narrowing that
 * matters, ssize_t -> int num_written, is harmless below the payload cap (len < 2^30).
 *
 * spif_socket_send is recursive: the driver's `enforce:` emits --enforce-contract, which leaves the recursive
 * call to be inlined for ever; the unit therefore runs the whole DFCC pass itself through `prepass:` with
 * --enforce-contract-rec (recursive calls = the contract).  Same checks, same loop contracts.
 */
/*@unit
name: send.complete
define: NET_KERNEL, NET_WRITE_NO_EFBIG, NET_WRITE_NO_SHORT
src: socket.c
prepass: --dfcc harness --enforce-contract-rec spif_socket_send --replace-call-with-contract spif_str_new_from_buff --replace-call-with-contract spif_str_del --apply-loop-contracts --no-malloc-may-fail
backend: sat
objbits: 9
timeout: 200
checks_off: --conversion-check
funcs: spif_socket_send, spif_str_get_len
*/
/*@unit
name: send.short
define: NET_KERNEL, NET_WRITE_NO_EFBIG
src: socket.c
prepass: --dfcc harness --enforce-contract-rec spif_socket_send --replace-call-with-contract spif_str_new_from_buff --replace-call-with-contract spif_str_del --apply-loop-contracts --no-malloc-may-fail
backend: sat
objbits: 9
timeout: 200
checks_off: --conversion-check
funcs: spif_socket_send, spif_str_get_len
*/
/*@unit
name: send.fd
define: NET_KERNEL, NET_WRITE_NO_EFBIG, NET_SEND_FD_ACCOUNTING
src: socket.c
prepass: --dfcc harness --enforce-contract-rec spif_socket_send --replace-call-with-contract spif_str_new_from_buff --replace-call-with-contract spif_str_del --apply-loop-contracts --no-malloc-may-fail
backend: sat
objbits: 9
timeout: 200
checks_off: --conversion-check
funcs: spif_socket_send, spif_str_get_len
*/
#include "vprelude.h"
#include "env_net.h"
/* facts about the write stub of the unit that the back-off loop's invariant may use (annot/socket.c.net.ann):
 * it never reports EFBIG (NET_WRITE_NO_EFBIG); in send.complete a successful write accepted everything */
# ifdef NET_WRITE_NO_SHORT
#  define VG_SEND_ERRNO_INV ((num_written >= 0 || vg_errno != EFBIG) && (num_written < 0 || (size_t) num_written == len - sent))
# else
#  define VG_SEND_ERRNO_INV (num_written >= 0 || vg_errno != EFBIG)
# endif
size_t vg_iter;            /* iterations of the back-off loop (annot/socket.c.net.ann) */
#include "socket.h"
/* SPIF_DEFINE_PROPERTY_FUNC_C(str, spif_stridx_t, len), str.c:835, written out */
spif_stridx_t spif_str_get_len(spif_str_t self) { return self->len; }
/* callees of the EFBIG branch (not reached in these units): any fresh string / delete */
spif_str_t spif_str_new_from_buff(spif_charptr_t buff, spif_stridx_t size)
__CPROVER_assigns()
__CPROVER_ensures(__CPROVER_is_fresh(__CPROVER_return_value, sizeof(spif_const_str_t)))
;
spif_bool_t spif_str_del(spif_str_t self)
__CPROVER_assigns()
__CPROVER_frees(self)
__CPROVER_ensures(__CPROVER_return_value == TRUE)
;
#include "src/socket.c"
#define NET_SOCKET_API
#include "socket.h"

void harness(void)
{
    spif_socket_t s; spif_str_t d;
    vg_wr_base = nondet_ptr();
    spif_socket_send(s, d);
    VERIF_CANARY();
}
