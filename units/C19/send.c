/* C19 sender: spif_socket_send under every sequence of {complete, short, -1/EINTR, -1/EAGAIN, -1/other}.
 * Contract from the property (contracts/socket.h): TRUE => the counts accepted by write() add up to the
 * payload length and each write() offered exactly the bytes following the last accepted count.
 * Tier P: the back-off loop carries a loop contract (annot/socket.c.net.ann); payload length symbolic.
 * The kernel is the stub model of contracts/env_net.h section 4 (a real socket pair is not exercised).
 *
 *   send.complete  write() accepts everything or fails (any errno but EFBIG), in any sequence: TRUE => all sent
 *   send.short     additionally short counts                                                 (finding C19-short-write)
 *   send.efbig     tier B: first write() fails with EFBIG -> 1 KiB chunks through the recursive call, plain harness
 *                  with leak check                                                          (finding C19-efbig-leak)
 *
 * --conversion-check is off: SPIF_SOCKET_FLAGS_CLEAR(self, 0xff << 8) complements an int mask and stores it in the
 * uint32 flags word (defined, intended wrap-around) and would be reported on every path; the one narrowing that
 * matters, ssize_t -> int num_written, is harmless below the payload cap (len < 2^30).
 *
 * spif_socket_send is recursive: the driver's `enforce:` emits --enforce-contract, which leaves the recursive
 * call to be inlined for ever; the unit therefore runs the whole DFCC pass itself through `prepass:` with
 * --enforce-contract-rec (recursive calls = the contract).  Same checks, same loop contracts.
 */
/*@unit
name: send.complete
define: NET_KERNEL, NET_WRITE_NO_EFBIG, NET_WRITE_NO_SHORT
src: socket.c
prepass: --dfcc harness --enforce-contract-rec spif_socket_send --replace-call-with-contract spif_str_new_from_buff --replace-call-with-contract spif_str_del --apply-loop-contracts --no-malloc-may-fail
backend: sat
objbits: 9
timeout: 200
checks_off: --conversion-check
funcs: spif_socket_send, spif_str_get_len
*/
/*@unit
name: send.short
define: NET_KERNEL, NET_WRITE_NO_EFBIG
src: socket.c
prepass: --dfcc harness --enforce-contract-rec spif_socket_send --replace-call-with-contract spif_str_new_from_buff --replace-call-with-contract spif_str_del --apply-loop-contracts --no-malloc-may-fail
backend: sat
objbits: 9
timeout: 200
checks_off: --conversion-check
funcs: spif_socket_send, spif_str_get_len
*/
/*@unit
name: send.efbig
define: NET_KERNEL, NET_OWN_WRITE, U_EFBIG
src: socket.c
tier: B
bound: payload 1..2100 bytes (up to three 1 KiB chunks); first write() fails with EFBIG, every later write() accepts everything or fails; recursion and chunk loop unwound 10 with unwinding assertions
unwind: 10
backend: sat
timeout: 200
checks_off: --conversion-check
flags: --memory-leak-check
funcs: spif_socket_send, spif_str_get_len
*/
#include "vprelude.h"
#include "env_net.h"
#ifndef U_EFBIG
/* facts about the write stub of the unit that the back-off loop's invariant may use (annot/socket.c.net.ann):
 * it never reports EFBIG (NET_WRITE_NO_EFBIG); in send.complete a successful write accepted everything */
# ifdef NET_WRITE_NO_SHORT
#  define VG_SEND_ERRNO_INV ((num_written >= 0 || vg_errno != EFBIG) && (num_written < 0 || (size_t) num_written == len))
# else
#  define VG_SEND_ERRNO_INV (num_written >= 0 || vg_errno != EFBIG)
# endif
#else
#define VG_SEND_ERRNO_INV 1
/* write(): the first call of the run fails with EFBIG; later calls accept everything or fail otherwise */
ssize_t write(int fd, const void *buf, size_t n)
{
    __CPROVER_assert(n == 0 || __CPROVER_r_ok(buf, n), "write: buffer readable for n bytes");
    vg_wr_calls++;
    if (vg_wr_calls == 1) { vg_errno = EFBIG; return -1; }
    if (!VG_FD_OPEN(fd)) { vg_errno = EBADF; return -1; }
    if (nondet_bool()) { vg_errno = vg_any_errno(); __CPROVER_assume(vg_errno != EFBIG && vg_errno != EAGAIN && vg_errno != EINTR); return -1; }
    vg_wr_total += n;
    return (ssize_t) n;
}
#endif
size_t vg_iter;            /* iterations of the back-off loop (annot/socket.c.net.ann) */
#include "socket.h"
/* SPIF_DEFINE_PROPERTY_FUNC_C(str, spif_stridx_t, len), str.c:835, written out */
spif_stridx_t spif_str_get_len(spif_str_t self) { return self->len; }
#ifndef U_EFBIG
/* callees of the EFBIG branch (not reached in these units): any fresh string / delete */
spif_str_t spif_str_new_from_buff(spif_charptr_t buff, spif_stridx_t size)
__CPROVER_assigns()
__CPROVER_ensures(__CPROVER_is_fresh(__CPROVER_return_value, sizeof(spif_const_str_t)))
;
spif_bool_t spif_str_del(spif_str_t self)
__CPROVER_assigns()
__CPROVER_frees(self)
__CPROVER_ensures(__CPROVER_return_value == TRUE)
;
#else
/* models of the two str calls of the EFBIG branch: a chunk string of strnlen(buff, size) characters
 * (contents irrelevant here: only counts and ownership are checked), and its deletion */
spif_str_t spif_str_new_from_buff(spif_charptr_t buff, spif_stridx_t size)
{
    spif_str_t r = malloc(sizeof(spif_const_str_t));
    spif_stridx_t len = nondet_long();
    __CPROVER_assert(size >= 0, "spif_str_new_from_buff: size not negative");
    __CPROVER_assume(len >= 0 && len <= size && (size_t) len < VREMAIN(buff) + 0 && (len == size || buff[len] == 0));
    __CPROVER_assume(vg_k >= (size_t) len || buff[vg_k] != 0);          /* strnlen: no NUL before len (ghost index) */
    r->len = len; r->size = (len == size) ? size + 1 : size;
    r->s = malloc(r->size);
    r->s[len] = 0;
    return r;
}
spif_bool_t spif_str_del(spif_str_t self) { free(self->s); free(self); return TRUE; }
#endif
#include "src/socket.c"
#ifndef U_EFBIG
#define NET_SOCKET_API
#include "socket.h"

void harness(void)
{
    spif_socket_t s; spif_str_t d;
    vg_wr_base = nondet_ptr();
    spif_socket_send(s, d);
    VERIF_CANARY();
}
#else
void harness(void)
{
    spif_socket_t s = malloc(sizeof(spif_const_socket_t));
    spif_str_t d = malloc(sizeof(spif_const_str_t));
    int fd = nondet_int(); unsigned i;
    __CPROVER_assume(VG_FD_VALID(fd));
    for (i = 0; i < VG_NFD; i++) vg_fd_open[i] = ((int) i == fd);
    s->fd = fd; s->flags = nondet_uint(); s->addr = NULL; s->local_url = NULL; s->remote_url = NULL;
    d->len = nondet_long();
    __CPROVER_assume(d->len >= 1 && d->len <= 2100);
    d->size = d->len + 1;
    d->s = malloc(d->size);
    d->s[d->len] = 0;
    __CPROVER_assume(vg_k >= (size_t) d->len || d->s[vg_k] != 0);       /* no NUL inside the text (ghost index) */
    vg_wr_calls = 0; vg_wr_total = 0; libast_debug_level = 0;

    spif_bool_t ok = spif_socket_send(s, d);

    __CPROVER_assert(ok != TRUE || vg_wr_total == (size_t) d->len, "TRUE => the chunks accepted by write() add up to the payload length");
    __CPROVER_assert(SOCK_FD_OK(s), "descriptor field is none or still open");
    VERIF_CANARY();
    free(d->s); free(d); free(s);        /* everything the caller owns; the chunk strings must be gone (leak check) */
}
#endif
