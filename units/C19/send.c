/* C19 sender: spif_socket_send under every sequence of {complete, short, -1/EINTR, -1/EAGAIN, -1/other}.
 * Contract from the property (contracts/socket.h): TRUE => the counts accepted by write() add up to the
 * payload length and each write() offered exactly the bytes following the last accepted count.
 * Tier P: the back-off loop carries a loop contract (annot/socket.c.net.ann); payload length symbolic.
 * The kernel is the stub model of contracts/env_net.h section 4 (a real socket pair is not exercised).
 *
 *   send.complete  write() accepts everything or fails (any errno but EFBIG), in any sequence: TRUE => all sent
 *   send.short     additionally short counts (fixed: bc0f5e7)
 *   send.fd        as send.short, plus descriptor accounting: the object keeps its descriptor or has released it
 *   send.script    tier B, plain harness, independent of the loop contracts (robust against restructured retry code):
 *                  scripted write() answers; if none is a hard failure the payload is delivered completely and in
 *                  order, TRUE is returned and the descriptor kept; native replay with the script from the witness
 * The EFBIG branch (1 KiB chunks through a recursive call) is not covered by a unit: three bounded renderings
 * (symbolic payload <= 2100 bytes, recursion unwound) ran out of memory / time; its defect (every successfully
 * sent chunk string leaks) is shown natively only: findings/demos/C19_efbig_chunk_leak.c.
 *
 * --conversion-check is off: SPIF_SOCKET_FLAGS_CLEAR(self, 0xff << 8) complements an int mask and stores it in the
 * uint32 flags word (defined, intended wrap-around) and would be reported on every path; the one narrowing that
 * matters, ssize_t -> int num_written, is harmless below the payload cap (len < 2^30).
 *
 * spif_socket_send is recursive: the driver's `enforce:` emits --enforce-contract, which leaves the recursive
 * call to be inlined for ever; the unit therefore runs the whole DFCC pass itself through `prepass:` with
 * --enforce-contract-rec (recursive calls = the contract).  Same checks, same loop contracts.
 */
/*@unit
name: send.complete
define: NET_KERNEL, NET_WRITE_NO_EFBIG, NET_WRITE_NO_SHORT
src: socket.c
prepass: --dfcc harness --enforce-contract-rec spif_socket_send --replace-call-with-contract spif_str_new_from_buff --replace-call-with-contract spif_str_del --apply-loop-contracts --no-malloc-may-fail
backend: sat
objbits: 9
timeout: 200
checks_off: --conversion-check
funcs: spif_socket_send, spif_str_get_len
*/
/*@unit
name: send.short
define: NET_KERNEL, NET_WRITE_NO_EFBIG
src: socket.c
prepass: --dfcc harness --enforce-contract-rec spif_socket_send --replace-call-with-contract spif_str_new_from_buff --replace-call-with-contract spif_str_del --apply-loop-contracts --no-malloc-may-fail
backend: sat
objbits: 9
timeout: 200
checks_off: --conversion-check
funcs: spif_socket_send, spif_str_get_len
*/
/*@unit
name: send.fd
define: NET_KERNEL, NET_WRITE_NO_EFBIG, NET_SEND_FD_ACCOUNTING
src: socket.c
prepass: --dfcc harness --enforce-contract-rec spif_socket_send --replace-call-with-contract spif_str_new_from_buff --replace-call-with-contract spif_str_del --apply-loop-contracts --no-malloc-may-fail
backend: sat
objbits: 9
timeout: 200
checks_off: --conversion-check
funcs: spif_socket_send, spif_str_get_len
*/
/*@unit
name: send.script
define: NET_KERNEL, NET_TAPE, VG_TAPE_N=64, NET_OWN_WRITE, U_SCRIPT
src: socket.c
tier: B
bound: the first 5 write() answers are scripted over {complete, short, -1/EINTR, -1/EAGAIN, -1/EPIPE}, every later write() completes; payload 1..8 bytes; loops and the (unreached) EFBIG recursion unwound 7 with unwinding assertions
unwind: 7
backend: sat
checks_off: --conversion-check
native: self
funcs: spif_socket_send, spif_str_get_len
*/
#ifdef U_SCRIPT
#include "vprelude.h"
#include "env_net.h"
#include "socket.h"
#ifdef VERIF_NATIVE
# define spif_str_get_len vg_m_str_get_len
# define spif_str_new_from_buff vg_m_new_from_buff
# define spif_str_del vg_m_str_del
#endif
spif_stridx_t spif_str_get_len(spif_str_t self) { return self->len; }
/* the EFBIG branch is not reachable with this script (errno is never EFBIG); its callees must not be reached */
spif_str_t spif_str_new_from_buff(spif_charptr_t b, spif_stridx_t n) { __CPROVER_assert(0, "send.script: EFBIG branch not reached"); return NULL; }
spif_bool_t spif_str_del(spif_str_t self) { __CPROVER_assert(0, "send.script: EFBIG branch not reached"); return TRUE; }
/* scripted write(): answer i (i < 5) is w_script[i]: 0 complete, 1 short (one byte), 2 EINTR, 3 EAGAIN, 4 EPIPE */
#define NSCRIPT 5
int w_script[NSCRIPT];
const char *w_base; size_t w_len;
ssize_t write(int fd, const void *buf, size_t n)
{
    int a = (vg_wr_calls < NSCRIPT) ? w_script[vg_wr_calls] : 0;
    vg_wr_calls++;
    if (!((const char *) buf == w_base + vg_wr_total && vg_wr_total <= w_len && n <= w_len - vg_wr_total)) vg_wr_in_order = 0;
    if (a == 2) { vg_errno = EINTR; return -1; }
    if (a == 3) { vg_errno = EAGAIN; return -1; }
    if (a == 4) { vg_errno = EPIPE; vg_wr_hard = 1; return -1; }
    if (a == 1 && n > 1) { vg_wr_total += 1; return 1; }
    vg_wr_total += n;
    return (ssize_t) n;
}
#include "rawsrc/socket.c"

void harness(void)
{
    spif_socket_t s = malloc(sizeof(spif_const_socket_t));
    spif_str_t d = malloc(sizeof(spif_const_str_t));
    spif_bool_t ok;
    libast_debug_level = VND(uint, debug_level);
    VG_TAPE_FILL();                                        /* select()'s answers */
    w_script[0] = VND(int, script0); w_script[1] = VND(int, script1); w_script[2] = VND(int, script2);
    w_script[3] = VND(int, script3); w_script[4] = VND(int, script4);
    __CPROVER_assume(w_script[0] >= 0 && w_script[0] <= 4 && w_script[1] >= 0 && w_script[1] <= 4 && w_script[2] >= 0 && w_script[2] <= 4 &&
                     w_script[3] >= 0 && w_script[3] <= 4 && w_script[4] >= 0 && w_script[4] <= 4);
    vg_fd_open[0] = vg_fd_open[1] = vg_fd_open[2] = vg_fd_open[4] = vg_fd_open[5] = vg_fd_open[6] = vg_fd_open[7] = 0;
    vg_fd_open[3] = 1;
    s->fd = 3; s->flags = VND(uint, s_flags); s->addr = NULL; s->local_url = NULL; s->remote_url = NULL;
    d->len = VND(long, len);
    __CPROVER_assume(d->len >= 1 && d->len <= 8);
    d->size = d->len + 1; d->s = malloc(9);
    memset(d->s, 'x', 8); d->s[d->len] = 0;
    w_base = d->s; w_len = (size_t) d->len;
    vg_wr_calls = 0; vg_wr_total = 0; vg_wr_in_order = 1; vg_wr_hard = 0;

    ok = spif_socket_send(s, d);

    __CPROVER_assert(ok == TRUE || ok == FALSE, "send: boolean result");
    __CPROVER_assert(ok != TRUE || (vg_wr_total == w_len && vg_wr_in_order), "send: TRUE => every byte accepted by write(), in order");
    __CPROVER_assert(vg_wr_hard || ok == TRUE, "send: interruptions and would-block answers alone never make send fail");
    __CPROVER_assert(vg_wr_hard || s->fd == 3, "send: the descriptor is kept unless a write failed for good");
    __CPROVER_assert(s->fd == 3 || (s->fd == -1 && !vg_fd_open[3]), "send: the descriptor is kept, or released and forgotten");
    VERIF_CANARY();
}
#else
#include "vprelude.h"
#include "env_net.h"
/* facts about the write stub of the unit that the back-off loop's invariant may use (annot/socket.c.net.ann):
 * it never reports EFBIG (NET_WRITE_NO_EFBIG); in send.complete a successful write accepted everything */
# ifdef NET_WRITE_NO_SHORT
#  define VG_SEND_ERRNO_INV ((num_written >= 0 || vg_errno != EFBIG) && (num_written < 0 || (size_t) num_written == len - sent))
# else
#  define VG_SEND_ERRNO_INV (num_written >= 0 || vg_errno != EFBIG)
# endif
#include "socket.h"
/* SPIF_DEFINE_PROPERTY_FUNC_C(str, spif_stridx_t, len), str.c:835, written out */
spif_stridx_t spif_str_get_len(spif_str_t self) { return self->len; }
/* callees of the EFBIG branch (not reached in these units): any fresh string / delete */
spif_str_t spif_str_new_from_buff(spif_charptr_t buff, spif_stridx_t size)
__CPROVER_assigns()
__CPROVER_ensures(__CPROVER_is_fresh(__CPROVER_return_value, sizeof(spif_const_str_t)))
;
spif_bool_t spif_str_del(spif_str_t self)
__CPROVER_assigns()
__CPROVER_frees(self)
__CPROVER_ensures(__CPROVER_return_value == TRUE)
;
#include "src/socket.c"
#define NET_SOCKET_API
#include "socket.h"

void harness(void)
{
    spif_socket_t s; spif_str_t d;
    vg_wr_base = nondet_ptr();
    spif_socket_send(s, d);
    VERIF_CANARY();
}

#endif
