/* C19: spif_socket_open - every failure point leaves the object in SOCK_INV and orphans no descriptor.
 *
 * Tier P: the resolver retry of spif_url_get_ipaddr (a do-while) carries a loop contract (annot/socket.c.net.ann,
 * applied by `prepass: --dfcc harness --apply-loop-contracts`, plain harness otherwise); everything else is
 * loop-free (the model functions below are written without loops).  Symbolic: any ghost descriptor table; any
 * socket object satisfying SOCK_INV (descriptor open or none, address block present or not, any flags); local /
 * remote URL each absent or present with protocol / host / port / path each absent or a text of up to 4
 * characters (so the words "raw" and "unix" occur); every outcome of socket(), bind(), connect(), listen(),
 * fcntl(), of the resolver and of the protocol / service lookups (decision tape, env_net.h section 4).
 * Checked after the call, whatever it returned: SOCK_INV; no descriptor slot other than the object's own
 * changed (a descriptor opened by socket() is in self->fd, so that done/del will close it); the temporary
 * bind addresses are released (--memory-leak-check); no bad pointer is used on any path.
 * Native replay (native: self): same harness, same ghost kernel, real socket.c; inputs and kernel schedule from
 * the witness.
 *
 *   open.unix   URLs without a protocol word (AF_UNIX branch by default)
 *   open.inet   URLs with a protocol word: "raw" / "unix" / anything else (AF_INET branch)
 */
/*@unit
name: open.unix
define: NET_KERNEL, NET_TAPE, NET_GHOST_CLOCK, VG_TAPE_N=64, VERIF_OWN_LOOKUPS, U_UNIX
src: socket.c
prepass: --dfcc harness --apply-loop-contracts --no-malloc-may-fail
backend: sat
checks_off: --conversion-check
flags: --memory-leak-check
native: self
funcs: spif_socket_open, spif_socket_get_proto, spif_url_get_unixaddr, spif_socket_clear_nbio
*/
/*@unit
name: open.inet
define: NET_KERNEL, NET_TAPE, NET_GHOST_CLOCK, VG_TAPE_N=64, VERIF_OWN_LOOKUPS, U_INET
src: socket.c
prepass: --dfcc harness --apply-loop-contracts --no-malloc-may-fail
backend: sat
checks_off: --conversion-check
flags: --memory-leak-check
native: self
funcs: spif_socket_open, spif_socket_get_proto, spif_url_get_ipaddr, spif_url_get_portnum, spif_socket_clear_nbio
*/
#define VERIF_OWN_STRCMP
#include "vprelude.h"
#include "env_net.h"
#include "socket.h"

/* ---- models of what socket.c calls outside itself (loop-free; private names in the native replay) ---------- */
#ifdef VERIF_NATIVE
# define spif_url_get_proto vg_m_get_proto
# define spif_url_get_host vg_m_get_host
# define spif_url_get_port vg_m_get_port
# define spif_url_get_path vg_m_get_path
# define spif_str_cmp_with_ptr vg_m_cmp_with_ptr
# define spif_str_to_num vg_m_to_num
# define strcmp vg_m_strcmp
# define strncat vg_m_strncat
# define getprotobyname vg_m_getprotobyname
# define getservbyname vg_m_getservbyname
#else
spif_bool_t spif_obj_set_class(spif_obj_t self, spif_class_t cls) { self->cls = cls; return TRUE; }
int strncmp(const char *a, const char *b, size_t n) { return nondet_int(); }
int strcasecmp(const char *a, const char *b) { return nondet_int(); }
int strncasecmp(const char *a, const char *b, size_t n) { return nondet_int(); }
#endif
/* SPIF_DEFINE_PROPERTY_FUNC(url, str, x) getters, url.c:244-250, written out */
spif_str_t spif_url_get_proto(spif_url_t self) { return self->proto; }
spif_str_t spif_url_get_host(spif_url_t self) { return self->host; }
spif_str_t spif_url_get_port(spif_url_t self) { return self->port; }
spif_str_t spif_url_get_path(spif_url_t self) { return self->path; }
/* three-way comparison of two terminated texts of at most TXT characters, unrolled */
#define TXT 4
#define CMP_STEP(i) if (a[i] != b[i]) return (a[i] < b[i]) ? -1 : 1; if (!a[i]) return 0;
static int short_cmp(const char *a, const char *b) { CMP_STEP(0) CMP_STEP(1) CMP_STEP(2) CMP_STEP(3) CMP_STEP(4) return 0; }
int strcmp(const char *a, const char *b) { __CPROVER_assert(a != NULL && b != NULL, "strcmp: arguments not NULL"); return short_cmp(a, b); }
spif_cmp_t spif_str_cmp_with_ptr(spif_str_t self, spif_charptr_t other)
{
    int c;
    SPIF_OBJ_COMP_CHECK_NULL(self, other);
    c = short_cmp(self->s, other);
    return SPIF_CMP_FROM_INT(c);
}
size_t spif_str_to_num(spif_str_t self, int base) { __CPROVER_assert(self != NULL && self->s != NULL, "spif_str_to_num: a string"); return (size_t) (VG_NL() & 0xffff); }
char *strncat(char *d, const char *s, size_t n)
{
    __CPROVER_assert(d[0] == 0 && n >= TXT, "strncat model: empty destination, room for a short text");
    d[0] = s[0]; if (!s[0]) return d;
    d[1] = s[1]; if (!s[1]) return d;
    d[2] = s[2]; if (!s[2]) return d;
    d[3] = s[3]; if (!s[3]) return d;
    d[4] = 0;
    return d;
}
/* lookups from the decision tape */
struct protoent *getprotobyname(const char *name)
{
    __CPROVER_assert(name != NULL && __CPROVER_r_ok(name, 1), "getprotobyname: name is a readable string");
    if (VG_NB()) return (struct protoent *) 0;
    vg_protoent_name[0] = VG_NB() ? 't' : 'u'; vg_protoent_name[1] = VG_NB() ? 'c' : 'd'; vg_protoent_name[2] = 'p'; vg_protoent_name[3] = 0;
    vg_protoent.p_name = vg_protoent_name; vg_protoent.p_aliases = vg_no_aliases; vg_protoent.p_proto = VG_NI();
    return &vg_protoent;
}
struct servent *getservbyname(const char *name, const char *proto)
{
    __CPROVER_assert(name != NULL && __CPROVER_r_ok(name, 1), "getservbyname: name is a readable string");
    if (VG_NB()) return (struct servent *) 0;
    vg_servent_name[0] = 0; vg_servent_proto[0] = 't'; vg_servent_proto[1] = 0;
    vg_servent.s_name = vg_servent_name; vg_servent.s_aliases = vg_no_aliases; vg_servent.s_proto = vg_servent_proto;
    vg_servent.s_port = (int) (VG_NL() & 0xffff);
    return &vg_servent;
}

#ifdef VERIF_NATIVE
# include "rawsrc/socket.c"
#else
# include "src/socket.c"
#endif

static spif_str_t mk_text(_Bool has, long len, char c0, char c1, char c2, char c3)
{
    spif_str_t p;
    if (!has) return NULL;
    p = malloc(sizeof(spif_const_str_t));
    __CPROVER_assume(len >= 0 && len <= TXT);
    p->len = len; p->size = TXT + 1; p->s = malloc(TXT + 1);
    p->s[0] = c0; p->s[1] = c1; p->s[2] = c2; p->s[3] = c3; p->s[4] = 0;
    p->s[len] = 0;
    __CPROVER_assume((len < 1 || c0 != 0) && (len < 2 || c1 != 0) && (len < 3 || c2 != 0) && (len < 4 || c3 != 0));
    return p;
}
#define ANY_TEXT(n) mk_text(VND(bool, has_ ## n), VND(long, len_ ## n), VND(char, n ## _c0), VND(char, n ## _c1), VND(char, n ## _c2), VND(char, n ## _c3))
static void drop_text(spif_str_t p) { if (p) { free(p->s); free(p); } }
static void drop_url(spif_url_t u) { if (u) { drop_text(u->proto); drop_text(u->host); drop_text(u->port); drop_text(u->path); free(u); } }
#define SLOT_KEPT(before) (vg_k >= VG_NFD || vg_fd_open[vg_k] == (before))

void harness(void)
{
    _Bool slot_before;
    spif_socket_t s = malloc(sizeof(spif_const_socket_t));
    spif_url_t lu = NULL, ru = NULL;
    int fd0;
    spif_bool_t r;
    libast_debug_level = VND(uint, debug_level);          /* every run-time debug level */
    vg_fd_open[0] = VND(bool, open0); vg_fd_open[1] = VND(bool, open1); vg_fd_open[2] = VND(bool, open2); vg_fd_open[3] = VND(bool, open3);
    vg_fd_open[4] = VND(bool, open4); vg_fd_open[5] = VND(bool, open5); vg_fd_open[6] = VND(bool, open6); vg_fd_open[7] = VND(bool, open7);
    VG_TAPE_FILL();
    s->fd = VND(int, s_fd); s->fam = VND(int, s_fam); s->type = VND(int, s_type); s->proto = VND(int, s_proto);
    s->flags = VND(uint, s_flags); s->len = VND(uint, s_len);
    __CPROVER_assume(SOCK_FD_OK(s) && s->fd >= -1 && s->len <= sizeof(struct sockaddr_un));
    s->addr = VND(bool, s_has_addr) ? malloc(s->len) : NULL;
    if (s->addr) memset(s->addr, 0, s->len);
    if (VND(bool, has_lurl)) {
        lu = calloc(1, sizeof(spif_const_url_t));
        lu->proto = ANY_TEXT(lproto); lu->host = ANY_TEXT(lhost); lu->port = ANY_TEXT(lport); lu->path = ANY_TEXT(lpath);
    }
    if (VND(bool, has_rurl)) {
        ru = calloc(1, sizeof(spif_const_url_t));
        ru->proto = ANY_TEXT(rproto); ru->host = ANY_TEXT(rhost); ru->port = ANY_TEXT(rport); ru->path = ANY_TEXT(rpath);
    }
#ifdef U_UNIX
    __CPROVER_assume((lu == NULL || lu->proto == NULL) && (ru == NULL || ru->proto == NULL));
#else
    __CPROVER_assume((lu == NULL || lu->proto != NULL) && (ru == NULL || ru->proto != NULL));
#endif
    s->local_url = lu; s->remote_url = ru;
    fd0 = s->fd;
    vg_k = VND(size_t, k);
    __CPROVER_assume(vg_k < VG_NFD);
    slot_before = vg_fd_open[vg_k];

    r = spif_socket_open(s);

    __CPROVER_assert(r == TRUE || r == FALSE, "open: boolean result");
    __CPROVER_assert(SOCK_FD_OK(s), "open: the descriptor field is none or names an open descriptor");
    __CPROVER_assert(fd0 < 0 || s->fd == fd0, "open: an already open socket keeps its descriptor");
    __CPROVER_assert((int) vg_k == s->fd || SLOT_KEPT(slot_before), "open: no descriptor slot changes except the object's own (nothing opened and orphaned)");
    VERIF_CANARY();
    free(s->addr); drop_url(s->local_url); drop_url(s->remote_url); free(s);
}
