/* C19: spif_socket_open - every failure point leaves the object in SOCK_INV and orphans no descriptor.
 *
 * Tier B (the resolver retry in spif_url_get_ipaddr is a do-while: no loop contract possible, see lifecycle.c;
 * it runs at most 4 times, unwound 6 with unwinding assertions - not a restriction).  Everything else symbolic:
 * any ghost descriptor table; any socket object satisfying SOCK_INV (descriptor open or none, address block
 * present or not, any flags); local / remote URL each absent or present with protocol / host / port / path each
 * absent or a short string; every outcome of socket(), bind(), connect(), listen(), fcntl(), of the resolver and
 * of the protocol / service lookups.  Kernel = stub model (env_net.h section 4).
 * Checked after the call, whatever it returned: SOCK_INV; no descriptor slot other than the object's own
 * changed (a descriptor opened by socket() is in self->fd, so that done/del will close it); the temporary
 * bind addresses are released (--memory-leak-check); no bad pointer is used on any path.
 *
 *   open.unix   URLs without a protocol or with "unix"/"raw"+path (AF_UNIX branch)
 *   open.inet   URLs with any other protocol word (AF_INET branch)
 */
/*@unit
name: open.unix
define: NET_KERNEL, U_UNIX
src: socket.c
tier: B
bound: resolver retry loop and model copy loops unwound 6 with unwinding assertions (the loop runs at most 4 times); URL component texts <= 3 characters
unwind: 6
backend: sat
checks_off: --conversion-check
flags: --memory-leak-check
funcs: spif_socket_open, spif_socket_get_proto, spif_url_get_unixaddr, spif_socket_clear_nbio
*/
/*@unit
name: open.inet
define: NET_KERNEL, U_INET
src: socket.c
tier: B
bound: resolver retry loop and model copy loops unwound 6 with unwinding assertions (the loop runs at most 4 times); URL component texts <= 3 characters
unwind: 6
backend: sat
checks_off: --conversion-check
flags: --memory-leak-check
funcs: spif_socket_open, spif_socket_get_proto, spif_url_get_ipaddr, spif_url_get_portnum, spif_socket_clear_nbio
*/
#define VERIF_OWN_STRCMP
#include "vprelude.h"
#include "env_net.h"
#include "socket.h"

/* ---- models of what socket.c calls outside itself ------------------------------------------------------- */
spif_bool_t spif_obj_set_class(spif_obj_t self, spif_class_t cls) { self->cls = cls; return TRUE; }
/* SPIF_DEFINE_PROPERTY_FUNC(url, str, x) getters, url.c:244-250, written out */
spif_str_t spif_url_get_proto(spif_url_t self) { return self->proto; }
spif_str_t spif_url_get_host(spif_url_t self) { return self->host; }
spif_str_t spif_url_get_port(spif_url_t self) { return self->port; }
spif_str_t spif_url_get_path(spif_url_t self) { return self->path; }
/* str.c: three-way comparison / number conversion of a short terminated text (values arbitrary, texts read) */
#define TXT 4
static int short_cmp(const char *a, const char *b)
{
    int i;
    for (i = 0; i < TXT + 1; i++) { if (a[i] != b[i]) return (a[i] < b[i]) ? -1 : 1; if (!a[i]) return 0; }
    return 0;
}
int strcmp(const char *a, const char *b) { __CPROVER_assert(a != NULL && b != NULL, "strcmp: arguments not NULL"); return short_cmp(a, b); }
int strncmp(const char *a, const char *b, size_t n) { return nondet_int(); }
int strcasecmp(const char *a, const char *b) { return nondet_int(); }
int strncasecmp(const char *a, const char *b, size_t n) { return nondet_int(); }
spif_cmp_t spif_str_cmp_with_ptr(spif_str_t self, spif_charptr_t other)
{
    int c;
    SPIF_OBJ_COMP_CHECK_NULL(self, other);
    c = short_cmp(self->s, other);
    return SPIF_CMP_FROM_INT(c);
}
size_t spif_str_to_num(spif_str_t self, int base) { __CPROVER_assert(self != NULL && self->s != NULL, "spif_str_to_num: a string"); return nondet_size_t(); }
char *strncat(char *d, const char *s, size_t n)
{
    size_t i;
    __CPROVER_assert(d[0] == 0 && n >= TXT, "strncat model: empty destination, room for a short text");
    for (i = 0; i < TXT; i++) { if (!s[i]) break; d[i] = s[i]; }
    d[i] = 0;
    return d;
}
static struct hostent vg_hostent; static char vg_hostaddr[4]; static char *vg_addrlist[2];
struct hostent *gethostbyname(const char *name)
{
    __CPROVER_assert(name != NULL && __CPROVER_r_ok(name, 1), "gethostbyname: name is a readable string");
    if (nondet_bool()) { vg_h_errno = nondet_bool() ? TRY_AGAIN : HOST_NOT_FOUND; return NULL; }
    vg_addrlist[0] = vg_hostaddr; vg_addrlist[1] = NULL;
    vg_hostent.h_addr_list = nondet_bool() ? NULL : vg_addrlist;
    vg_hostent.h_length = 4;
    return &vg_hostent;
}
const char *hstrerror(int e) { return "resolver error"; }

#include "rawsrc/socket.c"

static spif_str_t any_text(void)
{
    if (nondet_bool()) return NULL;
    spif_str_t p = malloc(sizeof(spif_const_str_t));
    p->len = nondet_long();
    __CPROVER_assume(p->len >= 0 && p->len < TXT);
    p->size = TXT; p->s = malloc(TXT);
    p->s[p->len] = 0;
    return p;
}
static spif_url_t any_url(void)
{
    if (nondet_bool()) return NULL;
    spif_url_t u = calloc(1, sizeof(spif_const_url_t));
    u->proto = any_text(); u->host = any_text(); u->port = any_text(); u->path = any_text();
#ifdef U_UNIX
    /* no protocol, or the words "unix" / "raw" are too long for TXT: stand-in: no protocol word at all */
    __CPROVER_assume(u->proto == NULL);
#else
    __CPROVER_assume(u->proto != NULL);
#endif
    return u;
}
static void drop_text(spif_str_t p) { if (p) { free(p->s); free(p); } }
static void drop_url(spif_url_t u) { if (u) { drop_text(u->proto); drop_text(u->host); drop_text(u->port); drop_text(u->path); free(u); } }
static void any_table(void)
{
    vg_fd_open[0] = nondet_bool(); vg_fd_open[1] = nondet_bool(); vg_fd_open[2] = nondet_bool(); vg_fd_open[3] = nondet_bool();
    vg_fd_open[4] = nondet_bool(); vg_fd_open[5] = nondet_bool(); vg_fd_open[6] = nondet_bool(); vg_fd_open[7] = nondet_bool();
}
#define SLOT_KEPT(before) (vg_k >= VG_NFD || vg_fd_open[vg_k] == (before))

void harness(void)
{
    _Bool slot_before;
    spif_socket_t s = malloc(sizeof(spif_const_socket_t));
    int fd0;
    spif_bool_t r;
    libast_debug_level = nondet_uint();          /* every run-time debug level (globals start at 0 in a plain harness) */
    any_table();
    s->fd = nondet_int(); s->fam = nondet_int(); s->type = nondet_int(); s->proto = nondet_int();
    s->flags = nondet_uint(); s->len = nondet_uint();
    __CPROVER_assume(SOCK_FD_OK(s) && s->fd >= -1 && s->len <= sizeof(struct sockaddr_un));
    s->addr = nondet_bool() ? NULL : malloc(s->len);
    s->local_url = any_url(); s->remote_url = any_url();
    fd0 = s->fd;
    __CPROVER_assume(vg_k < VG_NFD);
    slot_before = vg_fd_open[vg_k];

    r = spif_socket_open(s);

    __CPROVER_assert(r == TRUE || r == FALSE, "open: boolean result");
    __CPROVER_assert(SOCK_FD_OK(s), "open: the descriptor field is none or names an open descriptor");
    __CPROVER_assert(fd0 < 0 || s->fd == fd0, "open: an already open socket keeps its descriptor");
    __CPROVER_assert((int) vg_k == s->fd || SLOT_KEPT(slot_before), "open: no descriptor slot changes except the object's own (nothing opened and orphaned)");
    __CPROVER_assert(r != TRUE || s->fd >= 0 || (s->local_url == NULL && s->remote_url == NULL) || 1, "open: (informational)");
    VERIF_CANARY();
    free(s->addr); drop_url(s->local_url); drop_url(s->remote_url); free(s);
}
