/* C19: spif_socket_accept - "failed accepts leak nothing, every descriptor the library opened is closed by the
 * time its object is deleted, the peer address is read inside its buffer".
 *
 * Tier B: the EAGAIN retry is a do-while (no loop contract possible, see lifecycle.c) and the kernel may answer
 * EAGAIN for ever; bound: at most 2 consecutive EAGAIN/EWOULDBLOCK answers, the name-service retry loop and
 * the exact strlen of the peer path unwound (<= 20).  Everything else symbolic: any ghost descriptor table,
 * any listener object satisfying SOCK_INV with an open descriptor and no remote URL, any family/type flags,
 * any peer address bytes and any reported address length.  Kernel = stub model (env_net.h section 4).
 *
 *   accept.fail      accept() fails for good: NULL, no descriptor slot changes, nothing allocated survives
 *   accept.ok_fd     success: descriptor accounting (listener unchanged, result owns the new descriptor, no
 *                    other slot changes)
 *   accept.ok_unix   success, AF_UNIX listener: memory safety of building the peer URL from the address buffer
 *   accept.ok_inet   success, AF_INET listener: the same for the IP branch
 */
/*@unit
name: accept.fail
define: NET_KERNEL, NET_OWN_ACCEPT, U_FAIL
src: socket.c
tier: B
bound: at most 2 EAGAIN answers before the final failure; retry loops unwound 20 with unwinding assertions
unwind: 20
backend: sat
checks_off: --conversion-check
flags: --memory-leak-check
funcs: spif_socket_accept
*/
/*@unit
name: accept.ok_fd
define: NET_KERNEL, NET_OWN_ACCEPT, U_OK, U_FDS
src: socket.c
tier: B
bound: at most 2 EAGAIN answers before the connection; listener flags without a family bit (no peer URL is built); loops unwound 20 with unwinding assertions
unwind: 20
backend: sat
checks_off: --conversion-check
funcs: spif_socket_accept, spif_socket_dup, spif_socket_set_nbio
*/
/*@unit
name: accept.ok_unix
define: NET_KERNEL, NET_OWN_ACCEPT, U_OK, U_UNIX
src: socket.c
tier: B
bound: at most 2 EAGAIN answers before the connection; AF_UNIX listener; peer address: any bytes in the whole buffer handed to accept(), any reported length; loops (exact strlen of the peer path) unwound 112 with unwinding assertions
unwind: 112
backend: sat
checks_off: --conversion-check
funcs: spif_socket_accept, spif_url_new_from_unixaddr, spif_url_init_from_unixaddr
*/
/*@unit
name: accept.ok_inet
define: NET_KERNEL, NET_OWN_ACCEPT, U_OK, U_INET
src: socket.c
tier: B
bound: at most 2 EAGAIN answers before the connection; AF_INET listener; peer address: any 16 bytes; resolver answers NULL / TRY_AGAIN / a record in any sequence; loops unwound 20 with unwinding assertions
unwind: 20
backend: sat
checks_off: --conversion-check
funcs: spif_socket_accept, spif_url_new_from_ipaddr, spif_url_init_from_ipaddr
*/
#define VERIF_OWN_STRLEN
#include "vprelude.h"
/* exact libc for the bounded run */
size_t strlen(const char *s) { size_t n = 0; while (s[n]) n++; return n; }
size_t strnlen(const char *s, size_t m) { size_t n = 0; while (n < m && s[n]) n++; return n; }
#include "env_net.h"
#include "socket.h"

/* accept(): as env_net.h, but at most 2 EAGAIN/EWOULDBLOCK answers per run, and (U_FAIL) never a connection */
unsigned vg_accept_again;
int accept(int fd, struct sockaddr *addr, socklen_t *len)
{
    if (!VG_FD_OPEN(fd)) { vg_errno = EBADF; return -1; }
#ifdef U_FAIL
    _Bool fail = 1;
#else
    _Bool fail = nondet_bool();
#endif
    if (fail && vg_accept_again < 2 && nondet_bool()) { vg_accept_again++; vg_errno = EAGAIN; return -1; }
#ifdef U_OK
    fail = 0;                                        /* ... then the connection arrives */
#endif
    if (fail) { vg_errno = vg_any_errno(); __CPROVER_assume(vg_errno != EAGAIN && vg_errno != EWOULDBLOCK); return -1; }
    __CPROVER_assert(addr != NULL && len != NULL && __CPROVER_w_ok(addr, *len), "accept: address buffer writable for *len bytes");
    /* the kernel writes at most *len bytes: arbitrary bytes over a prefix of the buffer (assigned as nondet
     * structs; __CPROVER_havoc_slice turned out to disturb the byte BEHIND the slice as well) */
    if (*len >= sizeof(struct sockaddr_un)) { struct sockaddr_un any_un; *(struct sockaddr_un *) addr = any_un; }
    else if (*len >= sizeof(struct sockaddr)) { struct sockaddr any_sa; *addr = any_sa; }
    *len = nondet_uint();                            /* the peer's real address length (may exceed the buffer) */
    return vg_new_fd();
}

/* ---- models: url ownership (C05.url_dup / C06.url_del), str constructors (fresh terminated copy), resolver ---- */
spif_bool_t spif_obj_set_class(spif_obj_t self, spif_class_t cls) { self->cls = cls; return TRUE; }
spif_url_t spif_url_dup(spif_url_t self) { return (spif_url_t) calloc(1, sizeof(spif_const_url_t)); }
spif_class_t SPIF_CLASS_VAR(url);
spif_bool_t spif_str_init(spif_str_t self) { self->s = NULL; self->len = 0; self->size = 0; return TRUE; }
spif_str_t spif_str_new_from_ptr(spif_charptr_t old)
{
    spif_str_t r = malloc(sizeof(spif_const_str_t));
    __CPROVER_assert(old != NULL, "spif_str_new_from_ptr: argument not NULL");
    r->len = strlen(old);                            /* exact: every byte read is bounds-checked */
    r->size = r->len + 1;
    r->s = malloc(r->size);
    r->s[r->len] = 0;
    return r;
}
spif_str_t spif_str_new_from_num(long num)
{
    spif_str_t r = malloc(sizeof(spif_const_str_t));
    r->len = 1; r->size = 2; r->s = malloc(2); r->s[1] = 0;
    return r;
}
static struct hostent vg_hostent; static char vg_hostname[8];
struct hostent *gethostbyaddr(const void *a, socklen_t l, int t)
{
    __CPROVER_assert(__CPROVER_r_ok(a, l), "gethostbyaddr: address readable");
    if (nondet_bool()) { vg_h_errno = nondet_bool() ? TRY_AGAIN : HOST_NOT_FOUND; return NULL; }
    vg_hostname[7] = 0; vg_hostent.h_name = nondet_bool() ? NULL : vg_hostname;
    return &vg_hostent;
}
char *inet_ntoa(struct in_addr in) { static char b[16]; b[15] = 0; return b; }

#include "rawsrc/socket.c"

static void any_table(void)
{
    vg_fd_open[0] = nondet_bool(); vg_fd_open[1] = nondet_bool(); vg_fd_open[2] = nondet_bool(); vg_fd_open[3] = nondet_bool();
    vg_fd_open[4] = nondet_bool(); vg_fd_open[5] = nondet_bool(); vg_fd_open[6] = nondet_bool(); vg_fd_open[7] = nondet_bool();
}
#define SLOT_KEPT(before) (vg_k >= VG_NFD || vg_fd_open[vg_k] == (before))

void harness(void)
{
    _Bool slot_before;
    spif_socket_t s = malloc(sizeof(spif_const_socket_t)), t;
    int fd0;
    libast_debug_level = nondet_uint();          /* every run-time debug level (globals start at 0 in a plain harness) */
    any_table();
    SPIF_CLASS_VAR(socket) = &s_class;
    s->parent.cls = SPIF_CLASS_VAR(socket);
    s->fd = nondet_int(); s->fam = nondet_int(); s->type = nondet_int(); s->proto = nondet_int();
    s->flags = nondet_uint(); s->len = 0; s->addr = NULL;
    s->local_url = nondet_bool() ? NULL : calloc(1, sizeof(spif_const_url_t));
    s->remote_url = NULL;                                        /* a listener has no peer */
    __CPROVER_assume(VG_FD_OPEN(s->fd));
#if defined(U_FDS)
    __CPROVER_assume((s->flags & (SPIF_SOCKET_FLAGS_FAMILY_INET | SPIF_SOCKET_FLAGS_FAMILY_UNIX)) == 0);
#elif defined(U_UNIX)
    __CPROVER_assume((s->flags & SPIF_SOCKET_FLAGS_FAMILY_INET) == 0 && (s->flags & SPIF_SOCKET_FLAGS_FAMILY_UNIX) != 0);
#elif defined(U_INET)
    __CPROVER_assume((s->flags & SPIF_SOCKET_FLAGS_FAMILY_INET) != 0);
#endif
    fd0 = s->fd; vg_accept_again = 0;
    __CPROVER_assume(vg_k < VG_NFD);
    slot_before = vg_fd_open[vg_k];

    t = spif_socket_accept(s);

    __CPROVER_assert(s->fd == fd0 && vg_fd_open[fd0], "accept: the listener keeps its open descriptor");
#ifdef U_FAIL
    __CPROVER_assert(t == NULL, "accept: a failed accept returns no object");
    __CPROVER_assert(SLOT_KEPT(slot_before), "accept: a failed accept changes no descriptor slot");
    VERIF_CANARY();
    free(s->local_url); free(s);        /* what the caller owns; a failed accept must have left nothing else (leak check) */
#else
    __CPROVER_assert(t != NULL && t != s, "accept: a new socket object for the connection");
    __CPROVER_assert(VG_FD_OPEN(t->fd) && t->fd != fd0, "accept: the new object owns an open descriptor of its own");
    __CPROVER_assert((int) vg_k == t->fd || SLOT_KEPT(slot_before),
                     "accept: no descriptor slot changes except the new connection's (nothing opened and orphaned)");
    __CPROVER_assert((t->flags & SPIF_SOCKET_FLAGS_LISTEN) == 0, "accept: the connection socket is not a listener");
    VERIF_CANARY();
#endif
}
