/* C19: spif_socket_accept - "failed accepts leak nothing, every descriptor the library opened is closed by the
 * time its object is deleted, the peer address is read inside its buffer".
 *
 * Tier P: the EAGAIN retry (do-while), the EINTR retry of spif_socket_close and the resolver retry of
 * spif_url_init_from_ipaddr carry loop contracts (annot/socket.c.net.ann; applied by `prepass: --dfcc harness
 * --apply-loop-contracts`, plain harness otherwise); the exact strlen model below has its own loop contract.
 * The kernel may answer EAGAIN any number of times (no termination measure: partial correctness).
 * Symbolic: any ghost descriptor table, any listener object satisfying SOCK_INV with an open descriptor and no
 * remote URL, any family/type flags, any peer address bytes and any reported address length.
 * Kernel = stub model (env_net.h section 4; decisions from the tape, the number of EAGAIN answers free).
 * Native replay (native: self): same harness and ghost kernel against the real socket.c.
 *
 *   accept.fail      accept() fails for good: NULL, no descriptor slot changes, nothing allocated survives
 *   accept.ok_fd     success: descriptor accounting (listener unchanged, result owns the new descriptor, no
 *                    other slot changes - the descriptor spif_socket_dup() duplicated is closed again)
 *   accept.ok_unix   success, AF_UNIX listener: memory safety of building the peer URL from the address buffer
 *   accept.ok_inet   success, AF_INET listener: the same for the IP branch
 */
/*@unit
name: accept.fail
define: NET_KERNEL, NET_TAPE, VG_TAPE_N=64, NET_GHOST_CLOCK, NET_OWN_ACCEPT, U_FAIL
src: socket.c
prepass: --dfcc harness --apply-loop-contracts --no-malloc-may-fail
backend: sat
checks_off: --conversion-check
flags: --memory-leak-check
native: self
funcs: spif_socket_accept
*/
/*@unit
name: accept.ok_fd
define: NET_KERNEL, NET_TAPE, VG_TAPE_N=64, NET_GHOST_CLOCK, NET_OWN_ACCEPT, U_OK, U_FDS
src: socket.c
prepass: --dfcc harness --apply-loop-contracts --no-malloc-may-fail
backend: sat
checks_off: --conversion-check
native: self
funcs: spif_socket_accept, spif_socket_dup, spif_socket_close, spif_socket_set_nbio
*/
/*@unit
name: accept.ok_unix
define: NET_KERNEL, NET_TAPE, VG_TAPE_N=64, NET_GHOST_CLOCK, NET_OWN_ACCEPT, U_OK, U_UNIX
src: socket.c
prepass: --dfcc harness --apply-loop-contracts --no-malloc-may-fail
backend: sat
checks_off: --conversion-check
native: self
funcs: spif_socket_accept, spif_url_new_from_unixaddr, spif_url_init_from_unixaddr
*/
/*@unit
name: accept.ok_inet
define: NET_KERNEL, NET_TAPE, VG_TAPE_N=64, NET_GHOST_CLOCK, NET_OWN_ACCEPT, U_OK, U_INET
src: socket.c
prepass: --dfcc harness --apply-loop-contracts --no-malloc-may-fail
backend: sat
checks_off: --conversion-check
native: self
funcs: spif_socket_accept, spif_url_new_from_ipaddr, spif_url_init_from_ipaddr
*/
#define VERIF_OWN_STRLEN
#include "vprelude.h"
#include "env_net.h"
#include "socket.h"

#ifdef VERIF_NATIVE
# define VLOOP(x)
# define strlen vg_m_strlen
# define spif_url_dup vg_m_url_dup
# define spif_str_init vg_m_str_init
# define spif_str_new_from_ptr vg_m_str_new_from_ptr
# define spif_str_new_from_num vg_m_str_new_from_num
unsigned w_again_n;                 /* native replay: number of EAGAIN answers before the final one */
#else
# define VLOOP(x) x
spif_bool_t spif_obj_set_class(spif_obj_t self, spif_class_t cls) { self->cls = cls; return TRUE; }
size_t strnlen(const char *s, size_t m) { return nondet_size_t(); }
#endif
/* exact strlen: every byte read is bounds-checked.  Loop contract: n stays inside the object; it is inductive
 * because the LAST byte of the object is NUL (what spif_socket_accept guarantees since fix 2e1519d: a zeroed buffer
 * one byte longer than what the kernel may write) - for an object that does not end in NUL the base case fails. */
size_t strlen(const char *s)
{
    size_t n = 0;
    while (s[n])
    VLOOP(__CPROVER_assigns(n))
    VLOOP(__CPROVER_loop_invariant(n < VREMAIN(s) && s[VREMAIN(s) - 1] == 0))
    VLOOP(__CPROVER_decreases(VREMAIN(s) - n))
    {
        n++;
#ifndef VERIF_NATIVE                 /* (natively AddressSanitizer judges the read) */
        __CPROVER_assert(n < VREMAIN(s), "strlen: the string is terminated inside its object");
#endif
    }
    return n;
}

/* accept(): as env_net.h; EAGAIN any number of times (cbmc) / w_again_n times (native), then failure or a connection */
int accept(int fd, struct sockaddr *addr, socklen_t *len)
{
    if (!VG_FD_OPEN(fd)) { vg_errno = EBADF; return -1; }
#ifdef VERIF_NATIVE
    if (vg_accept_again < w_again_n) { vg_accept_again++; vg_errno = EAGAIN; return -1; }
#else
    if (nondet_bool()) { vg_accept_again++; vg_errno = nondet_bool() ? EAGAIN : EWOULDBLOCK; return -1; }
#endif
#ifdef U_FAIL
    { vg_errno = vg_any_errno(); __CPROVER_assume(vg_errno != EAGAIN && vg_errno != EWOULDBLOCK); return -1; }
#else
    __CPROVER_assert(addr != NULL && len != NULL && __CPROVER_w_ok(addr, *len), "accept: address buffer writable for *len bytes");
    /* the kernel writes at most *len bytes: arbitrary bytes over a prefix of the buffer (assigned as nondet
     * structs; __CPROVER_havoc_slice turned out to disturb the byte BEHIND the slice as well) */
# ifdef VERIF_NATIVE
    memset(addr, 0x41, *len);
# else
    if (*len >= sizeof(struct sockaddr_un)) { struct sockaddr_un any_un; *(struct sockaddr_un *) addr = any_un; }
    else if (*len >= sizeof(struct sockaddr)) { struct sockaddr any_sa; *addr = any_sa; }
# endif
    *len = (socklen_t) (VG_NL() & 0x7fffffffL);       /* the peer's real address length (may exceed the buffer) */
    return vg_new_fd();
#endif
}

/* ---- models: url ownership (C05.url_dup / C06.url_del), str constructors (fresh terminated copy) ---- */
spif_url_t spif_url_dup(spif_url_t self) { return (spif_url_t) calloc(1, sizeof(spif_const_url_t)); }
#ifndef VERIF_NATIVE
spif_class_t SPIF_CLASS_VAR(url);
#endif
spif_bool_t spif_str_init(spif_str_t self) { self->s = NULL; self->len = 0; self->size = 0; return TRUE; }
spif_str_t spif_str_new_from_ptr(spif_charptr_t old)
{
    spif_str_t r = malloc(sizeof(spif_const_str_t));
    __CPROVER_assert(old != NULL, "spif_str_new_from_ptr: argument not NULL");
    r->len = strlen(old);                            /* exact: every byte read is bounds-checked */
    r->size = r->len + 1;
    r->s = malloc(r->size);
    r->s[r->len] = 0;
    return r;
}
spif_str_t spif_str_new_from_num(long num)
{
    spif_str_t r = malloc(sizeof(spif_const_str_t));
    r->len = 1; r->size = 2; r->s = malloc(2); r->s[1] = 0;
    return r;
}

#ifdef VERIF_NATIVE
# include "rawsrc/socket.c"
#else
# include "src/socket.c"
#endif

#define SLOT_KEPT(before) (vg_k >= VG_NFD || vg_fd_open[vg_k] == (before))

void harness(void)
{
    _Bool slot_before;
    spif_socket_t s = malloc(sizeof(spif_const_socket_t)), t;
    int fd0;
    libast_debug_level = VND(uint, debug_level);
    vg_fd_open[0] = VND(bool, open0); vg_fd_open[1] = VND(bool, open1); vg_fd_open[2] = VND(bool, open2); vg_fd_open[3] = VND(bool, open3);
    vg_fd_open[4] = VND(bool, open4); vg_fd_open[5] = VND(bool, open5); vg_fd_open[6] = VND(bool, open6); vg_fd_open[7] = VND(bool, open7);
    VG_TAPE_FILL();
#ifdef VERIF_NATIVE
    w_again_n = (unsigned) vn_get("vg_accept_again", 0);
    if (w_again_n > 1000) w_again_n = 1000;
#endif
    SPIF_CLASS_VAR(socket) = &s_class;
    s->parent.cls = SPIF_CLASS_VAR(socket);
    s->fd = VND(int, s_fd); s->fam = VND(int, s_fam); s->type = VND(int, s_type); s->proto = VND(int, s_proto);
    s->flags = VND(uint, s_flags); s->len = 0; s->addr = NULL;
    s->local_url = VND(bool, s_has_lurl) ? calloc(1, sizeof(spif_const_url_t)) : NULL;
    s->remote_url = NULL;                                        /* a listener has no peer */
    __CPROVER_assume(VG_FD_OPEN(s->fd));
#if defined(U_FDS)
    __CPROVER_assume((s->flags & (SPIF_SOCKET_FLAGS_FAMILY_INET | SPIF_SOCKET_FLAGS_FAMILY_UNIX)) == 0);
#elif defined(U_UNIX)
    __CPROVER_assume((s->flags & SPIF_SOCKET_FLAGS_FAMILY_INET) == 0 && (s->flags & SPIF_SOCKET_FLAGS_FAMILY_UNIX) != 0);
#elif defined(U_INET)
    __CPROVER_assume((s->flags & SPIF_SOCKET_FLAGS_FAMILY_INET) != 0);
#endif
    fd0 = s->fd; vg_accept_again = 0;
    vg_k = VND(size_t, k);
    __CPROVER_assume(vg_k < VG_NFD);
    slot_before = vg_fd_open[vg_k];

    t = spif_socket_accept(s);

    /* (descriptor facts are stated for the arbitrary slot vg_k: the loop contracts keep track of that slot) */
    __CPROVER_assert(s->fd == fd0 && ((int) vg_k != fd0 || vg_fd_open[vg_k]), "accept: the listener keeps its open descriptor");
#ifdef U_FAIL
    __CPROVER_assert(t == NULL, "accept: a failed accept returns no object");
    __CPROVER_assert(SLOT_KEPT(slot_before), "accept: a failed accept changes no descriptor slot");
    VERIF_CANARY();
    free(s->local_url); free(s);        /* what the caller owns; a failed accept must have left nothing else (leak check) */
#else
    __CPROVER_assert(t != NULL && t != s, "accept: a new socket object for the connection");
    __CPROVER_assert(VG_FD_VALID(t->fd) && t->fd != fd0 && ((int) vg_k != t->fd || vg_fd_open[vg_k]),
                     "accept: the new object owns an open descriptor of its own");
    __CPROVER_assert((int) vg_k == t->fd || SLOT_KEPT(slot_before),
                     "accept: no descriptor slot changes except the new connection's (nothing opened and orphaned)");
    __CPROVER_assert((t->flags & SPIF_SOCKET_FLAGS_LISTEN) == 0, "accept: the connection socket is not a listener");
    VERIF_CANARY();
#endif
}
