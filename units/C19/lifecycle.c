/* C19 descriptor accounting over the socket lifecycle (and the socket part of C06).
 *
 * Kernel = stub model of contracts/env_net.h section 4 (ghost table vg_fd_open[0..8): a real socket is not
 * exercised).  SOCK_INV: the object's fd field is "none" (negative) or names a descriptor that is open in the
 * ghost table.  Every unit starts from an ARBITRARY ghost table and an arbitrary object satisfying SOCK_INV
 * (flags, family, type, proto arbitrary; addr absent or a block of len bytes; each URL absent or present) and
 * checks after the call:
 *   - SOCK_INV again, for every object involved ("no object left referring to a closed descriptor");
 *   - slot-wise (ghost index vg_k, arbitrary): a descriptor slot changed only if it is the one the call is
 *     entitled to open / close ("every descriptor the library opened is closed ...", "leaks nothing");
 *   - heap: blocks owned by the object are released exactly once (--memory-leak-check + cbmc's free checks).
 * PLAIN harnesses (see C06.url_done).  url class calls = ownership models of the url contracts proved in
 * C05.url_dup / C06.url_del: dup returns a new block, del releases it.
 *
 * All tier P: init, new, init_from_urls, new_from_urls, dup, recv are loop-free; close, done, del run through the
 * EINTR retry of spif_socket_close, a do-while closed by a loop contract (annot/socket.c.net.ann; applied by
 * `prepass: --apply-loop-contracts`, plain harness otherwise): the descriptor is released by the first close(),
 * a second iteration can only see EBADF, termination measure 2/1/0.
 * Native replay (native: self): the same harness and the same ghost kernel compiled natively against the real
 * socket.c, inputs and the schedule of kernel answers (decision tape) taken from the verifier's witness.
 */
/*@unit
name: init
define: NET_KERNEL, NET_TAPE, U_INIT
native: self
src: socket.c
backend: sat
flags: --memory-leak-check
funcs: spif_socket_init, spif_socket_new
*/
/*@unit
name: init_from_urls
define: NET_KERNEL, NET_TAPE, U_FROM_URLS
native: self
src: socket.c
backend: sat
flags: --memory-leak-check
funcs: spif_socket_init_from_urls, spif_socket_new_from_urls
*/
/*@unit
name: dup
define: NET_KERNEL, NET_TAPE, U_DUP
native: self
src: socket.c
backend: sat
flags: --memory-leak-check
funcs: spif_socket_dup, spif_socket_new, spif_socket_init
*/
/*@unit
name: recv
define: NET_KERNEL, NET_TAPE, U_RECV
native: self
src: socket.c
backend: sat
funcs: spif_socket_recv
*/
/*@unit
name: close
define: NET_KERNEL, NET_TAPE, U_CLOSE
native: self
src: socket.c
prepass: --dfcc harness --apply-loop-contracts --no-malloc-may-fail
backend: sat
checks_off: --conversion-check
funcs: spif_socket_close
*/
/*@unit
name: done
define: NET_KERNEL, NET_TAPE, U_DONE
native: self
src: socket.c
prepass: --dfcc harness --apply-loop-contracts --no-malloc-may-fail
backend: sat
checks_off: --conversion-check
flags: --memory-leak-check
funcs: spif_socket_done, spif_socket_close
*/
/*@unit
name: del
define: NET_KERNEL, NET_TAPE, U_DEL
native: self
src: socket.c
prepass: --dfcc harness --apply-loop-contracts --no-malloc-may-fail
backend: sat
checks_off: --conversion-check
flags: --memory-leak-check
funcs: spif_socket_del, spif_socket_done, spif_socket_close
*/
#include "vprelude.h"
#include "env_net.h"
#include "socket.h"

/* ---- ownership models of the url class (contracts: C05.url_dup, C06.url_del) and of the fd reader ---- */
/* (native replay: the models get private names so that the linked url.c / str.c / obj.c keep theirs) */
#ifdef VERIF_NATIVE
# define spif_url_dup vg_m_url_dup
# define spif_url_del vg_m_url_del
# define spif_str_new_from_fd vg_m_str_new_from_fd
#endif
unsigned vg_url_dups, vg_url_dels;
spif_url_t spif_url_dup(spif_url_t self)
{
    __CPROVER_assert(self != NULL && __CPROVER_r_ok(self, sizeof(spif_const_url_t)), "requires of spif_url_dup: a live URL object");
    vg_url_dups++;
    return (spif_url_t) malloc(sizeof(spif_const_url_t));
}
spif_bool_t spif_url_del(spif_url_t self)
{
    __CPROVER_assert(self != NULL, "requires of spif_url_del: a URL object");
    vg_url_dels++;
    free(self);
    return TRUE;
}
#ifndef VERIF_NATIVE
/* obj.c:386, written out */
spif_bool_t spif_obj_set_class(spif_obj_t self, spif_class_t cls) { self->cls = cls; return TRUE; }
#endif
int w_recv_fd; unsigned vg_recv_calls; spif_str_t w_recv_result;
spif_str_t spif_str_new_from_fd(int fd) { vg_recv_calls++; w_recv_fd = fd; return w_recv_result; }

#ifdef VERIF_NATIVE
# include "rawsrc/socket.c"   /* native replay: the untouched copy */
#else
# include "src/socket.c"      /* annotated copy: the loop contract of spif_socket_close is applied by `prepass:` */
#endif

/* any ghost descriptor table; any socket object satisfying SOCK_INV */
/* inputs are taken in harness() through VND (native replay reads them from the witness); written out, no loops */
#define ANY_TABLE() do { vg_fd_open[0] = VND(bool, open0); vg_fd_open[1] = VND(bool, open1); vg_fd_open[2] = VND(bool, open2); vg_fd_open[3] = VND(bool, open3); \
    vg_fd_open[4] = VND(bool, open4); vg_fd_open[5] = VND(bool, open5); vg_fd_open[6] = VND(bool, open6); vg_fd_open[7] = VND(bool, open7); } while (0)
static spif_socket_t mk_socket(int fd, int fam, int type, int proto, unsigned flags, unsigned len, _Bool has_addr, _Bool has_l, _Bool has_r)
{
    spif_socket_t s = malloc(sizeof(spif_const_socket_t));
    SPIF_CLASS_VAR(socket) = &s_class;
    s->parent.cls = SPIF_CLASS_VAR(socket);
    s->fd = fd; s->fam = fam; s->type = type; s->proto = proto; s->flags = flags; s->len = len;
    __CPROVER_assume(SOCK_FD_OK(s) && s->fd >= -1 && s->len <= sizeof(struct sockaddr_un));
    s->addr = has_addr ? malloc(s->len) : NULL;
    if (s->addr) memset(s->addr, 0, s->len);
    s->local_url = has_l ? malloc(sizeof(spif_const_url_t)) : NULL;
    s->remote_url = has_r ? malloc(sizeof(spif_const_url_t)) : NULL;
    return s;
}
#define ANY_SOCKET() mk_socket(VND(int, s_fd), VND(int, s_fam), VND(int, s_type), VND(int, s_proto), VND(uint, s_flags), VND(uint, s_len), \
                               VND(bool, s_has_addr), VND(bool, s_has_lurl), VND(bool, s_has_rurl))
static void drop_socket_parts(spif_socket_t s) { free(s->addr); free(s->local_url); free(s->remote_url); }
#define SLOT_KEPT(before) (vg_k >= VG_NFD || vg_fd_open[vg_k] == (before))

void harness(void)
{
    _Bool slot_before;
    libast_debug_level = VND(uint, debug_level);          /* every run-time debug level (globals start at 0 in a plain harness) */
    ANY_TABLE();
    VG_TAPE_FILL();
    vg_k = VND(size_t, k);
    __CPROVER_assume(vg_k < VG_NFD);
    slot_before = vg_fd_open[vg_k];
#if defined(U_INIT)
    {
        spif_socket_t s = malloc(sizeof(spif_const_socket_t)), t;
        spif_bool_t r = spif_socket_init(s);
        __CPROVER_assert(r == TRUE && s->fd == -1 && s->addr == NULL && s->len == 0 && s->flags == 0 &&
                         s->local_url == NULL && s->remote_url == NULL, "init: no descriptor, no address, no URLs");
        __CPROVER_assert(s->parent.cls == SPIF_CLASS_VAR(socket), "init: class is socket");
        t = spif_socket_new();
        __CPROVER_assert(t != NULL && t != s && t->fd == -1 && t->addr == NULL && t->local_url == NULL && t->remote_url == NULL,
                         "new: a distinct object in the initial state");
        __CPROVER_assert(SLOT_KEPT(slot_before), "init/new open and close nothing");
        VERIF_CANARY();
        free(s); free(t);
    }
#elif defined(U_FROM_URLS)
    {
        spif_url_t su = VND(bool, has_su) ? malloc(sizeof(spif_const_url_t)) : NULL;
        spif_url_t du = VND(bool, has_du) ? malloc(sizeof(spif_const_url_t)) : NULL;
        spif_socket_t s;
        vg_url_dups = 0;
        s = spif_socket_new_from_urls(su, du);
        __CPROVER_assert(s != NULL && s->fd == -1 && s->addr == NULL && s->len == 0, "new_from_urls: no descriptor, no address yet");
        __CPROVER_assert((s->local_url != NULL) == (su != NULL) && (s->remote_url != NULL) == (du != NULL),
                         "new_from_urls: a URL is stored iff one was given");
        __CPROVER_assert((su == NULL || s->local_url != su) && (du == NULL || s->remote_url != du) &&
                         vg_url_dups == (su != NULL) + (du != NULL), "new_from_urls: the object holds COPIES of the caller's URLs");
        __CPROVER_assert(SLOT_KEPT(slot_before), "new_from_urls opens and closes nothing");
        VERIF_CANARY();
        free(su); free(du); drop_socket_parts(s); free(s);
    }
#elif defined(U_DUP)
    {
        spif_socket_t s = ANY_SOCKET(), t;
        int fd0 = s->fd;
        t = spif_socket_dup(s);
        __CPROVER_assert(t != NULL && t != s, "dup: a distinct object");
        __CPROVER_assert(s->fd == fd0 && SOCK_FD_OK(s), "dup: the original keeps its descriptor");
        __CPROVER_assert(SOCK_FD_OK(t) && (t->fd < 0 || t->fd != s->fd), "dup: the copy owns no descriptor or an open one of its own");
        __CPROVER_assert(s->fd >= 0 || t->fd < 0, "dup: no descriptor is invented for a closed socket");
        __CPROVER_assert((int) vg_k == t->fd || SLOT_KEPT(slot_before), "dup: no descriptor slot changes except the copy's new one");
        __CPROVER_assert((t->addr != NULL) == (s->addr != NULL) && (t->addr == NULL || t->addr != s->addr) && t->len == s->len,
                         "dup: the address block is copied, not shared");
        __CPROVER_assert((t->local_url != NULL) == (s->local_url != NULL) && (t->local_url == NULL || t->local_url != s->local_url) &&
                         (t->remote_url != NULL) == (s->remote_url != NULL) && (t->remote_url == NULL || t->remote_url != s->remote_url),
                         "dup: the URLs are copied, not shared");
        __CPROVER_assert(t->fam == s->fam && t->type == s->type && t->proto == s->proto && t->flags == s->flags, "dup: settings equal");
        VERIF_CANARY();
        drop_socket_parts(s); free(s); drop_socket_parts(t); free(t);
    }
#elif defined(U_RECV)
    {
        spif_socket_t s = ANY_SOCKET();
        spif_const_socket_t before = *s;
        spif_str_t r;
        vg_recv_calls = 0; w_recv_result = (spif_str_t) &w_recv_fd;          /* some pointer value: only its identity matters */
        r = spif_socket_recv(s);
        __CPROVER_assert(vg_recv_calls == 1 && w_recv_fd == before.fd && r == w_recv_result,
                         "recv: one spif_str_new_from_fd on the socket's descriptor, its result handed on");
        __CPROVER_assert(s->fd == before.fd && s->flags == before.flags && s->addr == before.addr, "recv: the socket object is unchanged");
        __CPROVER_assert(SLOT_KEPT(slot_before), "recv opens and closes nothing");
        VERIF_CANARY();
    }
#elif defined(U_CLOSE)
    {
        spif_socket_t s = ANY_SOCKET();
        int fd0 = s->fd;
        spif_bool_t r;
        __CPROVER_assume(fd0 >= 0);
        r = spif_socket_close(s);
        __CPROVER_assert(r == TRUE || r == FALSE, "close: boolean result");
        __CPROVER_assert(s->fd == -1 && !vg_fd_open[fd0], "close: the descriptor is released and forgotten, whatever close() answered");
        __CPROVER_assert((int) vg_k == fd0 || SLOT_KEPT(slot_before), "close: no other descriptor slot changes");
        __CPROVER_assert((s->flags & SPIF_SOCKET_FLAGS_IOSTATE) == 0, "close: I/O state flags cleared");
        VERIF_CANARY();
    }
#elif defined(U_DONE) || defined(U_DEL)
    {
        spif_socket_t s = ANY_SOCKET();
        int fd0 = s->fd;
        unsigned urls = (s->local_url != NULL) + (s->remote_url != NULL);
        spif_bool_t r;
        vg_url_dels = 0;
# ifdef U_DONE
        r = spif_socket_done(s);
        __CPROVER_assert(s->fd == -1 && s->addr == NULL && s->len == 0 && s->flags == 0 && s->local_url == NULL && s->remote_url == NULL,
                         "done: reusable initial state");
# else
        r = spif_socket_del(s);
# endif
        __CPROVER_assert(r == TRUE, "done/del returns TRUE");
        __CPROVER_assert(fd0 < 0 || !vg_fd_open[fd0], "done/del: the object's descriptor is released");
        __CPROVER_assert((int) vg_k == fd0 || SLOT_KEPT(slot_before), "done/del: no other descriptor slot changes");
        __CPROVER_assert(vg_url_dels == urls, "done/del: each URL the object held is deleted once");
        VERIF_CANARY();
# ifdef U_DONE
        free(s);
# endif
    }
#endif
}
