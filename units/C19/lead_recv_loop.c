/* C19 (receiver): spif_str_init_from_fd returns exactly the bytes the descriptor delivered, in order, however
 * the kernel splits the transfer: short reads, EINTR between reads, then end of input or a hard error.
 * Added by the lead after seed C19-s4 (loop stops at the first short read), which neither the C01 reader
 * units (one outcome each) nor the C19 recv wrapper unit saw.
 * Bounded plain run on the real str.c + obj.c: a scripted read() gives up to 3 answers, each one of
 * {1..2 bytes (short read), -1/EINTR, 0 (end of input), -1/EIO}; after the script the input has ended.
 * Bytes are symbolic; realloc is env.h's single-ghost-element over-approximation (cbmc's own model exhausts 8 GB
 * on the 4096-byte chunks), so the text is compared at the arbitrary ghost position vg_k.  Obligation: len == number of bytes delivered before the first 0 / hard error,
 * text[k] == k-th delivered byte, NUL at len, size > len.  Native replay from the same file. */
/*@unit
name: recv.loop_script
src: str.c, obj.c
funcs: spif_str_init_from_fd, spif_str_new_from_fd
tier: B
bound: at most 3 read() answers of 1..2 bytes / EINTR / EOF / EIO, then end of input
unwind: 6
define: VERIF_REALLOC_ELEM_T=spif_char_t
backend: cadical
timeout: 250
native: self
*/
#include "vprelude.h"
#include <errno.h>
#include <unistd.h>

#define NANS 3
static int v_kind[NANS];            /* 1..3 = that many bytes, 0 = EOF, -1 = EINTR, -2 = EIO */
static unsigned char v_byte[NANS][3];
static int v_pos;                   /* answers consumed */
static int v_err;
int *__errno_location(void) { return &v_err; }

ssize_t read(int fd, void *buf, size_t cnt)
{
    int k;
    if (v_pos >= NANS) return 0;                      /* script exhausted: end of input */
    k = v_kind[v_pos];
    if (k >= 1) {
        int i;
        __CPROVER_assert(cnt >= (size_t) k, "read: room for the bytes delivered");
        for (i = 0; i < k; i++) ((unsigned char *) buf)[i] = v_byte[v_pos][i];
        v_pos++;
        return k;
    }
    v_pos++;
    if (k == 0) return 0;
    v_err = (k == -1) ? EINTR : EIO;
    return -1;
}

#include "rawsrc/obj.c"
#include "rawsrc/str.c"

#define ENS(c) __CPROVER_assert((c), "C19 recv: " #c)

void harness(void)
{
    unsigned char want[NANS * 3];
    int n = 0, i, j, ended = 0;
    spif_str_t s;
    libast_debug_level = 0;
    v_kind[0] = VND(int, k0); v_kind[1] = VND(int, k1); v_kind[2] = VND(int, k2);
    v_byte[0][0] = VND(uchar, b00); v_byte[0][1] = VND(uchar, b01); v_byte[0][2] = VND(uchar, b02);
    v_byte[1][0] = VND(uchar, b10); v_byte[1][1] = VND(uchar, b11); v_byte[1][2] = VND(uchar, b12);
    v_byte[2][0] = VND(uchar, b20); v_byte[2][1] = VND(uchar, b21); v_byte[2][2] = VND(uchar, b22);
    for (i = 0; i < NANS; i++) {
        __CPROVER_assume(v_kind[i] >= -2 && v_kind[i] <= 2);
        for (j = 0; j < 3; j++) __CPROVER_assume(v_byte[i][j] != 0);     /* payload bytes: every value except NUL */
    }
    /* the ideal receiver: everything delivered before the first end-of-input or hard error */
    for (i = 0; i < NANS && !ended; i++) {
        if (v_kind[i] >= 1) { for (j = 0; j < v_kind[i]; j++) want[n++] = v_byte[i][j]; }
        else if (v_kind[i] != -1) ended = 1;
    }
    vg_k = VND(size_t, vg_k); __CPROVER_assume(vg_k < NANS * 3);
    v_pos = 0; v_err = VND(int, e0);                  /* stale errno from before the call must not matter */
    s = spif_str_new_from_fd(3);
    ENS(s != NULL);
    ENS(s->len == n);
    ENS(s->size > s->len && s->s[s->len] == 0);
    ENS(vg_k >= (size_t) n || ((unsigned char *) s->s)[vg_k] == want[vg_k]);
    spif_str_del(s);
    VERIF_CANARY();
}
