/* C09 (+ C11 spawn freedom): spifconf_parse_line delivers one line to the innermost open context.
 * Contract: contracts/conf.h (VERIF_CT_PARSE_LINE), written from the property statement by line class.
 * Stated substitutions (contracts/env_conf.h sections 5b, 6):
 *   - handlers: the call through context[id].handler is re-bound to the verification handler `vhandler` (6a);
 *   - ctx_name_to_id: re-bound to the function v_ctx_lookup (6b), proved here as C09.ctx_lookup (loop contract) and
 *     compared with the real macro in C09.lookup_equiv; the parse_line units use its contract as a model function;
 *   - ctx_push / file_push: re-bound to model functions of the register_* contracts proved in C09.register_* (6c);
 *   - spifconf_shell_expand / spifconf_open_file: bound by the --replace-calls pre-pass to model functions with the
 *     text of their contracts (shell_expand: declared, owner C10; open_file: proved in C11.open_file);
 *   - chomp / get_word / get_pword / temp_file: model functions with the text of their declared contracts.
 *   (Each call replaced by DFCC itself costs nine arrays indexed by object number; with the dozen call sites of this
 *   function the SAT instance had 20M variables.  The enforced function itself is checked by DFCC in full.)
 * Two units, split on the first character of the chomped line (their union is every line of the file mode):
 *   parse_line            the text does not start with '%'  (comment, begin, end, text, skipped)
 *   parse_line_directive  the text starts with '%'           (%include, %preproc, other directives, a lone '%')
 * Same SAT instance size, but each half is decided in roughly half the time and the two run in parallel.  The two behaviours that had their own (failing) units while
 * the defects were open — a second %preproc in a preprocessed file (C09-preproc-shadow-fp, fixed 4b67cd0) and a '%'
 * without a directive word (C11-bare-percent, fixed 9caaf35) — are ordinary paths of parse_line_directive now: the get_pword
 * model may return NULL whenever the text does not start with a plain character, and no clause is excused.
 * Run time: 3-7 minutes each (4M SAT variables). */

/*@unit
name: ctx_lookup
define: U_LOOKUP, VERIF_CONF_ANNOT, VERIF_OWN_STRCMP, VERIF_OWN_STRCHR, VERIF_CONF_REBIND
src: conf.c
enforce: v_ctx_lookup
backend: sat
loops: 1
timeout: 200
native: conf_replay
native_includes: conf.c
*/
/*@unit
name: parse_line
define: U_PARSE_LINE, U_PL_NOT_DIRECTIVE, VERIF_CONF_ANNOT, VERIF_OWN_STRCMP, VERIF_OWN_STRCHR, VERIF_CONF_REBIND, VERIF_LOOKUP_MODEL, VERIF_CONF_PUSH_MODELS, VERIF_CONF_CALL_MODELS
src: conf.c
enforce: spifconf_parse_line
prepass: --replace-calls spifconf_shell_expand:v_m_shell_expand --replace-calls spifconf_open_file:v_m_open_file
backend: sat
timeout: 1800
funcs: v_ctx_lookup, spifconf_register_context_state, spifconf_register_fstate
native: conf_replay
native_includes: conf.c
*/
/*@unit
name: parse_line_directive
define: U_PARSE_LINE, U_PL_DIRECTIVE, VERIF_CONF_ANNOT, VERIF_OWN_STRCMP, VERIF_OWN_STRCHR, VERIF_CONF_REBIND, VERIF_LOOKUP_MODEL, VERIF_CONF_PUSH_MODELS, VERIF_CONF_CALL_MODELS
src: conf.c
enforce: spifconf_parse_line
prepass: --replace-calls spifconf_shell_expand:v_m_shell_expand --replace-calls spifconf_open_file:v_m_open_file
backend: sat
timeout: 1800
funcs: v_ctx_lookup, spifconf_register_context_state, spifconf_register_fstate
native: conf_replay
native_includes: conf.c
*/
#include "vprelude.h"
#include "env_conf.h"
#include "src/conf.c"
#define VERIF_CT_REGISTER
#define VERIF_CT_CALLEES
#define VERIF_CT_LOOKUP
#define VERIF_CT_OPEN_FILE
#define VERIF_CT_PARSE_LINE
#include "conf.h"

#ifdef U_LOOKUP
void harness(void)
{
    spif_charptr_t n;
    v_ctx_lookup(n);
    VERIF_CANARY();
}
#endif

#ifdef U_PARSE_LINE
int w_c0, w_c1;
void harness(void)
{
    static FILE vf;             /* file mode: a constant non-NULL stream (constant propagation prunes the argv-mode branches) */
    spif_charptr_t buff;
    spifconf_parse_line(&vf, buff);
    VERIF_CANARY();
}
#endif
