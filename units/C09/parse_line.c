/* C09 (+ C11 spawn freedom): spifconf_parse_line delivers one line to the innermost open context.
 * Contract: contracts/conf.h (VERIF_CT_PARSE_LINE).  Handlers: re-bound to vhandler (env_conf.h 6a);
 * ctx_name_to_id: re-bound to v_ctx_lookup (env_conf.h 6b), proved here as C09.ctx_lookup. */

/*@unit
name: ctx_lookup
define: U_LOOKUP, VERIF_CONF_ANNOT, VERIF_OWN_STRCMP, VERIF_OWN_STRCHR, VERIF_CONF_REBIND
src: conf.c
enforce: v_ctx_lookup
backend: sat
loops: 1
timeout: 200
*/
/*@unit
name: parse_line
define: U_PARSE_LINE, VERIF_PWORD1_PRESENT, VERIF_CONF_ANNOT, VERIF_OWN_STRCMP, VERIF_OWN_STRCHR, VERIF_CONF_REBIND, VERIF_LOOKUP_MODEL, VERIF_CONF_PUSH_MODELS, VERIF_CONF_CALL_MODELS
src: conf.c
enforce: spifconf_parse_line
prepass: --replace-calls spifconf_shell_expand:v_m_shell_expand --replace-calls spifconf_open_file:v_m_open_file
backend: sat
timeout: 1800
funcs: v_ctx_lookup, spifconf_register_context_state, spifconf_register_fstate
*/
/*@unit
name: parse_line_preproc_again
define: U_PARSE_LINE, U_PL_EXC, VERIF_PWORD1_PRESENT, VERIF_CONF_ANNOT, VERIF_OWN_STRCMP, VERIF_OWN_STRCHR, VERIF_CONF_REBIND, VERIF_LOOKUP_MODEL, VERIF_CONF_PUSH_MODELS, VERIF_CONF_CALL_MODELS
src: conf.c
enforce: spifconf_parse_line
prepass: --replace-calls spifconf_shell_expand:v_m_shell_expand --replace-calls spifconf_open_file:v_m_open_file
backend: sat
timeout: 1800
quick: no
*/
/*@unit
name: parse_line_bare_pct
define: U_PARSE_LINE, U_PL_BARE_PCT, VERIF_PWORD1_ABSENT, VERIF_CONF_ANNOT, VERIF_OWN_STRCMP, VERIF_OWN_STRCHR, VERIF_CONF_REBIND, VERIF_LOOKUP_MODEL, VERIF_CONF_PUSH_MODELS, VERIF_CONF_CALL_MODELS
src: conf.c
enforce: spifconf_parse_line
prepass: --replace-calls spifconf_shell_expand:v_m_shell_expand --replace-calls spifconf_open_file:v_m_open_file
backend: sat
timeout: 1800
quick: no
*/
#include "vprelude.h"
#include "env_conf.h"
#include "src/conf.c"
#define VERIF_CT_REGISTER
#define VERIF_CT_CALLEES
#define VERIF_CT_LOOKUP
#define VERIF_CT_OPEN_FILE
#define VERIF_CT_PARSE_LINE
#include "conf.h"

#ifdef U_LOOKUP
void harness(void)
{
    spif_charptr_t n;
    v_ctx_lookup(n);
    VERIF_CANARY();
}
#endif

#ifdef U_PARSE_LINE
int w_c0, w_c1;
void harness(void)
{
    static FILE vf;             /* file mode: a constant non-NULL stream (constant propagation prunes the argv-mode branches) */
    spif_charptr_t buff;
    spifconf_parse_line(&vf, buff);
    VERIF_CANARY();
}
#endif
