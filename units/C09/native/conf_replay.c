/* Native replay for the C09 parse_line / parse units: a differential sweep on the REAL code (conf.c is included,
 * ASan/UBSan judge memory safety).  Every config file made of up to 4 lines from a small alphabet of line kinds
 * (comment, blank, begin a / begin b / begin UNKNOWN, end, text with surrounding blanks, lone '%', %include) plus a
 * few long cases (nesting depth 255 across every capacity doubling, an over-long line, a missing final newline) is
 * parsed by spifconf_parse() with logging handlers registered for "null", "a" and "b"; every handler call returns a
 * fresh token, so state-threading errors show up as differing numbers.  The expected log is computed by an
 * independent reference model written from the property statement.  Exit 3 = a log differs / a stack is not back
 * where it started; exit 0 = property observed on the whole sweep.  The witness is not needed (the sweep is total
 * for its alphabet), so the same template serves every C09 unit about line delivery. */
#include <libast_internal.h>
#include "vnative.h"
#include "conf.c"
#include <unistd.h>

typedef struct { char ctx; char kind; char text[64]; long in; } ev_t;
#define MAXEV 2048
static ev_t got[MAXEV], want[MAXEV];
static int ngot, nwant;
static long token;

static void *logcall(char ctx, spif_charptr_t buff, void *state)
{
    if (ngot < MAXEV) {
        ev_t *e = &got[ngot];
        e->ctx = ctx;
        e->kind = (*buff == SPIFCONF_BEGIN_CHAR) ? 'B' : ((*buff == SPIFCONF_END_CHAR) ? 'E' : 'T');
        snprintf(e->text, sizeof(e->text), "%s", e->kind == 'T' ? (char *) buff : "");
        e->in = (long) state;
    }
    ngot++;
    return (void *) ++token;
}
static void *h_null(spif_charptr_t b, void *s) { return logcall('n', b, s); }
static void *h_a(spif_charptr_t b, void *s) { return logcall('a', b, s); }
static void *h_b(spif_charptr_t b, void *s) { return logcall('b', b, s); }

/* ---- reference model -------------------------------------------------------------------------------- */
static struct { char ctx; long state; } rstk[600];
static int rdepth;
static long rtoken;
static void want_ev(char ctx, char kind, const char *text, long in)
{
    if (nwant < MAXEV) { want[nwant].ctx = ctx; want[nwant].kind = kind; snprintf(want[nwant].text, sizeof(want[nwant].text), "%s", text); want[nwant].in = in; }
    nwant++;
}
static const char *inc_lines[] = { "begin b", "y 2", "end", NULL };
static void ref_line(const char *raw, int in_include);
static void ref_file(const char **lines, int in_include) { int i; for (i = 0; lines[i]; i++) ref_line(lines[i], in_include); }
static void ref_line(const char *raw, int in_include)
{
    char t[256];
    size_t n;
    while (*raw == ' ' || *raw == '\t') raw++;
    snprintf(t, sizeof(t), "%s", raw);
    n = strlen(t);
    while (n && (t[n - 1] == ' ' || t[n - 1] == '\t')) t[--n] = 0;
    if (!n || t[0] == '#' || (raw == t + 0 && 0)) return;
    if (t[0] == '%') {
        if (!in_include && !strncmp(t, "%include ", 9)) ref_file(inc_lines, 1);
        return;
    }
    if (!strncmp(t, "begin ", 6)) {
        const char *name = t + 6;
        char ctx = !strcasecmp(name, "a") ? 'a' : (!strcasecmp(name, "b") ? 'b' : 'n');
        want_ev(ctx, 'B', "", rstk[rdepth].state);
        rdepth++;
        rstk[rdepth].ctx = ctx;
        rstk[rdepth].state = ++rtoken;
        return;
    }
    if (!strcmp(t, "end") || !strncmp(t, "end ", 4)) {
        if (rdepth > 0) {
            want_ev(rstk[rdepth].ctx, 'E', "", rstk[rdepth].state);
            rdepth--;
            rstk[rdepth].state = ++rtoken;
        }
        return;
    }
    want_ev(rstk[rdepth].ctx, 'T', t, rstk[rdepth].state);
    rstk[rdepth].state = ++rtoken;
}

/* ---- one experiment --------------------------------------------------------------------------------- */
static const char *cfg = "/tmp/verif_conf_replay.cfg", *inc = "/tmp/verif_conf_replay_inc.cfg";
static int run_case(const char **lines, int nlines, int final_newline, const char *what)
{
    FILE *f = fopen(cfg, "w");
    int i, balance = 0, bad = 0;
    spif_charptr_t r;

    fprintf(f, "<verif-0>\n");
    for (i = 0; i < nlines; i++) fprintf(f, "%s%s", lines[i], (i + 1 < nlines || final_newline) ? "\n" : "");
    fclose(f);

    ngot = nwant = 0; token = rtoken = 0; rdepth = 0; rstk[0].ctx = 'n'; rstk[0].state = 0;
    for (i = 0; i < nlines; i++) {
        if (i + 1 == nlines && !final_newline) break;           /* an unterminated last line is not a complete line */
        if (strlen(lines[i]) >= CONFIG_BUFF - 1) continue;       /* over-long lines are skipped whole */
        if (lines[i][0] == '#' || lines[i][0] == '<' || lines[i][0] == 0) continue;
        ref_line(lines[i], 0);
    }
    balance = rdepth;

    spifconf_init_subsystem();
    spifconf_register_context((spif_charptr_t) "null", h_null);
    spifconf_register_context((spif_charptr_t) "a", h_a);
    spifconf_register_context((spif_charptr_t) "b", h_b);
    r = spifconf_parse((spif_charptr_t) cfg, NULL, NULL);
    if (!r) { fprintf(stderr, "NATIVE-REPLAY: %s: spifconf_parse returned NULL\n", what); bad = 1; }
    free(r);
    if (fstate_idx != 0) { fprintf(stderr, "NATIVE-REPLAY: %s: fstate_idx == %u after spifconf_parse\n", what, (unsigned) fstate_idx); bad = 1; }
    if (ctx_state_idx != balance) { fprintf(stderr, "NATIVE-REPLAY: %s: context depth %u, expected %d\n", what, (unsigned) ctx_state_idx, balance); bad = 1; }
    if (ngot != nwant) { fprintf(stderr, "NATIVE-REPLAY: %s: %d handler calls, expected %d\n", what, ngot, nwant); bad = 1; }
    for (i = 0; i < ngot && i < nwant && i < MAXEV && !bad; i++) {
        if (got[i].ctx != want[i].ctx || got[i].kind != want[i].kind || got[i].in != want[i].in || strcmp(got[i].text, want[i].text)) {
            fprintf(stderr, "NATIVE-REPLAY: %s: call %d is  %c %c \"%s\" <- %ld,  expected  %c %c \"%s\" <- %ld\n", what, i,
                    got[i].ctx, got[i].kind, got[i].text, got[i].in, want[i].ctx, want[i].kind, want[i].text, want[i].in);
            bad = 1;
        }
    }
    spifconf_free_subsystem();
    return bad;
}

int main(void)
{
    static const char *alpha[] = { "# c", "", "begin a", "begin B", "begin zz", "end", "  x 1  ", "%", "%include /tmp/verif_conf_replay_inc.cfg" };
    enum { NA = sizeof(alpha) / sizeof(alpha[0]) };
    const char *lines[600];
    static char longline[CONFIG_BUFF + 100], name[64];
    int len, idx[4], i, bad = 0;
    FILE *f = fopen(inc, "w");

    fprintf(f, "<verif-0>\n"); for (i = 0; inc_lines[i]; i++) fprintf(f, "%s\n", inc_lines[i]); fclose(f);
    libast_program_name = (spif_charptr_t) "verif"; libast_program_version = (spif_charptr_t) "0";

    for (len = 0; len <= 4 && !bad; len++) {
        int total = 1, c;
        for (i = 0; i < len; i++) total *= NA;
        for (c = 0; c < total && !bad; c++) {
            int v = c;
            for (i = 0; i < len; i++) { idx[i] = v % NA; v /= NA; lines[i] = alpha[idx[i]]; }
            snprintf(name, sizeof(name), "case len=%d #%d", len, c);
            bad |= run_case(lines, len, 1, name);
        }
    }
    /* nesting depth 255 (all an 8-bit index can count): across every doubling of the context-state stack
     * (20, 40, 80, 160), then unwound */
    for (i = 0; i < 255; i++) lines[i] = (i % 3 == 0) ? "begin a" : ((i % 3 == 1) ? "begin b" : "begin nope");
    lines[255] = "deep 1";
    for (i = 0; i < 255; i++) lines[256 + i] = "end";
    lines[511] = "end"; lines[512] = "after 2";                  /* one surplus end, then a line in the null context */
    bad |= run_case(lines, 513, 1, "depth 255");
    /* an over-long line between two ordinary lines; a last line without newline */
    memset(longline, 'z', CONFIG_BUFF + 50); longline[CONFIG_BUFF + 50] = 0;
    lines[0] = "begin a"; lines[1] = longline; lines[2] = "x 1"; lines[3] = "end";
    bad |= run_case(lines, 4, 1, "over-long line");
    lines[0] = "begin a"; lines[1] = "x 1"; lines[2] = "end"; lines[3] = "tail";
    bad |= run_case(lines, 4, 0, "missing final newline");
    unlink(cfg); unlink(inc);
    if (bad) return 3;
    fprintf(stderr, "NATIVE-REPLAY: C09 sweep passed\n");
    return 0;
}
