/* Native replay of the C09 register_* units: rebuild the pre-state (index w_idx, capacity w_cnt, a table of
 * exactly w_cnt entries) from the verifier's witness, call the REAL function (conf.c is included, so the
 * file-local state is reachable), let ASan judge memory safety and re-evaluate "index < capacity". */
#include <libast_internal.h>
#include "vnative.h"
#include "conf.c"
static void *h(spif_charptr_t b, void *s) { return s; }
int main(void)
{
    long idx = vn_get("w_idx", 0), cnt = vn_get("w_cnt", 1);
    if (cnt < 1 || idx < 0 || idx >= cnt || idx >= 255 || cnt > 512) { fprintf(stderr, "NATIVE-REPLAY: witness outside the precondition\n"); return 0; }
    spifconf_init_subsystem();
#if defined(U_CTX_STATE)
    free(ctx_state); ctx_state = calloc(cnt, sizeof(ctx_state_t)); ctx_state_cnt = cnt; ctx_state_idx = idx;
    spifconf_register_context_state(0);
    if (!(ctx_state_idx < ctx_state_cnt)) { fprintf(stderr, "NATIVE-REPLAY: index %d not below capacity %u\n", ctx_state_idx, (unsigned) ctx_state_cnt); return 3; }
#elif defined(U_FSTATE)
    free(fstate); fstate = calloc(cnt, sizeof(fstate_t)); fstate_cnt = cnt; fstate_idx = idx;
    spifconf_register_fstate(stdin, SPIF_CHARPTR("p"), NULL, 1, 0);
    if (!(fstate_idx < fstate_cnt)) { fprintf(stderr, "NATIVE-REPLAY: index not below capacity\n"); return 3; }
#elif defined(U_CONTEXT)
    { long i; for (i = 1; i <= ctx_idx; i++) free(context[i].name); }
    { spif_charptr_t n0 = context[0].name; free(context); context = calloc(cnt, sizeof(ctx_t)); context[0].name = n0; context[0].handler = h; }
    ctx_cnt = cnt; ctx_idx = idx;
    spifconf_register_context(SPIF_CHARPTR("x"), h);
    if (!(ctx_idx < ctx_cnt)) { fprintf(stderr, "NATIVE-REPLAY: index not below capacity\n"); return 3; }
#elif defined(U_BUILTIN)
    { long i; for (i = 0; i < builtin_idx; i++) free(builtins[i].name); }
    free(builtins); builtins = calloc(cnt, sizeof(spifconf_func_t)); builtin_cnt = cnt; builtin_idx = idx;
    spifconf_register_builtin("x", NULL);
    if (!(builtin_idx < builtin_cnt)) { fprintf(stderr, "NATIVE-REPLAY: index not below capacity\n"); return 3; }
#endif
    return 0;
}
