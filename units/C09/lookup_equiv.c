/* C09: the substitution of env_conf.h 6b is faithful — the function v_ctx_lookup (proved against its contract in
 * C09.ctx_lookup and used by the parse_line units in place of the macro) computes what the REAL macro
 * ctx_name_to_id of include/libast_internal.h computes.  Bounded comparison: both are run on the same context
 * table and name with the same (exact) strcasecmp; the ids and loop-exit indices must agree.  This is also what
 * makes a mutation of the macro text visible to this framework (the other units do not compile the macro).
 * Tier B: <= 3 registered contexts, names and the looked-up name <= 3 characters. */

/*@unit
name: lookup_equiv
define: VERIF_OWN_STRCMP, VERIF_OWN_STRCHR, VERIF_LOOKUP_EXACT
src: conf.c
backend: sat
tier: B
bound: <= 3 registered contexts, context names and the looked-up name <= 3 characters
unwind: 6
timeout: 200
funcs: v_ctx_lookup
native: conf_replay
native_includes: conf.c
*/
#include "vprelude.h"
#include "env_conf.h"
#include "src/conf.c"
static unsigned long v_ctx_lookup(spif_charptr_t n);
#define VERIF_CT_LOOKUP
#include "conf.h"

/* the real macro, untouched (VERIF_CONF_REBIND is not defined in this unit) */
static unsigned char real_lookup(spif_charptr_t n, unsigned long *pi)
{
    unsigned char the_id = 0xEE;
    unsigned long i;
    ctx_name_to_id(the_id, n, i);
    *pi = i;
    return the_id;
}
static spif_charptr_t v_name(void)
{
    spif_charptr_t s = (spif_charptr_t) malloc(4);
    s[0] = nondet_char(); s[1] = nondet_char(); s[2] = nondet_char(); s[3] = 0;
    return s;
}
void harness(void)
{
    unsigned long i_real, i_subst;
    unsigned char id_real;
    spif_charptr_t n = v_name();
    unsigned char k = nondet_uchar();
    __CPROVER_assume(k <= 2);
    ctx_cnt = 20; ctx_idx = k;
    context = (ctx_t *) malloc(sizeof(ctx_t) * 20);
    context[0].name = v_name(); context[1].name = v_name(); context[2].name = v_name();
    fstate_cnt = 10; fstate_idx = 0;
    fstate = (fstate_t *) malloc(sizeof(fstate_t) * 10);

    id_real = real_lookup(n, &i_real);
    i_subst = v_ctx_lookup(n);

    __CPROVER_assert(i_real == i_subst, "ctx_name_to_id: the macro and v_ctx_lookup leave the loop at the same index");
    __CPROVER_assert(id_real == (i_subst <= ctx_idx ? i_subst : 0), "ctx_name_to_id: same context id (0 when no name matches)");
    VERIF_CANARY();
}
