/* C09 (+ C11 memory safety of the line buffer): the file loop of spifconf_parse — bounded stand-in.
 *
 * Every COMPLETE line the environment delivers (fgets stub: arbitrary bytes, NUL bytes included, lines longer
 * than CONFIG_BUFF, missing final newline, end of file / read error at any point) is handed to
 * spifconf_parse_line exactly once and in order: parse_line's contract REQUIRES vg_deliverable == vg_pl_calls + 1
 * ("this call is for the newest complete line, read at a line boundary"); the model checks that precondition at
 * every call, and on return vg_pl_calls == vg_deliverable.  Over-long lines are skipped whole.  Every stream
 * opened is closed (ghost count back to its entry value; fclose on a NULL stream is an obligation), fstate_idx
 * is back to 0, the result is NULL or a fresh heap string.
 *
 * Tier B.  With DFCC + loop contracts this function did not fit (41M SAT variables with the buffer already
 * scaled down; the 20 kB local line buffer alone needs > 30 GB), and the facts about file-stack entries below
 * the top are needed at a computed index after a pop.  This unit is a plain bounded harness:
 *     at most 3 chunks are delivered in total (all files together), include nesting <= 2 files,
 *     no %preproc directive, line buffer CONFIG_BUFF scaled to 32 bytes
 * Callees are bound by the --replace-calls pre-pass to model functions with the text of their contracts
 * (contracts/conf.h): spifconf_parse_line (file-stack projection of the contract proved in C09.parse_line),
 * spifconf_open_file (contract proved in C11.open_file), spifconf_find_file.  spifconf_register_fstate runs
 * as real code (the table never grows under the bound). */

/*@unit
name: parse
define: VERIF_OWN_STRCMP, VERIF_OWN_STRCHR, VERIF_CONF_CALL_MODELS, VERIF_CONF_PARSE_MODELS, VERIF_STREAM_CHECKS_UNGUARDED, VERIF_MAX_NEST=2
src: conf.c
prepass: --replace-calls spifconf_parse_line:v_m_parse_line --replace-calls spifconf_open_file:v_m_open_file --replace-calls spifconf_find_file:v_m_find_file
backend: sat
tier: B
bound: <= 3 chunks delivered by fgets in total, include nesting <= 2 files, no %preproc directive, line buffer CONFIG_BUFF scaled to 32 bytes
unwind: 6
timeout: 600
funcs: spifconf_parse, spifconf_register_fstate
native: conf_replay
native_includes: conf.c
*/
#include "vprelude.h"
#undef  CONFIG_BUFF
#define CONFIG_BUFF 32
#include "env_conf.h"
#include "src/conf.c"
#include "conf.h"

void harness(void)
{
    size_t n1 = nondet_size_t(), n2 = nondet_size_t(), n3 = nondet_size_t();
    spif_charptr_t conf_name, dir = NULL, path = NULL, r;
    unsigned long streams0, calls0;

    /* arguments: C strings of arbitrary length */
    __CPROVER_assume(n1 <= VCAP && n2 <= VCAP && n3 <= VCAP);
    conf_name = (spif_charptr_t) malloc(n1 + 1); conf_name[n1] = 0;
    if (nondet_bool()) { dir = (spif_charptr_t) malloc(n2 + 1); dir[n2] = 0; }
    if (nondet_bool()) { path = (spif_charptr_t) malloc(n3 + 1); path[n3] = 0; }
    /* initialised subsystem: empty file stack with the capacity init gives it */
    fstate_cnt = 10; fstate_idx = 0;
    fstate = (fstate_t *) malloc(sizeof(fstate_t) * 10);
    /* ghosts: every complete line so far was delivered; at a line boundary; the environment still has <= 3 chunks */
    vg_pl_calls = nondet_ulong(); vg_deliverable = vg_pl_calls; vg_fg_mid = 0; vg_fg_hdr = 0; vg_fg_ok = 0;
    vg_fg_budget = nondet_ulong(); __CPROVER_assume(vg_fg_budget <= 3);
    vg_open_streams = nondet_ulong();
    streams0 = vg_open_streams; calls0 = vg_pl_calls;

    r = spifconf_parse(conf_name, dir, path);

    __CPROVER_assert(fstate_idx == 0, "spifconf_parse: file stack back where it started");
    __CPROVER_assert(vg_open_streams == streams0, "spifconf_parse: every stream it opened was closed");
    __CPROVER_assert(vg_pl_calls == vg_deliverable && !vg_fg_mid, "spifconf_parse: every complete line was delivered to parse_line");
    __CPROVER_assert(r != NULL || vg_pl_calls == calls0, "spifconf_parse: NULL means nothing was parsed");
    __CPROVER_assert(r == NULL || __CPROVER_r_ok(r, 1), "spifconf_parse: result is NULL or a string");
    VERIF_CANARY();
}
