/* C09 (+ C11 memory safety of the line buffer): the file loop of spifconf_parse.
 *
 * Every COMPLETE line the environment delivers (fgets stub: arbitrary bytes, NUL bytes included, lines longer
 * than CONFIG_BUFF, missing final newline, end of file / read error at any point) is handed to
 * spifconf_parse_line exactly once and in order: parse_line's contract REQUIRES vg_deliverable == vg_pl_calls + 1
 * ("this call is for the newest complete line, read at a line boundary"), that precondition is checked at the
 * call site, and on return vg_pl_calls == vg_deliverable.  Over-long lines are skipped whole (loop 3 runs
 * mid-line throughout and ends at a line boundary).  Every stream opened is closed (ghost count back to its
 * entry value), fstate_idx is back to 0, the result is NULL or a fresh heap string.
 *
 * Tier B — the loops are closed by loop contracts (no unwinding: any number of lines of any length), but the
 * facts about file-stack entries BELOW the top ("has a stream", "is not preprocessed") are needed at the top
 * after a pop, i.e. at a computed index; without quantifiers they are spelled out for the slots 1..2 and the
 * input is bounded accordingly:   include nesting <= 2 files, no %preproc directive
 * (the fopen stub refuses a third nested file; the projected parse_line contract states the bounds).
 * spifconf_parse_line is used through the FILE-STACK PROJECTION of its contract (contracts/conf.h,
 * VERIF_PL_PROJECT_FSTACK: the context-stack component is left out, spifconf_parse never touches it);
 * spifconf_open_file, spifconf_find_file and spifconf_register_fstate are used by contract. */

/*@unit
name: parse
define: VERIF_CONF_ANNOT_PARSE, VERIF_CONF_PUSH_MODELS, VERIF_OWN_STRCMP, VERIF_OWN_STRCHR, VERIF_CONF_REBIND, VERIF_LOOKUP_MODEL, VERIF_PL_PROJECT_FSTACK, VERIF_MAX_NEST=2
src: conf.c
enforce: spifconf_parse
replace: spifconf_parse_line, spifconf_open_file, spifconf_find_file
backend: sat
tier: B
bound: include nesting <= 2 files, no %preproc directive; number and length of lines unbounded (loop contracts)
loopcontracts: yes
loops: 3
timeout: 1500
objbits: 9
*/
#include "vprelude.h"
#include "env_conf.h"
#define VERIF_CONF_SPEC_ONLY
#include "conf.h"
#undef VERIF_CONF_SPEC_ONLY
#include "src/conf.c"
#define VERIF_CT_REGISTER
#define VERIF_CT_CALLEES
#define VERIF_CT_LOOKUP
#define VERIF_CT_OPEN_FILE
#define VERIF_CT_PARSE_LINE
#include "conf.h"

/* spifconf_find_file as spifconf_parse uses it (its memory safety: C11.find_file): NULL, or a C string in a
 * PATH_MAX buffer that the caller may write to (it is one of find_file's two static buffers; the single call
 * here sees it as a block of its own). */
spif_charptr_t spifconf_find_file(const spif_charptr_t file, const spif_charptr_t dir, const spif_charptr_t pathlist)
__CPROVER_requires(file != NULL && __CPROVER_r_ok(file, 1))
__CPROVER_assigns()
__CPROVER_ensures(__CPROVER_return_value == NULL ||
                  (__CPROVER_is_fresh(__CPROVER_return_value, PATH_MAX) && __CPROVER_return_value[PATH_MAX - 1] == 0))
;

spif_charptr_t spifconf_parse(spif_charptr_t conf_name, const spif_charptr_t dir, const spif_charptr_t path)
__CPROVER_requires(VCSTR_FRESH(conf_name, vg_m1))
__CPROVER_requires(dir == NULL || VCSTR_FRESH(dir, vg_m2))
__CPROVER_requires(path == NULL || VCSTR_FRESH(path, vg_m3))
/* initialised subsystem, empty file stack (documented: "pushed onto the empty stack") */
/* (capacity as after init: the bounded nesting never makes the table grow) */
__CPROVER_requires(FSTK_INV && fstate_idx == 0 && fstate_cnt >= 4)
/* ghosts: every complete line so far was delivered; at a line boundary; files are finite; parse_line's buffer is CONFIG_BUFF bytes */
__CPROVER_requires(vg_pl_calls == vg_deliverable && !vg_fg_mid && !vg_fg_hdr && vg_fg_budget <= 0xffffffffUL && vg_n1 == CONFIG_BUFF)
__CPROVER_assigns(spifconf_vars, fstate_idx, __CPROVER_object_whole(fstate))
__CPROVER_assigns(vg_sp, vg_ct, vg_ev, vg_fg, vg_tf, vg_st)
/* the file stack is back where it started, every stream opened was closed */
__CPROVER_ensures(FSTK_POST && fstate_idx == 0 && vg_open_streams == __CPROVER_old(vg_open_streams))
/* every complete line was delivered (exactly once and in order: see the header comment); nothing is delivered when no file was opened */
__CPROVER_ensures(vg_pl_calls == vg_deliverable && !vg_fg_mid)
__CPROVER_ensures(__CPROVER_return_value != NULL || vg_pl_calls == __CPROVER_old(vg_pl_calls))
;

void harness(void)
{
    spif_charptr_t conf_name, dir, path;
    vg_n1 = CONFIG_BUFF;
    spifconf_parse(conf_name, dir, path);
    VERIF_CANARY();
}
