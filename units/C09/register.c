/* C09: the 8-bit stacks/tables of the config parser keep index < capacity at
 * every push, for every depth the 8-bit index can count (<= 255), across every
 * capacity doubling, and entries already pushed are preserved (ghost index
 * vg_k; realloc modelled by env.h's single-ghost-element over-approximation). */

/*@unit
name: register_context_state
define: U_CTX_STATE, U_PRESERVE, VERIF_REALLOC_ELEM_T=ctx_state_t
src: conf.c
enforce: spifconf_register_context_state
backend: z3,sat
timeout: 150
native: register
native_includes: conf.c
*/
/*@unit
name: register_fstate
define: U_FSTATE, U_PRESERVE, VERIF_REALLOC_ELEM_T=fstate_t
src: conf.c
enforce: spifconf_register_fstate
backend: z3,sat
timeout: 150
native: register
native_includes: conf.c
*/
/*@unit
name: register_context
define: U_CONTEXT, U_PRESERVE, VERIF_OWN_STRCMP, VERIF_OWN_STRCHR, VERIF_REALLOC_ELEM_T=ctx_t
src: conf.c
enforce: spifconf_register_context
backend: z3,sat
timeout: 150
*/
/*@unit
name: register_context_null_late
define: U_CONTEXT, U_CTX_NULL_LATE, U_PRESERVE, VERIF_OWN_STRCMP, VERIF_OWN_STRCHR, VERIF_REALLOC_ELEM_T=ctx_t
src: conf.c
enforce: spifconf_register_context
backend: z3,sat
timeout: 150
*/
/*@unit
name: register_builtin
define: U_BUILTIN, U_PRESERVE, VERIF_REALLOC_ELEM_T=spifconf_func_t
src: conf.c
enforce: spifconf_register_builtin
backend: z3,sat
timeout: 150
*/
/*@unit
name: register_builtin_grow
define: U_BUILTIN, U_BLT_GROW, U_PRESERVE, VERIF_REALLOC_ELEM_T=spifconf_func_t
src: conf.c
enforce: spifconf_register_builtin
backend: z3,sat
timeout: 150
*/
#include "vprelude.h"
#ifdef U_CONTEXT
#include "env_conf.h"      /* exact strcasecmp for short names: the "null" behaviour is decided by the name */
#endif
#include "src/conf.c"
#define VERIF_CT_REGISTER
#include "conf.h"

long w_idx, w_cnt;

#ifdef U_CTX_STATE
/* contract: contracts/conf.h (VERIF_CT_REGISTER) */
void harness(void)
{
    unsigned char id = nondet_uchar();
    w_idx = ctx_state_idx; w_cnt = ctx_state_cnt;
    spifconf_register_context_state(id);
    VERIF_CANARY();
}
#endif

#ifdef U_FSTATE
/* contract: contracts/conf.h (VERIF_CT_REGISTER) */
void harness(void)
{
    FILE *fp = nondet_ptr(); spif_charptr_t path = nondet_ptr(), outfile = nondet_ptr();
    unsigned long line = nondet_ulong(); unsigned char flags = nondet_uchar();
    w_idx = fstate_idx; w_cnt = fstate_cnt;
    spifconf_register_fstate(fp, path, outfile, line, flags);
    VERIF_CANARY();
}
#endif

#ifdef U_CONTEXT
/* name "null" (any letter case) re-registers slot 0; any other name takes the next slot.  Table invariant kept:
 * EVERY registered context (ghost slot vg_k) has a name that is a C string — ctx_name_to_id passes each of them
 * to strcasecmp on every "begin" line.
 * Behaviour split: U_CTX_NULL_LATE = "null" is re-registered AFTER other contexts were added (ctx_idx > 0; this
 * behaviour carried finding C09-null-reregister until fix 9b76b44); the other unit covers every other call. */
#define IS_NULL_NAME(n) (VLOW((n)[0]) == 'n' && VLOW((n)[1]) == 'u' && VLOW((n)[2]) == 'l' && VLOW((n)[3]) == 'l' && (n)[4] == 0)
unsigned char spifconf_register_context(spif_charptr_t name, ctx_handler_t handler)
__CPROVER_requires(CTXTAB_INV && ctx_idx < 255)
__CPROVER_requires(vg_n1 >= 4 && VCSTR_FRESH(name, vg_n1) && handler != NULL)
/* slot 0 (the built-in "null" context) and the ghost slot have names */
__CPROVER_requires(vg_n3 <= VCAP && __CPROVER_is_fresh(context[0].name, vg_n3 + 1) && context[0].name[vg_n3] == 0)
__CPROVER_requires(vg_k == 0 || CTXNAME_AT(vg_k))
#ifdef U_CTX_NULL_LATE
__CPROVER_requires(ctx_idx > 0 && IS_NULL_NAME(name))
#else
__CPROVER_requires(!(ctx_idx > 0 && IS_NULL_NAME(name)))
#endif
__CPROVER_assigns(context, ctx_idx, ctx_cnt, __CPROVER_object_whole(context), vg_lkp)
__CPROVER_frees(context, context[0].name)
__CPROVER_ensures(CTXTAB_POST)
__CPROVER_ensures(__CPROVER_return_value <= ctx_idx &&
                  (ctx_idx == __CPROVER_old(ctx_idx) + 1 || ctx_idx == __CPROVER_old(ctx_idx)))
/* the slot the call returns holds the handler and a name */
__CPROVER_ensures(vg_k != __CPROVER_return_value || (context[vg_k].handler == handler && context[vg_k].name != NULL))
/* "null" goes to slot 0, anything else to a new slot */
__CPROVER_ensures(IS_NULL_NAME(name) ? (__CPROVER_return_value == 0 && ctx_idx == __CPROVER_old(ctx_idx))
                                     : (__CPROVER_return_value == ctx_idx && ctx_idx == __CPROVER_old(ctx_idx) + 1))
/* every registered context still has a name that is a C string */
__CPROVER_ensures(CTXNAME_POST_AT(vg_k))
;
void harness(void)
{
    spif_charptr_t name; ctx_handler_t h = nondet_ptr();
    w_idx = ctx_idx; w_cnt = ctx_cnt;
    spifconf_register_context(name, h);
    VERIF_CANARY();
}
#endif

#ifdef U_BUILTIN
/* The table is terminated by a NULL name: spifconf_shell_expand scans `for (k = 0; builtins[k].name; k++)`.
 * Behaviour split: U_BLT_GROW = this registration fills the last free slot and the table grows (this behaviour
 * carried finding C11-builtin-table-unterminated until fix bed04e2); the other unit covers every registration
 * that leaves the capacity alone. */
unsigned char spifconf_register_builtin(char *name, spifconf_func_ptr_t ptr)
__CPROVER_requires(BLTTAB_INV && builtin_idx < 255)
__CPROVER_requires(VCSTR_FRESH(name, vg_n1))
__CPROVER_requires(builtins[builtin_idx].name == NULL)
#ifdef U_BLT_GROW
__CPROVER_requires((unsigned int) builtin_idx + 1 == builtin_cnt)
#else
__CPROVER_requires((unsigned int) builtin_idx + 1 != builtin_cnt && builtins[builtin_idx + 1].name == NULL)
#endif
__CPROVER_assigns(builtins, builtin_idx, builtin_cnt, __CPROVER_object_whole(builtins))
__CPROVER_frees(builtins)
__CPROVER_ensures(BLTTAB_POST)
__CPROVER_ensures(builtin_idx == __CPROVER_old(builtin_idx) + 1 && __CPROVER_return_value == __CPROVER_old(builtin_idx))
/* the new entry, seen through the ghost index (it may have moved with the table) */
__CPROVER_ensures(vg_k != __CPROVER_old(builtin_idx) || (builtins[vg_k].ptr == ptr && builtins[vg_k].name != NULL))
#ifdef U_PRESERVE
__CPROVER_ensures(vg_k >= __CPROVER_old(builtin_idx) ||
                  (builtins[vg_k].ptr == __CPROVER_old(builtins[VIDX(vg_k, builtin_idx)].ptr) && builtins[vg_k].name == __CPROVER_old(builtins[VIDX(vg_k, builtin_idx)].name)))
#endif
/* the table is still terminated by a NULL name right after the last entry */
__CPROVER_ensures(builtins[builtin_idx].name == NULL)
;
void harness(void)
{
    char *name; spifconf_func_ptr_t p = nondet_ptr();
    w_idx = builtin_idx; w_cnt = builtin_cnt;
    spifconf_register_builtin(name, p);
    VERIF_CANARY();
}
#endif
