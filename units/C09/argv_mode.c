/* C09: spifconf_parse_line(NULL, line) — the "command line" mode — leaves the file stack where it was.
 * For a comment / empty line the function returns through SPIFCONF_PARSE_RET() BEFORE anything was pushed, and
 * that macro pops the file stack (and would end a context) whenever fp == NULL: fstate_idx wrapped from 0 to 255
 * (finding C09-argv-comment-underflow, fixed c1befaf: a plain return; demo: findings/demos/C09_argv_comment_underflow.c).
 * Plain harness: fp and the first character are constants, so symbolic execution follows exactly the early-return
 * path (nothing else of the function is reachable). */

/*@unit
name: argv_comment
define: VERIF_OWN_STRCMP, VERIF_OWN_STRCHR
src: conf.c
backend: sat
timeout: 200
funcs: spifconf_parse_line
native: conf_replay
native_includes: conf.c
*/
#include "vprelude.h"
#include "env_conf.h"
#include "src/conf.c"
#include "conf.h"

void harness(void)
{
    static char line[8] = "# x";                 /* a comment (constant first character) */
    /* initialised subsystem: empty file stack, no open context */
    fstate_cnt = 10; fstate_idx = 0;
    fstate = (fstate_t *) malloc(sizeof(fstate_t) * 10);
    ctx_state_cnt = 20; ctx_state_idx = 0;
    ctx_state = (ctx_state_t *) malloc(sizeof(ctx_state_t) * 20);
    ctx_cnt = 20; ctx_idx = 0;
    context = (ctx_t *) malloc(sizeof(ctx_t) * 20);

    spifconf_parse_line(NULL, (spif_charptr_t) line);

    __CPROVER_assert(fstate_idx == 0, "parse_line(NULL, comment): file stack back where it started");
    __CPROVER_assert(ctx_state_idx == 0, "parse_line(NULL, comment): context stack back where it started");
    VERIF_CANARY();
}
