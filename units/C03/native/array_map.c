/* Native replay of the C03 array-map units: a map is built directly in its representation (pairs
 * with nelem keys 2k and values 20k+1, strictly ascending) for every subset of 6 keys; the oracle
 * is an ideal dictionary.  Probe keys range over present keys, keys between them, below the
 * smallest and above the largest.  See units/C02/native/array_common.h. */
#include <libast_internal.h>
#include "array.c"
#include "units/C02/native/array_common.h"

#define NK 6
static int ikey[NK + 1], ival[NK + 1]; static long in;            /* ideal dictionary, ascending */
static long ifind(int k) { long i; for (i = 0; i < in; i++) if (ikey[i] == k) return i; return -1; }
static int is_pair(spif_obj_t o) { return o && SPIF_OBJ_IS_OBJPAIR(o); }
static void check_map(spif_array_t a, const char *what)
{
    long i;
    NA_CHECK(a->len == in, "%s: count is %ld, the ideal dictionary has %ld entries", what, (long) a->len, in);
    for (i = 0; i < in; i++) {
        spif_objpair_t pr = (spif_objpair_t) a->items[i];
        NA_CHECK(is_pair(a->items[i]) && pr->key && pr->value, "%s: slot %ld is not a pair with key and value", what, i);
        NA_CHECK(KEYOF(pr->key) == ikey[i] && KEYOF(pr->value) == ival[i], "%s: entry %ld is (%d,%d), ideal (%d,%d)", what, i, KEYOF(pr->key), KEYOF(pr->value), ikey[i], ival[i]);
    }
}
static void run_case(unsigned mask, int probe_key, int newval)
{
    spif_obj_t p[NK + 1], probe = E(probe_key), val = E(newval), r; spif_array_t a; long i, at;
    (void) r; (void) val; (void) at;
    in = 0;
    for (i = 0; i < NK; i++) if (mask & (1u << i)) { ikey[in] = 2 * (int) (i + 1); ival[in] = 20 * (int) (i + 1) + 1; in++; }
    for (i = 0; i < in; i++) { spif_obj_t k = E(ikey[i]), v = E(ival[i]); p[i] = (spif_obj_t) spif_objpair_new_from_both(k, v); nelem_del((nelem_t) k); nelem_del((nelem_t) v); }
    a = na_build(2, p, in);
    snprintf(na_ctx, sizeof(na_ctx), "map keys=[");
    for (i = 0; i < in; i++) snprintf(na_ctx + strlen(na_ctx), sizeof(na_ctx) - strlen(na_ctx), "%d ", ikey[i]);
    snprintf(na_ctx + strlen(na_ctx), sizeof(na_ctx) - strlen(na_ctx), "] probe key=%d new value=%d", probe_key, newval);
    at = ifind(probe_key);
#if defined(U_GET)
    r = spif_array_map_get(a, probe);
    if (at < 0) NA_CHECK(r == NULL, "get: returned a value for an absent key");
    else NA_CHECK(r != NULL && r == ((spif_objpair_t) p[at])->value && KEYOF(r) == ival[at], "get: did not return the value stored for a present key");
    check_map(a, "get must not change the map");
#elif defined(U_HAS_KEY)
    NA_CHECK(spif_array_has_key(a, probe) == (at >= 0 ? TRUE : FALSE), "has_key disagrees with the dictionary");
#elif defined(U_HAS_VALUE)
    { spif_obj_t pv = E(newval); long j, hit = 0; for (j = 0; j < in; j++) if (ival[j] == newval) hit = 1;
      NA_CHECK(spif_array_has_value(a, pv) == (hit ? TRUE : FALSE), "has_value disagrees with the dictionary"); }
#elif defined(U_MREMOVE)
    r = spif_array_map_remove(a, probe);
    if (at < 0) { NA_CHECK(r == NULL, "remove of an absent key returned something"); check_map(a, "remove of an absent key"); }
    else { NA_CHECK(r == p[at], "remove did not hand back the pair of that key");
           NA_CHECK(KEYOF(((spif_objpair_t) r)->key) == probe_key && KEYOF(((spif_objpair_t) r)->value) == ival[at], "the removed pair was freed or changed");
           for (i = at; i + 1 < in; i++) { ikey[i] = ikey[i + 1]; ival[i] = ival[i + 1]; } in--;
           check_map(a, "after remove");
           NA_CHECK(spif_array_map_remove(a, probe) == NULL, "the same key could be removed twice");
           /* still usable: a lookup of every remaining key */
           for (i = 0; i < in; i++) { spif_obj_t k = E(ikey[i]); r = spif_array_map_get(a, k); NA_CHECK(r && KEYOF(r) == ival[i], "after remove: key %d is no longer found", ikey[i]); } }
#elif defined(U_SET)
    { long live0 = na_live; spif_bool_t t = spif_array_set(a, probe, val); long j;
      /* heap balance of the call: a replacement frees the old value copy and creates one new copy (net 0);
       * an insertion creates a key copy and a value copy (net +2 element objects) */
      NA_CHECK(na_live == live0 + (at >= 0 ? 0 : 2), "set: %ld element objects live after the call, expected %ld (a replaced value copy must be released exactly once)", na_live, live0 + (at >= 0 ? 0 : 2));
      NA_CHECK(t == (at >= 0 ? TRUE : FALSE), "set: 'replaced' answer is %d for a key that was %s", (int) t, at >= 0 ? "present" : "absent");
      if (at >= 0) ival[at] = newval;
      else { for (j = in; j > 0 && ikey[j - 1] > probe_key; j--) { ikey[j] = ikey[j - 1]; ival[j] = ival[j - 1]; } ikey[j] = probe_key; ival[j] = newval; in++; }
      check_map(a, "after set");
      for (j = 0; j < in; j++) NA_CHECK(((spif_objpair_t) a->items[j])->key != probe && ((spif_objpair_t) a->items[j])->value != val, "set stored the caller's own key/value object");
      NA_CHECK(KEYOF(probe) == probe_key && KEYOF(val) == newval, "set changed the caller's key/value object");       /* (ASan: not freed) */
      nelem_del((nelem_t) probe); nelem_del((nelem_t) val);                                                         /* caller deletes its objects ... */
      check_map(a, "after the caller deleted its key and value objects"); }                                         /* ... the map is unaffected */
#elif defined(U_GET_KEYS) || defined(U_GET_VALUES) || defined(U_GET_PAIRS)
    { spif_array_t out;
# if defined(U_GET_KEYS)
      out = (spif_array_t) spif_array_get_keys(a, (spif_list_t) NULL);
# elif defined(U_GET_VALUES)
      out = (spif_array_t) spif_array_get_values(a, (spif_list_t) NULL);
# else
      out = (spif_array_t) spif_array_get_pairs(a, (spif_list_t) NULL);
# endif
      NA_CHECK(out != NULL && out->len == in, "get_*: the result list does not have count entries");
      for (i = 0; i < in; i++) {
# if defined(U_GET_KEYS)
          NA_CHECK(out->items[i] && KEYOF(out->items[i]) == ikey[i] && out->items[i] != ((spif_objpair_t) p[i])->key, "get_keys: entry %ld is not a copy of the %ld-th key in ascending order", i, i);
# elif defined(U_GET_VALUES)
          NA_CHECK(out->items[i] && KEYOF(out->items[i]) == ival[i] && out->items[i] != ((spif_objpair_t) p[i])->value, "get_values: entry %ld is not a copy of the %ld-th value", i, i);
# else
          NA_CHECK(is_pair(out->items[i]) && out->items[i] != p[i] && KEYOF(((spif_objpair_t) out->items[i])->key) == ikey[i] && KEYOF(((spif_objpair_t) out->items[i])->value) == ival[i], "get_pairs: entry %ld is not a copy of the %ld-th pair", i, i);
# endif
      }
      check_map(a, "get_* must not change the map"); }
#elif defined(U_MAP_DUP)
    { spif_array_t c = spif_array_map_dup(a); spif_array_t keep = a;
      NA_CHECK(c != NULL && c != a && (c->items != a->items || in == 0), "dup is not a distinct object with its own slot array");
      for (i = 0; i < in; i++) NA_CHECK(c->items[i] != a->items[i], "dup shares pair %ld with the original", i);
      check_map(c, "the copy"); spif_array_del(a); check_map(c, "the copy after deleting the original"); (void) keep; }
#else
# error "no unit selected"
#endif
}

int main(void)
{
    unsigned mask; int pk;
    NA_INIT();
    for (mask = 0; mask < (1u << NK); mask++)
        for (pk = 1; pk <= 2 * NK + 1; pk++) {
            run_case(mask, pk, 7);
#if defined(U_HAS_VALUE)
            run_case(mask, pk, 20 * (pk / 2) + 1);
#endif
#if defined(U_GET_KEYS) || defined(U_GET_VALUES) || defined(U_GET_PAIRS) || defined(U_MAP_DUP)
            break;
#endif
        }
    fprintf(stderr, "NATIVE-REPLAY: no violation on any map over %d keys\n", NK);
    return 0;
}
