/* C03, dlinked_list map class: bounded stand-ins (tier B).  The harness builds EVERY map of
 * 0..VL_MAXN separately allocated nodes; each node holds a REAL objpair (src/objpair.c is part of
 * the TU) whose key and value are velems; keys arbitrary but strictly ascending, values arbitrary.
 * ONE real (static) function of src/dlinked_list.c is called with a key/value of arbitrary key
 * (present, absent, below the minimum, above the maximum), then the map is read back against
 * the ideal dictionary (contracts/lists.h vl_map_*: last value wins, set returns "replaced",
 * remove returns the pair once, ascending key order, the map stores COPIES).
 * Dispatch: SPIF_OBJ_COMP(pair, x) -> spif_objpair_comp (real code) -> SPIF_OBJ_COMP(pair->key, ...)
 * -> velem_comp; see contracts/lists.h section 1.
 * Keys and values passed by the harness are never NULL (NULL arguments are C16's subject).
 */

/*@unit
name: dlist_map_set
define: U_SET
src: dlinked_list.c, linked_list.c, objpair.c, obj.c
tier: B
native: self
backend: cadical
unwind: 10
unwind_thorough: 12
bound: map size <= 4, all key and value keys [thorough tier: lengths up to 5]
funcs: spif_dlinked_list_set, spif_dlinked_list_insert, spif_objpair_new_from_both, spif_objpair_init_from_both, spif_objpair_comp, spif_objpair_set_value
*/
/*@unit
name: dlist_map_get
define: U_GET
src: dlinked_list.c, linked_list.c, objpair.c, obj.c
tier: B
native: self
backend: cadical
unwind: 10
unwind_thorough: 12
bound: map size <= 4, all key and value keys [thorough tier: lengths up to 5]
funcs: spif_dlinked_list_map_get, spif_dlinked_list_has_key, spif_dlinked_list_has_value, spif_dlinked_list_count, spif_objpair_comp
*/
/*@unit
name: dlist_map_remove
define: U_REMOVE
src: dlinked_list.c, linked_list.c, objpair.c, obj.c
tier: B
native: self
backend: cadical
unwind: 10
unwind_thorough: 12
bound: map size <= 4, all key and value keys (incl. smallest / largest / only key) [thorough tier: lengths up to 5]
funcs: spif_dlinked_list_map_remove, spif_objpair_comp
*/
/*@unit
name: dlist_map_get_keys
define: U_GET_KEYS
src: dlinked_list.c, linked_list.c, objpair.c, obj.c
tier: B
native: self
backend: cadical
unwind: 10
unwind_thorough: 12
bound: map size <= 4, all key and value keys; result list NULL or an empty linked_list [thorough tier: lengths up to 5]
funcs: spif_dlinked_list_get_keys, spif_dlinked_list_get_values
*/
/*@unit
name: dlist_map_get_pairs
define: U_GET_PAIRS
src: dlinked_list.c, linked_list.c, objpair.c, obj.c
tier: B
native: self
backend: cadical
unwind: 10
unwind_thorough: 12
bound: map size <= 4, all key and value keys; result list NULL or an empty linked_list [thorough tier: lengths up to 5]
funcs: spif_dlinked_list_get_pairs, spif_objpair_dup
*/
/*@unit
name: dlist_map_iterate
define: U_ITERATE
src: dlinked_list.c, linked_list.c, objpair.c, obj.c
tier: B
native: self
backend: cadical
unwind: 10
unwind_thorough: 12
bound: map size <= 4, all key and value keys [thorough tier: lengths up to 5]
funcs: spif_dlinked_list_iterator, spif_dlinked_list_iterator_has_next, spif_dlinked_list_iterator_next
*/
#include "vprelude.h"
#define VL_WITH_PAIRS
#define VL_LISTRESULT_LLIST
#include "lists.h"
#define o_class vl_obj_o_class          /* obj.c and objpair.c both name their class table o_class */
#include "src/obj.c"
#undef o_class
#define VL_SWITCH_ELEM
#include "lists.h"             /* inside objpair.c: keys and values are velems */
#include "src/objpair.c"
#define VL_SWITCH_OBJ
#include "lists.h"             /* list code: pair | list | velem */
#include "src/linked_list.c"
#include "src/dlinked_list.c"

#define LT spif_dlinked_list_t
#define IT spif_dlinked_list_item_t
#define BUILD(self, m) do { VL_INPUTS(vin, a); VL_BUILD_MAP(self, LT, IT, SPIF_MAPCLASS_VAR(dlinked_list), VL_DL, m, vin); } while (0)
#define CHECK(self, m, OP) VL_CHECK_MAP(self, IT, VL_DL, m, OP)

vl_map_t m;             /* ideal dictionary */
vl_in_t vin;            /* the built container's inputs (VND: replayable natively) */
int w_n, w_k, w_v;

/* result of get_keys / get_values: a linked_list of fresh velem copies with the given keys */
static void check_velem_list(spif_linked_list_t l, const int *keys, int n, spif_dlinked_list_t map, int want_values)
{
    spif_linked_list_item_t c = l->head; spif_dlinked_list_item_t mc = map->head;
    int i;
    __CPROVER_assert(l->len == n, "dlist map get_keys/values: result has one entry per map entry");
    for (i = 0; i < VL_CAP && i < n; i++) {
        spif_obj_t own;
        __CPROVER_assert(c != NULL && c->data != NULL, "dlist map get_keys/values: result entry i exists");
        if (c == NULL || c->data == NULL) return;
        __CPROVER_assert(((velem_t) c->data)->key == keys[i], "dlist map get_keys/values: entry i is the i-th key/value in ascending key order");
        own = want_values ? ((spif_objpair_t) mc->data)->value : ((spif_objpair_t) mc->data)->key;
        __CPROVER_assert(c->data != own, "dlist map get_keys/values: entry i is a copy, not the map's own object");
        c = c->next; mc = mc->next;
    }
    __CPROVER_assert(c == NULL, "dlist map get_keys/values: result list ends after len entries");
}

void harness(void)
{
    LT self;
    spif_obj_t key, val, got;
    int k = (int) VND(int, k), v = (int) VND(int, v), p, i;
    spif_bool_t b;

    BUILD(self, m);
    w_n = m.len; w_k = k; w_v = v;
    key = (spif_obj_t) vl_elem(k);
    val = (spif_obj_t) vl_elem(v);
    p = vl_map_find(&m, k);

#ifdef U_SET
    {
        int replaced = vl_map_set(&m, k, v);
        b = spif_dlinked_list_set(self, key, val);
        __CPROVER_assert(b == (replaced ? TRUE : FALSE), "dlist map set: returns TRUE iff an entry was replaced");
        __CPROVER_assert(((velem_t) key)->key == k && ((velem_t) val)->key == v, "dlist map set: caller's key and value are alive and untouched");
        /* the map holds copies: deleting the caller's objects must not change what the map returns */
        free(key); free(val);
        CHECK(self, m, "dlist map set");
    }
#endif
#ifdef U_GET
    got = spif_dlinked_list_map_get(self, key);
    __CPROVER_assert((got != NULL) == (p >= 0), "dlist map get: a value iff the key is present");
    if (got != NULL && p >= 0) __CPROVER_assert(((velem_t) got)->key == m.v[p], "dlist map get: the value most recently set for the key");
    b = spif_dlinked_list_has_key(self, key);
    __CPROVER_assert(b == ((p >= 0) ? TRUE : FALSE), "dlist map has_key: TRUE iff the key is present");
    {
        int hv = 0;
        for (i = 0; i < m.len && i < VL_CAP; i++) if (m.v[i] == v) hv = 1;
        b = spif_dlinked_list_has_value(self, val);
        __CPROVER_assert(b == (hv ? TRUE : FALSE), "dlist map has_value: TRUE iff some entry has an equal value");
    }
    __CPROVER_assert(spif_dlinked_list_count(self) == m.len, "dlist map count: number of entries");
    CHECK(self, m, "dlist map get/has_key/has_value");
#endif
#ifdef U_REMOVE
    {
        int vv = (p >= 0) ? m.v[p] : 0;
        vl_map_remove(&m, k);
        got = spif_dlinked_list_map_remove(self, key);
        __CPROVER_assert((got != NULL) == (p >= 0), "dlist map remove: hands back a pair iff the key was present");
        if (got != NULL && p >= 0) {
            spif_objpair_t pr = (spif_objpair_t) got;
            __CPROVER_assert(SPIF_OBJ_CLASS(pr) == SPIF_CLASS_VAR(objpair), "dlist map remove: the result is an objpair");
            __CPROVER_assert(pr->key != NULL && ((velem_t) pr->key)->key == k, "dlist map remove: the pair has the removed key and is alive");
            __CPROVER_assert(pr->value != NULL && ((velem_t) pr->value)->key == vv, "dlist map remove: the pair has the key's value and is alive");
        }
        CHECK(self, m, "dlist map remove");
    }
#endif
#ifdef U_GET_KEYS
    {
        spif_linked_list_t in = VND(bool, c1) ? (spif_linked_list_t) NULL : spif_linked_list_new();
        spif_linked_list_t out = (spif_linked_list_t) spif_dlinked_list_get_keys(self, (spif_list_t) in);
        __CPROVER_assert(out != NULL && (in == NULL || out == in), "dlist map get_keys: returns the list passed in, or a new one");
        if (out != NULL) check_velem_list(out, m.k, m.len, self, 0);
        in = VND(bool, c2) ? (spif_linked_list_t) NULL : spif_linked_list_new();
        out = (spif_linked_list_t) spif_dlinked_list_get_values(self, (spif_list_t) in);
        __CPROVER_assert(out != NULL && (in == NULL || out == in), "dlist map get_values: returns the list passed in, or a new one");
        if (out != NULL) check_velem_list(out, m.v, m.len, self, 1);
        CHECK(self, m, "dlist map get_keys/values");
    }
#endif
#ifdef U_GET_PAIRS
    {
        spif_linked_list_t in = VND(bool, c3) ? (spif_linked_list_t) NULL : spif_linked_list_new();
        spif_linked_list_t out = (spif_linked_list_t) spif_dlinked_list_get_pairs(self, (spif_list_t) in);
        spif_linked_list_item_t c; spif_dlinked_list_item_t mc;
        __CPROVER_assert(out != NULL && (in == NULL || out == in), "dlist map get_pairs: returns the list passed in, or a new one");
        if (out != NULL) {
            __CPROVER_assert(out->len == m.len, "dlist map get_pairs: result has one entry per map entry");
            for (i = 0, c = out->head, mc = self->head; i < VL_CAP && i < m.len; i++) {
                spif_objpair_t pr;
                __CPROVER_assert(c != NULL && c->data != NULL, "dlist map get_pairs: result entry i exists");
                if (c == NULL || c->data == NULL) break;
                pr = (spif_objpair_t) c->data;
                __CPROVER_assert(SPIF_OBJ_CLASS(pr) == SPIF_CLASS_VAR(objpair) && pr->key != NULL && pr->value != NULL, "dlist map get_pairs: entry i is a complete pair");
                if (pr->key == NULL || pr->value == NULL) break;
                __CPROVER_assert(((velem_t) pr->key)->key == m.k[i] && ((velem_t) pr->value)->key == m.v[i], "dlist map get_pairs: entry i is the i-th pair in ascending key order");
                __CPROVER_assert(c->data != mc->data && pr->key != ((spif_objpair_t) mc->data)->key && pr->value != ((spif_objpair_t) mc->data)->value,
                                 "dlist map get_pairs: entry i is a deep copy, not the map's own objects");
                c = c->next; mc = mc->next;
            }
            if (i == m.len) __CPROVER_assert(c == NULL, "dlist map get_pairs: result list ends after len entries");
        }
        CHECK(self, m, "dlist map get_pairs");
    }
#endif
#ifdef U_ITERATE
    {
        spif_dlinked_list_iterator_t it = (spif_dlinked_list_iterator_t) spif_dlinked_list_iterator(self);
        __CPROVER_assert(it != NULL, "dlist map iterator: created");
        for (i = 0; i < VL_CAP && i < m.len; i++) {
            spif_objpair_t pr;
            __CPROVER_assert(spif_dlinked_list_iterator_has_next(it) == TRUE, "dlist map iterator: has_next before count pairs were yielded");
            pr = (spif_objpair_t) spif_dlinked_list_iterator_next(it);
            __CPROVER_assert(pr != NULL && ((velem_t) pr->key)->key == m.k[i] && ((velem_t) pr->value)->key == m.v[i], "dlist map iterator: yields the pairs in ascending key order");
        }
        __CPROVER_assert(spif_dlinked_list_iterator_has_next(it) == FALSE, "dlist map iterator: exhausted exactly after count pairs");
        CHECK(self, m, "dlist map iterate");
    }
#endif
    VERIF_CANARY();
}
