/* C03 (array as map): finite dictionary in the key model (env_array.h) with real pairs in the
 * ghost slot (velem_map.h).  MAP_INV = ARRAY_INV + every slot a pair with non-NULL key/value +
 * keys STRICTLY ascending; the quantified parts are stated at the ghost slots vg_k / vg_j. */
/*@unit
name: array_map_get
define: U_GET, VA_COMP_KEY, VA_SLOTS_NONNULL, VA_RECORD_LAST
src: array.c, objpair.c, obj.c
native: array_map
native_includes: array.c
enforce: spif_array_map_get
backend: sat
loops: 1
*/
/*@unit
name: array_has_key
define: U_HAS_KEY, VA_COMP_KEY, VA_SLOTS_NONNULL, VA_RECORD_LAST
src: array.c, objpair.c, obj.c
native: array_map
native_includes: array.c
enforce: spif_array_has_key
replace: spif_array_map_get
backend: sat
*/
/*@unit
name: array_map_remove
define: U_MREMOVE, VA_COMP_KEY, VA_SLOTS_NONNULL
src: array.c, objpair.c, obj.c
native: array_map
native_includes: array.c
enforce: spif_array_map_remove
backend: sat
flags: --slice-formula
timeout: 600
loops: 1
*/
#include "vprelude.h"
#include "velem_map.h"
#define o_class obj_o_class
#include "src/obj.c"
#undef o_class
#include "objpair.h"
#include "src/objpair.c"
#define VA_ELEM_T spif_obj_t
#include "env_array.h"
#define VM_PHASE_ARRAY
#include "velem_map.h"
#include "array.h"
#include "src/array.c"

#define MAP_PRE(probe) (ARRAY_VALID_W(self) && MAP_PAIR_K(self) && VEC_GHOSTS(self, probe) && VEC_SORTED_AT_J(self, 1))

#if defined(U_GET) || defined(U_HAS_KEY)
/* get(k): NULL iff no pair has key k (boundary argument as for the vector find); a non-NULL result
 * is the value object of the pair the search compared last, and that pair's key equals k. */
#define MGET_ABSENT (vg_exit != vg_j + 1 || vg_k >= (size_t) self->len || vg_key2 != vg_key1)
static spif_obj_t spif_array_map_get(spif_array_t self, spif_obj_t key)
__CPROVER_requires(MAP_PRE(key))
__CPROVER_assigns(vg_exit, vg_last_a, vm_scratch)
__CPROVER_ensures(__CPROVER_return_value != (spif_obj_t) NULL || key == (spif_obj_t) NULL || MGET_ABSENT)
__CPROVER_ensures(__CPROVER_return_value == (spif_obj_t) NULL ||
                  (key != (spif_obj_t) NULL && (vg_last_a != vg_e2 || vg_k >= (size_t) self->len ||
                                                (vg_key2 == vg_key1 && __CPROVER_return_value == PAIR_K(self)->value))))
;
#ifdef U_GET
void harness(void) { spif_array_t self; spif_obj_t key = nondet_ptr(); spif_array_map_get(self, key); VERIF_CANARY(); }
#else
static spif_bool_t spif_array_has_key(spif_array_t self, spif_obj_t key)
__CPROVER_requires(MAP_PRE(key))
__CPROVER_assigns(vg_exit, vg_last_a, vm_scratch)
__CPROVER_ensures(__CPROVER_return_value == TRUE || __CPROVER_return_value == FALSE)
__CPROVER_ensures(__CPROVER_return_value != FALSE || key == (spif_obj_t) NULL || MGET_ABSENT)
__CPROVER_ensures(__CPROVER_return_value != TRUE ||
                  (key != (spif_obj_t) NULL && (vg_last_a != vg_e2 || vg_k >= (size_t) self->len || vg_key2 == vg_key1)))
;
void harness(void) { spif_array_t self; spif_obj_t key = nondet_ptr(); spif_array_has_key(self, key); VERIF_CANARY(); }
#endif
#endif

#ifdef U_MREMOVE
/* remove(k): the pair with key k is taken out and handed back (NOT freed: only the slot array is in
 * the frees clause), the pairs behind it move down, order kept; NULL and no change if there is
 * none.  Any position, including the smallest and the largest key, leaves a well-formed map. */
static spif_obj_t spif_array_map_remove(spif_array_t self, spif_obj_t item)
__CPROVER_requires(MAP_PRE(item) && SNAP_ITEM(self, vg_k + 1, vg_old_k2))
__CPROVER_assigns(ARRAY_FRAME(self); vg_exit)
__CPROVER_frees(self->items)
__CPROVER_ensures(ARRAY_POST(self))
__CPROVER_ensures(__CPROVER_return_value != (spif_obj_t) NULL ||
                  (self->len == OLD_LEN(self) && self->items == OLD_ITEMS(self) &&
                   (vg_k >= (size_t) self->len || (self->items[vg_k] == vg_e2 && (item == (spif_obj_t) NULL || vg_key2 != vg_key1)))))
__CPROVER_ensures(__CPROVER_return_value == (spif_obj_t) NULL ||
                  (item != (spif_obj_t) NULL && self->len == OLD_LEN(self) - 1 && vg_exit <= (size_t) self->len &&
                   (vg_k != vg_exit || (vg_key2 == vg_key1 && __CPROVER_return_value == vg_e2)) &&
                   (vg_k >= vg_exit || (vg_key2 != vg_key1 && self->items[vg_k] == vg_e2)) &&
                   (vg_k < vg_exit || vg_k >= (size_t) self->len || self->items[vg_k] == vg_old_k2)))
;
void harness(void) { spif_array_t self; spif_obj_t item = nondet_ptr(); spif_array_map_remove(self, item); VERIF_CANARY(); }
#endif

/*@unit
name: array_has_value
define: U_HAS_VALUE, VA_COMP_KEY, VA_SLOTS_NONNULL, VA_RECORD_LAST
src: array.c, objpair.c, obj.c
native: array_map
native_includes: array.c
enforce: spif_array_has_value
backend: sat
loops: 1
*/
#ifdef U_HAS_VALUE
/* has_value(v): TRUE iff some pair's value equals v.  Ghosts: vg_e1 = v, vg_e3 = the ghost pair's
 * value object.  A TRUE answer comes from the pair compared last (vg_last_a is its value). */
static spif_bool_t spif_array_has_value(spif_array_t self, spif_obj_t value)
__CPROVER_requires(ARRAY_VALID_W(self) && MAP_PAIR_K(self) && vg_e1 == value && VA_KEYS_CONSISTENT)
__CPROVER_requires(vg_k >= (size_t) self->len || (self->items[vg_k] == vg_e2 && PAIR_K(self)->value == vg_e3 && vg_key3 == VKEYOF(PAIR_K(self)->value)))
__CPROVER_assigns(vg_last_a, vm_scratch)
__CPROVER_ensures(__CPROVER_return_value == TRUE || __CPROVER_return_value == FALSE)
__CPROVER_ensures(__CPROVER_return_value != FALSE || vg_k >= (size_t) self->len || !VM_HASV_MATCH_K)
__CPROVER_ensures(__CPROVER_return_value != TRUE ||
                  (value != (spif_obj_t) NULL && (vg_last_a != vg_e3 || vg_k >= (size_t) self->len || vg_key3 == vg_key1)))
;
void harness(void) { spif_array_t self; spif_obj_t value = nondet_ptr(); spif_array_has_value(self, value); VERIF_CANARY(); }
#endif

/*@unit
name: array_get_keys
define: U_GET_KEYS, VA_COMP_KEY, VA_SLOTS_NONNULL
src: array.c, objpair.c, obj.c
native: array_map
native_includes: array.c
enforce: spif_array_get_keys
backend: sat
loops: 1
*/
/*@unit
name: array_get_values
define: U_GET_VALUES, VA_COMP_KEY, VA_SLOTS_NONNULL
src: array.c, objpair.c, obj.c
native: array_map
native_includes: array.c
enforce: spif_array_get_values
backend: sat
loops: 1
*/
#if defined(U_GET_KEYS) || defined(U_GET_VALUES)
/* get_keys / get_values(list): exactly count items are appended to the list (a new array list if
 * none was given), in slot order = ascending key order; the item appended for slot vg_k is a
 * fresh, caller-owned copy (vg_dup_obj) of that pair's key / value; the map is not written. */
#ifdef U_GET_KEYS
# define GETFN spif_array_get_keys
# define MEMBER key
#else
# define GETFN spif_array_get_values
# define MEMBER value
#endif
static spif_list_t GETFN(spif_array_t self, spif_list_t out)
__CPROVER_requires(ARRAY_VALID_W(self) && MAP_PAIR_K(self) && (vg_k >= (size_t) self->len || self->items[vg_k] == vg_e2))
__CPROVER_requires((out == NULL || __CPROVER_is_fresh(out, sizeof(struct spif_array_t_struct))) && spif_array_listclass == &a_class)
__CPROVER_requires(vg_app_cnt == 0 && vg_dup_cnt == 0 && VELEM_VALID(vg_dup_obj))
__CPROVER_assigns(vg_cur, vg_dup_cnt, vg_app_cnt, vg_app_k, vm_scratch, __CPROVER_object_whole(vg_dup_obj))
__CPROVER_ensures(out != NULL ? __CPROVER_return_value == out
                  : (__CPROVER_is_fresh(__CPROVER_return_value, sizeof(struct spif_array_t_struct)) &&
                     ((spif_array_t) __CPROVER_return_value)->len == 0 && SPIF_OBJ_CLASS(__CPROVER_return_value) == SPIF_CLASS(&a_class)))
__CPROVER_ensures(vg_app_cnt == (size_t) self->len)
__CPROVER_ensures(vg_k >= (size_t) self->len ||
                  (vg_app_k == (spif_obj_t) vg_dup_obj && vg_dup_cnt == 1 && vg_dup_obj->key == VKEYOF(PAIR_K(self)->MEMBER)))
;
void harness(void) { spif_array_t self; spif_list_t out; GETFN(self, out); VERIF_CANARY(); }
#endif

/*@unit
name: array_set
define: U_SET, VA_COMP_KEY, VA_SLOTS_NONNULL, VM_PAIR_BY_INDEX
src: array.c, objpair.c, obj.c
native: array_map
native_includes: array.c
enforce: spif_array_set
replace: spif_array_insert
funcs: spif_objpair_new_from_both, spif_objpair_set_value
backend: sat
flags: --slice-formula
timeout: 600
loops: 1
*/
#ifdef U_SET
/* The sorted insert used by set, as seen from this call site: the contract proved for
 * spif_array_insert by C04.array_insert, instantiated for obj := the freshly built pair whose
 * integer key is vg_key1 (= the key of its key copy = the key of `key`: C03.objpair_new_from_both
 * and C03.objpair_comp).  The tie "vg_e1 == obj" of the C04 precondition cannot be asserted here
 * (the pair does not exist before the call); everything else of the precondition is. */
static spif_bool_t spif_array_insert(spif_array_t self, spif_obj_t obj)
__CPROVER_requires(ARRAY_VALID_W(self) && self->len < VCAPL && obj != (spif_obj_t) NULL && VEC_SORTED_AT_J(self, 0))
__CPROVER_requires(vg_k >= (size_t) self->len || self->items[vg_k] == vg_e2)
__CPROVER_assigns(ARRAY_FRAME(self); vg_exit)
__CPROVER_frees(self->items)
/* (contract USED at a call site: the new slot array is stated with is_fresh, which is what realloc /
 * malloc deliver; ARRAY_POST's OBJECT_SIZE / rw_ok form is for enforcing) */
__CPROVER_ensures(self->len == OLD_LEN(self) + 1 && __CPROVER_is_fresh(self->items, ASZ(self->len)))
__CPROVER_ensures(__CPROVER_return_value == TRUE && vg_exit <= (size_t) OLD_LEN(self) &&
                  self->items[vg_exit] == obj &&
                  (vg_k >= (size_t) OLD_LEN(self) || self->items[(vg_k < vg_exit) ? vg_k : vg_k + 1] == vg_e2))
__CPROVER_ensures(vg_k >= vg_exit || vg_key2 < vg_key1)
__CPROVER_ensures(vg_exit != vg_j || vg_k < vg_exit || vg_k >= (size_t) OLD_LEN(self) || vg_key1 <= vg_key2)
;

/* set(k, v), k and v bare elements:
 *   a pair with key k exists (position vg_exit): its value is replaced by a COPY of v (the old
 *     value object is freed), nothing else changes, TRUE;
 *   otherwise: a new pair holding COPIES of k and v is inserted at its sorted position vg_exit,
 *     everything else keeps its order, keys stay strictly ascending, FALSE.
 * The caller's k and v are not stored, not written, not freed (they are not in the frame). */
static spif_bool_t spif_array_set(spif_array_t self, spif_obj_t key, spif_obj_t value)
/* (is_fresh ASSIGNS the pointer it allocates: it must come before every clause that ties a ghost to it) */
__CPROVER_requires(BARE_VALID(key) && BARE_VALID(value))
__CPROVER_requires(MAP_PRE(key) && self->len < VCAPL && vg_key1 == VKEYOF(key))
__CPROVER_requires(vg_k >= (size_t) self->len || (PAIR_K(self)->value == vg_old_x && PAIR_K(self)->key == vg_old_k2))
__CPROVER_requires(spif_objpair_class == &o_class && vg_dup_cnt == 0 && VELEM_VALID(vg_dup_obj))
__CPROVER_assigns(ARRAY_FRAME(self); vg_exit, vg_cur, vg_dup_cnt, vg_newpair, vm_scratch, __CPROVER_object_whole(vg_dup_obj);
                  vg_k < (size_t) self->len: ((spif_objpair_t) self->items[vg_k])->value;
                  vg_k < (size_t) self->len: __CPROVER_object_whole(((spif_objpair_t) self->items[vg_k])->value))
__CPROVER_frees(self->items; vg_k < (size_t) self->len: ((spif_objpair_t) self->items[vg_k])->value)
__CPROVER_ensures(ARRAY_POST(self) && (__CPROVER_return_value == TRUE || __CPROVER_return_value == FALSE))
/* replaced */
#define REPL (__CPROVER_return_value == TRUE)
__CPROVER_ensures(!REPL || (self->len == OLD_LEN(self) && self->items == OLD_ITEMS(self) && vg_exit < (size_t) self->len))
__CPROVER_ensures(!REPL || vg_k >= (size_t) self->len || (self->items[vg_k] == vg_e2 && PAIR_K(self)->key == vg_old_k2))
__CPROVER_ensures(!REPL || vg_k >= vg_exit || vg_key2 != vg_key1)
__CPROVER_ensures(!REPL || vg_k >= (size_t) self->len || vg_k == vg_exit || PAIR_K(self)->value == vg_old_x)
__CPROVER_ensures(!REPL || vg_k != vg_exit ||
                  (vg_key2 == vg_key1 && PAIR_K(self)->value == (spif_obj_t) vg_dup_obj && vg_dup_obj->key == VKEYOF(value) && vg_dup_cnt == 1))
__CPROVER_ensures(!REPL || vg_k != vg_exit || __CPROVER_was_freed(vg_old_x))
/* inserted */
__CPROVER_ensures(__CPROVER_return_value != FALSE ||
                  (self->len == OLD_LEN(self) + 1 && vg_exit <= (size_t) OLD_LEN(self) &&
                   self->items[vg_exit] == (spif_obj_t) vg_newpair &&
                   __CPROVER_is_fresh(vg_newpair, sizeof(struct spif_objpair_t_struct)) && SPIF_OBJ_CLASS(vg_newpair) == spif_objpair_class &&
                   vg_newpair->key != key && vg_newpair->value != value &&
                   PKEY(vg_newpair) == VKEYOF(key) && PVAL(vg_newpair) == VKEYOF(value) &&
                   (vg_k >= (size_t) OLD_LEN(self) ||
                    (vg_key2 != vg_key1 && self->items[(vg_k < vg_exit) ? vg_k : vg_k + 1] == vg_e2 &&
                     (vg_k >= vg_exit || vg_key2 < vg_key1) &&
                     (vg_exit != vg_j || vg_k < vg_exit || vg_key1 < vg_key2)))))
;
void harness(void) { spif_array_t self; spif_obj_t key, value; spif_array_set(self, key, value); VERIF_CANARY(); }
#endif

/*@unit
name: array_get_pairs
define: U_GET_PAIRS, VA_COMP_KEY, VA_SLOTS_NONNULL, VM_DUP_IS_PAIR, VM_PAIR_BY_INDEX
src: array.c, objpair.c, obj.c
native: array_map
native_includes: array.c
enforce: spif_array_get_pairs
backend: sat
loops: 1
*/
/*@unit
name: array_map_dup
define: U_MAP_DUP, VA_COMP_KEY, VA_SLOTS_NONNULL, VM_DUP_IS_PAIR
src: array.c, objpair.c, obj.c
native: array_map
native_includes: array.c
enforce: spif_array_map_dup
backend: sat
loops: 1
*/
#ifdef U_GET_PAIRS
/* get_pairs(list): as get_keys, the item appended for slot vg_k being a fresh, caller-owned COPY of
 * the pair (own key and value copies) */
static spif_list_t spif_array_get_pairs(spif_array_t self, spif_list_t out)
__CPROVER_requires(ARRAY_VALID_W(self) && MAP_PAIR_K(self) && (vg_k >= (size_t) self->len || self->items[vg_k] == vg_e2))
__CPROVER_requires((out == NULL || __CPROVER_is_fresh(out, sizeof(struct spif_array_t_struct))) && spif_array_listclass == &a_class)
__CPROVER_requires(vg_app_cnt == 0 && vg_dup_cnt == 0 && VM_DUP_PAIR_FRESH)
__CPROVER_assigns(vg_cur, vg_dup_cnt, vg_app_cnt, vg_app_k, vm_scratch, VM_DUP_PAIR_FRAME)
__CPROVER_ensures(out != NULL ? __CPROVER_return_value == out
                  : (__CPROVER_is_fresh(__CPROVER_return_value, sizeof(struct spif_array_t_struct)) &&
                     ((spif_array_t) __CPROVER_return_value)->len == 0))
__CPROVER_ensures(vg_app_cnt == (size_t) self->len)
__CPROVER_ensures(vg_k >= (size_t) self->len || (vg_app_k == (spif_obj_t) vg_dup_pair && vg_dup_cnt == 1 && VM_DUP_PAIR_EQ_K(self)))
;
void harness(void) { spif_array_t self; spif_list_t out; spif_array_get_pairs(self, out); VERIF_CANARY(); }
#endif

#ifdef U_MAP_DUP
/* C05 for the map class: dup = fresh container, fresh slot array, slot vg_k = a fresh equal copy of
 * the pair (own key / value copies); the original is not written */
static spif_array_t spif_array_map_dup(spif_array_t self)
__CPROVER_requires(ARRAY_VALID_W(self) && MAP_PAIR_K(self) && spif_array_mapclass == &am_class && vg_dup_cnt == 0 && VM_DUP_PAIR_FRESH)
__CPROVER_assigns(vg_cur, vg_dup_cnt, vm_scratch, VM_DUP_PAIR_FRAME)
__CPROVER_ensures(__CPROVER_is_fresh(__CPROVER_return_value, sizeof(*self)))
__CPROVER_ensures(__CPROVER_return_value->len == self->len && SPIF_OBJ_CLASS(__CPROVER_return_value) == SPIF_OBJ_CLASS(self))
__CPROVER_ensures(__CPROVER_is_fresh(__CPROVER_return_value->items, ASZ(self->len)))
__CPROVER_ensures(vg_k >= (size_t) self->len ||
                  (__CPROVER_return_value->items[vg_k] == (spif_obj_t) vg_dup_pair && vg_dup_cnt == 1 && VM_DUP_PAIR_EQ_K(self)))
;
void harness(void) { spif_array_t self; spif_array_map_dup(self); VERIF_CANARY(); }
#endif
