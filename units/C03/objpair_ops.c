/* C03 / C05 / C06 (objpair): the pair class on the REAL objpair.c with real velem keys/values
 * (velem_map.h phase 1).  A pair owns COPIES of the key and value it was built from; comparison
 * is the comparison of the keys, against another pair or against a bare key. */
/*@unit
name: objpair_new_from_both
define: U_NEW_BOTH
src: objpair.c, obj.c
enforce: spif_objpair_new_from_both
funcs: spif_objpair_init_from_both
backend: sat
*/
/*@unit
name: objpair_comp
define: U_COMP
src: objpair.c, obj.c
enforce: spif_objpair_comp
backend: sat
*/
/*@unit
name: objpair_get
define: U_GET
src: objpair.c, obj.c
enforce: spif_objpair_get_value
funcs: spif_objpair_get_key
backend: sat
*/
#include "vprelude.h"
#include "velem_map.h"
#define o_class obj_o_class
#include "src/obj.c"
#undef o_class
#include "objpair.h"
#include "src/objpair.c"

#ifdef U_NEW_BOTH
/* the new pair holds fresh copies equal to key / value; the caller's objects are neither stored
 * nor written nor freed (assigns(): only fresh memory is written) */
spif_objpair_t spif_objpair_new_from_both(spif_obj_t key, spif_obj_t value)
__CPROVER_requires(BARE_VALID(key) && BARE_VALID(value) && spif_objpair_class == &o_class)
__CPROVER_assigns()
__CPROVER_ensures(__CPROVER_is_fresh(__CPROVER_return_value, sizeof(struct spif_objpair_t_struct)))
__CPROVER_ensures(SPIF_OBJ_CLASS(__CPROVER_return_value) == spif_objpair_class)
__CPROVER_ensures(__CPROVER_is_fresh(__CPROVER_return_value->key, sizeof(struct velem_struct)) &&
                  __CPROVER_is_fresh(__CPROVER_return_value->value, sizeof(struct velem_struct)))
__CPROVER_ensures(PKEY(__CPROVER_return_value) == VKEYOF(key) && PVAL(__CPROVER_return_value) == VKEYOF(value))
__CPROVER_ensures(__CPROVER_return_value->key != key && __CPROVER_return_value->value != value)
;
void harness(void) { spif_obj_t k, v; spif_objpair_new_from_both(k, v); VERIF_CANARY(); }
#endif

#ifdef U_COMP
/* comp(pair, other): NULL ordering first, then the keys: other's key if other is a pair, other
 * itself if it is a bare key */
spif_cmp_t spif_objpair_comp(spif_objpair_t self, spif_obj_t other)
__CPROVER_requires(self == NULL || PAIR_VALID(self))
__CPROVER_requires(other == NULL || (vg_n1 == 0 ? PAIR_VALID((spif_objpair_t) other) : BARE_VALID(other)))
__CPROVER_requires(spif_objpair_class == &o_class)
__CPROVER_assigns()
__CPROVER_ensures(!(self == NULL || other == NULL) ||
                  __CPROVER_return_value == ((self == NULL && other == NULL) ? SPIF_CMP_EQUAL : (self == NULL ? SPIF_CMP_LESS : SPIF_CMP_GREATER)))
__CPROVER_ensures(self == NULL || other == NULL ||
                  __CPROVER_return_value == ((vg_n1 == 0) ? VCMP3(PKEY(self), PKEY(other)) : VCMP3(PKEY(self), VKEYOF(other))))
;
void harness(void) { spif_objpair_t p; spif_obj_t o; spif_objpair_comp(p, o); VERIF_CANARY(); }
#endif

#ifdef U_GET
spif_obj_t spif_objpair_get_value(spif_objpair_t self)
__CPROVER_requires(PAIR_VALID(self)) __CPROVER_assigns() __CPROVER_ensures(__CPROVER_return_value == self->value);
spif_obj_t spif_objpair_get_key(spif_objpair_t self)
__CPROVER_requires(PAIR_VALID(self)) __CPROVER_assigns() __CPROVER_ensures(__CPROVER_return_value == self->key);
void harness(void) { spif_objpair_t p; spif_objpair_get_value(p); VERIF_CANARY(); }
#endif
