/* C15: MALLOC / CALLOC / REALLOC / FREE / STRDUP have the same allocation semantics with tracking
 * compiled out (DEBUG 4: the macros expand to libc calls) and compiled in (DEBUG 5: they expand to
 * the spifmem_* wrappers).  All units here are loop-free.
 *
 *   macro.d4.*       the DEBUG 4 expansions meet the allocation contract (the SAME clauses as the
 *                    allocation clauses of the spifmem_* contracts in contracts/mem.h, which the
 *                    wrappers.c units prove for the DEBUG 5 build at both runtime levels)
 *   macro.d5.map     the DEBUG 5 expansions are calls of the wrappers with the pointer / size
 *                    arguments passed through unchanged, a valid file name and a line that fits the
 *                    record's 32-bit field; FREE() also resets the variable (both builds)
 *   macro.null0.*    REALLOC(NULL, 0): returns NULL and allocates nothing in the DEBUG 4 build; the
 *                    same statement about spifmem_realloc is the open finding C15-realloc-null-0
 */

/*@unit
name: macro.d4.realloc
define: U_D4, U_M_REALLOC, VERIF_MEMHASH_REALLOC_ELEM_T=char
debug: 4
enforce: verif_REALLOC
backend: sat
timeout: 120
native: mem
native_includes: mem.c
*/
/*@unit
name: macro.d4.malloc
define: U_D4, U_M_MALLOC
debug: 4
enforce: verif_MALLOC
backend: sat
timeout: 120
native: mem
native_includes: mem.c
*/
/*@unit
name: macro.d4.calloc
define: U_D4, U_M_CALLOC
debug: 4
enforce: verif_CALLOC
backend: z3,sat
timeout: 120
native: mem
native_includes: mem.c
*/
/*@unit
name: macro.d4.free
define: U_D4, U_M_FREE
debug: 4
enforce: verif_FREE
backend: sat
timeout: 120
native: mem
native_includes: mem.c
*/
/*@unit
name: macro.null0.d4
define: U_D4, U_M_NULL0, VERIF_MEMHASH_REALLOC_ELEM_T=char
debug: 4
enforce: verif_REALLOC
backend: sat
timeout: 120
native: mem
native_includes: mem.c
*/
/*@unit
name: macro.d5.map
define: U_D5MAP
debug: 5
backend: sat
timeout: 120
funcs: spifmem_malloc, spifmem_calloc, spifmem_realloc, spifmem_free, spifmem_strdup
*/
/*@unit
name: macro.null0.d5.off
define: U_D5NULL0, U_LEVEL_OFF, U_NO_MEM_WRAPPER_CONTRACTS
debug: 5
src: mem.c
enforce: spifmem_realloc
replace: memrec_add_var, memrec_rem_var, memrec_chg_var
backend: sat
timeout: 200
native: mem
native_includes: mem.c
*/
/*@unit
name: macro.null0.d5.on
define: U_D5NULL0, U_LEVEL_ON, U_NO_MEM_WRAPPER_CONTRACTS, MEM_PART=1
debug: 5
src: mem.c
enforce: spifmem_realloc
replace: memrec_add_var, memrec_rem_var, memrec_chg_var
backend: sat
timeout: 280
mem: 14
native: mem
native_includes: mem.c
*/
#include "vprelude.h"
#include "env_memhash.h"

unsigned long w_sz, w_n2;

/* ------------------------------------------------------------------------------------------------ */
#if defined(U_D4)
# if DEBUG != 4
#  error "DEBUG 4 unit"
# endif
/* the macros under test, wrapped in functions so that a contract can be attached */
void *verif_MALLOC(size_t sz) { return MALLOC(sz); }
typedef struct { long a[3]; } vg_t24;
void *verif_CALLOC(size_t n) { return CALLOC(vg_t24, n); }
void *verif_REALLOC(void *mem, size_t sz) { return REALLOC(mem, sz); }
void *verif_FREE(void *ptr) { FREE(ptr); return ptr; }

void *verif_MALLOC(size_t sz)
__CPROVER_requires(sz <= (size_t) VCAP)
__CPROVER_assigns()
__CPROVER_ensures(__CPROVER_is_fresh(__CPROVER_return_value, sz))
;
void *verif_REALLOC(void *mem, size_t sz)
__CPROVER_requires(sz <= (size_t) VCAP && vg_n2 <= (size_t) VCAP && (mem == NULL || __CPROVER_is_fresh(mem, vg_n2)))
# ifdef U_M_NULL0
__CPROVER_requires(mem == NULL && sz == 0)
# endif
__CPROVER_assigns()
__CPROVER_frees(mem)
/* the allocation clauses of spifmem_realloc's contract (contracts/mem.h), word for word */
__CPROVER_ensures(!(mem == NULL && sz != 0) || __CPROVER_is_fresh(__CPROVER_return_value, sz))
__CPROVER_ensures(!(mem != NULL && sz == 0) || (__CPROVER_return_value == NULL && __CPROVER_was_freed(mem)))
__CPROVER_ensures(!(mem != NULL && sz != 0) || (__CPROVER_is_fresh(__CPROVER_return_value, sz) && __CPROVER_was_freed(mem)))
# ifdef U_M_NULL0
/* REALLOC(NULL, 0) with tracking compiled out: nothing is allocated */
__CPROVER_ensures(__CPROVER_return_value == NULL)
# endif
;
void *verif_FREE(void *ptr)
__CPROVER_requires(vg_n2 <= (size_t) VCAP && (ptr == NULL || __CPROVER_is_fresh(ptr, vg_n2)))
__CPROVER_assigns()
__CPROVER_frees(ptr)
__CPROVER_ensures(ptr == NULL || __CPROVER_was_freed(ptr))
__CPROVER_ensures(__CPROVER_return_value == NULL)      /* FREE() resets the variable */
;
void *verif_CALLOC(size_t n)
__CPROVER_requires(n <= 0xffffUL)
__CPROVER_assigns()
__CPROVER_ensures(__CPROVER_is_fresh(__CPROVER_return_value, n * sizeof(vg_t24)))
__CPROVER_ensures(!(vg_k2 < n * sizeof(vg_t24)) || ((char *) __CPROVER_return_value)[vg_k2] == 0)
;
void harness(void)
{
    void *p; size_t sz = nondet_size_t(), n = nondet_size_t();
    w_sz = sz; w_n2 = vg_n2;
# if defined(U_M_MALLOC)
    verif_MALLOC(sz);
# elif defined(U_M_REALLOC) || defined(U_M_NULL0)
    verif_REALLOC(p, sz);
# elif defined(U_M_FREE)
    verif_FREE(p);
# elif defined(U_M_CALLOC)
    verif_CALLOC(n);
# endif
    VERIF_CANARY();
}
#endif

/* ------------------------------------------------------------------------------------------------ */
#if defined(U_D5MAP)
# if DEBUG != 5
#  error "DEBUG 5 unit"
# endif
/* recording stubs in place of the wrappers (mem.c is not part of this unit) */
const char *r_var, *r_file, *r_str; unsigned long r_line; void *r_ptr; size_t r_size, r_count; int r_which;
void *r_ret;
static void r_file_ok(const char *f, unsigned long line)
{
    __CPROVER_assert(f != NULL && __CPROVER_r_ok(f, 1) && strlen(f) < 4096, "file argument is a valid C string (__FILE__)");
    __CPROVER_assert(line >= 1 && line <= 0xffffffffUL, "line argument fits the record's 32-bit field");
}
void *spifmem_malloc(const char *filename, unsigned long line, size_t size)
{ r_which = 1; r_file = filename; r_line = line; r_size = size; r_file_ok(filename, line); return r_ret; }
void *spifmem_calloc(const char *filename, unsigned long line, size_t count, size_t size)
{ r_which = 2; r_file = filename; r_line = line; r_count = count; r_size = size; r_file_ok(filename, line); return r_ret; }
void *spifmem_realloc(const char *var, const char *filename, unsigned long line, void *ptr, size_t size)
{ r_which = 3; r_var = var; r_file = filename; r_line = line; r_ptr = ptr; r_size = size; r_file_ok(filename, line); return r_ret; }
void spifmem_free(const char *var, const char *filename, unsigned long line, void *ptr)
{ r_which = 4; r_var = var; r_file = filename; r_line = line; r_ptr = ptr; r_file_ok(filename, line); }
char *spifmem_strdup(const char *var, const char *filename, unsigned long line, const char *str)
{ r_which = 5; r_var = var; r_file = filename; r_line = line; r_str = str; r_file_ok(filename, line); return r_ret; }

typedef struct { long a[3]; } vg_t24;
void harness(void)
{
    void *p = nondet_ptr(), *q; size_t sz = nondet_size_t(), n = nondet_size_t(); const char *s = nondet_ptr();
    r_ret = nondet_ptr();

    q = MALLOC(sz);
    __CPROVER_assert(r_which == 1 && r_size == sz && q == r_ret, "MALLOC(sz) is spifmem_malloc(__FILE__, __LINE__, sz)");
    q = CALLOC(vg_t24, n);
    __CPROVER_assert(r_which == 2 && r_count == n && r_size == sizeof(vg_t24) && q == r_ret, "CALLOC(type, n) is spifmem_calloc(__FILE__, __LINE__, n, sizeof(type))");
    q = REALLOC(p, sz);
    __CPROVER_assert(r_which == 3 && r_ptr == p && r_size == sz && q == r_ret, "REALLOC(mem, sz) is spifmem_realloc(\"mem\", __FILE__, __LINE__, mem, sz)");
    q = STRDUP(s);
    __CPROVER_assert(r_which == 5 && r_str == s && q == r_ret, "STRDUP(s) is spifmem_strdup(\"s\", __FILE__, __LINE__, s)");
    q = p;
    FREE(q);
    __CPROVER_assert(r_which == 4 && r_ptr == p && q == NULL, "FREE(ptr) is spifmem_free(\"ptr\", __FILE__, __LINE__, ptr); ptr = NULL");
    VERIF_CANARY();
}
#endif

/* ------------------------------------------------------------------------------------------------ */
#if defined(U_D5NULL0)
# if DEBUG != 5
#  error "DEBUG 5 unit"
# endif
# include "src/mem.c"
# include "mem.h"
/* what the DEBUG 4 build does for REALLOC(NULL, 0) (unit macro.null0.d4): returns NULL, allocates and
 * records nothing.  The tracking build calls spifmem_malloc(0) instead (open finding). */
void *spifmem_realloc(const char *var, const char *filename, unsigned long line, void *ptr, size_t size)
__CPROVER_requires(MEM_LEVEL_REQ && ptr == NULL && size == 0)
__CPROVER_requires(MEMREC_PRE(MEM_TAB) && malloc_rec.cnt < MEMREC_CAP)
__CPROVER_requires(MEM_FNAME_PRE(filename) && line <= 0xffffffffUL)
__CPROVER_assigns(malloc_rec.cnt, malloc_rec.ptrs, vg_exit, vg_fidx)
__CPROVER_assigns(malloc_rec.ptrs != NULL: __CPROVER_object_whole(malloc_rec.ptrs))
__CPROVER_frees(malloc_rec.ptrs)
__CPROVER_ensures(__CPROVER_return_value == NULL)
__CPROVER_ensures(malloc_rec.cnt == __CPROVER_old(malloc_rec.cnt))
;
void harness(void)
{
    const char *fname, *var = nondet_ptr(); unsigned long line = nondet_ulong();
    __CPROVER_assume(vg_k <= SPIFMEM_FNAME_LEN);
    __CPROVER_assume(vg_r < MEMREC_CAP && vg_r2 < MEMREC_CAP);
    spifmem_realloc(var, fname, line, NULL, 0);
    VERIF_CANARY();
}
#endif
