/* Native replay of the C15 units (owner memhash).  Built by the driver with the unit's `debug:` shadow
 * config.h first in the include path and the unit's -D flags; mem.c is #included (unit field
 * native_includes: mem.c), so the file-local tables are in reach.
 *
 * The contract units fail on obligations about a symbolic table; what the witness gives are scalars
 * (W_w_cnt record count, W_w_r ghost index, W_w_size ...).  Instead of rebuilding one state, the template
 * SWEEPS small histories on the REAL functions and compares the tracker table with an IDEAL LIVE-SET
 * MODEL after every step (exit 3 on the first difference, ASan/UBSan judge memory safety = exit 66):
 *   for every table of n = 0..4 records (the witness count first, when <= 8), built with the real
 *   spifmem_malloc / spifmem_calloc / spifmem_strdup at runtime level DEBUG_MEM, with file names shorter
 *   and longer than 20 characters,
 *   for every victim: NULL, a heap pointer that is not recorded, each recorded pointer,
 *   one of: spifmem_free, spifmem_realloc(p, 0), spifmem_realloc(p, n), spifmem_realloc(NULL, n),
 *           memrec_rem_var, memrec_chg_var, memrec_find_var, memrec_add_var
 *   at runtime level DEBUG_MEM (table must follow the model) and below it (table must not change).
 * DEBUG 4 builds (macro.d4.* units) check the MALLOC/CALLOC/REALLOC/FREE macros against the same
 * allocation semantics: fresh block of the size, zeroed for CALLOC, old block RELEASED (ASan's shadow
 * tells whether a block is still live), REALLOC(p, 0) == NULL, FREE() resets the variable. */
#include <libast_internal.h>
#include <sanitizer/asan_interface.h>
#include "vnative.h"
#include <src/mem.c>          /* -I<repo under test>: the real file (this template is itself called mem.c) */

#define FAILS(...) do { fprintf(stderr, "NATIVE-REPLAY: obligation fails on the real code: "); fprintf(stderr, __VA_ARGS__); \
                        fprintf(stderr, "\n"); exit(3); } while (0)
#define NMAXREC 8

static int released(void *p) { return __asan_address_is_poisoned(p); }

/* ---- ideal model: the live tracked blocks, in allocation order -------------------------------- */
typedef struct { void *ptr; size_t size; char file[SPIFMEM_FNAME_LEN + 1]; unsigned long line; } ideal_t;
static ideal_t M[64]; static size_t Mn;

static void m_set(ideal_t *e, void *p, size_t sz, const char *f, unsigned long line)
{
    e->ptr = p; e->size = sz; e->line = line;
    memset(e->file, 0, sizeof(e->file)); strncpy(e->file, f, SPIFMEM_FNAME_LEN);
}
static void m_add(void *p, size_t sz, const char *f, unsigned long line) { m_set(&M[Mn++], p, sz, f, line); }
static long m_find(const void *p) { size_t i; if (!p) return -1; for (i = 0; i < Mn; i++) if (M[i].ptr == p) return (long) i; return -1; }
static void m_rem(const void *p) { long i = m_find(p); if (i < 0) return; memmove(&M[i], &M[i + 1], sizeof(M[0]) * (Mn - i - 1)); Mn--; }
static void m_chg(const void *o, void *n, size_t sz, const char *f, unsigned long line) { long i = m_find(o); if (i >= 0) m_set(&M[i], n, sz, f, line); }

static void check(const char *what)
{
    size_t i, j;
    if (malloc_rec.cnt != Mn) FAILS("%s: table has %lu records, the live set has %lu", what, (unsigned long) malloc_rec.cnt, (unsigned long) Mn);
    for (i = 0; i < Mn; i++) {
        spifmem_ptr_t *r = &malloc_rec.ptrs[i];             /* ASan: table shorter than cnt records */
        if (r->ptr != M[i].ptr) FAILS("%s: record %lu holds another address than live block %lu", what, (unsigned long) i, (unsigned long) i);
        if (r->size != M[i].size) FAILS("%s: record %lu: size %lu, last requested %lu", what, (unsigned long) i, (unsigned long) r->size, (unsigned long) M[i].size);
        if (r->line != (spif_uint32_t) M[i].line) FAILS("%s: record %lu: line", what, (unsigned long) i);
        if (memchr(r->file, 0, sizeof(r->file)) == NULL || strcmp((char *) r->file, M[i].file)) FAILS("%s: record %lu: file name is not the name truncated to 20 characters", what, (unsigned long) i);
        for (j = 0; j < i; j++) if (malloc_rec.ptrs[j].ptr == r->ptr) FAILS("%s: records %lu and %lu hold the same address", what, (unsigned long) j, (unsigned long) i);
    }
}

static const char *FN_SHORT = "a.c", *FN_LONG = "a_rather_long_directory/and_file_name.c";

static void reset(void)
{
    /* forget everything (user blocks are leaked on purpose: the code under test may be broken) */
    free(malloc_rec.ptrs); malloc_rec.ptrs = NULL; malloc_rec.cnt = 0; Mn = 0;
}

static void build(size_t n)
{
    size_t i;
    reset();
    libast_debug_level = DEBUG_MEM;
    for (i = 0; i < n; i++) {
        const char *f = (i & 1) ? FN_LONG : FN_SHORT; void *p; size_t sz = 8 + 3 * i;
        switch (i % 3) {
            case 0:  p = spifmem_malloc(f, 100 + i, sz); break;
            case 1:  p = spifmem_calloc(f, 100 + i, sz, 2); sz *= 2;
                     { size_t k; for (k = 0; k < sz; k++) if (((char *) p)[k]) FAILS("calloc: block not zeroed"); } break;
            default: p = spifmem_strdup("s", f, 100 + i, "0123456789"); sz = 11;
                     if (strcmp((char *) p, "0123456789")) FAILS("strdup: copy differs"); break;
        }
        if (!p) FAILS("allocation wrapper returned NULL");
        m_add(p, sz, f, 100 + i);
        check("after a tracked allocation");
    }
}

enum { OP_FREE, OP_REALLOC0, OP_REALLOCN, OP_REALLOCNULL, OP_REM, OP_CHG, OP_FIND, OP_ADD, OP_LAST };

static void step(size_t n, long victim, int op, unsigned level)
{
    void *p, *q; int tracked; static char stray_store[4]; (void) stray_store;
    build(n);
    if (victim == -2) p = NULL;
    else if (victim == -1) p = malloc(24);                 /* a live heap block the tracker never saw */
    else p = M[victim].ptr;
    tracked = (victim >= 0);
    libast_debug_level = level;
    switch (op) {
        case OP_FREE:
            spifmem_free("p", FN_LONG, 7, p);
            if (p && !released(p)) FAILS("spifmem_free: block not released");
            if (level >= DEBUG_MEM) m_rem(p);
            break;
        case OP_REALLOC0:
            q = spifmem_realloc("p", FN_LONG, 7, p, 0);
            if (p) { if (q != NULL) FAILS("realloc(p, 0) returns NULL"); if (!released(p)) FAILS("realloc(p, 0): block not released"); if (level >= DEBUG_MEM) m_rem(p); }
            else { if (q != NULL) FAILS("realloc(NULL, 0) returns NULL and allocates nothing"); }
            break;
        case OP_REALLOCN:
            if (!p) return;
            q = spifmem_realloc("p", FN_SHORT, 9, p, 40);
            if (!q) FAILS("realloc(p, n) returns a block");
            memset(q, 1, 40);                                /* ASan: block shorter than requested */
            if (q != p && !released(p)) FAILS("realloc(p, n): old block not released");
            if (level >= DEBUG_MEM) m_chg(p, q, 40, FN_SHORT, 9);
            break;
        case OP_REALLOCNULL:
            if (victim != -2) return;
            q = spifmem_realloc("p", FN_LONG, 11, NULL, 33);
            if (!q) FAILS("realloc(NULL, n) allocates");
            memset(q, 1, 33);
            if (level >= DEBUG_MEM) m_add(q, 33, FN_LONG, 11);
            break;
        case OP_REM:
            memrec_rem_var(&malloc_rec, "p", FN_SHORT, 5, p);
            m_rem(p);
            break;
        case OP_CHG:
            q = malloc(16);
            memrec_chg_var(&malloc_rec, "p", FN_LONG, 6, p, q, 16);
            m_chg(p, q, 16, FN_LONG, 6);
            break;
        case OP_FIND: {
            spifmem_ptr_t *r = memrec_find_var(&malloc_rec, p);
            long i = m_find(p);
            if ((r == NULL) != (i < 0)) FAILS("memrec_find_var: found iff recorded");
            if (r && r != malloc_rec.ptrs + i) FAILS("memrec_find_var: returns the record of the pointer");
            break; }
        case OP_ADD:
            if (tracked || !p) return;
            memrec_add_var(&malloc_rec, FN_LONG, 12, p, 24);
            m_add(p, 24, FN_LONG, 12);
            break;
    }
    check(level >= DEBUG_MEM ? "after the operation at tracking level" : "after the operation below tracking level (table must be untouched)");
}

static void sweep_table(size_t n)
{
    long v; int op;
    for (v = -2; v < (long) n; v++)
        for (op = 0; op < OP_LAST; op++) {
            step(n, v, op, DEBUG_MEM);
            if (op <= OP_REALLOCNULL) step(n, v, op, DEBUG_MEM - 1);     /* the wrappers are the level-gated ones */
        }
}

int main(void)
{
    size_t wc = (size_t) vn_get("w_cnt", 0), n;
#if DEBUG >= DEBUG_MEM
    if (wc <= NMAXREC) sweep_table(wc);
    for (n = 0; n <= 4; n++) sweep_table(n);
#else
    /* DEBUG 4: the macros are the libc calls; same allocation semantics as the spifmem_* contracts */
    {
        size_t sz; char *p, *q; typedef struct { long a[3]; } t24; (void) wc; (void) n;
        for (sz = 0; sz <= 40; sz += 8) {
            p = MALLOC(sz ? sz : 1); memset(p, 1, sz ? sz : 1);
            q = REALLOC(p, sz);
            if (sz == 0) { if (q != NULL) FAILS("REALLOC(p, 0) returns NULL"); if (!released(p)) FAILS("REALLOC(p, 0) releases the block"); }
            else { if (!q) FAILS("REALLOC(p, n) returns a block"); memset(q, 2, sz); if (q != p && !released(p)) FAILS("REALLOC(p, n) releases the old block"); FREE(q); if (q != NULL) FAILS("FREE() resets the variable"); }
            q = REALLOC(NULL, sz);
            if (sz == 0) { if (q != NULL) FAILS("REALLOC(NULL, 0) returns NULL"); }
            else { if (!q) FAILS("REALLOC(NULL, n) allocates"); memset(q, 3, sz); p = q; FREE(q); if (!released(p)) FAILS("FREE() releases the block"); }
            q = (char *) CALLOC(t24, sz / 8 + 1);
            { size_t k; for (k = 0; k < sizeof(t24) * (sz / 8 + 1); k++) if (q[k]) FAILS("CALLOC zeroes the block"); }
            FREE(q);
        }
    }
#endif
    return 0;
}
