/* C15: the five tracked allocation wrappers relate the tracker table (static malloc_rec) to the
 * allocator at runtime level >= DEBUG_MEM (units *.on.*) and leave it untouched below (units *.off:
 * empty frame).  Compiled with DEBUG 5.  Callees memrec_add_var / memrec_rem_var / memrec_chg_var are
 * represented by the contracts proved in table.c.  Contracts: contracts/mem.h. */

/*@unit
name: malloc.off
define: U_MALLOC, U_LEVEL_OFF
debug: 5
src: mem.c
enforce: spifmem_malloc
backend: sat
timeout: 200
*/
/*@unit
name: malloc.on.shape
define: U_MALLOC, MEM_ENF_MALLOC, U_LEVEL_ON, MEM_PART=1
debug: 5
src: mem.c
enforce: spifmem_malloc
replace: memrec_add_var
backend: sat
timeout: 280
mem: 14
*/
/*@unit
name: malloc.on.records
define: U_MALLOC, MEM_ENF_MALLOC, U_LEVEL_ON, MEM_PART=2
debug: 5
src: mem.c
enforce: spifmem_malloc
replace: memrec_add_var
backend: sat
timeout: 280
mem: 14
*/
/*@unit
name: malloc.on.nodup
define: U_MALLOC, MEM_ENF_MALLOC, U_LEVEL_ON, MEM_PART=3
debug: 5
src: mem.c
enforce: spifmem_malloc
replace: memrec_add_var
backend: sat
timeout: 280
mem: 14
*/
#include "vprelude.h"
#include "env_memhash.h"
#include "src/mem.c"
#include "mem.h"

#if DEBUG != 5
# error "C15 wrapper units are compiled against the DEBUG 5 shadow config.h"
#endif

unsigned long w_cnt, w_r, w_r2, w_line, w_size, w_level;

void harness(void)
{
    const char *fname, *var = nondet_ptr(); void *ptr; const char *str;
    unsigned long line = nondet_ulong(); size_t size = nondet_size_t(), count = nondet_size_t();

    __CPROVER_assume(vg_k <= SPIFMEM_FNAME_LEN);
    __CPROVER_assume(vg_r < MEMREC_CAP && vg_r2 < MEMREC_CAP);
    w_cnt = malloc_rec.cnt; w_r = vg_r; w_r2 = vg_r2; w_line = line; w_size = size; w_level = libast_debug_level;
#if defined(U_MALLOC)
    spifmem_malloc(fname, line, size);
#elif defined(U_CALLOC)
    spifmem_calloc(fname, line, count, size);
#elif defined(U_FREE)
    spifmem_free(var, fname, line, ptr);
#elif defined(U_REALLOC)
    spifmem_realloc(var, fname, line, ptr, size);
#elif defined(U_STRDUP)
    spifmem_strdup(var, fname, line, str);
#endif
    VERIF_CANARY();
}
