/* C15: the five tracked allocation wrappers relate the tracker table (static malloc_rec) to the
 * allocator at runtime level >= DEBUG_MEM (units *.on.*) and leave it untouched below (units *.off:
 * empty frame).  Compiled with DEBUG 5.  Callees memrec_add_var / memrec_rem_var / memrec_chg_var are
 * represented by the contracts proved in table.c.  Contracts: contracts/mem.h.
 * spifmem_free and the realloc(p, 0) behaviour run memrec_rem_var's memmove: like table.rem_var.cnt* they are
 * BOUNDED units (constant record count, everything inlined, loops unwound).
 * spifmem_realloc's callees spifmem_malloc / spifmem_free are inlined (real bodies): cbmc 6.11 rejects
 * __CPROVER_was_freed in the ensures clause of a REPLACED contract ("requires ptr to always exist in the
 * contract's frees clause" fails even on a 10-line example), so spifmem_free's contract cannot be used
 * at a call site. */

/*@unit
name: malloc.off
define: U_MALLOC, U_LEVEL_OFF
debug: 5
src: mem.c
enforce: spifmem_malloc
replace: memrec_add_var
backend: sat
timeout: 200
mem: 8
native: mem
native_includes: mem.c
*/
/*@unit
name: malloc.on.shape
define: U_MALLOC, U_LEVEL_ON, MEM_PART=1
debug: 5
src: mem.c
enforce: spifmem_malloc
replace: memrec_add_var
backend: sat
timeout: 600
mem: 14
native: mem
native_includes: mem.c
*/
/*@unit
name: malloc.on.records
define: U_MALLOC, U_LEVEL_ON, MEM_PART=2
debug: 5
src: mem.c
enforce: spifmem_malloc
replace: memrec_add_var
backend: sat
timeout: 600
mem: 14
native: mem
native_includes: mem.c
*/
/*@unit
name: malloc.on.nodup
define: U_MALLOC, U_LEVEL_ON, MEM_PART=3
debug: 5
src: mem.c
enforce: spifmem_malloc
replace: memrec_add_var
backend: sat
timeout: 600
mem: 14
native: mem
native_includes: mem.c
*/
/*@unit
name: calloc.off
define: U_CALLOC, MEM_CALLOC_ELEM=24, U_LEVEL_OFF
debug: 5
src: mem.c
enforce: spifmem_calloc
replace: memrec_add_var
backend: sat
tier: B
bound: element size fixed to 24 bytes (count symbolic up to 65535, table size symbolic)
timeout: 200
mem: 8
native: mem
native_includes: mem.c
*/
/*@unit
name: calloc.on.shape
define: U_CALLOC, MEM_CALLOC_ELEM=24, U_LEVEL_ON, MEM_PART=1
debug: 5
src: mem.c
enforce: spifmem_calloc
replace: memrec_add_var
backend: sat
tier: B
bound: element size fixed to 24 bytes (count symbolic up to 65535, table size symbolic)
timeout: 600
mem: 14
native: mem
native_includes: mem.c
*/
/*@unit
name: calloc.on.records
define: U_CALLOC, MEM_CALLOC_ELEM=24, U_LEVEL_ON, MEM_PART=2
debug: 5
src: mem.c
enforce: spifmem_calloc
replace: memrec_add_var
backend: sat
tier: B
bound: element size fixed to 24 bytes (count symbolic up to 65535, table size symbolic)
timeout: 600
mem: 14
native: mem
native_includes: mem.c
*/
/*@unit
name: calloc.on.nodup
define: U_CALLOC, MEM_CALLOC_ELEM=24, U_LEVEL_ON, MEM_PART=3
debug: 5
src: mem.c
enforce: spifmem_calloc
replace: memrec_add_var
backend: sat
tier: B
bound: element size fixed to 24 bytes (count symbolic up to 65535, table size symbolic)
timeout: 600
mem: 14
native: mem
native_includes: mem.c
*/
/*@unit
name: free.off
define: U_FREE, U_LEVEL_OFF
debug: 5
src: mem.c
enforce: spifmem_free
replace: memrec_rem_var
backend: sat
timeout: 200
mem: 8
native: mem
native_includes: mem.c
*/
/*@unit
name: realloc.off
define: U_REALLOC, U_LEVEL_OFF
debug: 5
src: mem.c
enforce: spifmem_realloc
replace: memrec_add_var, memrec_rem_var, memrec_chg_var
backend: sat
timeout: 200
mem: 8
native: mem
native_includes: mem.c
*/
/*@unit
name: realloc.null.on.shape
define: U_REALLOC, U_RB_NULL, U_LEVEL_ON, MEM_PART=1, VERIF_MEMHASH_REALLOC_ELEM_T=spifmem_ptr_t
debug: 5
src: mem.c
enforce: spifmem_realloc
replace: memrec_add_var, memrec_rem_var, memrec_chg_var
backend: sat
timeout: 600
mem: 14
native: mem
native_includes: mem.c
*/
/*@unit
name: realloc.null.on.records
define: U_REALLOC, U_RB_NULL, U_LEVEL_ON, MEM_PART=2, VERIF_MEMHASH_REALLOC_ELEM_T=spifmem_ptr_t
debug: 5
src: mem.c
enforce: spifmem_realloc
replace: memrec_add_var, memrec_rem_var, memrec_chg_var
backend: sat
timeout: 600
mem: 14
native: mem
native_includes: mem.c
*/
/*@unit
name: realloc.null.on.nodup
define: U_REALLOC, U_RB_NULL, U_LEVEL_ON, MEM_PART=3, VERIF_MEMHASH_REALLOC_ELEM_T=spifmem_ptr_t
debug: 5
src: mem.c
enforce: spifmem_realloc
replace: memrec_add_var, memrec_rem_var, memrec_chg_var
backend: sat
timeout: 600
mem: 14
native: mem
native_includes: mem.c
*/
/*@unit
name: realloc.move.on.shape
define: U_REALLOC, U_RB_MOVE, U_LEVEL_ON, MEM_PART=1, VERIF_MEMHASH_REALLOC_ELEM_T=spifmem_ptr_t
debug: 5
src: mem.c
enforce: spifmem_realloc
replace: memrec_add_var, memrec_rem_var, memrec_chg_var
backend: sat
timeout: 600
mem: 14
native: mem
native_includes: mem.c
*/
/*@unit
name: realloc.move.on.records
define: U_REALLOC, U_RB_MOVE, U_LEVEL_ON, MEM_PART=2, VERIF_MEMHASH_REALLOC_ELEM_T=spifmem_ptr_t
debug: 5
src: mem.c
enforce: spifmem_realloc
replace: memrec_add_var, memrec_rem_var, memrec_chg_var
backend: sat
timeout: 600
mem: 14
native: mem
native_includes: mem.c
*/
/*@unit
name: realloc.move.on.nodup
define: U_REALLOC, U_RB_MOVE, U_LEVEL_ON, MEM_PART=3, VERIF_MEMHASH_REALLOC_ELEM_T=spifmem_ptr_t
debug: 5
src: mem.c
enforce: spifmem_realloc
replace: memrec_add_var, memrec_rem_var, memrec_chg_var
backend: sat
timeout: 600
mem: 14
native: mem
native_includes: mem.c
*/
/*@unit
name: strdup.off
define: U_STRDUP, U_LEVEL_OFF, VERIF_OWN_STRLEN, VERIF_MEMHASH_STRLEN_GHOST
debug: 5
src: mem.c
enforce: spifmem_strdup
replace: spifmem_malloc
backend: sat
timeout: 200
mem: 8
native: mem
native_includes: mem.c
*/
/*@unit
name: strdup.on.shape
define: U_STRDUP, U_LEVEL_ON, MEM_PART=1, VERIF_OWN_STRLEN, VERIF_MEMHASH_STRLEN_GHOST
debug: 5
src: mem.c
enforce: spifmem_strdup
replace: spifmem_malloc
backend: sat
timeout: 600
mem: 14
native: mem
native_includes: mem.c
*/
/*@unit
name: strdup.on.records
define: U_STRDUP, U_LEVEL_ON, MEM_PART=2, VERIF_OWN_STRLEN, VERIF_MEMHASH_STRLEN_GHOST
debug: 5
src: mem.c
enforce: spifmem_strdup
replace: spifmem_malloc
backend: sat
timeout: 600
mem: 14
native: mem
native_includes: mem.c
*/
/*@unit
name: strdup.on.nodup
define: U_STRDUP, U_LEVEL_ON, MEM_PART=3, VERIF_OWN_STRLEN, VERIF_MEMHASH_STRLEN_GHOST
debug: 5
src: mem.c
enforce: spifmem_strdup
replace: spifmem_malloc
backend: sat
timeout: 600
mem: 14
native: mem
native_includes: mem.c
*/
/*@unit
name: free.on.cnt0
define: U_FREE, U_LEVEL_ON, MEMREC_HARNESS_CNT=0, VERIF_MEMHASH_REALLOC_ELEM_T=spifmem_ptr_t, VERIF_MEMHASH_MEMMOVE_LOOP
debug: 5
src: mem.c
enforce: spifmem_free
backend: sat
tier: B
bound: tracker table of exactly 0 records (cnt <= 3 over the units free.on.cnt0..cnt3); pointers, record contents, ghost indices symbolic
unwind: 8
timeout: 400
mem: 14
native: mem
native_includes: mem.c
*/
/*@unit
name: free.on.cnt1
define: U_FREE, U_LEVEL_ON, MEMREC_HARNESS_CNT=1, VERIF_MEMHASH_REALLOC_ELEM_T=spifmem_ptr_t, VERIF_MEMHASH_MEMMOVE_LOOP
debug: 5
src: mem.c
enforce: spifmem_free
backend: sat
tier: B
bound: tracker table of exactly 1 records (cnt <= 3 over the units free.on.cnt0..cnt3); pointers, record contents, ghost indices symbolic
unwind: 8
timeout: 400
mem: 14
native: mem
native_includes: mem.c
*/
/*@unit
name: free.on.cnt2
define: U_FREE, U_LEVEL_ON, MEMREC_HARNESS_CNT=2, VERIF_MEMHASH_REALLOC_ELEM_T=spifmem_ptr_t, VERIF_MEMHASH_MEMMOVE_LOOP
debug: 5
src: mem.c
enforce: spifmem_free
backend: sat
tier: B
bound: tracker table of exactly 2 records (cnt <= 3 over the units free.on.cnt0..cnt3); pointers, record contents, ghost indices symbolic
unwind: 8
timeout: 400
mem: 14
quick: no
native: mem
native_includes: mem.c
*/
/*@unit
name: free.on.cnt3
define: U_FREE, U_LEVEL_ON, MEMREC_HARNESS_CNT=3, VERIF_MEMHASH_REALLOC_ELEM_T=spifmem_ptr_t, VERIF_MEMHASH_MEMMOVE_LOOP
debug: 5
src: mem.c
enforce: spifmem_free
backend: sat
tier: B
bound: tracker table of exactly 3 records (cnt <= 3 over the units free.on.cnt0..cnt3); pointers, record contents, ghost indices symbolic
unwind: 8
timeout: 400
mem: 14
quick: no
native: mem
native_includes: mem.c
*/
/*@unit
name: realloc.zero.on.cnt0
define: U_REALLOC, U_RB_ZERO, U_LEVEL_ON, MEMREC_HARNESS_CNT=0, VERIF_MEMHASH_REALLOC_ELEM_T=spifmem_ptr_t, VERIF_MEMHASH_MEMMOVE_LOOP, VERIF_MEMHASH_STRNCPY_MODEL
debug: 5
src: mem.c
enforce: spifmem_realloc
backend: sat
tier: B
bound: tracker table of exactly 0 records (cnt <= 2 over the units realloc.zero.on.cnt0..cnt2); pointers, record contents, ghost indices symbolic
unwind: 8
timeout: 400
mem: 14
native: mem
native_includes: mem.c
*/
/*@unit
name: realloc.zero.on.cnt1
define: U_REALLOC, U_RB_ZERO, U_LEVEL_ON, MEMREC_HARNESS_CNT=1, VERIF_MEMHASH_REALLOC_ELEM_T=spifmem_ptr_t, VERIF_MEMHASH_MEMMOVE_LOOP, VERIF_MEMHASH_STRNCPY_MODEL
debug: 5
src: mem.c
enforce: spifmem_realloc
backend: sat
tier: B
bound: tracker table of exactly 1 records (cnt <= 2 over the units realloc.zero.on.cnt0..cnt2); pointers, record contents, ghost indices symbolic
unwind: 8
timeout: 400
mem: 14
native: mem
native_includes: mem.c
*/
/*@unit
name: realloc.zero.on.cnt2
define: U_REALLOC, U_RB_ZERO, U_LEVEL_ON, MEMREC_HARNESS_CNT=2, VERIF_MEMHASH_REALLOC_ELEM_T=spifmem_ptr_t, VERIF_MEMHASH_MEMMOVE_LOOP, VERIF_MEMHASH_STRNCPY_MODEL
debug: 5
src: mem.c
enforce: spifmem_realloc
backend: sat
tier: B
bound: tracker table of exactly 2 records (cnt <= 2 over the units realloc.zero.on.cnt0..cnt2); pointers, record contents, ghost indices symbolic
unwind: 8
timeout: 400
mem: 14
quick: no
native: mem
native_includes: mem.c
*/
#include "vprelude.h"
#include "env_memhash.h"
#include "src/mem.c"
#include "mem.h"

#if DEBUG != 5
# error "C15 wrapper units are compiled against the DEBUG 5 shadow config.h"
#endif

unsigned long w_cnt, w_r, w_r2, w_line, w_size, w_level;

void harness(void)
{
    const char *fname, *var = nondet_ptr(); void *ptr; const char *str;
    unsigned long line = nondet_ulong(); size_t size = nondet_size_t(), count = nondet_size_t();

    __CPROVER_assume(vg_k <= SPIFMEM_FNAME_LEN);
    __CPROVER_assume(vg_r < MEMREC_CAP && vg_r2 < MEMREC_CAP);
    MEMREC_HARNESS_BUILD(&malloc_rec);
    w_cnt = malloc_rec.cnt; w_r = vg_r; w_r2 = vg_r2; w_line = line; w_size = size; w_level = libast_debug_level;
#if defined(U_MALLOC)
    spifmem_malloc(fname, line, size);
#elif defined(U_CALLOC)
    spifmem_calloc(fname, line, count, size);
#elif defined(U_FREE)
    spifmem_free(var, fname, line, ptr);
#elif defined(U_REALLOC)
    spifmem_realloc(var, fname, line, ptr, size);
#elif defined(U_STRDUP)
    spifmem_strdup(var, fname, line, str);
#endif
    VERIF_CANARY();
}
