/* C15 dependency: the contract of spiftool_safe_strncpy (strings.c) in the form the tracker units use
 * it - the clauses of units/C13/safe_strncpy.c with the frame "the size bytes at dest" (needed because
 * memrec_add_var / memrec_chg_var pass the file[] field INSIDE a table record).  The executable
 * rendering used by the table units is contracts/env_memhash.h VERIF_MEMHASH_STRNCPY_MODEL. */
/*@unit
name: dep.safe_strncpy
define: U_NO_MEM_CONTRACTS
src: strings.c
enforce: spiftool_safe_strncpy
backend: sat
loops: 1
timeout: 200
*/
#include "vprelude.h"
#include "env_memhash.h"
#include "strings.h"
/* ghosts named by other owners' loop annotations of strings.c (the whole file is annotated) */
#if __has_include("split.h")
# include "split.h"
#endif
#include "src/strings.c"
#include "mem.h"        /* the contract (declared for every C15 unit) */

void harness(void)
{
    spif_charptr_t dest, src; spif_int32_t size;
    spiftool_safe_strncpy(dest, src, size);
    VERIF_CANARY();
}
