/* C15: the table primitives of the debug memory tracker keep MEMREC_INV (exactly cnt records, no
 * two records with the same ptr) and edit the table as the property says, for EVERY record count
 * (symbolic cnt up to VCAP).  Compiled with DEBUG 5 (shadow config.h): the D_MEM() diagnostics are
 * part of the verified text.  Contracts: contracts/mem.h.
 *
 * realloc on the record array: two-ghost-element over-approximation (contracts/env_memhash.h).
 * memmove with symbolic length in memrec_rem_var: cbmc's own model, back end z3.
 */

/*@unit
name: table.find_var
define: U_FIND
debug: 5
src: mem.c
enforce: memrec_find_var
backend: sat
loops: 1
timeout: 600
mem: 14
native: mem
native_includes: mem.c
*/
/*@unit
name: table.add_var.shape
define: U_ADD, MEM_ENF_ADD, MEM_PART=1, VERIF_MEMHASH_REALLOC_ELEM_T=spifmem_ptr_t, VERIF_MEMHASH_STRNCPY_MODEL
debug: 5
src: mem.c
enforce: memrec_add_var
backend: sat
timeout: 600
mem: 14
native: mem
native_includes: mem.c
*/
/*@unit
name: table.add_var.records
define: U_ADD, MEM_ENF_ADD, MEM_PART=2, VERIF_MEMHASH_REALLOC_ELEM_T=spifmem_ptr_t, VERIF_MEMHASH_STRNCPY_MODEL
debug: 5
src: mem.c
enforce: memrec_add_var
backend: sat
timeout: 600
mem: 14
native: mem
native_includes: mem.c
*/
/*@unit
name: table.add_var.nodup
define: U_ADD, MEM_ENF_ADD, MEM_PART=3, VERIF_MEMHASH_REALLOC_ELEM_T=spifmem_ptr_t, VERIF_MEMHASH_STRNCPY_MODEL
debug: 5
src: mem.c
enforce: memrec_add_var
backend: sat
timeout: 600
mem: 14
native: mem
native_includes: mem.c
*/
/*@unit
name: table.rem_var.cnt0
define: U_REM, MEMREC_HARNESS_CNT=0, VERIF_MEMHASH_REALLOC_ELEM_T=spifmem_ptr_t, VERIF_MEMHASH_MEMMOVE_LOOP
debug: 5
src: mem.c
enforce: memrec_rem_var
backend: sat
tier: B
bound: table of exactly 0 records (cnt <= 5 over the units rem_var.cnt0..cnt5); pointer, contents and ghost indices symbolic
unwind: 8
timeout: 280
native: mem
native_includes: mem.c
*/
/*@unit
name: table.rem_var.cnt1
define: U_REM, MEMREC_HARNESS_CNT=1, VERIF_MEMHASH_REALLOC_ELEM_T=spifmem_ptr_t, VERIF_MEMHASH_MEMMOVE_LOOP
debug: 5
src: mem.c
enforce: memrec_rem_var
backend: sat
tier: B
bound: table of exactly 1 records (cnt <= 5 over the units rem_var.cnt0..cnt5); pointer, contents and ghost indices symbolic
unwind: 8
timeout: 280
native: mem
native_includes: mem.c
*/
/*@unit
name: table.rem_var.cnt2
define: U_REM, MEMREC_HARNESS_CNT=2, VERIF_MEMHASH_REALLOC_ELEM_T=spifmem_ptr_t, VERIF_MEMHASH_MEMMOVE_LOOP
debug: 5
src: mem.c
enforce: memrec_rem_var
backend: sat
tier: B
bound: table of exactly 2 records (cnt <= 5 over the units rem_var.cnt0..cnt5); pointer, contents and ghost indices symbolic
unwind: 8
timeout: 280
native: mem
native_includes: mem.c
*/
/*@unit
name: table.rem_var.cnt3
define: U_REM, MEMREC_HARNESS_CNT=3, VERIF_MEMHASH_REALLOC_ELEM_T=spifmem_ptr_t, VERIF_MEMHASH_MEMMOVE_LOOP
debug: 5
src: mem.c
enforce: memrec_rem_var
backend: sat
tier: B
bound: table of exactly 3 records (cnt <= 5 over the units rem_var.cnt0..cnt5); pointer, contents and ghost indices symbolic
unwind: 8
timeout: 280
native: mem
native_includes: mem.c
*/
/*@unit
name: table.rem_var.cnt4
quick: no
define: U_REM, MEMREC_HARNESS_CNT=4, VERIF_MEMHASH_REALLOC_ELEM_T=spifmem_ptr_t, VERIF_MEMHASH_MEMMOVE_LOOP
debug: 5
src: mem.c
enforce: memrec_rem_var
backend: sat
tier: B
bound: table of exactly 4 records (cnt <= 5 over the units rem_var.cnt0..cnt5); pointer, contents and ghost indices symbolic
unwind: 8
timeout: 280
native: mem
native_includes: mem.c
*/
/*@unit
name: table.rem_var.cnt5
quick: no
define: U_REM, MEMREC_HARNESS_CNT=5, VERIF_MEMHASH_REALLOC_ELEM_T=spifmem_ptr_t, VERIF_MEMHASH_MEMMOVE_LOOP
debug: 5
src: mem.c
enforce: memrec_rem_var
backend: sat
tier: B
bound: table of exactly 5 records (cnt <= 5 over the units rem_var.cnt0..cnt5); pointer, contents and ghost indices symbolic
unwind: 8
timeout: 280
native: mem
native_includes: mem.c
*/
/*@unit
name: table.chg_var.shape
define: U_CHG, MEM_ENF_CHG, MEM_PART=1, VERIF_MEMHASH_STRNCPY_MODEL, VERIF_MEMHASH_DIAG_MACROS
debug: 5
src: mem.c
enforce: memrec_chg_var
backend: sat
loops: 1
timeout: 600
mem: 14
native: mem
native_includes: mem.c
*/
/*@unit
name: table.chg_var.records
define: U_CHG, MEM_ENF_CHG, MEM_PART=2, VERIF_MEMHASH_STRNCPY_MODEL, VERIF_MEMHASH_DIAG_MACROS
debug: 5
src: mem.c
enforce: memrec_chg_var
backend: sat
loops: 1
timeout: 600
mem: 14
native: mem
native_includes: mem.c
*/
/*@unit
name: table.chg_var.nodup
define: U_CHG, MEM_ENF_CHG, MEM_PART=3, VERIF_MEMHASH_STRNCPY_MODEL, VERIF_MEMHASH_DIAG_MACROS
debug: 5
src: mem.c
enforce: memrec_chg_var
backend: sat
loops: 1
timeout: 600
mem: 14
native: mem
native_includes: mem.c
*/
#include "vprelude.h"
#include "env_memhash.h"
#include "src/mem.c"
#include "mem.h"

#if DEBUG != 5 && !defined(U_ANYDEBUG)
# error "C15 table units are compiled against the DEBUG 5 shadow config.h"
#endif

unsigned long w_cnt, w_r, w_r2, w_line, w_size;

void harness(void)
{
    spifmem_memrec_t rec;              /* arbitrary cnt / ptrs: shaped by MEMREC_PRE */
    const char *fname; void *ptr = nondet_ptr(), *newp = nondet_ptr();
    unsigned long line = nondet_ulong(); size_t size = nondet_size_t();
    const char *var = nondet_ptr();

    __CPROVER_assume(vg_k <= SPIFMEM_FNAME_LEN);      /* byte ghost inside file[] (shapes an input) */
    __CPROVER_assume(vg_r < MEMREC_CAP && vg_r2 < MEMREC_CAP);
    MEMREC_HARNESS_BUILD(&rec);
    w_cnt = rec.cnt; w_r = vg_r; w_r2 = vg_r2; w_line = line; w_size = size;
#if defined(U_FIND)
    memrec_find_var(&rec, ptr);
#elif defined(U_ADD)
    memrec_add_var(&rec, fname, line, ptr, size);
#elif defined(U_REM)
    memrec_rem_var(&rec, var, fname, line, ptr);
#elif defined(U_CHG)
    memrec_chg_var(&rec, var, fname, line, ptr, newp, size);
#endif
    VERIF_CANARY();
}
