/* C04 (array as vector): sorted multiset in the key model of env_array.h (comp = three-way
 * comparison of integer keys).  VEC_INV = ARRAY_INV + no NULL slot + ascending; the quantified
 * parts are stated at the ghost slots vg_k / vg_j (array.h). */
/*@unit
name: array_insert
define: U_INSERT, VA_COMP_KEY, VA_SLOTS_NONNULL, VA_REALLOC_3
src: array.c
native: array_vec
native_includes: array.c
enforce: spif_array_insert
backend: sat
flags: --slice-formula
timeout: 600
loops: 1
*/
/*@unit
name: array_vector_find
define: U_VFIND, VA_COMP_KEY, VA_SLOTS_NONNULL, VA_RECORD_LAST
src: array.c
native: array_vec
native_includes: array.c
enforce: spif_array_vector_find
backend: sat
loops: 1
*/
/*@unit
name: array_vector_contains
define: U_VCONTAINS, VA_COMP_KEY, VA_SLOTS_NONNULL, VA_RECORD_LAST
src: array.c
native: array_vec
native_includes: array.c
enforce: spif_array_vector_contains
replace: spif_array_vector_find
backend: sat
*/
#define VA_ELEM_T spif_obj_t
#include "vprelude.h"
#include "env_array.h"
#include "array.h"
#include "src/array.c"

#ifdef U_INSERT
/* insert(x): x lands at position p = vg_exit, every old element keeps its relative order
 * (tracked by its old slot vg_k), everything before p is smaller than x, everything from p on is
 * not smaller: the result is ascending again and holds exactly the old elements plus x. */
static spif_bool_t spif_array_insert(spif_array_t self, spif_obj_t obj)
__CPROVER_requires(ARRAY_VALID_W(self) && self->len < VCAPL && VEC_GHOSTS(self, obj) && VEC_SORTED_AT_J(self, 0))
__CPROVER_assigns(ARRAY_FRAME(self); vg_exit)
__CPROVER_frees(self->items)
__CPROVER_ensures(ARRAY_POST(self))
__CPROVER_ensures(obj != (spif_obj_t) NULL || (__CPROVER_return_value == FALSE && self->len == OLD_LEN(self) && self->items == OLD_ITEMS(self) &&
                                               (vg_k >= (size_t) self->len || self->items[vg_k] == vg_e2)))
__CPROVER_ensures(obj == (spif_obj_t) NULL ||
                  (__CPROVER_return_value == TRUE && self->len == OLD_LEN(self) + 1 && vg_exit <= (size_t) OLD_LEN(self) &&
                   self->items[vg_exit] == obj &&
                   (vg_k >= (size_t) OLD_LEN(self) || self->items[(vg_k < vg_exit) ? vg_k : vg_k + 1] == vg_e2)))
/* everything before the insertion point is smaller */
__CPROVER_ensures(obj == (spif_obj_t) NULL || vg_k >= vg_exit || vg_key2 < vg_key1)
/* everything from the insertion point on is not smaller (sortedness instantiated at vg_j = p) */
__CPROVER_ensures(obj == (spif_obj_t) NULL || vg_exit != vg_j || vg_k < vg_exit || vg_k >= (size_t) OLD_LEN(self) || vg_key1 <= vg_key2)
;
void harness(void) { spif_array_t self; spif_obj_t obj = nondet_ptr(); spif_array_insert(self, obj); VERIF_CANARY(); }
#endif

#if defined(U_VFIND) || defined(U_VCONTAINS)
/* find(x): NULL iff no stored element equals x; a non-NULL result is the slot the search compared
 * last (vg_last_a), and that element equals x.  Boundary s = vg_exit of an unsuccessful search:
 * items[s-1] < x < items[s]; with ascending order instantiated at vg_j = s-1 no slot equals x. */
#define VFIND_PRE (ARRAY_VALID_W(self) && VEC_GHOSTS(self, obj) && VEC_SORTED_AT_J(self, 0))
#define VFIND_ABSENT (vg_exit != vg_j + 1 || vg_k >= (size_t) self->len || vg_key2 != vg_key1)
#define VFIND_HIT(r) ((r) == vg_last_a && obj != (spif_obj_t) NULL && ((r) != vg_e2 || vg_k >= (size_t) self->len || vg_key2 == vg_key1))
static spif_obj_t spif_array_vector_find(spif_array_t self, spif_obj_t obj)
__CPROVER_requires(VFIND_PRE)
__CPROVER_assigns(vg_exit, vg_last_a)
__CPROVER_ensures(__CPROVER_return_value != (spif_obj_t) NULL || obj == (spif_obj_t) NULL || VFIND_ABSENT)
__CPROVER_ensures(__CPROVER_return_value == (spif_obj_t) NULL || VFIND_HIT(__CPROVER_return_value))
;
#ifdef U_VFIND
void harness(void) { spif_array_t self; spif_obj_t obj = nondet_ptr(); spif_array_vector_find(self, obj); VERIF_CANARY(); }
#else
static spif_bool_t spif_array_vector_contains(spif_array_t self, spif_obj_t obj)
__CPROVER_requires(VFIND_PRE)
__CPROVER_assigns(vg_exit, vg_last_a)
__CPROVER_ensures(__CPROVER_return_value == TRUE || __CPROVER_return_value == FALSE)
__CPROVER_ensures(__CPROVER_return_value != FALSE || obj == (spif_obj_t) NULL || VFIND_ABSENT)
__CPROVER_ensures(__CPROVER_return_value != TRUE || (obj != (spif_obj_t) NULL && (vg_last_a != vg_e2 || vg_k >= (size_t) self->len || vg_key2 == vg_key1)))
;
void harness(void) { spif_array_t self; spif_obj_t obj = nondet_ptr(); spif_array_vector_contains(self, obj); VERIF_CANARY(); }
#endif
#endif
