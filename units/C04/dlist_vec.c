/* C04, dlinked_list vector class: bounded stand-ins (tier B).  The harness builds EVERY vector of
 * 0..VL_MAXN separately allocated nodes whose elements are velems with arbitrary ASCENDING keys
 * (duplicates allowed, no NULL slot), calls ONE real (static) function of src/dlinked_list.c with a
 * probe/element of arbitrary key (below the minimum, above the maximum, duplicate, absent are all
 * instances), and checks against the sorted-multiset statement (VEC_SPEC):
 *   insert : representation invariant, ascending, len+1, multiset' = multiset + {x}
 *   remove : returns a stored element equal to the probe iff one is present (else NULL, unchanged);
 *            multiset' = multiset - {returned}; still ascending; the returned element is alive
 *   find / contains : a stored element equal to the probe <=> presence
 *   to_array / iteration : equal the (ascending) view
 * The order among EQUAL elements is not fixed by the property, so results are compared as multisets of
 * element identities plus sortedness of keys (all elements are distinct objects).
 */

/*@unit
name: dlist_vec_insert
define: U_INSERT, U_NOT_DUP1
src: dlinked_list.c
tier: B
native: self
backend: cadical
unwind: 10
unwind_thorough: 12
bound: vector length <= 4, all key values (ascending, duplicates allowed), element of any key; except: one-element vector and element equal to it [thorough tier: lengths up to 5]
funcs: spif_dlinked_list_insert, spif_dlinked_list_item_comp
*/
/*@unit
name: dlist_vec_insert_dup1
define: U_INSERT, U_DUP1, VL_FIXN=1
src: dlinked_list.c
tier: B
native: self
backend: cadical
unwind: 10
unwind_thorough: 12
bound: one-element vector, inserted element equal to the stored one
funcs: spif_dlinked_list_insert, spif_dlinked_list_item_comp
*/
/*@unit
name: dlist_vec_remove
define: U_REMOVE
src: dlinked_list.c
tier: B
native: self
backend: cadical
unwind: 10
unwind_thorough: 12
bound: vector length <= 4, all key values (ascending, duplicates allowed), probe of any key [thorough tier: lengths up to 5]
funcs: spif_dlinked_list_remove
*/
/*@unit
name: dlist_vec_find
define: U_FIND
src: dlinked_list.c
tier: B
native: self
backend: cadical
unwind: 10
unwind_thorough: 12
bound: vector length <= 4, all key values (ascending, duplicates allowed), probe of any key [thorough tier: lengths up to 5]
funcs: spif_dlinked_list_vector_find, spif_dlinked_list_vector_contains
*/
/*@unit
name: dlist_vec_readout
define: U_READOUT
src: dlinked_list.c, obj.c
tier: B
native: self
backend: cadical
unwind: 10
unwind_thorough: 12
bound: vector length <= 4, all key values (ascending, duplicates allowed) [thorough tier: lengths up to 5]
funcs: spif_dlinked_list_to_array, spif_dlinked_list_iterator, spif_dlinked_list_iterator_has_next, spif_dlinked_list_iterator_next, spif_dlinked_list_count
*/
#include "vprelude.h"
#include "lists.h"
#ifdef U_READOUT
# define o_class vl_obj_o_class
# include "src/obj.c"
# undef o_class
#endif
#include "src/dlinked_list.c"

#define LT spif_dlinked_list_t
#define IT spif_dlinked_list_item_t
#define BUILD(self, m) do { VL_INPUTS(vin, a); VL_BUILD(self, LT, IT, SPIF_VECTORCLASS_VAR(dlinked_list), VL_DL, m, vin, vl_data_vec); } while (0)
#define READ(self, r, OP) VL_READ(self, IT, VL_DL, r, 1, OP)
#define CHECK(self, m, OP) VL_CHECK(self, IT, VL_DL, m, OP)

vl_seq_t m, r;          /* ideal multiset (ascending array) before the call; read-back after it */
vl_in_t vin;            /* the built container's inputs (VND: replayable natively) */
int w_n, w_key;

void harness(void)
{
    LT self;
    spif_obj_t x, got;
    int k = (int) VND(int, k), i, present;
    spif_bool_t b;

    BUILD(self, m);
    w_n = m.len; w_key = k;
    x = (spif_obj_t) vl_elem(k);
    present = vl_ideal_count_eq(&m, k) > 0;

#ifdef U_INSERT
# ifdef U_NOT_DUP1
    __CPROVER_assume(!(m.len == 1 && m.key[0] == k));
# endif
# ifdef U_DUP1
    __CPROVER_assume(m.key[0] == k);
# endif
    b = spif_dlinked_list_insert(self, x);
    __CPROVER_assert(b == TRUE, "dlist vec insert: returns TRUE");
    READ(self, r, "dlist vec insert");
    __CPROVER_assert(r.len == m.len + 1, "dlist vec insert: length grows by exactly one");
    __CPROVER_assert(vl_sorted(&r), "dlist vec insert: elements ascending");
    __CPROVER_assert(vl_has_ptr(&r, x), "dlist vec insert: the inserted element is stored");
    __CPROVER_assert(vl_subset(&m, &r), "dlist vec insert: every previous element is still stored");
    for (i = 0; i < m.len && i < VL_CAP; i++)
        __CPROVER_assert(((velem_t) m.e[i])->key == m.key[i], "dlist vec insert: elements are alive and untouched");
#endif
#ifdef U_REMOVE
    got = spif_dlinked_list_remove(self, x);
    __CPROVER_assert((got != NULL) == (present != 0), "dlist vec remove: returns an element iff one equal to the probe is present");
    READ(self, r, "dlist vec remove");
    __CPROVER_assert(vl_sorted(&r), "dlist vec remove: elements ascending");
    if (got != NULL) {
        __CPROVER_assert(vl_has_ptr(&m, got) && ((velem_t) got)->key == k, "dlist vec remove: the returned element was stored, equals the probe and is alive");
        __CPROVER_assert(r.len == m.len - 1, "dlist vec remove: exactly one element removed");
        __CPROVER_assert(!vl_has_ptr(&r, got), "dlist vec remove: the returned element is no longer stored");
        __CPROVER_assert(vl_subset(&r, &m), "dlist vec remove: nothing new stored");
        for (i = 0; i < m.len && i < VL_CAP; i++)
            __CPROVER_assert(m.e[i] == got || vl_has_ptr(&r, m.e[i]), "dlist vec remove: every other element is still stored");
    } else {
        CHECK(self, m, "dlist vec remove (absent)");
    }
    __CPROVER_assert(((velem_t) x)->key == k, "dlist vec remove: probe untouched");
#endif
#ifdef U_FIND
    got = spif_dlinked_list_vector_find(self, x);
    __CPROVER_assert((got != NULL) == (present != 0), "dlist vec find: finds an element iff one equal to the probe is present");
    if (got != NULL) __CPROVER_assert(vl_has_ptr(&m, got) && ((velem_t) got)->key == k, "dlist vec find: the result is a stored element equal to the probe");
    b = spif_dlinked_list_vector_contains(self, x);
    __CPROVER_assert(b == (present ? TRUE : FALSE), "dlist vec contains: TRUE iff an equal element is present");
    CHECK(self, m, "dlist vec find/contains");
#endif
#ifdef U_READOUT
    {
        spif_obj_t *a = spif_dlinked_list_to_array(self);
        spif_dlinked_list_iterator_t it = (spif_dlinked_list_iterator_t) spif_dlinked_list_iterator(self);
        __CPROVER_assert(spif_dlinked_list_count(self) == m.len, "dlist vec count: number of stored elements");
        for (i = 0; i < VL_CAP && i < m.len; i++) {
            __CPROVER_assert(a[i] == m.e[i], "dlist vec to_array: slot i is element i of the ascending view");
            __CPROVER_assert(i == 0 || ((velem_t) a[i - 1])->key <= ((velem_t) a[i])->key, "dlist vec to_array: ascending");
            __CPROVER_assert(spif_dlinked_list_iterator_has_next(it) == TRUE, "dlist vec iteration: has_next before count elements were yielded");
            got = spif_dlinked_list_iterator_next(it);
            __CPROVER_assert(got == m.e[i], "dlist vec iteration: yields element i of the ascending view");
        }
        __CPROVER_assert(spif_dlinked_list_iterator_has_next(it) == FALSE, "dlist vec iteration: exhausted exactly after count elements");
        CHECK(self, m, "dlist vec readout");
    }
#endif
    VERIF_CANARY();
}
