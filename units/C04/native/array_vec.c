/* Native replay of the C04 array-vector units: sorted multiset of nelem objects (see
 * units/C02/native/array_common.h).  Every ascending key sequence of length 0..6 over keys 1..3
 * (duplicates, minimum, maximum) and every probe key 0..4 (below the minimum, absent, above the
 * maximum) is tried after the verifier's own scalars. */
#include <libast_internal.h>
#include "array.c"
#include "units/C02/native/array_common.h"

static int sorted(spif_array_t a) { long i; for (i = 0; i + 1 < a->len; i++) if (!a->items[i] || !a->items[i + 1] || KEYOF(a->items[i]) > KEYOF(a->items[i + 1])) return 0; return 1; }
static long count_ptr(spif_array_t a, spif_obj_t o) { long i, c = 0; for (i = 0; i < a->len; i++) if (a->items[i] == o) c++; return c; }

static void run_case(const int *keys, long n, int probe_key)
{
    spif_obj_t p[NA_MAXLEN + 8], probe = E(probe_key), r;
    spif_array_t a;
    long i, present = 0;
    (void) r;
    for (i = 0; i < n; i++) { p[i] = E(keys[i]); if (probe && keys[i] == probe_key) present++; }
    a = na_build(1, p, n);
    snprintf(na_ctx, sizeof(na_ctx), "len=%ld probe=%s%d keys=[", n, probe_key == NOKEY ? "NULL " : "", probe_key == NOKEY ? 0 : probe_key);
    for (i = 0; i < n && i < 12; i++) snprintf(na_ctx + strlen(na_ctx), sizeof(na_ctx) - strlen(na_ctx), "%d ", keys[i]);
    snprintf(na_ctx + strlen(na_ctx), sizeof(na_ctx) - strlen(na_ctx), "]");
#if defined(U_INSERT)
    if (probe == NULL) { NA_CHECK(spif_array_insert(a, probe) == FALSE, "insert(NULL) not refused"); na_same(a, p, n, "refused insert"); return; }
    NA_CHECK(spif_array_insert(a, probe) == TRUE, "insert did not return TRUE");
    NA_CHECK(a->len == n + 1, "insert: length is %ld, expected %ld", (long) a->len, n + 1);
    NA_CHECK(sorted(a), "insert: the vector is no longer ascending");
    NA_CHECK(count_ptr(a, probe) == 1, "insert: the new element is not stored exactly once");
    for (i = 0; i < n; i++) NA_CHECK(count_ptr(a, p[i]) == 1, "insert: old element %ld lost or duplicated", i);
#elif defined(U_VFIND)
    r = spif_array_vector_find(a, probe);
    if (present) NA_CHECK(r != NULL && KEYOF(r) == probe_key && count_ptr(a, r) == 1, "find: an equal element is stored but find did not return one");
    else NA_CHECK(r == NULL, "find: returned an element although none equals the probe");
    na_same(a, p, n, "find must not change the vector");
#elif defined(U_VCONTAINS)
    NA_CHECK(spif_array_vector_contains(a, probe) == (present ? TRUE : FALSE), "contains() disagrees with presence");
#else
# error "no unit selected"
#endif
}

int main(void)
{
    long n, pat, i; int keys[NA_MAXLEN + 8], pk;
    long wl = vn_get("w_len", -1);
    NA_INIT();
    if (wl >= 0 && wl <= NA_MAXLEN) {                 /* the verifier's length, keys 2,2,4,4,6,... and every probe class */
        for (i = 0; i < wl; i++) keys[i] = 2 * (int) (i / 2 + 1);
        for (pk = 1; pk <= 2 * (int) (wl / 2 + 1) + 1 && pk < 12; pk++) run_case(keys, wl, pk);
    }
    for (n = 0; n <= 6; n++)
        for (pat = 0; pat < na_pow(3, n); pat++) {
            int ok = 1;
            for (i = 0, wl = pat; i < n; i++, wl /= 3) keys[i] = 1 + (int) (wl % 3);
            for (i = 0; i + 1 < n; i++) if (keys[i] > keys[i + 1]) ok = 0;
            if (!ok) continue;                         /* VEC_INV: ascending */
            for (pk = -1; pk <= 4; pk++) run_case(keys, n, pk < 0 ? NOKEY : pk);
        }
    fprintf(stderr, "NATIVE-REPLAY: no violation on the witness or on any ascending vector with length <= 6\n");
    return 0;
}
