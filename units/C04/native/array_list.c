/* same functions as the C02 list units: the C02 template serves (selected by the -D flags) */
#include "units/C02/native/array_list.c"
