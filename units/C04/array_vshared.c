/* C04 (array as vector): remove, to_array and the iterator are the SAME functions as in the list
 * class (the vector class table points to spif_array_remove / _to_array / _iterator); the units
 * below re-check the C02 contracts for the vector property: remove takes out exactly one element
 * equal to the probe (the first one) and keeps the order of the rest (so an ascending vector
 * stays ascending), to_array and iteration equal the view.  The element comparison is the pair
 * model (any deterministic comp), which covers the key model of the vector units. */
/*@unit
name: array_vremove
define: U_REMOVE
src: array.c
native: array_list
native_includes: array.c
enforce: spif_array_remove
backend: sat
flags: --slice-formula
timeout: 600
loops: 1
*/
/*@unit
name: array_vto_array
define: U_TO_ARRAY
src: array.c
native: array_list
native_includes: array.c
enforce: spif_array_to_array
backend: sat
loops: 1
*/
#if defined(U_REMOVE) || defined(U_TO_ARRAY)
#include "units/C02/array_list.c"
#endif
/*@unit
name: array_viterator_next
define: U_NEXT
src: array.c, obj.c
native: array_list
native_includes: array.c
enforce: spif_array_iterator_next
backend: sat
*/
/*@unit
name: array_viterator_has_next
define: U_HAS_NEXT
src: array.c, obj.c
native: array_list
native_includes: array.c
enforce: spif_array_iterator_has_next
backend: sat
*/
#if defined(U_NEXT) || defined(U_HAS_NEXT)
#include "units/C02/array_iter.c"
#endif
