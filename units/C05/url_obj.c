/* C05 (url part): dup is an independent copy of the text, comp is the order of the texts with NULL first,
 * type() names the class.  Tier P, loop-free; callees by ASSUMED contract (spif_str_init_from_ptr,
 * spif_str_dup, spif_str_comp, spif_obj_set_class: contracts/url.h; agent str proves them).
 *
 * url_dup: the result, its text buffer and every component (object and buffer) are NEW allocations (is_fresh), so no
 * later mutation or deletion of either object can reach the other; text and components are equal (length, bytes by
 * ghost index); a component is present in the copy iff it is present in the original; the original is not assigned.
 * url_comp: the texts are compared by spif_str_comp; the order laws (antisymmetry, transitivity) are
 * those of the str class (agent str, C05 str units) - here: NULL ordering and reflexivity.
 */
/*@unit
name: url_dup
define: U_DUP, U_PLAIN, VERIF_NO_ASSUMED_STR_CONTRACTS
src: url.c
backend: sat
flags: --memory-leak-check
native: self
funcs: spif_url_dup, spif_str_init_from_ptr, spif_str_dup, spif_obj_set_class
*/
/*@unit
name: url_comp
define: U_COMP
src: url.c
enforce: spif_url_comp
replace: spif_str_comp
backend: sat
objbits: 9
*/
/*@unit
name: url_type
define: U_TYPE
src: url.c
enforce: spif_url_type
backend: sat
*/
#define VERIF_OWN_STRCHR
#define VERIF_STRCHR_TEXT_ONLY
#include "vprelude.h"
#include "env_net.h"
#ifdef U_COMP
/* comp reads no text byte itself; spif_str_comp's assumed precondition is "NULL or a C string" */
# undef VCSTR_OK
# define VCSTR_OK(p) 1
#endif
#include "url.h"
#ifdef U_PLAIN
/* url_dup as a PLAIN harness (loop-free, nothing unwound, sizes symbolic): eight replaced str calls plus a
 * sixteen-object precondition did not finish under DFCC in 200 s.  The three str calls are the assumed contracts
 * of contracts/url.h written as models: fresh object / buffer, length of the source, byte vg_k copied.
 * Native replay (native: self): the same harness against the real str.c, text and components rebuilt with the
 * witness lengths; every byte compared. */
# ifndef VERIF_NATIVE
spif_bool_t spif_obj_set_class(spif_obj_t self, spif_class_t cls) { self->cls = cls; return TRUE; }
spif_bool_t spif_str_init_from_ptr(spif_str_t self, spif_charptr_t old)
{
    __CPROVER_assert(self != NULL && old == vg_txt, "requires of spif_str_init_from_ptr: the original's terminated text");
    self->parent.cls = SPIF_CLASS_VAR(str);
    self->len = (spif_stridx_t) vg_txt_len; self->size = self->len + 1;
    self->s = malloc(self->size);
    self->s[self->len] = 0;
    if (vg_k < vg_txt_len) self->s[vg_k] = old[vg_k];
    return TRUE;
}
spif_str_t spif_str_dup(spif_str_t self)
{
    spif_str_t r = malloc(sizeof(spif_const_str_t));
    __CPROVER_assert(self != NULL && self->s != NULL && self->len >= 0 && self->len < self->size, "requires of spif_str_dup: a string in the non-empty state");
    r->parent.cls = self->parent.cls; r->len = self->len; r->size = self->size;      /* str.c keeps the size field */
    r->s = malloc((size_t) self->len + 1);                                           /* ... but STRDUPs the text    */
    r->s[r->len] = 0;
    if (vg_k < (size_t) self->len) r->s[vg_k] = self->s[vg_k];
    return r;
}
# endif
#endif
#if defined(U_PLAIN) && defined(VERIF_NATIVE)
# include "rawsrc/url.c"
#else
# include "src/url.c"
#endif
#ifndef U_PLAIN
#define NET_URL_API
#include "url.h"
#endif

#ifdef U_PLAIN
#ifndef VCAP
# define VCAP 0x3fffffffL
#endif
#define DCAP 64          /* native replay rebuilds texts up to this length */
static spif_str_t mk_str(_Bool has, long len, long slack, char pat)
{
    spif_str_t p; long i;
    if (!has) return NULL;
    p = malloc(sizeof(spif_const_str_t));
    __CPROVER_assume(len >= 0 && slack >= 0 && len < VCAP && slack < VCAP);
#ifdef VERIF_NATIVE              /* the witness' lengths may be huge: replay the same shape with short texts */
    if (len > DCAP) len = DCAP - (len % 7);
    if (slack > DCAP) slack = slack % 5;
#endif
    p->parent.cls = SPIF_CLASS_VAR(str);
    p->len = len; p->size = len + 1 + slack;
    p->s = malloc(p->size);
#ifdef VERIF_NATIVE
    for (i = 0; i < len; i++) p->s[i] = (char) (pat + i % 20);
#endif
    p->s[len] = 0;
    return p;
}
static void rm_str(spif_str_t p) { if (p) { free(p->s); free(p); } }
#define SAME(r, o, what) do { \
    __CPROVER_assert(((r) == NULL) == ((o) == NULL), "dup: " what " present in the copy iff present in the original"); \
    if ((o) != NULL) { \
        __CPROVER_assert((r) != (o) && (r)->s != (o)->s, "dup: " what " is a separate object with a separate buffer"); \
        __CPROVER_assert((r)->len == (o)->len && (r)->s[(r)->len] == 0, "dup: " what " has the original's length, terminated"); \
        SAME_BYTES(r, o, what); \
    } } while (0)
#ifdef VERIF_NATIVE
# define SAME_BYTES(r, o, what) do { long i_; for (i_ = 0; i_ < (o)->len; i_++) \
        __CPROVER_assert((r)->s[i_] == (o)->s[i_], "dup: " what " has the original's bytes"); } while (0)
#else
# define SAME_BYTES(r, o, what) __CPROVER_assert(!(vg_k < (size_t) (o)->len) || (r)->s[vg_k] == (o)->s[vg_k], "dup: " what " has the original's bytes")
#endif
void harness(void)
{
    spif_url_t u = malloc(sizeof(spif_const_url_t)), v;
    spif_const_url_t before;
    spif_str_t t;
    libast_debug_level = VND(uint, debug_level);
#ifndef VERIF_NATIVE
    SPIF_CLASS_VAR(url) = &u_class; SPIF_CLASS_VAR(str) = (spif_class_t) nondet_ptr();
#endif
    t = mk_str(1, VND(long, text_len), VND(long, text_slack), 'A');
    *SPIF_STR(u) = *t; free(t);
    SPIF_STR(u)->parent.cls = SPIF_CLASS_VAR(url);
    u->proto = mk_str(VND(bool, has_proto), VND(long, len_proto), VND(long, slack_proto), 'a');
    u->user = mk_str(VND(bool, has_user), VND(long, len_user), VND(long, slack_user), 'b');
    u->passwd = mk_str(VND(bool, has_passwd), VND(long, len_passwd), VND(long, slack_passwd), 'c');
    u->host = mk_str(VND(bool, has_host), VND(long, len_host), VND(long, slack_host), 'd');
    u->port = mk_str(VND(bool, has_port), VND(long, len_port), VND(long, slack_port), '0');
    u->path = mk_str(VND(bool, has_path), VND(long, len_path), VND(long, slack_path), 'e');
    u->query = mk_str(VND(bool, has_query), VND(long, len_query), VND(long, slack_query), 'f');
    before = *u;
#ifndef VERIF_NATIVE
    vg_txt = SPIF_STR(u)->s; vg_txt_len = (size_t) SPIF_STR(u)->len;
    __CPROVER_assume(vg_k < VCAP);
#endif

    v = spif_url_dup(u);

    __CPROVER_assert(v != NULL && v != u, "dup: a distinct object");
    __CPROVER_assert(SPIF_STR(v)->parent.cls == SPIF_CLASS_VAR(url), "dup: the copy is a URL object");
    __CPROVER_assert(SPIF_STR(v)->s != SPIF_STR(u)->s && SPIF_STR(v)->len == SPIF_STR(u)->len &&
                     SPIF_STR(v)->s[SPIF_STR(v)->len] == 0, "dup: the text is a separate buffer of the original's length, terminated");
    SAME_BYTES(SPIF_STR(v), SPIF_STR(u), "text");
    SAME(v->proto, u->proto, "proto"); SAME(v->user, u->user, "user"); SAME(v->passwd, u->passwd, "passwd");
    SAME(v->host, u->host, "host"); SAME(v->port, u->port, "port"); SAME(v->path, u->path, "path"); SAME(v->query, u->query, "query");
    __CPROVER_assert(u->proto == before.proto && u->user == before.user && u->passwd == before.passwd && u->host == before.host &&
                     u->port == before.port && u->path == before.path && u->query == before.query &&
                     SPIF_STR(u)->s == before.parent.s && SPIF_STR(u)->len == before.parent.len, "dup: the original is not modified");
    VERIF_CANARY();
    /* independence: deleting the copy leaves the original intact and vice versa; nothing is left over (leak check) */
    rm_str(v->proto); rm_str(v->user); rm_str(v->passwd); rm_str(v->host); rm_str(v->port); rm_str(v->path); rm_str(v->query);
    free(SPIF_STR(v)->s); free(v);
    __CPROVER_assert(SPIF_STR(u)->s[SPIF_STR(u)->len] == 0, "dup: the original survives the deletion of the copy");
    rm_str(u->proto); rm_str(u->user); rm_str(u->passwd); rm_str(u->host); rm_str(u->port); rm_str(u->path); rm_str(u->query);
    free(SPIF_STR(u)->s); free(u);
}
#else
void harness(void)
{
#if defined(U_DUP)
    spif_url_t u; spif_url_dup(u);
#elif defined(U_COMP)
    spif_url_t a, b; spif_url_comp(a, b);
#elif defined(U_TYPE)
    spif_url_t u; spif_url_type(u);
#endif
    VERIF_CANARY();
}
#endif
