/* C05 (url part): dup is an independent copy of the text, comp is the order of the texts with NULL first,
 * type() names the class.  Tier P, loop-free; callees by contract (spif_url_new_from_str: proved in
 * C06.url_new_from_str; spif_str_comp: ASSUMED, contracts/url.h).
 *
 * url_dup: the result and every buffer / component it owns are NEW allocations (is_fresh), so no later
 * mutation or deletion of either object can reach the other; the text is the same (length, byte vg_k);
 * the original is not assigned.  Component equality is NOT claimed: spif_url_dup re-parses the text, so
 * components changed through the property setters since the last unparse are not copied
 * (finding C05-url-dup-stale).
 * (When findings/proposed/C14_url_dup_stale_components.diff lands, the replace list becomes
 *  spif_str_init_from_ptr, spif_obj_set_class, spif_str_dup - contracts are in contracts/url.h; DFCC aborts on
 *  replace entries for functions the enforced function does not call, so they cannot be listed in advance.)
 * url_comp: the texts are compared by spif_str_comp; the order laws (antisymmetry, transitivity) are
 * those of the str class (agent str, C05 str units) - here: NULL ordering and reflexivity.
 */
/*@unit
name: url_dup
define: U_DUP
src: url.c
enforce: spif_url_dup
replace: spif_url_new_from_str
backend: sat
objbits: 9
*/
/*@unit
name: url_comp
define: U_COMP
src: url.c
enforce: spif_url_comp
replace: spif_str_comp
backend: sat
objbits: 9
*/
/*@unit
name: url_type
define: U_TYPE
src: url.c
enforce: spif_url_type
backend: sat
*/
#define VERIF_OWN_STRCHR
#define VERIF_STRCHR_TEXT_ONLY
#include "vprelude.h"
#include "env_net.h"
#ifdef U_COMP
/* comp reads no text byte itself; spif_str_comp's assumed precondition is "NULL or a C string" */
# undef VCSTR_OK
# define VCSTR_OK(p) 1
#endif
#include "url.h"
#include "src/url.c"
#define NET_URL_API
#include "url.h"

void harness(void)
{
#if defined(U_DUP)
    spif_url_t u; spif_url_dup(u);
#elif defined(U_COMP)
    spif_url_t a, b; spif_url_comp(a, b);
#elif defined(U_TYPE)
    spif_url_t u; spif_url_type(u);
#endif
    VERIF_CANARY();
}
