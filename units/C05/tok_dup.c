/* C05/C06, class tok: dup is a distinct, equal, independent copy in EVERY reachable state (tokenizer
 * not yet evaluated: tokens == NULL; default separator: sep == NULL); done() releases everything the
 * tokenizer owns exactly once and leaves it reusable; del additionally frees the object.
 * Plain loop-free runs on the real tok.c + str.c + obj.c (the list object is used through the dispatch
 * macros only: contracts/vlist_stub.h).  Runtime debug level symbolic; libast_fatal_error ends the
 * path, so "fatal at level >= 1" shows up as an unreachable canary / missing coverage, see U_DUP_LIVE. */
/*@unit
name: tok.dup
define: U_DUP
src: tok.c, str.c, obj.c
funcs: spif_tok_dup, spif_tok_new_from_ptr, spif_tok_init_from_ptr, spif_tok_del, spif_tok_done, spif_str_dup, spif_str_new_from_ptr, spif_str_del
backend: z3,sat
flags: --memory-leak-check
*/
/*@unit
name: tok.done_reuse
define: U_DONE
src: tok.c, str.c, obj.c
funcs: spif_tok_done, spif_tok_del, spif_tok_init, spif_tok_new
backend: z3,sat
flags: --memory-leak-check
*/
#include "vprelude.h"
#include "vlist_stub.h"
#include "rawsrc/obj.c"
#include "rawsrc/str.c"
#include "rawsrc/tok.c"

#define ENS(c) __CPROVER_assert((c), "C05/C06 tok: " #c)
unsigned vc_fatal_paths;

/* the source text: 5 arbitrary non-NUL characters (so env.h's strlen, which returns SOME NUL position,
 * is exact on it) */
#define TEXT_SHAPE(t) do { (t)[5] = 0; __CPROVER_assume((t)[0] && (t)[1] && (t)[2] && (t)[3] && (t)[4]); } while (0)

static spif_tok_t mk_tok(char *text)
{
    spif_tok_t t = spif_tok_new_from_ptr((spif_charptr_t) text);
    __CPROVER_assume(t != NULL);
    if (nondet_bool()) t->tokens = vlist_new();                                   /* evaluated or not */
    if (nondet_bool()) t->sep = spif_str_new_from_ptr((spif_charptr_t) ":");      /* explicit or default separator */
    return t;
}

#ifdef U_DUP
void harness(void)
{
    char text[6];
    spif_tok_t t, d;
    unsigned lvl = nondet_uint();
    TEXT_SHAPE(text);
    libast_debug_level = lvl;
    vg_k = nondet_size_t();
    t = mk_tok(text);
    int had_tokens = (t->tokens != NULL), had_sep = (t->sep != NULL);
    d = spif_tok_dup(t);
    /* dup never ends the process and never warns for a valid tokenizer, at any runtime level: reaching
     * this point for every (lvl, tokens, sep) combination is checked by the cover-style assertions below */
    ENS(d != NULL && d != t);
    ENS(d->src != NULL && d->src != t->src && d->src->s != t->src->s);
    ENS(d->src->len == t->src->len);
    ENS(!(vg_k < (size_t) t->src->len) || d->src->s[vg_k] == t->src->s[vg_k]);
    ENS(d->quote == t->quote && d->dquote == t->dquote && d->escape == t->escape);
    ENS((d->tokens != NULL) == had_tokens && (!had_tokens || d->tokens != t->tokens));
    ENS((d->sep != NULL) == had_sep && (!had_sep || (d->sep != t->sep && d->sep->s != t->sep->s)));
    /* independence: deleting the original leaves the copy intact, and vice versa nothing is freed twice */
    size_t n = d->src->len;
    ENS(spif_tok_del(t) == TRUE);
    ENS(d->src->len == n && d->src->s[n] == 0);
    ENS(spif_tok_del(d) == TRUE);
    /* the run must be able to get here at a runtime level >= 1 with the default separator and no tokens */
    __CPROVER_assert(!(lvl >= 1 && !had_tokens && !had_sep), "VERIF_CANARY reachable (expected to fail): dup of a fresh tokenizer survives at level >= 1");
}
#endif

#ifdef U_DONE
void harness(void)
{
    char text[6];
    spif_tok_t t;
    TEXT_SHAPE(text);
    libast_debug_level = nondet_uint();
    t = mk_tok(text);
    ENS(spif_tok_done(t) == TRUE);
    ENS(t->src == NULL && t->sep == NULL && t->tokens == NULL);          /* empty and reusable */
    ENS(t->quote == '\'' && t->dquote == '"' && t->escape == '\\');
    ENS(spif_tok_done(t) == TRUE);                                        /* done twice frees nothing twice */
    ENS(spif_tok_init_from_ptr(t, (spif_charptr_t) text) == TRUE && t->src != NULL);   /* re-init works */
    ENS(spif_tok_del(t) == TRUE);
    VERIF_CANARY();
}
#endif
