/* C05 (mbuff): spif_mbuff_cmp / spif_mbuff_comp is a consistent order on byte sequences.
 * Lemma functions (contract enforced on the lemma, the REAL cmp code inlined, memcmp = stub of
 * env_mbuff.h) for arbitrary valid a, b, c:
 *   reflexive     cmp(a, a) == EQUAL
 *   antisym       cmp(a, b) == -cmp(b, a)
 *   trans         cmp(a, b) <= 0 and cmp(b, c) <= 0  =>  cmp(a, c) <= 0
 *   equal_view    cmp(a, b) == EQUAL  =>  same length and same bytes  ("equal-prefix buffers of different
 *                 length are NOT equal")
 *   null          NULL sorts before every object, NULL == NULL
 * Termination: cmp is loop-free and calls memcmp once.
 *
 * The memcmp stub states "all bytes below the first difference are equal" at the ghost offsets vg_k, vg_k2,
 * vg_j only.  A law over several calls needs each call's fact at the other calls' first-difference
 * positions; the conclusion is therefore asserted for the ghost values that coincide with those positions
 * (guard vg_k == d1 && ...).  The real memcmp is one of the stub's behaviours for EVERY ghost value, in
 * particular for the coinciding ones, so the law holds for it.
 *
 * .samelen behaviours hold on this tree; .difflen fail (C05-mbuff-cmp-prefix): the code compares MIN(len) bytes. */
/*@unit
name: mbuff_cmp_laws.reflexive
define: U_REFL
src: mbuff.c
enforce: lemma_cmp_reflexive
backend: sat
objbits: 6
flags: --slice-formula
funcs: spif_mbuff_cmp, spif_mbuff_comp
*/
/*@unit
name: mbuff_cmp_laws.antisym
define: U_ANTISYM
src: mbuff.c
enforce: lemma_cmp_antisym
backend: sat
objbits: 6
flags: --slice-formula
funcs: spif_mbuff_cmp
*/
/*@unit
name: mbuff_cmp_laws.null
define: U_NULLORD
src: mbuff.c
enforce: lemma_cmp_null
backend: sat
objbits: 6
flags: --slice-formula
funcs: spif_mbuff_cmp, spif_mbuff_comp
*/
/*@unit
name: mbuff_cmp_laws.trans.samelen
define: U_TRANS, U_SAMELEN
src: mbuff.c
enforce: lemma_cmp_trans
backend: sat
objbits: 6
flags: --slice-formula
funcs: spif_mbuff_cmp
*/
/*@unit
name: mbuff_cmp_laws.trans.difflen
define: U_TRANS, U_DIFFLEN
src: mbuff.c
enforce: lemma_cmp_trans
backend: sat
objbits: 6
flags: --slice-formula
funcs: spif_mbuff_cmp
*/
/*@unit
name: mbuff_cmp_laws.equal_view.samelen
define: U_EQVIEW, U_SAMELEN
src: mbuff.c
enforce: lemma_cmp_equal_view
backend: sat
objbits: 6
flags: --slice-formula
funcs: spif_mbuff_cmp
*/
/*@unit
name: mbuff_cmp_laws.equal_view.difflen
define: U_EQVIEW, U_DIFFLEN
src: mbuff.c
enforce: lemma_cmp_equal_view
backend: sat
objbits: 6
flags: --slice-formula
funcs: spif_mbuff_cmp
*/
#include "vprelude.h"
#include "env_mbuff.h"
#include "mbuff.h"
#include "src/mbuff.c"

#ifdef U_REFL
static void lemma_cmp_reflexive(spif_mbuff_t a)
__CPROVER_requires(MBUFF_INV(a))
__CPROVER_assigns(vg_cmp_d)
{
    __CPROVER_assert(spif_mbuff_cmp(a, a) == SPIF_CMP_EQUAL, "cmp law: cmp(a, a) == EQUAL");
    __CPROVER_assert(spif_mbuff_comp(a, a) == SPIF_CMP_EQUAL, "cmp law: comp(a, a) == EQUAL");
}
void harness(void) { spif_mbuff_t a; lemma_cmp_reflexive(a); VERIF_CANARY(); }
#endif

#ifdef U_ANTISYM
static void lemma_cmp_antisym(spif_mbuff_t a, spif_mbuff_t b)
__CPROVER_requires(MBUFF_INV(a) && MBUFF_INV(b))
__CPROVER_assigns(vg_cmp_d)
{
    spif_cmp_t c1 = spif_mbuff_cmp(a, b); size_t d1 = vg_cmp_d;
    spif_cmp_t c2 = spif_mbuff_cmp(b, a); size_t d2 = vg_cmp_d;
    __CPROVER_assert(!(vg_k == d1 && vg_k2 == d2) || (int) c1 == -(int) c2, "cmp law: cmp(a, b) == -cmp(b, a)");
}
void harness(void) { spif_mbuff_t a, b; lemma_cmp_antisym(a, b); VERIF_CANARY(); }
#endif

#ifdef U_NULLORD
static void lemma_cmp_null(spif_mbuff_t a)
__CPROVER_requires(MBUFF_INV(a))
__CPROVER_assigns(vg_cmp_d)
{
    __CPROVER_assert(spif_mbuff_cmp((spif_mbuff_t) NULL, a) == SPIF_CMP_LESS, "cmp law: NULL sorts before every object");
    __CPROVER_assert(spif_mbuff_cmp(a, (spif_mbuff_t) NULL) == SPIF_CMP_GREATER, "cmp law: every object sorts after NULL");
    __CPROVER_assert(spif_mbuff_cmp((spif_mbuff_t) NULL, (spif_mbuff_t) NULL) == SPIF_CMP_EQUAL, "cmp law: NULL == NULL");
    __CPROVER_assert(spif_mbuff_comp((spif_mbuff_t) NULL, a) == SPIF_CMP_LESS, "cmp law: comp puts NULL first");
}
void harness(void) { spif_mbuff_t a; lemma_cmp_null(a); VERIF_CANARY(); }
#endif

#ifdef U_SAMELEN
# define LEN3(a, b, c)  ((a)->len == (b)->len && (b)->len == (c)->len)
# define LEN2(a, b)     ((a)->len == (b)->len)
#else
# define LEN3(a, b, c)  (!((a)->len == (b)->len && (b)->len == (c)->len))
# define LEN2(a, b)     ((a)->len != (b)->len)
#endif

#ifdef U_TRANS
static void lemma_cmp_trans(spif_mbuff_t a, spif_mbuff_t b, spif_mbuff_t c)
__CPROVER_requires(MBUFF_INV(a) && MBUFF_INV(b) && MBUFF_INV(c) && LEN3(a, b, c))
__CPROVER_assigns(vg_cmp_d)
{
    spif_cmp_t ab = spif_mbuff_cmp(a, b); size_t d1 = vg_cmp_d;
    spif_cmp_t bc = spif_mbuff_cmp(b, c); size_t d2 = vg_cmp_d;
    spif_cmp_t ac = spif_mbuff_cmp(a, c); size_t d3 = vg_cmp_d;
    __CPROVER_assert(!(vg_k == d1 && vg_k2 == d2 && vg_j == d3) ||
                     !(ab != SPIF_CMP_GREATER && bc != SPIF_CMP_GREATER) || ac != SPIF_CMP_GREATER,
                     "cmp law: a <= b and b <= c implies a <= c");
    __CPROVER_assert(!(vg_k == d1 && vg_k2 == d2 && vg_j == d3) ||
                     !(ab == SPIF_CMP_EQUAL && bc == SPIF_CMP_EQUAL) || ac == SPIF_CMP_EQUAL,
                     "cmp law: a == b and b == c implies a == c");
}
void harness(void) { spif_mbuff_t a, b, c; lemma_cmp_trans(a, b, c); VERIF_CANARY(); }
#endif

#ifdef U_EQVIEW
static void lemma_cmp_equal_view(spif_mbuff_t a, spif_mbuff_t b)
__CPROVER_requires(MBUFF_INV(a) && MBUFF_INV(b) && LEN2(a, b))
__CPROVER_assigns(vg_cmp_d)
{
    spif_cmp_t ab = spif_mbuff_cmp(a, b);
    __CPROVER_assert(ab != SPIF_CMP_EQUAL || a->len == b->len, "cmp law: EQUAL buffers have the same length (equal-prefix buffers of different length are not equal)");
    __CPROVER_assert(ab != SPIF_CMP_EQUAL || !(vg_k < (size_t) a->len && vg_k < (size_t) b->len) || a->buff[vg_k] == b->buff[vg_k],
                     "cmp law: EQUAL buffers have the same bytes");
}
void harness(void) { spif_mbuff_t a, b; lemma_cmp_equal_view(a, b); VERIF_CANARY(); }
#endif
