/* C05: type() names the object's class - the value returned is the class identity stored in the object
 * header (libast compares class names by pointer).  Loop-free, unbounded (tier P), for the list and the
 * iterator objects of both linked classes. */
/*@unit
name: llist_type
define: U_LL
src: linked_list.c, obj.c
enforce: spif_linked_list_type
backend: sat
*/
/*@unit
name: llist_iterator_type
define: U_LLI
src: linked_list.c, obj.c
enforce: spif_linked_list_iterator_type
backend: sat
*/
/*@unit
name: dlist_type
define: U_DL
src: dlinked_list.c, linked_list.c, obj.c
enforce: spif_dlinked_list_type
backend: sat
*/
/*@unit
name: dlist_iterator_type
define: U_DLI
src: dlinked_list.c, linked_list.c, obj.c
enforce: spif_dlinked_list_iterator_type
backend: sat
*/
#include "vprelude.h"
#define VL_LISTRESULT_LLIST
#include "lists.h"
#define o_class vl_obj_o_class
#include "src/obj.c"
#undef o_class
#include "src/linked_list.c"
#if defined(U_DL) || defined(U_DLI)
# include "src/dlinked_list.c"
#endif

#define TYPE_UNIT(FN, T, SZ) \
    static spif_classname_t FN(T self) \
    __CPROVER_requires(__CPROVER_is_fresh(self, SZ) && __CPROVER_is_fresh(SPIF_OBJ(self)->cls, sizeof(SPIF_CONST_TYPE(class)))) \
    __CPROVER_assigns() \
    /* type() names the object's class: the class's name string (SPIF_OBJ_CLASSNAME as documented; lead, after fix 31dfb50) */ \
    __CPROVER_ensures(__CPROVER_return_value == SPIF_OBJ_CLASS(self)->classname) \
    ; \
    void harness(void) { T self; FN(self); VERIF_CANARY(); }

#ifdef U_LL
TYPE_UNIT(spif_linked_list_type, spif_linked_list_t, sizeof(struct spif_linked_list_t_struct))
#endif
#ifdef U_LLI
TYPE_UNIT(spif_linked_list_iterator_type, spif_linked_list_iterator_t, sizeof(struct spif_linked_list_iterator_t_struct))
#endif
#ifdef U_DL
TYPE_UNIT(spif_dlinked_list_type, spif_dlinked_list_t, sizeof(struct spif_dlinked_list_t_struct))
#endif
#ifdef U_DLI
TYPE_UNIT(spif_dlinked_list_iterator_type, spif_dlinked_list_iterator_t, sizeof(struct spif_dlinked_list_iterator_t_struct))
#endif
