/* C05 (and C01: "dup copies text and bookkeeping"): spif_str_dup / spif_ustr_dup returns a distinct fresh object of the
 * same class whose text, length and capacity equal the original's, with its OWN fresh text buffer that really has the
 * reported capacity - so mutating, emptying or deleting either object cannot touch the other (every mutator's frame
 * is its own object and buffer, C01).  The original is not written.
 * The copy's text is what libc strdup copies; "the text ends at len" is used through the ghost instance vg_j (the
 * clauses are guarded by vg_slen == vg_j, see GUIDE).
 * Behaviours: .tight capacity == len+1; .slack capacity > len+1; .empty the (NULL,0,0) state. */

/*@unit
name: str_dup.tight
define: VP=str, U_DUP, U_NONEMPTY, U_TIGHT
src: str.c, obj.c
enforce: spif_str_dup
backend: sat,z3
timeout: 200
flags: --slice-formula
*/
/*@unit
name: str_dup.slack
define: VP=str, U_DUP, U_NONEMPTY, U_SLACK
src: str.c, obj.c
enforce: spif_str_dup
backend: sat,z3
timeout: 200
flags: --slice-formula
*/
/*@unit
name: str_dup.empty
define: VP=str, U_DUP, U_EMPTY
src: str.c, obj.c
enforce: spif_str_dup
backend: sat,z3
timeout: 200
flags: --slice-formula
*/
/*@unit
name: ustr_dup.tight
define: VP=ustr, U_DUP, U_NONEMPTY, U_TIGHT
src: ustr.c, obj.c
enforce: spif_ustr_dup
backend: sat,z3
timeout: 200
flags: --slice-formula
*/
/*@unit
name: ustr_dup.slack
define: VP=ustr, U_DUP, U_NONEMPTY, U_SLACK
src: ustr.c, obj.c
enforce: spif_ustr_dup
backend: sat,z3
timeout: 200
flags: --slice-formula
*/
/*@unit
name: ustr_dup.empty
define: VP=ustr, U_DUP, U_EMPTY
src: ustr.c, obj.c
enforce: spif_ustr_dup
backend: sat,z3
timeout: 200
flags: --slice-formula
*/
#define VSTR_STRDUP_RECORDS_LEN
#include "str.h"

#define R __CPROVER_return_value

VT VF(dup)(VT self)
__CPROVER_requires(STR_SELF_PRE(self))
#ifdef U_NONEMPTY
__CPROVER_requires(!(vg_j < (size_t) self->len) || self->s[vg_j] != 0)
__CPROVER_requires(vg_k < vg_a1)
#endif
#ifdef U_TIGHT
__CPROVER_requires(self->size == self->len + 1)
#endif
#ifdef U_SLACK
__CPROVER_requires(self->size > self->len + 1)
#endif
__CPROVER_assigns(vg_slen, vg_slen_ptr)
__CPROVER_ensures(__CPROVER_is_fresh(R, sizeof(*R)))
__CPROVER_ensures(SPIF_OBJ_CLASS(R) == SPIF_OBJ_CLASS(self))
__CPROVER_ensures(R->len == self->len && R->size == self->size)
#ifdef U_EMPTY
__CPROVER_ensures(STR_EMPTY(R))
#else
/* own buffer with the reported capacity, same text */
__CPROVER_ensures(vg_slen != vg_j || (STR_NONEMPTY_POST(R) && __CPROVER_is_fresh(R->s, (size_t) R->size)))
__CPROVER_ensures(vg_slen != vg_j || !(vg_k < (size_t) self->len) || R->s[vg_k] == self->s[vg_k])
#endif
;
void harness(void)
{
    VT self;
    STR_BIND_CLASS();
    VF(dup)(self);
    VERIF_CANARY();
}
