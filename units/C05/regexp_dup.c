/* C05/C06, class regexp (a str with compiled pattern data): dup is a distinct, equal, independent copy
 * (own text buffer, own compiled data); done releases text and compiled data exactly once and leaves the
 * object reusable; del additionally frees the object.  pcre is outside /repo: pcre_compile is a stub
 * returning NULL or a fresh block (what pcre_malloc gives).  Plain loop-free runs on the real regexp.c +
 * str.c + obj.c, runtime level symbolic, leak check on. */
/*@unit
name: regexp.dup
define: U_DUP
src: regexp.c, str.c, obj.c
funcs: spif_regexp_dup, spif_regexp_new_from_str, spif_regexp_init_from_str, spif_regexp_compile, spif_regexp_del, spif_regexp_done, spif_regexp_new_from_ptr, spif_regexp_init_from_ptr
backend: z3,sat
flags: --memory-leak-check
*/
/*@unit
name: regexp.done_reuse
define: U_DONE
src: regexp.c, str.c, obj.c
funcs: spif_regexp_done, spif_regexp_del, spif_regexp_init_from_ptr, spif_regexp_compile, spif_regexp_comp
backend: z3,sat
flags: --memory-leak-check
*/
#include "vprelude.h"
#include <pcre.h>
/* ASSUMES: pcre_compile returns NULL (pattern rejected) or a block obtained from malloc that the caller frees */
int vg_pcre_calls, vg_pcre_last_opts;      /* ghost: what the library asked pcre to compile with */
pcre *pcre_compile(const char *pat, int opts, const char **err, int *erroff, const unsigned char *tab)
{
    vg_pcre_calls++; vg_pcre_last_opts = opts;
    __CPROVER_assert(pat != NULL && __CPROVER_r_ok(pat, 1), "pcre_compile: pattern is a readable string");
    if (nondet_bool()) { *err = "bad"; *erroff = 0; return NULL; }
    return (pcre *) malloc(32);
}
#include "rawsrc/obj.c"
#include "rawsrc/str.c"
#include "rawsrc/regexp.c"

#define ENS(c) __CPROVER_assert((c), "C05/C06 regexp: " #c)
#define TEXT_SHAPE(t) do { (t)[5] = 0; __CPROVER_assume((t)[0] && (t)[1] && (t)[2] && (t)[3] && (t)[4]); } while (0)

#ifdef U_DUP
void harness(void)
{
    char text[6];
    spif_regexp_t r, d;
    TEXT_SHAPE(text);
    libast_debug_level = nondet_uint();
    vg_k = nondet_size_t();
    r = spif_regexp_new_from_ptr((spif_charptr_t) text);
    __CPROVER_assume(r != NULL);
    r->flags = nondet_int();                     /* any flag word (set_flags only ever ORs option bits in) */
    if (nondet_bool()) spif_regexp_compile(r);
    int calls0 = vg_pcre_calls;
    d = spif_regexp_dup(r);
    ENS(d != NULL && d != r);
    /* the copy is compiled, and with the original's flags (a copy that reports the flags but was compiled
     * without them does not match like the original) */
    ENS(vg_pcre_calls > calls0 && vg_pcre_last_opts == r->flags);
    ENS(SPIF_STR(d)->s != NULL && SPIF_STR(d)->s != SPIF_STR(r)->s);            /* own text buffer */
    ENS(SPIF_STR(d)->len == SPIF_STR(r)->len);
    ENS(!(vg_k < (size_t) SPIF_STR(r)->len) || SPIF_STR(d)->s[vg_k] == SPIF_STR(r)->s[vg_k]);
    ENS(d->flags == r->flags);
    ENS(d->data == NULL || d->data != r->data);                                 /* own compiled data */
    ENS(spif_regexp_type(d) == spif_regexp_type(r));
    size_t n = SPIF_STR(d)->len;
    ENS(spif_regexp_del(r) == TRUE);                                            /* independence */
    ENS(SPIF_STR(d)->len == n && SPIF_STR(d)->s[n] == 0);
    ENS(spif_regexp_del(d) == TRUE);
    VERIF_CANARY();
}
#endif

#ifdef U_DONE
void harness(void)
{
    char text[6];
    spif_regexp_t r;
    TEXT_SHAPE(text);
    libast_debug_level = nondet_uint();
    r = spif_regexp_new_from_ptr((spif_charptr_t) text);
    __CPROVER_assume(r != NULL);
    if (nondet_bool()) spif_regexp_compile(r);
    (void) spif_regexp_comp(r, r);                          /* comp on a valid object: memory-safe, terminates */
    ENS(spif_regexp_done(r) == TRUE);
    ENS(SPIF_STR(r)->s == NULL && SPIF_STR(r)->len == 0 && SPIF_STR(r)->size == 0 && r->data == NULL && r->flags == 0);
    ENS(spif_regexp_done(r) == TRUE);                       /* nothing freed twice */
    ENS(spif_regexp_init_from_ptr(r, (spif_charptr_t) text) == TRUE && SPIF_STR(r)->s != NULL);   /* reusable */
    ENS(spif_regexp_del(r) == TRUE);
    VERIF_CANARY();
}
#endif
