/* C05 (objpair): dup is a fresh pair with its own fresh key / value copies equal to the
 * original's; comp is a consistent order (it is the three-way comparison of integer keys:
 * lemma unit); type() names the class. */
/*@unit
name: objpair_dup
define: U_DUP
src: objpair.c, obj.c
enforce: spif_objpair_dup
funcs: spif_objpair_new_from_both, spif_objpair_init_from_both
backend: sat
*/
/*@unit
name: objpair_comp.laws
define: U_LAWS
src: objpair.c, obj.c
backend: sat
*/
/*@unit
name: objpair_type
define: U_TYPE
src: objpair.c, obj.c
enforce: spif_objpair_type
backend: sat
*/
#include "vprelude.h"
#include "velem_map.h"
#define o_class obj_o_class
#include "src/obj.c"
#undef o_class
#include "objpair.h"
#include "src/objpair.c"

#ifdef U_DUP
spif_objpair_t spif_objpair_dup(spif_objpair_t self)
__CPROVER_requires(PAIR_VALID(self) && spif_objpair_class == &o_class)
__CPROVER_assigns()
__CPROVER_ensures(__CPROVER_is_fresh(__CPROVER_return_value, sizeof(struct spif_objpair_t_struct)))
__CPROVER_ensures(SPIF_OBJ_CLASS(__CPROVER_return_value) == SPIF_OBJ_CLASS(self))
__CPROVER_ensures(__CPROVER_is_fresh(__CPROVER_return_value->key, sizeof(struct velem_struct)) &&
                  __CPROVER_is_fresh(__CPROVER_return_value->value, sizeof(struct velem_struct)))
__CPROVER_ensures(PKEY(__CPROVER_return_value) == PKEY(self) && PVAL(__CPROVER_return_value) == PVAL(self))
;
void harness(void) { spif_objpair_t p; spif_objpair_dup(p); VERIF_CANARY(); }
#endif

#ifdef U_LAWS
/* objpair_comp.contract says: comp(p, q) == VCMP3(key(p), key(q)) for non-NULL arguments and the
 * NULL ordering otherwise (proved on the code by C03.objpair_comp).  The order laws are laws of
 * that specification function: here for arbitrary integer keys, with k = "argument is NULL". */
static spif_cmp_t spec(int an, int a, int bn, int b)
{
    if (an && bn) return SPIF_CMP_EQUAL;
    if (an) return SPIF_CMP_LESS;
    if (bn) return SPIF_CMP_GREATER;
    return VCMP3(a, b);
}
void harness(void)
{
    int a = nondet_int(), b = nondet_int(), c = nondet_int();
    int an = nondet_bool(), bn = nondet_bool(), cn = nondet_bool();
    __CPROVER_assert(spec(an, a, an, a) == SPIF_CMP_EQUAL, "reflexive");
    __CPROVER_assert((int) spec(an, a, bn, b) == -(int) spec(bn, b, an, a), "antisymmetric");
    __CPROVER_assert(!(spec(an, a, bn, b) != SPIF_CMP_GREATER && spec(bn, b, cn, c) != SPIF_CMP_GREATER) || spec(an, a, cn, c) != SPIF_CMP_GREATER, "transitive (<=)");
    __CPROVER_assert(!(spec(an, a, bn, b) == SPIF_CMP_EQUAL && spec(bn, b, cn, c) == SPIF_CMP_EQUAL) || spec(an, a, cn, c) == SPIF_CMP_EQUAL, "transitive (==)");
    __CPROVER_assert(!(an && !bn) || spec(an, a, bn, b) == SPIF_CMP_LESS, "NULL before every object");
    VERIF_CANARY();
}
#endif

#ifdef U_TYPE
/* (pair built by the harness: cbmc can dereference self->cls only if it was assigned) */
spif_classname_t spif_objpair_type(spif_objpair_t self)
__CPROVER_requires(__CPROVER_rw_ok(self, sizeof(*self)) && SPIF_OBJ_CLASS(self) == &o_class)
__CPROVER_assigns()
__CPROVER_ensures(__CPROVER_return_value == o_class.classname)
;
void harness(void)
{
    spif_objpair_t p = malloc(sizeof(*p));
    p->parent.cls = &o_class;
    spif_objpair_type(p);
    VERIF_CANARY();
}
#endif
