/* C05 (url): "dup returns an object whose observable value equals the original's ... for every reachable
 * state".  Reachable state used here: a URL whose host was set through the property setter and whose text was
 * not rebuilt since (text = the empty string, host = some one-character string).  spif_url_dup re-parses the
 * text, so the copy has no host: the obligation below FAILS on the current tree (finding C05-url-dup-stale,
 * demo findings/demos/C14_url_dup_stale_components.c) and holds on the proposed fix.
 * Tier B: one concrete text (the empty string: neither scanner loop iterates, nothing is unwound); the
 * component text is symbolic.  str calls: exact executable models (as in units/C14/exact.c).
 */
/*@unit
name: url_dup_components
define: VERIF_OWN_STRCHR, VERIF_OWN_STRLEN, VERIF_OWN_STRDUP, NET_EXACT_LIBC, VERIF_NO_ASSUMED_STR_CONTRACTS
src: url.c
tier: B
bound: text of the original = the empty string, host component = any one-character string set through the setter; loops unwound 4 with unwinding assertions
unwind: 4
backend: sat
native: self
funcs: spif_url_dup, spif_url_new_from_str, spif_url_init_from_str, spif_url_parse
*/
#include "vprelude.h"
#ifndef VERIF_NATIVE
size_t strlen(const char *s) { size_t n = 0; while (s[n]) n++; return n; }
size_t strnlen(const char *s, size_t m) { size_t n = 0; while (n < m && s[n]) n++; return n; }
char *strchr(const char *s, int c) { for (;; s++) { if (*s == (char) c) return (char *) s; if (!*s) return 0; } }
char *strrchr(const char *s, int c) { return strchr(s, c); }
char *index(const char *s, int c) { return strchr(s, c); }
char *rindex(const char *s, int c) { return strchr(s, c); }
char *strstr(const char *h, const char *n) { return 0; }
char *strdup(const char *s) { size_t n = strlen(s) + 1, i; char *r = malloc(n); for (i = 0; i < n; i++) r[i] = s[i]; return r; }
#endif
#include "env_net.h"
#include "url.h"
#ifndef VERIF_NATIVE            /* native replay: the real str.c / obj.c */
static SPIF_CONST_TYPE(strclass) s_class;
SPIF_TYPE(class) SPIF_CLASS_VAR(str) = (spif_class_t) &s_class;
SPIF_TYPE(strclass) SPIF_STRCLASS_VAR(str) = &s_class;
spif_bool_t spif_obj_set_class(spif_obj_t self, spif_class_t cls) { self->cls = cls; return TRUE; }
static spif_str_t m_new(const char *src, spif_stridx_t len)
{
    spif_str_t r = malloc(sizeof(spif_const_str_t)); spif_stridx_t i;
    r->parent.cls = SPIF_CLASS_VAR(str); r->len = len; r->size = len + 1; r->s = malloc(4);
    __CPROVER_assert(len >= 0 && len <= 2, "str model: text within the bound");
    for (i = 0; i < 2; i++) if (i < len) r->s[i] = src[i];
    r->s[len] = 0;
    return r;
}
spif_bool_t spif_str_init(spif_str_t self) { self->s = NULL; self->len = 0; self->size = 0; return TRUE; }
spif_bool_t spif_str_init_from_ptr(spif_str_t self, spif_charptr_t old)
{
    spif_stridx_t i;
    self->parent.cls = SPIF_CLASS_VAR(str); self->len = strlen(old); self->size = self->len + 1; self->s = malloc(4);
    __CPROVER_assert(self->len <= 2, "str model: text within the bound");
    for (i = 0; i < 3; i++) if (i <= self->len) self->s[i] = old[i];
    return TRUE;
}
spif_str_t spif_str_new_from_ptr(spif_charptr_t old) { return m_new(old, strlen(old)); }
spif_str_t spif_str_new_from_buff(spif_charptr_t b, spif_stridx_t n) { return m_new(b, strnlen(b, n)); }
spif_str_t spif_str_dup(spif_str_t self) { return m_new(self->s, self->len); }
spif_bool_t spif_str_done(spif_str_t self) { if (self->size) { free(self->s); self->s = NULL; self->len = 0; self->size = 0; } return TRUE; }
spif_bool_t spif_str_del(spif_str_t self) { spif_str_done(self); free(self); return TRUE; }
spif_cmp_t spif_str_comp(spif_str_t a, spif_str_t b) { return SPIF_CMP_EQUAL; }
spif_bool_t spif_str_append(spif_str_t a, spif_str_t b) { return TRUE; }
spif_bool_t spif_str_append_char(spif_str_t a, spif_char_t c) { return TRUE; }
spif_bool_t spif_str_append_from_ptr(spif_str_t a, spif_charptr_t b) { return TRUE; }
#undef SPIF_OBJ_DEL
#define SPIF_OBJ_DEL(o) spif_str_del((spif_str_t) (o))
# include "src/url.c"
#else
# include "rawsrc/url.c"
#endif


void harness(void)
{
    char host[2];
    spif_url_t u, v;
    libast_debug_level = VND(uint, debug_level);
#ifndef VERIF_NATIVE
    SPIF_CLASS_VAR(url) = &u_class;
#endif
    host[0] = VND(char, host_c0); host[1] = 0;
    __CPROVER_assume(host[0] != 0);
    u = spif_url_new_from_ptr((spif_charptr_t) "");
    __CPROVER_assert(u != NULL && u->host == NULL, "the empty text has no host");
    spif_url_set_host(u, spif_str_new_from_ptr((spif_charptr_t) host));
    v = spif_url_dup(u);
    __CPROVER_assert(v != NULL && v != u, "dup returns a distinct object");
    __CPROVER_assert((v->host != NULL) == (u->host != NULL), "dup: a component is present in the copy iff it is present in the original");
    __CPROVER_assert(v->host == NULL || (v->host != u->host && v->host->len == 1 && v->host->s[0] == host[0]),
                     "dup: the copy's component is a separate string with the original's text");
    VERIF_CANARY();
}
