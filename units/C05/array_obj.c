/* C05 (array): comp is the lexicographic order of the two views (NULL placeholder < element,
 * proper prefix < longer sequence, NULL container < any container); type() names the class;
 * new/init give an empty container of the right class. */
/*@unit
name: array_comp.null
define: U_COMP, B_NULLARG
src: array.c
native: array_obj
native_includes: array.c
enforce: spif_array_comp
backend: sat
loops: 1
*/
/*@unit
name: array_comp.samelen
define: U_COMP, B_SAMELEN
src: array.c
native: array_obj
native_includes: array.c
enforce: spif_array_comp
backend: sat
loops: 1
*/
/*@unit
name: array_comp.shorter
define: U_COMP, B_SHORTER
src: array.c
native: array_obj
native_includes: array.c
enforce: spif_array_comp
backend: sat
loops: 1
*/
/*@unit
name: array_comp.longer
define: U_COMP, B_LONGER
src: array.c
native: array_obj
native_includes: array.c
enforce: spif_array_comp
backend: sat
loops: 1
*/
/*@unit
name: array_comp.reflexive
define: U_COMP_REFL, VA_COMP_KEY
src: array.c
native: array_obj
native_includes: array.c
enforce: spif_array_comp
backend: sat
loops: 1
*/
/*@unit
name: array_type
define: U_TYPE
src: array.c, obj.c
native: array_obj
native_includes: array.c
enforce: spif_array_type
backend: sat
*/
/*@unit
name: array_list_new
define: U_NEW, K_LIST
src: array.c, obj.c
native: array_obj
native_includes: array.c
enforce: spif_array_list_new
backend: sat
*/
/*@unit
name: array_vector_new
define: U_NEW, K_VECTOR
src: array.c, obj.c
native: array_obj
native_includes: array.c
enforce: spif_array_vector_new
backend: sat
*/
/*@unit
name: array_map_new
define: U_NEW, K_MAP
src: array.c, obj.c
native: array_obj
native_includes: array.c
enforce: spif_array_map_new
backend: sat
*/
#define VA_ELEM_T spif_obj_t
#include "vprelude.h"
#include "env_array.h"
#include "array.h"
#include "src/obj.c"
#include "src/array.c"

#ifdef U_COMP
#define LA ((long) self->len)
#define LB ((long) other->len)
#define LMIN (LA < LB ? LA : LB)
#if defined(B_NULLARG)
# define BEHAV (self == NULL || other == NULL)
#elif defined(B_SAMELEN)
# define BEHAV (self != NULL && other != NULL && self->len == other->len)
#elif defined(B_SHORTER)
# define BEHAV (self != NULL && other != NULL && self->len < other->len)
#else
# define BEHAV (self != NULL && other != NULL && self->len > other->len)
#endif
static spif_cmp_t spif_array_comp(spif_array_t self, spif_array_t other)
__CPROVER_requires((self == NULL || ARRAY_VALID_W(self)) && (other == NULL || ARRAY_VALID(other)) && BEHAV)
__CPROVER_requires(self == NULL || SNAP_ITEM(self, vg_k, vg_old_k))
__CPROVER_requires(other == NULL || SNAP_ITEM(other, vg_k, vg_old_k2))
__CPROVER_requires(vg_ca == vg_old_k && vg_cb == vg_old_k2 && VA_CMP_OK(vg_cr))
__CPROVER_assigns(vg_exit)
__CPROVER_ensures(VA_CMP_OK(__CPROVER_return_value))
/* NULL container sorts before every container */
__CPROVER_ensures(!(self == NULL || other == NULL) ||
                  __CPROVER_return_value == ((self == NULL && other == NULL) ? SPIF_CMP_EQUAL : (self == NULL ? SPIF_CMP_LESS : SPIF_CMP_GREATER)))
/* EQUAL only for equal views: same length, every slot equal */
__CPROVER_ensures(self == NULL || other == NULL || __CPROVER_return_value != SPIF_CMP_EQUAL ||
                  (LA == LB && (vg_k >= (size_t) LA || VA_SLOTCMP_K == SPIF_CMP_EQUAL)))
/* decided by the first differing slot (position vg_exit) ... */
__CPROVER_ensures(self == NULL || other == NULL || !((long) vg_exit < LMIN) ||
                  ((vg_k >= vg_exit || VA_SLOTCMP_K == SPIF_CMP_EQUAL) &&
                   (vg_k != vg_exit || (VA_SLOTCMP_K != SPIF_CMP_EQUAL && __CPROVER_return_value == VA_SLOTCMP_K))))
/* ... or, when the common prefix is equal, by the lengths */
__CPROVER_ensures(self == NULL || other == NULL || ((long) vg_exit < LMIN) ||
                  ((vg_k >= (size_t) LMIN || VA_SLOTCMP_K == SPIF_CMP_EQUAL) && __CPROVER_return_value == VA_CMP3(LA, LB)))
;
void harness(void) { spif_array_t self, other; spif_array_comp(self, other); VERIF_CANARY(); }
#endif

#ifdef U_COMP_REFL
/* comp(a, a) == EQUAL for every container (key model: comp(x, x) is EQUAL for every element) */
static spif_cmp_t spif_array_comp(spif_array_t self, spif_array_t other)
__CPROVER_requires(ARRAY_VALID_W(self) && other == self)
__CPROVER_requires(SNAP_ITEM(self, vg_k, vg_old_k) && vg_old_k2 == vg_old_k && vg_cr == SPIF_CMP_EQUAL)   /* ghost slot pair is (x, x) */
__CPROVER_assigns(vg_exit)
__CPROVER_ensures(__CPROVER_return_value == SPIF_CMP_EQUAL)
;
void harness(void) { spif_array_t self, other; spif_array_comp(self, other); VERIF_CANARY(); }
#endif

#ifdef U_TYPE
/* type() names the object's class: the class name string of the object's class.
 * (The object is built by the harness, not by is_fresh: cbmc can only dereference self->cls when
 * the class pointer was ASSIGNED one of the class objects, an == in requires is not enough.) */
static spif_classname_t spif_array_type(spif_array_t self)
__CPROVER_requires(__CPROVER_rw_ok(self, sizeof(*self)))
__CPROVER_requires(SPIF_OBJ_CLASS(self) == SPIF_CLASS(&a_class) || SPIF_OBJ_CLASS(self) == SPIF_CLASS(&av_class) || SPIF_OBJ_CLASS(self) == SPIF_CLASS(&am_class))
__CPROVER_assigns()
__CPROVER_ensures(__CPROVER_return_value == SPIF_OBJ_CLASS(self)->classname)
__CPROVER_ensures(SPIF_OBJ_CLASS(self) != SPIF_CLASS(&a_class) || __CPROVER_return_value == a_class.parent.classname)
;
void harness(void)
{
    spif_array_t self = malloc(sizeof(*self));
    int k = nondet_int();
    self->parent.cls = (k == 0) ? SPIF_CLASS(&a_class) : ((k == 1) ? SPIF_CLASS(&av_class) : SPIF_CLASS(&am_class));
    spif_array_type(self);
    VERIF_CANARY();
}
#endif

#ifdef U_NEW
#if defined(K_LIST)
# define NEWFN spif_array_list_new
# define CLSVAR spif_array_listclass
# define CLSOBJ a_class
#elif defined(K_VECTOR)
# define NEWFN spif_array_vector_new
# define CLSVAR spif_array_vectorclass
# define CLSOBJ av_class
#else
# define NEWFN spif_array_map_new
# define CLSVAR spif_array_mapclass
# define CLSOBJ am_class
#endif
/* new: a fresh, empty container of the right class */
static spif_array_t NEWFN(void)
__CPROVER_requires(CLSVAR == &CLSOBJ)
__CPROVER_assigns()
__CPROVER_ensures(__CPROVER_is_fresh(__CPROVER_return_value, sizeof(struct spif_array_t_struct)))
__CPROVER_ensures(__CPROVER_return_value->len == 0 && __CPROVER_return_value->items == NULL)
__CPROVER_ensures(SPIF_OBJ_CLASS(__CPROVER_return_value) == SPIF_CLASS(&CLSOBJ))
;
void harness(void) { NEWFN(); VERIF_CANARY(); }
#endif
