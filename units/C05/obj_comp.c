/* C05, class obj: comparison is a consistent order (reflexive, antisymmetric, transitive, NULL before
 * every object) and terminates; dup is a distinct equal-class copy; type() names the class.
 * spif_obj_comp never dereferences its arguments, so the laws are stated over ARBITRARY pointer values
 * (the whole 64-bit address space), loop-free plain runs = complete; native replay from the same file. */
/*@unit
name: obj.comp.laws
define: U_LAWS
src: obj.c
funcs: spif_obj_comp
backend: sat
native: self
checks_off: --pointer-primitive-check
*/
/*@unit
name: obj.dup_type
define: U_DUP
src: obj.c
funcs: spif_obj_dup, spif_obj_type, spif_obj_new, spif_obj_init, spif_obj_del, spif_obj_done, spif_obj_get_class, spif_obj_set_class
backend: sat
*/
#include "vprelude.h"
#include "rawsrc/obj.c"

#define ENS(c) __CPROVER_assert((c), "C05 obj: " #c)

#ifdef U_LAWS
void harness(void)
{
    spif_obj_t a = (spif_obj_t) (unsigned long) VND(ulong, a);
    spif_obj_t b = (spif_obj_t) (unsigned long) VND(ulong, b);
    spif_obj_t c = (spif_obj_t) (unsigned long) VND(ulong, c);
    spif_cmp_t ab = spif_obj_comp(a, b), ba = spif_obj_comp(b, a), bc = spif_obj_comp(b, c), ac = spif_obj_comp(a, c);
    ENS(spif_obj_comp(a, a) == SPIF_CMP_EQUAL);                                /* reflexive */
    ENS((int) ab == -(int) ba);                                                /* antisymmetric */
    ENS(ab != SPIF_CMP_EQUAL || a == b);                                       /* equal only if same object */
    ENS(!(ab == SPIF_CMP_LESS && bc == SPIF_CMP_LESS) || ac == SPIF_CMP_LESS);  /* transitive */
    ENS(!(ab == SPIF_CMP_EQUAL && bc == SPIF_CMP_EQUAL) || ac == SPIF_CMP_EQUAL);
    ENS(b == NULL || spif_obj_comp((spif_obj_t) NULL, b) == SPIF_CMP_LESS);    /* NULL before every object */
    ENS(a == NULL || spif_obj_comp(a, (spif_obj_t) NULL) == SPIF_CMP_GREATER);
    ENS(ab == SPIF_CMP_LESS || ab == SPIF_CMP_EQUAL || ab == SPIF_CMP_GREATER);
    VERIF_CANARY();
}
#endif

#ifdef U_DUP
void harness(void)
{
    spif_obj_t a = spif_obj_new(), d;
    static SPIF_CONST_TYPE(class) vk = { (spif_classname_t) "!vclass!" };
    spif_class_t k = &vk;
    libast_debug_level = nondet_uint();
    ENS(a != NULL);
    ENS(spif_obj_set_class(a, k) == TRUE && spif_obj_get_class(a) == k);
    d = spif_obj_dup(a);
    ENS(d != NULL && d != a);                       /* distinct object */
    ENS(spif_obj_get_class(d) == k);                /* same class / same observable value */
    ENS(spif_obj_type(d) == k->classname);          /* type() names the class: the class's name string */
    /* independent: deleting either leaves the other valid */
    ENS(spif_obj_del(a) == TRUE);
    ENS(spif_obj_get_class(d) == k);
    ENS(spif_obj_done(d) == TRUE && spif_obj_del(d) == TRUE);
    VERIF_CANARY();
}
#endif
