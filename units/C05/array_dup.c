/* C05 (array): dup returns a distinct object of the same class with an equal view whose slot
 * array and elements are its own (fresh), for any state incl. the empty container; the original
 * is not touched.  Ghost-slot model (env_array.h): slot vg_k holds a real velem (unit .elems) or
 * a NULL placeholder (unit .placeholder); independence of the two objects then follows from
 * separation (every mutator's frame lies inside its own container, C02 units).
 * The element copy is the block vg_dup_obj which the precondition hands in fresh (see env_array.h). */
/*@unit
name: array_list_dup.elems
define: U_LIST, B_ELEM
src: array.c, obj.c
native: array_obj
native_includes: array.c
enforce: spif_array_list_dup
backend: sat
loops: 1
*/
/*@unit
name: array_list_dup.placeholder
define: U_LIST, B_NULL
src: array.c, obj.c
native: array_obj
native_includes: array.c
enforce: spif_array_list_dup
backend: sat
loops: 1
*/
/*@unit
name: array_vector_dup.elems
define: U_VECTOR, B_ELEM
src: array.c, obj.c
native: array_obj
native_includes: array.c
enforce: spif_array_vector_dup
backend: sat
loops: 1
*/
#define VA_ELEM_T spif_obj_t
#include "vprelude.h"
#include "env_array.h"
#include "array.h"
#include "src/obj.c"
#include "src/array.c"

#if defined(U_LIST)
# define DUPFN spif_array_list_dup
# define CLSVAR spif_array_listclass
# define CLSOBJ a_class
#elif defined(U_VECTOR)
# define DUPFN spif_array_vector_dup
# define CLSVAR spif_array_vectorclass
# define CLSOBJ av_class
#endif
#ifdef B_ELEM
# define SLOT_K (vg_k >= (size_t) self->len || VELEM_VALID((velem_t) self->items[vg_k]))
#else
# define SLOT_K (vg_k < (size_t) self->len && self->items[vg_k] == (spif_obj_t) NULL)
#endif

static spif_array_t DUPFN(spif_array_t self)
__CPROVER_requires(ARRAY_VALID_W(self) && SLOT_K && SNAP_ITEM(self, vg_k, vg_old_k))
__CPROVER_requires(CLSVAR == &CLSOBJ && vg_dup_cnt == 0 && VELEM_VALID(vg_dup_obj))
__CPROVER_assigns(vg_cur, vg_dup_cnt, __CPROVER_object_whole(vg_dup_obj))
__CPROVER_ensures(__CPROVER_is_fresh(__CPROVER_return_value, sizeof(*self)))
__CPROVER_ensures(__CPROVER_return_value->len == self->len && SPIF_OBJ_CLASS(__CPROVER_return_value) == SPIF_OBJ_CLASS(self))
__CPROVER_ensures(__CPROVER_is_fresh(__CPROVER_return_value->items, ASZ(self->len)))
/* slot vg_k of the copy: NULL for a placeholder, else an own fresh element with the same key */
__CPROVER_ensures(vg_k >= (size_t) self->len ||
                  (vg_old_k == (spif_obj_t) NULL ? __CPROVER_return_value->items[vg_k] == (spif_obj_t) NULL
                   : (__CPROVER_return_value->items[vg_k] == (spif_obj_t) vg_dup_obj &&     /* = the fresh block */
                      vg_dup_obj->key == ((velem_t) self->items[vg_k])->key && vg_dup_cnt == 1)))
/* the original still holds the same element */
__CPROVER_ensures(vg_k >= (size_t) self->len || self->items[vg_k] == vg_old_k)
;
void harness(void) { spif_array_t self; DUPFN(self); VERIF_CANARY(); }
