/* Native replay of the C05 array units (dup, comp, type, new): every list of length 0..4 over
 * {placeholder, key 1, key 2}, every pair of such lists for comp; oracle = the ideal sequence and
 * the lexicographic order of two sequences (placeholder < element, proper prefix < longer). */
#include <libast_internal.h>
#include "array.c"
#include "units/C02/native/array_common.h"

static int slotcmp(int x, int y) { if (x == NOKEY && y == NOKEY) return 0; if (x == NOKEY) return -1; if (y == NOKEY) return 1; return x < y ? -1 : (x > y ? 1 : 0); }
static int ideal_comp(const int *a, long na, const int *b, long nb)
{
    long i; for (i = 0; i < na && i < nb; i++) { int c = slotcmp(a[i], b[i]); if (c) return c; }
    return na < nb ? -1 : (na > nb ? 1 : 0);
}
static void ctx2(const char *what, const int *a, long na, const int *b, long nb)
{
    long i; snprintf(na_ctx, sizeof(na_ctx), "%s a=[", what);
    for (i = 0; i < na; i++) snprintf(na_ctx + strlen(na_ctx), sizeof(na_ctx) - strlen(na_ctx), a[i] == NOKEY ? "NULL " : "%d ", a[i]);
    snprintf(na_ctx + strlen(na_ctx), sizeof(na_ctx) - strlen(na_ctx), "] b=[");
    for (i = 0; i < nb; i++) snprintf(na_ctx + strlen(na_ctx), sizeof(na_ctx) - strlen(na_ctx), b[i] == NOKEY ? "NULL " : "%d ", b[i]);
    snprintf(na_ctx + strlen(na_ctx), sizeof(na_ctx) - strlen(na_ctx), "]");
}
static spif_array_t mk(int kind, const int *k, long n, spif_obj_t *p) { long i; for (i = 0; i < n; i++) p[i] = E(k[i]); return na_build(kind, p, n); }

int main(void)
{
    long na, nb, pa, pb, i; int ka[8], kb[8]; spif_obj_t p[8], q[8];
    NA_INIT();
#if defined(U_LIST) || defined(U_VECTOR)
    for (na = 0; na <= 4; na++) for (pa = 0; pa < na_pow(3, na); pa++) {
        spif_array_t a, c; int holes = 0;
        na_pattern(pa, 3, 1, ka, na);
        for (i = 0; i < na; i++) if (ka[i] == NOKEY) holes = 1;
# if defined(B_ELEM)
        if (holes) continue;
# elif defined(B_NULL)
        if (!holes) continue;
# endif
        ctx2("dup", ka, na, ka, 0);
# if defined(U_LIST)
        a = mk(0, ka, na, p); c = spif_array_list_dup(a);
# else
        a = mk(1, ka, na, p); c = spif_array_vector_dup(a);
# endif
        NA_CHECK(c != NULL && c != a && SPIF_OBJ_CLASS(c) == SPIF_OBJ_CLASS(a), "dup is not a distinct object of the same class");
        NA_CHECK(c->len == na && (na == 0 || c->items != a->items), "dup does not have its own slot array of the same length");
        for (i = 0; i < na; i++) {
            if (ka[i] == NOKEY) NA_CHECK(c->items[i] == NULL, "dup: placeholder %ld not copied as placeholder", i);
            else NA_CHECK(c->items[i] != NULL && c->items[i] != a->items[i] && KEYOF(c->items[i]) == ka[i], "dup: element %ld is not an own equal copy", i);
        }
        spif_array_del(a);                                         /* independence: deleting the original ... */
        for (i = 0; i < na; i++) if (ka[i] != NOKEY) NA_CHECK(KEYOF(c->items[i]) == ka[i], "dup: copy changed after deleting the original");
        na_same(a = c, c->items, na, "copy after deleting the original");
    }
#elif defined(U_COMP) || defined(U_COMP_REFL)
    for (na = 0; na <= 3; na++) for (pa = 0; pa < na_pow(3, na); pa++)
        for (nb = 0; nb <= 3; nb++) for (pb = 0; pb < na_pow(3, nb); pb++) {
            spif_array_t a, b; int want, got;
            na_pattern(pa, 3, 1, ka, na); na_pattern(pb, 3, 1, kb, nb);
# if defined(B_SAMELEN)
            if (na != nb) continue;
# elif defined(B_SHORTER)
            if (!(na < nb)) continue;
# elif defined(B_LONGER)
            if (!(na > nb)) continue;
# endif
            ctx2("comp(a,b)", ka, na, kb, nb);
            a = mk(0, ka, na, p); b = mk(0, kb, nb, q);
# if defined(U_COMP_REFL)
            NA_CHECK(spif_array_comp(a, a) == SPIF_CMP_EQUAL, "comp(a,a) is not EQUAL");
# elif defined(B_NULLARG)
            NA_CHECK(spif_array_comp(NULL, NULL) == SPIF_CMP_EQUAL && spif_array_comp(NULL, b) == SPIF_CMP_LESS && spif_array_comp(a, NULL) == SPIF_CMP_GREATER, "NULL container does not sort before every container");
# else
            want = ideal_comp(ka, na, kb, nb); got = (int) spif_array_comp(a, b);
            NA_CHECK(got == want, "comp is %d, the lexicographic order of the two views says %d", got, want);
            NA_CHECK((int) spif_array_comp(b, a) == -want, "comp(b,a) is not the opposite of comp(a,b)");
# endif
        }
#elif defined(U_TYPE)
    { spif_array_t a = spif_array_list_new(); snprintf(na_ctx, sizeof(na_ctx), "a new array list");
      NA_CHECK(strcmp((char *) spif_array_type(a), "!spif_array_t!") == 0, "type() does not name the class"); }
#elif defined(U_NEW)
    { spif_array_t a;
# if defined(K_LIST)
      a = spif_array_list_new(); NA_CHECK(SPIF_OBJ_CLASS(a) == SPIF_CLASS(SPIF_LISTCLASS_VAR(array)), "new list has the wrong class");
# elif defined(K_VECTOR)
      a = spif_array_vector_new(); NA_CHECK(SPIF_OBJ_CLASS(a) == SPIF_CLASS(SPIF_VECTORCLASS_VAR(array)), "new vector has the wrong class");
# else
      a = spif_array_map_new(); NA_CHECK(SPIF_OBJ_CLASS(a) == SPIF_CLASS(SPIF_MAPCLASS_VAR(array)), "new map has the wrong class");
# endif
      snprintf(na_ctx, sizeof(na_ctx), "new()"); NA_CHECK(a->len == 0 && a->items == NULL, "a new container is not empty"); }
#else
# error "no unit selected"
#endif
    fprintf(stderr, "NATIVE-REPLAY: no violation on any small state\n");
    return 0;
}
