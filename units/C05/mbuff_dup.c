/* C05 (mbuff): dup returns a distinct object of the same class whose observable value (length and
 * every byte, ghost index vg_k) equals the original's; object and buffer are fresh allocations, so the
 * copy is independent: mutating, emptying or deleting it never changes or invalidates the original
 * (lemma unit mbuff_dup.independent: dup, overwrite the copy, grow it, delete it - the original keeps
 * fields, bytes and a valid block).  self is not written (assigns clause empty).  type() names the class.
 *
 * dup of an EMPTY buffer: copy gets a malloc(0) block with size 0 (never freed by done/del) and memcpy
 * is handed a NULL source - known_findings C07-mbuff-zero-alloc (shared with the zero-length constructors).
 * The same body is used by units/C07/lifecycle.c under C07 names. */
#ifndef MBUFF_DUP_BODY_ONLY
/*@unit
name: mbuff_dup.nonempty
define: U_DUP, U_NONEMPTY
src: mbuff.c, obj.c
enforce: spif_mbuff_dup
backend: sat
objbits: 6
flags: --slice-formula
*/
/*@unit
name: mbuff_dup.empty
define: U_DUP, U_EMPTY, U_NOT_KF
src: mbuff.c, obj.c
enforce: spif_mbuff_dup
backend: sat
objbits: 6
flags: --slice-formula
*/
/*@unit
name: mbuff_dup.empty.inv
define: U_DUP, U_EMPTY, U_ONLY_KF
src: mbuff.c, obj.c
enforce: spif_mbuff_dup
backend: sat
objbits: 6
flags: --slice-formula
*/
/*@unit
name: mbuff_dup.independent
define: VERIF_MB_GHOSTCOPY, U_INDEP
src: mbuff.c, obj.c
enforce: lemma_dup_independent
backend: sat
objbits: 6
flags: --slice-formula
timeout: 400
funcs: spif_mbuff_dup, spif_mbuff_clear, spif_mbuff_append_from_ptr, spif_mbuff_del, spif_mbuff_done
*/
/*@unit
name: mbuff_type
define: U_TYPE
src: mbuff.c, obj.c
enforce: spif_mbuff_type
backend: sat
objbits: 6
*/
/*@unit
name: mbuff_type.names_class
define: U_TYPE_NAME
src: mbuff.c, obj.c
backend: sat
funcs: spif_mbuff_new, spif_mbuff_type, spif_mbuff_del
*/
#endif
#include "vprelude.h"
#include "env_mbuff.h"
#include "mbuff.h"
#include "src/obj.c"
#include "src/mbuff.c"

#define RV  __CPROVER_return_value

#ifdef U_DUP
spif_mbuff_t spif_mbuff_dup(spif_mbuff_t self)
# ifdef U_NONEMPTY
__CPROVER_requires(MBUFF_INV_NONEMPTY(self))
# else
__CPROVER_requires(MBUFF_INV_EMPTY(self))
# endif
__CPROVER_requires(MB_WIT_SELF(self))
__CPROVER_assigns()
ENS(__CPROVER_is_fresh(RV, sizeof(*RV)))
ENS(RV->parent.cls == self->parent.cls && RV->len == self->len && RV->size == self->size)
ENS_KF(MBUFF_POST(RV))
ENS(MBUFF_POST_ZEROBLOCK(RV))
# ifdef U_NONEMPTY
/* the copy owns a block of its own */
ENS(__CPROVER_is_fresh(RV->buff, (size_t) RV->size))
ENS(!(vg_k < (size_t) self->len) || RV->buff[vg_k] == self->buff[vg_k])
# endif
;
void harness(void)
{
    spif_mbuff_t self;
    spif_mbuff_dup(self);
    VERIF_CANARY();
}
#endif

#ifdef U_INDEP
/* dup, then overwrite / grow / delete the copy: the original is exactly what it was */
static void lemma_dup_independent(spif_mbuff_t s, spif_uint8_t c, spif_byteptr_t more, spif_memidx_t n)
__CPROVER_requires(MBUFF_INV_NONEMPTY(s) && 0 < n && n <= VCAP && __CPROVER_is_fresh(more, (size_t) n) && s->size + n <= VCAP)
__CPROVER_assigns()
__CPROVER_ensures(MBUFF_UNCHANGED_FIELDS(s) && MBUFF_POST(s))
__CPROVER_ensures(!(vg_k < (size_t) s->len) || s->buff[vg_k] == __CPROVER_old(s->buff[VCLAMP(vg_k, s->len)]))
{
    spif_mbuff_t d = spif_mbuff_dup(s);
    spif_mbuff_clear(d, c);
    spif_mbuff_append_from_ptr(d, more, n);
    spif_mbuff_del(d);
}
void harness(void)
{
    spif_mbuff_t s; spif_uint8_t c; spif_byteptr_t more; spif_memidx_t n;
    lemma_dup_independent(s, c, more, n);
    VERIF_CANARY();
}
#endif

#ifdef U_TYPE
/* type() answers with the name string of the object's class (SPIF_OBJ_CLASSNAME = cls->classname) */
spif_classname_t spif_mbuff_type(spif_mbuff_t self)
__CPROVER_requires(MBUFF_INV(self) && __CPROVER_is_fresh(self->parent.cls, sizeof(SPIF_CONST_TYPE(class))))
__CPROVER_assigns()
__CPROVER_ensures(RV == SPIF_OBJ_CLASS(self)->classname)
;
void harness(void)
{
    spif_mbuff_t self;
    spif_mbuff_type(self);
    VERIF_CANARY();
}
#endif

#ifdef U_TYPE_NAME
/* plain run (class tables keep their initialisers): an object made by the class's constructor answers
 * type() with its class, and that class is named "!spif_mbuff_t!" */
void harness(void)
{
    static const char want[] = "!spif_mbuff_t!";
    spif_mbuff_t m = spif_mbuff_new();
    spif_classname_t t = spif_mbuff_type(m);
    unsigned i = nondet_uint();
    __CPROVER_assert(t == spif_mbuff_class->classname && t == SPIF_CLASS(spif_mbuff_mbuffclass)->classname,
                     "type(): the answer is the name of the mbuff class");
    __CPROVER_assume(i < sizeof(want));
    __CPROVER_assert(t[i] == want[i], "type(): the class is named !spif_mbuff_t!");
    __CPROVER_assert(SPIF_OBJ_IS_MBUFF(m), "type(): SPIF_OBJ_IS_MBUFF holds for a constructed object");
    spif_mbuff_del(m);
    VERIF_CANARY();
}
#endif
