/* C05, linked_list classes (list / vector / map): dup gives a distinct, equal, independent copy; comp
 * terminates and obeys the order laws.  Bounded stand-ins (tier B): the harness builds EVERY list of
 * 0..VL_MAXN nodes (list: NULL placeholders or velems of any key; vector: ascending velems; map: real
 * objpairs with ascending keys), calls the real dup, and checks
 *   - the result is a different object of the same class satisfying the representation invariant;
 *   - its view equals the original's: same length, placeholder where the original has one, otherwise an
 *     EQUAL but DISTINCT element (deep copy; for maps: distinct pair with distinct equal key and value);
 *   - the original is unchanged;
 *   - independence: either the copy or the original (nondeterministic choice) is then deleted with the real
 *     del method and the survivor is read back again - any shared node or element would be a freed object.
 * comp: NULL ordering (loop-free, complete) and termination on two real lists (unwinding assertion).
 */

/*@unit
name: llist_dup
define: U_DUP, U_KIND_LIST, VL_MINN=1
src: linked_list.c, obj.c
tier: B
native: self
backend: cadical
unwind: 8
unwind_thorough: 12
bound: list length 1..4, elements NULL placeholders or any key [thorough tier: lengths up to 5]
funcs: spif_linked_list_dup, spif_linked_list_item_dup, spif_linked_list_new, spif_linked_list_del, spif_linked_list_done
*/
/*@unit
name: llist_dup_empty
define: U_DUP, U_KIND_LIST, VL_FIXN=0
src: linked_list.c, obj.c
tier: B
native: self
backend: cadical
unwind: 8
unwind_thorough: 12
bound: the empty list
funcs: spif_linked_list_dup
*/
/*@unit
name: llist_vec_dup
define: U_DUP, U_KIND_VEC, VL_MINN=1
src: linked_list.c, obj.c
tier: B
native: self
backend: cadical
unwind: 8
unwind_thorough: 12
bound: vector length 1..4, ascending keys [thorough tier: lengths up to 5]
funcs: spif_linked_list_vector_dup, spif_linked_list_item_dup, spif_linked_list_vector_new
*/
/*@unit
name: llist_vec_dup_empty
define: U_DUP, U_KIND_VEC, VL_FIXN=0
src: linked_list.c, obj.c
tier: B
native: self
backend: cadical
unwind: 8
unwind_thorough: 12
bound: the empty vector
funcs: spif_linked_list_vector_dup
*/
/*@unit
name: llist_map_dup
define: U_DUP, U_KIND_MAP, VL_MINN=1
src: linked_list.c, objpair.c, obj.c
tier: B
native: self
backend: cadical
unwind: 8
unwind_thorough: 12
objbits: 10
timeout: 600
bound: map size 1..4, all key and value keys [thorough tier: lengths up to 5]
funcs: spif_linked_list_map_dup, spif_linked_list_item_dup, spif_linked_list_map_new, spif_objpair_dup
*/
/*@unit
name: llist_map_dup_empty
define: U_DUP, U_KIND_MAP, VL_FIXN=0
src: linked_list.c, objpair.c, obj.c
tier: B
native: self
backend: cadical
unwind: 8
unwind_thorough: 12
objbits: 10
bound: the empty map
funcs: spif_linked_list_map_dup
*/
/*@unit
name: llist_comp_null
define: U_COMP_NULL, U_KIND_LIST, VL_DISPATCH_LLIST
src: linked_list.c, obj.c
tier: B
native: self
backend: cadical
unwind: 8
unwind_thorough: 12
bound: list length <= 4 (the content is irrelevant); at least one argument NULL [thorough tier: lengths up to 5]
funcs: spif_linked_list_comp
*/
/*@unit
name: llist_comp
define: U_COMP, U_KIND_LIST, VL_DISPATCH_LLIST
src: linked_list.c, obj.c
tier: B
native: self
backend: cadical
unwind: 8
unwind_thorough: 12
bound: two lists of length <= 4; recursion depth <= 8 [thorough tier: lengths up to 5]
funcs: spif_linked_list_comp
*/
#include "vprelude.h"
#ifdef U_KIND_MAP
# define VL_WITH_PAIRS
#endif
#include "lists.h"
#define o_class vl_obj_o_class
#include "src/obj.c"
#undef o_class
#ifdef U_KIND_MAP
# define VL_SWITCH_ELEM
# include "lists.h"           /* inside objpair.c: keys and values are velems */
# include "src/objpair.c"
# define VL_SWITCH_OBJ
# include "lists.h"           /* list code: pair | list | velem */
#endif
#include "src/linked_list.c"

#define LT spif_linked_list_t
#define IT spif_linked_list_item_t
#define LINK VL_SL

#ifdef U_KIND_LIST
# define CLS SPIF_LISTCLASS_VAR(linked_list)
# define DUP spif_linked_list_dup
# define BUILD(self, m) do { VL_INPUTS(vin, a); VL_BUILD(self, LT, IT, CLS, VL_SL, m, vin, vl_data_list); } while (0)
#endif
#ifdef U_KIND_VEC
# define CLS SPIF_VECTORCLASS_VAR(linked_list)
# define DUP spif_linked_list_vector_dup
# define BUILD(self, m) do { VL_INPUTS(vin, a); VL_BUILD(self, LT, IT, CLS, VL_SL, m, vin, vl_data_vec); } while (0)
#endif
#ifdef U_KIND_MAP
# define CLS SPIF_MAPCLASS_VAR(linked_list)
# define DUP spif_linked_list_map_dup
# define BUILD(self, m) do { VL_INPUTS(vin, a); VL_BUILD_MAP(self, LT, IT, CLS, VL_SL, m, vin); } while (0)
vl_map_t m;
#else
vl_seq_t m, r;
#endif
vl_in_t vin;            /* the built container's inputs (VND: replayable natively) */
int w_n, w_del_copy;

#ifdef U_DUP
/* the copy's view equals the original's, element-wise distinct (deep copy) */
static void check_copy(LT self, LT copy, const char *unused)
{
    int i;
    (void) unused;
#ifdef U_KIND_MAP
    IT c = copy->head, o = self->head;
    VL_CHECK_MAP(copy, IT, VL_SL, m, "llist dup (copy)");
    for (i = 0; i < VL_CAP && i < m.len && c != NULL && o != NULL; i++, c = c->next, o = o->next) {
        spif_objpair_t pc = (spif_objpair_t) c->data, po = (spif_objpair_t) o->data;
        __CPROVER_assert(c != o && pc != po && pc->key != po->key && pc->value != po->value,
                         "llist dup: node, pair, key and value i of the copy are distinct objects (deep copy)");
    }
#else
    VL_READ(copy, IT, VL_SL, r, 0, "llist dup (copy)");
    __CPROVER_assert(r.len == m.len, "llist dup: the copy has the same length");
    for (i = 0; i < VL_CAP && i < m.len && i < r.len; i++) {
        if (m.e[i] == NULL)
            __CPROVER_assert(r.e[i] == NULL, "llist dup: a placeholder is copied as a placeholder");
        else
            __CPROVER_assert(r.e[i] != NULL && r.e[i] != m.e[i] && r.key[i] == m.key[i],
                             "llist dup: element i of the copy is an equal but distinct object (deep copy)");
    }
#endif
}
#endif

void harness(void)
{
    LT self, copy;

    BUILD(self, m);
    w_n = m.len;

#ifdef U_DUP
    copy = DUP(self);
    __CPROVER_assert(copy != NULL && copy != self, "llist dup: returns a distinct object");
    if (copy != NULL) {
        __CPROVER_assert(SPIF_OBJ_CLASS(copy) == SPIF_OBJ_CLASS(self), "llist dup: the copy has the same class");
        check_copy(self, copy, "");
# ifdef U_KIND_MAP
        VL_CHECK_MAP(self, IT, VL_SL, m, "llist dup (original)");
# else
        VL_CHECK(self, IT, VL_SL, m, "llist dup (original)");
# endif
        /* independence: delete one of the two with the real del, the other must be intact */
        if (VND(bool, c1)) {
            w_del_copy = 1;
            spif_linked_list_del(copy);
# ifdef U_KIND_MAP
            VL_CHECK_MAP(self, IT, VL_SL, m, "llist dup (original after deleting the copy)");
# else
            VL_CHECK(self, IT, VL_SL, m, "llist dup (original after deleting the copy)");
# endif
        } else {
            w_del_copy = 0;
            spif_linked_list_del(self);
# ifdef U_KIND_MAP
            VL_CHECK_MAP(copy, IT, VL_SL, m, "llist dup (copy after deleting the original)");
# else
            {
                int i; vl_seq_t r2;
                VL_READ(copy, IT, VL_SL, r2, 0, "llist dup (copy after deleting the original)");
                __CPROVER_assert(r2.len == r.len, "llist dup: the copy keeps its length after the original is deleted");
                for (i = 0; i < VL_CAP && i < r.len && i < r2.len; i++)
                    __CPROVER_assert(r2.e[i] == r.e[i] && r2.key[i] == r.key[i], "llist dup: the copy keeps its elements after the original is deleted");
            }
# endif
        }
    }
#endif

#ifdef U_COMP_NULL
    /* NULL is ordered before every object; two NULLs are equal */
    __CPROVER_assert(spif_linked_list_comp((LT) NULL, (LT) NULL) == SPIF_CMP_EQUAL, "llist comp: comp(NULL, NULL) == EQUAL");
    __CPROVER_assert(spif_linked_list_comp((LT) NULL, self) == SPIF_CMP_LESS, "llist comp: comp(NULL, x) == LESS");
    __CPROVER_assert(spif_linked_list_comp(self, (LT) NULL) == SPIF_CMP_GREATER, "llist comp: comp(x, NULL) == GREATER");
#endif
#ifdef U_COMP
    {
        LT other; vl_seq_t m2; vl_in_t vin2; spif_cmp_t ab, ba;
        VL_INPUTS(vin2, b); VL_BUILD(other, LT, IT, CLS, VL_SL, m2, vin2, vl_data_list);
        /* comparison terminates (the unwinding assertion on the recursion is the obligation) ... */
        ab = spif_linked_list_comp(self, other);
        ba = spif_linked_list_comp(other, self);
        /* ... and is reflexive and antisymmetric */
        __CPROVER_assert(spif_linked_list_comp(self, self) == SPIF_CMP_EQUAL, "llist comp: reflexive");
        __CPROVER_assert((int) ab == -(int) ba, "llist comp: antisymmetric");
        __CPROVER_assert(ab == SPIF_CMP_LESS || ab == SPIF_CMP_EQUAL || ab == SPIF_CMP_GREATER, "llist comp: result is a spif_cmp_t value");
    }
#endif
    VERIF_CANARY();
}
