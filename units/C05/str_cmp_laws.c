/* C05: comparison laws of spif_str_cmp / spif_str_comp (and the ustr clones) as lemma units over the REAL code:
 * two or three arbitrary valid objects (any text, any capacity; NULL allowed), the functions are called and the laws
 * are asserted on their results.  libc's strcmp is the uninterpreted function of env_str.h (same arguments - same
 * answer, a text equals itself, swapping the arguments swaps the sign); transitivity of strcmp itself is the stated
 * assumption of the .trans unit.  So the laws reduce to the strcmp stub plus libast's NULL ordering and sign
 * normalisation, which is what these units check:
 * refl: cmp(a,a) == EQUAL          antisym: cmp(a,b) == -cmp(b,a)        null: NULL < every object, NULL == NULL
 * trans: cmp(a,b) <= 0 && cmp(b,c) <= 0  ==>  cmp(a,c) <= 0 (given strcmp transitive)      comp == cmp
 * type(): the object's class name string. */

/*@unit
name: str_cmp_laws.refl
define: VP=str, U_LAW_REFL
src: str.c, obj.c
funcs: spif_str_cmp, spif_str_comp
*/
/*@unit
name: str_cmp_laws.antisym
define: VP=str, U_LAW_ANTISYM
src: str.c, obj.c
funcs: spif_str_cmp, spif_str_comp
*/
/*@unit
name: str_cmp_laws.null
define: VP=str, U_LAW_NULL
src: str.c, obj.c
funcs: spif_str_cmp, spif_str_comp
*/
/*@unit
name: str_cmp_laws.trans
define: VP=str, U_LAW_TRANS
src: str.c, obj.c
funcs: spif_str_cmp, spif_str_comp
*/
/*@unit
name: str_type
define: VP=str, U_TYPE
src: str.c, obj.c
enforce: spif_str_type
*/
/*@unit
name: str_type_name
define: VP=str, U_TYPE_NAME
src: str.c, obj.c
funcs: spif_str_type, spif_str_new
*/
/*@unit
name: ustr_cmp_laws.refl
define: VP=ustr, U_LAW_REFL
src: ustr.c, obj.c
funcs: spif_ustr_cmp, spif_ustr_comp
*/
/*@unit
name: ustr_cmp_laws.antisym
define: VP=ustr, U_LAW_ANTISYM
src: ustr.c, obj.c
funcs: spif_ustr_cmp, spif_ustr_comp
*/
/*@unit
name: ustr_cmp_laws.null
define: VP=ustr, U_LAW_NULL
src: ustr.c, obj.c
funcs: spif_ustr_cmp, spif_ustr_comp
*/
/*@unit
name: ustr_cmp_laws.trans
define: VP=ustr, U_LAW_TRANS
src: ustr.c, obj.c
funcs: spif_ustr_cmp, spif_ustr_comp
*/
/*@unit
name: ustr_type
define: VP=ustr, U_TYPE
src: ustr.c, obj.c
enforce: spif_ustr_type
*/
/*@unit
name: ustr_type_name
define: VP=ustr, U_TYPE_NAME
src: ustr.c, obj.c
funcs: spif_ustr_type, spif_ustr_new
*/
#include "str.h"

#define R __CPROVER_return_value

#if !defined(U_TYPE) && !defined(U_TYPE_NAME)
/* an arbitrary valid allocated object (every text / length / capacity up to VCAP) or NULL */
static VT mk(_Bool may_be_null)
{
    if (may_be_null && nondet_bool()) return (VT) NULL;
    VT o = malloc(sizeof(*o));
    size_t a = nondet_size_t();
    __CPROVER_assume(a >= 1 && a <= VCAP);
    o->s = malloc(a);
    o->len = (VIDX) nondet_long(); o->size = (VIDX) nondet_long();
    __CPROVER_assume(0 <= o->len && o->len < o->size && (size_t) o->size <= a);
    o->s[o->len] = 0;
    spif_obj_set_class(SPIF_OBJ(o), (spif_class_t) &s_class);
    return o;
}
#define NEG(c) ((c) == SPIF_CMP_LESS ? SPIF_CMP_GREATER : ((c) == SPIF_CMP_GREATER ? SPIF_CMP_LESS : (c)))
#define LAW(c) __CPROVER_assert((c), "C05 comparison law: " #c)

void harness(void)
{
    STR_BIND_CLASS();
#ifdef U_LAW_REFL
    VT a = mk(1);
    LAW(VF(cmp)(a, a) == SPIF_CMP_EQUAL);
    LAW(VF(comp)(a, a) == SPIF_CMP_EQUAL);
#endif
#ifdef U_LAW_ANTISYM
    VT a = mk(1), b = mk(1);
    spif_cmp_t ab = VF(cmp)(a, b), ba = VF(cmp)(b, a);
    LAW(ab == NEG(ba));
    LAW(ab == SPIF_CMP_LESS || ab == SPIF_CMP_EQUAL || ab == SPIF_CMP_GREATER);
    LAW(VF(comp)(a, b) == ab);
#endif
#ifdef U_LAW_NULL
    VT b = mk(0);
    LAW(VF(cmp)((VT) NULL, b) == SPIF_CMP_LESS);
    LAW(VF(cmp)(b, (VT) NULL) == SPIF_CMP_GREATER);
    LAW(VF(cmp)((VT) NULL, (VT) NULL) == SPIF_CMP_EQUAL);
    LAW(VF(comp)((VT) NULL, b) == SPIF_CMP_LESS);
#endif
#ifdef U_LAW_TRANS
    VT a = mk(1), b = mk(1), c = mk(1);
    /* ASSUMES libc strcmp is transitive on these three texts */
    if (a != NULL && b != NULL && c != NULL)
        __CPROVER_assume(!(__CPROVER_uninterpreted_vstr_cmp((char *) a->s, (char *) b->s) <= 0 &&
                           __CPROVER_uninterpreted_vstr_cmp((char *) b->s, (char *) c->s) <= 0) ||
                         __CPROVER_uninterpreted_vstr_cmp((char *) a->s, (char *) c->s) <= 0);
    spif_cmp_t ab = VF(cmp)(a, b), bc = VF(cmp)(b, c), ac = VF(cmp)(a, c);
    LAW(!((ab == SPIF_CMP_LESS || ab == SPIF_CMP_EQUAL) && (bc == SPIF_CMP_LESS || bc == SPIF_CMP_EQUAL)) ||
        (ac == SPIF_CMP_LESS || ac == SPIF_CMP_EQUAL));
#endif
    VERIF_CANARY();
}
#endif

#ifdef U_TYPE
/* type() names the object's class: it returns the classname entry of the class table the object points to
 * (any table: DFCC havocs the non-const static table, so its contents are checked by unit type_name instead) */
spif_classname_t VF(type)(VT self)
__CPROVER_requires(STR_OBJ(self) && __CPROVER_is_fresh(self->parent.cls, sizeof(*self->parent.cls)))
__CPROVER_assigns()
__CPROVER_ensures(R == SPIF_OBJ_CLASS(self)->classname)
;
void harness(void)
{
    VT self;
    STR_BIND_CLASS();
    VF(type)(self);
    VERIF_CANARY();
}
#endif

#ifdef U_TYPE_NAME
/* plain run on the real initialisers: a freshly constructed object reports "!spif_str_t!" / "!spif_ustr_t!" */
#define VNAME VSTR(VCAT3(!spif_, VP, _t!))
void harness(void)
{
    VT o = VF(new)();
    spif_classname_t n = VF(type)(o);
    const char *want = VNAME;
    size_t i = nondet_size_t();
    __CPROVER_assume(i <= sizeof(VNAME) - 1);
    __CPROVER_assert(n != NULL, "C05 type(): a name is returned");
    __CPROVER_assert(n[i] == want[i], "C05 type(): the name is the class name, character by character");
    VERIF_CANARY();
}
#endif
