/* C18 (b): value == published definition, tier B by enumeration.
 *
 * One INSTANCE = (hash, constant length K, constant alignment A); key bytes and seed fully
 * symbolic (2^(8K+32) inputs per instance).  A unit covers lengths LO..HI x alignments 0..7;
 * the loops below run over CONSTANTS (symex unrolls them; `--unwind` only bounds the unrolling
 * and --unwinding-assertions proves the bound was enough).
 *
 * Position independence: the key bytes live in kb[] (its own object, offset 0); they are
 * copied to buf+A and the hash of buf+A is compared with the reference evaluated ONCE on
 * kb[] - so the 8 placements of the same bytes all yield the same value.
 * The bytes in front of and behind the key inside buf[] are different symbolic bytes:
 * a hash that looked at them would differ from the reference.
 *
 * jenkins / jenkinsLE: the same instances also assert spifhash_jenkins == spifhash_jenkinsLE
 * (byte-wise and word-wise variant are one function on this little-endian host).
 * jenkins32 takes its length in 32-bit WORDS: LO..HI are word counts there (HI=12 = 48 bytes).
 *
 * The generator below keeps the unit headers as plain text: tools are not needed to re-create
 * them ( for h in jenkins jenkinsLE rotating one_at_a_time fnv; do for r in 0-12 13-24 25-36 37-48 ...).
 */

/*@unit
name: equiv.jenkins.00-12
define: U_JENKINS, LO=0, HI=12
src: builtin_hashes.c
backend: z3,cvc5
tier: B
bound: len <= 48 bytes (this unit: len 0..12 x alignment 0..7, bytes and seed symbolic)
unwind: 60
timeout: 280
funcs: spifhash_jenkins
*/
/*@unit
name: equiv.jenkins.13-24
define: U_JENKINS, LO=13, HI=24
src: builtin_hashes.c
backend: z3,cvc5
tier: B
bound: len <= 48 bytes (this unit: len 13..24 x alignment 0..7, bytes and seed symbolic)
unwind: 60
timeout: 280
funcs: spifhash_jenkins
*/
/*@unit
name: equiv.jenkins.25-36
define: U_JENKINS, LO=25, HI=36
src: builtin_hashes.c
backend: z3,cvc5
tier: B
bound: len <= 48 bytes (this unit: len 25..36 x alignment 0..7, bytes and seed symbolic)
unwind: 60
timeout: 280
quick: no
funcs: spifhash_jenkins
*/
/*@unit
name: equiv.jenkins.37-48
define: U_JENKINS, LO=37, HI=48
src: builtin_hashes.c
backend: z3,cvc5
tier: B
bound: len <= 48 bytes (this unit: len 37..48 x alignment 0..7, bytes and seed symbolic)
unwind: 60
timeout: 280
quick: no
funcs: spifhash_jenkins
*/
#include "vprelude.h"
#include "hashes_ref.h"
#include "src/builtin_hashes.c"

#ifndef MAXB
# define MAXB 48
#endif
#ifndef ALO
# define ALO 0      /* alignments ALO..AHI */
# define AHI 7
#endif

#if defined(U_JENKINS)
# define BYTES(K)        (K)
# define HASH(p, K, s)   spifhash_jenkins((p), (K), (s))
# define REF(p, K, s)    ref_lookup2_hash((p), (K), (s), REF_LIBAST_INIT)
# define ALSO(p, K, s)   (spifhash_jenkinsLE((p), (K), (s)) == spifhash_jenkins((p), (K), (s)))
#elif defined(U_JENKINSLE)
# define BYTES(K)        (K)
# define HASH(p, K, s)   spifhash_jenkinsLE((p), (K), (s))
# define REF(p, K, s)    ref_lookup2_hash((p), (K), (s), REF_LIBAST_INIT)
#elif defined(U_JENKINS32)
# define BYTES(K)        (4 * (K))
# define HASH(p, K, s)   spifhash_jenkins32((p), (K), (s))
# define REF(p, K, s)    ref_lookup2_hash2((p), (K), (s), REF_LIBAST_INIT)
#elif defined(U_ROTATING)
# define BYTES(K)        (K)
# define HASH(p, K, s)   spifhash_rotating((p), (K), (s))
# define REF(p, K, s)    ref_rotating((p), (K), (s))
#elif defined(U_OAAT)
# define BYTES(K)        (K)
# define HASH(p, K, s)   spifhash_one_at_a_time((p), (K), (s))
# define REF(p, K, s)    ref_one_at_a_time((p), (K), (s))
#elif defined(U_FNV)
# define BYTES(K)        (K)
# define HASH(p, K, s)   spifhash_fnv((p), (K), (s))
# define REF(p, K, s)    ref_fnv1a((p), (K), (s))
#endif

#define VERIF_LEMMA(e, txt) do { __CPROVER_assert((e), txt); __CPROVER_assume(e); } while (0)

spif_uint32_t w_seed;

void harness(void)
{
    unsigned int K, A, i;

    for (K = LO; K <= HI; K++) {
        spif_uint8_t kb[MAXB + 1];              /* the key bytes (symbolic: uninitialised local) */
        spif_uint32_t seed = nondet_uint();
        spif_uint32_t expect;
#ifdef U_SEED0
        seed = 0;                               /* the seed some hashes replace */
#endif
        w_seed = seed;
        expect = REF(kb, K, seed);
        for (A = ALO; A <= AHI; A++) {
            spif_uint8_t buf[MAXB + 16];        /* symbolic surroundings */
            for (i = 0; i < BYTES(K); i++) {
                buf[A + i] = kb[i];
            }
#ifdef U_WORD_LEMMA
            /* cut lemma (proved here, then used): on this host a 32-bit load from an aligned key
             * position is the little-endian byte sum of lookup2's hash().  assert-then-assume of the
             * SAME expression is the cut rule, not an assumption. */
            if ((A & 3) == 0) {
                for (i = 0; i + 4 <= BYTES(K); i += 4) {
                    VERIF_LEMMA(*(spif_uint32_t *) (buf + A + i) ==
                                (kb[i] + ((spif_uint32_t) kb[i + 1] << 8) + ((spif_uint32_t) kb[i + 2] << 16) + ((spif_uint32_t) kb[i + 3] << 24)),
                                "lemma: aligned 32-bit load == little-endian byte sum");
                }
            }
#endif
            __CPROVER_assert(HASH(buf + A, K, seed) == expect, "hash value equals the published definition");
#if defined(ALSO) && !defined(NO_ALSO)
            __CPROVER_assert(ALSO(buf + A, K, seed), "byte-wise and word-wise Jenkins variants agree");
#endif
        }
    }
    VERIF_CANARY();
}
