#!/usr/bin/env python3
"""Prints the /*@unit ... */ headers of equiv.c (C18 value-equivalence instances).
The output is pasted into equiv.c between the GENERATED markers; equiv.c is a plain file and
the driver never runs this script.   usage: gen_equiv_headers.py > headers.txt"""

def unit(name, defs, bound, backend="z3,cvc5", quick=True, timeout=280, funcs="", extra=""):
    print("/*@unit")
    print("name: equiv.%s" % name)
    print("define: %s" % defs)
    print("src: builtin_hashes.c")
    print("native: self")
    print("backend: %s" % backend)
    print("tier: B")
    print("bound: %s" % bound)
    print("unwind: 60")
    print("objbits: 12")
    print("timeout: %d" % timeout)
    if not quick:
        print("quick: no")
    print("funcs: %s" % funcs)
    if extra:
        print(extra)
    print("*/")

RANGES = [(0, 12), (13, 24), (25, 36), (37, 48)]
for h, d, f in [("jenkins", "U_JENKINS", "spifhash_jenkins"), ("rotating", "U_ROTATING", "spifhash_rotating"),
                ("one_at_a_time", "U_OAAT", "spifhash_one_at_a_time"), ("fnv", "U_FNV", "spifhash_fnv")]:
    for lo, hi in RANGES:
        unit("%s.%02d-%02d" % (h, lo, hi), "%s, LO=%d, HI=%d" % (d, lo, hi),
             "len <= 48 bytes (this unit: every len %d..%d x alignment 0..7 as constant instances; key bytes and seed symbolic)" % (lo, hi),
             funcs=f)
# jenkins32: length in 32-bit words
for lo, hi in [(0, 6), (7, 12)]:
    unit("jenkins32.w%02d-%02d" % (lo, hi), "U_JENKINS32, LO=%d, HI=%d" % (lo, hi),
         "len <= 12 words = 48 bytes (this unit: every len %d..%d words x alignment 0..7; key words and seed symbolic)" % (lo, hi),
         funcs="spifhash_jenkins32")
# jenkinsLE, byte loop (key not 4-aligned): alignments 1,2,3,5,6,7
for lo, hi in RANGES:
    unit("jenkinsLE.unaligned.%02d-%02d" % (lo, hi), "U_JENKINSLE, ASEL=2, LO=%d, HI=%d" % (lo, hi),
         "len <= 48 bytes (this unit: every len %d..%d x alignment 1,2,3,5,6,7; bytes and seed symbolic)" % (lo, hi),
         funcs="spifhash_jenkinsLE, spifhash_jenkins")
# jenkinsLE, word loop (alignment 0 and 4).  Below 12 bytes no block is read: easy.
unit("jenkinsLE.aligned.00-11", "U_JENKINSLE, ASEL=1, LO=0, HI=11",
     "len <= 48 bytes (this unit: every len 0..11 x alignment 0,4; bytes and seed symbolic)",
     funcs="spifhash_jenkinsLE, spifhash_jenkins")
# from 12 bytes on the word loads have to be proved equal to lookup2's byte sums under the mixes:
# SMT solvers do not finish, kissat needs 13 s (1 block) .. 180 s (4 blocks) per instance.
def le_hard(lo, hi, a, quick, timeout):
    # NO_ALSO: "jenkinsLE == jenkins" is implied by this unit (jenkinsLE == reference) and the jenkins units
    # (jenkins == reference at the same length and alignment); asserting it again doubles the SAT work
    unit("jenkinsLE.aligned.a%d.%02d-%02d" % (a, lo, hi), "U_JENKINSLE, NO_ALSO, ALO=%d, AHI=%d, LO=%d, HI=%d" % (a, a, lo, hi),
         "len <= 48 bytes (this unit: every len %d..%d at alignment %d; bytes and seed symbolic)" % (lo, hi, a),
         backend="kissat,cadical", quick=quick, timeout=timeout, funcs="spifhash_jenkinsLE, spifhash_jenkins")
for a in (0, 4):
    for lo in range(12, 24):
        le_hard(lo, lo, a, True, 280)
    for lo in range(24, 36):
        le_hard(lo, lo, a, False, 400)
    for lo in range(36, 49):
        le_hard(lo, lo, a, False, 600)
# FNV: one step of the published shift-add form is the multiplication by the FNV prime (all 2^32 values)
print("""/*@unit
name: equiv.fnv.prime_lemma
define: U_FNV_LEMMA
src: builtin_hashes.c
native: self
backend: sat,z3
tier: P
timeout: 120
funcs: spifhash_fnv
*/""")
