/* C18 (a): each built-in hash reads exactly the stated number of key bytes and nothing else,
 * writes nothing, for EVERY length (symbolic, up to 10^8 bytes), seed and key placement.
 * Tier P: loops closed by loop contracts (annot/builtin_hashes.c.memhash.ann), tail switches
 * are straight-line code.  Key placement: see contracts/hashes.h (ghost vg_hbase/vg_halign).
 * spifhash_jenkins32 takes its length in 32-bit WORDS (4*length bytes are read); the other
 * five take bytes.  The obligations that carry the claim are the pointer_dereference checks of
 * every key[...] / *key / key_dword[...] read and the empty assigns clause. */

/*@unit
name: reads.jenkins
define: U_JENKINS
src: builtin_hashes.c
native: reads
enforce: spifhash_jenkins
backend: sat
loops: 1
timeout: 280
*/
/*@unit
name: reads.jenkins32
define: U_JENKINS32
src: builtin_hashes.c
native: reads
enforce: spifhash_jenkins32
backend: sat
loops: 1
timeout: 280
*/
/*@unit
name: reads.jenkinsLE
define: U_JENKINSLE
src: builtin_hashes.c
native: reads
enforce: spifhash_jenkinsLE
backend: sat
loops: 1
timeout: 280
*/
/*@unit
name: reads.rotating
define: U_ROTATING
src: builtin_hashes.c
native: reads
enforce: spifhash_rotating
backend: sat
loops: 1
timeout: 280
*/
/*@unit
name: reads.one_at_a_time
define: U_OAAT
src: builtin_hashes.c
native: reads
enforce: spifhash_one_at_a_time
backend: sat
loops: 1
timeout: 280
*/
/*@unit
name: reads.fnv
define: U_FNV
src: builtin_hashes.c
native: reads
enforce: spifhash_fnv
backend: sat
loops: 1
timeout: 280
*/
#include "vprelude.h"
#include "hashes.h"
#include "src/builtin_hashes.c"

#if defined(U_JENKINS)
# define F spifhash_jenkins
# define NBYTES(l) (l)
#elif defined(U_JENKINS32)
# define F spifhash_jenkins32
# define NBYTES(l) (4 * (size_t) (l))
#elif defined(U_JENKINSLE)
# define F spifhash_jenkinsLE
# define NBYTES(l) (l)
#elif defined(U_ROTATING)
# define F spifhash_rotating
# define NBYTES(l) (l)
#elif defined(U_OAAT)
# define F spifhash_one_at_a_time
# define NBYTES(l) (l)
#elif defined(U_FNV)
# define F spifhash_fnv
# define NBYTES(l) (l)
#endif

spif_uint32_t F(spif_uint8_t *key, spif_uint32_t length, spif_uint32_t seed)
__CPROVER_requires(HASH_KEY_PRE(key, NBYTES(length)))
__CPROVER_assigns()
;

unsigned long w_len, w_seed, w_align;

void harness(void)
{
    spif_uint8_t *key;
    spif_uint32_t length = nondet_uint(), seed = nondet_uint();
    w_len = length; w_seed = seed; w_align = vg_halign;
    F(key, length, seed);
    VERIF_CANARY();
}
