/* Native replay of the C18 read-bound units (reads.*, owner memhash).
 * The contract units prove "reads only the stated key bytes" for a symbolic key; a refuted pointer
 * check has no byte-level witness worth rebuilding (the lengths are what matters), so this template
 * SWEEPS: the real hash (the unit's -DU_* selects it) runs on heap blocks under ASan for every length
 * 0..64 (jenkins32: 0..16 words) at every alignment 0..7:
 *   alignment 0   the key is a block of EXACTLY the key size: a read in front of or behind the key is a
 *                 heap-buffer-overflow (exit 66);
 *   alignment A   the key is the LAST bytes of a block of A + size bytes placed so that key % 8 == A:
 *                 a read behind the key is caught by ASan; a read in front of it is caught by running
 *                 the hash twice with different bytes in front (the value must not change: exit 3).
 * The witness length (W_w_len) is tried first.  builtin_hashes.c is linked from the repo under test. */
#include <libast_internal.h>
#include "vnative.h"

#if defined(U_JENKINS)
# define F spifhash_jenkins
# define NB(l) (l)
# define LMAX 64
#elif defined(U_JENKINS32)
# define F spifhash_jenkins32
# define NB(l) (4 * (size_t) (l))
# define LMAX 16
# define ASTEP 4        /* the key is an array of 32-bit words: UBSan rejects misaligned word loads */
#elif defined(U_JENKINSLE)
# define F spifhash_jenkinsLE
# define NB(l) (l)
# define LMAX 64
#elif defined(U_ROTATING)
# define F spifhash_rotating
# define NB(l) (l)
# define LMAX 64
#elif defined(U_OAAT)
# define F spifhash_one_at_a_time
# define NB(l) (l)
# define LMAX 64
#elif defined(U_FNV)
# define F spifhash_fnv
# define NB(l) (l)
# define LMAX 64
#endif

#ifndef ASTEP
# define ASTEP 1
#endif

static void one(size_t len, spif_uint32_t seed)
{
    size_t nb = NB(len), A, i;
    for (A = 0; A < 8; A += ASTEP) {
        /* malloc returns 16-aligned blocks: a block of 8 + A + nb bytes whose first 8 bytes are skipped when
         * A == 0 would lose the exact front edge, so alignment 0 uses the block itself */
        size_t pad = A;                       /* bytes in front of the key */
        unsigned char *blk = malloc(pad + nb), *key = blk + pad;    /* ASan: a zero-size block has no addressable byte */
        spif_uint32_t h1, h2;
        for (i = 0; i < nb; i++) key[i] = (unsigned char) (i * 37 + 11 + len);
        for (i = 0; i < pad; i++) blk[i] = 0x00;
        h1 = F(key, (spif_uint32_t) len, seed);
        for (i = 0; i < pad; i++) blk[i] = 0xff;
        h2 = F(key, (spif_uint32_t) len, seed);
        if (h1 != h2) {
            fprintf(stderr, "NATIVE-REPLAY: obligation fails on the real code: the hash of %zu key bytes at alignment %zu depends on the bytes in front of the key\n", nb, A);
            exit(3);
        }
        free(blk);
    }
}

int main(void)
{
    size_t wl = (size_t) vn_get("w_len", 0), l;
    spif_uint32_t seed = (spif_uint32_t) vn_get("w_seed", 0);
    if (wl <= 4096) one(wl, seed);
    for (l = 0; l <= LMAX; l++) { one(l, seed); one(l, 0); one(l, 0x9e3779b9U); }
    return 0;
}
