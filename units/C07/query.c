/* C07: queries — index, rindex, find, find_from_ptr and the cmp family answer as the ideal
 * byte sequence would, "not found" is the length, nothing is written (assigns clause empty),
 * no byte outside the buffer is read.
 *
 *   index(c)   smallest k with s[k] == c, else len      r <= len; r < len => s[r] == c; vg_k < r => s[vg_k] != c
 *   rindex(c)  largest  k with s[k] == c, else len      r <= len; r < len => s[r] == c and no c after r; r == len => no c
 *   find(o)    a position where o occurs, else len      r <= len; r < len => r + olen <= len and s[r + vg_k] == o[vg_k]
 *              (memmem stub: first-occurrence / absence are not modelled, see env_mbuff.h)
 *   cmp        lexicographic order of the two sequences, a proper prefix is LESS (so equal-prefix
 *              buffers of different length are NOT equal); witness of the first difference = vg_cmp_d
 *
 * Open findings on this tree (known_findings/C07.mbuff.json): index reads s[len] before testing the
 * bound; rindex reads s[-1] and answers -1; cmp/ncmp/cmp_with_ptr compare MIN(len) resp. the caller's
 * count only. */

/*@unit
name: mbuff.index.slack
define: U_INDEX, U_SLACK
src: mbuff.c
native: mbuff
native_includes: mbuff.c
enforce: spif_mbuff_index
backend: sat
loops: 1
objbits: 6
flags: --slice-formula
*/
/*@unit
name: mbuff.index.full
define: U_INDEX, U_FULL
src: mbuff.c
native: mbuff
native_includes: mbuff.c
enforce: spif_mbuff_index
backend: sat
loops: 1
objbits: 6
flags: --slice-formula
*/
/*@unit
name: mbuff.index.empty
define: U_INDEX, U_EMPTY
src: mbuff.c
native: mbuff
native_includes: mbuff.c
enforce: spif_mbuff_index
backend: sat
loops: 1
objbits: 6
flags: --slice-formula
*/
/*@unit
name: mbuff.rindex.found
define: U_RINDEX, U_FOUND
src: mbuff.c
native: mbuff
native_includes: mbuff.c
enforce: spif_mbuff_rindex
backend: sat
loops: 1
objbits: 6
flags: --slice-formula
*/
/*@unit
name: mbuff.rindex.nonempty
define: U_RINDEX, U_NONEMPTY
src: mbuff.c
native: mbuff
native_includes: mbuff.c
enforce: spif_mbuff_rindex
backend: sat
loops: 1
objbits: 6
flags: --slice-formula
*/
/*@unit
name: mbuff.rindex.empty
define: U_RINDEX, U_EMPTY
src: mbuff.c
native: mbuff
native_includes: mbuff.c
enforce: spif_mbuff_rindex
backend: sat
loops: 1
objbits: 6
flags: --slice-formula
*/
/*@unit
name: mbuff.find
define: U_FIND
src: mbuff.c
native: mbuff
native_includes: mbuff.c
enforce: spif_mbuff_find
backend: sat
objbits: 6
flags: --slice-formula
*/
/*@unit
name: mbuff.find_from_ptr
define: U_FIND_PTR
src: mbuff.c
native: mbuff
native_includes: mbuff.c
enforce: spif_mbuff_find_from_ptr
backend: sat
objbits: 6
flags: --slice-formula
*/
#include "vprelude.h"
#include "env_mbuff.h"
#include "mbuff.h"
#include "src/mbuff.c"


#ifdef U_INDEX
# if defined(U_SLACK)
#  define PRE(o)  (MBUFF_INV_NONEMPTY(o) && (o)->len < (o)->size)
# elif defined(U_FULL)
#  define PRE(o)  (MBUFF_INV_NONEMPTY(o) && (o)->len == (o)->size)
# else
#  define PRE(o)  MBUFF_INV_EMPTY(o)
# endif
spif_memidx_t spif_mbuff_index(spif_mbuff_t self, spif_uint8_t c)
__CPROVER_requires(PRE(self))
__CPROVER_requires(MB_WIT_SELF(self))
__CPROVER_assigns()
__CPROVER_ensures(0 <= __CPROVER_return_value && __CPROVER_return_value <= self->len)
__CPROVER_ensures(!(__CPROVER_return_value < self->len) || self->buff[__CPROVER_return_value] == c)
__CPROVER_ensures(!(vg_k < (size_t) __CPROVER_return_value) || self->buff[vg_k] != c)
;
void harness(void)
{
    spif_mbuff_t self; spif_uint8_t c;
    w_c = c;
    spif_mbuff_index(self, c);
    VERIF_CANARY();
}
#endif

#ifdef U_RINDEX
# if defined(U_FOUND)     /* the byte occurs (ghost witness vg_j) */
#  define PRE(o, c)  (MBUFF_INV_NONEMPTY(o) && vg_j < (size_t) (o)->len && (o)->buff[vg_j] == (c))
# elif defined(U_NONEMPTY)
#  define PRE(o, c)  (MBUFF_INV_NONEMPTY(o) && (o)->len > 0)
# else                    /* no bytes: (NULL,0,0) or an allocated buffer with len == 0 */
#  define PRE(o, c)  (MBUFF_INV(o) && (o)->len == 0)
# endif
spif_memidx_t spif_mbuff_rindex(spif_mbuff_t self, spif_uint8_t c)
__CPROVER_requires(PRE(self, c))
__CPROVER_requires(MB_WIT_SELF(self))
__CPROVER_assigns()
__CPROVER_ensures(0 <= __CPROVER_return_value && __CPROVER_return_value <= self->len)
__CPROVER_ensures(!(__CPROVER_return_value < self->len) || self->buff[__CPROVER_return_value] == c)
/* no occurrence after the reported one; none at all when the answer is len */
__CPROVER_ensures(!(vg_k < (size_t) self->len && (__CPROVER_return_value == self->len || vg_k > (size_t) __CPROVER_return_value)) ||
                  self->buff[vg_k] != c)
;
void harness(void)
{
    spif_mbuff_t self; spif_uint8_t c;
    w_c = c;
    spif_mbuff_rindex(self, c);
    VERIF_CANARY();
}
#endif

#if defined(U_FIND) || defined(U_FIND_PTR)
# ifdef U_FIND
#  define NLEN  ((size_t) other->len)
#  define NB(k) (other->buff[(k)])
spif_memidx_t spif_mbuff_find(spif_mbuff_t self, spif_mbuff_t other)
__CPROVER_requires(MBUFF_INV(self) && MBUFF_INV(other))
__CPROVER_requires(MB_WIT_SELF(self) && MB_WIT_OTHER(other))
# else
#  define NLEN  ((size_t) len)
#  define NB(k) (other[(k)])
spif_memidx_t spif_mbuff_find_from_ptr(spif_mbuff_t self, spif_byteptr_t other, spif_memidx_t len)
__CPROVER_requires(MBUFF_INV(self) && 0 <= len && len <= VCAP && __CPROVER_is_fresh(other, (size_t) len))
__CPROVER_requires(MB_WIT_SELF(self))
# endif
__CPROVER_assigns()
__CPROVER_ensures(0 <= __CPROVER_return_value && __CPROVER_return_value <= self->len)
__CPROVER_ensures(!(__CPROVER_return_value < self->len) || (size_t) __CPROVER_return_value + NLEN <= (size_t) self->len)
__CPROVER_ensures(!(__CPROVER_return_value < self->len && vg_k < NLEN) ||
                  self->buff[(size_t) __CPROVER_return_value + vg_k] == NB(vg_k))
;
void harness(void)
{
    spif_mbuff_t self;
# ifdef U_FIND
    spif_mbuff_t other;
    spif_mbuff_find(self, other);
# else
    spif_byteptr_t other; spif_memidx_t len;
    w_n = len;
    spif_mbuff_find_from_ptr(self, other, len);
# endif
    VERIF_CANARY();
}
#endif
