/* C07: reader constructors — init_from_fd / init_from_fp / new_from_fd / new_from_fp against the input model of
 * contracts/env_mbuff.h: ONE input of vg_in_size bytes (arbitrary), seekable (regular file) or not (pipe, tty,
 * socket), positioned anywhere (vg_in_pos), whose byte at the arbitrary offset vg_in_at is vg_in_byte.  The stubs
 * return every outcome the man pages allow: lseek/ftell/fseek fail or succeed, read returns -1 / 0 at end / any
 * short count, fread returns short counts only together with EOF or an error.
 *
 * Ideal constructor: the buffer is the input from the position at the call up to where reading stopped,
 *      len == bytes consumed,   s[k] == input[pos0 + k]  (ghost index vg_k, ghost input offset vg_in_at),
 * reading stops only at the end of the input or at a reported error (.complete clause), capacity >= length,
 * representation invariant established, seekable or not, buffers from empty to many 4096-byte chunks.
 *
 * The read loops reallocate the buffer they fill: under a loop contract the havocked buffer pointer can be any object
 * and cbmc's symbolic execution does not finish (> 5 min), so init_from_fd / init_from_fp are BOUNDED units (tier B):
 * the loop is unwound, the input arrives in at most 3 delivering calls.  new_from_* (loop-free, callee contract) are P.
 *
 * On this tree BOTH readers fail (known_findings C07-mbuff-init_from_fd, C07-mbuff-init_from_fp): the unit
 * text is written for the proposed fixes
 * findings/proposed/C07_init_from_fd.diff and C07_init_from_fp.diff, against which all four units are proved. */
/*@unit
name: mbuff.init_from_fd
define: VERIF_MB_GHOSTCOPY, VERIF_MB_GHOST1, VERIF_IN_MAXCALLS=3, U_FD
src: mbuff.c, obj.c
native: mbuff
native_includes: mbuff.c
enforce: spif_mbuff_init_from_fd
backend: sat
tier: B
bound: the input is delivered in at most 3 read()/fread() calls that return data (each up to one 4096-byte chunk, so up to 12288 bytes and two capacity doublings); size, position, seekability, short counts, errors and every byte are symbolic
unwind: 5
objbits: 6
flags: --slice-formula --arrays-uf-always
timeout: 900
*/
/*@unit
name: mbuff.init_from_fp
define: VERIF_MB_GHOSTCOPY, VERIF_MB_GHOST1, VERIF_IN_MAXCALLS=3, U_FP
src: mbuff.c, obj.c
native: mbuff
native_includes: mbuff.c
enforce: spif_mbuff_init_from_fp
backend: sat
tier: B
bound: the input is delivered in at most 3 read()/fread() calls that return data (each up to one 4096-byte chunk, so up to 12288 bytes and two capacity doublings); size, position, seekability, short counts, errors and every byte are symbolic
unwind: 5
objbits: 6
flags: --slice-formula --arrays-uf-always
timeout: 900
*/
/*@unit
name: mbuff.new_from_fd
define: U_NEW_FD
src: mbuff.c, obj.c
native: mbuff
native_includes: mbuff.c
enforce: spif_mbuff_new_from_fd
replace: spif_mbuff_init_from_fd
backend: sat
objbits: 6
flags: --slice-formula
*/
/*@unit
name: mbuff.new_from_fp
define: U_NEW_FP
src: mbuff.c, obj.c
native: mbuff
native_includes: mbuff.c
enforce: spif_mbuff_new_from_fp
replace: spif_mbuff_init_from_fp
backend: sat
objbits: 6
flags: --slice-formula
*/
#include "vprelude.h"
#include "env_mbuff.h"
#include "mbuff.h"
#include "src/obj.c"
#include "src/mbuff.c"

#define RV  __CPROVER_return_value
#define POS0  __CPROVER_old(vg_in_pos)

/* what an init_from_* call establishes on raw storage `o` */
#define READER_ASSIGNS(o) \
    __CPROVER_assigns(MBUFF_FRAME_INIT(o), vg_in_pos, vg_in_eof, vg_in_err, vg_in_rderr, vg_in_calls)
#define READER_ENSURES(o) \
    __CPROVER_ensures(RV == TRUE) \
    /* the block is allocated by the call (is_fresh): same text when the contract is used at a call site */ \
    __CPROVER_ensures(MBUFF_STATE_PRE(o)) \
    __CPROVER_ensures((o)->parent.cls == SPIF_CLASS(__CPROVER_old(spif_mbuff_mbuffclass))) \
    /* every byte consumed is in the buffer, in order */ \
    /* (after a stdio error the position is indeterminate: the count is then a lower bound) */ \
    __CPROVER_ensures(VG_IN_OK && POS0 <= vg_in_pos && (o)->len <= vg_in_pos - POS0 && (vg_in_err || (o)->len == vg_in_pos - POS0)) \
    __CPROVER_ensures(!(vg_k < (size_t) (o)->len) || vg_in_at != (size_t) POS0 + vg_k || (o)->buff[vg_k] == vg_in_byte) \
    /* .complete: reading stopped at the end of the input unless an error was reported */ \
    __CPROVER_ensures(vg_in_pos == vg_in_size || vg_in_err || vg_in_rderr)

#ifdef U_FD
spif_bool_t spif_mbuff_init_from_fd(spif_mbuff_t self, int fd)
__CPROVER_requires(__CPROVER_is_fresh(self, sizeof(*self)) && fd >= 0 && VG_IN_OK && !vg_in_rderr && !vg_in_err && vg_in_calls == 0)
READER_ASSIGNS(self)
READER_ENSURES(self)
;
void harness(void)
{
    spif_mbuff_t self; int fd;
    spif_mbuff_init_from_fd(self, fd);
    VERIF_CANARY();
}
#endif

#ifdef U_FP
spif_bool_t spif_mbuff_init_from_fp(spif_mbuff_t self, FILE *fp)
__CPROVER_requires(__CPROVER_is_fresh(self, sizeof(*self)) && fp != NULL && VG_IN_OK && !vg_in_rderr && !vg_in_err && vg_in_calls == 0)
READER_ASSIGNS(self)
READER_ENSURES(self)
;
void harness(void)
{
    spif_mbuff_t self; FILE *fp = nondet_ptr();
    spif_mbuff_init_from_fp(self, fp);
    VERIF_CANARY();
}
#endif

#if defined(U_NEW_FD) || defined(U_NEW_FP)
/* callee contract (proved by the init_from_* units), used at the call site */
# ifdef U_NEW_FD
spif_bool_t spif_mbuff_init_from_fd(spif_mbuff_t self, int fd)
__CPROVER_requires(__CPROVER_is_fresh(self, sizeof(*self)) && fd >= 0 && VG_IN_OK && !vg_in_rderr && !vg_in_err && vg_in_calls == 0)
READER_ASSIGNS(self)
READER_ENSURES(self)
;
spif_mbuff_t spif_mbuff_new_from_fd(int fd)
__CPROVER_requires(fd >= 0 && VG_IN_OK && !vg_in_rderr && !vg_in_err && vg_in_calls == 0)
# else
spif_bool_t spif_mbuff_init_from_fp(spif_mbuff_t self, FILE *fp)
__CPROVER_requires(__CPROVER_is_fresh(self, sizeof(*self)) && fp != NULL && VG_IN_OK && !vg_in_rderr && !vg_in_err && vg_in_calls == 0)
READER_ASSIGNS(self)
READER_ENSURES(self)
;
spif_mbuff_t spif_mbuff_new_from_fp(FILE *fp)
__CPROVER_requires(fp != NULL && VG_IN_OK && !vg_in_rderr && !vg_in_err && vg_in_calls == 0)
# endif
__CPROVER_assigns(vg_in_pos, vg_in_eof, vg_in_err, vg_in_rderr, vg_in_calls)
__CPROVER_ensures(__CPROVER_is_fresh(RV, sizeof(*RV)))
__CPROVER_ensures(MBUFF_POST(RV))
__CPROVER_ensures(VG_IN_OK && POS0 <= vg_in_pos && RV->len <= vg_in_pos - POS0 && (vg_in_err || RV->len == vg_in_pos - POS0))
__CPROVER_ensures(!(vg_k < (size_t) RV->len) || vg_in_at != (size_t) POS0 + vg_k || RV->buff[vg_k] == vg_in_byte)
__CPROVER_ensures(vg_in_pos == vg_in_size || vg_in_err || vg_in_rderr)
;
void harness(void)
{
# ifdef U_NEW_FD
    int fd;
    spif_mbuff_new_from_fd(fd);
# else
    FILE *fp = nondet_ptr();
    spif_mbuff_new_from_fp(fp);
# endif
    VERIF_CANARY();
}
#endif
