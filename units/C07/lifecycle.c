/* C07: done, del, dup and type are part of every history of the property statement ("... dup, done").
 * Their contracts are the ones of units/C06/mbuff_own.c (done: empty state, buffer released; del: object
 * released too) and units/C05/mbuff_dup.c (dup: same length, same bytes, fresh object and buffer, source
 * not written); this file runs the same bodies under C07 unit names so that the C07 evidence covers them. */
/*@unit
name: mbuff.done
define: U_DONE
src: mbuff.c
native: mbuff
native_includes: mbuff.c
enforce: spif_mbuff_done
backend: sat
objbits: 6
*/
/*@unit
name: mbuff.del
define: U_DEL
src: mbuff.c
native: mbuff
native_includes: mbuff.c
enforce: spif_mbuff_del
backend: sat
objbits: 6
funcs: spif_mbuff_done
*/
/*@unit
name: mbuff.dup.nonempty
define: U_DUP, U_NONEMPTY
src: mbuff.c, obj.c
native: mbuff
native_includes: mbuff.c
enforce: spif_mbuff_dup
backend: sat
objbits: 6
flags: --slice-formula
*/
/*@unit
name: mbuff.dup.empty
define: U_DUP, U_EMPTY, U_NOT_KF
src: mbuff.c, obj.c
native: mbuff
native_includes: mbuff.c
enforce: spif_mbuff_dup
backend: sat
objbits: 6
flags: --slice-formula
*/
/*@unit
name: mbuff.dup.empty.inv
define: U_DUP, U_EMPTY, U_ONLY_KF
src: mbuff.c, obj.c
native: mbuff
native_includes: mbuff.c
enforce: spif_mbuff_dup
backend: sat
objbits: 6
flags: --slice-formula
*/
/*@unit
name: mbuff.type
define: U_TYPE
src: mbuff.c, obj.c
native: mbuff
native_includes: mbuff.c
enforce: spif_mbuff_type
backend: sat
objbits: 6
*/
#if defined(U_DONE) || defined(U_DEL)
# include "../C06/mbuff_own.c"
#else
# include "../C05/mbuff_dup.c"
#endif
