/* C07: spif_mbuff_show (debug dump) with respect to the buffer: for every valid object it terminates, reads
 * bytes of the buffer at offsets below len only (memcpy of a row, the per-byte hex loop), and writes nothing
 * of the object (assigns clause empty).  The text it produces is NOT specified: snprintf/sprintf/strcat and the
 * str class calls are stubs without format semantics (env_mbuff.h VERIF_MB_FMTSTUBS; spif_str_* and
 * spiftool_safe_str have no body in this TU), so writes into the 4096-byte scratch line are checked only where
 * a size is passed (snprintf) - stated NA.  indent is bounded so that indent + the fixed text fits the line.
 * Tier B: the row buffer is a block-local array written through memcpy/memset inside the row loop, which the
 * loop-contract frame check of DFCC rejects (it cannot be named at the loop head), so the loops are unwound. */
/*@unit
name: mbuff.show
define: VERIF_MB_FMTSTUBS
src: mbuff.c
native: mbuff
native_includes: mbuff.c
enforce: spif_mbuff_show
backend: sat
tier: B
bound: buffers of at most 64 bytes (8 rows of the dump; the three loops are unwound), capacity, bytes, indent <= 4000 symbolic
unwind: 10
objbits: 6
flags: --slice-formula
timeout: 300
*/
#include "vprelude.h"
#include "env_mbuff.h"
#include "mbuff.h"
#include "src/mbuff.c"

/* the str class and the printable-text helper are outside this unit: opaque stand-ins (checked in C01 / C13) */
spif_str_t spif_str_new_from_ptr(spif_charptr_t old) { __CPROVER_assert(__CPROVER_r_ok(old, 1), "show: text handed to the str class is readable"); return (spif_str_t) nondet_ptr(); }
spif_bool_t spif_str_append_from_ptr(spif_str_t self, spif_charptr_t other) { __CPROVER_assert(__CPROVER_r_ok(other, 1), "show: text handed to the str class is readable"); return nondet_bool() ? TRUE : FALSE; }
spif_charptr_t spiftool_safe_str(spif_charptr_t str, unsigned short len) { __CPROVER_assert(len == 0 || __CPROVER_rw_ok(str, len), "show: row handed to safe_str is inside the row buffer"); return str; }

spif_str_t spif_mbuff_show(spif_mbuff_t self, spif_byteptr_t name, spif_str_t buff, size_t indent)
__CPROVER_requires(MBUFF_INV(self) && self->len <= 64 && indent <= 4000 && VCSTR_FRESH(name, vg_n1))
__CPROVER_requires(MB_WIT_SELF(self))
__CPROVER_assigns()
;
void harness(void)
{
    spif_mbuff_t self; spif_byteptr_t name; spif_str_t buff = nondet_ptr(); size_t indent;
    spif_mbuff_show(self, name, buff, indent);
    VERIF_CANARY();
}
