/* C07: clear, reverse, trim, sprintf, subbuff, subbuff_to_ptr and the len/size accessors.
 *
 *   clear(c)     len unchanged, s'[k] = c for every k < len
 *   reverse      len unchanged, s'[k] = s[len-1-k]
 *   trim         s' = s without its leading and trailing isspace() bytes.  Witnesses: A = offset where
 *                the first scan stopped (vg_exit, recorded by the annotation), then
 *                  every byte before A and every byte from A+len' on is a space,
 *                  s'[k] = s[A+k],
 *                  s' is empty or begins and ends with a non-space        <- ENS_KF: all-blank input keeps a blank
 *   sprintf      buffer replaced by the formatted text (text itself: vsnprintf stub, arbitrary non-NUL
 *                bytes): len' = reported length, capacity above it, invariant kept on every path
 *   subbuff      fresh object holding s[i .. i+n), self untouched; positions outside the buffer refused (NULL)
 *   subbuff_to_ptr  fresh block of n+1 bytes holding s[i .. i+n) and a terminator
 *   get_/set_len,size  raw accessors (set_* can break the invariant: caller's responsibility, not used by libast)
 */

/*@unit
name: mbuff.clear
define: VERIF_MB_GHOSTCOPY, VERIF_MB_GHOST1, U_CLEAR
src: mbuff.c
native: mbuff
native_includes: mbuff.c
enforce: spif_mbuff_clear
backend: sat
objbits: 6
flags: --slice-formula
*/
/*@unit
name: mbuff.reverse.nonempty
define: U_REVERSE, U_NONEMPTY
src: mbuff.c
native: mbuff
native_includes: mbuff.c
enforce: spif_mbuff_reverse
backend: sat
loops: 1
objbits: 6
flags: --slice-formula
*/
/*@unit
name: mbuff.reverse.empty
define: U_REVERSE, U_EMPTY
src: mbuff.c
native: mbuff
native_includes: mbuff.c
enforce: spif_mbuff_reverse
backend: sat
loops: 1
objbits: 6
flags: --slice-formula
*/
/*@unit
name: mbuff.reverse.huge
define: U_REVERSE, U_HUGE
src: mbuff.c
native: mbuff
native_includes: mbuff.c
enforce: spif_mbuff_reverse
backend: sat
loops: 1
objbits: 6
flags: --slice-formula
*/
/*@unit
name: mbuff.trim.nonempty
define: VERIF_MB_GHOSTCOPY, VERIF_MB_GHOST1, U_TRIM, U_NONEMPTY, U_NOT_KF
src: mbuff.c
native: mbuff
native_includes: mbuff.c
enforce: spif_mbuff_trim
backend: sat
loops: 1
objbits: 6
flags: --slice-formula
timeout: 500
*/
/*@unit
name: mbuff.trim.nonempty.ends
define: VERIF_MB_GHOSTCOPY, VERIF_MB_GHOST1, U_TRIM, U_NONEMPTY, U_ONLY_KF
src: mbuff.c
native: mbuff
native_includes: mbuff.c
enforce: spif_mbuff_trim
backend: sat
loops: 1
objbits: 6
flags: --slice-formula
timeout: 500
*/
/*@unit
name: mbuff.trim.empty
define: VERIF_MB_GHOSTCOPY, VERIF_MB_GHOST1, U_TRIM, U_EMPTY
src: mbuff.c
native: mbuff
native_includes: mbuff.c
enforce: spif_mbuff_trim
backend: sat
loops: 1
objbits: 6
flags: --slice-formula
timeout: 500
*/
/*@unit
name: mbuff.sprintf
define: U_SPRINTF, U_NORMAL
src: mbuff.c
native: mbuff
native_includes: mbuff.c
enforce: spif_mbuff_sprintf
backend: sat
objbits: 6
flags: --slice-formula
funcs: spif_mbuff_done
*/
/*@unit
name: mbuff.sprintf.intmax
define: U_SPRINTF, U_INTMAX
src: mbuff.c
native: mbuff
native_includes: mbuff.c
enforce: spif_mbuff_sprintf
backend: sat
objbits: 6
flags: --slice-formula
funcs: spif_mbuff_done
*/
/*@unit
name: mbuff.subbuff.accept
define: U_SUBBUFF, U_ACCEPT
src: mbuff.c, obj.c
native: mbuff
native_includes: mbuff.c
enforce: spif_mbuff_subbuff
backend: sat
objbits: 6
flags: --slice-formula
funcs: spif_mbuff_new_from_buff, spif_mbuff_init_from_buff
*/
/*@unit
name: mbuff.subbuff.zero
define: U_SUBBUFF, U_ZERO, U_NOT_KF
src: mbuff.c, obj.c
native: mbuff
native_includes: mbuff.c
enforce: spif_mbuff_subbuff
backend: sat
objbits: 6
flags: --slice-formula
funcs: spif_mbuff_new_from_buff, spif_mbuff_init_from_buff
*/
/*@unit
name: mbuff.subbuff.zero.inv
define: U_SUBBUFF, U_ZERO, U_ONLY_KF
src: mbuff.c, obj.c
native: mbuff
native_includes: mbuff.c
enforce: spif_mbuff_subbuff
backend: sat
objbits: 6
flags: --slice-formula
funcs: spif_mbuff_new_from_buff, spif_mbuff_init_from_buff
*/
/*@unit
name: mbuff.subbuff.refuse
define: U_SUBBUFF, U_REFUSE
src: mbuff.c, obj.c
native: mbuff
native_includes: mbuff.c
enforce: spif_mbuff_subbuff
backend: sat
objbits: 6
flags: --slice-formula
*/
/*@unit
name: mbuff.subbuff_to_ptr.accept
define: U_SUBBUFF_PTR, U_ACCEPT
src: mbuff.c
native: mbuff
native_includes: mbuff.c
enforce: spif_mbuff_subbuff_to_ptr
backend: sat
objbits: 6
flags: --slice-formula
*/
/*@unit
name: mbuff.subbuff_to_ptr.refuse
define: U_SUBBUFF_PTR, U_REFUSE
src: mbuff.c
native: mbuff
native_includes: mbuff.c
enforce: spif_mbuff_subbuff_to_ptr
backend: sat
objbits: 6
flags: --slice-formula
*/
/*@unit
name: mbuff.accessors
define: U_ACCESSORS
src: mbuff.c
native: mbuff
native_includes: mbuff.c
backend: sat
funcs: spif_mbuff_get_len, spif_mbuff_get_size, spif_mbuff_set_len, spif_mbuff_set_size
*/
#include "vprelude.h"
#include "env_mbuff.h"
#include "mbuff.h"
#ifdef U_SUBBUFF
# include "src/obj.c"
#endif
#include "src/mbuff.c"

#define RV  __CPROVER_return_value
#define OLEN(o)   __CPROVER_old((o)->len)
#define OLD_BYTE(o, k)  __CPROVER_old((o)->buff[VCLAMP((k), (o)->len)])

#ifdef U_CLEAR
spif_bool_t spif_mbuff_clear(spif_mbuff_t self, spif_uint8_t c)
__CPROVER_requires(MBUFF_INV(self))
__CPROVER_requires(MB_WIT_SELF(self))
__CPROVER_assigns(self->buff != NULL: __CPROVER_object_whole(self->buff))
__CPROVER_ensures(RV == TRUE && MBUFF_POST(self) && MBUFF_UNCHANGED_FIELDS(self))
__CPROVER_ensures(!(vg_k < (size_t) self->len) || self->buff[vg_k] == c)
;
void harness(void)
{
    spif_mbuff_t self; spif_uint8_t c;
    w_c = c;
    spif_mbuff_clear(self, c);
    VERIF_CANARY();
}
#endif

#ifdef U_REVERSE
/* .huge: lengths above INT_MAX (the loop indices are int) */
# define HUGE_CAP  0x200000000L
spif_bool_t spif_mbuff_reverse(spif_mbuff_t self)
# if defined(U_NONEMPTY)
__CPROVER_requires(MBUFF_INV_NONEMPTY(self))
# elif defined(U_HUGE)
__CPROVER_requires(__CPROVER_is_fresh(self, sizeof(*self)) && 0x7fffffffL < self->len && self->len <= self->size &&
                   self->size <= HUGE_CAP && __CPROVER_is_fresh(self->buff, (size_t) self->size))
# else
__CPROVER_requires(MBUFF_INV_EMPTY(self))
# endif
__CPROVER_requires(MB_WIT_SELF(self))
__CPROVER_assigns(self->buff != NULL: __CPROVER_object_whole(self->buff))
# ifdef U_EMPTY
__CPROVER_ensures(MBUFF_STATE_EMPTY(self))
# else
__CPROVER_ensures(RV == TRUE && MBUFF_POST_CAP(self, HUGE_CAP) && MBUFF_UNCHANGED_FIELDS(self))
__CPROVER_ensures(!(vg_k < (size_t) self->len) || self->buff[vg_k] == OLD_BYTE(self, (size_t) self->len - 1 - vg_k))
# endif
;
void harness(void)
{
    spif_mbuff_t self;
    spif_mbuff_reverse(self);
    VERIF_CANARY();
}
#endif

#ifdef U_TRIM
# define A  vg_exit
/* per-access checks are switched off INSIDE THE CONTRACT TEXT only (spec-side reads; the code in src/mbuff.c keeps
 * every check): they tripled the run time of this unit.  An ill-defined spec read would make the clause fail, not pass. */
#pragma CPROVER check push
#pragma CPROVER check disable "pointer"
#pragma CPROVER check disable "pointer-overflow"
#pragma CPROVER check disable "pointer-primitive"
#pragma CPROVER check disable "bounds"
#pragma CPROVER check disable "conversion"
#pragma CPROVER check disable "signed-overflow"
spif_bool_t spif_mbuff_trim(spif_mbuff_t self)
# ifdef U_NONEMPTY
__CPROVER_requires(MBUFF_INV_NONEMPTY(self) && self->len > 0)
# else
__CPROVER_requires(MBUFF_INV(self) && self->len == 0)
# endif
__CPROVER_requires(MB_WIT_SELF(self))
__CPROVER_assigns(vg_exit)
__CPROVER_assigns(MBUFF_FRAME(self))
__CPROVER_frees(self->buff)
ENS(RV == TRUE && MBUFF_POST(self))
# ifdef U_NONEMPTY
ENS(A + (size_t) self->len <= (size_t) OLEN(self))
ENS(!(vg_j < A) || VISSPACE(OLD_BYTE(self, vg_j)))
ENS(!(vg_j >= A + (size_t) self->len && vg_j < (size_t) OLEN(self)) || VISSPACE(OLD_BYTE(self, vg_j)))
ENS(A != vg_n1 || !(vg_k < (size_t) self->len) || self->buff[vg_k] == OLD_BYTE(self, vg_n1 + vg_k))
/* first and last byte of the result are not blank (stated for the ghost index: the copy models track byte vg_k only) */
ENS_KF(self->len == 0 || !(vg_k == 0 || vg_k == (size_t) self->len - 1) || !VISSPACE(self->buff[vg_k]))
# else
ENS(self->len == 0)
# endif
;
#pragma CPROVER check pop
void harness(void)
{
    spif_mbuff_t self;
    spif_mbuff_trim(self);
    VERIF_CANARY();
}
#endif

#ifdef U_SPRINTF
/* ghost inputs: what the two vsnprintf calls report (env_mbuff.h) */
# define R1  vg_vsn_ret[0]
# define R2  vg_vsn_ret[1]
spif_bool_t spif_mbuff_sprintf(spif_mbuff_t self, spif_charptr_t format, ...)
__CPROVER_requires(MBUFF_INV(self) && (format == NULL || VCSTR_FRESH(format, vg_n1)) && vg_vsn_calls == 0)
# ifdef U_NORMAL
__CPROVER_requires(R1 < 0x7fffffff)
# else
__CPROVER_requires(R1 >= 0x7ffffffe)   /* INT_MAX - 1 (fine) or INT_MAX (c++ overflows) */
# endif
__CPROVER_requires(MB_WIT_SELF(self))
__CPROVER_assigns(vg_vsn_calls)
__CPROVER_assigns(MBUFF_FRAME(self))
__CPROVER_frees(self->buff)
/* a formatted text may be as long as an int can report: the cap of this function is INT_MAX, not VCAP */
__CPROVER_ensures(MBUFF_POST_CAP(self, 0x7fffffffL))
__CPROVER_ensures(RV == TRUE || RV == FALSE)
/* success: empty format -> empty buffer; otherwise the text the formatter reported, capacity above it */
__CPROVER_ensures(RV != TRUE || (format != NULL && (format[0] == 0 ? self->len == 0 :
                  (R1 > 0 && self->len == R2 && self->len < self->size && self->buff[self->len] == 0))))
__CPROVER_ensures(RV != TRUE || format[0] == 0 || !(vg_k < (size_t) self->len) || self->buff[vg_k] != 0)
/* failure: NULL format or a formatter error / inconsistent length; no bytes are presented as content */
__CPROVER_ensures(RV != FALSE || self->len == 0)
;
void harness(void)
{
    spif_mbuff_t self; spif_charptr_t format;
    spif_mbuff_sprintf(self, format, nondet_int(), nondet_ptr());
    VERIF_CANARY();
}
#endif

#if defined(U_SUBBUFF) || defined(U_SUBBUFF_PTR)
/* i = idx normalised; n = cnt if cnt > 0, else len - i + cnt (cnt <= 0 counts from the end); n capped at len - i */
# define SB_I(idx, L)       MB_NORM_IDX(idx, L)
# define SB_N0(idx, cnt, L) ((cnt) <= 0 ? (L) - SB_I(idx, L) + (cnt) : (cnt))
# define SB_N(idx, cnt, L)  VMIN(SB_N0(idx, cnt, L), (L) - SB_I(idx, L))
# define SB_OK(idx, cnt, L) (MB_IDX_OK(idx, L) && SB_N0(idx, cnt, L) >= 0)
# define IDX_RANGE(idx)     (-(VCAP) - 1 <= (idx) && (idx) <= VCAP + 1)
# if defined(U_ACCEPT)
#  ifdef U_SUBBUFF
#   define BEHAVIOUR(idx, cnt, L) (SB_OK(idx, cnt, L) && SB_N(idx, cnt, L) > 0)
#  else
#   define BEHAVIOUR(idx, cnt, L) SB_OK(idx, cnt, L)
#  endif
# elif defined(U_ZERO)
#  define BEHAVIOUR(idx, cnt, L) (SB_OK(idx, cnt, L) && SB_N(idx, cnt, L) == 0)
# else
#  define BEHAVIOUR(idx, cnt, L) (!SB_OK(idx, cnt, L))
# endif
# define I0  ((size_t) SB_I(idx, self->len))
# define N0  ((size_t) SB_N(idx, cnt, self->len))
#endif

#ifdef U_SUBBUFF
spif_mbuff_t spif_mbuff_subbuff(spif_mbuff_t self, spif_memidx_t idx, spif_memidx_t cnt)
__CPROVER_requires(MBUFF_INV(self) && IDX_RANGE(idx) && IDX_RANGE(cnt) && BEHAVIOUR(idx, cnt, self->len))
__CPROVER_requires(MB_WIT_SELF(self))
__CPROVER_assigns()
# ifdef U_REFUSE
__CPROVER_ensures(RV == NULL)
# else
ENS(__CPROVER_is_fresh(RV, sizeof(*RV)))
ENS_KF(MBUFF_POST(RV))
ENS(MBUFF_POST_ZEROBLOCK(RV))
ENS((size_t) RV->len == N0 && RV->size >= RV->len)
ENS(RV->buff != self->buff)
ENS(!(vg_k < N0) || RV->buff[vg_k] == self->buff[I0 + vg_k])
# endif
;
void harness(void)
{
    spif_mbuff_t self; spif_memidx_t idx, cnt;
    w_idx = idx; w_cnt = cnt;
    spif_mbuff_subbuff(self, idx, cnt);
    VERIF_CANARY();
}
#endif

#ifdef U_SUBBUFF_PTR
spif_byteptr_t spif_mbuff_subbuff_to_ptr(spif_mbuff_t self, spif_memidx_t idx, spif_memidx_t cnt)
__CPROVER_requires(MBUFF_INV(self) && IDX_RANGE(idx) && IDX_RANGE(cnt) && BEHAVIOUR(idx, cnt, self->len))
__CPROVER_requires(MB_WIT_SELF(self))
__CPROVER_assigns()
# ifdef U_REFUSE
__CPROVER_ensures(RV == NULL)
# else
__CPROVER_ensures(__CPROVER_is_fresh(RV, N0 + 1))
__CPROVER_ensures(RV[N0] == 0)
__CPROVER_ensures(!(vg_k < N0) || RV[vg_k] == self->buff[I0 + vg_k])
# endif
;
void harness(void)
{
    spif_mbuff_t self; spif_memidx_t idx, cnt;
    w_idx = idx; w_cnt = cnt;
    spif_mbuff_subbuff_to_ptr(self, idx, cnt);
    VERIF_CANARY();
}
#endif

#ifdef U_ACCESSORS
/* four one-line functions: checked together by a plain harness on an arbitrary object */
void harness(void)
{
    spif_mbuff_t self = malloc(sizeof(*self));
    spif_memidx_t l = nondet_long(), s = nondet_long(), v = nondet_long();
    spif_byteptr_t b = nondet_ptr(); spif_class_t c = nondet_ptr();
    self->parent.cls = c; self->buff = b; self->len = l; self->size = s;
    __CPROVER_assert(spif_mbuff_get_len(self) == l && spif_mbuff_get_size(self) == s, "accessors: get_len/get_size report the fields");
    __CPROVER_assert(self->buff == b && self->len == l && self->size == s && self->parent.cls == c, "accessors: getters write nothing");
    __CPROVER_assert(spif_mbuff_set_len(self, v) == TRUE && self->len == v && self->size == s && self->buff == b, "accessors: set_len sets len only");
    __CPROVER_assert(spif_mbuff_set_size(self, l) == TRUE && self->size == l && self->len == v && self->buff == b, "accessors: set_size sets size only");
    VERIF_CANARY();
}
#endif
