/* C07: splice / splice_from_ptr.  Ideal sequence, with L = len, i = idx normalised
 * (negative idx counts from the end), c = cnt, n = number of inserted bytes:
 *   accepted  iff 0 <= i < L and 0 <= c <= L - i
 *   len' = L - c + n
 *   s'[k] = s[k]            k < i
 *         = ins[k - i]      i <= k < i + n
 *         = s[k - n + c]    i + n <= k < len'   (written s[(i + c) + t], t = k - (i + n): the t-th byte after
 *                                               the removed range becomes the t-th byte after the inserted block;
 *                                               same value, but the solvers need not re-associate 64-bit sums)
 *   refused (FALSE) otherwise, and then NOTHING is written (assigns clause is empty).
 * A negative cnt is read as in subbuff (the only place the file defines it): the removed
 * range ends |cnt| bytes before the end, c = L - i + cnt.
 *
 * Open findings on this tree (known_findings/C07.mbuff.json):
 *   C07-mbuff-splice-plus1   spif_mbuff_splice copies len-idx-cnt+1 bytes: one byte past the
 *                            temporary (always) and past self->buff (when size == len)
 *   C07-mbuff-splice-negcnt  cnt < 0 is turned into idx + len + cnt instead of len - idx + cnt
 */

/*@unit
name: mbuff.splice.accept
define: VERIF_MB_GHOSTCOPY, VERIF_MB_GHOST1, U_SPLICE, U_ACCEPT
src: mbuff.c
native: mbuff
native_includes: mbuff.c
enforce: spif_mbuff_splice
backend: sat
objbits: 6
flags: --slice-formula
timeout: 500
*/
/*@unit
name: mbuff.splice.negcnt
define: VERIF_MB_GHOSTCOPY, VERIF_MB_GHOST1, U_SPLICE, U_NEGCNT
src: mbuff.c
native: mbuff
native_includes: mbuff.c
enforce: spif_mbuff_splice
backend: sat
objbits: 6
flags: --slice-formula
timeout: 500
*/
/*@unit
name: mbuff.splice.refuse
define: VERIF_MB_GHOSTCOPY, VERIF_MB_GHOST1, U_SPLICE, U_REFUSE
src: mbuff.c
native: mbuff
native_includes: mbuff.c
enforce: spif_mbuff_splice
backend: sat
objbits: 6
flags: --slice-formula
timeout: 500
*/
/*@unit
name: mbuff.splice_from_ptr.accept
define: VERIF_MB_GHOSTCOPY, VERIF_MB_GHOST1, U_SPLICE_PTR, U_ACCEPT
src: mbuff.c
native: mbuff
native_includes: mbuff.c
enforce: spif_mbuff_splice_from_ptr
backend: sat
objbits: 6
flags: --slice-formula
timeout: 500
*/
/*@unit
name: mbuff.splice_from_ptr.negcnt
define: VERIF_MB_GHOSTCOPY, VERIF_MB_GHOST1, U_SPLICE_PTR, U_NEGCNT
src: mbuff.c
native: mbuff
native_includes: mbuff.c
enforce: spif_mbuff_splice_from_ptr
backend: sat
objbits: 6
flags: --slice-formula
timeout: 500
*/
/*@unit
name: mbuff.splice_from_ptr.refuse
define: VERIF_MB_GHOSTCOPY, VERIF_MB_GHOST1, U_SPLICE_PTR, U_REFUSE
src: mbuff.c
native: mbuff
native_includes: mbuff.c
enforce: spif_mbuff_splice_from_ptr
backend: sat
objbits: 6
flags: --slice-formula
timeout: 500
*/
/*@unit
name: mbuff.splice.accept.view
define: VERIF_MB_GHOSTCOPY, VERIF_MB_GHOST1, U_SPLICE, U_ACCEPT, U_VIEW
src: mbuff.c
native: mbuff
native_includes: mbuff.c
backend: sat
flags: --slice-formula
funcs: spif_mbuff_splice
*/
/*@unit
name: mbuff.splice.negcnt.view
define: VERIF_MB_GHOSTCOPY, VERIF_MB_GHOST1, U_SPLICE, U_NEGCNT, U_VIEW
src: mbuff.c
native: mbuff
native_includes: mbuff.c
backend: sat
flags: --slice-formula
funcs: spif_mbuff_splice
*/
/*@unit
name: mbuff.splice_from_ptr.accept.view
define: VERIF_MB_GHOSTCOPY, VERIF_MB_GHOST1, U_SPLICE_PTR, U_ACCEPT, U_VIEW
src: mbuff.c
native: mbuff
native_includes: mbuff.c
backend: sat
flags: --slice-formula
funcs: spif_mbuff_splice_from_ptr
*/
/*@unit
name: mbuff.splice_from_ptr.negcnt.view
define: VERIF_MB_GHOSTCOPY, VERIF_MB_GHOST1, U_SPLICE_PTR, U_NEGCNT, U_VIEW
src: mbuff.c
native: mbuff
native_includes: mbuff.c
backend: sat
flags: --slice-formula
funcs: spif_mbuff_splice_from_ptr
*/
#include "vprelude.h"
#include "env_mbuff.h"
#include "mbuff.h"
#include "src/mbuff.c"

/* removed count: cnt >= 0 as given; cnt < 0: up to |cnt| bytes before the end */
#define SP_I(idx, L)        MB_NORM_IDX(idx, L)
#define SP_C(idx, cnt, L)   ((cnt) < 0 ? (L) - SP_I(idx, L) + (cnt) : (cnt))
#define SP_OK(idx, cnt, L)  (MB_IDX_OK(idx, L) && SP_C(idx, cnt, L) >= 0 && SP_C(idx, cnt, L) <= (L) - SP_I(idx, L))
#define IDX_RANGE(idx)      (-(VCAP) - 1 <= (idx) && (idx) <= VCAP + 1)

#if defined(U_ACCEPT)
# define BEHAVIOUR(idx, cnt, L)  (SP_OK(idx, cnt, L) && (cnt) >= 0)
#elif defined(U_NEGCNT)          /* valid position, negative count: accepted or refused by the ideal rule */
# define BEHAVIOUR(idx, cnt, L)  (MB_IDX_OK(idx, L) && (cnt) < 0)
#else                            /* position outside the buffer, or non-negative count past the end */
# define BEHAVIOUR(idx, cnt, L)  (!MB_IDX_OK(idx, L) || ((cnt) >= 0 && !SP_OK(idx, cnt, L)))
#endif

#define OLEN(o)   __CPROVER_old((o)->len)
#define OLD_BYTE(o, k)  __CPROVER_old((o)->buff[VCLAMP((k), (o)->len)])

#ifndef U_VIEW
#ifdef U_SPLICE
# define N_INS   ((size_t) (other == NULL ? 0 : other->len))
# define INS(k)  (other->buff[(k)])
spif_bool_t spif_mbuff_splice(spif_mbuff_t self, spif_memidx_t idx, spif_memidx_t cnt, spif_mbuff_t other)
__CPROVER_requires(MBUFF_INV(self) && (other == NULL || MBUFF_INV(other)))
__CPROVER_requires(self->len + (other == NULL ? 0 : other->len) <= VCAP)
__CPROVER_requires(MB_WIT_SELF(self) && MB_WIT_OTHER(other))
#else
# define N_INS   ((size_t) (other == NULL ? 0 : len))
# define INS(k)  (other[(k)])
spif_bool_t spif_mbuff_splice_from_ptr(spif_mbuff_t self, spif_memidx_t idx, spif_memidx_t cnt, spif_byteptr_t other, spif_memidx_t len)
__CPROVER_requires(MBUFF_INV(self) && 0 <= len && len <= VCAP && (other == NULL || __CPROVER_is_fresh(other, (size_t) len)))
__CPROVER_requires(self->len + len <= VCAP)
__CPROVER_requires(MB_WIT_SELF(self))
#endif
/* cnt and idx are arbitrary 64-bit values except that idx + len and len - idx + cnt must be representable */
__CPROVER_requires(IDX_RANGE(idx) && IDX_RANGE(cnt))
__CPROVER_requires(BEHAVIOUR(idx, cnt, self->len))
#ifdef U_REFUSE
__CPROVER_assigns()
__CPROVER_ensures(__CPROVER_return_value == FALSE)
#else
# define ACCEPTED  SP_OK(idx, cnt, OLEN(self))
# define I0        ((size_t) SP_I(idx, OLEN(self)))
# define C0        ((size_t) SP_C(idx, cnt, OLEN(self)))
__CPROVER_assigns(MBUFF_FRAME(self))
__CPROVER_frees(self->buff)
__CPROVER_ensures(__CPROVER_return_value == (ACCEPTED ? TRUE : FALSE))
__CPROVER_ensures(MBUFF_POST(self))
__CPROVER_ensures(!ACCEPTED || (size_t) self->len == (size_t) OLEN(self) - C0 + N_INS)
__CPROVER_ensures(!ACCEPTED || !(vg_k < I0 && vg_k < (size_t) self->len) || self->buff[vg_k] == OLD_BYTE(self, vg_k))
__CPROVER_ensures(!ACCEPTED || !(vg_k >= I0 && vg_k < I0 + N_INS) || self->buff[vg_k] == INS(vg_k - I0))
/* the tail clause  s'[k] = s[k - n + c]  is checked by the .view units below (same pre-state, same
 * call, plain harness): under the DFCC instrumentation no back end finished it (> 150 s), without it 1 s */
/* refused inside this behaviour (negative count reaching before idx): unchanged */
__CPROVER_ensures(ACCEPTED || (MBUFF_UNCHANGED_FIELDS(self) &&
                  (!(vg_k < (size_t) self->len) || self->buff[vg_k] == OLD_BYTE(self, vg_k))))
#endif
;

void harness(void)
{
    spif_mbuff_t self; spif_memidx_t idx, cnt;
    w_idx = idx; w_cnt = cnt;
#ifdef U_SPLICE
    spif_mbuff_t other;
    spif_mbuff_splice(self, idx, cnt, other);
#else
    spif_byteptr_t other; spif_memidx_t len;
    w_n = len;
    spif_mbuff_splice_from_ptr(self, idx, cnt, other, len);
#endif
    VERIF_CANARY();
}
#else
/* ---- whole-view check, plain harness (no DFCC): arbitrary valid self (both states), arbitrary other,
 * every (idx, cnt) of the behaviour; the three regions of the result at the ghost index vg_k. ---- */
static spif_mbuff_t mk_mbuff(void)
{
    spif_mbuff_t o = malloc(sizeof(*o));
    spif_memidx_t L = nondet_long(), S = nondet_long();
    if (nondet_bool()) { o->buff = NULL; o->len = 0; o->size = 0; return o; }
    __CPROVER_assume(0 <= L && L <= S && 0 < S && S <= VCAP);
    o->buff = malloc((size_t) S); o->len = L; o->size = S;
    return o;
}
void harness(void)
{
    spif_mbuff_t self = mk_mbuff(); spif_memidx_t idx = nondet_long(), cnt = nondet_long();
    spif_memidx_t L = self->len;
    spif_byteptr_t ins; size_t n;
# ifdef U_SPLICE
    spif_mbuff_t other = nondet_bool() ? NULL : mk_mbuff();
    n = other ? (size_t) other->len : 0; ins = other ? other->buff : NULL;
# else
    spif_memidx_t len = nondet_long(); spif_byteptr_t other;
    __CPROVER_assume(0 <= len && len <= VCAP);
    other = nondet_bool() ? NULL : malloc((size_t) len);
    n = other ? (size_t) len : 0; ins = other;
# endif
    __CPROVER_assume(L + (spif_memidx_t) n <= VCAP && IDX_RANGE(idx) && IDX_RANGE(cnt));
    __CPROVER_assume(BEHAVIOUR(idx, cnt, L));
    _Bool ok = SP_OK(idx, cnt, L);
    size_t i = ok ? (size_t) SP_I(idx, L) : 0, c = ok ? (size_t) SP_C(idx, cnt, L) : 0;
    /* the ideal result byte at vg_k, read from the entry state */
    size_t L1 = ok ? (size_t) L - c + n : (size_t) L;
    unsigned char want = 0;
    if (vg_k < L1) {
        if (!ok) want = self->buff[vg_k];
        else if (vg_k < i) want = self->buff[vg_k];
        else if (vg_k < i + n) want = ins[vg_k - i];
        else want = self->buff[vg_k - n + c];
    }
    w_idx = idx; w_cnt = cnt; w_n = (long) n; w_len = self->len; w_size = self->size;
# ifdef U_SPLICE
    if (other) { w_olen = other->len; w_osize = other->size; }
# endif
# ifdef U_SPLICE
    spif_bool_t r = spif_mbuff_splice(self, idx, cnt, other);
# else
    spif_bool_t r = spif_mbuff_splice_from_ptr(self, idx, cnt, other, len);
# endif
    __CPROVER_assert(r == (ok ? TRUE : FALSE), "splice view: accepted exactly when position and count are inside the buffer");
    __CPROVER_assert((size_t) self->len == L1, "splice view: length is len - cnt + inserted");
    __CPROVER_assert(self->len <= self->size, "splice view: capacity not below length");
    __CPROVER_assert(!(vg_k < L1) || self->buff[vg_k] == want, "splice view: byte vg_k equals the ideal sequence (head / inserted / tail)");
    VERIF_CANARY();
}
#endif
