/* C07: splice / splice_from_ptr.  Ideal sequence, with L = len, i = idx normalised
 * (negative idx counts from the end), c = cnt, n = number of inserted bytes:
 *   accepted  iff 0 <= i < L and 0 <= c <= L - i
 *   len' = L - c + n
 *   s'[k] = s[k]            k < i
 *         = ins[k - i]      i <= k < i + n
 *         = s[k - n + c]    i + n <= k < len'   (written s[(i + c) + t], t = k - (i + n): the t-th byte after
 *                                               the removed range becomes the t-th byte after the inserted block;
 *                                               same value, but the solvers need not re-associate 64-bit sums)
 *   refused (FALSE) otherwise, and then NOTHING is written (assigns clause is empty).
 * A negative cnt is read as in subbuff (the only place the file defines it): the removed
 * range ends |cnt| bytes before the end, c = L - i + cnt.
 *
 * Open findings on this tree (known_findings/C07.mbuff.json):
 *   C07-mbuff-splice-plus1   spif_mbuff_splice copies len-idx-cnt+1 bytes: one byte past the
 *                            temporary (always) and past self->buff (when size == len)
 *   C07-mbuff-splice-negcnt  cnt < 0 is turned into idx + len + cnt instead of len - idx + cnt
 */

/*@unit
name: mbuff.splice.accept
define: VERIF_MB_GHOSTCOPY, U_SPLICE, U_ACCEPT
src: mbuff.c
enforce: spif_mbuff_splice
backend: sat
objbits: 6
flags: --slice-formula
timeout: 150
*/
/*@unit
name: mbuff.splice.negcnt
define: VERIF_MB_GHOSTCOPY, U_SPLICE, U_NEGCNT
src: mbuff.c
enforce: spif_mbuff_splice
backend: sat
objbits: 6
flags: --slice-formula
timeout: 150
*/
/*@unit
name: mbuff.splice.refuse
define: VERIF_MB_GHOSTCOPY, U_SPLICE, U_REFUSE
src: mbuff.c
enforce: spif_mbuff_splice
backend: sat
objbits: 6
flags: --slice-formula
timeout: 150
*/
/*@unit
name: mbuff.splice_from_ptr.accept
define: VERIF_MB_GHOSTCOPY, U_SPLICE_PTR, U_ACCEPT
src: mbuff.c
enforce: spif_mbuff_splice_from_ptr
backend: sat
objbits: 6
flags: --slice-formula
timeout: 150
*/
/*@unit
name: mbuff.splice_from_ptr.negcnt
define: VERIF_MB_GHOSTCOPY, U_SPLICE_PTR, U_NEGCNT
src: mbuff.c
enforce: spif_mbuff_splice_from_ptr
backend: sat
objbits: 6
flags: --slice-formula
timeout: 150
*/
/*@unit
name: mbuff.splice_from_ptr.refuse
define: VERIF_MB_GHOSTCOPY, U_SPLICE_PTR, U_REFUSE
src: mbuff.c
enforce: spif_mbuff_splice_from_ptr
backend: sat
objbits: 6
flags: --slice-formula
timeout: 150
*/
#include "vprelude.h"
#include "env_mbuff.h"
#include "mbuff.h"
#include "src/mbuff.c"

/* removed count: cnt >= 0 as given; cnt < 0: up to |cnt| bytes before the end */
#define SP_I(idx, L)        MB_NORM_IDX(idx, L)
#define SP_C(idx, cnt, L)   ((cnt) < 0 ? (L) - SP_I(idx, L) + (cnt) : (cnt))
#define SP_OK(idx, cnt, L)  (MB_IDX_OK(idx, L) && SP_C(idx, cnt, L) >= 0 && SP_C(idx, cnt, L) <= (L) - SP_I(idx, L))
#define IDX_RANGE(idx)      (-(VCAP) - 1 <= (idx) && (idx) <= VCAP + 1)

#if defined(U_ACCEPT)
# define BEHAVIOUR(idx, cnt, L)  (SP_OK(idx, cnt, L) && (cnt) >= 0)
#elif defined(U_NEGCNT)          /* valid position, negative count: accepted or refused by the ideal rule */
# define BEHAVIOUR(idx, cnt, L)  (MB_IDX_OK(idx, L) && (cnt) < 0)
#else                            /* position outside the buffer, or non-negative count past the end */
# define BEHAVIOUR(idx, cnt, L)  (!MB_IDX_OK(idx, L) || ((cnt) >= 0 && !SP_OK(idx, cnt, L)))
#endif

#define OLEN(o)   __CPROVER_old((o)->len)
#define OLD_BYTE(o, k)  __CPROVER_old((o)->buff[VCLAMP((k), (o)->len)])
long w_idx, w_cnt, w_n;

#ifdef U_SPLICE
# define N_INS   ((size_t) (other == NULL ? 0 : other->len))
# define INS(k)  (other->buff[(k)])
spif_bool_t spif_mbuff_splice(spif_mbuff_t self, spif_memidx_t idx, spif_memidx_t cnt, spif_mbuff_t other)
__CPROVER_requires(MBUFF_INV(self) && (other == NULL || MBUFF_INV(other)))
__CPROVER_requires(self->len + (other == NULL ? 0 : other->len) <= VCAP)
#else
# define N_INS   ((size_t) (other == NULL ? 0 : len))
# define INS(k)  (other[(k)])
spif_bool_t spif_mbuff_splice_from_ptr(spif_mbuff_t self, spif_memidx_t idx, spif_memidx_t cnt, spif_byteptr_t other, spif_memidx_t len)
__CPROVER_requires(MBUFF_INV(self) && 0 <= len && len <= VCAP && (other == NULL || __CPROVER_is_fresh(other, (size_t) len)))
__CPROVER_requires(self->len + len <= VCAP)
#endif
/* cnt and idx are arbitrary 64-bit values except that idx + len and len - idx + cnt must be representable */
__CPROVER_requires(IDX_RANGE(idx) && IDX_RANGE(cnt))
__CPROVER_requires(BEHAVIOUR(idx, cnt, self->len))
#ifdef U_REFUSE
__CPROVER_assigns()
__CPROVER_ensures(__CPROVER_return_value == FALSE)
#else
# define ACCEPTED  SP_OK(idx, cnt, OLEN(self))
# define I0        ((size_t) SP_I(idx, OLEN(self)))
# define C0        ((size_t) SP_C(idx, cnt, OLEN(self)))
__CPROVER_assigns(MBUFF_FRAME(self))
__CPROVER_frees(self->buff)
__CPROVER_ensures(__CPROVER_return_value == (ACCEPTED ? TRUE : FALSE))
__CPROVER_ensures(MBUFF_POST(self))
__CPROVER_ensures(!ACCEPTED || (size_t) self->len == (size_t) OLEN(self) - C0 + N_INS)
__CPROVER_ensures(!ACCEPTED || !(vg_k < I0 && vg_k < (size_t) self->len) || self->buff[vg_k] == OLD_BYTE(self, vg_k))
__CPROVER_ensures(!ACCEPTED || !(vg_k >= I0 && vg_k < I0 + N_INS) || self->buff[vg_k] == INS(vg_k - I0))
__CPROVER_ensures(!ACCEPTED || !(vg_k >= I0 + N_INS && vg_k < (size_t) self->len) ||
                  self->buff[vg_k] == OLD_BYTE(self, (I0 + C0) + (vg_k - (I0 + N_INS))))
/* refused inside this behaviour (negative count reaching before idx): unchanged */
__CPROVER_ensures(ACCEPTED || (MBUFF_UNCHANGED_FIELDS(self) &&
                  (!(vg_k < (size_t) self->len) || self->buff[vg_k] == OLD_BYTE(self, vg_k))))
#endif
;

void harness(void)
{
    spif_mbuff_t self; spif_memidx_t idx, cnt;
    w_idx = idx; w_cnt = cnt;
#ifdef U_SPLICE
    spif_mbuff_t other;
    spif_mbuff_splice(self, idx, cnt, other);
#else
    spif_byteptr_t other; spif_memidx_t len;
    w_n = len;
    spif_mbuff_splice_from_ptr(self, idx, cnt, other, len);
#endif
    VERIF_CANARY();
}
