/* C07: constructors of mbuff — the new object IS the ideal byte sequence of its
 * source (length and every byte through the ghost index vg_k), capacity >= length,
 * representation invariant established.  Raw storage in, valid object out.
 *
 * .nonempty / .empty split: a zero-length construction keeps a malloc(0) block with
 * size == 0 that done()/del() never release (known_findings/C07.mbuff.json,
 * C07-mbuff-zero-alloc).  The .empty units prove every other clause for that case; the
 * .empty.inv units hold only the strict invariant clause (ENS_KF) and fail while the
 * finding is open. */

/*@unit
name: mbuff.init
define: U_INIT
src: mbuff.c, obj.c
native: mbuff
native_includes: mbuff.c
enforce: spif_mbuff_init
backend: sat,z3
timeout: 150
*/
/*@unit
name: mbuff.new
define: U_NEW
src: mbuff.c, obj.c
native: mbuff
native_includes: mbuff.c
enforce: spif_mbuff_new
backend: sat,z3
timeout: 150
funcs: spif_mbuff_init
*/
/*@unit
name: mbuff.init_from_ptr.null
define: U_FROM_PTR, U_NULLSRC
src: mbuff.c, obj.c
native: mbuff
native_includes: mbuff.c
enforce: spif_mbuff_init_from_ptr
backend: sat,z3
timeout: 150
funcs: spif_mbuff_init
*/
/*@unit
name: mbuff.init_from_ptr.nonempty
define: U_FROM_PTR, U_NONEMPTY
src: mbuff.c, obj.c
native: mbuff
native_includes: mbuff.c
enforce: spif_mbuff_init_from_ptr
backend: sat,z3
timeout: 150
*/
/*@unit
name: mbuff.init_from_ptr.empty
define: U_FROM_PTR, U_EMPTY, U_NOT_KF
src: mbuff.c, obj.c
native: mbuff
native_includes: mbuff.c
enforce: spif_mbuff_init_from_ptr
backend: sat,z3
timeout: 150
*/
/*@unit
name: mbuff.init_from_ptr.empty.inv
define: U_FROM_PTR, U_EMPTY, U_ONLY_KF
src: mbuff.c, obj.c
native: mbuff
native_includes: mbuff.c
enforce: spif_mbuff_init_from_ptr
backend: sat,z3
timeout: 150
*/
/*@unit
name: mbuff.new_from_ptr.nonempty
define: U_NEW_FROM_PTR, U_NONEMPTY
src: mbuff.c, obj.c
native: mbuff
native_includes: mbuff.c
enforce: spif_mbuff_new_from_ptr
backend: sat,z3
timeout: 150
funcs: spif_mbuff_init_from_ptr
*/
/*@unit
name: mbuff.new_from_ptr.empty
define: U_NEW_FROM_PTR, U_EMPTY, U_NOT_KF
src: mbuff.c, obj.c
native: mbuff
native_includes: mbuff.c
enforce: spif_mbuff_new_from_ptr
backend: sat,z3
timeout: 150
funcs: spif_mbuff_init_from_ptr
*/
/*@unit
name: mbuff.new_from_ptr.empty.inv
define: U_NEW_FROM_PTR, U_EMPTY, U_ONLY_KF
src: mbuff.c, obj.c
native: mbuff
native_includes: mbuff.c
enforce: spif_mbuff_new_from_ptr
backend: sat,z3
timeout: 150
funcs: spif_mbuff_init_from_ptr
*/
/*@unit
name: mbuff.init_from_buff.nonempty
define: U_FROM_BUFF, U_NONEMPTY
src: mbuff.c, obj.c
native: mbuff
native_includes: mbuff.c
enforce: spif_mbuff_init_from_buff
backend: sat,z3
timeout: 150
*/
/*@unit
name: mbuff.init_from_buff.empty
define: U_FROM_BUFF, U_EMPTY, U_NOT_KF
src: mbuff.c, obj.c
native: mbuff
native_includes: mbuff.c
enforce: spif_mbuff_init_from_buff
backend: sat,z3
timeout: 150
*/
/*@unit
name: mbuff.init_from_buff.empty.inv
define: U_FROM_BUFF, U_EMPTY, U_ONLY_KF
src: mbuff.c, obj.c
native: mbuff
native_includes: mbuff.c
enforce: spif_mbuff_init_from_buff
backend: sat,z3
timeout: 150
*/
/*@unit
name: mbuff.new_from_buff.nonempty
define: U_NEW_FROM_BUFF, U_NONEMPTY
src: mbuff.c, obj.c
native: mbuff
native_includes: mbuff.c
enforce: spif_mbuff_new_from_buff
backend: sat,z3
timeout: 150
funcs: spif_mbuff_init_from_buff
*/
/*@unit
name: mbuff.new_from_buff.empty
define: U_NEW_FROM_BUFF, U_EMPTY, U_NOT_KF
src: mbuff.c, obj.c
native: mbuff
native_includes: mbuff.c
enforce: spif_mbuff_new_from_buff
backend: sat,z3
timeout: 150
funcs: spif_mbuff_init_from_buff
*/
/*@unit
name: mbuff.new_from_buff.empty.inv
define: U_NEW_FROM_BUFF, U_EMPTY, U_ONLY_KF
src: mbuff.c, obj.c
native: mbuff
native_includes: mbuff.c
enforce: spif_mbuff_new_from_buff
backend: sat,z3
timeout: 150
funcs: spif_mbuff_init_from_buff
*/
#include "vprelude.h"
#include "env_mbuff.h"
#include "mbuff.h"
#include "src/obj.c"
#include "src/mbuff.c"

#if defined(U_NONEMPTY)
# define LEN_RANGE(len)  (0 < (len) && (len) <= VCAP)
#elif defined(U_EMPTY)
# define LEN_RANGE(len)  ((len) == 0)
#else
# define LEN_RANGE(len)  (0 <= (len) && (len) <= VCAP)
#endif


#ifdef U_INIT
spif_bool_t spif_mbuff_init(spif_mbuff_t self)
__CPROVER_requires(__CPROVER_is_fresh(self, sizeof(*self)))
__CPROVER_assigns(MBUFF_FRAME_INIT(self))
__CPROVER_ensures(__CPROVER_return_value == TRUE)
__CPROVER_ensures(MBUFF_STATE_EMPTY(self))
__CPROVER_ensures(self->parent.cls == SPIF_CLASS(__CPROVER_old(spif_mbuff_mbuffclass)))
;
void harness(void)
{
    spif_mbuff_t self;
    spif_mbuff_init(self);
    VERIF_CANARY();
}
#endif

#ifdef U_NEW
spif_mbuff_t spif_mbuff_new(void)
__CPROVER_assigns()
__CPROVER_ensures(__CPROVER_is_fresh(__CPROVER_return_value, sizeof(*__CPROVER_return_value)))
__CPROVER_ensures(MBUFF_STATE_EMPTY(__CPROVER_return_value))
__CPROVER_ensures(__CPROVER_return_value->parent.cls == SPIF_CLASS(__CPROVER_old(spif_mbuff_mbuffclass)))
;
void harness(void)
{
    spif_mbuff_t r = spif_mbuff_new();
    VERIF_CANARY();
}
#endif

#ifdef U_FROM_PTR
spif_bool_t spif_mbuff_init_from_ptr(spif_mbuff_t self, spif_byteptr_t old, spif_memidx_t len)
__CPROVER_requires(__CPROVER_is_fresh(self, sizeof(*self)))
# ifdef U_NULLSRC
__CPROVER_requires(old == NULL)
# else
__CPROVER_requires(LEN_RANGE(len) && __CPROVER_is_fresh(old, (size_t) len))
# endif
__CPROVER_assigns(MBUFF_FRAME_INIT(self))
ENS(__CPROVER_return_value == TRUE)
ENS_KF(MBUFF_POST(self))
ENS(MBUFF_POST_ZEROBLOCK(self))
ENS(self->parent.cls == SPIF_CLASS(__CPROVER_old(spif_mbuff_mbuffclass)))
# ifdef U_NULLSRC
ENS(self->len == 0)
# else
ENS(self->len == len && self->size >= len)
ENS(!(vg_k < (size_t) len) || self->buff[vg_k] == old[vg_k])
# endif
;
void harness(void)
{
    spif_mbuff_t self; spif_byteptr_t old; spif_memidx_t len;
    w_len = len;
    spif_mbuff_init_from_ptr(self, old, len);
    VERIF_CANARY();
}
#endif

#ifdef U_NEW_FROM_PTR
spif_mbuff_t spif_mbuff_new_from_ptr(spif_byteptr_t old, spif_memidx_t len)
__CPROVER_requires(LEN_RANGE(len) && __CPROVER_is_fresh(old, (size_t) len))
__CPROVER_assigns()
ENS(__CPROVER_is_fresh(__CPROVER_return_value, sizeof(*__CPROVER_return_value)))
ENS_KF(MBUFF_POST(__CPROVER_return_value))
ENS(MBUFF_POST_ZEROBLOCK(__CPROVER_return_value))
ENS(__CPROVER_return_value->len == len && __CPROVER_return_value->size >= len)
ENS(!(vg_k < (size_t) len) || __CPROVER_return_value->buff[vg_k] == old[vg_k])
;
void harness(void)
{
    spif_byteptr_t old; spif_memidx_t len;
    w_len = len;
    spif_mbuff_t r = spif_mbuff_new_from_ptr(old, len);
    VERIF_CANARY();
}
#endif

/* init_from_buff(self, buff, len, size): bytes buff[0..len) (none when buff is NULL), capacity max(size, len).
 * A negative capacity hint has no meaning: call sites pass size >= 0. */
#define FB_LEN(buff, len)   ((buff) != NULL ? (len) : 0)
#if defined(U_NONEMPTY)
# define FB_RANGE(buff, len, size)  (VMAX(size, FB_LEN(buff, len)) > 0)
#elif defined(U_EMPTY)
# define FB_RANGE(buff, len, size)  (VMAX(size, FB_LEN(buff, len)) == 0)
#endif
#define FB_PRE(buff, len, size) \
    (0 <= (size) && (size) <= VCAP && 0 <= (len) && (len) <= VCAP && \
     ((buff) == NULL || __CPROVER_is_fresh((buff), (size_t) (len))) && FB_RANGE(buff, len, size))

#ifdef U_FROM_BUFF
spif_bool_t spif_mbuff_init_from_buff(spif_mbuff_t self, spif_byteptr_t buff, spif_memidx_t len, spif_memidx_t size)
__CPROVER_requires(__CPROVER_is_fresh(self, sizeof(*self)))
__CPROVER_requires(FB_PRE(buff, len, size))
__CPROVER_assigns(MBUFF_FRAME_INIT(self))
ENS(__CPROVER_return_value == TRUE)
ENS_KF(MBUFF_POST(self))
ENS(MBUFF_POST_ZEROBLOCK(self))
ENS(self->parent.cls == SPIF_CLASS(__CPROVER_old(spif_mbuff_mbuffclass)))
ENS(self->len == FB_LEN(buff, len) && self->size == VMAX(size, self->len))
ENS(!(vg_k < (size_t) self->len) || self->buff[vg_k] == buff[vg_k])
;
void harness(void)
{
    spif_mbuff_t self; spif_byteptr_t buff; spif_memidx_t len, size;
    w_len = len; w_size = size;
    spif_mbuff_init_from_buff(self, buff, len, size);
    VERIF_CANARY();
}
#endif

#ifdef U_NEW_FROM_BUFF
spif_mbuff_t spif_mbuff_new_from_buff(spif_byteptr_t buff, spif_memidx_t len, spif_memidx_t size)
__CPROVER_requires(FB_PRE(buff, len, size))
__CPROVER_assigns()
ENS(__CPROVER_is_fresh(__CPROVER_return_value, sizeof(*__CPROVER_return_value)))
ENS_KF(MBUFF_POST(__CPROVER_return_value))
ENS(MBUFF_POST_ZEROBLOCK(__CPROVER_return_value))
ENS(__CPROVER_return_value->len == FB_LEN(buff, len))
ENS(__CPROVER_return_value->size == VMAX(size, __CPROVER_return_value->len))
ENS(!(vg_k < (size_t) __CPROVER_return_value->len) || __CPROVER_return_value->buff[vg_k] == buff[vg_k])
;
void harness(void)
{
    spif_byteptr_t buff; spif_memidx_t len, size;
    w_len = len; w_size = size;
    spif_mbuff_t r = spif_mbuff_new_from_buff(buff, len, size);
    VERIF_CANARY();
}
#endif
