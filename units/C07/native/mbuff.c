/* Native replay of the C07 mbuff units (owner mbuff).  Built by the driver with clang + ASan/UBSan and the unit's
 * -D flags (they select the function), mbuff.c #included (unit field native_includes: mbuff.c), the other repo
 * sources linked.  The verifier's witness arrives as W_w_* scalars (w_len, w_size, w_olen, w_osize, w_idx, w_cnt,
 * w_n, w_c: tied to the failing pre-state by the contracts, see contracts/mbuff.h).  Byte CONTENTS are not in the
 * witness; they are rebuilt from fixed position-dependent patterns with embedded NULs, blanks and high-bit bytes.
 *
 *   1. the witness state is rebuilt when its sizes are small enough (<= WMAX bytes) and the real function is run;
 *   2. then (or instead, for huge witness sizes) a sweep over small states of the same function: lengths 0..6,
 *      capacity slack 0..2, every idx/cnt in -8..8, the first failing input is reported.
 * After every call the ideal-byte-sequence postcondition of the unit is re-evaluated against a plain-C reference
 * model; every buffer is an exact-size heap block, so ASan judges "no byte outside the buffer".
 * Exit 3 = an obligation is false on the real code, sanitizer report = exit 66 (driver's ASAN/UBSAN options),
 * 0 = not reproduced. */
#include <libast_internal.h>
#include "vnative.h"
/* Zero-length libc calls with a NULL pointer (memset/memcpy/memcmp/memmem on the empty (NULL,0,0) buffer) are tolerated
 * by the units' stubs (glibc, C2y), so UBSan's nonnull-attribute check is switched off for the functions of mbuff.c. */
#pragma clang attribute push (__attribute__((no_sanitize("nonnull-attribute"))), apply_to = function)
#include <src/mbuff.c>          /* -I<repo>: the tree under test (a quoted "mbuff.c" would be this file) */
#pragma clang attribute pop
#include <sys/wait.h>
#include <sanitizer/asan_interface.h>

#define WMAX 65536L
static char ctx[512];
#define FAILS(msg) do { fprintf(stderr, "NATIVE-REPLAY: obligation fails on the real code: %s\n    failing input: %s\n", msg, ctx); exit(3); } while (0)
#define CHK(c, msg) do { if (!(c)) FAILS(msg); } while (0)

/* position-dependent byte patterns: 0 = general (NULs, blanks, high bit), 1 = "other", 2 = blanks at both ends */
static unsigned char pat(int id, long i, long n)
{
    if (id == 2) {
        if (i < 2 || i >= n - 2 || i % 5 == 3) return (i & 1) ? '\t' : ' ';
        return (unsigned char) ('A' + i % 23);
    }
    if (i % 5 == 1) return 0;
    if (i % 7 == 3) return ' ';
    if (i % 11 == 6) return 0xfe;
    return (unsigned char) ((id ? 'k' : 'a') + (i * 3 + id * 5) % 17);
}
static spif_byteptr_t mk_bytes(int id, long n)
{
    spif_byteptr_t p = malloc(n > 0 ? n : 1); long i;   /* n == 0: a 1-byte block nobody may touch is fine too */
    if (n == 0) { free(p); p = malloc(0); }
    for (i = 0; i < n; i++) p[i] = pat(id, i, n);
    return p;
}
/* an object in the state (len, size): (NULL,0,0) when size == 0, else an exact-size block; slack bytes = 0x5a */
static spif_mbuff_t mk(int id, long len, long size)
{
    spif_mbuff_t m = spif_mbuff_new(); long i;
    if (size > 0) {
        m->buff = malloc(size); m->size = size; m->len = len;
        for (i = 0; i < size; i++) m->buff[i] = (i < len) ? pat(id, i, len) : 0x5a;
    }
    return m;
}
static void inv(spif_mbuff_t m)
{
    CHK((m->buff == NULL && m->len == 0 && m->size == 0) || (0 <= m->len && m->len <= m->size && m->size > 0 && m->buff != NULL),
        "representation invariant: (NULL,0,0) or 0 <= len <= size, 0 < size, block present");
    if (m->size > 0) { volatile unsigned char t = m->buff[m->size - 1]; (void) t; }   /* ASan: block really has size bytes */
}
static void same(spif_mbuff_t m, const unsigned char *want, long n, const char *what)
{
    long i;
    inv(m);
    CHK(m->len == n, "length equals the ideal sequence's length");
    for (i = 0; i < n; i++) if (m->buff[i] != want[i]) FAILS(what);
}
static unsigned char *snap(spif_mbuff_t m) { unsigned char *c = malloc(m->len + 1); if (m->len) memcpy(c, m->buff, m->len); return c; }
static int sgn(long x) { return x < 0 ? -1 : (x > 0 ? 1 : 0); }
static int ideal_cmp(const unsigned char *a, long la, const unsigned char *b, long lb)
{
    long m = la < lb ? la : lb, i;
    for (i = 0; i < m; i++) if (a[i] != b[i]) return a[i] < b[i] ? -1 : 1;
    return sgn(la - lb);
}
static int small(long v) { return v >= 0 && v <= WMAX; }

/* ------------------------------------------------------------------------------------------------------------ */
#if defined(U_APPEND) || defined(U_PREPEND) || defined(U_APPEND_PTR) || defined(U_PREPEND_PTR)
static void one(long L, long S, long OL, long OS)
{
    spif_mbuff_t s = mk(0, L, S); unsigned char *before = snap(s), *want = malloc(L + OL + 1); spif_bool_t r;
# if defined(U_APPEND) || defined(U_PREPEND)
    spif_mbuff_t o = mk(1, OL, OS); unsigned char *ob = snap(o); const unsigned char *src = ob;
    snprintf(ctx, sizeof(ctx), "self (len %ld, size %ld), other (len %ld, size %ld)", L, S, OL, OS);
#  ifdef U_APPEND
    r = spif_mbuff_append(s, o);
#  else
    r = spif_mbuff_prepend(s, o);
#  endif
    CHK(o->len == OL && o->size == OS && (OL == 0 || !memcmp(o->buff, ob, OL)), "the argument is not modified");
# else
    spif_byteptr_t src = mk_bytes(1, OL);
    snprintf(ctx, sizeof(ctx), "self (len %ld, size %ld), %ld bytes from a pointer", L, S, OL);
#  ifdef U_APPEND_PTR
    r = spif_mbuff_append_from_ptr(s, src, OL);
#  else
    r = spif_mbuff_prepend_from_ptr(s, src, OL);
#  endif
# endif
# if defined(U_APPEND) || defined(U_APPEND_PTR)
    memcpy(want, before, L); memcpy(want + L, src, OL);
    same(s, want, L + OL, "append: s'[k] = k < len ? s[k] : other[k - len]");
# else
    memcpy(want, src, OL); memcpy(want + OL, before, L);
    same(s, want, L + OL, "prepend: s'[k] = k < n ? other[k] : s[k - n]");
# endif
    CHK(r == TRUE, "returns TRUE");
    spif_mbuff_del(s); free(before); free(want);
}
static void replay(void)
{
    long L = vn_get("w_len", 0), S = vn_get("w_size", 0), OL, OS, sl, osl;
# if defined(U_APPEND) || defined(U_PREPEND)
    OL = vn_get("w_olen", 0); OS = vn_get("w_osize", 0);
# else
    OL = vn_get("w_n", 0); OS = OL;
# endif
    if (small(L) && small(S) && small(OL) && small(OS) && L <= S && OL <= OS) one(L, S, OL, OS);
    for (L = 0; L <= 6; L++) for (sl = 0; sl <= 2; sl++) for (OL = 0; OL <= 4; OL++) for (osl = 0; osl <= 2; osl++) {
# if defined(U_EMPTY)
        if (L + sl != 0) continue;
# elif defined(U_NONEMPTY)
        if (L + sl == 0) continue;
# endif
# if defined(U_APPEND_PTR) || defined(U_PREPEND_PTR)
        if (osl) continue;
# endif
        one(L, L + sl, OL, OL + osl);
    }
}

/* ------------------------------------------------------------------------------------------------------------ */
#elif defined(U_SPLICE) || defined(U_SPLICE_PTR)
static void one(long L, long S, long idx, long cnt, int has_other, long OL, long OS)
{
    spif_mbuff_t s = mk(0, L, S); unsigned char *before = snap(s), *want = malloc(L + OL + 1); spif_bool_t r;
    long i = idx < 0 ? L + idx : idx, c = 0, n = has_other ? OL : 0, k = 0; int ok;
# ifdef U_SPLICE
    spif_mbuff_t o = has_other ? mk(1, OL, OS) : (spif_mbuff_t) NULL; const unsigned char *ins = o ? o->buff : NULL;
# else
    spif_byteptr_t o = has_other ? mk_bytes(1, OL) : (spif_byteptr_t) NULL; const unsigned char *ins = o;
# endif
    ok = (i >= 0 && i < L);
    if (ok) { c = cnt < 0 ? L - i + cnt : cnt; ok = (c >= 0 && c <= L - i); }
    snprintf(ctx, sizeof(ctx), "self (len %ld, size %ld), idx %ld, cnt %ld, insert %s of %ld bytes", L, S, idx, cnt, has_other ? "a sequence" : "NULL", n);
# ifdef U_SPLICE
    r = spif_mbuff_splice(s, idx, cnt, o);
# else
    r = spif_mbuff_splice_from_ptr(s, idx, cnt, o, OL);
# endif
    if (!ok) {
        CHK(r == FALSE, "a position / count outside the buffer is refused");
        same(s, before, L, "a refused splice changes nothing");
    } else {
        memcpy(want, before, i); k = i;
        if (n) memcpy(want + k, ins, n); k += n;
        memcpy(want + k, before + i + c, L - i - c); k += L - i - c;
        CHK(r == TRUE, "a position and count inside the buffer are accepted");
        same(s, want, k, "splice: head / inserted / tail bytes equal the ideal sequence");
    }
    spif_mbuff_del(s); free(before); free(want);
}
static void replay(void)
{
    long L = vn_get("w_len", 0), S = vn_get("w_size", 0), idx = vn_get("w_idx", 0), cnt = vn_get("w_cnt", 0), OL, OS, sl;
    int has;
# ifdef U_SPLICE
    OL = vn_get("w_olen", 0); OS = vn_get("w_osize", 0);
# else
    OL = vn_get("w_n", 0); OS = OL;
# endif
    if (small(L) && small(S) && small(OL) && small(OS) && L <= S && OL <= OS) one(L, S, idx, cnt, 1, OL, OS);
    for (L = 0; L <= 6; L++) for (sl = 0; sl <= 1; sl++) for (idx = -8; idx <= 8; idx++) for (cnt = -8; cnt <= 8; cnt++)
        for (has = 0; has <= 1; has++) for (OL = 0; OL <= (has ? 3 : 0); OL++) {
# if defined(U_ACCEPT)
            if (cnt < 0) continue;
# elif defined(U_NEGCNT)
            if (cnt >= 0) continue;
# endif
            one(L, L + sl, idx, cnt, has, OL, OL + (OL & 1));
        }
}

/* ------------------------------------------------------------------------------------------------------------ */
#elif defined(U_INDEX) || defined(U_RINDEX) || defined(U_FIND) || defined(U_FIND_PTR) || defined(U_CLEAR) || defined(U_REVERSE) || defined(U_TRIM)
static void one(long L, long S, int c, long NL, long NOFF)
{
# if defined(U_TRIM)
    spif_mbuff_t s = mk(2, L, S);
# else
    spif_mbuff_t s = mk(0, L, S);
# endif
    unsigned char *before = snap(s), *want = malloc(L + 1); long r, k, a, b;
    snprintf(ctx, sizeof(ctx), "self (len %ld, size %ld), byte 0x%02x, needle = %ld bytes taken from offset %ld of self", L, S, c & 0xff, NL, NOFF);
# if defined(U_INDEX)
    r = spif_mbuff_index(s, (spif_uint8_t) c);
    for (k = 0; k < L && before[k] != (unsigned char) c; k++);
    CHK(r == k, "index: smallest k with s[k] == c, else len");
    same(s, before, L, "index writes nothing");
# elif defined(U_RINDEX)
    r = spif_mbuff_rindex(s, (spif_uint8_t) c);
    for (k = L - 1; k >= 0 && before[k] != (unsigned char) c; k--);
    CHK(r == (k < 0 ? L : k), "rindex: largest k with s[k] == c, else len");
    same(s, before, L, "rindex writes nothing");
# elif defined(U_FIND) || defined(U_FIND_PTR)
    {
        unsigned char *nd = malloc(NL ? NL : 1); if (!NL) { free(nd); nd = malloc(0); }
        if (NL) memcpy(nd, before + NOFF, NL);
        if (c & 1) { if (NL) nd[NL - 1] ^= 0x80; }                 /* odd c: a needle that (almost surely) does not occur */
        for (k = 0; NL && k + NL <= L && memcmp(before + k, nd, NL); k++);
        if (NL && k + NL > L) k = L;
        if (!NL) k = 0;
#  ifdef U_FIND
        { spif_mbuff_t o = spif_mbuff_new_from_ptr(nd, NL); r = spif_mbuff_find(s, o); spif_mbuff_del(o); }
#  else
        r = spif_mbuff_find_from_ptr(s, nd, NL);
#  endif
        CHK(r >= 0 && r <= L, "find: answer in [0, len]");
        CHK(r == L || (r + NL <= L && !memcmp(before + r, nd, NL)), "find: an answer below len is an occurrence inside the buffer");
        CHK(r == k || (L == 0 && r == 0), "find: the first occurrence, len when there is none");
        same(s, before, L, "find writes nothing");
        free(nd);
    }
# elif defined(U_CLEAR)
    CHK(spif_mbuff_clear(s, (spif_uint8_t) c) == TRUE, "clear returns TRUE");
    memset(want, c, L);
    same(s, want, L, "clear: every byte below len is c");
    CHK(s->size == S, "clear keeps the capacity");
# elif defined(U_REVERSE)
    r = spif_mbuff_reverse(s);
    for (k = 0; k < L; k++) want[k] = before[L - 1 - k];
    same(s, want, L, "reverse: s'[k] = s[len-1-k]");
    CHK(S == 0 || r == TRUE, "reverse returns TRUE");
# else
    CHK(spif_mbuff_trim(s) == TRUE, "trim returns TRUE");
    for (a = 0; a < L && isspace(before[a]); a++);
    for (b = L; b > a && isspace(before[b - 1]); b--);
    same(s, before + a, b - a, "trim: the sequence without its leading and trailing whitespace");
# endif
    (void) r; (void) k; (void) a; (void) b;
    spif_mbuff_del(s); free(before); free(want);
}
static void replay(void)
{
    long L = vn_get("w_len", 0), S = vn_get("w_size", 0), sl, NL, NOFF; int c = (int) vn_get("w_c", 'a');
    static const int bytes[] = { 'a', 0, ' ', 0xfe, 'q', 'd', 'b' };
    unsigned ci;
    /* (reverse.huge: states above 2 GiB are not rebuilt - findings/demos/C07_reverse_huge.c does that - only the sweep runs) */
    if (small(L) && small(S) && L <= S) one(L, S, c, 0, 0);
    for (L = 0; L <= 9; L++) for (sl = 0; sl <= 2; sl++) for (ci = 0; ci < sizeof(bytes) / sizeof(bytes[0]); ci++) {
# if defined(U_EMPTY)
        if (L != 0) continue;
# elif defined(U_NONEMPTY) || defined(U_FOUND)
        if (L == 0) continue;
# endif
# if defined(U_FIND) || defined(U_FIND_PTR)
        for (NL = 0; NL <= L; NL++) for (NOFF = 0; NOFF + NL <= L; NOFF++) one(L, L + sl, bytes[ci], NL, NOFF);
# else
        (void) NL; (void) NOFF;
        one(L, L + sl, bytes[ci], 0, 0);
# endif
    }
}

/* ------------------------------------------------------------------------------------------------------------ */
#elif defined(U_CMP) || defined(U_COMP) || defined(U_NCMP) || defined(U_CMP_PTR) || defined(U_NCMP_PTR)
static void one(long L, long S, long OL, long OS, long cnt, int variant)
{
    /* variant: 0 other = same pattern (equal / prefix), 1 = different pattern, 2 = same but last byte changed */
    spif_mbuff_t s = mk(0, L, S), o = mk(variant == 1 ? 1 : 0, OL, OS); int r, want;
    if (variant == 2 && OL > 0) o->buff[OL - 1] ^= 0x21;
    snprintf(ctx, sizeof(ctx), "self (len %ld, size %ld), other (len %ld, size %ld, content variant %d), count %ld", L, S, OL, OS, variant, cnt);
# if defined(U_CMP)
    r = spif_mbuff_cmp(s, o); want = ideal_cmp(s->buff, L, o->buff, OL);
    CHK(r == want, "cmp: lexicographic order of the two sequences, a proper prefix is LESS");
    CHK(spif_mbuff_cmp((spif_mbuff_t) NULL, s) == SPIF_CMP_LESS && spif_mbuff_cmp(s, (spif_mbuff_t) NULL) == SPIF_CMP_GREATER, "cmp: NULL sorts first");
# elif defined(U_COMP)
    r = spif_mbuff_comp(s, o); want = ideal_cmp(s->buff, L, o->buff, OL);
    CHK(r == want, "comp: lexicographic order of the two sequences, a proper prefix is LESS");
# elif defined(U_NCMP)
    if (cnt < 0) return;
    r = spif_mbuff_ncmp(s, o, cnt); want = ideal_cmp(s->buff, cnt < L ? cnt : L, o->buff, cnt < OL ? cnt : OL);
    CHK(r == want, "ncmp: order of the first cnt bytes of each sequence");
# else
    if (cnt < 0 || cnt > OL) return;                  /* other[0..cnt) must exist */
    { spif_byteptr_t ob = o->buff ? o->buff : mk_bytes(1, 0);     /* a NULL pointer would be the "other is NULL" case */
#  ifdef U_CMP_PTR
    r = spif_mbuff_cmp_with_ptr(s, ob, cnt);
#  else
    r = spif_mbuff_ncmp_with_ptr(s, ob, cnt);
#  endif
    }
    CHK(r == -1 || r == 0 || r == 1, "cmp_with_ptr: answer is LESS, EQUAL or GREATER");
#  ifdef U_CMP_PTR
    CHK(spif_mbuff_cmp_with_ptr((spif_mbuff_t) NULL, o->buff ? o->buff : (spif_byteptr_t) "", 0) == SPIF_CMP_LESS &&
        spif_mbuff_cmp_with_ptr(s, (spif_byteptr_t) NULL, 0) == SPIF_CMP_GREATER &&
        spif_mbuff_cmp_with_ptr((spif_mbuff_t) NULL, (spif_byteptr_t) NULL, 0) == SPIF_CMP_EQUAL, "cmp_with_ptr: NULL sorts first");
#  else
    CHK(spif_mbuff_ncmp_with_ptr((spif_mbuff_t) NULL, o->buff ? o->buff : (spif_byteptr_t) "", 0) == SPIF_CMP_LESS &&
        spif_mbuff_ncmp_with_ptr(s, (spif_byteptr_t) NULL, 0) == SPIF_CMP_GREATER &&
        spif_mbuff_ncmp_with_ptr((spif_mbuff_t) NULL, (spif_byteptr_t) NULL, 0) == SPIF_CMP_EQUAL, "ncmp_with_ptr: NULL sorts first");
#  endif
    if (cnt <= L) { want = ideal_cmp(s->buff, cnt, o->buff, cnt); CHK(r == want, "cmp_with_ptr: order of the first n bytes"); }
    else if (cnt > S) CHK(r != 0, "cmp_with_ptr: a sequence shorter than the count is never EQUAL");
# endif
    (void) want;
    spif_mbuff_del(s); spif_mbuff_del(o);
}
static void replay(void)
{
    long L = vn_get("w_len", 0), S = vn_get("w_size", 0), OL = vn_get("w_olen", 0), OS = vn_get("w_osize", 0), cnt = vn_get("w_cnt", 0), sl; int v;
# if defined(U_CMP_PTR) || defined(U_NCMP_PTR)
    cnt = OL = OS = vn_get("w_n", 0);
# endif
    if (small(L) && small(S) && small(OL) && small(OS) && L <= S && OL <= OS) for (v = 0; v < 3; v++) one(L, S, OL, OS, cnt, v);
    for (L = 0; L <= 5; L++) for (sl = 0; sl <= 2; sl++) for (OL = 0; OL <= 7; OL++) for (cnt = 0; cnt <= 8; cnt++) for (v = 0; v < 3; v++)
        one(L, L + sl, OL, OL + (OL & 1), cnt, v);
}

/* ------------------------------------------------------------------------------------------------------------ */
#elif defined(U_SUBBUFF) || defined(U_SUBBUFF_PTR)
static void one(long L, long S, long idx, long cnt)
{
    spif_mbuff_t s = mk(0, L, S); unsigned char *before = snap(s);
    long i = idx < 0 ? L + idx : idx, n = 0; int ok = (i >= 0 && i < L);
    if (ok) { n = cnt <= 0 ? L - i + cnt : cnt; ok = n >= 0; if (n > L - i) n = L - i; }
    snprintf(ctx, sizeof(ctx), "self (len %ld, size %ld), idx %ld, cnt %ld", L, S, idx, cnt);
# ifdef U_SUBBUFF
    {
        spif_mbuff_t r = spif_mbuff_subbuff(s, idx, cnt);
        if (!ok) CHK(r == NULL, "subbuff: a position outside the buffer is refused");
        else { CHK(r != NULL && r != s && (n == 0 || r->buff != s->buff), "subbuff: a fresh object"); same(r, before + i, n, "subbuff: result[k] == s[i + k]"); spif_mbuff_del(r); }
    }
# else
    {
        spif_byteptr_t r = spif_mbuff_subbuff_to_ptr(s, idx, cnt);
        if (!ok) CHK(r == NULL, "subbuff_to_ptr: a position outside the buffer is refused");
        else { CHK(r != NULL, "subbuff_to_ptr: a block"); CHK(!memcmp(r, before + i, n), "subbuff_to_ptr: result[k] == s[i + k]"); CHK(r[n] == 0, "subbuff_to_ptr: terminator"); free(r); }
    }
# endif
    same(s, before, L, "subbuff leaves the source untouched");
    spif_mbuff_del(s); free(before);
}
static void replay(void)
{
    long L = vn_get("w_len", 0), S = vn_get("w_size", 0), idx = vn_get("w_idx", 0), cnt = vn_get("w_cnt", 0), sl;
    if (small(L) && small(S) && L <= S) one(L, S, idx, cnt);
    for (L = 0; L <= 6; L++) for (sl = 0; sl <= 1; sl++) for (idx = -8; idx <= 8; idx++) for (cnt = -8; cnt <= 8; cnt++) one(L, L + sl, idx, cnt);
}

/* ------------------------------------------------------------------------------------------------------------ */
#elif defined(U_INIT) || defined(U_NEW) || defined(U_FROM_PTR) || defined(U_NEW_FROM_PTR) || defined(U_FROM_BUFF) || defined(U_NEW_FROM_BUFF)
static void one(long len, long size, int null_src)
{
    spif_byteptr_t src = null_src ? (spif_byteptr_t) NULL : mk_bytes(0, len);
    SPIF_CONST_TYPE(mbuff) raw; spif_mbuff_t m = &raw; long want_len = null_src ? 0 : len;
    memset(&raw, 0xa5, sizeof(raw));
    snprintf(ctx, sizeof(ctx), "source %s, len %ld, size %ld", null_src ? "NULL" : "pointer", len, size);
# if defined(U_INIT)
    CHK(spif_mbuff_init(m) == TRUE, "init returns TRUE"); want_len = 0;
# elif defined(U_NEW)
    m = spif_mbuff_new(); want_len = 0;
# elif defined(U_FROM_PTR)
    CHK(spif_mbuff_init_from_ptr(m, src, len) == TRUE, "init_from_ptr returns TRUE");
# elif defined(U_NEW_FROM_PTR)
    if (null_src) return;
    m = spif_mbuff_new_from_ptr(src, len);
# elif defined(U_FROM_BUFF)
    CHK(spif_mbuff_init_from_buff(m, src, len, size) == TRUE, "init_from_buff returns TRUE");
# else
    m = spif_mbuff_new_from_buff(src, len, size);
# endif
    CHK(m != NULL, "an object is returned");
    same(m, src, want_len, "constructor: s[k] == source[k]");
# if defined(U_FROM_BUFF) || defined(U_NEW_FROM_BUFF)
    CHK(m->size == (size > want_len ? size : want_len), "capacity is max(size, len)");
# endif
    CHK(SPIF_OBJ_IS_MBUFF(m), "class set");
    spif_mbuff_done(m);
}
static void replay(void)
{
    long len = vn_get("w_len", 0), size = vn_get("w_size", 0); int ns;
    if (small(len) && small(size)) { one(len, size, 0); one(len, size, 1); }
    for (len = 0; len <= 6; len++) for (size = 0; size <= 8; size++) for (ns = 0; ns <= 1; ns++) one(len, size, ns);
}

/* ------------------------------------------------------------------------------------------------------------ */
#elif defined(U_DONE) || defined(U_DEL) || defined(U_DUP) || defined(U_TYPE) || defined(U_ACCESSORS) || defined(VERIF_MB_FMTSTUBS)
static void one(long L, long S)
{
    spif_mbuff_t s = mk(0, L, S); unsigned char *before = snap(s); void *before_blk = s->buff;
    snprintf(ctx, sizeof(ctx), "self (len %ld, size %ld)", L, S);
    (void) before_blk;
# if defined(U_DONE)
    CHK(spif_mbuff_done(s) == TRUE, "done returns TRUE");
    CHK(s->buff == NULL && s->len == 0 && s->size == 0, "done leaves the (NULL,0,0) state");
    CHK(S == 0 || __asan_address_is_poisoned(before_blk), "done releases the buffer");
    spif_mbuff_del(s);
# elif defined(U_DEL)
    { void *blk = s->buff;
      CHK(spif_mbuff_del(s) == TRUE, "del returns TRUE");
      CHK(__asan_address_is_poisoned(s), "del releases the object");
      CHK(blk == NULL || __asan_address_is_poisoned(blk), "del releases the buffer"); }
# elif defined(U_DUP)
    { spif_mbuff_t d = spif_mbuff_dup(s); CHK(d != NULL && d != s && (S == 0 || d->buff != s->buff), "dup: a fresh object with a block of its own");
      same(d, before, L, "dup: same bytes"); CHK(d->size == S, "dup: same capacity"); spif_mbuff_clear(d, 'x'); spif_mbuff_del(d);
      same(s, before, L, "dup: the original is independent of the copy"); spif_mbuff_del(s); }
# elif defined(U_TYPE)
    CHK(!strcmp((char *) spif_mbuff_type(s), "!spif_mbuff_t!"), "type() names the class"); spif_mbuff_del(s);
# elif defined(U_ACCESSORS)
    CHK(spif_mbuff_get_len(s) == L && spif_mbuff_get_size(s) == S, "get_len / get_size report the fields");
    spif_mbuff_set_len(s, L); CHK(s->len == L && s->size == S, "set_len sets len only");
    spif_mbuff_set_size(s, S); CHK(s->len == L && s->size == S, "set_size sets size only"); spif_mbuff_del(s);
# else
    { spif_str_t t = spif_mbuff_show(s, (spif_byteptr_t) "m", (spif_str_t) NULL, 2); same(s, before, L, "show writes nothing of the object"); spif_str_del(t); spif_mbuff_del(s); }
# endif
    free(before);
}
static void replay(void)
{
    long L = vn_get("w_len", 0), S = vn_get("w_size", 0), sl;
    if (small(L) && small(S) && L <= S) one(L, S);
    for (L = 0; L <= 20; L++) for (sl = 0; sl <= 2; sl++) one(L, L + sl);
}

/* ------------------------------------------------------------------------------------------------------------ */
#elif defined(U_SPRINTF)
static void replay(void)
{
    static const char *fmts[] = { "", "E", "%d items", "%s|%5.2f|%c", "a%cb" };
    unsigned i; long L;
    for (L = 0; L <= 3; L += 3) for (i = 0; i < sizeof(fmts) / sizeof(fmts[0]); i++) {
        spif_mbuff_t s = mk(0, L, L); char ref[128]; int n; spif_bool_t r;
        snprintf(ctx, sizeof(ctx), "self (len %ld), format \"%s\"", L, fmts[i]);
        switch (i) {
            case 2:  n = snprintf(ref, sizeof(ref), fmts[i], 42); r = spif_mbuff_sprintf(s, (spif_charptr_t) fmts[i], 42); break;
            case 3:  n = snprintf(ref, sizeof(ref), fmts[i], "xy", 3.14159, 'q'); r = spif_mbuff_sprintf(s, (spif_charptr_t) fmts[i], "xy", 3.14159, 'q'); break;
            case 4:  n = snprintf(ref, sizeof(ref), fmts[i], 0); r = spif_mbuff_sprintf(s, (spif_charptr_t) fmts[i], 0); n = 1; break;   /* text stops at the NUL: vsnprintf reports 3 */
            default: n = snprintf(ref, sizeof(ref), "%s", fmts[i]); r = spif_mbuff_sprintf(s, (spif_charptr_t) fmts[i]); break;
        }
        inv(s);
        CHK(r == TRUE, "sprintf returns TRUE");
        if (i != 4) { CHK(s->len == n, "sprintf: len is the length of the formatted text"); CHK(n == 0 || !memcmp(s->buff, ref, n), "sprintf: the formatted text"); }
        CHK(s->len == 0 || s->len < s->size, "sprintf: capacity above the length");
        spif_mbuff_del(s);
    }
}

/* ------------------------------------------------------------------------------------------------------------ */
#elif defined(U_FD) || defined(U_FP) || defined(U_NEW_FD) || defined(U_NEW_FP)
/* the input: total bytes of pattern 0; kind 0 = regular file positioned at `pos`, 1 = pipe fed in `pieces` pieces */
static void one(long total, int kind, long pos, int pieces)
{
    unsigned char *data = mk_bytes(0, total); int fd = -1, fds[2]; FILE *fp = NULL; spif_mbuff_t m; long skip = 0;
    SPIF_CONST_TYPE(mbuff) raw;
    snprintf(ctx, sizeof(ctx), "%s of %ld bytes, position %ld, delivered in %d piece(s)", kind ? "pipe" : "regular file", total, pos, pieces);
    if (kind == 0) {
        char path[] = "/tmp/c07_replayXXXXXX";
        fd = mkstemp(path); unlink(path);
        if (total && write(fd, data, total) != total) exit(0);
        lseek(fd, pos, SEEK_SET); skip = pos;
    } else {
        if (pipe(fds)) exit(0);
        if (fork() == 0) {
            long done = 0, piece = (total + pieces - 1) / pieces; close(fds[0]);
            while (done < total) { long n = total - done < piece ? total - done : piece; if (write(fds[1], data + done, n) != n) _exit(1); done += n; usleep(20000); }
            close(fds[1]); _exit(0);
        }
        close(fds[1]); fd = fds[0];
        if (pieces > 1) usleep(5000);
    }
# if defined(U_FP) || defined(U_NEW_FP)
    fp = fdopen(fd, "r");
    if (kind == 0) fseek(fp, pos, SEEK_SET);
# endif
    memset(&raw, 0xa5, sizeof(raw)); m = &raw;
# if defined(U_FD)
    CHK(spif_mbuff_init_from_fd(m, fd) == TRUE, "init_from_fd returns TRUE");
# elif defined(U_FP)
    CHK(spif_mbuff_init_from_fp(m, fp) == TRUE, "init_from_fp returns TRUE");
# elif defined(U_NEW_FD)
    m = spif_mbuff_new_from_fd(fd); CHK(m != NULL, "new_from_fd returns an object");
# else
    m = spif_mbuff_new_from_fp(fp); CHK(m != NULL, "new_from_fp returns an object");
# endif
    same(m, data + skip, total - skip, "reader: the buffer is the input from the position at the call to its end");
    spif_mbuff_done(m);
    if (fp) fclose(fp); else close(fd);
    if (kind) wait(NULL);
    free(data);
}
static void replay(void)
{
    static const long totals[] = { 0, 1, 10, 4095, 4096, 4097, 10000 };
    unsigned t; int pieces;
    for (t = 0; t < sizeof(totals) / sizeof(totals[0]); t++) {
        one(totals[t], 0, 0, 1);
        if (totals[t] > 4) one(totals[t], 0, 4, 1);
        for (pieces = 1; pieces <= 3; pieces++) one(totals[t], 1, 0, pieces);
    }
}
#else
static void replay(void) { fprintf(stderr, "NATIVE-REPLAY: no template section for this unit's flags\n"); }
#endif

int main(void)
{
    replay();
    fprintf(stderr, "NATIVE-REPLAY: not reproduced (witness state and small-state sweep satisfy the postconditions)\n");
    return 0;
}
