/* C07: append / prepend (object and pointer forms).  Ideal sequence:
 *   append :  len' = len + n,  s'[k] = k < len ? s[k] : other[k - len]
 *   prepend:  len' = len + n,  s'[k] = k < n   ? other[k] : s[k - n]
 * for the arbitrary ghost index vg_k; capacity >= length; nothing else assigned; the
 * argument is not modified (it is outside the assigns clause).
 * .empty = self in the (NULL,0,0) state, .nonempty = self owns a block.
 * prepend moves the old bytes up by n: the byte that arrives at vg_k comes from offset
 * vg_k2 = vg_k - n; the clause is guarded by that relation between the two arbitrary ghosts
 * (the ghost copy models of env_mbuff.h keep exactly the object offsets vg_k and vg_k2).
 * Sums of capacities are kept below VCAP by the precondition (representability only). */

/*@unit
name: mbuff.append.nonempty
define: VERIF_MB_GHOSTCOPY, U_APPEND, U_NONEMPTY
src: mbuff.c
native: mbuff
native_includes: mbuff.c
enforce: spif_mbuff_append
backend: sat
objbits: 6
flags: --slice-formula
timeout: 150
*/
/*@unit
name: mbuff.append.empty
define: VERIF_MB_GHOSTCOPY, U_APPEND, U_EMPTY
src: mbuff.c
native: mbuff
native_includes: mbuff.c
enforce: spif_mbuff_append
backend: sat
objbits: 6
flags: --slice-formula
timeout: 150
*/
/*@unit
name: mbuff.append_from_ptr.nonempty
define: VERIF_MB_GHOSTCOPY, U_APPEND_PTR, U_NONEMPTY
src: mbuff.c
native: mbuff
native_includes: mbuff.c
enforce: spif_mbuff_append_from_ptr
backend: sat
objbits: 6
flags: --slice-formula
timeout: 150
*/
/*@unit
name: mbuff.append_from_ptr.empty
define: VERIF_MB_GHOSTCOPY, U_APPEND_PTR, U_EMPTY
src: mbuff.c
native: mbuff
native_includes: mbuff.c
enforce: spif_mbuff_append_from_ptr
backend: sat
objbits: 6
flags: --slice-formula
timeout: 150
*/
/*@unit
name: mbuff.prepend.nonempty
define: VERIF_MB_GHOSTCOPY, U_PREPEND, U_NONEMPTY
src: mbuff.c
native: mbuff
native_includes: mbuff.c
enforce: spif_mbuff_prepend
backend: sat
objbits: 6
flags: --slice-formula
timeout: 150
*/
/*@unit
name: mbuff.prepend.empty
define: VERIF_MB_GHOSTCOPY, U_PREPEND, U_EMPTY
src: mbuff.c
native: mbuff
native_includes: mbuff.c
enforce: spif_mbuff_prepend
backend: sat
objbits: 6
flags: --slice-formula
timeout: 150
*/
/*@unit
name: mbuff.prepend_from_ptr.nonempty
define: VERIF_MB_GHOSTCOPY, U_PREPEND_PTR, U_NONEMPTY
src: mbuff.c
native: mbuff
native_includes: mbuff.c
enforce: spif_mbuff_prepend_from_ptr
backend: sat
objbits: 6
flags: --slice-formula
timeout: 150
*/
/*@unit
name: mbuff.prepend_from_ptr.empty
define: VERIF_MB_GHOSTCOPY, U_PREPEND_PTR, U_EMPTY
src: mbuff.c
native: mbuff
native_includes: mbuff.c
enforce: spif_mbuff_prepend_from_ptr
backend: sat
objbits: 6
flags: --slice-formula
timeout: 150
*/
#include "vprelude.h"
#include "env_mbuff.h"
#include "mbuff.h"
#include "src/mbuff.c"

#ifdef U_NONEMPTY
# define SELF_PRE(o)  MBUFF_INV_NONEMPTY(o)
/* entry byte of self at ghost position k (clamped for old(); the clause guards the range) */
# define OLD_BYTE(o, k)  __CPROVER_old((o)->buff[VCLAMP((k), (o)->len)])
#else
# define SELF_PRE(o)  MBUFF_INV_EMPTY(o)
# define OLD_BYTE(o, k)  0   /* no entry bytes: the range guard is never true */
#endif
#define OLEN(o)  __CPROVER_old((o)->len)


#if defined(U_APPEND) || defined(U_PREPEND)
# ifdef U_APPEND
#  define FN spif_mbuff_append
# else
#  define FN spif_mbuff_prepend
# endif
spif_bool_t FN(spif_mbuff_t self, spif_mbuff_t other)
__CPROVER_requires(SELF_PRE(self) && MBUFF_INV(other))
__CPROVER_requires(self->size + other->size <= VCAP)
__CPROVER_requires(MB_WIT_SELF(self) && MB_WIT_OTHER(other))
__CPROVER_assigns(MBUFF_FRAME(self))
__CPROVER_frees(self->buff)
__CPROVER_ensures(__CPROVER_return_value == TRUE)
__CPROVER_ensures(MBUFF_POST(self))
__CPROVER_ensures(self->len == OLEN(self) + other->len)
__CPROVER_ensures(self->size >= __CPROVER_old(self->size))
# ifdef U_APPEND
__CPROVER_ensures(!(vg_k < (size_t) OLEN(self)) || self->buff[vg_k] == OLD_BYTE(self, vg_k))
__CPROVER_ensures(!(vg_k >= (size_t) OLEN(self) && vg_k < (size_t) self->len) ||
                  self->buff[vg_k] == other->buff[vg_k - (size_t) OLEN(self)])
# else
__CPROVER_ensures(!(vg_k < (size_t) other->len) || self->buff[vg_k] == other->buff[vg_k])
__CPROVER_ensures(!(vg_k >= (size_t) other->len && vg_k < (size_t) self->len) || vg_k2 != vg_k - (size_t) other->len ||
                  self->buff[vg_k] == OLD_BYTE(self, vg_k2))
# endif
;
void harness(void)
{
    spif_mbuff_t self, other;
    FN(self, other);
    VERIF_CANARY();
}
#endif

#if defined(U_APPEND_PTR) || defined(U_PREPEND_PTR)
# ifdef U_APPEND_PTR
#  define FN spif_mbuff_append_from_ptr
# else
#  define FN spif_mbuff_prepend_from_ptr
# endif
spif_bool_t FN(spif_mbuff_t self, spif_byteptr_t other, spif_memidx_t len)
__CPROVER_requires(SELF_PRE(self))
__CPROVER_requires(0 <= len && len <= VCAP && __CPROVER_is_fresh(other, (size_t) len))
__CPROVER_requires(self->size + len <= VCAP)
__CPROVER_requires(MB_WIT_SELF(self))
__CPROVER_assigns(MBUFF_FRAME(self))
__CPROVER_frees(self->buff)
__CPROVER_ensures(__CPROVER_return_value == TRUE)
__CPROVER_ensures(MBUFF_POST(self))
__CPROVER_ensures(self->len == OLEN(self) + len)
__CPROVER_ensures(self->size >= __CPROVER_old(self->size))
# ifdef U_APPEND_PTR
__CPROVER_ensures(!(vg_k < (size_t) OLEN(self)) || self->buff[vg_k] == OLD_BYTE(self, vg_k))
__CPROVER_ensures(!(vg_k >= (size_t) OLEN(self) && vg_k < (size_t) self->len) ||
                  self->buff[vg_k] == other[vg_k - (size_t) OLEN(self)])
# else
__CPROVER_ensures(!(vg_k < (size_t) len) || self->buff[vg_k] == other[vg_k])
__CPROVER_ensures(!(vg_k >= (size_t) len && vg_k < (size_t) self->len) || vg_k2 != vg_k - (size_t) len ||
                  self->buff[vg_k] == OLD_BYTE(self, vg_k2))
# endif
;
void harness(void)
{
    spif_mbuff_t self; spif_byteptr_t other; spif_memidx_t len;
    w_n = len;
    FN(self, other, len);
    VERIF_CANARY();
}
#endif
