/* C07 (and C05 "comparison"): cmp, comp, cmp_with_ptr, ncmp, ncmp_with_ptr compare as the ideal
 * byte sequences compare: lexicographic on unsigned bytes, a proper prefix is LESS.
 * With A = self[0..la), B = other[0..lb), m = min(la, lb) and D = first index below m where they
 * differ (D == m if none; witness = ghost vg_cmp_d written by the memcmp stub):
 *     EQUAL    iff  la == lb and all m bytes equal
 *     LESS     iff  D < m ? A[D] < B[D] : la < lb
 *     GREATER  iff  D < m ? A[D] > B[D] : la > lb
 * "all bytes below D are equal" is stated at the ghost index vg_k.  ncmp compares the first cnt
 * bytes of each sequence (la, lb replaced by min(cnt, len)).  NULL sorts before every object.
 * Nothing is written except the ghost witness.
 *
 * Behaviours: .samelen / .within are the cases the current code handles; .difflen / .beyond fail
 * on this tree (known_findings: C07-mbuff-cmp-prefix, C07-mbuff-cmp-ptr-overread): cmp/comp/ncmp compare
 * MIN(len) bytes only, cmp_with_ptr reads the caller's count whatever the buffer holds.  In those behaviours the EQUAL clause is the
 * ENS_KF clause (checked alone by the *.eq units), every other clause must hold. */

/*@unit
name: mbuff.cmp.samelen
define: U_CMP, U_SAMELEN
src: mbuff.c
native: mbuff
native_includes: mbuff.c
enforce: spif_mbuff_cmp
backend: sat
objbits: 6
flags: --slice-formula
*/
/*@unit
name: mbuff.cmp.difflen
define: U_CMP, U_DIFFLEN, U_NOT_KF
src: mbuff.c
native: mbuff
native_includes: mbuff.c
enforce: spif_mbuff_cmp
backend: sat
objbits: 6
flags: --slice-formula
*/
/*@unit
name: mbuff.cmp.difflen.eq
define: U_CMP, U_DIFFLEN, U_ONLY_KF
src: mbuff.c
native: mbuff
native_includes: mbuff.c
enforce: spif_mbuff_cmp
backend: sat
objbits: 6
flags: --slice-formula
*/
/*@unit
name: mbuff.cmp.null
define: U_CMP, U_NULL
src: mbuff.c
native: mbuff
native_includes: mbuff.c
enforce: spif_mbuff_cmp
backend: sat
objbits: 6
flags: --slice-formula
*/
/*@unit
name: mbuff.comp.samelen
define: U_COMP, U_SAMELEN
src: mbuff.c
native: mbuff
native_includes: mbuff.c
enforce: spif_mbuff_comp
backend: sat
objbits: 6
flags: --slice-formula
funcs: spif_mbuff_cmp
*/
/*@unit
name: mbuff.comp.difflen
define: U_COMP, U_DIFFLEN, U_NOT_KF
src: mbuff.c
native: mbuff
native_includes: mbuff.c
enforce: spif_mbuff_comp
backend: sat
objbits: 6
flags: --slice-formula
funcs: spif_mbuff_cmp
*/
/*@unit
name: mbuff.comp.difflen.eq
define: U_COMP, U_DIFFLEN, U_ONLY_KF
src: mbuff.c
native: mbuff
native_includes: mbuff.c
enforce: spif_mbuff_comp
backend: sat
objbits: 6
flags: --slice-formula
funcs: spif_mbuff_cmp
*/
/*@unit
name: mbuff.ncmp.within
define: U_NCMP, U_WITHIN
src: mbuff.c
native: mbuff
native_includes: mbuff.c
enforce: spif_mbuff_ncmp
backend: sat
objbits: 6
flags: --slice-formula
*/
/*@unit
name: mbuff.ncmp.beyond
define: U_NCMP, U_BEYOND, U_NOT_KF
src: mbuff.c
native: mbuff
native_includes: mbuff.c
enforce: spif_mbuff_ncmp
backend: sat
objbits: 6
flags: --slice-formula
*/
/*@unit
name: mbuff.ncmp.beyond.eq
define: U_NCMP, U_BEYOND, U_ONLY_KF
src: mbuff.c
native: mbuff
native_includes: mbuff.c
enforce: spif_mbuff_ncmp
backend: sat
objbits: 6
flags: --slice-formula
*/
/*@unit
name: mbuff.cmp_with_ptr.within
define: U_CMP_PTR, U_WITHIN
src: mbuff.c
native: mbuff
native_includes: mbuff.c
enforce: spif_mbuff_cmp_with_ptr
backend: sat
objbits: 6
flags: --slice-formula
*/
/*@unit
name: mbuff.cmp_with_ptr.slack
define: U_CMP_PTR, U_SLACK
src: mbuff.c
native: mbuff
native_includes: mbuff.c
enforce: spif_mbuff_cmp_with_ptr
backend: sat
objbits: 6
flags: --slice-formula
*/
/*@unit
name: mbuff.cmp_with_ptr.beyond
define: U_CMP_PTR, U_BEYOND
src: mbuff.c
native: mbuff
native_includes: mbuff.c
enforce: spif_mbuff_cmp_with_ptr
backend: sat
objbits: 6
flags: --slice-formula
*/
/*@unit
name: mbuff.cmp_with_ptr.null
define: U_CMP_PTR, U_NULL
src: mbuff.c
native: mbuff
native_includes: mbuff.c
enforce: spif_mbuff_cmp_with_ptr
backend: sat
objbits: 6
flags: --slice-formula
*/
/*@unit
name: mbuff.ncmp_with_ptr.within
define: U_NCMP_PTR, U_WITHIN
src: mbuff.c
native: mbuff
native_includes: mbuff.c
enforce: spif_mbuff_ncmp_with_ptr
backend: sat
objbits: 6
flags: --slice-formula
funcs: spif_mbuff_cmp_with_ptr
*/
/*@unit
name: mbuff.ncmp_with_ptr.slack
define: U_NCMP_PTR, U_SLACK
src: mbuff.c
native: mbuff
native_includes: mbuff.c
enforce: spif_mbuff_ncmp_with_ptr
backend: sat
objbits: 6
flags: --slice-formula
funcs: spif_mbuff_cmp_with_ptr
*/
/*@unit
name: mbuff.ncmp_with_ptr.beyond
define: U_NCMP_PTR, U_BEYOND
src: mbuff.c
native: mbuff
native_includes: mbuff.c
enforce: spif_mbuff_ncmp_with_ptr
backend: sat
objbits: 6
flags: --slice-formula
funcs: spif_mbuff_cmp_with_ptr
*/
/*@unit
name: mbuff.ncmp_with_ptr.null
define: U_NCMP_PTR, U_NULL
src: mbuff.c
native: mbuff
native_includes: mbuff.c
enforce: spif_mbuff_ncmp_with_ptr
backend: sat
objbits: 6
flags: --slice-formula
funcs: spif_mbuff_cmp_with_ptr
*/
#include "vprelude.h"
#include "env_mbuff.h"
#include "mbuff.h"
#include "src/mbuff.c"

#define RV  __CPROVER_return_value
#define D   vg_cmp_d
/* ideal three-way comparison of A[0..la) with B[0..lb), first difference witnessed by D */
#define CMP_M(la, lb)  VMIN((size_t) (la), (size_t) (lb))
#define CMP_IDEAL_EQ(A, la, B, lb) \
    ((la) == (lb) && (!(vg_k < (size_t) (la)) || (A)[vg_k] == (B)[vg_k]))
#define CMP_IDEAL_LT(A, la, B, lb) \
    (D <= CMP_M(la, lb) && (!(vg_k < D) || (A)[vg_k] == (B)[vg_k]) && \
     (D < CMP_M(la, lb) ? (A)[D] < (B)[D] : (la) < (lb)))
#define CMP_IDEAL_GT(A, la, B, lb) \
    (D <= CMP_M(la, lb) && (!(vg_k < D) || (A)[vg_k] == (B)[vg_k]) && \
     (D < CMP_M(la, lb) ? (A)[D] > (B)[D] : (la) > (lb)))
#define CMP_CONTRACT(A, la, B, lb) \
    __CPROVER_assigns(vg_cmp_d) \
    ENS(RV == SPIF_CMP_LESS || RV == SPIF_CMP_EQUAL || RV == SPIF_CMP_GREATER) \
    ENS_KF(RV != SPIF_CMP_EQUAL || CMP_IDEAL_EQ(A, la, B, lb)) \
    ENS(RV != SPIF_CMP_LESS || CMP_IDEAL_LT(A, la, B, lb)) \
    ENS(RV != SPIF_CMP_GREATER || CMP_IDEAL_GT(A, la, B, lb))

#if defined(U_CMP) || defined(U_COMP)
# ifdef U_CMP
#  define FN spif_mbuff_cmp
# else
#  define FN spif_mbuff_comp
# endif
# ifdef U_NULL
spif_cmp_t FN(spif_mbuff_t self, spif_mbuff_t other)
__CPROVER_requires((self == NULL || MBUFF_INV(self)) && (other == NULL || MBUFF_INV(other)) && (self == NULL || other == NULL))
__CPROVER_requires(MB_WIT_SELF(self) && MB_WIT_OTHER(other))
__CPROVER_assigns(vg_cmp_d)
__CPROVER_ensures(RV == (self == NULL ? (other == NULL ? SPIF_CMP_EQUAL : SPIF_CMP_LESS) : SPIF_CMP_GREATER))
;
# else
#  ifdef U_SAMELEN
#   define LENS(a, b) ((a)->len == (b)->len)
#  else
#   define LENS(a, b) ((a)->len != (b)->len)
#  endif
spif_cmp_t FN(spif_mbuff_t self, spif_mbuff_t other)
__CPROVER_requires(MBUFF_INV(self) && MBUFF_INV(other) && LENS(self, other))
__CPROVER_requires(MB_WIT_SELF(self) && MB_WIT_OTHER(other))
CMP_CONTRACT(self->buff, self->len, other->buff, other->len)
;
# endif
void harness(void)
{
    spif_mbuff_t self, other;
    FN(self, other);
    VERIF_CANARY();
}
#endif

#ifdef U_NCMP
/* first cnt bytes of each; cnt is a count: negative values have no meaning (call sites pass lengths) */
# define NA  VMIN(cnt, self->len)
# define NB  VMIN(cnt, other->len)
# ifdef U_WITHIN
#  define CNT(a, b, c) (0 <= (c) && (c) <= (a)->len && (c) <= (b)->len)
# else
#  define CNT(a, b, c) (0 <= (c) && ((c) > (a)->len || (c) > (b)->len))
# endif
spif_cmp_t spif_mbuff_ncmp(spif_mbuff_t self, spif_mbuff_t other, spif_memidx_t cnt)
__CPROVER_requires(MBUFF_INV(self) && MBUFF_INV(other) && CNT(self, other, cnt))
__CPROVER_requires(MB_WIT_SELF(self) && MB_WIT_OTHER(other))
CMP_CONTRACT(self->buff, NA, other->buff, NB)
;
void harness(void)
{
    spif_mbuff_t self, other; spif_memidx_t cnt;
    w_cnt = cnt;
    spif_mbuff_ncmp(self, other, cnt);
    VERIF_CANARY();
}
#endif

#if defined(U_CMP_PTR) || defined(U_NCMP_PTR)
/* cmp_with_ptr(self, p, n) and its alias ncmp_with_ptr compare n bytes of self with p[0..n) - the library's own
 * tests use it that way (test.c: a 6-byte buffer "equals" the 5 bytes "is is").
 *   .within  n <= len           ideal comparison of the first n bytes of the sequence with p[0..n)
 *   .slack   len < n <= size    the bytes between len and size are compared too.  The ideal sequence would answer
 *                               LESS (it has ended), but the baseline test suite requires this reading (test.c:980
 *                               compares the terminator that sprintf leaves in the slack), so only memory safety and
 *                               the range of the answer are specified here - stated limitation, not a finding
 *   .beyond  n > size           the sequence is shorter than n: never EQUAL; on this tree memcmp reads past the
 *                               block (C07-mbuff-cmp-ptr-overread) */
# ifdef U_CMP_PTR
#  define FN spif_mbuff_cmp_with_ptr
# else
#  define FN spif_mbuff_ncmp_with_ptr
# endif
# if defined(U_WITHIN)
#  define REL(a, n) ((n) <= (a)->len)
# elif defined(U_SLACK)
#  define REL(a, n) ((n) > (a)->len && (n) <= (a)->size)
# else
#  define REL(a, n) ((n) > (a)->size)
# endif
# ifdef U_NULL
spif_cmp_t FN(spif_mbuff_t self, spif_byteptr_t other, spif_memidx_t len)
__CPROVER_requires((self == NULL || MBUFF_INV(self)) && (self == NULL || other == NULL))
__CPROVER_requires(0 <= len && len <= VCAP && (other == NULL || __CPROVER_is_fresh(other, (size_t) len)))
__CPROVER_requires(MB_WIT_SELF(self))
__CPROVER_assigns(vg_cmp_d)
__CPROVER_ensures(RV == (self == NULL ? (other == NULL ? SPIF_CMP_EQUAL : SPIF_CMP_LESS) : SPIF_CMP_GREATER))
;
# else
spif_cmp_t FN(spif_mbuff_t self, spif_byteptr_t other, spif_memidx_t len)
__CPROVER_requires(MBUFF_INV(self) && 0 <= len && len <= VCAP && __CPROVER_is_fresh(other, (size_t) len) && REL(self, len))
__CPROVER_requires(MB_WIT_SELF(self))
#  if defined(U_WITHIN)
CMP_CONTRACT(self->buff, len, other, len)
#  else
__CPROVER_assigns(vg_cmp_d)
__CPROVER_ensures(RV == SPIF_CMP_LESS || RV == SPIF_CMP_EQUAL || RV == SPIF_CMP_GREATER)
#   ifdef U_BEYOND
__CPROVER_ensures(RV != SPIF_CMP_EQUAL)
#   endif
#  endif
;
# endif
void harness(void)
{
    spif_mbuff_t self; spif_byteptr_t other; spif_memidx_t len;
    w_n = len;
    FN(self, other, len);
    VERIF_CANARY();
}
#endif
